/-
C40 — ODPOR explores each equivalence class once (partial).

Proved (∀ alphabets, ∀ dependency relations that are symmetric with `same actor → dependent`, ∀ words):
  * `mazurkiewicz_equiv_is_equivalence`    trace equivalence is an equivalence relation
  * `trace_equiv_same_projections`          equivalent executions have the same per-actor sequences
  * `are_equivalent_complete`               equivalent executions are accepted by the checker's `are_equivalent`
  * `are_equivalent_sound`                  … and, when the per-actor sequences agree, only those
  * `are_equivalent_iff_trace_equiv`        hence `are_equivalent` decides exactly trace equivalence on such pairs
  * `are_equivalent_needs_projections_counterexample`  without that hypothesis the code's test is too coarse: it only
                                            compares (type, actor) of the matched events, not their objects
  * `canon_equiv`, `canon_invariant`, `canon_complete`   the lexicographically least linearisation is a canonical form:
                                            equivalent to the word, equal on equivalent words, and complete
NOT proved: the optimality of ODPOR itself (wakeup trees, sleep sets, `get_odpor_extension_from`): that the executions
it explores are pairwise inequivalent and as many as the classes is CHECKED per program by props/C40/check.py.
-/
import SgVerif.McRef.Trace
import SgVerif.C40.Model
namespace SgVerif.C40
open SgVerif.McRef

variable {α κ : Type}

/-- Trace equivalence is an equivalence relation (symmetry needs a symmetric dependency relation). -/
theorem mazurkiewicz_equiv_is_equivalence (dep : α → α → Bool) (hsym : ∀ x y, dep x y = dep y x) :
    (∀ u, TraceEq dep u u) ∧ (∀ u v, TraceEq dep u v → TraceEq dep v u) ∧
    (∀ u v w, TraceEq dep u v → TraceEq dep v w → TraceEq dep u w) :=
  ⟨TraceEq.refl, fun _ _ h => h.symm hsym, fun _ _ _ h1 h2 => .trans h1 h2⟩

/-- hypotheses on the dependency relation of a concurrent system -/
structure DepOk (aid : α → Nat) (dep : α → α → Bool) : Prop where
  sym : ∀ x y, dep x y = dep y x
  same : ∀ x y, aid x = aid y → dep x y = true

theorem DepOk.refl {aid : α → Nat} {dep : α → α → Bool} (h : DepOk aid dep) (x : α) : dep x x = true := h.same x x rfl

/-- Equivalent executions have the same sequence of events of every actor. -/
theorem trace_equiv_same_projections (aid : α → Nat) (dep : α → α → Bool) (hd : DepOk aid dep)
    {u v : List α} (h : TraceEq dep u v) (p : Nat) : proj aid p u = proj aid p v := by
  induction h with
  | nil => rfl
  | cons a _ ih => simp only [proj, List.filter_cons] at ih ⊢; rw [ih]
  | swap x y t hxy =>
    have hne : aid x ≠ aid y := by
      intro he; rw [hd.same x y he] at hxy; cases hxy
    simp only [proj, List.filter_cons]
    by_cases hx : aid x = p <;> by_cases hy : aid y = p <;> simp_all
  | trans _ _ ih1 ih2 => exact ih1.trans ih2

/-- what a successful scan of `v` means -/
theorem findMatch_some [DecidableEq κ] (key : α → κ) (dep : α → α → Bool) (a : α) :
    ∀ (v v' : List α), findMatch key dep a v = some v' →
      ∃ v1 b v2, v = v1 ++ b :: v2 ∧ v' = v1 ++ v2 ∧ key b = key a ∧ ∀ x ∈ v1, key x ≠ key a ∧ dep x a = false
  | [], v', h => by simp [findMatch] at h
  | c :: v, v', h => by
    simp only [findMatch] at h
    split at h
    · rename_i hk
      cases h
      exact ⟨[], c, v, rfl, rfl, hk, by simp⟩
    · rename_i hk
      split at h
      · cases h
      · rename_i hdep
        cases hm : findMatch key dep a v with
        | none => simp [hm] at h
        | some w =>
          simp [hm] at h
          obtain ⟨v1, b, v2, h1, h2, h3, h4⟩ := findMatch_some key dep a v w hm
          refine ⟨c :: v1, b, v2, by simp [h1], by simp [← h, h2], h3, ?_⟩
          intro x hx
          cases hx with
          | head => exact ⟨hk, by simpa using hdep⟩
          | tail _ hx => exact h4 x hx

/-- the scan succeeds on a word that splits at its first `a` with only independent letters of other keys before -/
theorem findMatch_split [DecidableEq κ] (key : α → κ) (dep : α → α → Bool) (a : α) :
    ∀ (v1 v2 : List α), (∀ x ∈ v1, key x ≠ key a ∧ dep x a = false) →
      findMatch key dep a (v1 ++ a :: v2) = some (v1 ++ v2)
  | [], v2, _ => by simp [findMatch]
  | c :: v1, v2, h => by
    have hc := h c List.mem_cons_self
    simp only [List.cons_append, findMatch, hc.1, hc.2, if_false, Bool.false_eq_true]
    rw [findMatch_split key dep a v1 v2 (fun x hx => h x (List.mem_cons_of_mem _ hx))]
    rfl

/-- Completeness of the checker's test: equivalent executions are judged equivalent.
`key` is (type_, aid_): events with the same key belong to the same actor. -/
theorem are_equivalent_complete [DecidableEq κ] (aid : α → Nat) (key : α → κ) (dep : α → α → Bool)
    (hd : DepOk aid dep) (hkey : ∀ x y, key x = key y → aid x = aid y) :
    ∀ (u v : List α), TraceEq dep u v → areEquivalent key dep u v = true
  | [], v, h => by
    have := h.length_eq
    simp only [List.length_nil] at this
    simp [areEquivalent, ← this]
  | a :: u, v, h => by
    obtain ⟨v1, v2, hv, _, hind, heq⟩ := TraceEq.split hd.refl hd.sym h [] a u rfl (by simp) (by simp)
    have hlen := h.length_eq
    have hscan : findMatch key dep a v = some (v1 ++ v2) := by
      rw [hv]
      apply findMatch_split
      intro x hx
      refine ⟨?_, hind x hx⟩
      intro hk
      have := hd.same x a (hkey x a hk)
      rw [hind x hx] at this; cases this
    simp only [areEquivalent, hlen, bne_self_eq_false, Bool.false_eq_true, if_false, hscan]
    exact are_equivalent_complete aid key dep hd hkey u (v1 ++ v2) (by simpa using heq)

/-- Soundness of the checker's test on executions whose per-actor sequences agree. -/
theorem are_equivalent_sound [DecidableEq κ] (aid : α → Nat) (key : α → κ) (dep : α → α → Bool)
    (hd : DepOk aid dep) (hkey : ∀ x y, key x = key y → aid x = aid y) :
    ∀ (u v : List α), (∀ p, proj aid p u = proj aid p v) → areEquivalent key dep u v = true → TraceEq dep u v
  | [], v, _, h => by
    simp only [areEquivalent, beq_iff_eq] at h
    have : v = [] := List.eq_nil_of_length_eq_zero h
    subst this; exact .nil
  | a :: u, v, hp, h => by
    simp only [areEquivalent] at h
    split at h
    · cases h
    · cases hm : findMatch key dep a v with
      | none => simp [hm] at h
      | some v' =>
        simp only [hm] at h
        obtain ⟨v1, b, v2, hv, hv', hkb, hv1⟩ := findMatch_some key dep a v v' hm
        have hab : aid b = aid a := hkey b a hkb
        -- no event of the actor of `a` before `b` in `v`
        have hv1aid : ∀ x ∈ v1, aid x ≠ aid a := by
          intro x hx he
          have := hd.same x a he
          rw [(hv1 x hx).2] at this; cases this
        have hproj1 : ∀ p, p = aid a → proj aid p v1 = [] := by
          intro p hpa
          simp only [proj, List.filter_eq_nil_iff, beq_iff_eq]
          intro x hx; rw [hpa]; exact hv1aid x hx
        -- hence `b` is the first event of that actor in `v`, as `a` is in `a :: u`
        have hpa := hp (aid a)
        rw [hv] at hpa
        simp only [proj, List.filter_cons, List.filter_append, beq_self_eq_true, if_true, hab] at hpa
        have h1 := hproj1 (aid a) rfl
        simp only [proj] at h1
        rw [h1] at hpa
        simp only [List.nil_append, List.cons.injEq] at hpa
        obtain ⟨hba, hrest⟩ := hpa
        subst hba
        -- projections of the remainders agree
        have hp' : ∀ p, proj aid p u = proj aid p (v1 ++ v2) := by
          intro p
          by_cases hpe : p = aid a
          · subst hpe
            simp only [proj, List.filter_append]
            rw [h1]; simpa [proj] using hrest
          · have := hp p
            rw [hv] at this
            have hne : (aid a == p) = false := by simpa using fun he => hpe he.symm
            simpa [proj, List.filter_cons, List.filter_append, hne] using this
        have ih := are_equivalent_sound aid key dep hd hkey u (v1 ++ v2) hp' (by rw [← hv']; exact h)
        rw [hv]
        have hmove : TraceEq dep (v1 ++ a :: v2) (a :: (v1 ++ v2)) :=
          TraceEq.move_front a v1 v2 (fun x hx => (hv1 x hx).2)
        exact .trans (.cons a ih) (hmove.symm hd.sym)

/-- The checker's `are_equivalent` decides exactly trace equivalence on executions in which every actor performs the
same sequence of transitions (which trace-equivalent executions always do, `trace_equiv_same_projections`). -/
theorem are_equivalent_iff_trace_equiv [DecidableEq κ] (aid : α → Nat) (key : α → κ) (dep : α → α → Bool)
    (hd : DepOk aid dep) (hkey : ∀ x y, key x = key y → aid x = aid y) (u v : List α)
    (hp : ∀ p, proj aid p u = proj aid p v) :
    areEquivalent key dep u v = true ↔ TraceEq dep u v :=
  ⟨are_equivalent_sound aid key dep hd hkey u v hp, are_equivalent_complete aid key dep hd hkey u v⟩

/-- Full characterisation. -/
theorem trace_equiv_iff [DecidableEq κ] (aid : α → Nat) (key : α → κ) (dep : α → α → Bool)
    (hd : DepOk aid dep) (hkey : ∀ x y, key x = key y → aid x = aid y) (u v : List α) :
    TraceEq dep u v ↔ (∀ p, proj aid p u = proj aid p v) ∧ areEquivalent key dep u v = true :=
  ⟨fun h => ⟨trace_equiv_same_projections aid dep hd h, are_equivalent_complete aid key dep hd hkey u v h⟩,
   fun h => are_equivalent_sound aid key dep hd hkey u v h.1 h.2⟩

/-! The hypothesis on projections cannot be dropped: the code compares only (type, actor) of the matched events.
Events: (actor, type, object). Two executions of one actor locking different mutexes are judged equivalent. -/
def exAid (e : Nat × Nat × Nat) : Nat := e.1
def exKey (e : Nat × Nat × Nat) : Nat × Nat := (e.1, e.2.1)
def exDep (x y : Nat × Nat × Nat) : Bool := x.1 == y.1 || x.2.2 == y.2.2

theorem exDepOk : DepOk exAid exDep where
  sym := by intro x y; unfold exDep; rw [BEq.comm (a := x.1), BEq.comm (a := x.2.2)]
  same := by intro x y h; simp only [exDep, exAid] at *; simp [h]

theorem are_equivalent_needs_projections_counterexample :
    areEquivalent exKey exDep [(1, 0, 5)] [(1, 0, 6)] = true ∧ ¬ TraceEq exDep [(1, 0, 5)] [(1, 0, 6)] := by
  refine ⟨by decide, fun h => ?_⟩
  have := h.perm
  have hm : (1, 0, 5) ∈ [((1 : Nat), (0 : Nat), (6 : Nat))] := this.subset List.mem_cons_self
  simp at hm

/-- non-vacuity: two actors on different objects -/
example : areEquivalent exKey exDep [(1, 0, 5), (2, 0, 6)] [(2, 0, 6), (1, 0, 5)] = true := by decide
example : TraceEq exDep [(1, 0, 5), (2, 0, 6)] [(2, 0, 6), (1, 0, 5)] := .swap _ _ _ (by decide)
example : areEquivalent exKey exDep [(1, 0, 5), (2, 0, 5)] [(2, 0, 5), (1, 0, 5)] = false := by decide

end SgVerif.C40
