import SgVerif.C23.Model
import Mathlib.Tactic.Linarith
import Mathlib.Tactic.Ring
import Mathlib.Tactic.SplitIfs
import Mathlib.Tactic.Positivity
/-
C23 — energy accounting integrates the power model.  Property theorems.
All theorems are for every platform description (power tables, speeds, cores), every timeline (any number of intervals).
-/
namespace SgVerif.C23

/-- the documented power function: off power while off, idle power when unloaded, `epsilon + load*(max - epsilon)` of the
current pstate otherwise, with `load` = used fraction of the cores (here: flop/s in use / (speed * cores), at most 1) -/
theorem watts_is_power_model (c : HostCfg) (ps : Nat) (load : Rat) (r : PowerRange) (speed : Rat)
    (hr : c.ranges[ps]? = some r) (hs : c.speeds.getD ps 0 = speed) (hsp : 0 < speed) (hc : 0 < c.cores)
    (hl0 : 0 ≤ load) (hl1 : load ≤ speed * c.cores) :
    watts c none load = c.wattsOff ∧
    watts c (some ps) load =
      (if load = 0 then r.idle else r.epsilon + (load / (speed * c.cores)) * (r.max - r.epsilon)) := by
  refine ⟨rfl, ?_⟩
  have hne : c.ranges.isEmpty = false := by
    cases h : c.ranges with
    | nil => rw [h] at hr; simp at hr
    | cons _ _ => rfl
  have hcq : (0 : Rat) < (c.cores : Rat) := by exact_mod_cast hc
  have hle : load / speed / (c.cores : Rat) ≤ 1 := by
    rw [div_div, div_le_one (mul_pos hsp hcq)]; exact hl1
  simp only [watts, hs, not_le.mpr hsp, if_false, hne, Bool.false_eq_true, hr, not_lt.mpr hle]
  by_cases h0 : load = 0
  · simp [h0]
  · have hpos : 0 < load := lt_of_le_of_ne hl0 (Ne.symm h0)
    have hpos2 : load / (speed * (c.cores : Rat)) > 0 := by positivity
    simp only [h0, if_false, div_div]
    rw [if_pos hpos2]

/-- **energy_eq_integral**: if `update` is called at the end of every interval on which load, pstate and on/off are
constant (which is what the plugin's subscriptions to on_onoff / on_speed_change / on_exec_state_change / Exec::on_start
provide, each firing before the LMM is solved again), the accumulated energy is the integral of the power function:
`total = total_0 + Σ power(state_i, load_i) * dur_i` — ∀ timelines with positive durations. -/
theorem energy_eq_integral (c : HostCfg) (h : HE) (segs : List Seg)
    (hdur : ∀ s ∈ segs, 0 < s.dur) (hstate : ∀ s, segs.head? = some s → h.pstate = s.state) :
    (runSegs c h segs).total = h.total + integral c segs := by
  induction segs generalizing h with
  | nil => simp [runSegs, integral]
  | cons s r ih =>
    have hd : 0 < s.dur := hdur s (by simp)
    have hps : h.pstate = s.state := hstate s rfl
    have hlt : h.last < h.last + s.dur := by linarith
    cases r with
    | nil =>
      simp only [runSegs, update, hlt, if_true, integral, hps]
      ring
    | cons s2 r2 =>
      simp only [runSegs]
      rw [ih _ (fun x hx => hdur x (by simp [hx]))]
      · simp only [update, hlt, if_true, integral, hps]
        ring
      · intro x hx
        simp only [List.head?_cons, Option.some.injEq] at hx
        subst hx
        simp only [update, stateOn, statePs]
        cases hs : s2.state with
        | none => simp
        | some p => simp

/-- **energy_monotone**: with non-negative powers in the platform description, an `update` never decreases the total -/
theorem energy_monotone (c : HostCfg) (h : HE) (now load : Rat) (isOn : Bool) (ps : Nat)
    (hw : ∀ st l, 0 ≤ watts c st l) : h.total ≤ (update c h now load isOn ps).total := by
  simp only [update]
  split_ifs with hlt
  · have := hw h.pstate load
    have : 0 ≤ watts c h.pstate load * (now - h.last) := mul_nonneg this (by linarith)
    simp only
    linarith
  · exact le_refl _

/-- the hypothesis of `energy_monotone` follows from non-negative entries `0 ≤ idle`, `0 ≤ epsilon ≤ max`, `0 ≤ off` -/
theorem watts_nonneg (c : HostCfg) (hoff : 0 ≤ c.wattsOff)
    (hr : ∀ r ∈ c.ranges, 0 ≤ r.idle ∧ 0 ≤ r.epsilon ∧ r.epsilon ≤ r.max) (st : Option Nat) (l : Rat) :
    0 ≤ watts c st l := by
  cases st with
  | none => exact hoff
  | some ps =>
    simp only [watts]
    by_cases h1 : c.ranges.isEmpty = true
    · simp [h1]
    · simp only [h1, if_false]
      cases hq : c.ranges[ps]? with
      | none => simp
      | some r =>
        have hm := hr r (List.mem_of_getElem? hq)
        have key : ∀ cl : Rat, 0 ≤ (if cl > 0 then r.epsilon + cl * (r.max - r.epsilon) else r.idle) := by
          intro cl
          split_ifs with h5
          · have : 0 ≤ cl * (r.max - r.epsilon) := mul_nonneg (le_of_lt h5) (by linarith [hm.2.2])
            linarith [hm.2.1]
          · exact hm.1
        exact key _

/-- **link energy**: `update` at the end of every interval of constant load accumulates the integral of
`idle + (busy - idle) * load / bandwidth` -/
theorem link_energy_eq_integral (idle busy bw : Rat) (l : LE) (segs : List (Rat × Rat)) :
    (linkRun idle busy bw l segs).total = l.total + linkIntegral idle busy bw segs := by
  induction segs generalizing l with
  | nil => simp [linkRun, linkIntegral]
  | cons s r ih =>
    obtain ⟨d, load⟩ := s
    simp only [linkRun, linkIntegral]
    rw [ih]
    simp only [linkUpdate]
    ring

/-! ### non-vacuity -/
example : (runSegs { ranges := [{ idle := 100, epsilon := 120, max := 200 }], speeds := [1024], cores := 4, wattsOff := 10 }
    { total := 0, last := 0, pstate := some 0 } [{ dur := 2, load := 1024, state := some 0 }, { dur := 3, load := 0, state := none }]).total
    = 0 + integral { ranges := [{ idle := 100, epsilon := 120, max := 200 }], speeds := [1024], cores := 4, wattsOff := 10 }
        [{ dur := 2, load := 1024, state := some 0 }, { dur := 3, load := 0, state := none }] := by
  apply energy_eq_integral
  · intro s hs; simp at hs; rcases hs with rfl | rfl <;> norm_num
  · intro s hs; simp at hs; subst hs; rfl

end SgVerif.C23
