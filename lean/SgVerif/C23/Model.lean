/-
C23 — energy accounting integrates the power model.  Executable model (core Lean only, `Rat`).

Mirrors src/plugins/host_energy.cpp:
  * `PowerRange(idle, epsilon, max)`, `init_watts_range_list` (2 values `Idle:AllCores` → epsilon = idle; 3 values) → `PowerRange`
  * `HostEnergy::get_current_watts_value()` (stored `pstate_`, -1 = off → `watts_off_`; speed ≤ 0 → load 1;
    `cpu_load = load / speed / cores`, clamp to 1) and `get_current_watts_value(cpu_load)`
    (`cpu_load > 0 ? epsilon + cpu_load*slope : idle`) → `watts`
  * `HostEnergy::update()` (`if (start < finish) total += watts * (finish - start); last = finish;` then
    `pstate_ = host is on ? host pstate : -1`) → `update`
and src/plugins/link_energy.cpp: `LinkEnergy::get_power` (`idle + (busy-idle) * load/bandwidth`), `LinkEnergy::update` → `linkPower`, `linkUpdate`.
The plugin calls `update` from: Host::on_onoff, Host::on_speed_change (set_pstate and speed profiles), Host::on_exec_state_change
(an exec action changes state), Exec::on_start (single-host), Exec suspend/resume, VM suspend/resume, and from
`get_consumed_energy()`; each call happens BEFORE the LMM is solved again, so `Host::get_load()` still is the load of
the interval that closes.
-/
namespace SgVerif.C23

structure PowerRange where
  idle : Rat
  epsilon : Rat
  max : Rat
  deriving Repr

structure HostCfg where
  ranges : List PowerRange      -- one per pstate (empty: no `wattage_per_state` property → 0 W)
  speeds : List Rat             -- speed of each pstate
  cores : Nat
  wattsOff : Rat
  deriving Repr

/-- `get_current_watts_value()` with the stored `pstate_` (`none` = `pstate_off_`) and the host load in flop/s -/
def watts (c : HostCfg) (pstate : Option Nat) (load : Rat) : Rat :=
  match pstate with
  | none => c.wattsOff
  | some ps =>
    let speed := c.speeds.getD ps 0
    let cpuLoad : Rat :=
      if speed ≤ 0 then 1
      else
        let l := load / speed / (c.cores : Rat)
        if l > 1 then 1 else l
    if c.ranges.isEmpty then 0 else
    match c.ranges[ps]? with
    | none => 0                    -- `.at()` would throw; `init_watts_range_list` asserts one entry per pstate
    | some r => if cpuLoad > 0 then r.epsilon + cpuLoad * (r.max - r.epsilon) else r.idle

structure HE where
  total : Rat
  last : Rat
  pstate : Option Nat
  deriving Repr

/-- `HostEnergy::update()` called at `now`, observing `load`, `isOn`, `hostPstate` -/
def update (c : HostCfg) (h : HE) (now load : Rat) (isOn : Bool) (hostPstate : Nat) : HE :=
  let h1 := if h.last < now then { h with total := h.total + watts c h.pstate load * (now - h.last), last := now } else h
  { h1 with pstate := if isOn then some hostPstate else none }

/-- a maximal interval during which load, pstate and on/off are constant; `update` is called at its end (because one of
them changes there), observing the closing load and the state of the NEXT interval -/
structure Seg where
  dur : Rat
  load : Rat
  state : Option Nat      -- pstate, or none when off
  deriving Repr

def stateOn (s : Option Nat) : Bool := s.isSome
def statePs (s : Option Nat) : Nat := s.getD 0

/-- run the plugin over a timeline: `h.pstate` must be the state of the first segment -/
def runSegs (c : HostCfg) (h : HE) : List Seg → HE
  | [] => h
  | [s] => update c h (h.last + s.dur) s.load (stateOn s.state) (statePs s.state)
  | s :: s2 :: r => runSegs c (update c h (h.last + s.dur) s.load (stateOn s2.state) (statePs s2.state)) (s2 :: r)

/-- the integral of the documented power function over the timeline -/
def integral (c : HostCfg) : List Seg → Rat
  | [] => 0
  | s :: r => watts c s.state s.load * s.dur + integral c r

/-! ## links -/

/-- `LinkEnergy::get_power` -/
def linkPower (idle busy load bandwidth : Rat) : Rat := idle + (busy - idle) * (load / bandwidth)

structure LE where
  total : Rat
  last : Rat
  deriving Repr

/-- `LinkEnergy::update` (no `start < finish` test: `power * 0` is added) -/
def linkUpdate (idle busy bandwidth : Rat) (l : LE) (now load : Rat) : LE :=
  { total := l.total + linkPower idle busy load bandwidth * (now - l.last), last := now }

def linkRun (idle busy bandwidth : Rat) (l : LE) : List (Rat × Rat) → LE     -- (duration, load)
  | [] => l
  | (d, load) :: r => linkRun idle busy bandwidth (linkUpdate idle busy bandwidth l (l.last + d) load) r

def linkIntegral (idle busy bandwidth : Rat) : List (Rat × Rat) → Rat
  | [] => 0
  | (d, load) :: r => linkPower idle busy load bandwidth * d + linkIntegral idle busy bandwidth r

end SgVerif.C23
