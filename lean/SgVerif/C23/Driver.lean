import SgVerif.C23.Model
import SgVerif.Common.Proto
open SgVerif.Proto
namespace SgVerif.C23

def parseRat (s : String) : Option Rat :=
  match s.splitOn "/" with
  | [n, d] => match n.toInt?, d.toNat? with
    | some n, some d => if d = 0 then none else some ((n : Rat) / (d : Rat))
    | _, _ => none
  | [n] => n.toInt?.map (fun n => (n : Rat))
  | _ => none

def rabs (x : Rat) : Rat := if x < 0 then -x else x
def close (a b scale : Rat) : Bool := rabs (a - b) ≤ (rabs scale) / 1000000000 + 1 / 1000000000000

def splitBar (q : List String) : List (List String) :=
  let rec go (cur : List String) (acc : List (List String)) : List String → List (List String)
    | [] => (cur.reverse :: acc).reverse
    | "|" :: r => go [] (cur.reverse :: acc) r
    | t :: r => go (t :: cur) acc r
  go [] [] q

def allSome {α : Type} : List (Option α) → Option (List α)
  | [] => some []
  | none :: _ => none
  | some a :: r => (allSome r).map (a :: ·)

def parseRange (t : String) : Option PowerRange :=
  match (t.splitOn ":").map parseRat with
  | [some i, some m] => some { idle := i, epsilon := i, max := m }
  | [some i, some e, some m] => some { idle := i, epsilon := e, max := m }
  | _ => none

structure Sample where
  tag : String
  t : Rat
  he : Option Rat      -- none: the energy was not read at this sample (no update forced)
  load : Rat
  ps : Nat
  on : Bool
  le : Option Rat
  lload : Rat

def parseSamples : List String → Option (List Sample)
  | [] => some []
  | tag :: t :: he :: load :: ps :: on :: le :: lload :: rest =>
    match parseRat t, parseRat load, ps.toNat?, parseRat lload, parseSamples rest with
    | some t, some load, some ps, some lload, some r =>
      if (he ≠ "-" ∧ (parseRat he).isNone) ∨ (le ≠ "-" ∧ (parseRat le).isNone) then none else
      some ({ tag := tag, t := t, he := parseRat he, load := load, ps := ps, on := on == "1", le := parseRat le,
              lload := lload } :: r)
    | _, _, _, _, _ => none
  | _ => none

/-- walk over consecutive samples: the state in force over [s1.t, s2.t] is the one observed at the `a` sample that starts
it (for an interval that starts at an event sample `e`, the one observed at its end: the LMM has been solved again).
`accH`/`accL`: integral of the power model since the last sample at which the energy was read (`lastH`/`lastL`). -/
def checkAll (c : HostCfg) (lidle lbusy bw : Rat) (lastT lastH lastL accH accL : Rat) (lf : Option String) :
    List Sample → Option String × Option String
  | s1 :: s2 :: rest =>
    let st := if s1.tag == "e" then s2 else s1
    let dt := s2.t - s1.t
    let accH := accH + watts c (if st.on then some st.ps else none) st.load * dt
    let accL := accL + linkPower lidle lbusy st.lload bw * dt
    match s2.he, s2.le with
    | some he, some le =>
      if ¬ close (he - lastH) accH he then
        (some s!"host energy over [{lastT},{s2.t}] grew by {he - lastH}, the power model integrates to {accH}", lf)
      else if he < lastH ∧ ¬ close he lastH lastH then (some s!"host energy decreased at {s2.t}", lf)
      else
        -- a link mismatch is recorded (first one) and the walk goes on, so that the host energy is checked to the end
        let lf := if lf.isNone ∧ ¬ close (le - lastL) accL le then
            some s!"link energy over [{lastT},{s2.t}] grew by {le - lastL}, the power model integrates to {accL}"
          else lf
        checkAll c lidle lbusy bw s2.t he le 0 0 lf (s2 :: rest)
    | _, _ => checkAll c lidle lbusy bw lastT lastH lastL accH accL lf (s2 :: rest)
  | _ => (none, lf)

def judge (q a : List String) : Verdict :=
  match splitBar q with
  | [[cores], speeds, ranges, [woff], [bw, _lat, lidle, lbusy], _ops] =>
    match cores.toNat?, allSome (speeds.map parseRat), allSome (ranges.map parseRange), parseRat woff, parseRat bw,
          parseRat lidle, parseRat lbusy with
    | some cores, some speeds, some ranges, some woff, some bw, some lidle, some lbusy =>
      let c : HostCfg := { ranges := ranges, speeds := speeds, cores := cores, wattsOff := woff }
      match a with
      | ["abort"] => .disagree "no-abort"
      | _n :: rest =>
        match parseSamples rest with
        | none => .bad
        | some ss =>
          match checkAll c lidle lbusy bw 0 0 0 0 0 none ss with
          | (some r, _) => .monfail (r ++ " key=host")
          | (none, some r) =>
            -- known mechanism: no update at the end of a comm's latency phase (only possible with a latency)
            .monfail (r ++ (if (parseRat _lat).getD 0 > 0 then " key=link-energy-latency-phase-accounted-at-final-load" else " key=link"))
          | (none, none) => .ok
      | _ => .bad
    | _, _, _, _, _, _, _ => .bad
  | _ => .bad

end SgVerif.C23

def main : IO Unit := SgVerif.Proto.run SgVerif.C23.judge
