import SgVerif.C28.Lemmas
/-
C28: refinement of the SMPI two-mailbox mechanism to the MPI matching spec (core only).

The refinement relation `Rel wr st sp q` uses a ghost queue `q` = all unmatched sends in ARRIVAL order, each labelled
with the mailbox it sits in; `wr` = the mailbox in which unmatched receives live.  `send_step` / `post_step` show that
one event keeps the relation and produces the same match, provided the mailbox chosen by `Request::start` is the right
one (hypotheses `hw`, `hsome`, `hnone`); the two run lemmas discharge these hypotheses
* when every size is on one side of the threshold (`one_side_run`: only one mailbox is ever used), and
* when every receive's compatible messages share one (src,tag) key and receive buffers are `≥ thresh`
  (`kd_run`: both mailboxes hold sends, the `message_id_` test singles out the oldest one).
-/
namespace SgVerif.C28

def Event.size : Event → Nat
  | .send m => m.size
  | .post r => r.size

/-- all messages that a receive of the history can match have one (src,tag) key -/
def KeyDetermined (h : List Event) : Prop :=
  ∀ r m1 m2, Event.post r ∈ h → Event.send m1 ∈ h → Event.send m2 ∈ h → compat r m1 = true → compat r m2 = true →
    m1.src = m2.src ∧ m1.tag = m2.tag

/-! ### record plumbing -/

def other : Which → Which
  | .small => .large
  | .large => .small

theorem other_ne (w : Which) : other w ≠ w := by cases w <;> simp [other]
theorem which_cases (wr w : Which) : w = wr ∨ w = other wr := by cases wr <;> cases w <;> simp [other]

theorem get_sent_upd (st : Mech) (x : List (Key × Nat)) (w : Which) : ({ st with sent := x } : Mech).get w = st.get w := by
  cases w <;> rfl
theorem get_recvd_upd (st : Mech) (x : List (Key × Nat)) (w : Which) : ({ st with recvd := x } : Mech).get w = st.get w := by
  cases w <;> rfl
theorem set_sent (st : Mech) (w : Which) (mb : Mbox) : (st.set w mb).sent = st.sent := by cases w <;> rfl
theorem set_recvd (st : Mech) (w : Which) (mb : Mbox) : (st.set w mb).recvd = st.recvd := by cases w <;> rfl
theorem set_thresh (st : Mech) (w : Which) (mb : Mbox) : (st.set w mb).thresh = st.thresh := by cases w <;> rfl

theorem set_sends_recvs (st : Mech) (w w' : Which) (x : List MSend) :
    ((st.set w { st.get w with sends := x }).get w').recvs = (st.get w').recvs := by cases w <;> cases w' <;> rfl
theorem set_sends_sends (st : Mech) (w w' : Which) (x : List MSend) :
    ((st.set w { st.get w with sends := x }).get w').sends = if w' = w then x else (st.get w').sends := by
  cases w <;> cases w' <;> rfl
theorem set_recvs_sends (st : Mech) (w w' : Which) (x : List Rcv) :
    ((st.set w { st.get w with recvs := x }).get w').sends = (st.get w').sends := by cases w <;> cases w' <;> rfl
theorem set_recvs_recvs (st : Mech) (w w' : Which) (x : List Rcv) :
    ((st.set w { st.get w with recvs := x }).get w').recvs = if w' = w then x else (st.get w').recvs := by
  cases w <;> cases w' <;> rfl

/-! ### the send request and the state in which `Request::start` runs -/

/-- the send request of message `m`: `message_id_` = sent-counter of its key -/
def sendReq (st : Mech) (m : Msg) : MSend := { m := m, seq := cnt st.sent (m.src, m.tag) }
/-- the state after the sent-counter increment -/
def afterSent (st : Mech) (m : Msg) : Mech := { st with sent := incr st.sent (m.src, m.tag) }

theorem mechStep_send_eq (st : Mech) (m : Msg) :
    mechStep st (.send m) =
      match takeFirst (fun r => matchBoth (afterSent st m) r (sendReq st m))
          ((afterSent st m).get (sendMailbox (afterSent st m) (sendReq st m))).recvs with
      | some (r, rest) =>
        ({ (afterSent st m).set (sendMailbox (afterSent st m) (sendReq st m))
              { (afterSent st m).get (sendMailbox (afterSent st m) (sendReq st m)) with recvs := rest } with
            recvd := incr (afterSent st m).recvd (m.src, m.tag) }, some (r, m))
      | none =>
        ((afterSent st m).set (sendMailbox (afterSent st m) (sendReq st m))
            { (afterSent st m).get (sendMailbox (afterSent st m) (sendReq st m)) with
              sends := ((afterSent st m).get (sendMailbox (afterSent st m) (sendReq st m))).sends ++ [sendReq st m] },
          none) := rfl

theorem mechStep_post_eq (st : Mech) (r : Rcv) :
    mechStep st (.post r) =
      match takeFirst (fun s => matchBoth st r s) (st.get (recvMailbox st r)).sends with
      | some (s, rest) =>
        ({ st.set (recvMailbox st r) { st.get (recvMailbox st r) with sends := rest } with
            recvd := incr st.recvd (s.m.src, s.m.tag) }, some (r, s.m))
      | none =>
        (st.set (recvMailbox st r) { st.get (recvMailbox st r) with recvs := (st.get (recvMailbox st r)).recvs ++ [r] },
          none) := rfl

theorem afterSent_get (st : Mech) (m : Msg) (w : Which) : (afterSent st m).get w = st.get w := get_sent_upd _ _ _

/-! ### the refinement relation -/

structure Rel (wr : Which) (st : Mech) (sp : SpecState) (q : List (Which × MSend)) : Prop where
  recvs : (st.get wr).recvs = sp.posted
  norecv : (st.get (other wr)).recvs = []
  unexp : sp.unexp = q.map (fun e => e.2.m)
  sends : ∀ w, (st.get w).sends = (q.filter (fun e => decide (e.1 = w))).map (·.2)
  seq : SeqOK (cnt st.recvd) (q.map (·.2))
  sent : cnt st.sent = endf (cnt st.recvd) (q.map (·.2))
  inv : Inv sp

theorem rel_init (wr : Which) (thresh : Nat) : Rel wr { thresh := thresh } {} [] := by
  refine ⟨?_, ?_, rfl, ?_, trivial, rfl, inv_init⟩
  · cases wr <;> rfl
  · cases wr <;> rfl
  · intro w; cases w <;> rfl

/-- when a posted receive is compatible with the arriving message, no queued send has the message's key, so the
`message_id_` test of `match_send` passes: on posted receives `matchBoth` is `compat` -/
theorem matchBoth_send (wr : Which) (st : Mech) (sp : SpecState) (q : List (Which × MSend)) (m : Msg) (hR : Rel wr st sp q)
    (hex : ∃ r0 ∈ sp.posted, compat r0 m = true) (r : Rcv) :
    matchBoth (afterSent st m) r (sendReq st m) = compat r m := by
  obtain ⟨r0, hr0, hc0⟩ := hex
  have hnokey : ∀ y ∈ q.map (·.2), y.key ≠ (m.src, m.tag) := by
    intro y hy hk
    obtain ⟨e, he, rfl⟩ := List.mem_map.mp hy
    have hm : e.2.m ∈ sp.unexp := by rw [hR.unexp]; exact List.mem_map.mpr ⟨e, he, rfl⟩
    have h1 := hR.inv r0 hr0 _ hm
    rw [compat_key r0 e.2.m m hk, hc0] at h1
    cases h1
  have hseq : (sendReq st m).seq = cnt st.recvd (m.src, m.tag) := by
    show cnt st.sent (m.src, m.tag) = _
    rw [hR.sent, endf_eq_of_no_key _ _ _ hnokey]
  unfold matchBoth
  have h2 : (afterSent st m).recvd = st.recvd := rfl
  have h3 : (sendReq st m).m = m := rfl
  rw [h2, h3, hseq]
  simp

theorem matchBoth_compat (st : Mech) (r : Rcv) (s : MSend) (h : compat r s.m = false) : matchBoth st r s = false := by
  simp [matchBoth, h]

/-- **one arrival keeps the relation and makes the same match**, provided that, when a compatible receive is posted,
`Request::start` sends to the mailbox where receives live -/
theorem send_step (wr : Which) (st : Mech) (sp : SpecState) (q : List (Which × MSend)) (m : Msg) (hR : Rel wr st sp q)
    (hw : (∃ r0 ∈ sp.posted, compat r0 m = true) → sendMailbox (afterSent st m) (sendReq st m) = wr) :
    (mechStep st (.send m)).2 = (specStep sp (.send m)).2 ∧
    ∃ q', Rel wr (mechStep st (.send m)).1 (specStep sp (.send m)).1 q' ∧
      ∀ e ∈ q', e ∈ q ∨ e = (sendMailbox (afterSent st m) (sendReq st m), sendReq st m) := by
  have hinv := inv_step sp (.send m) hR.inv
  cases ht : takeFirst (fun r => compat r m) sp.posted with
  | none =>
    have hnc := takeFirst_none _ _ ht
    have hsp : specStep sp (.send m) = ({ sp with unexp := sp.unexp ++ [m] }, none) := by
      simp only [specStep, ht]
    have hmn : takeFirst (fun r => matchBoth (afterSent st m) r (sendReq st m))
        ((afterSent st m).get (sendMailbox (afterSent st m) (sendReq st m))).recvs = none := by
      apply takeFirst_none_of
      intro r hr
      rw [afterSent_get] at hr
      rcases which_cases wr (sendMailbox (afterSent st m) (sendReq st m)) with hw' | hw'
      · rw [hw', hR.recvs] at hr
        exact matchBoth_compat _ _ _ (hnc r hr)
      · rw [hw', hR.norecv] at hr; cases hr
    rw [mechStep_send_eq, hmn, hsp]
    rw [hsp] at hinv
    refine ⟨rfl, q ++ [(sendMailbox (afterSent st m) (sendReq st m), sendReq st m)], ?_, ?_⟩
    · generalize sendMailbox (afterSent st m) (sendReq st m) = w
      refine ⟨?_, ?_, ?_, ?_, ?_, ?_, hinv⟩
      · show ((_ : Mech).get wr).recvs = sp.posted
        rw [set_sends_recvs, afterSent_get, hR.recvs]
      · show ((_ : Mech).get (other wr)).recvs = []
        rw [set_sends_recvs, afterSent_get, hR.norecv]
      · show sp.unexp ++ [m] = _
        rw [hR.unexp]; simp [sendReq]
      · intro w'
        show ((_ : Mech).get w').sends = _
        rw [set_sends_sends, afterSent_get, afterSent_get, hR.sends, hR.sends]
        by_cases h : w' = w
        · subst h; simp
        · have : ¬ w = w' := fun e => h e.symm
          simp [h, this]
      · show SeqOK (cnt ((afterSent st m).set w _).recvd) _
        rw [set_recvd, List.map_append]
        apply seqOK_snoc _ _ _ hR.seq
        show cnt st.sent (m.src, m.tag) = _
        rw [hR.sent]; rfl
      · show cnt ((afterSent st m).set w _).sent = endf (cnt ((afterSent st m).set w _).recvd) _
        rw [set_sent, set_recvd]
        show cnt (incr st.sent (m.src, m.tag)) = endf (cnt st.recvd) _
        rw [cnt_incr_fun, hR.sent, List.map_append, endf_append]
        rfl
    · intro e he
      rcases List.mem_append.mp he with h | h
      · exact Or.inl h
      · exact Or.inr (by simpa using h)
  | some v =>
    obtain ⟨r0, rest⟩ := v
    obtain ⟨pre0, post0, hp1, _, hp3, _⟩ := takeFirst_some _ _ _ _ ht
    have hex : ∃ r0 ∈ sp.posted, compat r0 m = true := ⟨r0, by rw [hp1]; simp, hp3⟩
    have hwr := hw hex
    have hsp : specStep sp (.send m) = ({ sp with posted := rest }, some (r0, m)) := by
      simp only [specStep, ht]
    have hms : takeFirst (fun r => matchBoth (afterSent st m) r (sendReq st m))
        ((afterSent st m).get (sendMailbox (afterSent st m) (sendReq st m))).recvs = some (r0, rest) := by
      rw [hwr, afterSent_get, hR.recvs, ← ht]
      apply takeFirst_congr
      intro r _
      exact matchBoth_send wr st sp q m hR hex r
    have hnokey : ∀ y ∈ q.map (·.2), y.key ≠ (m.src, m.tag) := by
      intro y hy hk
      obtain ⟨e, he, rfl⟩ := List.mem_map.mp hy
      have hm : e.2.m ∈ sp.unexp := by rw [hR.unexp]; exact List.mem_map.mpr ⟨e, he, rfl⟩
      have h1 := hR.inv r0 (by rw [hp1]; simp) _ hm
      rw [compat_key r0 e.2.m m hk, hp3] at h1
      cases h1
    have hb := seqOK_bump_no_key (cnt st.recvd) (q.map (·.2)) (m.src, m.tag) hnokey
    rw [mechStep_send_eq, hms, hsp]
    rw [hsp] at hinv
    refine ⟨rfl, q, ?_, fun e he => Or.inl he⟩
    rw [hwr]
    refine ⟨?_, ?_, hR.unexp, ?_, ?_, ?_, hinv⟩
    · show ((_ : Mech).get wr).recvs = rest
      rw [get_recvd_upd, set_recvs_recvs]; simp
    · show ((_ : Mech).get (other wr)).recvs = []
      rw [get_recvd_upd, set_recvs_recvs, if_neg (other_ne wr), afterSent_get, hR.norecv]
    · intro w'
      show ((_ : Mech).get w').sends = _
      rw [get_recvd_upd, set_recvs_sends, afterSent_get, hR.sends]
    · show SeqOK (cnt (incr st.recvd (m.src, m.tag))) _
      rw [cnt_incr_fun]; exact hb.1.mpr hR.seq
    · show cnt ((afterSent st m).set wr _).sent = endf (cnt (incr st.recvd (m.src, m.tag))) _
      rw [set_sent, cnt_incr_fun]
      show cnt (incr st.sent (m.src, m.tag)) = _
      rw [cnt_incr_fun, hb.2, hR.sent]

/-- the first compatible queued send is the oldest of its key: its `message_id_` is the received-counter -/
theorem matchBoth_first (wr : Which) (st : Mech) (sp : SpecState) (q pre post : List (Which × MSend)) (wi : Which)
    (si : MSend) (r : Rcv) (hR : Rel wr st sp q) (hq : q = pre ++ (wi, si) :: post)
    (hpre : ∀ e ∈ pre, compat r e.2.m = false) (hsi : compat r si.m = true) :
    (∀ y ∈ pre.map (·.2), y.key ≠ si.key) ∧ matchBoth st r si = true := by
  have hnokey : ∀ y ∈ pre.map (·.2), y.key ≠ si.key := by
    intro y hy hk
    obtain ⟨e, he, rfl⟩ := List.mem_map.mp hy
    have := hpre e he
    rw [compat_key r e.2.m si.m hk, hsi] at this
    cases this
  refine ⟨hnokey, ?_⟩
  have hseq := hR.seq
  rw [hq, List.map_append, List.map_cons] at hseq
  have h1 := seqOK_seq _ _ _ _ hseq
  rw [endf_eq_of_no_key _ _ _ hnokey] at h1
  unfold matchBoth
  rw [hsi, h1]
  simp [MSend.key]

/-- a later queued send with the same key carries a larger id: `match_recv` rejects it -/
theorem matchBoth_later (wr : Which) (st : Mech) (sp : SpecState) (q pre post : List (Which × MSend)) (wi : Which)
    (si : MSend) (r : Rcv) (hR : Rel wr st sp q) (hq : q = pre ++ (wi, si) :: post) (e : Which × MSend) (he : e ∈ post)
    (hk : e.2.key = si.key) : matchBoth st r e.2 = false := by
  obtain ⟨p1, p2, hp⟩ := List.append_of_mem he
  have hseq := hR.seq
  have hq' : q = (pre ++ (wi, si) :: p1) ++ e :: p2 := by rw [hq, hp]; simp
  rw [hq', List.map_append, List.map_cons] at hseq
  have h1 := seqOK_seq _ _ _ _ hseq
  have h2 := endf_gt_of_key (cnt st.recvd) ((pre ++ (wi, si) :: p1).map (·.2)) e.2.key
    ⟨si, by simp, hk.symm⟩
  unfold matchBoth
  have : (e.2.seq == cnt st.recvd (e.2.m.src, e.2.m.tag)) = false := by
    have h3 : cnt st.recvd (e.2.m.src, e.2.m.tag) = cnt st.recvd e.2.key := rfl
    rw [h3]
    simp only [beq_eq_false_iff_ne, ne_eq]
    omega
  rw [this]; simp

theorem filter_split (pre post : List (Which × MSend)) (wi w : Which) (si : MSend) :
    ((pre ++ (wi, si) :: post).filter (fun e => decide (e.1 = w))).map (·.2) =
      (pre.filter (fun e => decide (e.1 = w))).map (·.2) ++ (if wi = w then [si] else []) ++
        (post.filter (fun e => decide (e.1 = w))).map (·.2) := by
  by_cases h : wi = w <;> simp [List.filter_append, h]

/-- **one posted receive keeps the relation and makes the same match**, provided `Request::start` probes its way to
the mailbox of the oldest compatible queued send (and to the receives' mailbox when there is none) -/
theorem post_step (wr : Which) (st : Mech) (sp : SpecState) (q : List (Which × MSend)) (r : Rcv) (hR : Rel wr st sp q)
    (hsome : ∀ pre wi si post, q = pre ++ (wi, si) :: post → (∀ e ∈ pre, compat r e.2.m = false) →
      compat r si.m = true → recvMailbox st r = wi)
    (hnone : (∀ e ∈ q, compat r e.2.m = false) → recvMailbox st r = wr) :
    (mechStep st (.post r)).2 = (specStep sp (.post r)).2 ∧
    ∃ q', Rel wr (mechStep st (.post r)).1 (specStep sp (.post r)).1 q' ∧ ∀ e ∈ q', e ∈ q := by
  have hinv := inv_step sp (.post r) hR.inv
  cases hq : takeFirst (fun e : Which × MSend => compat r e.2.m) q with
  | none =>
    have hnc := takeFirst_none _ _ hq
    have hw := hnone hnc
    have hspn : takeFirst (fun m => compat r m) sp.unexp = none := by
      apply takeFirst_none_of
      intro m hm
      rw [hR.unexp] at hm
      obtain ⟨e, he, rfl⟩ := List.mem_map.mp hm
      exact hnc e he
    have hsp : specStep sp (.post r) = ({ sp with posted := sp.posted ++ [r] }, none) := by
      simp only [specStep, hspn]
    have hmn : takeFirst (fun s => matchBoth st r s) (st.get (recvMailbox st r)).sends = none := by
      apply takeFirst_none_of
      intro s hs
      rw [hR.sends] at hs
      obtain ⟨e, he, rfl⟩ := List.mem_map.mp hs
      exact matchBoth_compat _ _ _ (hnc e (List.mem_filter.mp he).1)
    rw [mechStep_post_eq, hmn, hsp]
    rw [hsp] at hinv
    refine ⟨rfl, q, ?_, fun e he => he⟩
    rw [hw]
    refine ⟨?_, ?_, hR.unexp, ?_, ?_, ?_, hinv⟩
    · show ((_ : Mech).get wr).recvs = sp.posted ++ [r]
      rw [set_recvs_recvs, hR.recvs]; simp
    · show ((_ : Mech).get (other wr)).recvs = []
      rw [set_recvs_recvs, if_neg (other_ne wr), hR.norecv]
    · intro w'
      show ((_ : Mech).get w').sends = _
      rw [set_recvs_sends, hR.sends]
    · show SeqOK (cnt (st.set wr _).recvd) _
      rw [set_recvd]; exact hR.seq
    · show cnt (st.set wr _).sent = endf (cnt (st.set wr _).recvd) _
      rw [set_sent, set_recvd]; exact hR.sent
  | some v =>
    obtain ⟨⟨wi, si⟩, q'⟩ := v
    obtain ⟨pre, post, hq1, hq2, hq3, hq4⟩ := takeFirst_some _ _ _ _ hq
    have hw := hsome pre wi si post hq1 hq4 hq3
    obtain ⟨hnokey, hmb⟩ := matchBoth_first wr st sp q pre post wi si r hR hq1 hq4 hq3
    have hsps : takeFirst (fun m => compat r m) sp.unexp
        = some (si.m, pre.map (fun e => e.2.m) ++ post.map (fun e => e.2.m)) := by
      rw [hR.unexp, hq1, List.map_append, List.map_cons]
      apply takeFirst_of_split
      · intro m hm
        obtain ⟨e, he, rfl⟩ := List.mem_map.mp hm
        exact hq4 e he
      · exact hq3
    have hsp : specStep sp (.post r)
        = ({ sp with unexp := pre.map (fun e => e.2.m) ++ post.map (fun e => e.2.m) }, some (r, si.m)) := by
      simp only [specStep, hsps]
    have hms : takeFirst (fun s => matchBoth st r s) (st.get (recvMailbox st r)).sends
        = some (si, (pre.filter (fun e => decide (e.1 = wi))).map (·.2) ++
                    (post.filter (fun e => decide (e.1 = wi))).map (·.2)) := by
      rw [hw, hR.sends, hq1, filter_split, if_pos rfl, List.append_assoc, List.singleton_append]
      apply takeFirst_of_split
      · intro s hs
        obtain ⟨e, he, rfl⟩ := List.mem_map.mp hs
        exact matchBoth_compat _ _ _ (hq4 e (List.mem_filter.mp he).1)
      · exact hmb
    have hrem := seqOK_remove (cnt st.recvd) (pre.map (·.2)) (post.map (·.2)) si
      (by have := hR.seq; rw [hq1, List.map_append, List.map_cons] at this; exact this) hnokey
    rw [mechStep_post_eq, hms, hsp]
    rw [hsp] at hinv
    refine ⟨rfl, pre ++ post, ?_, ?_⟩
    · rw [hw]
      refine ⟨?_, ?_, ?_, ?_, ?_, ?_, hinv⟩
      · show ((_ : Mech).get wr).recvs = sp.posted
        rw [get_recvd_upd, set_sends_recvs, hR.recvs]
      · show ((_ : Mech).get (other wr)).recvs = []
        rw [get_recvd_upd, set_sends_recvs, hR.norecv]
      · show _ ++ _ = _
        rw [List.map_append]
      · intro w'
        show ((_ : Mech).get w').sends = _
        rw [get_recvd_upd, set_sends_sends]
        by_cases h : w' = wi
        · subst h; simp [List.filter_append]
        · rw [if_neg h, hR.sends, hq1, filter_split]
          have : ¬ wi = w' := fun e => h e.symm
          simp [this, List.filter_append]
      · show SeqOK (cnt (incr st.recvd (si.m.src, si.m.tag))) _
        rw [cnt_incr_fun, List.map_append]
        exact hrem.1
      · show cnt (st.set wi _).sent = endf (cnt (incr st.recvd (si.m.src, si.m.tag))) _
        rw [set_sent, cnt_incr_fun, List.map_append]
        show _ = endf (bump (cnt st.recvd) si.key) _
        rw [hrem.2, hR.sent, hq1, List.map_append, List.map_cons]
    · intro e he
      rw [hq1]
      rcases List.mem_append.mp he with h | h
      · exact List.mem_append_left _ h
      · exact List.mem_append_right _ (List.mem_cons_of_mem _ h)

/-! ### runs -/

theorem mechRun_cons (st : Mech) (e : Event) (es : List Event) :
    (mechRun st (e :: es)).2 =
      match (mechStep st e).2 with
      | some x => x :: (mechRun (mechStep st e).1 es).2
      | none => (mechRun (mechStep st e).1 es).2 := rfl

theorem specRun_cons (sp : SpecState) (e : Event) (es : List Event) :
    (specRun sp (e :: es)).2 =
      match (specStep sp e).2 with
      | some x => x :: (specRun (specStep sp e).1 es).2
      | none => (specRun (specStep sp e).1 es).2 := rfl

theorem mechStep_thresh (st : Mech) (e : Event) : (mechStep st e).1.thresh = st.thresh := by
  cases e with
  | send m =>
    rw [mechStep_send_eq]
    split
    · show ((afterSent st m).set _ _).thresh = _
      rw [set_thresh]; rfl
    · show ((afterSent st m).set _ _).thresh = _
      rw [set_thresh]; rfl
  | post r =>
    rw [mechStep_post_eq]
    split
    · show (st.set _ _).thresh = _
      rw [set_thresh]
    · show (st.set _ _).thresh = _
      rw [set_thresh]

/-! #### every size on one side of the threshold: one mailbox -/

theorem sends_other_empty (wr : Which) (st : Mech) (sp : SpecState) (q : List (Which × MSend)) (hR : Rel wr st sp q)
    (hl : ∀ e ∈ q, e.1 = wr) : (st.get (other wr)).sends = [] := by
  rw [hR.sends]
  have : q.filter (fun e => decide (e.1 = other wr)) = [] := by
    apply List.filter_eq_nil_iff.mpr
    intro e he
    have := hl e he
    simp [this, (other_ne wr).symm]
  rw [this]; rfl

theorem sendMailbox_large (st : Mech) (s : MSend) (h : st.thresh ≤ s.m.size) : sendMailbox st s = .large := by
  unfold sendMailbox
  by_cases h0 : st.thresh = 0
  · rw [if_pos h0]
  · rw [if_neg h0, if_neg (by omega)]

theorem sendMailbox_small (st : Mech) (s : MSend) (h : s.m.size < st.thresh) (hr : st.large.recvs = [])
    (hs : s.ssend = false) : sendMailbox st s = .small := by
  unfold sendMailbox
  have hp : probeRecv st st.large s = false := by simp [probeRecv, hr]
  rw [if_neg (by omega), if_pos h, hp]
  simp [hs]

theorem recvMailbox_large (st : Mech) (r : Rcv) (h : st.thresh ≤ r.size) (hs : st.small.sends = []) :
    recvMailbox st r = .large := by
  unfold recvMailbox
  by_cases h0 : st.thresh = 0
  · rw [if_pos h0]
  · have hp : probeSend st st.small r = false := by simp [probeSend, hs]
    rw [if_neg h0, if_neg (by omega), hp]
    simp

theorem recvMailbox_small (st : Mech) (r : Rcv) (h : r.size < st.thresh) (hs : st.large.sends = []) :
    recvMailbox st r = .small := by
  unfold recvMailbox
  have hp : probeSend st st.large r = false := by simp [probeSend, hs]
  rw [if_neg (by omega), if_pos h, hp]
  cases probeSend st st.small r <;> simp

theorem one_side_run (wr : Which) (thresh : Nat) (h : List Event)
    (hside : (wr = .large ∧ ∀ e ∈ h, thresh ≤ e.size) ∨ (wr = .small ∧ ∀ e ∈ h, e.size < thresh)) :
    ∀ (st : Mech) (sp : SpecState) (q : List (Which × MSend)), Rel wr st sp q → st.thresh = thresh →
      (∀ e ∈ q, e.1 = wr) → (mechRun st h).2 = (specRun sp h).2 := by
  induction h with
  | nil => intro st sp q _ _ _; rfl
  | cons e es ih =>
    intro st sp q hR ht hl
    have hside' : (wr = .large ∧ ∀ e ∈ es, thresh ≤ e.size) ∨ (wr = .small ∧ ∀ e ∈ es, e.size < thresh) := by
      rcases hside with ⟨h1, h2⟩ | ⟨h1, h2⟩
      · exact Or.inl ⟨h1, fun x hx => h2 x (by simp [hx])⟩
      · exact Or.inr ⟨h1, fun x hx => h2 x (by simp [hx])⟩
    have hoe := sends_other_empty wr st sp q hR hl
    rw [mechRun_cons, specRun_cons]
    cases e with
    | send m =>
      have hwm : sendMailbox (afterSent st m) (sendReq st m) = wr := by
        rcases hside with ⟨h1, h2⟩ | ⟨h1, h2⟩
        · rw [h1]; apply sendMailbox_large
          have := h2 (.send m) (by simp)
          show st.thresh ≤ m.size
          rw [ht]; exact this
        · rw [h1]; apply sendMailbox_small
          · have := h2 (.send m) (by simp)
            show m.size < st.thresh
            rw [ht]; exact this
          · have := hR.norecv; rw [h1] at this; exact this
          · rfl
      obtain ⟨h2, q', hR', hq'⟩ := send_step wr st sp q m hR (fun _ => hwm)
      rw [h2]
      have hl' : ∀ e ∈ q', e.1 = wr := by
        intro e he
        rcases hq' e he with h | h
        · exact hl e h
        · rw [h, hwm]
      have := ih hside' _ _ q' hR' (by rw [mechStep_thresh]; exact ht) hl'
      rw [this]
    | post r =>
      have hwr : recvMailbox st r = wr := by
        rcases hside with ⟨h1, h2⟩ | ⟨h1, h2⟩
        · rw [h1]; apply recvMailbox_large
          · have := h2 (.post r) (by simp)
            rw [ht]; exact this
          · rw [h1] at hoe; exact hoe
        · rw [h1]; apply recvMailbox_small
          · have := h2 (.post r) (by simp)
            rw [ht]; exact this
          · rw [h1] at hoe; exact hoe
      obtain ⟨h2, q', hR', hq'⟩ := post_step wr st sp q r hR
        (by
          intro pre wi si post hq _ _
          rw [hwr]
          exact (hl (wi, si) (by rw [hq]; simp)).symm)
        (fun _ => hwr)
      rw [h2]
      have := ih hside' _ _ q' hR' (by rw [mechStep_thresh]; exact ht) (fun e he => hl e (hq' e he))
      rw [this]

/-! #### messages of any size, receives with buffers `≥ thresh`, one key per receive: both mailboxes hold sends -/

theorem kd_run (thresh : Nat) (hpos : 0 < thresh) (H : List Event) (hk : KeyDetermined H)
    (hbuf : ∀ r, Event.post r ∈ H → thresh ≤ r.size) (h : List Event) :
    ∀ (st : Mech) (sp : SpecState) (q : List (Which × MSend)), (∀ e ∈ h, e ∈ H) → Rel .large st sp q →
      st.thresh = thresh → (∀ e ∈ q, Event.send e.2.m ∈ H) → (mechRun st h).2 = (specRun sp h).2 := by
  induction h with
  | nil => intro st sp q _ _ _ _; rfl
  | cons e es ih =>
    intro st sp q hH hR ht hq
    have hH' : ∀ x ∈ es, x ∈ H := fun x hx => hH x (by simp [hx])
    rw [mechRun_cons, specRun_cons]
    cases e with
    | send m =>
      have hw : (∃ r0 ∈ sp.posted, compat r0 m = true) → sendMailbox (afterSent st m) (sendReq st m) = .large := by
        intro hex
        unfold sendMailbox
        have h0 : ¬ (afterSent st m).thresh = 0 := by show ¬ st.thresh = 0; omega
        rw [if_neg h0]
        split
        · have hp : probeRecv (afterSent st m) (afterSent st m).large (sendReq st m) = true := by
            obtain ⟨r0, hr0, hc0⟩ := hex
            unfold probeRecv
            apply List.any_eq_true.mpr
            refine ⟨r0, ?_, ?_⟩
            · have := hR.recvs
              show r0 ∈ st.large.recvs
              rw [show st.large.recvs = (st.get .large).recvs from rfl, this]; exact hr0
            · rw [matchBoth_send .large st sp q m hR ⟨r0, hr0, hc0⟩]; exact hc0
          rw [hp]; rfl
        · rfl
      obtain ⟨h2, q', hR', hq'⟩ := send_step .large st sp q m hR hw
      rw [h2]
      have hqH : ∀ e ∈ q', Event.send e.2.m ∈ H := by
        intro e he
        rcases hq' e he with h | h
        · exact hq e h
        · rw [h]; exact hH (.send m) (by simp)
      have := ih _ _ q' hH' hR' (by rw [mechStep_thresh]; exact ht) hqH
      rw [this]
    | post r =>
      have hrH : Event.post r ∈ H := hH (.post r) (by simp)
      have hrm : recvMailbox st r = if probeSend st st.small r then .small else .large := by
        unfold recvMailbox
        have := hbuf r hrH
        rw [if_neg (by omega), if_neg (by omega)]
      obtain ⟨h2, q', hR', hq'⟩ := post_step .large st sp q r hR
        (by
          intro pre wi si post hq1 hpre hsi
          obtain ⟨_, hmb⟩ := matchBoth_first .large st sp q pre post wi si r hR hq1 hpre hsi
          rw [hrm]
          have hss : st.small.sends = (st.get .small).sends := rfl
          cases wi with
          | small =>
            have hp : probeSend st st.small r = true := by
              unfold probeSend
              apply List.any_eq_true.mpr
              refine ⟨si, ?_, hmb⟩
              rw [hss, hR.sends, hq1]
              apply List.mem_map.mpr
              exact ⟨(.small, si), by simp, rfl⟩
            rw [hp]; rfl
          | large =>
            have hp : probeSend st st.small r = false := by
              unfold probeSend
              apply List.any_eq_false.mpr
              intro s hs
              rw [hss, hR.sends] at hs
              obtain ⟨e, he, rfl⟩ := List.mem_map.mp hs
              obtain ⟨heq, hlab⟩ := List.mem_filter.mp he
              have hlab' : e.1 = .small := by simpa using hlab
              rw [hq1] at heq
              rcases List.mem_append.mp heq with h | h
              · rw [matchBoth_compat _ _ _ (hpre e h)]; simp
              · rcases List.mem_cons.mp h with h | h
                · rw [h] at hlab'; cases hlab'
                · by_cases hc : compat r e.2.m = true
                  · have hkk := hk r si.m e.2.m hrH (hq (.large, si) (by rw [hq1]; simp))
                      (hq e (by rw [hq1]; exact List.mem_append_right _ (List.mem_cons_of_mem _ h))) hsi hc
                    have hkey : e.2.key = si.key := by
                      simp only [MSend.key, Prod.mk.injEq]; exact ⟨hkk.1.symm, hkk.2.symm⟩
                    rw [matchBoth_later .large st sp q pre post .large si r hR hq1 e h hkey]; simp
                  · have hc' : compat r e.2.m = false := by simpa using hc
                    rw [matchBoth_compat _ _ _ hc']; simp
            rw [hp]; rfl)
        (by
          intro hnc
          rw [hrm]
          have hp : probeSend st st.small r = false := by
            unfold probeSend
            apply List.any_eq_false.mpr
            intro s hs
            rw [show st.small.sends = (st.get .small).sends from rfl, hR.sends] at hs
            obtain ⟨e, he, rfl⟩ := List.mem_map.mp hs
            rw [matchBoth_compat _ _ _ (hnc e (List.mem_filter.mp he).1)]; simp
          rw [hp]; rfl)
      rw [h2]
      have := ih _ _ q' hH' hR' (by rw [mechStep_thresh]; exact ht) (fun e he => hq e (hq' e he))
      rw [this]

end SgVerif.C28
