import SgVerif.C28.Model
/-
C28 helper lemmas (core only): `takeFirst`, the spec invariant, the `message_id_` counters.
-/
namespace SgVerif.C28

/-! ### `takeFirst` -/

theorem takeFirst_none {β : Type} (p : β → Bool) (l : List β) (h : takeFirst p l = none) : ∀ x ∈ l, p x = false := by
  induction l with
  | nil => intro x hx; cases hx
  | cons y ys ih =>
    simp only [takeFirst] at h
    split at h
    · cases h
    · rename_i hy
      cases ht : takeFirst p ys with
      | none =>
        intro x hx
        rcases List.mem_cons.mp hx with rfl | hx
        · simpa using hy
        · exact ih ht x hx
      | some v => simp [ht] at h

theorem takeFirst_some {β : Type} (p : β → Bool) (l : List β) (x : β) (rest : List β) (h : takeFirst p l = some (x, rest)) :
    ∃ pre post, l = pre ++ x :: post ∧ rest = pre ++ post ∧ p x = true ∧ ∀ y ∈ pre, p y = false := by
  induction l generalizing rest with
  | nil => cases h
  | cons y ys ih =>
    simp only [takeFirst] at h
    split at h
    · rename_i hy
      cases h
      exact ⟨[], ys, rfl, rfl, hy, by intro _ h; cases h⟩
    · rename_i hy
      cases ht : takeFirst p ys with
      | none => simp [ht] at h
      | some v =>
        obtain ⟨z, r⟩ := v
        simp only [ht, Option.map_some, Option.some.injEq, Prod.mk.injEq] at h
        obtain ⟨rfl, rfl⟩ := h
        obtain ⟨pre, post, h1, h2, h3, h4⟩ := ih r ht
        refine ⟨y :: pre, post, by simp [h1], by simp [h2], h3, ?_⟩
        intro w hw
        rcases List.mem_cons.mp hw with rfl | hw
        · simpa using hy
        · exact h4 w hw

/-- converse of `takeFirst_some` -/
theorem takeFirst_of_split {β : Type} (p : β → Bool) (pre post : List β) (x : β) (hpre : ∀ y ∈ pre, p y = false)
    (hx : p x = true) : takeFirst p (pre ++ x :: post) = some (x, pre ++ post) := by
  induction pre with
  | nil => simp [takeFirst, hx]
  | cons y pre ih =>
    have hy : p y = false := hpre y (by simp)
    have := ih (fun z hz => hpre z (by simp [hz]))
    simp [takeFirst, hy, this]

theorem takeFirst_none_of {β : Type} (p : β → Bool) (l : List β) (h : ∀ y ∈ l, p y = false) : takeFirst p l = none := by
  induction l with
  | nil => rfl
  | cons y l ih =>
    have hy : p y = false := h y (by simp)
    have := ih (fun z hz => h z (by simp [hz]))
    simp [takeFirst, hy, this]

theorem takeFirst_congr {β : Type} (p q : β → Bool) (l : List β) (h : ∀ y ∈ l, p y = q y) :
    takeFirst p l = takeFirst q l := by
  induction l with
  | nil => rfl
  | cons y l ih =>
    have hy := h y (by simp)
    have := ih (fun z hz => h z (by simp [hz]))
    simp [takeFirst, hy, this]

/-! ### the invariant of the spec: no posted receive matches a pending message -/

/-- no posted receive matches a pending message -/
def Inv (st : SpecState) : Prop := ∀ r ∈ st.posted, ∀ m ∈ st.unexp, compat r m = false

theorem inv_step (st : SpecState) (e : Event) (hi : Inv st) : Inv (specStep st e).1 := by
  cases e with
  | send m =>
    simp only [specStep]
    cases ht : takeFirst (fun r => compat r m) st.posted with
    | none =>
      intro r hr m' hm'
      simp only [List.mem_append, List.mem_singleton] at hm'
      rcases hm' with hm' | rfl
      · exact hi r hr m' hm'
      · exact takeFirst_none _ _ ht r hr
    | some v =>
      obtain ⟨r0, rest⟩ := v
      obtain ⟨pre, post, h1, h2, _, _⟩ := takeFirst_some _ _ _ _ ht
      intro r hr m' hm'
      apply hi r _ m' hm'
      simp only at hr
      rw [h2] at hr; rw [h1]
      simp only [List.mem_append, List.mem_cons] at hr ⊢
      rcases hr with h | h
      · exact Or.inl h
      · exact Or.inr (Or.inr h)
  | post r =>
    simp only [specStep]
    cases ht : takeFirst (fun m => compat r m) st.unexp with
    | none =>
      intro r' hr' m hm
      simp only [List.mem_append, List.mem_singleton] at hr'
      rcases hr' with hr' | rfl
      · exact hi r' hr' m hm
      · exact takeFirst_none _ _ ht m hm
    | some v =>
      obtain ⟨m0, rest⟩ := v
      obtain ⟨pre, post, h1, h2, _, _⟩ := takeFirst_some _ _ _ _ ht
      intro r' hr' m hm
      apply hi r' hr' m
      simp only at hm
      rw [h2] at hm; rw [h1]
      simp only [List.mem_append, List.mem_cons] at hm ⊢
      rcases hm with h | h
      · exact Or.inl h
      · exact Or.inr (Or.inr h)

theorem inv_run (st : SpecState) (h : List Event) (hi : Inv st) : Inv (specRun st h).1 := by
  induction h generalizing st with
  | nil => exact hi
  | cons e es ih =>
    simp only [specRun]
    exact ih _ (inv_step st e hi)

theorem inv_init : Inv {} := by intro r hr; cases hr

theorem get_empty_recvs (t : Nat) (sn : List ((Nat × Nat) × Nat)) (w : Which) :
    (({ thresh := t, sent := sn } : Mech).get w).recvs = [] := by cases w <;> rfl
theorem get_empty_sends (t : Nat) (w : Which) : (({ thresh := t } : Mech).get w).sends = [] := by cases w <;> rfl

/-! ### keys and counters -/

abbrev Key := Nat × Nat
def Msg.key (m : Msg) : Key := (m.src, m.tag)
def MSend.key (s : MSend) : Key := (s.m.src, s.m.tag)

/-- `compat` only looks at the (source, tag) of the message -/
theorem compat_key (r : Rcv) (m1 m2 : Msg) (h : m1.key = m2.key) : compat r m1 = compat r m2 := by
  simp only [Msg.key, Prod.mk.injEq] at h
  simp [compat, h.1, h.2]

theorem lookup_filter_ne (l : List (Key × Nat)) (k k' : Key) (h : k' ≠ k) :
    (l.filter (fun e => e.1 != k)).lookup k' = l.lookup k' := by
  induction l with
  | nil => rfl
  | cons e l ih =>
    obtain ⟨a, b⟩ := e
    by_cases ha : a = k
    · subst ha
      have h1 : (k' == a) = false := by simpa using h
      simp [List.lookup_cons, h1, ih]
    · have h1 : (a != k) = true := by simpa using ha
      simp only [List.filter_cons, h1, if_true, List.lookup_cons, ih]

/-- the counter update of `comm_->increment_{sent,received}_messages_count` -/
theorem cnt_incr (l : List (Key × Nat)) (k k' : Key) : cnt (incr l k) k' = if k' = k then cnt l k + 1 else cnt l k' := by
  unfold incr
  by_cases h : k' = k
  · subst h
    simp [cnt]
  · have h1 : (k' == k) = false := by simpa using h
    simp only [cnt, List.lookup_cons, h1, if_neg h]
    rw [lookup_filter_ne l k k' h]

/-- next expected id of every key after the queued sends `l`, starting from `f` -/
def bump (f : Key → Nat) (k : Key) : Key → Nat := fun k' => if k' = k then f k' + 1 else f k'

theorem cnt_incr_fun (l : List (Key × Nat)) (k : Key) : cnt (incr l k) = bump (cnt l) k := by
  funext k'
  rw [cnt_incr]
  unfold bump
  by_cases h : k' = k
  · subst h; simp
  · simp [h]

theorem bump_comm (f : Key → Nat) (a b : Key) : bump (bump f a) b = bump (bump f b) a := by
  funext k
  unfold bump
  by_cases h1 : k = a
  · by_cases h2 : k = b
    · subst h1; subst h2; simp
    · subst h1; simp [h2]
  · by_cases h2 : k = b
    · subst h2; simp [h1]
    · simp [h1, h2]

/-- **the consecutive-ids invariant**: walking through the queued sends (arrival order), each one carries the id that
its (src,tag) key expects next, starting from the received-counters `f` -/
def SeqOK : (Key → Nat) → List MSend → Prop
  | _, [] => True
  | f, s :: l => s.seq = f s.key ∧ SeqOK (bump f s.key) l

/-- the counters after the queued sends: must equal the sent-counters -/
def endf : (Key → Nat) → List MSend → (Key → Nat)
  | f, [] => f
  | f, s :: l => endf (bump f s.key) l

theorem endf_append (f : Key → Nat) (l1 l2 : List MSend) : endf f (l1 ++ l2) = endf (endf f l1) l2 := by
  induction l1 generalizing f with
  | nil => rfl
  | cons s l1 ih => simp only [List.cons_append, endf]; exact ih _

theorem seqOK_append (f : Key → Nat) (l1 l2 : List MSend) :
    SeqOK f (l1 ++ l2) ↔ SeqOK f l1 ∧ SeqOK (endf f l1) l2 := by
  induction l1 generalizing f with
  | nil => simp [SeqOK, endf]
  | cons s l1 ih => simp only [List.cons_append, SeqOK, endf, ih, and_assoc]

theorem endf_ge (f : Key → Nat) (l : List MSend) (k : Key) : f k ≤ endf f l k := by
  induction l generalizing f with
  | nil => exact Nat.le_refl _
  | cons s l ih =>
    simp only [endf]
    refine Nat.le_trans ?_ (ih _)
    unfold bump; split <;> omega

theorem endf_eq_of_no_key (f : Key → Nat) (l : List MSend) (k : Key) (h : ∀ y ∈ l, y.key ≠ k) : endf f l k = f k := by
  induction l generalizing f with
  | nil => rfl
  | cons s l ih =>
    simp only [endf]
    rw [ih _ (fun y hy => h y (by simp [hy]))]
    have : k ≠ s.key := fun e => h s (by simp) e.symm
    simp [bump, this]

theorem endf_gt_of_key (f : Key → Nat) (l : List MSend) (k : Key) (h : ∃ y ∈ l, y.key = k) : f k < endf f l k := by
  induction l generalizing f with
  | nil => obtain ⟨y, hy, _⟩ := h; cases hy
  | cons s l ih =>
    simp only [endf]
    by_cases hs : s.key = k
    · have h1 : f k < bump f s.key k := by simp [bump, hs]
      exact Nat.lt_of_lt_of_le h1 (endf_ge _ _ _)
    · obtain ⟨y, hy, hk⟩ := h
      rcases List.mem_cons.mp hy with rfl | hy
      · exact absurd hk hs
      · have := ih (bump f s.key) ⟨y, hy, hk⟩
        have h2 : bump f s.key k = f k := by
          have : k ≠ s.key := fun e => hs e.symm
          simp [bump, this]
        omega

/-- the id of a queued send, from the invariant -/
theorem seqOK_seq (f : Key → Nat) (pre post : List MSend) (s : MSend) (h : SeqOK f (pre ++ s :: post)) :
    s.seq = endf f pre s.key := by
  have := (seqOK_append f pre (s :: post)).mp h
  exact this.2.1

/-- bumping a key that is not queued commutes with everything -/
theorem seqOK_bump_no_key (f : Key → Nat) (l : List MSend) (k : Key) (h : ∀ y ∈ l, y.key ≠ k) :
    (SeqOK (bump f k) l ↔ SeqOK f l) ∧ endf (bump f k) l = bump (endf f l) k := by
  induction l generalizing f with
  | nil => simp [SeqOK, endf]
  | cons s l ih =>
    have hs : s.key ≠ k := h s (by simp)
    have ih' := ih (bump f s.key) (fun y hy => h y (by simp [hy]))
    simp only [SeqOK, endf]
    rw [bump_comm f k s.key, ih'.1, ih'.2]
    have : bump f k s.key = f s.key := by simp [bump, hs]
    rw [this]
    exact ⟨Iff.rfl, rfl⟩

/-- removing the first queued send of its key (the one that is received) and bumping the received-counter -/
theorem seqOK_remove (f : Key → Nat) (pre post : List MSend) (s : MSend) (h : SeqOK f (pre ++ s :: post))
    (hpre : ∀ y ∈ pre, y.key ≠ s.key) :
    SeqOK (bump f s.key) (pre ++ post) ∧ endf (bump f s.key) (pre ++ post) = endf f (pre ++ s :: post) := by
  induction pre generalizing f with
  | nil =>
    have h' : s.seq = f s.key ∧ SeqOK (bump f s.key) post := h
    exact ⟨h'.2, rfl⟩
  | cons y pre ih =>
    have hy : y.key ≠ s.key := hpre y (by simp)
    simp only [List.cons_append, SeqOK, endf] at h ⊢
    have ih' := ih (bump f y.key) h.2 (fun z hz => hpre z (by simp [hz]))
    rw [bump_comm f s.key y.key]
    have : bump f s.key y.key = f y.key := by simp [bump, hy]
    rw [this]
    exact ⟨⟨h.1, ih'.1⟩, ih'.2⟩

theorem seqOK_snoc (f : Key → Nat) (l : List MSend) (s : MSend) (h : SeqOK f l) (hs : s.seq = endf f l s.key) :
    SeqOK f (l ++ [s]) := by
  rw [seqOK_append]
  exact ⟨h, hs, trivial⟩

end SgVerif.C28
