/-
C28 — MPI point-to-point matching and non-overtaking.

§Spec       the MPI matching rule for one (communicator, destination): an ordered queue of posted receives and an
            ordered queue of unexpected (arrived, unmatched) messages, wildcards included (MPI-3.1 §3.5).
§Mechanism  what /repo/src/smpi/mpi/smpi_request.cpp does (Request::start, match_common, match_recv, match_send, the
            per-(src,dst,tag) `message_id_` counters) on top of the two SimGrid mailboxes of the receiver.
§Monitor    the decidable predicate evaluated on the implementation's log (exactness, compatibility, non-overtaking).
No Mathlib; everything is executable.
-/
namespace SgVerif.C28

/-! ## Spec -/

/-- a message as seen by the destination; `mid` identifies it, `sord` = position among the sends of its sender -/
structure Msg where
  mid : Nat
  src : Nat
  tag : Nat
  size : Nat
  deriving DecidableEq, Repr

/-- a receive; `none` = MPI_ANY_SOURCE / MPI_ANY_TAG -/
structure Rcv where
  rid : Nat
  src : Option Nat
  tag : Option Nat
  size : Nat
  deriving DecidableEq, Repr

/-- `match_common`: `(receiver->src_ == MPI_ANY_SOURCE || receiver->src_ == sender->src_) &&
    (receiver->tag_ == MPI_ANY_TAG && sender->tag_ >= 0 || receiver->tag_ == sender->tag_)` (same communicator) -/
def compat (r : Rcv) (m : Msg) : Bool :=
  (match r.src with | none => true | some s => s == m.src) &&
  (match r.tag with | none => true | some t => t == m.tag)

inductive Event where
  | send (m : Msg)     -- the message reaches the destination's matching engine (per sender: in send order)
  | post (r : Rcv)     -- the destination posts a receive
  deriving Repr

structure SpecState where
  posted : List Rcv := []     -- posted, unmatched receives, oldest first
  unexp : List Msg := []      -- arrived, unmatched messages, oldest first
  deriving Repr

/-- remove the first element satisfying `p` -/
def takeFirst {β : Type} (p : β → Bool) : List β → Option (β × List β)
  | [] => none
  | x :: xs => if p x then some (x, xs) else (takeFirst p xs).map fun (y, r) => (y, x :: r)

/-- one event; returns the new state and the match made (receive, message), if any -/
def specStep (st : SpecState) : Event → SpecState × Option (Rcv × Msg)
  | .send m =>
    match takeFirst (fun r => compat r m) st.posted with
    | some (r, rest) => ({ st with posted := rest }, some (r, m))
    | none => ({ st with unexp := st.unexp ++ [m] }, none)
  | .post r =>
    match takeFirst (fun m => compat r m) st.unexp with
    | some (m, rest) => ({ st with unexp := rest }, some (r, m))
    | none => ({ st with posted := st.posted ++ [r] }, none)

def specRun (st : SpecState) : List Event → SpecState × List (Rcv × Msg)
  | [] => (st, [])
  | e :: es =>
    let (st1, mt) := specStep st e
    let (st2, ms) := specRun st1 es
    (st2, match mt with | some x => x :: ms | none => ms)

/-! ## Mechanism (smpi_request.cpp) -/

/-- a send request: `seq` = `message_id_` = value of the (src,dst,tag) sent-counter when the send started -/
structure MSend where
  m : Msg
  seq : Nat
  ssend : Bool := false
  deriving Repr

structure Mbox where
  sends : List MSend := []    -- unmatched sends queued in this mailbox (incl. the done queue of the permanent receiver)
  recvs : List Rcv := []      -- unmatched receives queued in this mailbox
  deriving Repr

structure Mech where
  thresh : Nat                -- smpi/async-small-thresh
  small : Mbox := {}
  large : Mbox := {}
  sent : List ((Nat × Nat) × Nat) := []     -- (src,tag) ↦ comm_->get_sent_messages_count
  recvd : List ((Nat × Nat) × Nat) := []    -- (src,tag) ↦ comm_->get_received_messages_count
  deriving Repr

def cnt (l : List ((Nat × Nat) × Nat)) (k : Nat × Nat) : Nat := (l.lookup k).getD 0
def incr (l : List ((Nat × Nat) × Nat)) (k : Nat × Nat) : List ((Nat × Nat) × Nat) :=
  (k, cnt l k + 1) :: l.filter (fun e => e.1 != k)

/-- `match_recv`: `match_common` and the message id is the one expected for its (src,dst,tag):
`std::find(req->message_id_..., ref->comm_->get_received_messages_count(src, dst, req->tag_))` -/
def matchBoth (st : Mech) (r : Rcv) (s : MSend) : Bool :=
  compat r s.m && s.seq == cnt st.recvd (s.m.src, s.m.tag)

/-- `mailbox->iprobe(RECV, &match_recv, this)`: is there a queued send that this receive would match? -/
def probeSend (st : Mech) (mb : Mbox) (r : Rcv) : Bool := mb.sends.any (matchBoth st r)
/-- `mailbox->iprobe(SEND, &match_send, this)` -/
def probeRecv (st : Mech) (mb : Mbox) (s : MSend) : Bool := mb.recvs.any (fun r => matchBoth st r s)

inductive Which where | small | large
  deriving DecidableEq, Repr

def Mech.get (st : Mech) : Which → Mbox
  | .small => st.small
  | .large => st.large
def Mech.set (st : Mech) (w : Which) (mb : Mbox) : Mech :=
  match w with
  | .small => { st with small := mb }
  | .large => { st with large := mb }

/-- mailbox chosen by `Request::start()` for a receive -/
def recvMailbox (st : Mech) (r : Rcv) : Which :=
  if st.thresh = 0 then .large
  else if r.size < st.thresh then
    -- "begin with the more appropriate one : the small one", then the large one (SSEND), else back to small
    if probeSend st st.small r then .small else if probeSend st st.large r then .large else .small
  else
    -- "Is there a corresponding send already posted the small mailbox?" else the large one
    if probeSend st st.small r then .small else .large

/-- mailbox chosen by `Request::start()` for a send -/
def sendMailbox (st : Mech) (s : MSend) : Which :=
  if st.thresh = 0 then .large
  else if s.m.size < st.thresh then
    if probeRecv st st.large s then .large
    else if ¬ s.ssend then .small
    else if probeRecv st st.small s then .small else .large
  else .large

def mechStep (st : Mech) : Event → Mech × Option (Rcv × Msg)
  | .send m =>
    let k := (m.src, m.tag)
    let s : MSend := { m := m, seq := cnt st.sent k }
    let st := { st with sent := incr st.sent k }
    let w := sendMailbox st s
    let mb := st.get w
    match takeFirst (fun r => matchBoth st r s) mb.recvs with
    | some (r, rest) => ({ st.set w { mb with recvs := rest } with recvd := incr st.recvd k }, some (r, m))
    | none => (st.set w { mb with sends := mb.sends ++ [s] }, none)
  | .post r =>
    let w := recvMailbox st r
    let mb := st.get w
    match takeFirst (fun s => matchBoth st r s) mb.sends with
    | some (s, rest) =>
      ({ st.set w { mb with sends := rest } with recvd := incr st.recvd (s.m.src, s.m.tag) }, some (r, s.m))
    | none => (st.set w { mb with recvs := mb.recvs ++ [r] }, none)

def mechRun (st : Mech) : List Event → Mech × List (Rcv × Msg)
  | [] => (st, [])
  | e :: es =>
    let (st1, mt) := mechStep st e
    let (st2, ms) := mechRun st1 es
    (st2, match mt with | some x => x :: ms | none => ms)

/-! ## Monitor on the implementation's log -/

/-- a message of the program: `sord` = rank of the send call in its sender's program order -/
structure PMsg where
  mid : Nat
  src : Nat
  dst : Nat
  tag : Nat
  size : Nat
  seq : Nat
  sord : Nat
  deriving Repr

/-- a receive of the program: `pord` = rank of the (i)recv call in its process's program order; filters as Int (-1 = ANY) -/
structure PRcv where
  rid : Nat
  rank : Nat
  src : Int
  tag : Int
  buf : Nat
  pord : Nat
  deriving Repr

/-- what the library reported for a completed receive -/
structure LogE where
  rank : Nat
  rid : Nat
  source : Int
  tag : Int
  count : Int
  err : String
  psrc : Int
  ptag : Int
  pseq : Int
  pmid : Int
  pbad : Int
  probe : Option (Int × Int × Int)
  deriving Repr

def pcompat (r : PRcv) (m : PMsg) : Bool :=
  (r.src = -1 || r.src = (m.src : Int)) && (r.tag = -1 || r.tag = (m.tag : Int)) && r.rank = m.dst

/-- the pairs (receive, message it got) read off the log; `none` when the log is not a bijection receives ↔ messages -/
def pairing (msgs : List PMsg) (rcvs : List PRcv) (log : List LogE) : Except String (List (PRcv × PMsg × LogE)) := do
  if log.length ≠ rcvs.length then throw s!"{log.length} completed receives for {rcvs.length} posted"
  if msgs.length ≠ rcvs.length then throw "generator: messages and receives differ in number"
  let ps ← rcvs.mapM fun r =>
    match log.filter (fun l => l.rid = r.rid ∧ l.rank = r.rank) with
    | [l] =>
      match msgs.find? (fun m => (m.mid : Int) = l.pmid) with
      | some m => pure (r, m, l)
      | none => throw s!"exact: receive {r.rid} on rank {r.rank} got payload of unknown message {l.pmid} (status source {l.source} tag {l.tag} count {l.count} err {l.err})"
    | ls => throw s!"receive {r.rid} on rank {r.rank} completed {ls.length} times"
  let mids := ps.map fun (_, m, _) => m.mid
  if mids.eraseDups.length ≠ mids.length then throw "exact: a message was received twice"
  pure ps

/-- exactness of one completed receive -/
def exactOk (r : PRcv) (m : PMsg) (l : LogE) : Option String :=
  if ¬ pcompat r m then some s!"match: receive {r.rid} (rank {r.rank} src {r.src} tag {r.tag}) got message {m.mid} from {m.src} to {m.dst} tag {m.tag}"
  else if l.source ≠ m.src ∨ l.tag ≠ m.tag then some s!"exact: status of receive {r.rid} says source {l.source} tag {l.tag}, message {m.mid} is from {m.src} tag {m.tag}"
  else if l.psrc ≠ m.src ∨ l.ptag ≠ m.tag ∨ l.pseq ≠ m.seq then some s!"exact: payload header of receive {r.rid} is ({l.psrc},{l.ptag},{l.pseq}), message {m.mid} is ({m.src},{m.tag},{m.seq})"
  else if m.size ≤ r.buf then
    if l.err ≠ "0" then some s!"exact: receive {r.rid} of message {m.mid} (size {m.size} ≤ buffer {r.buf}) returned error {l.err}"
    else if l.count ≠ m.size then some s!"exact: receive {r.rid} count {l.count}, message {m.mid} has {m.size} bytes"
    else if l.pbad ≠ 0 then some s!"exact: receive {r.rid}: {l.pbad} payload bytes differ"
    else match l.probe with
      | some (ps, pt, pc) =>
        if ps ≠ m.src ∨ pt ≠ m.tag ∨ pc ≠ m.size then some s!"exact: probe before receive {r.rid} announced ({ps},{pt},{pc}), received ({m.src},{m.tag},{m.size})"
        else none
      | none => none
  else if l.err ≠ "T" then some s!"truncate: receive {r.rid} (buffer {r.buf}) of message {m.mid} (size {m.size}) returned {l.err} instead of MPI_ERR_TRUNCATE"
  else none

/-- **non-overtaking** on the log: if receive `r` got `m2` and an earlier message `m1` of the same sender to the same
destination also matches `r`, then `m1` was received by a receive posted before `r` -/
def overtakes (ps : List (PRcv × PMsg × LogE)) : Option (PRcv × PMsg × PMsg × PRcv) :=
  ps.findSome? fun (r, m2, _) =>
    ps.findSome? fun (r1, m1, _) =>
      if m1.src = m2.src ∧ m1.dst = m2.dst ∧ m1.sord < m2.sord ∧ pcompat r m1 ∧ r.pord < r1.pord then some (r, m2, m1, r1)
      else none

def monitor (thresh : Nat) (msgs : List PMsg) (rcvs : List PRcv) (log : List LogE) : Option String :=
  match pairing msgs rcvs log with
  | .error e => some e
  | .ok ps =>
    match ps.findSome? fun (r, m, l) => exactOk r m l with
    | some e => some e
    | none =>
      match overtakes ps with
      | some (r, m2, m1, r1) =>
        let tagk := if r.tag = -1 then "anytag" else "sametag"
        let side := if thresh = 0 then "onemailbox"
          else if (decide (m1.size < thresh)) = (decide (m2.size < thresh)) then "sameside" else "mixedsizes"
        let tr := if r.buf < m1.size then "trunc" else "fits"
        some s!"overtake {tagk} {side} {tr}: receive {r.rid} (rank {r.rank}, src {r.src} tag {r.tag}, posted #{r.pord}) got message {m2.mid} (size {m2.size}, tag {m2.tag}, send #{m2.sord} of rank {m2.src}) although the earlier message {m1.mid} (size {m1.size}, tag {m1.tag}, send #{m1.sord}) matches it and went to the later receive {r1.rid} (posted #{r1.pord})"
      | none => none

end SgVerif.C28
