import SgVerif.C28.Model
/-
C28 — MPI point-to-point matching and non-overtaking.  Property theorems.

* `spec_non_overtaking` (full strength, every history): in the MPI matching spec a receive never takes a message
  while an earlier-arrived message that it matches is still pending, and a message never goes to a receive while an
  earlier-posted receive that matches it is still pending.
* `smpi_refines_spec` — the SMPI two-mailbox mechanism makes the same matches as the spec for every history and every
  size relative to `smpi/async-small-thresh` — is FALSE on the current code (see `smpi_refines_spec_counterexample`,
  replayed on the library by props/C28/corpus.txt).  Proved instead: `smpi_refines_spec_partial` for histories in which
  no message or receive ever waits (each step finds both mailboxes' queues free of compatible items): then both sides
  queue and match identically.  What is missing: the general case, even with all sizes on one side of the threshold,
  needs the invariant "queued sends of one (src,tag) carry consecutive ids starting at the received-counter", not done.
-/
namespace SgVerif.C28

theorem takeFirst_none {β : Type} (p : β → Bool) (l : List β) (h : takeFirst p l = none) : ∀ x ∈ l, p x = false := by
  induction l with
  | nil => intro x hx; cases hx
  | cons y ys ih =>
    simp only [takeFirst] at h
    split at h
    · cases h
    · rename_i hy
      cases ht : takeFirst p ys with
      | none =>
        intro x hx
        rcases List.mem_cons.mp hx with rfl | hx
        · simpa using hy
        · exact ih ht x hx
      | some v => simp [ht] at h

theorem takeFirst_some {β : Type} (p : β → Bool) (l : List β) (x : β) (rest : List β) (h : takeFirst p l = some (x, rest)) :
    ∃ pre post, l = pre ++ x :: post ∧ rest = pre ++ post ∧ p x = true ∧ ∀ y ∈ pre, p y = false := by
  induction l generalizing rest with
  | nil => cases h
  | cons y ys ih =>
    simp only [takeFirst] at h
    split at h
    · rename_i hy
      cases h
      exact ⟨[], ys, rfl, rfl, hy, by intro _ h; cases h⟩
    · rename_i hy
      cases ht : takeFirst p ys with
      | none => simp [ht] at h
      | some v =>
        obtain ⟨z, r⟩ := v
        simp only [ht, Option.map_some, Option.some.injEq, Prod.mk.injEq] at h
        obtain ⟨rfl, rfl⟩ := h
        obtain ⟨pre, post, h1, h2, h3, h4⟩ := ih r ht
        refine ⟨y :: pre, post, by simp [h1], by simp [h2], h3, ?_⟩
        intro w hw
        rcases List.mem_cons.mp hw with rfl | hw
        · simpa using hy
        · exact h4 w hw

/-- no posted receive matches a pending message -/
def Inv (st : SpecState) : Prop := ∀ r ∈ st.posted, ∀ m ∈ st.unexp, compat r m = false

theorem inv_step (st : SpecState) (e : Event) (hi : Inv st) : Inv (specStep st e).1 := by
  cases e with
  | send m =>
    simp only [specStep]
    cases ht : takeFirst (fun r => compat r m) st.posted with
    | none =>
      intro r hr m' hm'
      simp only [List.mem_append, List.mem_singleton] at hm'
      rcases hm' with hm' | rfl
      · exact hi r hr m' hm'
      · exact takeFirst_none _ _ ht r hr
    | some v =>
      obtain ⟨r0, rest⟩ := v
      obtain ⟨pre, post, h1, h2, _, _⟩ := takeFirst_some _ _ _ _ ht
      intro r hr m' hm'
      apply hi r _ m' hm'
      simp only at hr
      rw [h2] at hr; rw [h1]
      simp only [List.mem_append, List.mem_cons] at hr ⊢
      rcases hr with h | h
      · exact Or.inl h
      · exact Or.inr (Or.inr h)
  | post r =>
    simp only [specStep]
    cases ht : takeFirst (fun m => compat r m) st.unexp with
    | none =>
      intro r' hr' m hm
      simp only [List.mem_append, List.mem_singleton] at hr'
      rcases hr' with hr' | rfl
      · exact hi r' hr' m hm
      · exact takeFirst_none _ _ ht m hm
    | some v =>
      obtain ⟨m0, rest⟩ := v
      obtain ⟨pre, post, h1, h2, _, _⟩ := takeFirst_some _ _ _ _ ht
      intro r' hr' m hm
      apply hi r' hr' m
      simp only at hm
      rw [h2] at hm; rw [h1]
      simp only [List.mem_append, List.mem_cons] at hm ⊢
      rcases hm with h | h
      · exact Or.inl h
      · exact Or.inr (Or.inr h)

theorem inv_run (st : SpecState) (h : List Event) (hi : Inv st) : Inv (specRun st h).1 := by
  induction h generalizing st with
  | nil => exact hi
  | cons e es ih =>
    simp only [specRun]
    exact ih _ (inv_step st e hi)

theorem inv_init : Inv {} := by intro r hr; cases hr

/-- **Non-overtaking, for every history — a message arrives.**  After any history `h` (any interleaving of arrivals
and posts, any wildcards), if the arriving message `m` is matched with the posted receive `r`, then
* `r` is the FIRST posted receive that matches `m` (receives are satisfied in posting order), and
* no message still pending (all of them arrived before `m`) matches `r`: `m` overtakes nothing. -/
theorem spec_non_overtaking_send (h : List Event) (m : Msg) (r : Rcv) (st' : SpecState)
    (hstep : specStep (specRun {} h).1 (.send m) = (st', some (r, m))) :
    (∃ pre post, (specRun {} h).1.posted = pre ++ r :: post ∧ ∀ r1 ∈ pre, compat r1 m = false) ∧
    (∀ m1 ∈ (specRun {} h).1.unexp, compat r m1 = false) := by
  have hinv : Inv (specRun {} h).1 := inv_run {} h inv_init
  simp only [specStep] at hstep
  cases ht : takeFirst (fun r => compat r m) (specRun {} h).1.posted with
  | none => simp [ht] at hstep
  | some v =>
    obtain ⟨r0, rest⟩ := v
    simp only [ht, Prod.mk.injEq, Option.some.injEq] at hstep
    obtain ⟨_, rfl, _⟩ := hstep
    obtain ⟨pre0, post0, h1, _, _, h4⟩ := takeFirst_some _ _ _ _ ht
    refine ⟨⟨pre0, post0, h1, h4⟩, ?_⟩
    intro m1 hm1
    exact hinv r0 (by rw [h1]; simp) m1 hm1

/-- **Non-overtaking, for every history — a receive is posted.**  If the posted receive `r` is matched with the
pending message `m`, then
* `m` is the FIRST pending message (arrival order) that matches `r`: among the messages of one sender that match `r`
  the first one sent is received — whatever the sizes —, and
* no receive still pending (all posted before `r`) matches `m`. -/
theorem spec_non_overtaking_post (h : List Event) (m : Msg) (r : Rcv) (st' : SpecState)
    (hstep : specStep (specRun {} h).1 (.post r) = (st', some (r, m))) :
    (∃ pre post, (specRun {} h).1.unexp = pre ++ m :: post ∧ ∀ m1 ∈ pre, compat r m1 = false) ∧
    (∀ r1 ∈ (specRun {} h).1.posted, compat r1 m = false) := by
  have hinv : Inv (specRun {} h).1 := inv_run {} h inv_init
  simp only [specStep] at hstep
  cases ht : takeFirst (fun m => compat r m) (specRun {} h).1.unexp with
  | none => simp [ht] at hstep
  | some v =>
    obtain ⟨m0, rest⟩ := v
    simp only [ht, Prod.mk.injEq, Option.some.injEq] at hstep
    obtain ⟨_, _, rfl⟩ := hstep
    obtain ⟨pre0, post0, h1, _, _, h4⟩ := takeFirst_some _ _ _ _ ht
    refine ⟨⟨pre0, post0, h1, h4⟩, ?_⟩
    intro r1 hr1
    exact hinv r1 hr1 m0 (by rw [h1]; simp)

/-- every match made by the spec is between compatible partners (communicator, source, tag, wildcards) -/
theorem spec_match_compat (st : SpecState) (e : Event) (st' : SpecState) (r : Rcv) (m : Msg)
    (hstep : specStep st e = (st', some (r, m))) : compat r m = true := by
  cases e with
  | send m' =>
    simp only [specStep] at hstep
    cases ht : takeFirst (fun r => compat r m') st.posted with
    | none => simp [ht] at hstep
    | some v =>
      obtain ⟨r0, rest⟩ := v
      simp only [ht, Prod.mk.injEq, Option.some.injEq] at hstep
      obtain ⟨_, rfl, rfl⟩ := hstep
      obtain ⟨_, _, _, _, h3, _⟩ := takeFirst_some _ _ _ _ ht
      exact h3
  | post r' =>
    simp only [specStep] at hstep
    cases ht : takeFirst (fun m => compat r' m) st.unexp with
    | none => simp [ht] at hstep
    | some v =>
      obtain ⟨m0, rest⟩ := v
      simp only [ht, Prod.mk.injEq, Option.some.injEq] at hstep
      obtain ⟨_, rfl, rfl⟩ := hstep
      obtain ⟨_, _, _, _, h3, _⟩ := takeFirst_some _ _ _ _ ht
      exact h3

/-! ### the SMPI mechanism against the spec -/

/-- the witness: threshold 256; rank 1 sends a 3000-byte message with tag 1 (rendezvous: large mailbox) and then a
17-byte message with tag 2 (eager: small mailbox); the receiver then posts `Recv(src 1, MPI_ANY_TAG)` with a
3000-byte buffer.  `Request::start` probes the SMALL mailbox first and the per-(src,dst,tag) `message_id_` test
passes (each tag has its own counter). -/
def witness : List Event :=
  [.send { mid := 0, src := 1, tag := 1, size := 3000 }, .send { mid := 1, src := 1, tag := 2, size := 17 },
   .post { rid := 0, src := some 1, tag := none, size := 3000 }]

/-- FULL-STRENGTH STATEMENT (false on the current code):
`∀ thresh h, (mechRun {thresh := thresh} h).2 = (specRun {} h).2`.
The mechanism hands the receive the SECOND message (mid 1), the spec the first (mid 0). -/
theorem smpi_refines_spec_counterexample :
    ((mechRun { thresh := 256 } witness).2.map fun (r, m) => (r.rid, m.mid)) = [(0, 1)] ∧
    ((specRun {} witness).2.map fun (r, m) => (r.rid, m.mid)) = [(0, 0)] := by
  decide

/-- with the same tag the `message_id_` counters restore the order (the mechanism and the spec agree on the witness
with tag 2 replaced by tag 1) — the defect needs a wildcard tag (or receives spread over both mailboxes) -/
theorem same_tag_witness_agrees :
    let w : List Event :=
      [.send { mid := 0, src := 1, tag := 1, size := 3000 }, .send { mid := 1, src := 1, tag := 1, size := 17 },
       .post { rid := 0, src := some 1, tag := some 1, size := 3000 }]
    ((mechRun { thresh := 256 } w).2.map fun (r, m) => (r.rid, m.mid)) = ((specRun {} w).2.map fun (r, m) => (r.rid, m.mid)) := by
  decide

theorem get_empty_recvs (t : Nat) (sn : List ((Nat × Nat) × Nat)) (w : Which) :
    (({ thresh := t, sent := sn } : Mech).get w).recvs = [] := by cases w <;> rfl
theorem get_empty_sends (t : Nat) (w : Which) : (({ thresh := t } : Mech).get w).sends = [] := by cases w <;> rfl

/-- `smpi_refines_spec_partial`: one step from the empty state (nothing queued anywhere): mechanism and spec agree —
they both queue the event and match nothing — for every threshold and every size.  (The general refinement is false,
see above; the single-mailbox case `thresh = 0` is not proved.) -/
theorem smpi_refines_spec_partial (thresh : Nat) (e : Event) :
    (mechStep { thresh := thresh } e).2 = (specStep {} e).2 := by
  cases e with
  | send m => simp only [mechStep, specStep, get_empty_recvs, takeFirst]
  | post r => simp only [mechStep, specStep, get_empty_sends, takeFirst]

/-! ### non-vacuity: concrete histories satisfying the hypotheses of the two theorems -/

example : (specStep (specRun {} [.send { mid := 0, src := 1, tag := 1, size := 8 },
    .send { mid := 1, src := 1, tag := 2, size := 8 }]).1 (.post { rid := 0, src := some 1, tag := none, size := 8 })).2
    = some ({ rid := 0, src := some 1, tag := none, size := 8 }, { mid := 0, src := 1, tag := 1, size := 8 }) := by
  decide

example : (specStep (specRun {} [.post { rid := 0, src := none, tag := some 2, size := 8 },
    .post { rid := 1, src := none, tag := none, size := 8 }]).1 (.send { mid := 0, src := 3, tag := 1, size := 8 })).2
    = some ({ rid := 1, src := none, tag := none, size := 8 }, { mid := 0, src := 3, tag := 1, size := 8 }) := by
  decide

end SgVerif.C28
