import SgVerif.C28.Refine
/-
C28 — MPI point-to-point matching and non-overtaking.  Property theorems.

* `spec_non_overtaking_send/_post` (full strength, every history): in the MPI matching spec a receive never takes a
  message while an earlier-arrived message that it matches is still pending, and a message never goes to a receive
  while an earlier-posted receive that matches it is still pending.
* `smpi_refines_spec` — the SMPI two-mailbox mechanism makes the same matches as the spec for every history and every
  size relative to `smpi/async-small-thresh` — is FALSE on the current code (`smpi_refines_spec_counterexample`,
  replayed on the library by props/C28/corpus.txt).  Proved instead, for ALL histories (any length, any interleaving):
  - `smpi_refines_spec_one_side`: every message size and receive-buffer size on one side of the threshold
    (includes `thresh = 0`, the default single-mailbox configuration); wildcards allowed;
  - `smpi_refines_spec_key_determined`: message sizes ARBITRARY (sends sit in both mailboxes), receive buffers
    `≥ thresh`, every receive's compatible messages share one (src,tag) key — this is where the `message_id_`
    counters restore the order; corollaries `smpi_refines_spec_single_tag` (one tag per source, receives name their
    source, ANY_TAG allowed) and `smpi_refines_spec_no_wildcard`.
  Both rest on the invariant "queued sends of one (src,tag) carry consecutive ids starting at the received-counter"
  (`SeqOK`, Lemmas.lean) carried by the refinement relation `Rel` (Refine.lean).
  What remains outside: receives with buffers on both sides of the threshold, and wildcard receives whose compatible
  messages have several keys with sizes on both sides — exactly the classes in which the library misbehaves
  (findings 1–3 of NOTES.md).
-/
namespace SgVerif.C28

/-- **Non-overtaking, for every history — a message arrives.**  After any history `h` (any interleaving of arrivals
and posts, any wildcards), if the arriving message `m` is matched with the posted receive `r`, then
* `r` is the FIRST posted receive that matches `m` (receives are satisfied in posting order), and
* no message still pending (all of them arrived before `m`) matches `r`: `m` overtakes nothing. -/
theorem spec_non_overtaking_send (h : List Event) (m : Msg) (r : Rcv) (st' : SpecState)
    (hstep : specStep (specRun {} h).1 (.send m) = (st', some (r, m))) :
    (∃ pre post, (specRun {} h).1.posted = pre ++ r :: post ∧ ∀ r1 ∈ pre, compat r1 m = false) ∧
    (∀ m1 ∈ (specRun {} h).1.unexp, compat r m1 = false) := by
  have hinv : Inv (specRun {} h).1 := inv_run {} h inv_init
  simp only [specStep] at hstep
  cases ht : takeFirst (fun r => compat r m) (specRun {} h).1.posted with
  | none => simp [ht] at hstep
  | some v =>
    obtain ⟨r0, rest⟩ := v
    simp only [ht, Prod.mk.injEq, Option.some.injEq] at hstep
    obtain ⟨_, rfl, _⟩ := hstep
    obtain ⟨pre0, post0, h1, _, _, h4⟩ := takeFirst_some _ _ _ _ ht
    refine ⟨⟨pre0, post0, h1, h4⟩, ?_⟩
    intro m1 hm1
    exact hinv r0 (by rw [h1]; simp) m1 hm1

/-- **Non-overtaking, for every history — a receive is posted.**  If the posted receive `r` is matched with the
pending message `m`, then
* `m` is the FIRST pending message (arrival order) that matches `r`: among the messages of one sender that match `r`
  the first one sent is received — whatever the sizes —, and
* no receive still pending (all posted before `r`) matches `m`. -/
theorem spec_non_overtaking_post (h : List Event) (m : Msg) (r : Rcv) (st' : SpecState)
    (hstep : specStep (specRun {} h).1 (.post r) = (st', some (r, m))) :
    (∃ pre post, (specRun {} h).1.unexp = pre ++ m :: post ∧ ∀ m1 ∈ pre, compat r m1 = false) ∧
    (∀ r1 ∈ (specRun {} h).1.posted, compat r1 m = false) := by
  have hinv : Inv (specRun {} h).1 := inv_run {} h inv_init
  simp only [specStep] at hstep
  cases ht : takeFirst (fun m => compat r m) (specRun {} h).1.unexp with
  | none => simp [ht] at hstep
  | some v =>
    obtain ⟨m0, rest⟩ := v
    simp only [ht, Prod.mk.injEq, Option.some.injEq] at hstep
    obtain ⟨_, _, rfl⟩ := hstep
    obtain ⟨pre0, post0, h1, _, _, h4⟩ := takeFirst_some _ _ _ _ ht
    refine ⟨⟨pre0, post0, h1, h4⟩, ?_⟩
    intro r1 hr1
    exact hinv r1 hr1 m0 (by rw [h1]; simp)

/-- every match made by the spec is between compatible partners (communicator, source, tag, wildcards) -/
theorem spec_match_compat (st : SpecState) (e : Event) (st' : SpecState) (r : Rcv) (m : Msg)
    (hstep : specStep st e = (st', some (r, m))) : compat r m = true := by
  cases e with
  | send m' =>
    simp only [specStep] at hstep
    cases ht : takeFirst (fun r => compat r m') st.posted with
    | none => simp [ht] at hstep
    | some v =>
      obtain ⟨r0, rest⟩ := v
      simp only [ht, Prod.mk.injEq, Option.some.injEq] at hstep
      obtain ⟨_, rfl, rfl⟩ := hstep
      obtain ⟨_, _, _, _, h3, _⟩ := takeFirst_some _ _ _ _ ht
      exact h3
  | post r' =>
    simp only [specStep] at hstep
    cases ht : takeFirst (fun m => compat r' m) st.unexp with
    | none => simp [ht] at hstep
    | some v =>
      obtain ⟨m0, rest⟩ := v
      simp only [ht, Prod.mk.injEq, Option.some.injEq] at hstep
      obtain ⟨_, rfl, rfl⟩ := hstep
      obtain ⟨_, _, _, _, h3, _⟩ := takeFirst_some _ _ _ _ ht
      exact h3

/-! ### the SMPI mechanism against the spec -/

/-- the witness: threshold 256; rank 1 sends a 3000-byte message with tag 1 (rendezvous: large mailbox) and then a
17-byte message with tag 2 (eager: small mailbox); the receiver then posts `Recv(src 1, MPI_ANY_TAG)` with a
3000-byte buffer.  `Request::start` probes the SMALL mailbox first and the per-(src,dst,tag) `message_id_` test
passes (each tag has its own counter). -/
def witness : List Event :=
  [.send { mid := 0, src := 1, tag := 1, size := 3000 }, .send { mid := 1, src := 1, tag := 2, size := 17 },
   .post { rid := 0, src := some 1, tag := none, size := 3000 }]

/-- FULL-STRENGTH STATEMENT (false on the current code):
`∀ thresh h, (mechRun {thresh := thresh} h).2 = (specRun {} h).2`.
The mechanism hands the receive the SECOND message (mid 1), the spec the first (mid 0). -/
theorem smpi_refines_spec_counterexample :
    ((mechRun { thresh := 256 } witness).2.map fun (r, m) => (r.rid, m.mid)) = [(0, 1)] ∧
    ((specRun {} witness).2.map fun (r, m) => (r.rid, m.mid)) = [(0, 0)] := by
  decide

/-- with the same tag the `message_id_` counters restore the order (the mechanism and the spec agree on the witness
with tag 2 replaced by tag 1) — the defect needs a wildcard tag (or receives spread over both mailboxes) -/
theorem same_tag_witness_agrees :
    let w : List Event :=
      [.send { mid := 0, src := 1, tag := 1, size := 3000 }, .send { mid := 1, src := 1, tag := 1, size := 17 },
       .post { rid := 0, src := some 1, tag := some 1, size := 3000 }]
    ((mechRun { thresh := 256 } w).2.map fun (r, m) => (r.rid, m.mid)) = ((specRun {} w).2.map fun (r, m) => (r.rid, m.mid)) := by
  decide

/-- `smpi_refines_spec_partial`: one step from the empty state (nothing queued anywhere): mechanism and spec agree —
they both queue the event and match nothing — for every threshold and every size.  (The general refinement is false,
see above; the single-mailbox case `thresh = 0` is not proved.) -/
theorem smpi_refines_spec_partial (thresh : Nat) (e : Event) :
    (mechStep { thresh := thresh } e).2 = (specStep {} e).2 := by
  cases e with
  | send m => simp only [mechStep, specStep, get_empty_recvs, takeFirst]
  | post r => simp only [mechStep, specStep, get_empty_sends, takeFirst]

/-- **Refinement, all sizes on one side of the eager threshold — every history.**  If every message and every
receive buffer is `≥ thresh` (rendezvous side; includes `thresh = 0`, the default, where there is one mailbox) or every
one is `< thresh` (eager side), the mechanism makes exactly the matches of the MPI spec, in the same order, whatever
the interleaving of arrivals and posts and whatever the wildcards. -/
theorem smpi_refines_spec_one_side (thresh : Nat) (h : List Event)
    (hs : (∀ e ∈ h, thresh ≤ e.size) ∨ (∀ e ∈ h, e.size < thresh)) :
    (mechRun { thresh := thresh } h).2 = (specRun {} h).2 := by
  rcases hs with hs | hs
  · exact one_side_run .large thresh h (Or.inl ⟨rfl, hs⟩) _ _ [] (rel_init .large thresh) rfl (by intro e he; cases he)
  · exact one_side_run .small thresh h (Or.inr ⟨rfl, hs⟩) _ _ [] (rel_init .small thresh) rfl (by intro e he; cases he)

/-- **Refinement, messages of ANY size — every history.**  Sends sit in both mailboxes (eager ones in the small one,
rendezvous ones in the large one); if receive buffers are `≥ thresh` and all messages that a receive can match have the
same (src,tag), the `message_id_` test of `match_recv` makes the receive skip a younger eager message and take the
oldest one, wherever it is: same matches as the MPI spec. -/
theorem smpi_refines_spec_key_determined (thresh : Nat) (h : List Event) (hk : KeyDetermined h)
    (hbuf : ∀ r, Event.post r ∈ h → thresh ≤ r.size) :
    (mechRun { thresh := thresh } h).2 = (specRun {} h).2 := by
  by_cases h0 : thresh = 0
  · subst h0
    exact smpi_refines_spec_one_side 0 h (Or.inl fun _ _ => Nat.zero_le _)
  · exact kd_run thresh (by omega) h hk hbuf h _ _ [] (fun e he => he) (rel_init .large thresh) rfl
      (by intro e he; cases he)

/-- corollary: one tag per source and receives that name their source (MPI_ANY_TAG allowed) — the general form of
`same_tag_witness_agrees` -/
theorem smpi_refines_spec_single_tag (thresh : Nat) (h : List Event)
    (htag : ∀ m1 m2, Event.send m1 ∈ h → Event.send m2 ∈ h → m1.src = m2.src → m1.tag = m2.tag)
    (hsrc : ∀ r, Event.post r ∈ h → r.src ≠ none) (hbuf : ∀ r, Event.post r ∈ h → thresh ≤ r.size) :
    (mechRun { thresh := thresh } h).2 = (specRun {} h).2 := by
  apply smpi_refines_spec_key_determined thresh h _ hbuf
  intro r m1 m2 hr h1 h2 c1 c2
  have hs := hsrc r hr
  have hsrc12 : m1.src = m2.src := by
    unfold compat at c1 c2
    cases hrs : r.src with
    | none => exact absurd hrs hs
    | some s =>
      rw [hrs] at c1 c2
      simp only [Bool.and_eq_true, beq_iff_eq] at c1 c2
      rw [← c1.1, ← c2.1]
  exact ⟨hsrc12, htag m1 m2 h1 h2 hsrc12⟩

/-- corollary: no wildcard receive (any number of tags per source, any message sizes) -/
theorem smpi_refines_spec_no_wildcard (thresh : Nat) (h : List Event)
    (hnw : ∀ r, Event.post r ∈ h → r.src ≠ none ∧ r.tag ≠ none) (hbuf : ∀ r, Event.post r ∈ h → thresh ≤ r.size) :
    (mechRun { thresh := thresh } h).2 = (specRun {} h).2 := by
  apply smpi_refines_spec_key_determined thresh h _ hbuf
  intro r m1 m2 hr _ _ c1 c2
  obtain ⟨hs, ht⟩ := hnw r hr
  unfold compat at c1 c2
  cases hrs : r.src with
  | none => exact absurd hrs hs
  | some s =>
    cases hrt : r.tag with
    | none => exact absurd hrt ht
    | some t =>
      rw [hrs, hrt] at c1 c2
      simp only [Bool.and_eq_true, beq_iff_eq] at c1 c2
      exact ⟨by rw [← c1.1, ← c2.1], by rw [← c1.2, ← c2.2]⟩

/-- the hypothesis `hbuf` of the three theorems above cannot be dropped: a receive whose buffer is below the threshold
waits in the small mailbox and never sees a rendezvous message (no wildcard, one tag): the spec matches them (and MPI
then reports MPI_ERR_TRUNCATE), the mechanism never does (finding 3 of NOTES.md; replayed on the library) -/
theorem smpi_refines_spec_small_buffer_counterexample :
    let w : List Event :=
      [.post { rid := 0, src := some 1, tag := some 1, size := 16 }, .send { mid := 0, src := 1, tag := 1, size := 3000 }]
    (mechRun { thresh := 256 } w).2.length = 0 ∧ ((specRun {} w).2.map fun (r, m) => (r.rid, m.mid)) = [(0, 0)] := by
  decide

/-! ### non-vacuity: concrete histories satisfying the hypotheses of the two theorems -/

example : (specStep (specRun {} [.send { mid := 0, src := 1, tag := 1, size := 8 },
    .send { mid := 1, src := 1, tag := 2, size := 8 }]).1 (.post { rid := 0, src := some 1, tag := none, size := 8 })).2
    = some ({ rid := 0, src := some 1, tag := none, size := 8 }, { mid := 0, src := 1, tag := 1, size := 8 }) := by
  decide

example : (specStep (specRun {} [.post { rid := 0, src := none, tag := some 2, size := 8 },
    .post { rid := 1, src := none, tag := none, size := 8 }]).1 (.send { mid := 0, src := 3, tag := 1, size := 8 })).2
    = some ({ rid := 1, src := none, tag := none, size := 8 }, { mid := 0, src := 3, tag := 1, size := 8 }) := by
  decide

/-- non-vacuity of `smpi_refines_spec_one_side`: 7 events on the rendezvous side with wildcards, queued receives and
queued sends; 4 matches -/
def hOneSide : List Event :=
  [.post { rid := 0, src := none, tag := some 2, size := 4096 }, .send { mid := 0, src := 1, tag := 1, size := 3000 },
   .send { mid := 1, src := 1, tag := 2, size := 3000 }, .send { mid := 2, src := 2, tag := 1, size := 5000 },
   .post { rid := 1, src := some 1, tag := none, size := 4096 }, .post { rid := 2, src := none, tag := none, size := 8192 },
   .post { rid := 3, src := some 2, tag := some 7, size := 8192 }, .send { mid := 3, src := 2, tag := 7, size := 3000 }]

example : (∀ e ∈ hOneSide, 256 ≤ e.size) ∧
    ((specRun {} hOneSide).2.map fun (r, m) => (r.rid, m.mid)) = [(0, 1), (1, 0), (2, 2), (3, 3)] := by
  refine ⟨?_, by decide⟩
  intro e he
  simp only [hOneSide, List.mem_cons, List.not_mem_nil, or_false] at he
  rcases he with rfl | rfl | rfl | rfl | rfl | rfl | rfl | rfl <;> simp [Event.size]

example : ((mechRun { thresh := 256 } hOneSide).2.map fun (r, m) => (r.rid, m.mid)) = [(0, 1), (1, 0), (2, 2), (3, 3)] := by
  decide

/-- non-vacuity of `smpi_refines_spec_single_tag` / `_key_determined`: threshold 256, messages of one tag per source on
BOTH sides of the threshold (sends queued in both mailboxes), ANY_TAG receives naming their source, large buffers -/
def hSingleTag : List Event :=
  [.send { mid := 0, src := 1, tag := 1, size := 3000 }, .send { mid := 1, src := 1, tag := 1, size := 17 },
   .send { mid := 2, src := 2, tag := 5, size := 17 }, .send { mid := 3, src := 1, tag := 1, size := 3000 },
   .post { rid := 0, src := some 1, tag := none, size := 4096 }, .post { rid := 1, src := some 1, tag := some 1, size := 4096 },
   .post { rid := 2, src := some 2, tag := none, size := 4096 }, .post { rid := 3, src := some 1, tag := none, size := 4096 },
   .post { rid := 4, src := some 2, tag := some 5, size := 4096 }, .send { mid := 4, src := 2, tag := 5, size := 3000 }]

example : (∀ m1 m2, Event.send m1 ∈ hSingleTag → Event.send m2 ∈ hSingleTag → m1.src = m2.src → m1.tag = m2.tag) ∧
    (∀ r, Event.post r ∈ hSingleTag → r.src ≠ none) ∧ (∀ r, Event.post r ∈ hSingleTag → 256 ≤ r.size) := by
  refine ⟨?_, ?_, ?_⟩
  · intro m1 m2 h1 h2
    simp only [hSingleTag, List.mem_cons, List.not_mem_nil, or_false, Event.send.injEq, reduceCtorEq, false_or, or_false] at h1 h2
    rcases h1 with rfl | rfl | rfl | rfl | rfl <;> rcases h2 with rfl | rfl | rfl | rfl | rfl <;> simp
  · intro r hr
    simp only [hSingleTag, List.mem_cons, List.not_mem_nil, or_false, Event.post.injEq, reduceCtorEq, false_or, or_false] at hr
    rcases hr with rfl | rfl | rfl | rfl | rfl <;> simp
  · intro r hr
    simp only [hSingleTag, List.mem_cons, List.not_mem_nil, or_false, Event.post.injEq, reduceCtorEq, false_or, or_false] at hr
    rcases hr with rfl | rfl | rfl | rfl | rfl <;> simp

/-- on this history the mechanism really uses both mailboxes and the ids restore the order: 5 matches, as in the spec -/
example : ((mechRun { thresh := 256 } hSingleTag).2.map fun (r, m) => (r.rid, m.mid)) = [(0, 0), (1, 1), (2, 2), (3, 3), (4, 4)] ∧
    (mechRun { thresh := 256 } (hSingleTag.take 4)).1.small.sends.length = 2 ∧
    (mechRun { thresh := 256 } (hSingleTag.take 4)).1.large.sends.length = 2 := by
  decide

/-- non-vacuity of `smpi_refines_spec_no_wildcard`: two tags per source, sizes on both sides -/
def hNoWild : List Event :=
  [.send { mid := 0, src := 1, tag := 1, size := 3000 }, .send { mid := 1, src := 1, tag := 2, size := 17 },
   .send { mid := 2, src := 1, tag := 1, size := 17 }, .post { rid := 0, src := some 1, tag := some 1, size := 4096 },
   .post { rid := 1, src := some 1, tag := some 1, size := 4096 }, .post { rid := 2, src := some 1, tag := some 2, size := 4096 }]

example : (∀ r, Event.post r ∈ hNoWild → r.src ≠ none ∧ r.tag ≠ none) ∧ (∀ r, Event.post r ∈ hNoWild → 256 ≤ r.size) ∧
    ((mechRun { thresh := 256 } hNoWild).2.map fun (r, m) => (r.rid, m.mid)) = [(0, 0), (1, 2), (2, 1)] := by
  refine ⟨?_, ?_, by decide⟩
  · intro r hr
    simp only [hNoWild, List.mem_cons, List.not_mem_nil, or_false, Event.post.injEq, reduceCtorEq, false_or, or_false] at hr
    rcases hr with rfl | rfl | rfl <;> simp
  · intro r hr
    simp only [hNoWild, List.mem_cons, List.not_mem_nil, or_false, Event.post.injEq, reduceCtorEq, false_or, or_false] at hr
    rcases hr with rfl | rfl | rfl <;> simp

end SgVerif.C28
