import SgVerif.C28.Model
namespace SgVerif.C28
theorem placeholder : True := trivial
end SgVerif.C28
