import SgVerif.C28.Model
import SgVerif.Common.Proto
open SgVerif.Proto
/-
C28 driver.  One line per generated MPI program:
  <np> <thresh> <det> m <mid> <src> <dst> <tag> <size> <seq> <sord> … r <rid> <rank> <src> <tag> <buf> <pord> …
      [h <dst> (s <mid> | p <rid>)…]   =>   l <rank> <rid> <source> <tag> <count> <err> <psrc> <ptag> <pseq> <pmid> <pbad> <prs> <prt> <prc> …
MONFAIL: the log violates the property's predicate (Model.monitor).  When the program is "staged" (group `h`: the
order in which the sends and the posts of one destination reach its matching engine is forced by sleeps), the
MECHANISM model predicts the exact pairing: DISAGREE when the library pairs differently.
-/
namespace SgVerif.C28

def nat? (s : String) : Option Nat := s.toNat?
def int? (s : String) : Option Int := s.toInt?

partial def parseQ (toks : List String) (ms : List PMsg) (rs : List PRcv) (h : Option (Nat × List (Bool × Nat))) :
    Option (List PMsg × List PRcv × Option (Nat × List (Bool × Nat))) :=
  match toks with
  | [] => some (ms.reverse, rs.reverse, h)
  | "m" :: a :: b :: c :: d :: e :: f :: g :: rest =>
    match nat? a, nat? b, nat? c, nat? d, nat? e, nat? f, nat? g with
    | some a, some b, some c, some d, some e, some f, some g =>
      parseQ rest ({ mid := a, src := b, dst := c, tag := d, size := e, seq := f, sord := g } :: ms) rs h
    | _, _, _, _, _, _, _ => none
  | "r" :: a :: b :: c :: d :: e :: f :: rest =>
    match nat? a, nat? b, int? c, int? d, nat? e, nat? f with
    | some a, some b, some c, some d, some e, some f =>
      parseQ rest ms ({ rid := a, rank := b, src := c, tag := d, buf := e, pord := f } :: rs) h
    | _, _, _, _, _, _ => none
  | "h" :: d :: rest =>
    match nat? d with
    | some d =>
      let rec evs : List String → List (Bool × Nat) → Option (List (Bool × Nat))
        | [], acc => some acc.reverse
        | "s" :: x :: r, acc => (nat? x).bind fun x => evs r ((true, x) :: acc)
        | "p" :: x :: r, acc => (nat? x).bind fun x => evs r ((false, x) :: acc)
        | _, _ => none
      (evs rest []).map fun e => (ms.reverse, rs.reverse, some (d, e))
    | none => none
  | _ => none

partial def parseL (toks : List String) (acc : List LogE) : Option (List LogE) :=
  match toks with
  | [] => some acc.reverse
  | "l" :: a :: b :: c :: d :: e :: f :: g :: h :: i :: j :: k :: p1 :: p2 :: p3 :: rest =>
    match nat? a, nat? b, int? c, int? d, int? e, int? g, int? h, int? i, int? j, int? k, int? p1, int? p2, int? p3 with
    | some a, some b, some c, some d, some e, some g, some h, some i, some j, some k, some p1, some p2, some p3 =>
      parseL rest ({ rank := a, rid := b, source := c, tag := d, count := e, err := f, psrc := g, ptag := h, pseq := i,
                     pmid := j, pbad := k, probe := if p1 = -2 then none else some (p1, p2, p3) } :: acc)
    | _, _, _, _, _, _, _, _, _, _, _, _, _ => none
  | _ => none

def optOfInt (x : Int) : Option Nat := if x < 0 then none else some x.toNat

/-- pairing predicted by the mechanism model for a staged history at destination `d` -/
def predict (thresh d : Nat) (msgs : List PMsg) (rcvs : List PRcv) (h : List (Bool × Nat)) : Option (List (Nat × Nat)) := do
  let evs ← h.mapM fun (isSend, x) =>
    if isSend then
      (msgs.find? fun m => m.mid = x ∧ m.dst = d).map fun m =>
        Event.send { mid := m.mid, src := m.src, tag := m.tag, size := m.size }
    else
      (rcvs.find? fun r => r.rid = x ∧ r.rank = d).map fun r =>
        Event.post { rid := r.rid, src := optOfInt r.src, tag := optOfInt r.tag, size := r.buf }
  let (_, ms) := mechRun { thresh := thresh } evs
  pure (ms.map fun (r, m) => (r.rid, m.mid))

def judge (q a : List String) : Verdict :=
  match q with
  | _np :: thresh :: _det :: rest =>
    match nat? thresh, parseQ rest [] [] none, parseL a [] with
    | some thresh, some (msgs, rcvs, h), some log =>
      match monitor thresh msgs rcvs log with
      | some e => .monfail e
      | none =>
        match h with
        | none => .ok
        | some (d, evs) =>
          match predict thresh d msgs rcvs evs with
          | none => .bad
          | some pred =>
            let impl := (log.filter fun l => l.rank = d).map fun l => (l.rid, l.pmid.toNat)
            let bad := pred.filter fun p => ¬ impl.contains p
            if bad.isEmpty ∧ pred.length = impl.length then .ok
            else .disagree s!"mechanism-model-pairs {pred}"
    | _, _, _ => .bad
  | _ => .bad

end SgVerif.C28

def main : IO Unit := SgVerif.Proto.run SgVerif.C28.judge
