import SgVerif.C43.Lemmas
import SgVerif.C43.Gen
/-
C43 — checker and application agree on every transition.  Property theorems only.
`appTable` / `checkerSchema` are GENERATED from the `serialize` bodies of the observers and from the channel
constructors of the transition classes (props/C43/gen.py): building this file re-checks the table as the source is now.
-/
namespace SgVerif.C43

/-- **Codec round trip**, generic: for every schema (any length, any nesting of member lists), every value the
application can pack, and whatever follows on the wire: unpacking with the same schema returns exactly the packed
values and leaves exactly what follows.  By induction on the schema. -/
theorem codec_roundtrip_append (sch : List FieldTy) (vs : List FVal) (bs rest : List Nat)
    (h : encode sch vs = some bs) : decode sch (bs ++ rest) = some (vs, rest) := by
  induction sch generalizing vs bs with
  | nil => cases vs <;> simp [encode] at h; subst h; simp [decode]
  | cons f fs ih =>
    cases vs with
    | nil => simp [encode] at h
    | cons v vs =>
      simp only [encode] at h
      cases ha : encodeField f v <;> cases hb : encode fs vs <;> simp [ha, hb] at h
      subst h
      rename_i a b
      simp only [decode, List.append_assoc, field_roundtrip f v a (b ++ rest) ha, ih vs b hb]

/-- `decode sch (encode sch v) = some (v, [])` -/
theorem codec_roundtrip (sch : List FieldTy) (vs : List FVal) (bs : List Nat) (h : encode sch vs = some bs) :
    decode sch bs = some (vs, []) := by
  simpa using codec_roundtrip_append sch vs bs [] h

/-- when the application's schema is compatible with the checker's, both encode every message to the same bytes -/
theorem compatible_transfer (a c : List FieldTy) (hc : compatible a c = true) (vs : List FVal) (bs : List Nat)
    (h : encode a vs = some bs) : encode c vs = some bs := by
  induction a generalizing c vs bs with
  | nil =>
    cases c <;> simp [compatible] at hc
    exact h
  | cons f fs ih =>
    cases c with
    | nil => simp [compatible] at hc
    | cons g gs =>
      simp only [compatible, Bool.and_eq_true] at hc
      cases vs with
      | nil => simp [encode] at h
      | cons v vs =>
        simp only [encode] at h ⊢
        cases ha : encodeField f v <;> cases hb : encode fs vs <;> simp [ha, hb] at h
        subst h
        rename_i x y
        have hg : encodeField g v = some x := by
          cases f <;> cases g <;> simp [fieldCompatible] at hc
          · rename_i p q; rw [← hc.1]; exact ha
          · rename_i al cl
            cases v <;> simp only [encodeField] at ha ⊢ <;> try (simp at ha)
            rename_i es
            obtain ⟨hn, a, he, hx⟩ := ha
            subst hx
            simp [hn, elems_transfer al cl hc.1 es a he]
        simp [hg, ih gs hc.2 vs y hb]

/-- **Agreement ⇒ the checker decodes what the application encoded** (same values, nothing left over, no blocking) -/
theorem agree_decodes (a c : List FieldTy) (hc : compatible a c = true) (vs : List FVal) (bs : List Nat)
    (h : encode a vs = some bs) : decode c bs = some (vs, []) :=
  codec_roundtrip c vs bs (compatible_transfer a c hc vs bs h)

/-- entry `e` of the generated table agrees with what the checker-side constructor of its kind unpacks -/
def agrees (e : Entry) : Bool :=
  match checkerSchema e.kind with
  | some c => !e.dies && compatible e.app c
  | none => false

/-
Full-strength statement (FALSE on the current code because of the message-queue observers, see below):
  theorem schemas_agree : ∀ e ∈ appTable, agrees e = true
-/
def excluded : List String := ["MessIputSimcall", "MessIgetSimcall"]

/-- finite table: `decide`.  Every (observer, kind) entry except the message-queue observers packs exactly what the
checker-side constructor of that kind unpacks (SEM_WAIT included since the repair of `sem-wait-capacity-signedness`). -/
theorem schemas_agree_partial : ∀ e ∈ appTable, ¬ e.observer ∈ excluded → agrees e = true := by decide

/-- **End to end, every supported simcall kind**: for every entry of the generated table outside the message-queue
observers (the registered finding `messqueue-observers-serialised-as-comm`), every value list the application can pack
with that observer's `serialize`, the checker-side constructor of the entry's kind exists, consumes exactly the bytes
sent (nothing left, no blocking `receive`) and obtains exactly the packed values.  `schemas_agree_partial` (finite
table) + `agree_decodes` (generic, all values). -/
theorem supported_transition_decodes (e : Entry) (he : e ∈ appTable) (hx : ¬ e.observer ∈ excluded)
    (vs : List FVal) (bs : List Nat) (h : encode e.app vs = some bs) :
    ∃ c, checkerSchema e.kind = some c ∧ e.dies = false ∧ decode c bs = some (vs, []) := by
  have ha := schemas_agree_partial e he hx
  unfold agrees at ha
  cases hc : checkerSchema e.kind with
  | none => simp [hc] at ha
  | some c =>
    simp only [hc, Bool.and_eq_true, Bool.not_eq_true'] at ha
    exact ⟨c, rfl, ha.1, agree_decodes e.app c ha.2 vs bs h⟩

/-! ### roles: the n-th value means the same thing on both sides -/

/-- entry `e`: the roles taken from the packed expressions describe its schema, and position by position they are the
roles of the members the checker-side constructor of its kind stores the unpacked values in -/
def rolesAgree (e : Entry) : Bool :=
  match checkerSchema e.kind, checkerRoles e.kind with
  | some c, some cr => rolesShape e.app e.roles && rolesShape c cr && rolesCompatible e.roles cr
  | _, _ => false

/-- finite table: `decide`.  For every (observer, kind) entry outside the message-queue observers, the expression the
application packs at position n names the same thing (mutex, condvar, semaphore, barrier, comm, mailbox, owner, sender,
receiver, target, child, capacity, granted, timeout, tag, bounds, call location) as the member the checker stores the
n-th unpacked value in; for TESTANY / WAITANY, member kind by member kind.  Two fields of equal wire type that are
packed in one order and unpacked in the other make `schemas_agree_partial` hold and this theorem fail. -/
theorem roles_agree : ∀ e ∈ appTable, ¬ e.observer ∈ excluded → rolesAgree e = true := by decide

/-- **End to end with roles**: as `supported_transition_decodes`, and moreover the member in which the checker stores
the n-th decoded value has the role of the n-th expression the application packed (for TESTANY / WAITANY: member kind
by member kind).  `supported_transition_decodes` + `roles_agree`. -/
theorem supported_transition_decodes_in_role (e : Entry) (he : e ∈ appTable) (hx : ¬ e.observer ∈ excluded)
    (vs : List FVal) (bs : List Nat) (h : encode e.app vs = some bs) :
    ∃ c cr, checkerSchema e.kind = some c ∧ checkerRoles e.kind = some cr ∧ decode c bs = some (vs, []) ∧
      rolesShape c cr = true ∧ rolesShape e.app e.roles = true ∧ rolesCompatible e.roles cr = true := by
  obtain ⟨c, hc, _, hd⟩ := supported_transition_decodes e he hx vs bs h
  have hr := roles_agree e he hx
  unfold rolesAgree at hr
  rw [hc] at hr
  cases hcr : checkerRoles e.kind with
  | none => simp [hcr] at hr
  | some cr =>
    simp only [hcr, Bool.and_eq_true] at hr
    exact ⟨c, cr, hc, rfl, hd, hr.1.2, hr.1.1, hr.2⟩

/-- sanity of the definition on the witness shape of the class: CONDVAR_WAIT packed as (mutex, cond, granted, timeout)
has the right types and the wrong roles -/
theorem roles_swapped_rejected :
    let e : Entry := { app_ConditionVariableObserver_CONDVAR_WAIT with
                       roles := [.prim "mutex", .prim "cond", .prim "granted", .prim "timeout"] }
    agrees e = true ∧ rolesAgree e = false := by decide

-- non-vacuity: CONDVAR_WAIT has two fields of the same wire type with different roles; a constant is the only wildcard
example : app_ConditionVariableObserver_CONDVAR_WAIT.roles = [.prim "cond", .prim "mutex", .prim "granted", .prim "timeout"] ∧
    app_ConditionVariableObserver_CONDVAR_WAIT.app = [.prim .u32, .prim .u32, .prim .bool, .prim .bool] := by decide
example : roleOk "_const" "granted" = true ∧ roleOk "granted" "_const" = false ∧ roleOk "mutex" "cond" = false := by decide

-- non-vacuity: a MUTEX_WAIT message (mutex 7, owner 3) is an entry of the table, outside the exclusion, and encodes
example : app_MutexAcquisitionObserver_MUTEX_WAIT ∈ appTable := by simp [appTable]
example : ¬ app_MutexAcquisitionObserver_MUTEX_WAIT.observer ∈ excluded ∧
    (encode app_MutexAcquisitionObserver_MUTEX_WAIT.app [.p (.nat 7), .p (.int 3)]).isSome = true := by decide

/-- D14: `MessIputSimcall::serialize` packs two pointers under the COMM_ASYNC_SEND tag, `CommSendTransition` unpacks
`unsigned, unsigned, int, std::string` -/
theorem schemas_agree_counterexample_mess_put : agrees app_MessIputSimcall_COMM_ASYNC_SEND = false := by decide
theorem schemas_agree_counterexample_mess_get : agrees app_MessIgetSimcall_COMM_ASYNC_RECV = false := by decide

/-- what happens on the wire for typical heap pointers: after `comm_`, `mbox_`, `tag_` have eaten 12 of the 16 bytes the
checker takes bytes 4–5 of the queue pointer as a string length (0x7ffc = 32764) and waits for 32765 bytes that
never come (`none` = `receive` blocks): verification hangs. -/
theorem mess_put_blocks :
    (do let bs ← encode app_MessIputSimcall_COMM_ASYNC_SEND.app [.p (.nat 0x55d0c0a81230), .p (.nat 0x7ffc12345678)]
        let c ← checkerSchema 10
        pure (decode c bs)) = some none := by decide

/-- what `SemaphoreAcquisitionObserver::serialize` packed for SEM_WAIT BEFORE the repair of
`sem-wait-capacity-signedness` (`channel.pack(get_capacity())`, an `unsigned`), kept as a literal for the regression
statements below; it now packs `pack<int>`: `[u32, bool, i32]`, what `SemaphoreTransition` unpacks. -/
def oldSemWaitApp : List FieldTy := [.prim .u32, .prim .bool, .prim .u32]

/-- **Regression (`sem-wait-capacity-signedness`).**  The old schema did not agree with the checker's (unsigned vs int),
the generated one does. -/
theorem schemas_agree_counterexample_sem_wait :
    (checkerSchema 22).map (compatible oldSemWaitApp) = some false ∧
    agrees app_SemaphoreAcquisitionObserver_SEM_WAIT = true := by decide
/-- same byte layout (so no hang) ... -/
theorem sem_wait_same_layout : (checkerSchema 22).map (sameLayout oldSemWaitApp) = some true := by decide
/-- ... but a capacity ≥ 2^31 sent as unsigned was read back as another value; with the repaired schema the checker
decodes exactly the (int) value the application packs. -/
theorem sem_wait_misread :
    (do let bs ← encode oldSemWaitApp [.p (.nat 7), .p (.bool true), .p (.nat 3000000000)]
        let c ← checkerSchema 22
        decode c bs) = some ([.p (.nat 7), .p (.bool true), .p (.int (-1294967296))], []) ∧
    (do let bs ← encode app_SemaphoreAcquisitionObserver_SEM_WAIT.app [.p (.nat 7), .p (.bool true), .p (.int (-1294967296))]
        let c ← checkerSchema 22
        decode c bs) = some ([.p (.nat 7), .p (.bool true), .p (.int (-1294967296))], []) := by decide

-- non-vacuity: a WAITANY message with two members round-trips through the checker-side schema
example :
    (do let bs ← encode app_ActivityWaitanySimcall_WAITANY.app
                  [.rep [(13, [.bool false, .nat 5, .int 2, .int (-1), .nat 3, .str [97, 98]]), (29, [])], .p (.str [120])]
        let c ← checkerSchema 6
        decode c bs) =
    some ([.rep [(13, [.bool false, .nat 5, .int 2, .int (-1), .nat 3, .str [97, 98]]), (29, [])], .p (.str [120])], []) := by
  decide
example : agrees app_ActivityWaitanySimcall_WAITANY = true := by decide

end SgVerif.C43
