/-
C43 — the wire codec between the application (`Channel::pack`) and the checker (`Channel::unpack`).

  template <class T> void pack(T data) { pack(&data, sizeof(T)); }            // raw little-endian bytes of T
  template <> void Channel::pack<std::string>(std::string str) {
    xbt_assert(str.length() < std::numeric_limits<unsigned short>::max());
    pack<unsigned short>((unsigned short)str.length());  pack(str.data(), str.length() + 1); }
  template <class T> T unpack(..) { auto [more, got] = receive(sizeof(T)); ... return *(T*)got; }
  template <> std::string Channel::unpack<std::string>(..) {
    unsigned short len = unpack<unsigned short>(cb);  auto [more, got] = receive(len + 1);
    std::string res((char*)got); return res; }                                // C string: stops at the first NUL

`receive(n)` blocks until n bytes are there: running out of bytes is modelled as `none` ("the checker waits for ever").
A schema is the sequence of T's; the schemas of every simcall kind are GENERATED (Gen.lean) from the source.
-/
namespace SgVerif.C43

inductive Prim where
  | u16 | u32 | i32 | i64 | u64 | bool | str | ptr
  deriving DecidableEq, Repr

/-- `rep alts`: an `unsigned` count followed by that many members, each a Type tag (4 bytes) selecting one of the
alternatives `(kind, fields)` — the member loop of TESTANY / WAITANY -/
inductive FieldTy where
  | prim (p : Prim)
  | rep (alts : List (Nat × List Prim))
  deriving DecidableEq, Repr

/-- what a field MEANS: on the application side the (normalised) name of the entity whose id / pid / attribute is
packed, on the checker side the (normalised) name of the member the unpacked value ends in (props/C43/gen.py).
`rep alts`: per member kind, the roles of the member's fields. -/
inductive FieldRole where
  | prim (r : String)
  | rep (alts : List (Nat × List String))
  deriving DecidableEq, Repr

structure Entry where
  observer : String
  kind : Nat
  dies : Bool
  app : List FieldTy
  roles : List FieldRole := []
  deriving Repr

inductive PVal where
  | nat (n : Nat)
  | int (z : Int)
  | bool (b : Bool)
  | str (bytes : List Nat)
  deriving DecidableEq, Repr

inductive FVal where
  | p (v : PVal)
  | rep (elems : List (Nat × List PVal))
  deriving DecidableEq, Repr

/-- little-endian bytes of `n` on `w` bytes -/
def leBytes : Nat → Nat → List Nat
  | 0, _ => []
  | w + 1, n => (n % 256) :: leBytes w (n / 256)

def fromLE : List Nat → Nat
  | [] => 0
  | b :: bs => b + 256 * fromLE bs

def uWidth : Prim → Option Nat
  | .u16 => some 2 | .u32 => some 4 | .u64 => some 8 | .ptr => some 8 | _ => none

def sWidth : Prim → Option Nat
  | .i32 => some 4 | .i64 => some 8 | _ => none

/-- number of bytes of a fixed-width wire type (strings: `none`) -/
def Prim.width : Prim → Option Nat
  | .u16 => some 2 | .u32 => some 4 | .i32 => some 4 | .i64 => some 8 | .u64 => some 8 | .ptr => some 8
  | .bool => some 1 | .str => none

def goodStr (l : List Nat) : Bool := l.length < 65535 && l.all (fun c => 0 < c && c < 256)

/-- `none`: the value is not a value of that C++ type (or the `xbt_assert` on the string length fires / the string
holds a NUL, which `pack` would send but `unpack` would cut: outside the domain of the property) -/
def encodePrim : Prim → PVal → Option (List Nat)
  | .u16, .nat n => if n < 256 ^ 2 then some (leBytes 2 n) else none
  | .u32, .nat n => if n < 256 ^ 4 then some (leBytes 4 n) else none
  | .u64, .nat n => if n < 256 ^ 8 then some (leBytes 8 n) else none
  | .ptr, .nat n => if n < 256 ^ 8 then some (leBytes 8 n) else none
  | .i32, .int z => if -(2 ^ 31) ≤ z ∧ z < 2 ^ 31 then some (leBytes 4 (z % 2 ^ 32).toNat) else none
  | .i64, .int z => if -(2 ^ 63) ≤ z ∧ z < 2 ^ 63 then some (leBytes 8 (z % 2 ^ 64).toNat) else none
  | .bool, .bool b => some [if b then 1 else 0]
  | .str, .str l => if goodStr l then some (leBytes 2 l.length ++ l ++ [0]) else none
  | _, _ => none

def toSigned (bits : Nat) (n : Nat) : Int := if n < 2 ^ (bits - 1) then (n : Int) else (n : Int) - 2 ^ bits

/-- `none`: fewer bytes than `receive` asks for — the checker blocks -/
def decodePrim (p : Prim) (bs : List Nat) : Option (PVal × List Nat) :=
  match p with
  | .u16 => if 2 ≤ bs.length then some (.nat (fromLE (bs.take 2)), bs.drop 2) else none
  | .u32 => if 4 ≤ bs.length then some (.nat (fromLE (bs.take 4)), bs.drop 4) else none
  | .u64 => if 8 ≤ bs.length then some (.nat (fromLE (bs.take 8)), bs.drop 8) else none
  | .ptr => if 8 ≤ bs.length then some (.nat (fromLE (bs.take 8)), bs.drop 8) else none
  | .i32 => if 4 ≤ bs.length then some (.int (toSigned 32 (fromLE (bs.take 4))), bs.drop 4) else none
  | .i64 => if 8 ≤ bs.length then some (.int (toSigned 64 (fromLE (bs.take 8))), bs.drop 8) else none
  | .bool => match bs with
    | b :: rest => some (.bool (b != 0), rest)
    | [] => none
  | .str =>
    if 2 ≤ bs.length then
      let len := fromLE (bs.take 2)
      let r := bs.drop 2
      if len + 1 ≤ r.length then some (.str ((r.take (len + 1)).takeWhile (· != 0)), r.drop (len + 1)) else none
    else none

def encodePrims : List Prim → List PVal → Option (List Nat)
  | [], [] => some []
  | p :: ps, v :: vs =>
    match encodePrim p v, encodePrims ps vs with
    | some a, some b => some (a ++ b)
    | _, _ => none
  | _, _ => none

def decodePrims : List Prim → List Nat → Option (List PVal × List Nat)
  | [], bs => some ([], bs)
  | p :: ps, bs =>
    match decodePrim p bs with
    | none => none
    | some (v, r) =>
      match decodePrims ps r with
      | none => none
      | some (vs, r') => some (v :: vs, r')

def lookup (k : Nat) : List (Nat × List Prim) → Option (List Prim)
  | [] => none
  | (k', ps) :: rest => if k = k' then some ps else lookup k rest

/-- members: Type tag (enum on 4 bytes) then the fields of the alternative with that tag -/
def encodeElems (alts : List (Nat × List Prim)) : List (Nat × List PVal) → Option (List Nat)
  | [] => some []
  | (k, vs) :: es =>
    if k < 256 ^ 4 then
      match lookup k alts with
      | none => none
      | some ps =>
        match encodePrims ps vs, encodeElems alts es with
        | some a, some b => some (leBytes 4 k ++ a ++ b)
        | _, _ => none
    else none

def decodeElems (alts : List (Nat × List Prim)) : Nat → List Nat → Option (List (Nat × List PVal) × List Nat)
  | 0, bs => some ([], bs)
  | n + 1, bs =>
    if 4 ≤ bs.length then
      let k := fromLE (bs.take 4)
      match lookup k alts with
      | none => none          -- `deserialize_transition` dies: "Invalid transition type"
      | some ps =>
        match decodePrims ps (bs.drop 4) with
        | none => none
        | some (vs, r) =>
          match decodeElems alts n r with
          | none => none
          | some (es, r') => some ((k, vs) :: es, r')
    else none

def encodeField : FieldTy → FVal → Option (List Nat)
  | .prim p, .p v => encodePrim p v
  | .rep alts, .rep es =>
    if es.length < 256 ^ 4 then (encodeElems alts es).map (fun b => leBytes 4 es.length ++ b) else none
  | _, _ => none

def decodeField (f : FieldTy) (bs : List Nat) : Option (FVal × List Nat) :=
  match f with
  | .prim p => (decodePrim p bs).map (fun (v, r) => (.p v, r))
  | .rep alts =>
    if 4 ≤ bs.length then
      (decodeElems alts (fromLE (bs.take 4)) (bs.drop 4)).map (fun (es, r) => (.rep es, r))
    else none

def encode : List FieldTy → List FVal → Option (List Nat)
  | [], [] => some []
  | f :: fs, v :: vs =>
    match encodeField f v, encode fs vs with
    | some a, some b => some (a ++ b)
    | _, _ => none
  | _, _ => none

def decode : List FieldTy → List Nat → Option (List FVal × List Nat)
  | [], bs => some ([], bs)
  | f :: fs, bs =>
    match decodeField f bs with
    | none => none
    | some (v, r) =>
      match decode fs r with
      | none => none
      | some (vs, r') => some (v :: vs, r')

/-- every alternative the application may send is known to the checker with the same fields -/
def altsSubset (a c : List (Nat × List Prim)) : Bool :=
  a.all (fun (k, ps) => lookup k c == some ps)

def fieldCompatible : FieldTy → FieldTy → Bool
  | .prim p, .prim q => p == q
  | .rep a, .rep c => altsSubset a c
  | _, _ => false

/-- the application's schema and the checker's schema agree -/
def compatible : List FieldTy → List FieldTy → Bool
  | [], [] => true
  | f :: fs, g :: gs => fieldCompatible f g && compatible fs gs
  | _, _ => false

/-! ### roles: same types are not enough, the n-th value must also MEAN the same thing on both sides -/

/-- the only declared wildcard: the application packs a literal constant (it gives the field no meaning) -/
def constRole : String := "_const"

def roleOk (a c : String) : Bool := a == c || a == constRole

def rolesOk : List String → List String → Bool
  | [], [] => true
  | a :: as, c :: cs => roleOk a c && rolesOk as cs
  | _, _ => false

def lookupR (k : Nat) : List (Nat × List String) → Option (List String)
  | [] => none
  | (k', rs) :: rest => if k = k' then some rs else lookupR k rest

/-- every member kind the application may send is known to the checker with the same roles, position by position -/
def altRolesSubset (a c : List (Nat × List String)) : Bool :=
  a.all (fun (k, rs) => match lookupR k c with
    | some cs => rolesOk rs cs
    | none => false)

def fieldRoleCompatible : FieldRole → FieldRole → Bool
  | .prim a, .prim c => roleOk a c
  | .rep a, .rep c => altRolesSubset a c
  | _, _ => false

def rolesCompatible : List FieldRole → List FieldRole → Bool
  | [], [] => true
  | f :: fs, g :: gs => fieldRoleCompatible f g && rolesCompatible fs gs
  | _, _ => false

/-- the roles describe the schema they are attached to: one role per field, member lists on member lists -/
def rolesShape : List FieldTy → List FieldRole → Bool
  | [], [] => true
  | .prim _ :: fs, .prim _ :: rs => rolesShape fs rs
  | .rep a :: fs, .rep r :: rs =>
    (a.length == r.length && (a.zip r).all (fun (x, y) => x.1 == y.1 && x.2.length == y.2.length)) && rolesShape fs rs
  | _, _ => false

/-- same byte layout (what decides "completes or hangs"), ignoring signedness -/
def sameLayout : List FieldTy → List FieldTy → Bool
  | [], [] => true
  | .prim p :: fs, .prim q :: gs => (p.width == q.width) && sameLayout fs gs
  | .rep a :: fs, .rep c :: gs => altsSubset a c && sameLayout fs gs
  | _, _ => false

end SgVerif.C43
