import SgVerif.C43.Model
namespace SgVerif.C43

theorem leBytes_length (w n : Nat) : (leBytes w n).length = w := by
  induction w generalizing n with
  | zero => rfl
  | succ w ih => simp [leBytes, ih]

theorem fromLE_leBytes (w n : Nat) : fromLE (leBytes w n) = n % 256 ^ w := by
  induction w generalizing n with
  | zero => simp [leBytes, fromLE, Nat.mod_one]
  | succ w ih =>
    simp only [leBytes, fromLE, ih]
    rw [Nat.pow_succ, Nat.mul_comm (256 ^ w) 256, Nat.mod_mul]

theorem take_leBytes (w n : Nat) (r : List Nat) : (leBytes w n ++ r).take w = leBytes w n := by
  have := leBytes_length w n
  rw [List.take_append_of_le_length (by omega), List.take_of_length_le (by omega)]

theorem drop_leBytes (w n : Nat) (r : List Nat) : (leBytes w n ++ r).drop w = r := by
  have := leBytes_length w n
  rw [List.drop_append_of_le_length (by omega), List.drop_of_length_le (by omega), List.nil_append]

theorem takeWhile_nz (l : List Nat) (r : List Nat) (h : ∀ c ∈ l, c ≠ 0) :
    (l ++ 0 :: r).takeWhile (· != 0) = l := by
  induction l with
  | nil => simp [List.takeWhile]
  | cons a l ih =>
    have ha := h a (by simp)
    have hb : (a != 0) = true := by simp; exact ha
    simp only [List.cons_append, List.takeWhile_cons, hb, if_true]
    rw [ih (fun c hc => h c (by simp [hc]))]

theorem uns_rt (w n : Nat) (r : List Nat) (h : n < 256 ^ w) :
    fromLE ((leBytes w n ++ r).take w) = n ∧ (leBytes w n ++ r).drop w = r ∧ w ≤ (leBytes w n ++ r).length := by
  refine ⟨?_, drop_leBytes w n r, ?_⟩
  · rw [take_leBytes, fromLE_leBytes, Nat.mod_eq_of_lt h]
  · simp [leBytes_length]

theorem sgn32 (z : Int) (h1 : -(2 ^ 31) ≤ z) (h2 : z < 2 ^ 31) :
    toSigned 32 ((z % 2 ^ 32).toNat % 256 ^ 4) = z := by
  unfold toSigned
  have e : (256 : Nat) ^ 4 = 4294967296 := by decide
  have e2 : (2 : Int) ^ 32 = 4294967296 := by decide
  have e3 : (2 : Nat) ^ (32 - 1) = 2147483648 := by decide
  have e4 : (2 : Int) ^ 31 = 2147483648 := by decide
  rw [e, e2, e3]; rw [e4] at h1 h2
  have hm := Int.emod_nonneg z (show (4294967296 : Int) ≠ 0 by decide)
  have hl := Int.emod_lt_of_pos z (show (0 : Int) < 4294967296 by decide)
  have : ((z % 4294967296).toNat : Int) = z % 4294967296 := Int.toNat_of_nonneg hm
  split <;> omega

theorem sgn64 (z : Int) (h1 : -(2 ^ 63) ≤ z) (h2 : z < 2 ^ 63) :
    toSigned 64 ((z % 2 ^ 64).toNat % 256 ^ 8) = z := by
  unfold toSigned
  have e : (256 : Nat) ^ 8 = 18446744073709551616 := by decide
  have e2 : (2 : Int) ^ 64 = 18446744073709551616 := by decide
  have e3 : (2 : Nat) ^ (64 - 1) = 9223372036854775808 := by decide
  have e4 : (2 : Int) ^ 63 = 9223372036854775808 := by decide
  rw [e, e2, e3]; rw [e4] at h1 h2
  have hm := Int.emod_nonneg z (show (18446744073709551616 : Int) ≠ 0 by decide)
  have hl := Int.emod_lt_of_pos z (show (0 : Int) < 18446744073709551616 by decide)
  have : ((z % 18446744073709551616).toNat : Int) = z % 18446744073709551616 := Int.toNat_of_nonneg hm
  split <;> omega

theorem prim_roundtrip (p : Prim) (v : PVal) (bs rest : List Nat) (h : encodePrim p v = some bs) :
    decodePrim p (bs ++ rest) = some (v, rest) := by
  cases p <;> cases v <;> first | (simp [encodePrim] at h; done) | simp only [encodePrim] at h
  case u16.nat n =>
    split at h <;> simp at h; subst h
    obtain ⟨a, b, c⟩ := uns_rt 2 n rest (by assumption)
    simp only [decodePrim, c, if_true, a, b]
  case u32.nat n =>
    split at h <;> simp at h; subst h
    obtain ⟨a, b, c⟩ := uns_rt 4 n rest (by assumption)
    simp only [decodePrim, c, if_true, a, b]
  case u64.nat n =>
    split at h <;> simp at h; subst h
    obtain ⟨a, b, c⟩ := uns_rt 8 n rest (by assumption)
    simp only [decodePrim, c, if_true, a, b]
  case ptr.nat n =>
    split at h <;> simp at h; subst h
    obtain ⟨a, b, c⟩ := uns_rt 8 n rest (by assumption)
    simp only [decodePrim, c, if_true, a, b]
  case i32.int z =>
    split at h <;> simp at h; subst h
    rename_i hz
    have s := sgn32 z hz.1 hz.2
    rw [show (2 : Int) ^ 32 = 4294967296 by decide] at s
    have c : 4 ≤ (leBytes 4 (z % 4294967296).toNat ++ rest).length := by simp [leBytes_length]
    simp only [decodePrim, c, if_true, take_leBytes, drop_leBytes, fromLE_leBytes, s]
  case i64.int z =>
    split at h <;> simp at h; subst h
    rename_i hz
    have s := sgn64 z hz.1 hz.2
    rw [show (2 : Int) ^ 64 = 18446744073709551616 by decide] at s
    have c : 8 ≤ (leBytes 8 (z % 18446744073709551616).toNat ++ rest).length := by simp [leBytes_length]
    simp only [decodePrim, c, if_true, take_leBytes, drop_leBytes, fromLE_leBytes, s]
  case bool.bool b =>
    simp at h; subst h
    cases b <;> simp [decodePrim]
  case str.str l =>
    split at h <;> simp at h; subst h
    rename_i hg
    simp only [goodStr, Bool.and_eq_true, decide_eq_true_eq, List.all_eq_true] at hg
    have e : leBytes 2 l.length ++ (l ++ [0]) ++ rest = leBytes 2 l.length ++ (l ++ 0 :: rest) := by simp
    rw [e]
    have c : 2 ≤ (leBytes 2 l.length ++ (l ++ 0 :: rest)).length := by simp [leBytes_length]
    have hl : l.length % 256 ^ 2 = l.length := Nat.mod_eq_of_lt (by have : (256:Nat)^2 = 65536 := by decide
                                                                    omega)
    have c2 : l.length + 1 ≤ (l ++ 0 :: rest).length := by simp
    have t : (l ++ 0 :: rest).take (l.length + 1) = l ++ [0] := by
      rw [show l ++ 0 :: rest = (l ++ [0]) ++ rest by simp]
      rw [List.take_append_of_le_length (by simp), List.take_of_length_le (by simp)]
    have d : (l ++ 0 :: rest).drop (l.length + 1) = rest := by
      rw [show l ++ 0 :: rest = (l ++ [0]) ++ rest by simp]
      rw [List.drop_append_of_le_length (by simp), List.drop_of_length_le (by simp), List.nil_append]
    simp only [decodePrim, c, if_true, take_leBytes, drop_leBytes, fromLE_leBytes, hl, c2, t, d]
    rw [show l ++ [0] = l ++ 0 :: [] by rfl, takeWhile_nz l [] (fun c hc => by have := hg.2 c hc; omega)]

theorem prims_roundtrip (ps : List Prim) (vs : List PVal) (bs rest : List Nat) (h : encodePrims ps vs = some bs) :
    decodePrims ps (bs ++ rest) = some (vs, rest) := by
  induction ps generalizing vs bs with
  | nil => cases vs <;> simp [encodePrims] at h; subst h; simp [decodePrims]
  | cons p ps ih =>
    cases vs with
    | nil => simp [encodePrims] at h
    | cons v vs =>
      simp only [encodePrims] at h
      cases ha : encodePrim p v <;> cases hb : encodePrims ps vs <;> simp [ha, hb] at h
      subst h
      rename_i a b
      simp only [decodePrims, List.append_assoc, prim_roundtrip p v a (b ++ rest) ha, ih vs b hb]

theorem elems_roundtrip (alts : List (Nat × List Prim)) (es : List (Nat × List PVal)) (bs rest : List Nat)
    (h : encodeElems alts es = some bs) : decodeElems alts es.length (bs ++ rest) = some (es, rest) := by
  induction es generalizing bs with
  | nil => simp [encodeElems] at h; subst h; simp [decodeElems]
  | cons e es ih =>
    obtain ⟨k, vs⟩ := e
    simp only [encodeElems] at h
    split at h <;> try (simp at h)
    rename_i hk
    cases hl : lookup k alts <;> simp only [hl] at h <;> try (simp at h)
    rename_i ps
    cases ha : encodePrims ps vs <;> cases hb : encodeElems alts es <;> simp [ha, hb] at h
    subst h
    rename_i a b
    obtain ⟨x, y, z⟩ := uns_rt 4 k (a ++ (b ++ rest)) hk
    simp only [List.length_cons, decodeElems, List.append_assoc, z, if_true, x, y, hl,
      prims_roundtrip ps vs a (b ++ rest) ha, ih b hb]

theorem field_roundtrip (f : FieldTy) (v : FVal) (bs rest : List Nat) (h : encodeField f v = some bs) :
    decodeField f (bs ++ rest) = some (v, rest) := by
  cases f <;> cases v <;> first | (simp [encodeField] at h; done) | simp only [encodeField] at h
  case prim.p p v =>
    simp [decodeField, prim_roundtrip p v bs rest h]
  case rep.rep alts es =>
    split at h <;> try (simp at h)
    rename_i hn
    cases he : encodeElems alts es <;> simp [he] at h
    subst h
    rename_i b
    obtain ⟨x, y, z⟩ := uns_rt 4 es.length (b ++ rest) hn
    simp only [decodeField, List.append_assoc, z, if_true, x, y, elems_roundtrip alts es b rest he, Option.map]

theorem lookup_mem (k : Nat) (alts : List (Nat × List Prim)) (ps : List Prim) (h : lookup k alts = some ps) :
    (k, ps) ∈ alts := by
  induction alts with
  | nil => simp [lookup] at h
  | cons a alts ih =>
    obtain ⟨k', ps'⟩ := a
    simp only [lookup] at h
    split at h
    · simp at h; subst h; rename_i hk; subst hk; simp
    · simp [ih h]

theorem lookup_subset (a c : List (Nat × List Prim)) (hs : altsSubset a c = true) (k : Nat) (ps : List Prim)
    (h : lookup k a = some ps) : lookup k c = some ps := by
  have hm := lookup_mem k a ps h
  simp only [altsSubset, List.all_eq_true] at hs
  have := hs (k, ps) hm
  simpa using this

theorem elems_transfer (a c : List (Nat × List Prim)) (hs : altsSubset a c = true) (es : List (Nat × List PVal))
    (bs : List Nat) (h : encodeElems a es = some bs) : encodeElems c es = some bs := by
  induction es generalizing bs with
  | nil => simpa [encodeElems] using h
  | cons e es ih =>
    obtain ⟨k, vs⟩ := e
    simp only [encodeElems] at h ⊢
    split at h <;> try (simp at h)
    rename_i hk
    cases hl : lookup k a <;> simp only [hl] at h <;> try (simp at h)
    rename_i ps
    cases ha : encodePrims ps vs <;> cases hb : encodeElems a es <;> simp [ha, hb] at h
    subst h
    simp [hk, lookup_subset a c hs k ps hl, ha, ih _ hb]

end SgVerif.C43
