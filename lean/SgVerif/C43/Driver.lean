import SgVerif.C43.Model
import SgVerif.C43.Gen
import SgVerif.Common.Proto
open SgVerif.Proto
namespace SgVerif.C43

def hexVal (c : Char) : Option Nat :=
  if '0' ≤ c ∧ c ≤ '9' then some (c.toNat - '0'.toNat)
  else if 'a' ≤ c ∧ c ≤ 'f' then some (c.toNat - 'a'.toNat + 10)
  else none

def hexBytes : List Char → Option (List Nat)
  | [] => some []
  | a :: b :: rest => do
    let x ← hexVal a
    let y ← hexVal b
    let r ← hexBytes rest
    some ((16 * x + y) :: r)
  | _ => none

def showP : PVal → List String
  | .nat n => [toString n]
  | .int z => [toString z]
  | .bool b => [if b then "1" else "0"]
  | .str _ => []          -- call locations are not printed by to_string

/-- wire-order rendering; members of an ANY that are not comms (tag UNKNOWN = 29, no fields) are invisible in the
checker's to_string, so they are dropped on both sides -/
def showF : FVal → List String
  | .p v => showP v
  | .rep es => es.foldr (fun (k, vs) acc => if vs.isEmpty then acc else (toString k :: vs.foldr (fun v a => showP v ++ a) []) ++ acc) []

def showFs (l : List FVal) : List String := l.foldr (fun f a => showF f ++ a) []

def matchWild : List String → List String → Bool
  | [], [] => true
  | a :: as, b :: bs => (a == "_" || b == "_" || a == b) && matchWild as bs
  | _, _ => false

/-- query: `<case tokens...>`; answer: `<observer> <hex> <status> <values parsed out of to_string, wire order, _ = not printed>` -/
def judge (_q a : List String) : Verdict :=
  match a with
  | obs :: hex :: status :: vals =>
    match hexBytes hex.toList with
    | none => .bad
    | some bytes =>
      if bytes.length < 4 then .bad else
      let k := fromLE (bytes.take 4)
      let body := bytes.drop 4
      -- which entry of the generated table is this? (observer class + kind; variants [comm]/[other] share the class name)
      match appTable.find? (fun e => e.kind == k && (e.observer == obs || e.observer.startsWith (obs ++ "["))) with
      | none => .disagree s!"no-app-entry-for-{obs}-kind-{k}"
      | some e =>
        match decode e.app body with
        | some (va, []) =>
          -- model of the checker side on the real bytes
          let (mstatus, mvals) : String × List String :=
            match checkerSchema k with
            | none => ("die", [])
            | some c =>
              match decode c body with
              | none => ("hang", [])
              | some (vc, []) => ("ok", showFs vc)
              | some (vc, _) => ("leftover", showFs vc)
          if mstatus != status then .disagree s!"status={mstatus}"
          else if status != "ok" then
            .monfail s!"the checker does not decode what {obs} encoded under kind {k}: {status}"
          else if ! matchWild mvals vals then .disagree (" ".intercalate ("ok" :: mvals))
          else if showFs va != mvals then
            .monfail s!"checker decoded {mvals} but the application encoded {showFs va} ({obs}, kind {k})"
          else .ok
        | _ => .disagree s!"app-schema-of-{e.observer}-does-not-parse-the-bytes-it-produced"
  | _ => .bad

end SgVerif.C43

def main : IO Unit := SgVerif.Proto.run SgVerif.C43.judge
