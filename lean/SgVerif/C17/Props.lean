import SgVerif.LmmBook.Model
namespace SgVerif.C17
open SgVerif.LmmBook
theorem placeholder : True := trivial
end SgVerif.C17
