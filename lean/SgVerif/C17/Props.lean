import SgVerif.LmmBook.Frame
import SgVerif.LmmBook.Marks
/-
C17 — Selective (lazy) solving equals full recomputation.  Property theorems over the bookkeeping model
`SgVerif.LmmBook` (src/kernel/lmm/System.cpp): modified constraint set, `visited_` marks, `visited_counter_`.
The solver arithmetic is NOT modelled here (C15/C16 do that): it enters `selective_eq_full_of_closed` as the locality
hypothesis `Local` on an abstract solver.
-/
namespace SgVerif.C17
open SgVerif.LmmBook

/-! ### the modified set as a set of constraints closed under "shares an enabled variable" -/

/-- `K` is a union of connected components of the graph "two constraints share an enabled variable" -/
def Closed (s : Sys) (K : Nat → Prop) : Prop :=
  ∀ c, K c → ∀ e ∈ (s.cnsts c).en, ∀ c2 ∈ (s.vars e.var).cn, K c2

/-- decidable version for the modified set of a state (the driver evaluates it after every operation) -/
def closedModified (s : Sys) : Bool :=
  s.modified.all fun c => (s.cnsts c).en.all fun e => (s.vars e.var).cn.all fun c2 => c2 ∈ s.modified

theorem closedModified_iff (s : Sys) : closedModified s = true ↔ Closed s (· ∈ s.modified) := by
  unfold closedModified Closed
  simp only [List.all_eq_true, decide_eq_true_eq]

/-
**modified_set_is_closed** — full-strength statement (NOT proved here, and FALSE on the current code):

  theorem modified_set_is_closed (h : List Op) (hf : ∀ op ∈ h, op.noForce = true) :
      let s := run (init Cfg.fixed true) h
      s.failed = false → Closed s (· ∈ s.modified) ∧ (every constraint whose `cdata` changed since the last solve is in s.modified)

What is established instead: the two ways the current code breaks it (counterexample theorems below, both replayed on
the library), that the repaired model is closed on the same histories, the wrap-around lemma, and the corollary
`selective_eq_full_of_closed` which takes closure and "untouched data is unchanged" as explicit hypotheses.
`closedModified` is evaluated by the driver on the model state after every operation of every generated history
(it is how violations are classified), and model = library on all of them.
-/

/-- A on L0,L1 and B on L0,L2 are created disabled, the system is solved, then both are enabled in the same
interval (two communications whose latency ends at the same date).  B's first constraint L0 is already marked. -/
def resumeWitness : List Op :=
  [.cnew 40 none .shared, .cnew 40 none .shared, .cnew 4 none .shared,
   .vnew 0 (-1), .expand 0 0 4 false, .expand 1 0 4 false,
   .vnew 0 (-1), .expand 0 1 4 false, .expand 2 1 4 false,
   .vnew 4 (-1), .expand 2 2 4 false, .solve, .vpen 0 4, .vpen 1 4]

/-- **counterexample on the current code**: the modified set is [L0, L1]; L2, which the enabled variable B uses, is
missing: the selective solve ignores L2 (library: B = 5 on a link of capacity 1).  Finding
`modified-set-not-closed-when-cnst-already-marked`. -/
theorem modified_set_is_closed_counterexample :
    let s := run (init Cfg.current true) resumeWitness
    s.failed = false ∧ s.modified = [0, 1] ∧ (s.vars 1).pen = 4 ∧ (s.vars 1).cn = [0, 2] ∧ closedModified s = false := by
  decide

/-- the repaired `update_modified_cnst_set_from_variable` marks L2 as well -/
theorem modified_set_closed_fixed_on_witness :
    let s := run (init Cfg.fixed true) resumeWitness
    s.failed = false ∧ s.modified = [0, 1, 2] ∧ closedModified s = true := by
  decide

/-- same defect through `expand`: an enabled variable is expanded onto a constraint that is already marked -/
theorem expand_marked_counterexample :
    let h := [.cnew 40 none .shared, .cnew 8 none .shared, .vnew 4 (-1), .expand 0 0 4 false, .vnew 4 (-1),
              .expand 0 1 4 false, .solve, .cbound 1 8, .expand 1 0 4 false]
    closedModified (run (init Cfg.current true) h) = false ∧ closedModified (run (init Cfg.fixed true) h) = true := by
  decide

/-! ### `visited_counter_` wrap-around (a history of 2^32 solves cannot be run by a test) -/

/-- what one effective `solve` does to the counter and the marks on the current code: the counter advances by one
modulo 2^32 and, unless it becomes 1, no mark changes.  Hence `k` solves after its creation a variable that was never
visited still has `visited_ = 0` and the counter is `1 + k mod 2^32`: this is what the harness emulates by presetting
`visited_counter_`. -/
theorem solve_advances_counter (s : Sys) (hsel : s.sel = true) (hm : s.modflag = true) (hcfg : s.cfg.fixWrap = false) :
    (solveOp s).counter = (s.counter + 1) % U32 ∧
    ((s.counter + 1) % U32 ≠ 1 → ∀ v, ((solveOp s).vars v).visited = (s.vars v).visited) := by
  unfold solveOp removeAllModified
  simp only [hm, hsel, hcfg, Bool.not_true, Bool.false_eq_true, if_false, if_true]
  constructor
  · split <;> rfl
  · intro h v
    simp only [h, if_false]

/-- **wraparound_resets_marks** (repaired code): if no mark exceeds the counter (the invariant all operations keep:
marks are only ever set to the counter, to the counter minus one at creation, or to 0 at a reset), then after
`remove_all_modified_cnst_set` NO live variable carries a mark equal to the new counter — in particular when the
counter wraps from 2^32-1: it restarts at 1 with every mark at 0 — and the invariant holds again. -/
theorem wraparound_resets_marks (s : Sys) (hcfg : s.cfg.fixWrap = true) (hc : s.counter < U32)
    (hv : ∀ v ∈ s.varset, (s.vars v).visited ≤ s.counter) :
    let s' := removeAllModified s
    (∀ v ∈ s'.varset, (s'.vars v).visited ≠ s'.counter) ∧ 1 ≤ s'.counter ∧ s'.counter < U32 ∧
    (∀ v ∈ s'.varset, (s'.vars v).visited ≤ s'.counter) ∧ s'.modified = [] ∧ s'.varset = s.varset := by
  unfold removeAllModified
  simp only [hcfg, if_true]
  by_cases hw : (s.counter + 1) % U32 = 0
  · simp only [hw, if_true, resetVisited]
    refine ⟨?_, by decide, by decide, ?_, trivial, trivial⟩
    · intro v hvm; simp only [hvm, if_true]; decide
    · intro v hvm; simp only [hvm, if_true]; decide
  · simp only [hw, if_false]
    have hlt : s.counter + 1 < U32 := by
      unfold U32 at *
      omega
    have hmod : (s.counter + 1) % U32 = s.counter + 1 := Nat.mod_eq_of_lt hlt
    rw [hmod]
    refine ⟨?_, by omega, hlt, ?_, trivial, trivial⟩
    · intro v hvm; have := hv v hvm; omega
    · intro v hvm; have := hv v hvm; omega

/-- **marks_invariant** (full strength, repaired `remove_all_modified_cnst_set`; the other switches are free): the
invariant that `wraparound_resets_marks` assumes is carried through EVERY public operation of EVERY history (any
length — in particular histories of more than 2^32 solves, which no test can run —, `force_creation` included, no
"no assertion fired" hypothesis): `visited_counter_` stays in `[1, 2^32)`, no live variable carries a mark above the
counter, and every live variable is in `variable_set` (the list the wrap-around reset iterates over). -/
theorem marks_invariant (cfg : Cfg) (hfix : cfg.fixWrap = true) (sel : Bool) (h : List Op) :
    let s := run (init cfg sel) h
    1 ≤ s.counter ∧ s.counter < U32 ∧ (∀ v, (s.vars v).alive = true → (s.vars v).visited ≤ s.counter) ∧
    (∀ v, (s.vars v).alive = true → v ∈ s.varset) := by
  have := run_MK h (init cfg sel) hfix (MK_init cfg sel)
  exact ⟨this.lo, this.hi, this.le, this.vs⟩

/-- **marks_fresh_after_solve** (full strength, repaired code): after ANY history, an effective `solve` of a selective
system leaves NO live variable whose mark equals `visited_counter_` — every live variable looks "not yet visited" to
the next `update_modified_cnst_set_rec`, also when the counter wraps (on the current code this fails:
`wraparound_counterexample`). -/
theorem marks_fresh_after_solve (cfg : Cfg) (hfix : cfg.fixWrap = true) (h : List Op)
    (hm : (run (init cfg true) h).modflag = true) (hnf : (run (init cfg true) h).failed = false) (v : Nat)
    (ha : ((run (init cfg true) (h ++ [.solve])).vars v).alive = true) :
    ((run (init cfg true) (h ++ [.solve])).vars v).visited ≠ (run (init cfg true) (h ++ [.solve])).counter := by
  have hk := run_MK h (init cfg true) hfix (MK_init cfg true)
  have hsel : (run (init cfg true) h).sel = true := run_sel h _
  have hcfg : (run (init cfg true) h).cfg.fixWrap = true := by rw [run_cfg]; exact hfix
  have hrun : run (init cfg true) (h ++ [.solve])
      = removeAllModified { run (init cfg true) h with modflag := false } :=
    (run_append_one _ h .solve).trans (step_solve_eff _ hnf hm hsel)
  rw [hrun] at ha ⊢
  exact MK_removeAllModified_fresh (s := { run (init cfg true) h with modflag := false }) hcfg
    (hk.frame (mkf_modflag _ false)) v ha

/-- non-vacuity of `marks_invariant` / `marks_fresh_after_solve`: on the resume history (repaired code) the counter is 2
and three live variables carry the mark 2 (the bound `≤` is tight); the solve that follows is effective, fires no
assertion, and afterwards the counter is 3 while the marks are still 2 -/
example :
    let s := run (init Cfg.fixed true) resumeWitness
    let s' := run (init Cfg.fixed true) (resumeWitness ++ [.solve])
    s.counter = 2 ∧ (s.vars 0).alive = true ∧ (s.vars 0).visited = 2 ∧ (s.vars 2).visited = 2 ∧ s.modflag = true ∧
    s.failed = false ∧ s'.counter = 3 ∧ (s'.vars 0).alive = true ∧ (s'.vars 0).visited = 2 := by
  decide

/-- **counterexample on the current code**: the reset happens when the counter becomes 1, so it first takes the
value 0 — the value the marks are reset to, and the mark of a variable created at the beginning and never visited.
State: the invariant of `wraparound_resets_marks` holds, yet after the call a live variable's mark equals the counter. -/
theorem wraparound_counterexample :
    let s0 := run (init Cfg.current true) [.cnew 40 none .shared, .cnew 4 none .shared, .vnew 0 (-1), .expand 0 0 4 false, .expand 1 0 4 false]
    let s := { s0 with counter := U32 - 1 }
    (∀ v ∈ s.varset, (s.vars v).visited ≤ s.counter) ∧
    (removeAllModified s).counter = 0 ∧ ((removeAllModified s).vars 0).visited = (removeAllModified s).counter := by
  decide

/-- ... and its consequence: enabled while the counter is 0, the variable is taken for already visited and its
second constraint is left out of the modified set (library: 10 instead of 0.5 on a link of capacity 1; finding
`visited-counter-zero`).  `counter := U32 - 2` stands for 2^32 - 3 earlier solves (`solve_advances_counter`). -/
theorem wraparound_breaks_closure :
    let s0 := run (init Cfg.current true)
      [.cnew 40 none .shared, .cnew 4 none .shared, .cnew 4 none .shared, .vnew 0 (-1), .expand 0 0 4 false,
       .expand 1 0 4 false, .vnew 4 (-1), .expand 1 1 4 false, .solve]
    let s := run { s0 with counter := U32 - 2 } [.cbound 2 8, .solve, .cbound 2 12, .solve, .vpen 0 4]
    s.counter = 0 ∧ s.modified = [0] ∧ (s.vars 0).cn = [0, 1] ∧ closedModified s = false := by
  decide

/-! ### selective = full, given closure, for any solver that is local to connected components -/

/-- what a solver reads of a constraint: bound, policy, and for every enabled element the variable, the weight, the
variable's penalty, bound and list of constraints -/
def cdata (s : Sys) (c : Nat) : Int × Policy × List (Nat × Nat × Nat × Int × List Nat) :=
  ((s.cnsts c).bound, (s.cnsts c).policy,
   (s.cnsts c).en.map fun e => (e.var, e.w, (s.vars e.var).pen, (s.vars e.var).bound, (s.vars e.var).cn))

/-- `v` is an enabled variable of some constraint of `K` -/
def Touches (s : Sys) (K : Nat → Prop) (v : Nat) : Prop := ∃ c, K c ∧ ∃ e ∈ (s.cnsts c).en, e.var = v

/-- **Locality hypothesis on the abstract solver** (`solve s K v` = the value given to `v` when the constraint list `K`
is solved in state `s`): on a closed set of constraints the values depend only on the data of that set — neither on
the other constraints solved with it nor on the rest of the state.  This is the statement C15/C16's model of
`maxmin_solve` has to provide (`maxmin_component_local` in DESIGN.md §8 C17); it is NOT proved here. -/
def Local (solve : Sys → (Nat → Prop) → Nat → Rat) : Prop :=
  ∀ (s s' : Sys) (K K' : Nat → Prop), Closed s K → Closed s' K' → (∀ c, K c → K' c) →
    (∀ c, K c → cdata s c = cdata s' c) → ∀ v, Touches s K v → solve s K v = solve s' K' v

/-- **selective_eq_full_of_closed**: one selective solve.  `sp` is the state at the previous solve, where every
variable had the value of a full solve (`hprev`); `s` is the state now, `M` its modified set.  If `M` is closed
(`modified_set_is_closed`), the data of the constraints outside `M` did not change since `sp` (`hunt`: "contains every
constraint touched since the last solve"), and enabled variables sit in the enabled list of each of their constraints
(`hwf`, `hwf2`), then re-solving `M` only and keeping the other values gives every enabled variable exactly the value of a
full solve of `s` — for every solver satisfying `Local`. -/
theorem selective_eq_full_of_closed (solve : Sys → (Nat → Prop) → Nat → Rat) (hloc : Local solve)
    (sp s : Sys) (M : Nat → Prop) (old : Nat → Rat)
    (hprev : ∀ v, Touches sp (fun _ => True) v → old v = solve sp (fun _ => True) v)
    (hclosed : Closed s M)
    (hunt : ∀ c, ¬ M c → cdata s c = cdata sp c)
    (hwf : ∀ c, ∀ e ∈ (s.cnsts c).en, ∀ c2 ∈ (s.vars e.var).cn, ∃ e2 ∈ (s.cnsts c2).en, e2.var = e.var)
    (hwf2 : ∀ c, ∀ e ∈ (s.cnsts c).en, c ∈ (s.vars e.var).cn)
    (new : Nat → Rat)
    (hnewM : ∀ v, Touches s M v → new v = solve s M v)
    (hnewO : ∀ v, ¬ Touches s M v → new v = old v) :
    ∀ v, Touches s (fun _ => True) v → new v = solve s (fun _ => True) v := by
  intro v hv
  have hall : ∀ st : Sys, Closed st (fun _ => True) := fun _ _ _ _ _ _ _ => trivial
  by_cases hm : Touches s M v
  · rw [hnewM v hm]
    exact hloc s s M (fun _ => True) hclosed (hall s) (fun _ _ => trivial) (fun _ _ => rfl) v hm
  · rw [hnewO v hm]
    -- v is enabled on some constraint c outside M
    obtain ⟨c, _, e, he, hev⟩ := hv
    have hcM : ¬ M c := fun h => hm ⟨c, h, e, he, hev⟩
    -- the complement of M is closed in s
    have hcompl : Closed s (fun c => ¬ M c) := by
      intro c1 hc1 e1 he1 c2 hc2 hM2
      obtain ⟨e2, he2, hv2⟩ := hwf c1 e1 he1 c2 hc2
      have := hclosed c2 hM2 e2 he2 c1 (by rw [hv2]; exact hwf2 c1 e1 he1)
      exact hc1 this
    have htouch : Touches s (fun c => ¬ M c) v := ⟨c, hcM, e, he, hev⟩
    have h1 : solve s (fun c => ¬ M c) v = solve s (fun _ => True) v :=
      hloc s s _ _ hcompl (hall s) (fun _ _ => trivial) (fun _ _ => rfl) v htouch
    have h2 : solve s (fun c => ¬ M c) v = solve sp (fun _ => True) v :=
      hloc s sp _ _ hcompl (hall sp) (fun _ _ => trivial) (fun c hc => hunt c hc) v htouch
    have hsp : Touches sp (fun _ => True) v := by
      have hd := hunt c hcM
      have : (cdata s c).2.2.map (·.1) = (cdata sp c).2.2.map (·.1) := by rw [hd]
      simp only [cdata, List.map_map] at this
      have hmem : v ∈ (s.cnsts c).en.map (fun e => e.var) := List.mem_map.mpr ⟨e, he, hev⟩
      have : v ∈ (sp.cnsts c).en.map (fun e => e.var) := by
        have h' : (s.cnsts c).en.map (fun e => e.var) = (sp.cnsts c).en.map (fun e => e.var) := this
        rw [← h']; exact hmem
      obtain ⟨e', he', hv'⟩ := List.mem_map.mp this
      exact ⟨c, trivial, e', he', hv'⟩
    rw [hprev v hsp, ← h2, h1]

/-- **selective_eq_full_partial**: `selective_eq_full_of_closed` for a state reached by ANY history in which no assertion
fired: the two well-formedness hypotheses (`hwf`, `hwf2`) are discharged by `run_WF` (element lists are well-formed
after every history, LmmBook/WFRun.lean).  Remaining hypotheses, NOT yet theorems over histories: closure of the
modified set (`hclosed`) and unchanged data outside it (`hunt`); and `Local` on the solver. -/
theorem selective_eq_full_partial (solve : Sys → (Nat → Prop) → Nat → Rat) (hloc : Local solve)
    (cfg : Cfg) (sel : Bool) (h : List Op) (hnf : (run (init cfg sel) h).failed = false)
    (sp : Sys) (M : Nat → Prop) (old : Nat → Rat)
    (hprev : ∀ v, Touches sp (fun _ => True) v → old v = solve sp (fun _ => True) v)
    (hclosed : Closed (run (init cfg sel) h) M)
    (hunt : ∀ c, ¬ M c → cdata (run (init cfg sel) h) c = cdata sp c)
    (new : Nat → Rat)
    (hnewM : ∀ v, Touches (run (init cfg sel) h) M v → new v = solve (run (init cfg sel) h) M v)
    (hnewO : ∀ v, ¬ Touches (run (init cfg sel) h) M v → new v = old v) :
    ∀ v, Touches (run (init cfg sel) h) (fun _ => True) v → new v = solve (run (init cfg sel) h) (fun _ => True) v := by
  have hl := (run_WF cfg sel h hnf).wfl
  apply selective_eq_full_of_closed solve hloc sp _ M old hprev hclosed hunt ?_ ?_ new hnewM hnewO
  · intro c e he c2 hc2
    obtain ⟨j, hj⟩ := List.mem_iff_getElem?.mp hc2
    have hloc' := (hl.enA c e he).2
    obtain ⟨e2, he2, hr⟩ := hl.enD e.var j c2 hj (by simpa [stdLoc] using hloc')
    exact ⟨e2, he2, ((isRef_iff e.var j e2).mp hr).1⟩
  · intro c e he
    exact List.mem_iff_getElem?.mpr ⟨_, (hl.enA c e he).1⟩

/-- non-vacuity of `selective_eq_full_partial`: the repaired resume history fires no assertion and its modified set is
closed (hypotheses `hnf`, `hclosed` with `M := (· ∈ s.modified)` are satisfiable on a non-trivial state) -/
example :
    let s := run (init Cfg.fixed true) resumeWitness
    s.failed = false ∧ closedModified s = true ∧ s.modified = [0, 1, 2] := by decide

end SgVerif.C17
