import SgVerif.LmmBook.Replay
/- drv_C17: replays harness lines on the bookkeeping model; monitor: values of the selective system = fresh system -/
def main : IO Unit := SgVerif.Proto.runS ({} : SgVerif.LmmBook.DrvState) (SgVerif.LmmBook.judge true)
