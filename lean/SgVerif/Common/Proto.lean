/-
Line protocol shared by all drivers.

The harness (real code) prints one line per case:   `<query tokens> => <implementation answer tokens>`
The driver reads those lines on stdin and prints, for each line, exactly one line:
  `ok`                                   model answer = implementation answer and the monitor holds
  `DISAGREE <query> => model=<m> impl=<i>`   model and implementation differ (correspondence broken)
  `MONFAIL <query> => <reason>`          the property's monitor is false on the implementation's answer
  `BADLINE <line>`                       the line could not be parsed (a defect of harness or driver)
followed at the end by `END <n>` so that a truncated stream is detected.
-/
namespace SgVerif.Proto

inductive Verdict where
  | ok
  | disagree (model : String)
  | monfail (reason : String)
  | bad
  deriving Repr

def splitQA (line : String) : Option (List String × List String) :=
  match line.splitOn " => " with
  | [q, a] => some ((q.splitOn " ").filter (· ≠ ""), (a.splitOn " ").filter (· ≠ ""))
  | [q] =>
    if line.endsWith " =>" then some ((((line.dropEnd 3).toString).splitOn " ").filter (· ≠ ""), [])
    else some ((q.splitOn " ").filter (· ≠ ""), [])
  | _ => none

partial def loop (h : IO.FS.Stream) (judge : List String → List String → Verdict) (n : Nat) : IO Nat := do
  let line ← h.getLine
  if line.isEmpty then return n
  let l := line.trimAscii.toString
  if l.isEmpty then loop h judge n else
  match splitQA l with
  | none => IO.println s!"BADLINE {l}"; loop h judge (n+1)
  | some (q, a) =>
    match judge q a with
    | .ok => IO.println "ok"
    | .disagree m => IO.println s!"DISAGREE {" ".intercalate q} => model={m} impl={" ".intercalate a}"
    | .monfail r => IO.println s!"MONFAIL {" ".intercalate q} => {r}"
    | .bad => IO.println s!"BADLINE {l}"
    loop h judge (n+1)

def run (judge : List String → List String → Verdict) : IO Unit := do
  let n ← loop (← IO.getStdin) judge 0
  IO.println s!"END {n}"

/-- Stateful variant: the judge threads a state through the lines (operation sequences). -/
partial def loopS {σ : Type} (h : IO.FS.Stream) (judge : σ → List String → List String → σ × Verdict)
    (s : σ) (n : Nat) : IO Nat := do
  let line ← h.getLine
  if line.isEmpty then return n
  let l := line.trimAscii.toString
  if l.isEmpty then loopS h judge s n else
  match splitQA l with
  | none => IO.println s!"BADLINE {l}"; loopS h judge s (n+1)
  | some (q, a) =>
    let (s', v) := judge s q a
    match v with
    | .ok => IO.println "ok"
    | .disagree m => IO.println s!"DISAGREE {" ".intercalate q} => model={m} impl={" ".intercalate a}"
    | .monfail r => IO.println s!"MONFAIL {" ".intercalate q} => {r}"
    | .bad => IO.println s!"BADLINE {l}"
    loopS h judge s' (n+1)

def runS {σ : Type} (init : σ) (judge : σ → List String → List String → σ × Verdict) : IO Unit := do
  let n ← loopS (← IO.getStdin) judge init 0
  IO.println s!"END {n}"

def cmpAns (model impl : List String) : Verdict :=
  if model = impl then .ok else .disagree (" ".intercalate model)

end SgVerif.Proto
