/-
Parser / printers of the mini-language text (the syntax read by props/_shared/mcref/interp.cpp). Core-only.
-/
import SgVerif.McRef.Model
namespace SgVerif.McRef

def splitNums (s : String) : List String := (s.split (fun c => c == '.' || c == ',')).toList.map (·.toString) |>.filter (· ≠ "")

def natsOf (s : String) : Option (List Nat) := (splitNums s).filter (· ≠ "-") |>.mapM String.toNat?
def intsOf (s : String) : Option (List Int) := (splitNums s).mapM String.toInt?

def parseOp (tok : String) : Option Op :=
  match tok.toList with
  | [] => none
  | k :: restc =>
    let rest := String.ofList restc
    match k, intsOf rest with
    | 'L', some [m] => some (.lock m.toNat)
    | 'T', some [m] => some (.trylock m.toNat)
    | 'U', some [m] => some (.unlock m.toNat)
    | 'A', some [m] => some (.acquire m.toNat)
    | 'R', some [m] => some (.release m.toNat)
    | 'B', some [m] => some (.barrier m.toNat)
    | 'W', some [c, m] => some (.cvwait c.toNat m.toNat)
    | 'N', some [c] => some (.signal c.toNat)
    | 'Y', some [c] => some (.broadcast c.toNat)
    | 'S', some [x, v] => some (.put x.toNat v)
    | 'G', some [x] => some (.get x.toNat)
    | 's', some [x, v, sl] => some (.putAsync x.toNat v sl.toNat)
    | 'g', some [x, sl] => some (.getAsync x.toNat sl.toNat)
    | 'w', some [sl] => some (.wait sl.toNat)
    | 't', some [sl] => some (.test sl.toNat)
    | 'C', some [k] => some (.create k.toNat)
    | 'J', some [p] => some (.join p.toNat)
    | 'K', some [k] => some (.joinChild k.toNat)
    | 'X', some [lo, hi] => some (.random lo hi)
    | 'F', some [v] => some (.assertNe v)
    | _, _ => none

def parseHeader (p : Program) (tok : String) : Option Program :=
  match tok.splitOn "=" with
  | [k, v] =>
    if k = "m" then v.toNat?.map (fun n => { p with nmutex := n })
    else if k = "s" then (natsOf v).map (fun l => { p with sems := l })
    else if k = "b" then (natsOf v).map (fun l => { p with bars := l })
    else if k = "c" then v.toNat?.map (fun n => { p with ncv := n })
    else if k = "x" then v.toNat?.map (fun n => { p with nmbox := n })
    else if k = "forbid" then some { p with forbid := some v }
    else none
  | _ => none

/-- mode: 0 none, 1 header, 2 static body, 3 child body (ops are appended to the last body). -/
def parseToks : List String → Nat → Program → Option Program
  | [], _, p => some p
  | t :: ts, mode, p =>
    if t = ";" then parseToks ts mode p
    else if t = "H" then parseToks ts 1 p
    else if t = "A" then parseToks ts 2 { p with statics := p.statics ++ [[]] }
    else if t = "C" then parseToks ts 3 { p with children := p.children ++ [[]] }
    else if mode = 1 then
      match parseHeader p t with
      | some p' => parseToks ts mode p'
      | none => none
    else if mode = 2 then
      match parseOp t, p.statics.reverse with
      | some op, last :: before => parseToks ts mode { p with statics := (before.reverse) ++ [last ++ [op]] }
      | _, _ => none
    else if mode = 3 then
      match parseOp t, p.children.reverse with
      | some op, last :: before => parseToks ts mode { p with children := (before.reverse) ++ [last ++ [op]] }
      | _, _ => none
    else none

def parseProgram (toks : List String) : Option Program := parseToks toks 0 {}

def kindName : Kind → String
  | .random => "RANDOM" | .actorJoin => "ACTOR_JOIN" | .actorCreate => "ACTOR_CREATE"
  | .barAsyncLock => "BARRIER_ASYNC_LOCK" | .barWait => "BARRIER_WAIT"
  | .commAsyncRecv => "COMM_ASYNC_RECV" | .commAsyncSend => "COMM_ASYNC_SEND" | .commTest => "COMM_TEST" | .commWait => "COMM_WAIT"
  | .mutexAsyncLock => "MUTEX_ASYNC_LOCK" | .mutexTrylock => "MUTEX_TRYLOCK" | .mutexUnlock => "MUTEX_UNLOCK" | .mutexWait => "MUTEX_WAIT"
  | .semAsyncLock => "SEM_ASYNC_LOCK" | .semUnlock => "SEM_UNLOCK" | .semWait => "SEM_WAIT"
  | .cvAsyncLock => "CONDVAR_ASYNC_LOCK" | .cvBroadcast => "CONDVAR_BROADCAST" | .cvSignal => "CONDVAR_SIGNAL" | .cvWait => "CONDVAR_WAIT"

/-- `aid:KIND:obj:obj2:src:dst:tc` -/
def labelToString (l : Label) : String :=
  s!"{l.aid}:{kindName l.kind}:{l.obj}:{l.obj2}:{l.src}:{l.dst}:{l.tc}"

/-- A recorded path `pid[/tc](;pid[/tc])*` as written by the checker (parsed leniently here; the exact model of
`RecordTrace::RecordTrace(string)` is in C41/Model.lean). -/
def parsePath (s : String) : Option (List (Nat × Nat)) :=
  if s = "" then some [] else
  (s.splitOn ";").mapM (fun chunk =>
    match chunk.splitOn "/" with
    | [a] => a.toNat?.map (fun n => (n, 0))
    | [a, b] => match a.toNat?, b.toNat? with | some n, some t => some (n, t) | _, _ => none
    | _ => none)

end SgVerif.McRef
