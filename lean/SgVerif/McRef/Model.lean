/-
McRef — reference semantics of the mini-language in the model checker's computational model.
Shared by C38, C40, C41 (and later C14).  Core-only (compiled into the drivers).

A program is N static actors + child bodies, each a list of `Op`.  Every blocking S4U call is split into the
transitions that simgrid-mc sees (`Pend` = the pending *visible* simcall of an actor):

  Mutex::lock          -> MUTEX_ASYNC_LOCK ; MUTEX_WAIT                 (src/s4u/s4u_Mutex.cpp, MC branch)
  Semaphore::acquire   -> SEM_ASYNC_LOCK ; SEM_WAIT                     (src/s4u/s4u_Semaphore.cpp)
  Barrier::wait        -> BARRIER_ASYNC_LOCK ; BARRIER_WAIT             (src/s4u/s4u_Barrier.cpp)
  ConditionVariable::wait -> CONDVAR_ASYNC_LOCK ; CONDVAR_WAIT ; MUTEX_WAIT   (src/s4u/s4u_ConditionVariable.cpp do_wait)
  Mailbox::put / get   -> COMM_ASYNC_SEND/RECV ; COMM_WAIT              (Comm::start + Comm::wait)
  put_async/get_async  -> COMM_ASYNC_SEND/RECV       Comm::wait -> COMM_WAIT      Comm::test -> COMM_TEST
  Actor::create -> ACTOR_CREATE    Actor::join -> ACTOR_JOIN    MC_random -> RANDOM (times_considered = value - min)

`enabled` mirrors the `is_enabled()` of the observers (src/kernel/actor/SynchroObserver.cpp, WaitTestObserver.cpp,
SimcallObserver.cpp); `exec` mirrors the kernel objects in MC mode (src/kernel/activity/{MutexImpl,SemaphoreImpl,
BarrierImpl,ConditionVariableImpl,CommImpl}.cpp): FIFO `ongoing_acquisitions_`, hand-off of the mutex to the head of
the queue on unlock, barrier re-arm, lost signals, FIFO matching in the mailbox, a comm is complete as soon as it is
matched (CommImpl::test: `if (MC_is_active() && src_actor_ && dst_actor_) set_state(DONE)`).
After a transition the actor runs up to its next visible simcall (`advance`): local operations (guards of the
interpreter, observations, MC_assert) happen there, exactly as `mc::execute_actors()` lets the actor run.

Actors are identified by their index in the actor table (statics first, then child bodies); the SimGrid pid is a
field (`pid`, 0 = not created yet; statics get 1..N, children get `nextPid` at their creation as `maxpid_++`).
Comms are identified by (mailbox, n): without match functions the n-th send of a mailbox pairs with its n-th receive.
-/
namespace SgVerif.McRef

inductive Op where
  | lock (m : Nat) | trylock (m : Nat) | unlock (m : Nat)
  | acquire (s : Nat) | release (s : Nat) | barrier (b : Nat)
  | cvwait (c m : Nat) | signal (c : Nat) | broadcast (c : Nat)
  | put (x : Nat) (v : Int) | get (x : Nat)
  | putAsync (x : Nat) (v : Int) (slot : Nat) | getAsync (x slot : Nat)
  | wait (slot : Nat) | test (slot : Nat)
  | create (k : Nat) | join (pid : Nat) | joinChild (k : Nat)
  | random (lo hi : Int) | assertNe (v : Int)
  deriving Repr, DecidableEq, Inhabited

/-- The pending visible simcall of an actor. -/
inductive Pend where
  | mutexAsyncLock (m : Nat) | mutexWait (m : Nat) | mutexTrylock (m : Nat) | mutexUnlock (m : Nat)
  | semAsyncLock (s : Nat) | semWait (s : Nat) | semUnlock (s : Nat)
  | barAsyncLock (b : Nat) | barWait (b : Nat)
  | cvAsyncLock (c m : Nat) | cvWait (c m : Nat) | cvSignal (c : Nat) | cvBroadcast (c : Nat)
  | commAsyncSend (x : Nat) (v : Int) (slot : Option Nat)
  | commAsyncRecv (x : Nat) (slot : Option Nat)
  | commWait (x n : Nat) (isRecv : Bool) (slot : Option Nat)
  | commTest (x n : Nat) (isRecv : Bool) (slot : Nat)
  | actorCreate (k : Nat) | actorJoin (target : Nat)
  | random (lo hi : Int)
  deriving Repr, DecidableEq, Inhabited

structure Actor where
  pid   : Nat := 0                         -- 0: not created yet
  pend  : Option Pend := none              -- none (and pid ≠ 0): terminated
  todo  : List Op := []
  obs   : List Int := []
  slots : List (Nat × Nat × Nat × Bool) := []   -- slot ↦ (mailbox, n, isRecv) of an active comm
  deriving Repr, DecidableEq, Inhabited

structure Mutex where
  owner : Option Nat := none
  queue : List Nat := []
  deriving Repr, DecidableEq, Inhabited

structure Sem where
  value : Nat := 0
  queue : List Nat := []
  deriving Repr, DecidableEq, Inhabited

structure Bar where
  expected : Nat := 1
  queue : List Nat := []
  deriving Repr, DecidableEq, Inhabited

structure Cv where
  queue : List Nat := []
  deriving Repr, DecidableEq, Inhabited

structure Mbox where
  nsend : Nat := 0
  nrecv : Nat := 0
  deriving Repr, DecidableEq, Inhabited

structure Comm where
  x : Nat
  n : Nat
  src : Option Nat := none
  dst : Option Nat := none
  val : Int := 0
  deriving Repr, DecidableEq, Inhabited

/-- 0 = running, 1 = MC_assert failed, 2 = the application crashed (xbt_assert of the kernel). -/
abbrev Err := Nat

structure State where
  actors  : List Actor := []
  nstatic : Nat := 0
  mutexes : List Mutex := []
  sems    : List Sem := []
  bars    : List Bar := []
  cvs     : List Cv := []
  mboxes  : List Mbox := []
  comms   : List Comm := []
  nextPid : Nat := 1
  err     : Err := 0
  deriving Repr, DecidableEq, Inhabited

structure Program where
  nmutex  : Nat := 0
  sems    : List Nat := []
  bars    : List Nat := []
  ncv     : Nat := 0
  nmbox   : Nat := 0
  statics : List (List Op) := []
  children : List (List Op) := []
  forbid  : Option String := none
  deriving Repr, Inhabited

/-! ### Labels: what the checker sees of a transition (the fields used by `Transition::depends`) -/

inductive Kind where
  | random | actorJoin | actorCreate
  | barAsyncLock | barWait
  | commAsyncRecv | commAsyncSend | commTest | commWait
  | mutexAsyncLock | mutexTrylock | mutexUnlock | mutexWait
  | semAsyncLock | semUnlock | semWait
  | cvAsyncLock | cvBroadcast | cvSignal | cvWait
  deriving Repr, DecidableEq, Inhabited

structure Label where
  aid  : Nat            -- pid of the issuer
  tc   : Nat            -- times_considered
  kind : Kind
  obj  : Nat := 0       -- mutex / semaphore / barrier / condvar / mailbox id; child or target pid for actor kinds
  obj2 : Nat := 0       -- mutex of a condvar transition; comm number n of a comm transition
  src  : Nat := 0       -- pid of the sender of the comm of a wait/test (0 = none yet, printed -1 by simgrid)
  dst  : Nat := 0
  deriving Repr, DecidableEq, Inhabited

/-! ### small list helpers (explicit error branches, no `get!`) -/

def modifyAt {α} (l : List α) (i : Nat) (f : α → α) : List α :=
  match l, i with
  | [], _ => []
  | a :: t, 0 => f a :: t
  | a :: t, i+1 => a :: modifyAt t i f

def findComm (cs : List Comm) (x n : Nat) : Option Comm := cs.find? (fun c => c.x == x && c.n == n)

def updComm (cs : List Comm) (x n : Nat) (f : Comm → Comm) : List Comm :=
  cs.map (fun c => if c.x == x && c.n == n then f c else c)

def commMatched (s : State) (x n : Nat) : Bool :=
  match findComm s.comms x n with
  | some c => c.src.isSome && c.dst.isSome
  | none => false

def slotGet (a : Actor) (slot : Nat) : Option (Nat × Nat × Bool) :=
  match a.slots.find? (fun e => e.1 == slot) with
  | some e => some e.2
  | none => none

def slotClear (a : Actor) (slot : Nat) : Actor := { a with slots := a.slots.filter (fun e => e.1 != slot) }
def slotSet (a : Actor) (slot x n : Nat) (r : Bool) : Actor :=
  { a with slots := (slot, x, n, r) :: a.slots.filter (fun e => e.1 != slot) }

def mutexOwner (s : State) (m : Nat) : Option Nat :=
  match s.mutexes[m]? with
  | some mu => mu.owner
  | none => none

def pidOf (s : State) (i : Nat) : Nat :=
  match s.actors[i]? with
  | some a => a.pid
  | none => 0

def pidOfOpt (s : State) : Option Nat → Nat
  | some i => pidOf s i
  | none => 0

/-! ### `advance`: run actor `i` (whose record is `a`) up to its next visible simcall.
Returns the actor and whether an MC_assert failed on the way.  Reads the shared state, never writes it. -/
def advance (s : State) (i : Nat) (a : Actor) : List Op → Actor × Bool
  | [] => ({ a with pend := none, todo := [] }, false)
  | op :: rest =>
    let issue (p : Pend) : Actor × Bool := ({ a with pend := some p, todo := rest }, false)
    match op with
    | .lock m => issue (.mutexAsyncLock m)
    | .trylock m => issue (.mutexTrylock m)
    | .unlock m => if mutexOwner s m = some i then issue (.mutexUnlock m) else advance s i a rest
    | .acquire k => issue (.semAsyncLock k)
    | .release k => issue (.semUnlock k)
    | .barrier b => issue (.barAsyncLock b)
    | .cvwait c m => if mutexOwner s m = some i then issue (.cvAsyncLock c m) else advance s i a rest
    | .signal c => issue (.cvSignal c)
    | .broadcast c => issue (.cvBroadcast c)
    | .put x v => issue (.commAsyncSend x v none)
    | .get x => issue (.commAsyncRecv x none)
    | .putAsync x v slot => if (slotGet a slot).isSome then advance s i a rest else issue (.commAsyncSend x v (some slot))
    | .getAsync x slot => if (slotGet a slot).isSome then advance s i a rest else issue (.commAsyncRecv x (some slot))
    | .wait slot =>
      match slotGet a slot with
      | some (x, n, r) => issue (.commWait x n r (some slot))
      | none => advance s i a rest
    | .test slot =>
      match slotGet a slot with
      | some (x, n, r) => issue (.commTest x n r slot)
      | none => advance s i a rest
    | .create k =>
      match s.actors[s.nstatic + k]? with
      | some c => if c.pid = 0 then issue (.actorCreate k) else advance s i a rest
      | none => advance s i a rest
    | .join p => if 1 ≤ p ∧ p ≤ s.nstatic then issue (.actorJoin (p - 1)) else advance s i a rest
    | .joinChild k =>
      match s.actors[s.nstatic + k]? with
      | some c => if c.pid ≠ 0 then issue (.actorJoin (s.nstatic + k)) else advance s i a rest
      | none => advance s i a rest
    | .random lo hi => if lo ≤ hi then issue (.random lo hi) else advance s i a rest
    | .assertNe v =>
      match a.obs.getLast? with
      | some w => if w = v then ({ a with pend := none, todo := rest }, true) else advance s i a rest
      | none => advance s i a rest

/-- Install the result of `advance` for actor `i` in the state. -/
def finishStep (s : State) (i : Nat) (a : Actor) : State :=
  let (a', failed) := advance s i a a.todo
  { s with actors := modifyAt s.actors i (fun _ => a'), err := if failed then 1 else s.err }

/-- Actor `i` (record `a`) now waits on the visible simcall `p` (continuation of a split S4U call). -/
def setPend (s : State) (i : Nat) (a : Actor) (p : Pend) : State :=
  { s with actors := modifyAt s.actors i (fun _ => { a with pend := some p }) }

/-- The application died in the simcall handler of actor `i` (an `xbt_assert` of the kernel): error branch. -/
def crash (s : State) (i : Nat) (a : Actor) : State :=
  { s with actors := modifyAt s.actors i (fun _ => { a with pend := none }), err := 2 }

/-! ### enabledness (the observers' `is_enabled`) -/

def pendEnabled (s : State) (i : Nat) : Pend → Bool
  | .mutexWait m =>
    -- MutexAcquisitionObserver::is_enabled: acquisition_->is_granted().  An acquisition is granted when it took the
    -- free mutex or when `unlock` popped it from the queue; the owner can itself be queued (self-deadlock of a
    -- non-recursive mutex: lock after a successful try_lock), and that second acquisition is not granted.
    match s.mutexes[m]? with
    | some mu => mu.owner == some i && !mu.queue.contains i
    | none => false
  | .semWait k => match s.sems[k]? with | some se => !se.queue.contains i | none => false
  | .barWait b => match s.bars[b]? with | some ba => !ba.queue.contains i | none => false
  | .cvWait c _ => match s.cvs[c]? with | some cv => !cv.queue.contains i | none => false
  | .commWait x n _ _ => commMatched s x n                         -- ActivityWaitSimcall: activity_->test()
  | .actorJoin t => match s.actors[t]? with | some a => a.pid != 0 && a.pend.isNone | none => false  -- wannadie()
  | _ => true

def actorEnabled (s : State) (i : Nat) : Bool :=
  s.err == 0 &&
  match s.actors[i]? with
  | some a => a.pid != 0 && (match a.pend with | some p => pendEnabled s i p | none => false)
  | none => false

/-- `get_max_consider()`: 1 except for RANDOM (hi - lo + 1). -/
def maxConsider : Pend → Nat
  | .random lo hi => (hi - lo + 1).toNat
  | _ => 1

/-! ### kernel object operations -/

/-- `MutexImpl::lock_async` (non-recursive mutex). -/
def mutexLockAsync (mu : Mutex) (i : Nat) : Mutex :=
  match mu.owner with
  | none => { mu with owner := some i }
  | some _ => { mu with queue := mu.queue ++ [i] }

/-- `MutexImpl::unlock` once the ownership test passed. -/
def mutexRelease (mu : Mutex) : Mutex :=
  match mu.queue with
  | [] => { mu with owner := none }
  | h :: t => { owner := some h, queue := t }

/-- `SemaphoreImpl::acquire_async`. -/
def semAcquireAsync (se : Sem) (i : Nat) : Sem :=
  if se.value > 0 then { se with value := se.value - 1 } else { se with queue := se.queue ++ [i] }

/-- `SemaphoreImpl::release`. -/
def semRelease (se : Sem) : Sem :=
  match se.queue with
  | [] => { se with value := se.value + 1 }
  | _ :: t => { se with queue := t }

/-- `BarrierImpl::acquire_async`: `if (ongoing_acquisitions_.size() < expected_actors_ - 1)` push, else grant all and re-arm. -/
def barAcquireAsync (ba : Bar) (i : Nat) : Bar :=
  if ba.queue.length < ba.expected - 1 then { ba with queue := ba.queue ++ [i] } else { ba with queue := [] }

/-! ### `exec`: the effect of the pending simcall `p` of actor `i` chosen with `tc` (`simcall_handle(times_considered)`),
followed by the run of the actor (and of a freshly created child) up to the next visible simcall. -/
def execPend (s : State) (i : Nat) (a : Actor) (p : Pend) (tc : Nat) : State :=
  match p with
  | .mutexAsyncLock m =>
    let s1 := { s with mutexes := modifyAt s.mutexes m (fun mu => mutexLockAsync mu i) }
    setPend s1 i a (.mutexWait m)
  | .mutexWait _ => finishStep s i a
  | .mutexTrylock m =>
    match mutexOwner s m with
    | none =>
      let s1 := { s with mutexes := modifyAt s.mutexes m (fun mu => { mu with owner := some i }) }
      finishStep s1 i { a with obs := a.obs ++ [1] }
    | some _ => finishStep s i { a with obs := a.obs ++ [0] }
  | .mutexUnlock m =>
    if mutexOwner s m = some i then
      finishStep { s with mutexes := modifyAt s.mutexes m mutexRelease } i a
    else crash s i a      -- xbt_assert(issuer == owner_) in MutexImpl::unlock
  | .semAsyncLock k =>
    let s1 := { s with sems := modifyAt s.sems k (fun se => semAcquireAsync se i) }
    setPend s1 i a (.semWait k)
  | .semWait _ => finishStep s i a
  | .semUnlock k => finishStep { s with sems := modifyAt s.sems k semRelease } i a
  | .barAsyncLock b =>
    let s1 := { s with bars := modifyAt s.bars b (fun ba => barAcquireAsync ba i) }
    setPend s1 i a (.barWait b)
  | .barWait _ => finishStep s i a
  | .cvAsyncLock c m =>
    if mutexOwner s m = some i then
      -- ConditionVariableImpl::acquire_async: mutex->unlock(issuer); ongoing_acquisitions_.push_back
      let s1 := { s with mutexes := modifyAt s.mutexes m mutexRelease,
                         cvs := modifyAt s.cvs c (fun cv => { cv with queue := cv.queue ++ [i] }) }
      setPend s1 i a (.cvWait c m)
    else crash s i a
  | .cvWait _ m =>
    -- second simcall of do_wait: acquisition->wait_for; mut_acqui = mutex->lock_async(issuer)
    let s1 := { s with mutexes := modifyAt s.mutexes m (fun mu => mutexLockAsync mu i) }
    setPend s1 i a (.mutexWait m)
  | .cvSignal c => finishStep { s with cvs := modifyAt s.cvs c (fun cv => { cv with queue := cv.queue.tail }) } i a
  | .cvBroadcast c => finishStep { s with cvs := modifyAt s.cvs c (fun cv => { cv with queue := [] }) } i a
  | .commAsyncSend x v slot =>
    match s.mboxes[x]? with
    | none => crash s i a
    | some mb =>
      let n := mb.nsend
      let comms := if n < mb.nrecv then updComm s.comms x n (fun c => { c with src := some i, val := v })
                   else s.comms ++ [{ x := x, n := n, src := some i, dst := none, val := v }]
      let s1 := { s with mboxes := modifyAt s.mboxes x (fun mb => { mb with nsend := mb.nsend + 1 }), comms := comms }
      match slot with
      | none => setPend s1 i a (.commWait x n false none)
      | some sl => finishStep s1 i (slotSet a sl x n false)
  | .commAsyncRecv x slot =>
    match s.mboxes[x]? with
    | none => crash s i a
    | some mb =>
      let n := mb.nrecv
      let comms := if n < mb.nsend then updComm s.comms x n (fun c => { c with dst := some i })
                   else s.comms ++ [{ x := x, n := n, src := none, dst := some i, val := 0 }]
      let s1 := { s with mboxes := modifyAt s.mboxes x (fun mb => { mb with nrecv := mb.nrecv + 1 }), comms := comms }
      match slot with
      | none => setPend s1 i a (.commWait x n true none)
      | some sl => finishStep s1 i (slotSet a sl x n true)
  | .commWait x n r slot =>
    let v : Int := match findComm s.comms x n with | some c => c.val | none => 0
    let a1 := if r then { a with obs := a.obs ++ [v] } else a
    let a2 := match slot with | some sl => slotClear a1 sl | none => a1
    finishStep s i a2
  | .commTest x n r slot =>
    if commMatched s x n then
      let v : Int := match findComm s.comms x n with | some c => c.val | none => 0
      let a1 := { a with obs := a.obs ++ [1] }
      let a2 := if r then { a1 with obs := a1.obs ++ [v] } else a1
      finishStep s i (slotClear a2 slot)
    else finishStep s i { a with obs := a.obs ++ [0] }
  | .actorCreate k =>
    let ci := s.nstatic + k
    match s.actors[ci]? with
    | none => crash s i a
    | some c =>
      if c.pid = 0 ∧ c.pend = none ∧ ci ≠ i then
        -- the child gets pid maxpid_++ and runs to its first simcall in the same scheduling round
        let s1 := { s with nextPid := s.nextPid + 1 }
        let s2 := finishStep s1 ci { c with pid := s.nextPid }
        finishStep s2 i a
      else crash s i a      -- body started twice: outside the mini-language (the generator never does it)
  | .actorJoin _ => finishStep s i a
  | .random lo _ => finishStep s i { a with obs := a.obs ++ [lo + (tc : Int)] }

/-- One transition: actor `i` executes its pending simcall with `times_considered = tc`.
Disabled or out-of-range choices leave the state unchanged (the checker never asks for them). -/
def step (s : State) (i tc : Nat) : State :=
  match s.actors[i]? with
  | none => s
  | some a =>
    match a.pend with
    | none => s
    | some p => if actorEnabled s i && tc < maxConsider p then execPend s i a p tc else s

/-! ### labels -/

def labelOf (s : State) (i tc : Nat) (p : Pend) : Label :=
  let aid := pidOf s i
  match p with
  | .mutexAsyncLock m => { aid, tc, kind := .mutexAsyncLock, obj := m }
  | .mutexWait m => { aid, tc, kind := .mutexWait, obj := m }
  | .mutexTrylock m => { aid, tc, kind := .mutexTrylock, obj := m }
  | .mutexUnlock m => { aid, tc, kind := .mutexUnlock, obj := m }
  | .semAsyncLock k => { aid, tc, kind := .semAsyncLock, obj := k }
  | .semWait k => { aid, tc, kind := .semWait, obj := k }
  | .semUnlock k => { aid, tc, kind := .semUnlock, obj := k }
  | .barAsyncLock b => { aid, tc, kind := .barAsyncLock, obj := b }
  | .barWait b => { aid, tc, kind := .barWait, obj := b }
  | .cvAsyncLock c m => { aid, tc, kind := .cvAsyncLock, obj := c, obj2 := m }
  | .cvWait c m => { aid, tc, kind := .cvWait, obj := c, obj2 := m }
  | .cvSignal c => { aid, tc, kind := .cvSignal, obj := c }
  | .cvBroadcast c => { aid, tc, kind := .cvBroadcast, obj := c }
  | .commAsyncSend x _ _ =>
    { aid, tc, kind := .commAsyncSend, obj := x, obj2 := match s.mboxes[x]? with | some mb => mb.nsend | none => 0 }
  | .commAsyncRecv x _ =>
    { aid, tc, kind := .commAsyncRecv, obj := x, obj2 := match s.mboxes[x]? with | some mb => mb.nrecv | none => 0 }
  | .commWait x n _ _ =>
    match findComm s.comms x n with
    | some c => { aid, tc, kind := .commWait, obj := x, obj2 := n, src := pidOfOpt s c.src, dst := pidOfOpt s c.dst }
    | none => { aid, tc, kind := .commWait, obj := x, obj2 := n }
  | .commTest x n _ _ =>
    match findComm s.comms x n with
    | some c => { aid, tc, kind := .commTest, obj := x, obj2 := n, src := pidOfOpt s c.src, dst := pidOfOpt s c.dst }
    | none => { aid, tc, kind := .commTest, obj := x, obj2 := n }
  | .actorCreate _ => { aid, tc, kind := .actorCreate, obj := s.nextPid }
  | .actorJoin t => { aid, tc, kind := .actorJoin, obj := pidOf s t }
  | .random _ _ => { aid, tc, kind := .random }

/-- The label of the transition (i, tc) in `s`, if that transition is enabled. -/
def labelAt (s : State) (i tc : Nat) : Option Label :=
  match s.actors[i]? with
  | none => none
  | some a =>
    match a.pend with
    | none => none
    | some p => if actorEnabled s i && tc < maxConsider p then some (labelOf s i tc p) else none

/-! ### moves, terminal states, outcomes -/

def movesOf (s : State) (i : Nat) : List (Nat × Nat) :=
  match s.actors[i]? with
  | none => []
  | some a =>
    match a.pend with
    | none => []
    | some p => if actorEnabled s i then (List.range (maxConsider p)).map (fun tc => (i, tc)) else []

/-- All enabled (actor index, times_considered) pairs. -/
def moves (s : State) : List (Nat × Nat) := (List.range s.actors.length).flatMap (movesOf s)

/-- `AppSide::handle_deadlock_check`: the actor list is not empty and no actor is enabled. -/
def isDeadlock (s : State) : Bool :=
  s.err == 0 && (moves s).isEmpty && s.actors.any (fun a => a.pid != 0 && a.pend.isSome)

def allDone (s : State) : Bool := s.err == 0 && s.actors.all (fun a => a.pid != 0 && a.pend.isNone)

def intsToString (l : List Int) : String := ",".intercalate (l.map toString)

/-- The outcome vector printed by the interpreter: observations of all actors, ',' inside, '|' between. -/
def outcome (s : State) : String := "|".intercalate (s.actors.map (fun a => intsToString a.obs))

/-! ### initial state -/

def initState (p : Program) : State :=
  let s0 : State :=
    { actors := (p.statics.zipIdx.map (fun (ops, i) => ({ pid := i + 1, todo := ops } : Actor))) ++
                 p.children.map (fun ops => ({ pid := 0, todo := ops } : Actor)),
      nstatic := p.statics.length,
      mutexes := List.replicate p.nmutex {},
      sems := p.sems.map (fun v => { value := v }),
      bars := p.bars.map (fun n => { expected := n }),
      cvs := List.replicate p.ncv {},
      mboxes := List.replicate p.nmbox {},
      nextPid := p.statics.length + 1 }
  -- every static actor runs to its first visible simcall (first `execute_actors()`), in pid order
  (List.range p.statics.length).foldl
    (fun s i => match s.actors[i]? with | some a => finishStep s i a | none => s) s0

/-! ### the reference explorer -/

structure Result where
  outcomes  : List String := []      -- distinct terminal outcomes, in order of discovery
  deadlock  : Bool := false
  assertFail : Bool := false
  crash     : Bool := false
  nexec     : Nat := 0               -- number of maximal executions
  execs     : List (List Label) := []  -- the maximal executions (kept only when asked)
  exhausted : Bool := false          -- the fuel ran out (never, see `fuel_sufficient`)
  capped    : Bool := false          -- more than `cap` executions: result incomplete
  deriving Repr, Inhabited

def leaf (keep : Bool) (forbid : Option String) (s : State) (tr : List Label) (acc : Result) : Result :=
  let acc := { acc with nexec := acc.nexec + 1, execs := if keep then tr.reverse :: acc.execs else acc.execs }
  if s.err == 1 then { acc with assertFail := true }
  else if s.err != 0 then { acc with crash := true }
  else if isDeadlock s then { acc with deadlock := true }
  else
    let o := outcome s
    let acc := if acc.outcomes.contains o then acc else { acc with outcomes := acc.outcomes ++ [o] }
    if forbid == some o then { acc with assertFail := true } else acc

def exploreAux (keep : Bool) (forbid : Option String) (cap : Nat) : Nat → State → List Label → Result → Result
  | 0, s, tr, acc => if (moves s).isEmpty then leaf keep forbid s tr acc else { acc with exhausted := true }
  | fuel + 1, s, tr, acc =>
    if acc.nexec > cap then { acc with capped := true } else
    match moves s with
    | [] => leaf keep forbid s tr acc
    | ms => ms.foldl (fun acc mv =>
        match labelAt s mv.1 mv.2 with
        | some l => exploreAux keep forbid cap fuel (step s mv.1 mv.2) (l :: tr) acc
        | none => acc) acc

/-! ### fuel: the number of transitions a program can still execute -/

def opWeight : Op → Nat
  | .lock _ => 2 | .trylock _ => 1 | .unlock _ => 1
  | .acquire _ => 2 | .release _ => 1 | .barrier _ => 2
  | .cvwait _ _ => 3 | .signal _ => 1 | .broadcast _ => 1
  | .put _ _ => 2 | .get _ => 2 | .putAsync _ _ _ => 1 | .getAsync _ _ => 1
  | .wait _ => 1 | .test _ => 1
  | .create _ => 1 | .join _ => 1 | .joinChild _ => 1
  | .random _ _ => 1 | .assertNe _ => 0

def opsWeight (l : List Op) : Nat := (l.map opWeight).sum

def pendWeight : Option Pend → Nat
  | none => 0
  | some (.mutexAsyncLock _) => 2 | some (.semAsyncLock _) => 2 | some (.barAsyncLock _) => 2
  | some (.cvAsyncLock _ _) => 3 | some (.cvWait _ _) => 2
  | some (.commAsyncSend _ _ none) => 2 | some (.commAsyncRecv _ none) => 2
  | some _ => 1

def actorWeight (a : Actor) : Nat := pendWeight a.pend + opsWeight a.todo

def weight (s : State) : Nat := (s.actors.map actorWeight).sum

/-- `Reference.explore p`: exhaustive DFS with fuel = total number of transitions of the loop-free program. -/
def explore (p : Program) (keep : Bool := false) (cap : Nat := 1000000) : Result :=
  let s := initState p
  exploreAux keep p.forbid cap (weight s) s [] {}

/-! ### driving the LTS with a recorded path (C41): pids, not indexes -/

def indexOfPid (s : State) (pid : Nat) : Option Nat :=
  if pid = 0 then none else s.actors.findIdx? (fun a => a.pid == pid)

/-- Replay of a recorded path `(pid, times_considered)*`: the state reached and the labels executed, or the position
of the first chunk that the LTS refuses (unknown pid, disabled actor, times_considered out of range). -/
def replay : State → List (Nat × Nat) → List Label → Except Nat (State × List Label)
  | s, [], acc => .ok (s, acc.reverse)
  | s, (pid, tc) :: rest, acc =>
    match indexOfPid s pid with
    | none => .error acc.length
    | some i =>
      match labelAt s i tc with
      | none => .error acc.length
      | some l => replay (step s i tc) rest (l :: acc)

end SgVerif.McRef
