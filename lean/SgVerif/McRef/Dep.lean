/-
Transliteration of `Transition::dispatch_depends` (src/mc/transition/Transition.cpp: look-up table + switch) restricted
to the transition kinds of the mini-language (no TESTANY/WAITANY/IPROBE/MUTEX_TEST/ACTOR_EXIT/SLEEP, no timeouts).
Used by C40 to compute classes "under the checker's own dependency relation".  (C39 owns the generated full table and
its commutation proofs; this copy is only consumed by the C40 correspondence.)  Core-only.
-/
import SgVerif.McRef.Model
namespace SgVerif.McRef

/-- position in `Transition::Type` (the table is filled for t1 <= t2 and symmetrised) -/
def Kind.idx : Kind → Nat
  | .random => 0 | .actorJoin => 1 | .actorCreate => 3
  | .barAsyncLock => 7 | .barWait => 8
  | .commAsyncRecv => 9 | .commAsyncSend => 10 | .commTest => 12 | .commWait => 13
  | .mutexAsyncLock => 14 | .mutexTrylock => 16 | .mutexUnlock => 17 | .mutexWait => 18
  | .semAsyncLock => 20 | .semUnlock => 21 | .semWait => 22
  | .cvAsyncLock => 24 | .cvBroadcast => 25 | .cvSignal => 26 | .cvWait => 27

/-- the rule for `t1.type_ <= t2.type_`, different actors -/
def depOrdered (t1 t2 : Label) : Bool :=
  match t1.kind, t2.kind with
  -- rule_all(RANDOM, ALWAYS_INDEP) overwrites everything but RANDOM x ACTOR_CREATE, which is EVAL_T2_ACTOR_CREATE again
  -- (repair of `odpor-random-with-created-actor-spurious-crash`: before it this cell was ALWAYS_INDEP too)
  | .random, .actorCreate => t2.obj == t1.aid
  | .random, _ => false
  -- rule_all_actor_join / rule_all_actor_create (create written last: JOIN x CREATE is EVAL_T2_ACTOR_CREATE)
  | .actorJoin, .actorJoin => t1.obj == t2.aid || t2.obj == t1.aid
  | .actorJoin, .actorCreate => t2.obj == t1.aid
  | .actorJoin, _ => t1.obj == t2.aid
  | .actorCreate, .actorCreate => true
  | .actorCreate, _ => t1.obj == t2.aid
  -- barrier: EVAL_BARRIER_DEPENDS (BarrierTransition::depends: same barrier and not WAIT/WAIT).  LOCK x LOCK was
  -- ALWAYS_INDEP before the repair of `barrier-lock-lock-declared-independent`
  | .barAsyncLock, .barAsyncLock | .barAsyncLock, .barWait => t1.obj == t2.obj
  -- communications (no timeout)
  | .commAsyncRecv, .commAsyncRecv => t1.obj == t2.obj
  | .commAsyncSend, .commAsyncSend => t1.obj == t2.obj
  -- EVAL_COMM_RECV_TEST / EVAL_COMM_SEND_TEST: since the repair of `commtest-on-pending-comm-declared-independent` a test
  -- on a comm without receiver (resp. sender; `0` here, -1 in simgrid) depends on every recv (resp. send) of its mailbox
  | .commAsyncRecv, .commTest =>
    if t1.obj != t2.obj then false
    else if t2.dst == 0 then true
    else if t1.aid != t2.src && t1.aid != t2.dst then false
    else t2.obj2 == t1.obj2
  | .commAsyncSend, .commTest =>
    if t1.obj != t2.obj then false
    else if t2.src == 0 then true
    else if t1.aid != t2.src && t1.aid != t2.dst then false
    else t2.obj2 == t1.obj2
  | .commAsyncRecv, .commWait | .commAsyncSend, .commWait =>
    if t1.obj != t2.obj then false
    else if t1.aid != t2.src && t1.aid != t2.dst then false
    else if t1.aid != t2.aid && t2.obj2 != t1.obj2 then false
    else true
  -- mutex
  | .mutexAsyncLock, .mutexAsyncLock | .mutexAsyncLock, .mutexTrylock | .mutexTrylock, .mutexTrylock
  | .mutexTrylock, .mutexUnlock | .mutexUnlock, .mutexWait => t1.obj == t2.obj
  -- semaphore
  | .semAsyncLock, .semAsyncLock | .semUnlock, .semWait => t1.obj == t2.obj
  -- condition variables
  | .cvAsyncLock, .cvSignal | .cvAsyncLock, .cvBroadcast | .cvSignal, .cvWait | .cvBroadcast, .cvWait => t1.obj == t2.obj
  | .cvWait, .cvWait => t1.obj2 == t2.obj2
  -- condvar as mutex operations
  | .mutexWait, .cvAsyncLock | .mutexUnlock, .cvAsyncLock | .mutexTrylock, .cvAsyncLock => t1.obj == t2.obj2
  | .mutexAsyncLock, .cvWait | .mutexTrylock, .cvWait => t1.obj == t2.obj2
  | _, _ => false

/-- `Transition::dispatch_depends` -/
def depLabel (t1 t2 : Label) : Bool :=
  if t1.aid == t2.aid then true
  else if t1.kind.idx ≤ t2.kind.idx then depOrdered t1 t2 else depOrdered t2 t1

/-- injective on the labels met in the checks (all fields < 4096) -/
def labelRank (l : Label) : Nat :=
  (((((l.aid * 64 + l.kind.idx) * 4096 + l.obj) * 4096 + l.obj2) * 4096 + l.src) * 4096 + l.dst) * 4096 + l.tc

end SgVerif.McRef
