/- The reference semantics as a labelled transition system (shared by C38, C40, C41). Core-only. -/
import SgVerif.McRef.Model
import SgVerif.McRef.Trace
namespace SgVerif.McRef

/-- The reference semantics as an LTS over labels: a label is enabled when it is the label of the enabled transition
(issuer pid, times_considered) in that state. -/
def mcLTS : LTS State Label where
  enabled s l := match indexOfPid s l.aid with
    | some i => labelAt s i l.tc == some l
    | none => false
  exec s l := match indexOfPid s l.aid with
    | some i => step s i l.tc
    | none => s

end SgVerif.McRef
