/-
Line-protocol helpers shared by the drivers of C38, C40, C41 (core-only).
-/
import SgVerif.McRef.Parse
import SgVerif.Common.Proto
namespace SgVerif.McRef
open SgVerif.Proto

def b2s (b : Bool) : String := if b then "1" else "0"

/-- tokens of the form key=value -/
def kvs (key : String) (toks : List String) : List String :=
  toks.filterMap (fun t => if t.startsWith (key ++ "=") then some ((t.drop (key.length + 1)).toString) else none)

def kvNat (key : String) (toks : List String) : Option Nat :=
  match kvs key toks with
  | [v] => v.toNat?
  | _ => none

def sameSet (a b : List String) : Bool := a.all (b.contains ·) && b.all (a.contains ·)
def subSet (a b : List String) : Bool := a.all (b.contains ·)

def allowedRc (r : Result) : List Nat :=
  let l := (if r.assertFail then [1] else []) ++ (if r.deadlock then [2] else []) ++ (if r.crash then [4] else [])
  if l.isEmpty then [0] else l

def refLine (r : Result) : String :=
  s!"REF nexec={r.nexec} dl={b2s r.deadlock} af={b2s r.assertFail} crash={b2s r.crash} capped={b2s r.capped} exh={b2s r.exhausted}" ++
    String.join (r.outcomes.map (fun o => s!" o={o}"))

/-- Is the answer (rc, outcomes) of one checker run what `r` allows? -/
def runConforms (r : Result) (rc : Nat) (outs : List String) : Bool :=
  (allowedRc r).contains rc && (if rc = 0 then sameSet outs r.outcomes else subSet outs r.outcomes)

/-- `chk <cfg> <cap> <program…> => rc=<n> o=<outcome>… [nrc=<n> no=<outcome>…]`
MONFAIL: the reduced run differs from the unreduced run of the real checker (the property fails on the
implementation's own answers).  DISAGREE: the unreduced run differs from the reference LTS (suspect the model). -/
def judgeChk (q a : List String) : Verdict :=
  match q with
  | _cfg :: capS :: prog =>
    match capS.toNat?, parseProgram prog, kvNat "rc" a with
    | some cap, some p, some rc =>
      let r := explore p false cap
      if r.capped || r.exhausted then .bad else
      let outs := kvs "o" a
      match kvNat "nrc" a with
      | some nrc =>
        let nouts := kvs "no" a
        if !(runConforms r nrc nouts) then .disagree (refLine r)
        else if !(runConforms r rc outs) then .monfail s!"reduced run rc={rc} outs={outs} vs unreduced rc={nrc} outs={nouts}; reference {refLine r}"
        else .ok
      | none => if runConforms r rc outs then .ok else .disagree (refLine r)
    | _, _, _ => .bad
  | _ => .bad


/-- name of the observer of a transition kind as printed by `RecordTrace::replay` ("Path chunk" lines),
normalised by the check to the enum names. -/
def labelShort (l : Label) : String := s!"{l.aid}/{l.tc}:{kindName l.kind}"

/-- `path <kind> <pathstring> <program…> => <pid/tc:KIND>…`  (kind: deadlock | assert | end)
MONFAIL: the reported path is not an execution of the reference LTS, or it does not end in the reported kind of state.
DISAGREE: accepted, but the transition kinds executed by the real replay differ from the model's labels. -/
def judgePath (q a : List String) : Verdict :=
  match q with
  | kind :: pathS :: prog =>
    match parseProgram prog, parsePath (if pathS = "-" then "" else pathS) with
    | some p, some path =>
      match replay (initState p) path [] with
      | .error k => .monfail s!"path refused by the reference LTS at chunk {k}"
      | .ok (s, ls) =>
        let good :=
          if kind = "deadlock" then isDeadlock s
          else if kind = "assert" then s.err == 1 || (allDone s && p.forbid == some (outcome s))
          else if kind = "end" then allDone s
          else false
        if !good then .monfail s!"path accepted but the final state is not a {kind} state (err={s.err} deadlock={isDeadlock s} done={allDone s} outcome={outcome s})"
        else if a.isEmpty then .ok
        else cmpAns (ls.map labelShort) a
    | _, _ => .bad
  | _ => .bad


/-- Main loop shared by the drivers: `ref <cap> <program…>` lines are answered with the reference result (oracle),
every other line goes to `judge`. -/
partial def mainLoop (judge : List String → List String → Verdict) (h : IO.FS.Stream) (n : Nat) : IO Nat := do
  let line ← h.getLine
  if line.isEmpty then return n
  let l := line.trimAscii.toString
  if l.isEmpty then mainLoop judge h n else
  match splitQA l with
  | none => IO.println s!"BADLINE {l}"; mainLoop judge h (n+1)
  | some (q, a) =>
    match q with
    | "ref" :: capS :: prog =>
      match capS.toNat?, parseProgram prog with
      | some cap, some p => IO.println (refLine (explore p false cap))
      | _, _ => IO.println s!"BADLINE {l}"
    | _ =>
      match judge q a with
      | .ok => IO.println "ok"
      | .disagree m => IO.println s!"DISAGREE {" ".intercalate q} => model={m} impl={" ".intercalate a}"
      | .monfail r => IO.println s!"MONFAIL {" ".intercalate q} => {r}"
      | .bad => IO.println s!"BADLINE {l}"
    (← IO.getStdout).flush
    mainLoop judge h (n+1)

def driverMain (judge : List String → List String → Verdict) : IO Unit := do
  let n ← mainLoop judge (← IO.getStdin) 0
  IO.println s!"END {n}"

end SgVerif.McRef
