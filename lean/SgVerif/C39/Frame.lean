import SgVerif.C39.World
import SgVerif.C39.Commute
/-
C39 — the footprint argument: a transition reads only `rd t`, writes only `wr t`; two transitions none of which
writes what the other one reads or writes commute, and neither changes whether the other one can be fired.
-/
namespace SgVerif.C39.Full
open Sem

theorem wr_sub_rd (t : Base) (l : Loc) (h : l ∈ wr t) : l ∈ rd t := by
  simp only [wr, rd, List.mem_append] at *
  rcases h with h | h
  · exact Or.inl h
  · exact Or.inr (Or.inl h)

theorem tick_get (w : World) (a : Int) (l : Loc) (h : l ∉ own a) : (tick w a).get l = w.get l := by
  simp only [own, List.mem_cons, List.mem_nil_iff, or_false, not_or] at h
  cases l <;> simp_all [tick, World.get, upd]

set_option maxRecDepth 2000 in
theorem core_outside (w : World) (t : Base) (l : Loc) (h : l ∉ wr t) : (core w t).get l = w.get l := by
  cases hk : t.kind <;> simp [wr, own, objW, hk] at h <;> cases l <;>
    simp_all [core, World.get, upd, Sem.exec, isMutexKind, isSemKind, isBarKind, execMutex]

theorem exec_outside (w : World) (t : Base) (l : Loc) (h : l ∉ wr t) : (exec w t).get l = w.get l := by
  have h' : l ∉ own t.aid := fun hm => h (by simp [wr, hm])
  rw [exec, tick_get _ _ _ h', core_outside _ _ _ h]

set_option maxRecDepth 2000 in
theorem fireable_congr (w w' : World) (t : Base) (h : ∀ l ∈ rd t, w.get l = w'.get l) : fireable w t = fireable w' t := by
  cases hk : t.kind <;> simp [rd, own, objW, objR, hk, World.get] at h <;>
    simp [fireable, alive, enabled, wf, labelOk, Sem.enabled, Sem.wf, matched, hk, h]

set_option maxRecDepth 2000 in
theorem exec_inside (w w' : World) (t : Base) (h : ∀ l ∈ rd t, w.get l = w'.get l) :
    ∀ l ∈ wr t, (exec w t).get l = (exec w' t).get l := by
  cases hk : t.kind <;> simp [rd, own, objW, objR, hk, World.get] at h <;>
    simp [wr, own, objW, hk, exec, tick, core, World.get, upd, Sem.exec, isMutexKind, isSemKind, isBarKind, matched, h]

/-- `t2` writes nothing that `t1` reads or writes -/
def noWriteInto (t2 t1 : Base) : Prop := ∀ l ∈ wr t2, l ∉ rd t1

theorem agree_after (w : World) (t1 t2 : Base) (h : noWriteInto t2 t1) : ∀ l ∈ rd t1, (exec w t2).get l = w.get l :=
  fun l hl => exec_outside w t2 l (fun hm => h l hm hl)

/-- **Footprint theorem**: if neither transition writes a location the other one reads or writes, then firing one does
not change whether the other can be fired, and the two orders lead to the same state. -/
theorem disjoint_commute (w : World) (t1 t2 : Base) (h21 : noWriteInto t2 t1) (h12 : noWriteInto t1 t2) :
    fireable (exec w t1) t2 = fireable w t2 ∧ fireable (exec w t2) t1 = fireable w t1 ∧
    (exec (exec w t1) t2).equiv (exec (exec w t2) t1) := by
  refine ⟨fireable_congr _ _ _ (agree_after w t2 t1 h12), fireable_congr _ _ _ (agree_after w t1 t2 h21), ?_⟩
  intro l
  by_cases h1 : l ∈ wr t1
  · have h2 : l ∉ wr t2 := fun hm => h21 l hm (wr_sub_rd _ _ h1)
    rw [exec_outside _ t2 l h2]
    exact (exec_inside _ _ t1 (agree_after w t1 t2 h21) l h1).symm
  · by_cases h2 : l ∈ wr t2
    · rw [exec_outside _ t1 l h1]
      exact exec_inside _ _ t2 (agree_after w t2 t1 h12) l h2
    · rw [exec_outside _ t2 l h2, exec_outside _ t1 l h1, exec_outside _ t1 l h1, exec_outside _ t2 l h2]

end SgVerif.C39.Full
