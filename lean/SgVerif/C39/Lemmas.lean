import SgVerif.C39.Model
namespace SgVerif.C39

theorem Kind.toNat_inj (a b : Kind) (h : a.toNat = b.toNat) : a = b := by
  cases a <;> cases b <;> first | rfl | (exfalso; revert h; decide)

theorem ibeq_comm (a b : Int) : (a == b) = (b == a) := by
  rw [Bool.eq_iff_iff]; simp only [beq_iff_eq]; exact eq_comm

/-- `BarrierTransition::depends` is symmetric on two transitions of the same kind (the diagonal cell
BARRIER_ASYNC_LOCK × BARRIER_ASYNC_LOCK selects it since the LOCK/LOCK repair).  It is NOT symmetric on arbitrary
operands (only `o` is tested for being a barrier transition), hence the hypothesis. -/
theorem barrierDepends_symm_of_kind_eq (u1 u2 : Base) (h : u1.kind = u2.kind) :
    barrierDepends u1 u2 = barrierDepends u2 u1 := by
  unfold barrierDepends
  rw [h]
  by_cases hb : u1.bar = u2.bar
  · simp [hb]
  · have hb' : ¬ u2.bar = u1.bar := fun e => hb e.symm
    simp [hb, hb']

/-- every arm that can be selected on the diagonal of the table is symmetric in its two operands (of that kind) -/
theorem evalAction_diag_symm (k : Kind) (u1 u2 : Base) (h1 : u1.kind = k) (h2 : u2.kind = k) :
    evalAction (lut k k) u1 u2 = evalAction (lut k k) u2 u1 := by
  have hk : u1.kind = u2.kind := h1.trans h2.symm
  cases k <;> simp only [lut, lutRow_RANDOM, lutRow_ACTOR_JOIN, lutRow_ACTOR_SLEEP, lutRow_ACTOR_CREATE,
    lutRow_ACTOR_EXIT, lutRow_TESTANY, lutRow_WAITANY, lutRow_BARRIER_ASYNC_LOCK, lutRow_BARRIER_WAIT,
    lutRow_COMM_ASYNC_RECV, lutRow_COMM_ASYNC_SEND, lutRow_COMM_IPROBE, lutRow_COMM_TEST, lutRow_COMM_WAIT,
    lutRow_MUTEX_ASYNC_LOCK, lutRow_MUTEX_TEST, lutRow_MUTEX_TRYLOCK, lutRow_MUTEX_UNLOCK, lutRow_MUTEX_WAIT,
    lutRow_MUTEX_LOCK_NOMC, lutRow_SEM_ASYNC_LOCK, lutRow_SEM_UNLOCK, lutRow_SEM_WAIT, lutRow_SEM_LOCK_NOMC,
    lutRow_CONDVAR_ASYNC_LOCK, lutRow_CONDVAR_BROADCAST, lutRow_CONDVAR_SIGNAL, lutRow_CONDVAR_WAIT,
    lutRow_CONDVAR_NOMC, lutRow_UNKNOWN, evalAction, baseVirtualDepends]
  all_goals first
    | rfl
    | (congr 1; first | exact ibeq_comm _ _ | exact Bool.or_comm _ _ | exact barrierDepends_symm_of_kind_eq _ _ hk)

theorem dependsBase_symm (u1 u2 : Base) : dependsBase u1 u2 = dependsBase u2 u1 := by
  unfold dependsBase
  by_cases h1 : u2.kind.toNat < u1.kind.toNat
  · have h2 : ¬ u1.kind.toNat < u2.kind.toNat := by omega
    simp [h1, h2]
  · by_cases h2 : u1.kind.toNat < u2.kind.toNat
    · simp [h1, h2]
    · have : u1.kind = u2.kind := Kind.toNat_inj _ _ (by omega)
      simp only [h1, h2, if_false]
      rw [this]
      exact evalAction_diag_symm _ _ _ this rfl

end SgVerif.C39
