import SgVerif.C39.Tags
/-
C39 — actor group: ACTOR_JOIN and ACTOR_CREATE against every kind.  Whenever their footprints meet the footprint of the
other transition, the two are not co-enabled (a joined actor is dead, a created actor does not exist yet), whatever the
table says; otherwise the footprint theorem applies.  ACTOR_CREATE × ACTOR_CREATE (both draw `maxpid_`) is declared
dependent by the table.
-/
set_option linter.unusedSimpArgs false
namespace SgVerif.C39.Full
open Sem

theorem ne_of_bool {f : Int → Bool} {a b : Int} (h1 : f a = true) (h2 : f b = false) : a ≠ b := by
  intro e; rw [e, h2] at h1; cases h1

theorem fire_alive {w : World} {t : Base} (f : fireable w t = true) : w.ex t.aid = true ∧ w.sync.dead t.aid = false := by
  simp [fireable, alive] at f
  exact ⟨f.1.1.1.1, f.1.1.1.2⟩

theorem fire_join {w : World} {t : Base} (hk : t.kind = .ACTOR_JOIN) (f : fireable w t = true) :
    w.sync.dead t.target = true ∧ w.ex t.target = true := by
  simp [fireable, enabled, labelOk, Sem.enabled, hk] at f
  exact ⟨f.1.1.2, f.2⟩

theorem fire_create {w : World} {t : Base} (hk : t.kind = .ACTOR_CREATE) (f : fireable w t = true) :
    w.ex t.child = false := by
  simp [fireable, labelOk, hk] at f
  exact f.2.2

set_option maxRecDepth 4000 in
theorem join_left (w : World) (t1 t2 : Base) (hk : t1.kind = .ACTOR_JOIN) (ha : t1.aid ≠ t2.aid)
    (f1 : fireable w t1 = true) (f2 : fireable w t2 = true) : Commute w t1 t2 := by
  have ha' : t2.aid ≠ t1.aid := fun e => ha e.symm
  obtain ⟨e1, d1⟩ := fire_alive f1
  obtain ⟨e2, d2⟩ := fire_alive f2
  obtain ⟨jd, je⟩ := fire_join hk f1
  have hne : t1.target ≠ t2.aid := ne_of_bool jd d2
  have hne' : t2.aid ≠ t1.target := fun e => hne e.symm
  apply commute_of_noWrite w t1 t2 f1 f2
  by_cases hc : t2.kind = .ACTOR_CREATE
  · have ce := fire_create hc f2
    have c1 : t1.target ≠ t2.child := ne_of_bool je ce
    have c2 : t1.aid ≠ t2.child := ne_of_bool e1 ce
    have c1' : t2.child ≠ t1.target := fun e => c1 e.symm
    have c2' : t2.child ≠ t1.aid := fun e => c2 e.symm
    simp [noWriteInto, wr, rd, own, objW, objR, hk, hc, ha, ha', hne, hne', c1, c2, c1', c2']
  · by_cases hj : t2.kind = .ACTOR_JOIN
    · obtain ⟨jd2, _⟩ := fire_join hj f2
      have c1 : t2.target ≠ t1.aid := ne_of_bool jd2 d1
      have c1' : t1.aid ≠ t2.target := fun e => c1 e.symm
      simp [noWriteInto, wr, rd, own, objW, objR, hk, hj, ha, ha', hne, hne', c1, c1']
    · cases hk2 : t2.kind <;> simp [hk2] at hc hj <;>
        simp [noWriteInto, wr, rd, own, objW, objR, hk, hk2, ha, ha', hne, hne']

set_option maxRecDepth 4000 in
theorem create_left (w : World) (t1 t2 : Base) (hk : t1.kind = .ACTOR_CREATE) (ha : t1.aid ≠ t2.aid)
    (f1 : fireable w t1 = true) (f2 : fireable w t2 = true) (hk2 : t2.kind ≠ .ACTOR_CREATE) : Commute w t1 t2 := by
  by_cases hj : t2.kind = .ACTOR_JOIN
  · exact (join_left w t2 t1 hj (fun e => ha e.symm) f2 f1).symm
  · have ha' : t2.aid ≠ t1.aid := fun e => ha e.symm
    obtain ⟨e2, _⟩ := fire_alive f2
    have ce := fire_create hk f1
    have c1 : t2.aid ≠ t1.child := ne_of_bool e2 ce
    have c1' : t1.child ≠ t2.aid := fun e => c1 e.symm
    apply commute_of_noWrite w t1 t2 f1 f2
    cases h2 : t2.kind <;> simp [h2] at hk2 hj <;>
      simp [noWriteInto, wr, rd, own, objW, objR, hk, h2, ha, ha', c1, c1']

end SgVerif.C39.Full
