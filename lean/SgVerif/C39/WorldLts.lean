import SgVerif.C39.Assembly
import SgVerif.McRef.Trace
/-
C39 / C38 — the World as a labelled transition system (`McRef.LTS`) and the commutation hypothesis `LTS.Commutes` of C38
discharged on it.
-/
set_option linter.unusedSimpArgs false
namespace SgVerif.C39.Full
open Sem SgVerif.McRef

theorem World.eq_of_equiv {w1 w2 : World} (h : w1.equiv w2) : w1 = w2 := by
  obtain ⟨⟨m1, s1, b1, r1, d1⟩, cw1, cg1, sd1, rc1, e1, l1, n1⟩ := w1
  obtain ⟨⟨m2, s2, b2, r2, d2⟩, cw2, cg2, sd2, rc2, e2, l2, n2⟩ := w2
  have hm : m1 = m2 := funext fun i => by simpa [World.get] using h (.mutex i)
  have hs : s1 = s2 := funext fun i => by simpa [World.get] using h (.sem i)
  have hb : b1 = b2 := funext fun i => by simpa [World.get] using h (.bar i)
  have hr : r1 = r2 := funext fun i => by simpa [World.get] using h (.ret i)
  have hd : d1 = d2 := funext fun i => by simpa [World.get] using h (.dead i)
  have hcw : cw1 = cw2 := funext fun i => by simpa [World.get] using h (.cvW i)
  have hcg : cg1 = cg2 := funext fun i => by simpa [World.get] using h (.cvG i)
  have hsd : sd1 = sd2 := funext fun i => by simpa [World.get] using h (.sends i)
  have hrc : rc1 = rc2 := funext fun i => by simpa [World.get] using h (.recvs i)
  have he : e1 = e2 := funext fun i => by simpa [World.get] using h (.ex i)
  have hl : l1 = l2 := funext fun i => by simpa [World.get] using h (.left i)
  have hn : n1 = n2 := by simpa [World.get] using h .nextPid
  subst hm hs hb hr hd hcw hcg hsd hrc he hl hn
  rfl

/-- the World with the labels of the checker as an LTS: a label is enabled when it can be fired -/
def worldLTS : LTS World Base where
  enabled := fireable
  exec := exec

/-- the dependency relation restricted to what the footprint argument alone justifies: two transitions are independent
when they belong to different actors, none is an ACTOR_JOIN / ACTOR_CREATE and their kinds are tag-disjoint (cross-group
pairs, and pairs of one group none of which writes: TEST × TEST, …).  Everything else is dependent. -/
def crossDep (t1 t2 : Base) : Bool := t1.aid == t2.aid || !tagDisj t1.kind t2.kind

theorem tagDisj_symm (k1 k2 : Kind) : tagDisj k1 k2 = tagDisj k2 k1 := by
  cases k1 <;> cases k2 <;> rfl

/-- **`LTS.Commutes` holds on the World for the cross-group relation**: symmetric, independent transitions neither
enable nor disable each other (labels included), and commute — in EVERY state, no invariant needed. -/
theorem world_commutes_cross : LTS.Commutes worldLTS crossDep where
  sym := by
    intro x y
    unfold crossDep
    rw [tagDisj_symm x.kind y.kind, ibeq_comm x.aid y.aid]
  persist := by
    intro s x y h _
    simp only [crossDep, Bool.or_eq_false_iff, beq_eq_false_iff_ne, Bool.not_eq_false'] at h
    obtain ⟨h1, h2⟩ := tag_noWrite x y h.1 h.2
    exact (disjoint_commute s x y h1 h2).1
  comm := by
    intro s x y h _ _
    simp only [crossDep, Bool.or_eq_false_iff, beq_eq_false_iff_ne, Bool.not_eq_false'] at h
    obtain ⟨h1, h2⟩ := tag_noWrite x y h.1 h.2
    exact World.eq_of_equiv (disjoint_commute s x y h1 h2).2.2

/-- the part of `LTS.Commutes` that holds for the WHOLE table (minus `calPair`): co-enabled, declared-independent
transitions do not disable each other and commute to EQUAL states.  What is missing for `Commutes worldLTS depends` is
"does not enable" inside the families (and it is false for the cells RANDOM / ACTOR_CREATE × ACTOR_JOIN on their actor). -/
theorem world_indep_comm (w : World) (t1 t2 : Base) (hinv : w.inv) (ha : t1.aid ≠ t2.aid)
    (f1 : worldLTS.enabled w t1 = true) (f2 : worldLTS.enabled w t2 = true)
    (hd : depends (.base t1) (.base t2) = some false) (hx : calPair t1 t2 = false) :
    worldLTS.enabled (worldLTS.exec w t1) t2 = true ∧ worldLTS.enabled (worldLTS.exec w t2) t1 = true ∧
    worldLTS.exec (worldLTS.exec w t1) t2 = worldLTS.exec (worldLTS.exec w t2) t1 := by
  obtain ⟨c1, c2, c3⟩ := indep_commute_aux w t1 t2 hinv ha f1 f2 hd hx
  exact ⟨c1, c2, World.eq_of_equiv c3⟩

end SgVerif.C39.Full
