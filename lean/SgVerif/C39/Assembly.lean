import SgVerif.C39.ActorGroup
import SgVerif.C39.CvGroup
/-
C39 — assembly of `indep_commute` over ALL pairs of kinds: actor rows (never co-enabled where footprints meet),
cross-group pairs (tags), and the five families (mutex, semaphore, barrier, lock family with condvars, comm).
-/
set_option linter.unusedSimpArgs false
namespace SgVerif.C39.Full
open Sem

def isActorKind (k : Kind) : Bool := k == .ACTOR_JOIN || k == .ACTOR_CREATE

/-- two kinds of one family (their shared locations can coincide) -/
def fam (k1 k2 : Kind) : Bool :=
  (isMutexKind k1 && isMutexKind k2) || (isSemKind k1 && isSemKind k2) || (isBarKind k1 && isBarKind k2) ||
  (isLockKind k1 && isLockKind k2 && (isCvKind k1 || isCvKind k2)) || (isCommKind k1 && isCommKind k2)

/-- finite table (900 cells): every pair of kinds is an actor row, a cross-group pair or a family pair -/
theorem family_table (k1 k2 : Kind) : (isActorKind k1 || isActorKind k2 || tagDisj k1 k2 || fam k1 k2) = true := by
  cases k1 <;> cases k2 <;> rfl

theorem create_create_dep (t1 t2 : Base) (h1 : t1.kind = .ACTOR_CREATE) (h2 : t2.kind = .ACTOR_CREATE) (ha : t1.aid ≠ t2.aid) :
    depends (.base t1) (.base t2) = some true := by
  rw [depends_base _ _ ha]
  simp [dependsBase, h1, h2, Kind.toNat, lut, lutRow_ACTOR_CREATE, evalAction]

theorem indep_commute_aux (w : World) (t1 t2 : Base) (hinv : w.inv) (ha : t1.aid ≠ t2.aid)
    (f1 : fireable w t1 = true) (f2 : fireable w t2 = true)
    (hd : depends (.base t1) (.base t2) = some false) (hx : calPair t1 t2 = false) : Commute w t1 t2 := by
  have ha' : t2.aid ≠ t1.aid := fun e => ha e.symm
  by_cases j1 : t1.kind = .ACTOR_JOIN
  · exact join_left w t1 t2 j1 ha f1 f2
  by_cases j2 : t2.kind = .ACTOR_JOIN
  · exact (join_left w t2 t1 j2 ha' f2 f1).symm
  by_cases c1 : t1.kind = .ACTOR_CREATE
  · by_cases c2 : t2.kind = .ACTOR_CREATE
    · rw [create_create_dep t1 t2 c1 c2 ha] at hd; cases hd
    · exact create_left w t1 t2 c1 ha f1 f2 c2
  by_cases c2 : t2.kind = .ACTOR_CREATE
  · exact (create_left w t2 t1 c2 ha' f2 f1 c1).symm
  have hact1 : isActorKind t1.kind = false := by simp [isActorKind, j1, c1]
  have hact2 : isActorKind t2.kind = false := by simp [isActorKind, j2, c2]
  have ht := family_table t1.kind t2.kind
  rw [hact1, hact2, Bool.false_or, Bool.false_or, Bool.or_eq_true] at ht
  rcases ht with ht | ht
  · exact commute_of_noWrite w t1 t2 f1 f2 (tag_noWrite t1 t2 ha ht)
  · simp only [fam, Bool.or_eq_true, Bool.and_eq_true] at ht
    rcases ht with (((hm | hs) | hb) | hl) | hcm
    · exact mutex_group w t1 t2 hm.1 hm.2 ha f1 f2 hd
    · exact sem_group w t1 t2 hs.1 hs.2 ha hinv f1 f2 hd
    · exact bar_group w t1 t2 hb.1 hb.2 ha f1 f2 hd
    · exact cv_group w t1 t2 hl.1.1 hl.1.2 hl.2 ha f1 f2 hd hx
    · exact comm_group w t1 t2 hcm.1 hcm.2 ha f1 f2 hd

/-- every transition preserves the World invariant -/
theorem inv_preserved (w : World) (t : Base) (hinv : w.inv) : (exec w t).inv := by
  intro m
  by_cases hs : isSemKind t.kind = true
  · have k : syncK t.kind = true := by simp [syncK, hs]
    rw [exec_sync _ _ k]
    exact sem_inv_preserved_all_aux w.sync t hs hinv m
  · have : (exec w t).sync.sem m = w.sync.sem m := by
      have := exec_outside w t (.sem m) (by
        cases hk : t.kind <;> simp [isSemKind, hk] at hs <;> simp [wr, own, objW, hk])
      simpa [World.get] using this
    rw [this]; exact hinv m

end SgVerif.C39.Full
