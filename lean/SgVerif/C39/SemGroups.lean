import SgVerif.C39.Commute
/-
C39 — proofs of the group theorems on `Sem.State` (stated in Props.lean as `indep_commute_mutex/_sem/_bar`); kept here
so that the World-level development (SyncGroup.lean) can use them.
-/
namespace SgVerif.C39
open Sem

theorem indep_commute_mutex_aux (s : State) (t1 t2 : Base)
    (h1 : isMutexKind t1.kind = true) (h2 : isMutexKind t2.kind = true) (ha : t1.aid ≠ t2.aid)
    (e1 : enabled s t1 = true) (e2 : enabled s t2 = true) (w1 : wf s t1 = true) (w2 : wf s t2 = true)
    (hd : depends (.base t1) (.base t2) = some false) :
    enabled (exec s t1) t2 = true ∧ enabled (exec s t2) t1 = true ∧
    wf (exec s t1) t2 = true ∧ wf (exec s t2) t1 = true ∧
    (exec (exec s t1) t2).equiv (exec (exec s t2) t1) := by
  have ha' : t2.aid ≠ t1.aid := fun e => ha e.symm
  rw [enabled_mutex _ _ h1] at e1
  rw [enabled_mutex _ _ h2] at e2
  rw [wf_mutex _ _ h1] at w1
  rw [wf_mutex _ _ h2] at w2
  rw [enabled_mutex _ _ h2, enabled_mutex _ _ h1, wf_mutex _ _ h2, wf_mutex _ _ h1]
  by_cases hm : t1.mutex = t2.mutex
  · have hi := mutexIndepSame_of_depends t1 t2 h1 h2 ha hm hd
    rw [hm] at e1 w1
    obtain ⟨c1, c2, c3, c4, c5, c6, c7⟩ := mutex_obj_commute (s.mutex t2.mutex) t1.kind t2.kind t1.aid t2.aid ha h1 h2 hi e1 e2 w1 w2
    simp only [exec_mutex _ _ h1, exec_mutex _ _ h2, hm, upd_same]
    refine ⟨c1, c2, c3, c4, ?_, fun _ => rfl, fun _ => rfl, ?_, fun _ => rfl⟩
    · intro m
      by_cases hx : m = t2.mutex <;> simp [upd, hx, c5]
    · intro a
      by_cases hx1 : a = t1.aid <;> by_cases hx2 : a = t2.aid <;> simp [upd, hx1, hx2, ha, ha', c6, c7]
  · have hm' : ¬ t2.mutex = t1.mutex := fun e => hm e.symm
    simp only [exec_mutex _ _ h1, exec_mutex _ _ h2, upd_other _ _ _ _ hm, upd_other _ _ _ _ hm']
    refine ⟨e2, e1, w2, w1, ?_, fun _ => rfl, fun _ => rfl, ?_, fun _ => rfl⟩
    · intro m
      by_cases hx1 : m = t1.mutex <;> by_cases hx2 : m = t2.mutex <;> simp [upd, hx1, hx2, hm, hm']
    · intro a
      by_cases hx1 : a = t1.aid <;> by_cases hx2 : a = t2.aid <;> simp [upd, hx1, hx2, ha, ha']

theorem indep_commute_sem_aux (s : State) (t1 t2 : Base)
    (h1 : isSemKind t1.kind = true) (h2 : isSemKind t2.kind = true) (ha : t1.aid ≠ t2.aid)
    (hinv : ∀ m, (s.sem m).inv)
    (e1 : enabled s t1 = true) (e2 : enabled s t2 = true)
    (hd : depends (.base t1) (.base t2) = some false) :
    enabled (exec s t1) t2 = true ∧ enabled (exec s t2) t1 = true ∧
    (exec (exec s t1) t2).equiv (exec (exec s t2) t1) := by
  rw [enabled_sem _ _ h1] at e1
  rw [enabled_sem _ _ h2] at e2
  rw [enabled_sem _ _ h2, enabled_sem _ _ h1]
  by_cases hm : t1.sem = t2.sem
  · have hi := semIndepSame_of_depends t1 t2 h1 h2 ha hm hd
    rw [hm] at e1
    obtain ⟨c1, c2, c3⟩ := sem_obj_commute (s.sem t2.sem) t1.kind t2.kind t1.aid t2.aid ha h1 h2 hi (hinv _) e1 e2
    simp only [exec_sem _ _ h1, exec_sem _ _ h2, hm, upd_same]
    refine ⟨c1, c2, fun _ => rfl, ?_, fun _ => rfl, fun _ => rfl, fun _ => rfl⟩
    intro m
    by_cases hx : m = t2.sem <;> simp [upd, hx, c3]
  · have hm' : ¬ t2.sem = t1.sem := fun e => hm e.symm
    simp only [exec_sem _ _ h1, exec_sem _ _ h2, upd_other _ _ _ _ hm, upd_other _ _ _ _ hm']
    refine ⟨e2, e1, fun _ => rfl, ?_, fun _ => rfl, fun _ => rfl, fun _ => rfl⟩
    intro m
    by_cases hx1 : m = t1.sem <;> by_cases hx2 : m = t2.sem <;> simp [upd, hx1, hx2, hm, hm']

theorem indep_commute_bar_aux (s : State) (t1 t2 : Base)
    (h1 : isBarKind t1.kind = true) (h2 : isBarKind t2.kind = true) (ha : t1.aid ≠ t2.aid)
    (e1 : enabled s t1 = true) (e2 : enabled s t2 = true)
    (hd : depends (.base t1) (.base t2) = some false) :
    enabled (exec s t1) t2 = true ∧ enabled (exec s t2) t1 = true ∧
    (exec (exec s t1) t2).equiv (exec (exec s t2) t1) := by
  rw [enabled_bar _ _ h1] at e1
  rw [enabled_bar _ _ h2] at e2
  rw [enabled_bar _ _ h2, enabled_bar _ _ h1]
  by_cases hm : t1.bar = t2.bar
  · have hi := barIndepSame_of_depends t1 t2 h1 h2 ha hm hd
    rw [hm] at e1
    obtain ⟨c1, c2, c3⟩ := bar_obj_commute (s.bar t2.bar) t1.kind t2.kind t1.aid t2.aid ha h1 h2 hi e1 e2
    simp only [exec_bar _ _ h1, exec_bar _ _ h2, hm, upd_same]
    refine ⟨c1, c2, fun _ => rfl, fun _ => rfl, ?_, fun _ => rfl, fun _ => rfl⟩
    intro m
    by_cases hx : m = t2.bar <;> simp [upd, hx, c3]
  · have hm' : ¬ t2.bar = t1.bar := fun e => hm e.symm
    simp only [exec_bar _ _ h1, exec_bar _ _ h2, upd_other _ _ _ _ hm, upd_other _ _ _ _ hm']
    refine ⟨e2, e1, fun _ => rfl, fun _ => rfl, ?_, fun _ => rfl, fun _ => rfl⟩
    intro m
    by_cases hx1 : m = t1.bar <;> by_cases hx2 : m = t2.bar <;> simp [upd, hx1, hx2, hm, hm']

theorem sem_inv_preserved_all_aux (s : State) (t : Base) (h : isSemKind t.kind = true) (hinv : ∀ m, (s.sem m).inv) :
    ∀ m, ((exec s t).sem m).inv := by
  intro m
  rw [exec_sem _ _ h]
  by_cases hx : m = t.sem
  · simp only [hx, upd_same]; exact sem_inv_preserved _ _ _ (hinv _)
  · simp only [upd_other _ _ _ _ hx]; exact hinv m

end SgVerif.C39
