import SgVerif.C39.Tags
/-
C39 — communication group (COMM_ASYNC_SEND / RECV, COMM_TEST, COMM_WAIT, COMM_IPROBE) on mailboxes with unbounded
queues.  A send (receive) only appends to the list of sends (receives) of its mailbox; it changes the outcome of a test
/ the enabledness of a wait on comm (mailbox, n) only when it IS the n-th send (receive) of that mailbox.
-/
set_option linter.unusedSimpArgs false
namespace SgVerif.C39.Full
open Sem

theorem depends_base (t1 t2 : Base) (ha : t1.aid ≠ t2.aid) : depends (.base t1) (.base t2) = dependsBase t1 t2 := by
  simp [depends, Tr.aid, Tr.current, ha]

/-- unfolds `dependsBase` on two transitions of known kinds -/
macro "dep_simp" "at" h:ident : tactic => `(tactic|
  simp [dependsBase, Kind.toNat, lut, lutRow_RANDOM, lutRow_ACTOR_JOIN, lutRow_ACTOR_SLEEP, lutRow_ACTOR_CREATE,
    lutRow_ACTOR_EXIT, lutRow_TESTANY, lutRow_WAITANY, lutRow_BARRIER_ASYNC_LOCK, lutRow_BARRIER_WAIT,
    lutRow_COMM_ASYNC_RECV, lutRow_COMM_ASYNC_SEND, lutRow_COMM_IPROBE, lutRow_COMM_TEST, lutRow_COMM_WAIT,
    lutRow_MUTEX_ASYNC_LOCK, lutRow_MUTEX_TEST, lutRow_MUTEX_TRYLOCK, lutRow_MUTEX_UNLOCK, lutRow_MUTEX_WAIT,
    lutRow_MUTEX_LOCK_NOMC, lutRow_SEM_ASYNC_LOCK, lutRow_SEM_UNLOCK, lutRow_SEM_WAIT, lutRow_SEM_LOCK_NOMC,
    lutRow_CONDVAR_ASYNC_LOCK, lutRow_CONDVAR_BROADCAST, lutRow_CONDVAR_SIGNAL, lutRow_CONDVAR_WAIT,
    lutRow_CONDVAR_NOMC, lutRow_UNKNOWN, evalAction, baseVirtualDepends, barrierDepends, *] at $h:ident)

theorem sideOk_append (l : List Int) (n : Nat) (v a : Int) (h : n < l.length) : sideOk (l ++ [a]) n v = sideOk l n v := by
  simp [sideOk, List.getElem?_append_left h]

theorem sideOk_lt (l : List Int) (n : Nat) (v : Int) (h : sideOk l n v = true) (hv : v ≠ -1) : n < l.length := by
  unfold sideOk at h
  cases hl : l[n]? with
  | none => simp [hl] at h; exact absurd h hv
  | some a => exact (List.getElem?_eq_some_iff.mp hl).1

def isCommWriter (k : Kind) : Bool := k == .COMM_ASYNC_SEND || k == .COMM_ASYNC_RECV
def isCommReader (k : Kind) : Bool := k == .COMM_TEST || k == .COMM_WAIT

/-- a send / receive against a test / wait on the same mailbox whose tested comm already has the side that `t1` adds -/
theorem comm_writer_reader (w : World) (t1 t2 : Base) (h1 : isCommWriter t1.kind = true) (h2 : isCommReader t2.kind = true)
    (ha : t1.aid ≠ t2.aid) (hm : t1.mbox = t2.mbox) (f1 : fireable w t1 = true) (f2 : fireable w t2 = true)
    (hs : t1.kind = .COMM_ASYNC_SEND → t2.comm.toNat < (w.sends t2.mbox).length)
    (hr : t1.kind = .COMM_ASYNC_RECV → t2.comm.toNat < (w.recvs t2.mbox).length) : Commute w t1 t2 := by
  have ha' : t2.aid ≠ t1.aid := fun e => ha e.symm
  cases hk1 : t1.kind <;> simp [isCommWriter, hk1] at h1 <;> cases hk2 : t2.kind <;> simp [isCommReader, hk2] at h2
  all_goals
    first
      | have hx := hs hk1
      | have hx := hr hk1
  all_goals
    simp [fireable, alive, enabled, wf, labelOk, Sem.enabled, Sem.wf, hk1, hk2, matched] at f1 f2
  all_goals
    refine ⟨?_, ?_, ?_⟩
  all_goals
    first
      | (simp [fireable, alive, enabled, wf, labelOk, Sem.enabled, Sem.wf, exec, tick, core, hk1, hk2, matched, upd, hm, ha, ha',
          sideOk_append _ _ _ _ hx, f1, f2, Nat.lt_succ_of_lt hx]; done)
      | (intro l
         cases l <;> simp [World.get, exec, tick, core, hk1, hk2, matched, upd, hm, ha, ha', Nat.lt_succ_of_lt hx,
           List.getElem?_append_left hx] <;>
         (rename_i a; by_cases e1 : a = t1.aid <;> by_cases e2 : a = t2.aid <;> simp_all [upd]))

def isCommKind (k : Kind) : Bool :=
  k == .COMM_ASYNC_SEND || k == .COMM_ASYNC_RECV || k == .COMM_TEST || k == .COMM_WAIT || k == .COMM_IPROBE

theorem fire_test {w : World} {t : Base} (hk : t.kind = .COMM_TEST) (f : fireable w t = true) :
    sideOk (w.sends t.mbox) t.comm.toNat t.sender = true ∧ sideOk (w.recvs t.mbox) t.comm.toNat t.receiver = true := by
  simp [fireable, labelOk, hk] at f
  exact ⟨f.2.1.2, f.2.2⟩

theorem fire_wait {w : World} {t : Base} (hk : t.kind = .COMM_WAIT) (f : fireable w t = true) :
    t.comm.toNat < (w.sends t.mbox).length ∧ t.comm.toNat < (w.recvs t.mbox).length := by
  simp [fireable, enabled, matched, hk] at f
  exact f.1.1.2

set_option maxRecDepth 4000 in
/-- **Communication group**: every pair of comm transitions of different actors that the table declares independent. -/
theorem comm_group (w : World) (t1 t2 : Base) (h1 : isCommKind t1.kind = true) (h2 : isCommKind t2.kind = true)
    (ha : t1.aid ≠ t2.aid) (f1 : fireable w t1 = true) (f2 : fireable w t2 = true)
    (hd : depends (.base t1) (.base t2) = some false) : Commute w t1 t2 := by
  have ha' : t2.aid ≠ t1.aid := fun e => ha e.symm
  rw [depends_base _ _ ha] at hd
  by_cases hm : t1.mbox = t2.mbox
  · cases hk1 : t1.kind <;> simp [isCommKind, hk1] at h1 <;> cases hk2 : t2.kind <;> simp [isCommKind, hk2] at h2
    case COMM_ASYNC_RECV.COMM_TEST =>
      dep_simp at hd
      have hv : t2.receiver ≠ -1 := by intro e; simp [e] at hd
      exact comm_writer_reader w t1 t2 (by simp [isCommWriter, hk1]) (by simp [isCommReader, hk2]) ha hm f1 f2
        (by simp [hk1]) (fun _ => sideOk_lt _ _ _ (fire_test hk2 f2).2 hv)
    case COMM_ASYNC_SEND.COMM_TEST =>
      dep_simp at hd
      have hv : t2.sender ≠ -1 := by intro e; simp [e] at hd
      exact comm_writer_reader w t1 t2 (by simp [isCommWriter, hk1]) (by simp [isCommReader, hk2]) ha hm f1 f2
        (fun _ => sideOk_lt _ _ _ (fire_test hk2 f2).1 hv) (by simp [hk1])
    case COMM_TEST.COMM_ASYNC_RECV =>
      dep_simp at hd
      have hv : t1.receiver ≠ -1 := by intro e; simp [e] at hd
      exact (comm_writer_reader w t2 t1 (by simp [isCommWriter, hk2]) (by simp [isCommReader, hk1]) ha' hm.symm f2 f1
        (by simp [hk2]) (fun _ => sideOk_lt _ _ _ (fire_test hk1 f1).2 hv)).symm
    case COMM_TEST.COMM_ASYNC_SEND =>
      dep_simp at hd
      have hv : t1.sender ≠ -1 := by intro e; simp [e] at hd
      exact (comm_writer_reader w t2 t1 (by simp [isCommWriter, hk2]) (by simp [isCommReader, hk1]) ha' hm.symm f2 f1
        (fun _ => sideOk_lt _ _ _ (fire_test hk1 f1).1 hv) (by simp [hk2])).symm
    case COMM_ASYNC_RECV.COMM_WAIT =>
      exact comm_writer_reader w t1 t2 (by simp [isCommWriter, hk1]) (by simp [isCommReader, hk2]) ha hm f1 f2
        (by simp [hk1]) (fun _ => (fire_wait hk2 f2).2)
    case COMM_ASYNC_SEND.COMM_WAIT =>
      exact comm_writer_reader w t1 t2 (by simp [isCommWriter, hk1]) (by simp [isCommReader, hk2]) ha hm f1 f2
        (fun _ => (fire_wait hk2 f2).1) (by simp [hk1])
    case COMM_WAIT.COMM_ASYNC_RECV =>
      exact (comm_writer_reader w t2 t1 (by simp [isCommWriter, hk2]) (by simp [isCommReader, hk1]) ha' hm.symm f2 f1
        (by simp [hk2]) (fun _ => (fire_wait hk1 f1).2)).symm
    case COMM_WAIT.COMM_ASYNC_SEND =>
      exact (comm_writer_reader w t2 t1 (by simp [isCommWriter, hk2]) (by simp [isCommReader, hk1]) ha' hm.symm f2 f1
        (fun _ => (fire_wait hk1 f1).1) (by simp [hk2])).symm
    all_goals
      first
        | (exfalso; dep_simp at hd; done)
        | exact commute_of_noWrite w t1 t2 f1 f2 (by simp [noWriteInto, wr, rd, own, objW, objR, hk1, hk2, ha, ha'])
  · have hm' : ¬ t2.mbox = t1.mbox := fun e => hm e.symm
    apply commute_of_noWrite w t1 t2 f1 f2
    cases hk1 : t1.kind <;> simp [isCommKind, hk1] at h1 <;> cases hk2 : t2.kind <;> simp [isCommKind, hk2] at h2 <;>
      simp [noWriteInto, wr, rd, own, objW, objR, hk1, hk2, ha, ha', hm, hm']

end SgVerif.C39.Full
