import SgVerif.C39.Lemmas
namespace SgVerif.C39
open Sem

theorem upd_same {β : Type} (f : Int → β) (k : Int) (v : β) : upd f k v k = v := by simp [upd]
theorem upd_other {β : Type} (f : Int → β) (k x : Int) (v : β) (h : x ≠ k) : upd f k v x = f x := by simp [upd, h]

/-- pairs of mutex kinds the table declares independent even on the same mutex -/
def mutexIndepSame (k1 k2 : Kind) : Bool :=
  dependsBase { kind := k1, aid := 1, mutex := 0 } { kind := k2, aid := 2, mutex := 0 } == some false

def menabled (st : MutexSt) (k : Kind) (a : Int) : Bool := (k != .MUTEX_WAIT) || st.owner == some a
def mwf (st : MutexSt) (k : Kind) (a : Int) : Bool := (k != .MUTEX_UNLOCK) || st.owner == some a

theorem mutex_obj_commute (st : MutexSt) (k1 k2 : Kind) (a1 a2 : Int) (ha : a1 ≠ a2)
    (h1 : isMutexKind k1 = true) (h2 : isMutexKind k2 = true) (hi : mutexIndepSame k1 k2 = true)
    (e1 : menabled st k1 a1 = true) (e2 : menabled st k2 a2 = true)
    (w1 : mwf st k1 a1 = true) (w2 : mwf st k2 a2 = true) :
    menabled (execMutex st k1 a1).1 k2 a2 = true ∧ menabled (execMutex st k2 a2).1 k1 a1 = true ∧
    mwf (execMutex st k1 a1).1 k2 a2 = true ∧ mwf (execMutex st k2 a2).1 k1 a1 = true ∧
    (execMutex (execMutex st k1 a1).1 k2 a2).1 = (execMutex (execMutex st k2 a2).1 k1 a1).1 ∧
    (execMutex (execMutex st k1 a1).1 k2 a2).2 = (execMutex st k2 a2).2 ∧
    (execMutex (execMutex st k2 a2).1 k1 a1).2 = (execMutex st k1 a1).2 := by
  have ha' : a2 ≠ a1 := fun e => ha e.symm
  obtain ⟨o, q⟩ := st
  cases k1 <;> simp [isMutexKind] at h1 <;> cases k2 <;> simp [isMutexKind] at h2 <;>
    first
      | (exfalso; revert hi; decide)
      | (cases o <;> cases q <;> simp_all [menabled, mwf, execMutex])

theorem exec_mutex (s : State) (t : Base) (h : isMutexKind t.kind = true) :
    exec s t = { s with mutex := upd s.mutex t.mutex (execMutex (s.mutex t.mutex) t.kind t.aid).1,
                        ret := upd s.ret t.aid (execMutex (s.mutex t.mutex) t.kind t.aid).2 } := by
  simp [exec, h]

theorem enabled_mutex (s : State) (t : Base) (h : isMutexKind t.kind = true) :
    enabled s t = menabled (s.mutex t.mutex) t.kind t.aid := by
  cases hk : t.kind <;> simp [isMutexKind, hk] at h <;> simp [enabled, menabled, hk]

theorem wf_mutex (s : State) (t : Base) (h : isMutexKind t.kind = true) :
    wf s t = mwf (s.mutex t.mutex) t.kind t.aid := by
  cases hk : t.kind <;> simp [isMutexKind, hk] at h <;> simp [wf, mwf, hk]

theorem mutexIndepSame_of_depends (t1 t2 : Base) (h1 : isMutexKind t1.kind = true) (h2 : isMutexKind t2.kind = true)
    (ha : t1.aid ≠ t2.aid) (hm : t1.mutex = t2.mutex) (hd : depends (.base t1) (.base t2) = some false) :
    mutexIndepSame t1.kind t2.kind = true := by
  cases hk1 : t1.kind <;> simp [isMutexKind, hk1] at h1 <;>
  cases hk2 : t2.kind <;> simp [isMutexKind, hk2] at h2 <;>
  simp [depends, Tr.aid, Tr.current, dependsBase, ha, hk1, hk2, hm, Kind.toNat, lut, lutRow_MUTEX_ASYNC_LOCK,
    lutRow_MUTEX_TEST, lutRow_MUTEX_TRYLOCK, lutRow_MUTEX_UNLOCK, lutRow_MUTEX_WAIT, evalAction] at hd <;>
  decide


/-! ### semaphores -/

def semIndepSame (k1 k2 : Kind) : Bool :=
  dependsBase { kind := k1, aid := 1, sem := 0 } { kind := k2, aid := 2, sem := 0 } == some false

def senabled (st : SemSt) (k : Kind) (a : Int) : Bool := (k != .SEM_WAIT) || st.granted.contains a

theorem sem_obj_commute (st : SemSt) (k1 k2 : Kind) (a1 a2 : Int) (ha : a1 ≠ a2)
    (h1 : isSemKind k1 = true) (h2 : isSemKind k2 = true) (hi : semIndepSame k1 k2 = true)
    (hinv : st.inv) (e1 : senabled st k1 a1 = true) (e2 : senabled st k2 a2 = true) :
    senabled (execSem st k1 a1) k2 a2 = true ∧ senabled (execSem st k2 a2) k1 a1 = true ∧
    execSem (execSem st k1 a1) k2 a2 = execSem (execSem st k2 a2) k1 a1 := by
  have ha' : a2 ≠ a1 := fun e => ha e.symm
  obtain ⟨v, q, g⟩ := st
  cases k1 <;> simp [isSemKind] at h1 <;> cases k2 <;> simp [isSemKind] at h2 <;>
    first
      | (exfalso; revert hi; decide)
      | (cases v <;> cases q <;> simp_all [senabled, execSem, SemSt.inv, List.erase_append_left, List.mem_erase_of_ne, List.erase_comm] <;> done)

theorem exec_sem (s : State) (t : Base) (h : isSemKind t.kind = true) :
    exec s t = { s with sem := upd s.sem t.sem (execSem (s.sem t.sem) t.kind t.aid) } := by
  cases hk : t.kind <;> simp [isSemKind, hk] at h <;> simp [exec, isMutexKind, isSemKind, hk]

theorem enabled_sem (s : State) (t : Base) (h : isSemKind t.kind = true) :
    enabled s t = senabled (s.sem t.sem) t.kind t.aid := by
  cases hk : t.kind <;> simp [isSemKind, hk] at h <;> simp [enabled, senabled, hk]

theorem semIndepSame_of_depends (t1 t2 : Base) (h1 : isSemKind t1.kind = true) (h2 : isSemKind t2.kind = true)
    (ha : t1.aid ≠ t2.aid) (hm : t1.sem = t2.sem) (hd : depends (.base t1) (.base t2) = some false) :
    semIndepSame t1.kind t2.kind = true := by
  cases hk1 : t1.kind <;> simp [isSemKind, hk1] at h1 <;>
  cases hk2 : t2.kind <;> simp [isSemKind, hk2] at h2 <;>
  simp [depends, Tr.aid, Tr.current, dependsBase, ha, hk1, hk2, hm, Kind.toNat, lut, lutRow_SEM_ASYNC_LOCK,
    lutRow_SEM_UNLOCK, lutRow_SEM_WAIT, evalAction] at hd <;>
  decide

/-- the semaphore invariant is preserved by every semaphore transition -/
theorem sem_inv_preserved (st : SemSt) (k : Kind) (a : Int) (h : st.inv) : (execSem st k a).inv := by
  obtain ⟨v, q, g⟩ := st
  cases k <;> simp_all [execSem, SemSt.inv] <;> (cases v <;> cases q <;> simp_all)

/-! ### barriers (after the LOCK/LOCK repair: on one barrier only WAIT × WAIT is declared independent) -/

def barIndepSame (k1 k2 : Kind) : Bool :=
  dependsBase { kind := k1, aid := 1, bar := 0 } { kind := k2, aid := 2, bar := 0 } == some false

def benabled (st : BarSt) (k : Kind) (a : Int) : Bool := (k != .BARRIER_WAIT) || st.granted.contains a

theorem bar_obj_commute (st : BarSt) (k1 k2 : Kind) (a1 a2 : Int) (ha : a1 ≠ a2)
    (h1 : isBarKind k1 = true) (h2 : isBarKind k2 = true) (hi : barIndepSame k1 k2 = true)
    (e1 : benabled st k1 a1 = true) (e2 : benabled st k2 a2 = true) :
    benabled (execBar st k1 a1) k2 a2 = true ∧ benabled (execBar st k2 a2) k1 a1 = true ∧
    execBar (execBar st k1 a1) k2 a2 = execBar (execBar st k2 a2) k1 a1 := by
  have ha' : a2 ≠ a1 := fun e => ha e.symm
  obtain ⟨n, w, g⟩ := st
  cases k1 <;> simp [isBarKind] at h1 <;> cases k2 <;> simp [isBarKind] at h2 <;>
    first
      | (exfalso; revert hi; decide)
      | (simp_all [benabled, execBar, List.mem_erase_of_ne, List.erase_comm] <;> done)

theorem exec_bar (s : State) (t : Base) (h : isBarKind t.kind = true) :
    exec s t = { s with bar := upd s.bar t.bar (execBar (s.bar t.bar) t.kind t.aid) } := by
  cases hk : t.kind <;> simp [isBarKind, hk] at h <;> simp [exec, isMutexKind, isSemKind, isBarKind, hk]

theorem enabled_bar (s : State) (t : Base) (h : isBarKind t.kind = true) :
    enabled s t = benabled (s.bar t.bar) t.kind t.aid := by
  cases hk : t.kind <;> simp [isBarKind, hk] at h <;> simp [enabled, benabled, hk]

theorem barIndepSame_of_depends (t1 t2 : Base) (h1 : isBarKind t1.kind = true) (h2 : isBarKind t2.kind = true)
    (ha : t1.aid ≠ t2.aid) (hm : t1.bar = t2.bar) (hd : depends (.base t1) (.base t2) = some false) :
    barIndepSame t1.kind t2.kind = true := by
  cases hk1 : t1.kind <;> simp [isBarKind, hk1] at h1 <;>
  cases hk2 : t2.kind <;> simp [isBarKind, hk2] at h2 <;>
  simp [depends, Tr.aid, Tr.current, dependsBase, ha, hk1, hk2, hm, Kind.toNat, lut, lutRow_BARRIER_ASYNC_LOCK,
    lutRow_BARRIER_WAIT, evalAction, barrierDepends] at hd <;>
  decide

end SgVerif.C39
