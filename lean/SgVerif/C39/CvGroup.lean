import SgVerif.C39.CommGroup
import SgVerif.C39.SyncGroup
import SgVerif.C39.Lemmas
/-
C39 — condition variables (CONDVAR_ASYNC_LOCK = unlock of the mutex + push on the condvar queue; CONDVAR_SIGNAL /
BROADCAST = grant the front / all waiters; CONDVAR_WAIT = consume the grant + lock_async on the mutex) against each other
and against the mutex transitions.
-/
set_option linter.unusedSimpArgs false
set_option linter.unusedVariables false
namespace SgVerif.C39.Full
open Sem

/-- pairs (condvar transition acting on the mutex, other lock transition) that the table declares independent on ONE mutex -/
def sameMutexPair (k1 k2 : Kind) : Bool :=
  (k1 == .CONDVAR_ASYNC_LOCK && (k2 == .MUTEX_ASYNC_LOCK || k2 == .CONDVAR_WAIT)) ||
  (k1 == .CONDVAR_WAIT && (k2 == .MUTEX_TEST || k2 == .MUTEX_UNLOCK || k2 == .MUTEX_WAIT))

/-- CONDVAR_ASYNC_LOCK (pop_front of the mutex queue) against a lock_async (push_back) of the same mutex, and
CONDVAR_WAIT (lock_async) against TEST / UNLOCK / WAIT of the same mutex: same outcome in both orders, any owner, any queue. -/
theorem same_mutex_commute (w : World) (t1 t2 : Base) (hp : sameMutexPair t1.kind t2.kind = true)
    (ha : t1.aid ≠ t2.aid) (hm : t1.mutex = t2.mutex) (f1 : fireable w t1 = true) (f2 : fireable w t2 = true) :
    Commute w t1 t2 := by
  have ha' : t2.aid ≠ t1.aid := fun e => ha e.symm
  cases hk1 : t1.kind <;> simp [sameMutexPair, hk1] at hp <;> cases hk2 : t2.kind <;> simp [hk2] at hp
  all_goals
    simp [fireable, alive, enabled, wf, labelOk, Sem.enabled, Sem.wf, hk1, hk2] at f1 f2
    try rw [hm] at f1
    generalize hst : w.sync.mutex t2.mutex = st at f1 f2
    obtain ⟨o, q⟩ := st
    refine ⟨?_, ?_, ?_⟩
  all_goals
    first
      | (cases o <;> cases q <;>
          simp_all [fireable, alive, enabled, wf, labelOk, Sem.enabled, Sem.wf, exec, tick, core, Sem.exec, isMutexKind, upd, execMutex] <;> done)
      | (intro l
         cases o <;> cases q <;> cases l <;> simp_all [World.get, exec, tick, core, Sem.exec, isMutexKind, upd, execMutex] <;>
           (rename_i a; by_cases e1 : a = t1.aid <;> by_cases e2 : a = t2.aid <;> simp_all [upd]))

def isSignalKind (k : Kind) : Bool := k == .CONDVAR_SIGNAL || k == .CONDVAR_BROADCAST

/-- two signals / broadcasts on one condvar: the waiters are granted in queue order whichever comes first -/
theorem signal_pair (w : World) (t1 t2 : Base) (h1 : isSignalKind t1.kind = true) (h2 : isSignalKind t2.kind = true)
    (ha : t1.aid ≠ t2.aid) (hc : t1.condvar = t2.condvar) (f1 : fireable w t1 = true) (f2 : fireable w t2 = true) :
    Commute w t1 t2 := by
  have ha' : t2.aid ≠ t1.aid := fun e => ha e.symm
  cases hk1 : t1.kind <;> simp [isSignalKind, hk1] at h1 <;> cases hk2 : t2.kind <;> simp [isSignalKind, hk2] at h2
  all_goals
    simp [fireable, alive, enabled, wf, labelOk, Sem.enabled, Sem.wf, hk1, hk2] at f1 f2
    generalize hwl : w.cvW t2.condvar = wl
    refine ⟨?_, ?_, ?_⟩
  all_goals
    first
      | (simp_all [fireable, alive, enabled, wf, labelOk, Sem.enabled, Sem.wf, exec, tick, core, upd]; done)
      | (intro l
         cases wl <;> cases l <;> simp_all [World.get, exec, tick, core, upd] <;>
           (rename_i a; by_cases e1 : a = t1.aid <;> by_cases e2 : a = t2.aid <;> simp_all [upd]))

/-- two CONDVAR_WAIT on one condvar with different mutexes: each consumes its own grant -/
theorem wait_pair (w : World) (t1 t2 : Base) (hk1 : t1.kind = .CONDVAR_WAIT) (hk2 : t2.kind = .CONDVAR_WAIT)
    (ha : t1.aid ≠ t2.aid) (hc : t1.condvar = t2.condvar) (hm : t1.mutex ≠ t2.mutex)
    (f1 : fireable w t1 = true) (f2 : fireable w t2 = true) : Commute w t1 t2 := by
  have ha' : t2.aid ≠ t1.aid := fun e => ha e.symm
  have hm' : t2.mutex ≠ t1.mutex := fun e => hm e.symm
  simp [fireable, alive, enabled, wf, labelOk, Sem.enabled, Sem.wf, hk1, hk2] at f1 f2
  refine ⟨?_, ?_, ?_⟩
  · simp_all [fireable, alive, enabled, wf, labelOk, Sem.enabled, Sem.wf, exec, tick, core, upd, List.mem_erase_of_ne]
  · simp_all [fireable, alive, enabled, wf, labelOk, Sem.enabled, Sem.wf, exec, tick, core, upd, List.mem_erase_of_ne]
  · intro l
    cases l <;> simp_all [World.get, exec, tick, core, upd, List.erase_comm] <;>
      (rename_i a
       first
        | (by_cases e1 : a = t1.aid <;> by_cases e2 : a = t2.aid <;> simp_all [upd]; done)
        | (by_cases e1 : a = t1.mutex <;> by_cases e2 : a = t2.mutex <;> simp_all [upd]; done)
        | (by_cases e1 : a = t2.condvar <;> simp_all [upd, List.erase_comm]; done))

def isCvKind (k : Kind) : Bool :=
  k == .CONDVAR_ASYNC_LOCK || k == .CONDVAR_SIGNAL || k == .CONDVAR_BROADCAST || k == .CONDVAR_WAIT

def isLockKind (k : Kind) : Bool := isMutexKind k || isCvKind k

/-- THE cell that does not commute (finding `condvar-async-lock-pair-declared-independent`): two CONDVAR_ASYNC_LOCK on one
condition variable are declared independent (`ALWAYS_INDEP`) but queue their issuers in the order in which they run -/
def calPair (t1 t2 : Base) : Bool :=
  t1.kind == .CONDVAR_ASYNC_LOCK && t2.kind == .CONDVAR_ASYNC_LOCK && t1.condvar == t2.condvar

theorem cal_cal_mutex (w : World) (t1 t2 : Base) (hk1 : t1.kind = .CONDVAR_ASYNC_LOCK) (hk2 : t2.kind = .CONDVAR_ASYNC_LOCK)
    (ha : t1.aid ≠ t2.aid) (f1 : fireable w t1 = true) (f2 : fireable w t2 = true) : t1.mutex ≠ t2.mutex := by
  intro hm
  simp [fireable, wf, hk1, hk2] at f1 f2
  have h1 := f1.1.2
  rw [hm, f2.1.2] at h1
  exact ha (Option.some.inj h1).symm

set_option hygiene false in
/-- dispatch of one (condvar kind, lock kind) cell once the kinds `hk1`, `hk2` are known -/
macro "cv_cell" : tactic => `(tactic|
  first
    | (exfalso; simp [calPair, hk1, hk2, hc] at hx; done)
    | (exfalso; exact cal_cal_mutex w t1 t2 hk1 hk2 ha f1 f2 hm)
    | (apply commute_of_noWrite w t1 t2 f1 f2
       simp [noWriteInto, wr, rd, own, objW, objR, hk1, hk2, ha, ha', hm, hc, hm', hc']; done)
    | (refine same_mutex_commute w t1 t2 ?_ ha hm f1 f2; simp [sameMutexPair, hk1, hk2]; done)
    | (refine (same_mutex_commute w t2 t1 ?_ ha' hm.symm f2 f1).symm; simp [sameMutexPair, hk1, hk2]; done)
    | (refine signal_pair w t1 t2 ?_ ?_ ha hc f1 f2 <;> simp [isSignalKind, hk1, hk2] <;> done)
    | exact wait_pair w t1 t2 hk1 hk2 ha hc hm f1 f2
    | (exfalso; dep_simp at hd; done))

set_option maxRecDepth 4000 in
theorem cv_left_cal (w : World) (t1 t2 : Base) (hk1 : t1.kind = .CONDVAR_ASYNC_LOCK) (h2 : isLockKind t2.kind = true)
    (ha : t1.aid ≠ t2.aid) (f1 : fireable w t1 = true) (f2 : fireable w t2 = true)
    (hd : dependsBase t1 t2 = some false) (hx : calPair t1 t2 = false) : Commute w t1 t2 := by
  have ha' : t2.aid ≠ t1.aid := fun e => ha e.symm
  by_cases hm : t1.mutex = t2.mutex <;> by_cases hc : t1.condvar = t2.condvar
  · have hm' : t2.mutex = t2.mutex := rfl
    have hc' : t2.condvar = t2.condvar := rfl
    cases hk2 : t2.kind <;> simp [isLockKind, isMutexKind, isCvKind, hk2] at h2 <;> cv_cell
  · have hm' : t2.mutex = t2.mutex := rfl
    have hc' : ¬ t2.condvar = t1.condvar := fun e => hc e.symm
    cases hk2 : t2.kind <;> simp [isLockKind, isMutexKind, isCvKind, hk2] at h2 <;> cv_cell
  · have hm' : ¬ t2.mutex = t1.mutex := fun e => hm e.symm
    have hc' : t2.condvar = t2.condvar := rfl
    cases hk2 : t2.kind <;> simp [isLockKind, isMutexKind, isCvKind, hk2] at h2 <;> cv_cell
  · have hm' : ¬ t2.mutex = t1.mutex := fun e => hm e.symm
    have hc' : ¬ t2.condvar = t1.condvar := fun e => hc e.symm
    cases hk2 : t2.kind <;> simp [isLockKind, isMutexKind, isCvKind, hk2] at h2 <;> cv_cell

set_option maxRecDepth 4000 in
theorem cv_left_cs (w : World) (t1 t2 : Base) (hk1 : t1.kind = .CONDVAR_SIGNAL) (h2 : isLockKind t2.kind = true)
    (ha : t1.aid ≠ t2.aid) (f1 : fireable w t1 = true) (f2 : fireable w t2 = true)
    (hd : dependsBase t1 t2 = some false) (hx : calPair t1 t2 = false) : Commute w t1 t2 := by
  have ha' : t2.aid ≠ t1.aid := fun e => ha e.symm
  by_cases hm : t1.mutex = t2.mutex <;> by_cases hc : t1.condvar = t2.condvar
  · have hm' : t2.mutex = t2.mutex := rfl
    have hc' : t2.condvar = t2.condvar := rfl
    cases hk2 : t2.kind <;> simp [isLockKind, isMutexKind, isCvKind, hk2] at h2 <;> cv_cell
  · have hm' : t2.mutex = t2.mutex := rfl
    have hc' : ¬ t2.condvar = t1.condvar := fun e => hc e.symm
    cases hk2 : t2.kind <;> simp [isLockKind, isMutexKind, isCvKind, hk2] at h2 <;> cv_cell
  · have hm' : ¬ t2.mutex = t1.mutex := fun e => hm e.symm
    have hc' : t2.condvar = t2.condvar := rfl
    cases hk2 : t2.kind <;> simp [isLockKind, isMutexKind, isCvKind, hk2] at h2 <;> cv_cell
  · have hm' : ¬ t2.mutex = t1.mutex := fun e => hm e.symm
    have hc' : ¬ t2.condvar = t1.condvar := fun e => hc e.symm
    cases hk2 : t2.kind <;> simp [isLockKind, isMutexKind, isCvKind, hk2] at h2 <;> cv_cell

set_option maxRecDepth 4000 in
theorem cv_left_cb (w : World) (t1 t2 : Base) (hk1 : t1.kind = .CONDVAR_BROADCAST) (h2 : isLockKind t2.kind = true)
    (ha : t1.aid ≠ t2.aid) (f1 : fireable w t1 = true) (f2 : fireable w t2 = true)
    (hd : dependsBase t1 t2 = some false) (hx : calPair t1 t2 = false) : Commute w t1 t2 := by
  have ha' : t2.aid ≠ t1.aid := fun e => ha e.symm
  by_cases hm : t1.mutex = t2.mutex <;> by_cases hc : t1.condvar = t2.condvar
  · have hm' : t2.mutex = t2.mutex := rfl
    have hc' : t2.condvar = t2.condvar := rfl
    cases hk2 : t2.kind <;> simp [isLockKind, isMutexKind, isCvKind, hk2] at h2 <;> cv_cell
  · have hm' : t2.mutex = t2.mutex := rfl
    have hc' : ¬ t2.condvar = t1.condvar := fun e => hc e.symm
    cases hk2 : t2.kind <;> simp [isLockKind, isMutexKind, isCvKind, hk2] at h2 <;> cv_cell
  · have hm' : ¬ t2.mutex = t1.mutex := fun e => hm e.symm
    have hc' : t2.condvar = t2.condvar := rfl
    cases hk2 : t2.kind <;> simp [isLockKind, isMutexKind, isCvKind, hk2] at h2 <;> cv_cell
  · have hm' : ¬ t2.mutex = t1.mutex := fun e => hm e.symm
    have hc' : ¬ t2.condvar = t1.condvar := fun e => hc e.symm
    cases hk2 : t2.kind <;> simp [isLockKind, isMutexKind, isCvKind, hk2] at h2 <;> cv_cell

set_option maxRecDepth 4000 in
theorem cv_left_cw (w : World) (t1 t2 : Base) (hk1 : t1.kind = .CONDVAR_WAIT) (h2 : isLockKind t2.kind = true)
    (ha : t1.aid ≠ t2.aid) (f1 : fireable w t1 = true) (f2 : fireable w t2 = true)
    (hd : dependsBase t1 t2 = some false) (hx : calPair t1 t2 = false) : Commute w t1 t2 := by
  have ha' : t2.aid ≠ t1.aid := fun e => ha e.symm
  by_cases hm : t1.mutex = t2.mutex <;> by_cases hc : t1.condvar = t2.condvar
  · have hm' : t2.mutex = t2.mutex := rfl
    have hc' : t2.condvar = t2.condvar := rfl
    cases hk2 : t2.kind <;> simp [isLockKind, isMutexKind, isCvKind, hk2] at h2 <;> cv_cell
  · have hm' : t2.mutex = t2.mutex := rfl
    have hc' : ¬ t2.condvar = t1.condvar := fun e => hc e.symm
    cases hk2 : t2.kind <;> simp [isLockKind, isMutexKind, isCvKind, hk2] at h2 <;> cv_cell
  · have hm' : ¬ t2.mutex = t1.mutex := fun e => hm e.symm
    have hc' : t2.condvar = t2.condvar := rfl
    cases hk2 : t2.kind <;> simp [isLockKind, isMutexKind, isCvKind, hk2] at h2 <;> cv_cell
  · have hm' : ¬ t2.mutex = t1.mutex := fun e => hm e.symm
    have hc' : ¬ t2.condvar = t1.condvar := fun e => hc e.symm
    cases hk2 : t2.kind <;> simp [isLockKind, isMutexKind, isCvKind, hk2] at h2 <;> cv_cell

theorem cv_left (w : World) (t1 t2 : Base) (h1 : isCvKind t1.kind = true) (h2 : isLockKind t2.kind = true)
    (ha : t1.aid ≠ t2.aid) (f1 : fireable w t1 = true) (f2 : fireable w t2 = true)
    (hd : dependsBase t1 t2 = some false) (hx : calPair t1 t2 = false) : Commute w t1 t2 := by
  cases hk1 : t1.kind <;> simp [isCvKind, hk1] at h1
  · exact cv_left_cal w t1 t2 hk1 h2 ha f1 f2 hd hx
  · exact cv_left_cb w t1 t2 hk1 h2 ha f1 f2 hd hx
  · exact cv_left_cs w t1 t2 hk1 h2 ha f1 f2 hd hx
  · exact cv_left_cw w t1 t2 hk1 h2 ha f1 f2 hd hx

/-- **Lock family with condition variables**: every pair of mutex / condvar transitions at least one of which is a condvar
transition, declared independent, except two CONDVAR_ASYNC_LOCK on one condvar (`calPair`). -/
theorem cv_group (w : World) (t1 t2 : Base) (h1 : isLockKind t1.kind = true) (h2 : isLockKind t2.kind = true)
    (hcv : isCvKind t1.kind = true ∨ isCvKind t2.kind = true)
    (ha : t1.aid ≠ t2.aid) (f1 : fireable w t1 = true) (f2 : fireable w t2 = true)
    (hd : depends (.base t1) (.base t2) = some false) (hx : calPair t1 t2 = false) : Commute w t1 t2 := by
  rw [depends_base _ _ ha] at hd
  rcases hcv with hcv | hcv
  · exact cv_left w t1 t2 hcv h2 ha f1 f2 hd hx
  · have hx' : calPair t2 t1 = false := by
      simp only [calPair, Bool.and_eq_false_iff, beq_eq_false_iff_ne] at hx ⊢
      rcases hx with (hx | hx) | hx
      · exact Or.inl (Or.inr hx)
      · exact Or.inl (Or.inl hx)
      · exact Or.inr (fun e => hx e.symm)
    exact (cv_left w t2 t1 hcv h1 (fun e => ha e.symm) f2 f1 (by rw [dependsBase_symm]; exact hd) hx').symm

end SgVerif.C39.Full
