import SgVerif.C39.Frame
/-
C39 — cross-group pairs: the shared locations of two transitions of different groups have different tags
(mutex / semaphore / barrier / condvar queue / mailbox side / actor table), so the footprint theorem applies whatever
the parameters are.  `tagDisj` is a finite table over pairs of kinds.
-/
namespace SgVerif.C39.Full
open Sem

inductive Tag where
  | mutex | sem | bar | cvW | cvG | sends | recvs | actor | pid
  deriving DecidableEq, Repr

def Loc.tag : Loc → Tag
  | .mutex _ => .mutex | .sem _ => .sem | .bar _ => .bar | .cvW _ => .cvW | .cvG _ => .cvG
  | .sends _ => .sends | .recvs _ => .recvs
  | .ret _ | .dead _ | .ex _ | .left _ => .actor
  | .nextPid => .pid

/-- tags of the shared locations a kind writes -/
def tagsW : Kind → List Tag
  | .MUTEX_ASYNC_LOCK | .MUTEX_TRYLOCK | .MUTEX_UNLOCK => [.mutex]
  | .SEM_ASYNC_LOCK | .SEM_UNLOCK | .SEM_WAIT => [.sem]
  | .BARRIER_ASYNC_LOCK | .BARRIER_WAIT => [.bar]
  | .CONDVAR_ASYNC_LOCK => [.cvW, .mutex]
  | .CONDVAR_SIGNAL | .CONDVAR_BROADCAST => [.cvW, .cvG]
  | .CONDVAR_WAIT => [.cvG, .mutex]
  | .COMM_ASYNC_SEND => [.sends]
  | .COMM_ASYNC_RECV => [.recvs]
  | .ACTOR_CREATE => [.actor, .pid]
  | _ => []

/-- tags of the shared locations a kind reads or writes -/
def tagsR (k : Kind) : List Tag :=
  tagsW k ++ match k with
  | .MUTEX_TEST | .MUTEX_WAIT => [.mutex]
  | .COMM_TEST | .COMM_WAIT | .COMM_IPROBE => [.sends, .recvs]
  | .ACTOR_JOIN => [.actor]
  | .ACTOR_CREATE => [.actor]
  | _ => []

/-- no shared location of `k1` can be a shared location of `k2` written by one of them, and neither touches the actor
table outside its own entries -/
def tagDisj (k1 k2 : Kind) : Bool :=
  !(tagsR k1).contains .actor && !(tagsR k2).contains .actor &&
  (tagsW k1).all (fun x => !(tagsR k2).contains x) && (tagsW k2).all (fun x => !(tagsR k1).contains x)

theorem objW_tag (t : Base) (l : Loc) (h : l ∈ objW t) : l.tag ∈ tagsW t.kind := by
  cases hk : t.kind <;> simp [objW, hk] at h <;> (try rcases h with h | h | h) <;> subst_vars <;> simp [Loc.tag, tagsW]

theorem objR_tag (t : Base) (l : Loc) (h : l ∈ objW t ++ objR t) : l.tag ∈ tagsR t.kind := by
  rw [List.mem_append] at h
  rcases h with h | h
  · exact List.mem_append_left _ (objW_tag t l h)
  · cases hk : t.kind <;> simp [objR, hk] at h <;> (try rcases h with h | h) <;> subst_vars <;> simp [Loc.tag, tagsR, tagsW]

theorem own_tag (a : Int) (l : Loc) (h : l ∈ own a) : l.tag = .actor := by
  simp [own] at h
  rcases h with h | h | h | h <;> subst h <;> rfl

theorem own_disjoint (a1 a2 : Int) (ha : a1 ≠ a2) (l : Loc) (h1 : l ∈ own a1) (h2 : l ∈ own a2) : False := by
  simp [own] at h1 h2
  rcases h1 with h | h | h | h <;> subst h <;> simp at h2 <;> exact ha h2

/-- transitions of two groups whose shared locations have different tags never write into each other's footprint -/
theorem tag_noWrite (t1 t2 : Base) (ha : t1.aid ≠ t2.aid) (h : tagDisj t1.kind t2.kind = true) :
    noWriteInto t2 t1 ∧ noWriteInto t1 t2 := by
  simp only [tagDisj, Bool.and_eq_true, Bool.not_eq_true', List.all_eq_true] at h
  obtain ⟨⟨⟨hf1, hf2⟩, h12⟩, h21⟩ := h
  have hf1' : Tag.actor ∉ tagsR t1.kind := by simpa using hf1
  have hf2' : Tag.actor ∉ tagsR t2.kind := by simpa using hf2
  constructor
  · intro l hw hr
    simp only [wr, rd, List.mem_append] at hw hr
    rcases hw with hw | hw <;> rcases hr with hr | hr
    · exact own_disjoint _ _ ha l hr hw
    · exact hf1' (own_tag _ _ hw ▸ objR_tag t1 l (List.mem_append.mpr hr))
    · exact hf2' (own_tag _ _ hr ▸ List.mem_append_left _ (objW_tag t2 l hw))
    · have := h21 _ (objW_tag t2 l hw)
      simp at this
      exact this (objR_tag t1 l (List.mem_append.mpr hr))
  · intro l hw hr
    simp only [wr, rd, List.mem_append] at hw hr
    rcases hw with hw | hw <;> rcases hr with hr | hr
    · exact own_disjoint _ _ ha l hw hr
    · exact hf2' (own_tag _ _ hw ▸ objR_tag t2 l (List.mem_append.mpr hr))
    · exact hf1' (own_tag _ _ hr ▸ List.mem_append_left _ (objW_tag t1 l hw))
    · have := h12 _ (objW_tag t1 l hw)
      simp at this
      exact this (objR_tag t2 l (List.mem_append.mpr hr))

/-- the conclusion of `indep_commute`, as one proposition -/
def Commute (w : World) (t1 t2 : Base) : Prop :=
  fireable (exec w t1) t2 = true ∧ fireable (exec w t2) t1 = true ∧ (exec (exec w t1) t2).equiv (exec (exec w t2) t1)

theorem Commute.symm {w : World} {t1 t2 : Base} (h : Commute w t1 t2) : Commute w t2 t1 :=
  ⟨h.2.1, h.1, fun l => (h.2.2 l).symm⟩

theorem commute_of_noWrite (w : World) (t1 t2 : Base) (f1 : fireable w t1 = true) (f2 : fireable w t2 = true)
    (h : noWriteInto t2 t1 ∧ noWriteInto t1 t2) : Commute w t1 t2 := by
  obtain ⟨c1, c2, c3⟩ := disjoint_commute w t1 t2 h.1 h.2
  exact ⟨c1.trans f2, c2.trans f1, c3⟩

end SgVerif.C39.Full
