import SgVerif.C39.Gen
/-
C39 — model of the checker-side dependency relation (`Transition::dispatch_depends`) on top of the GENERATED
table and arms (Gen.lean), and (second half of the file, `namespace Sem`) the MC-mode semantics of the kernel
synchronisation state the transitions act on.

Hand-written here (tied by normalised-text hashes, see props/C39/gen.py part (c)):

  bool Transition::dispatch_depends(const Transition* other) const {
    const Transition* t1 = this; const Transition* t2 = other;
    if (t1->aid_ == t2->aid_) return true;
    while (t1->type_ == Type::TESTANY || t1->type_ == Type::WAITANY)
      t1 = (t1->type_ == Type::TESTANY) ? static_cast<const TestAnyTransition*>(t1)->get_current_transition()
                                        : static_cast<const WaitAnyTransition*>(t1)->get_current_transition();
    while (... same for t2 ...)
    if (t1->type_ > t2->type_) std::swap(t1, t2);
    DependencyAction action = dependency_table[t1->type_][t2->type_];
    switch (action) { ...generated: evalAction... }
-/
namespace SgVerif.C39

/-- A transition as the checker holds it.  The members of a TESTANY / WAITANY are non-ANY transitions (the
application only ever puts COMM_TEST / COMM_WAIT there); a nested ANY is not modelled. -/
inductive Tr where
  | base (b : Base)
  | testany (aid : Int) (timesConsidered : Nat) (subs : List Base)
  | waitany (aid : Int) (timesConsidered : Nat) (subs : List Base)
  deriving Repr

def Tr.aid : Tr → Int
  | .base b => b.aid
  | .testany a _ _ => a
  | .waitany a _ _ => a

/-- `CommWaitTransition::is_enabled(): sender_.has_value() and receiver_.has_value()` (INVALID = -1) -/
def waitEnabled (b : Base) : Bool := b.sender != -1 && b.receiver != -1

/-- `WaitAnyTransition::get_current_transition`: the `times_considered`-th *enabled* member; `none` = the
`xbt_die("There is no enabled corresponding transition")` -/
def nthEnabled : List Base → Nat → Option Base
  | [], _ => none
  | b :: bs, n =>
    if !waitEnabled b then nthEnabled bs n
    else match n with
      | 0 => some b
      | n + 1 => nthEnabled bs n

/-- the unwrapping loops of `dispatch_depends`.  `none` = the C++ dies (`std::vector::at` throws for TESTANY,
`xbt_die` for WAITANY) -/
def Tr.current : Tr → Option Base
  | .base b => some b
  | .testany _ tc subs => subs[tc]?
  | .waitany _ tc subs => nthEnabled subs tc

/-- after unwrapping: swap so that `t1->type_ <= t2->type_`, look the action up, evaluate the arm -/
def dependsBase (u1 u2 : Base) : Option Bool :=
  if u2.kind.toNat < u1.kind.toNat then evalAction (lut u2.kind u1.kind) u2 u1
  else evalAction (lut u1.kind u2.kind) u1 u2

/-- `t1->dispatch_depends(t2)`; `none` = the checker aborts -/
def depends (t1 t2 : Tr) : Option Bool :=
  if t1.aid = t2.aid then some true
  else match t1.current, t2.current with
    | some u1, some u2 => dependsBase u1 u2
    | _, _ => none

/-- the static_casts of the arm selected for the cell (k1,k2), k1 ≤ k2, are applied to objects of that very class -/
def castsOk (k1 k2 : Kind) : Bool :=
  (casts_t1 (lut k1 k2)).all (fun c => kindClass k1 == some c) &&
  (casts_t2 (lut k1 k2)).all (fun c => kindClass k2 == some c)

end SgVerif.C39
