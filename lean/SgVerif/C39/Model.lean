import SgVerif.C39.Gen
/-
C39 — model of the checker-side dependency relation (`Transition::dispatch_depends`) on top of the GENERATED
table and arms (Gen.lean), and (second half of the file, `namespace Sem`) the MC-mode semantics of the kernel
synchronisation state the transitions act on.

Hand-written here (tied by normalised-text hashes, see props/C39/gen.py part (c)):

  bool Transition::dispatch_depends(const Transition* other) const {
    const Transition* t1 = this; const Transition* t2 = other;
    if (t1->aid_ == t2->aid_) return true;
    while (t1->type_ == Type::TESTANY || t1->type_ == Type::WAITANY)
      t1 = (t1->type_ == Type::TESTANY) ? static_cast<const TestAnyTransition*>(t1)->get_current_transition()
                                        : static_cast<const WaitAnyTransition*>(t1)->get_current_transition();
    while (... same for t2 ...)
    if (t1->type_ > t2->type_) std::swap(t1, t2);
    DependencyAction action = dependency_table[t1->type_][t2->type_];
    switch (action) { ...generated: evalAction... }
-/
namespace SgVerif.C39

/-- A transition as the checker holds it.  The members of a TESTANY / WAITANY are non-ANY transitions (the
application only ever puts COMM_TEST / COMM_WAIT there); a nested ANY is not modelled. -/
inductive Tr where
  | base (b : Base)
  | testany (aid : Int) (timesConsidered : Nat) (subs : List Base)
  | waitany (aid : Int) (timesConsidered : Nat) (subs : List Base)
  deriving Repr

def Tr.aid : Tr → Int
  | .base b => b.aid
  | .testany a _ _ => a
  | .waitany a _ _ => a

/-- `CommWaitTransition::is_enabled(): sender_.has_value() and receiver_.has_value()` (INVALID = -1) -/
def waitEnabled (b : Base) : Bool := b.sender != -1 && b.receiver != -1

/-- `WaitAnyTransition::get_current_transition`: the `times_considered`-th *enabled* member; `none` = the
`xbt_die("There is no enabled corresponding transition")` -/
def nthEnabled : List Base → Nat → Option Base
  | [], _ => none
  | b :: bs, n =>
    if !waitEnabled b then nthEnabled bs n
    else match n with
      | 0 => some b
      | n + 1 => nthEnabled bs n

/-- the unwrapping loops of `dispatch_depends`.  `none` = the C++ dies (`std::vector::at` throws for TESTANY,
`xbt_die` for WAITANY) -/
def Tr.current : Tr → Option Base
  | .base b => some b
  | .testany _ tc subs => subs[tc]?
  | .waitany _ tc subs => nthEnabled subs tc

/-- after unwrapping: swap so that `t1->type_ <= t2->type_`, look the action up, evaluate the arm -/
def dependsBase (u1 u2 : Base) : Option Bool :=
  if u2.kind.toNat < u1.kind.toNat then evalAction (lut u2.kind u1.kind) u2 u1
  else evalAction (lut u1.kind u2.kind) u1 u2

/-- `t1->dispatch_depends(t2)`; `none` = the checker aborts -/
def depends (t1 t2 : Tr) : Option Bool :=
  if t1.aid = t2.aid then some true
  else match t1.current, t2.current with
    | some u1, some u2 => dependsBase u1 u2
    | _, _ => none

/-- the static_casts of the arm selected for the cell (k1,k2), k1 ≤ k2, are applied to objects of that very class -/
def castsOk (k1 k2 : Kind) : Bool :=
  (casts_t1 (lut k1 k2)).all (fun c => kindClass k1 == some c) &&
  (casts_t2 (lut k1 k2)).all (fun c => kindClass k2 == some c)


/-! ## MC-mode semantics of the synchronisation state (what the transitions act on)

Mirrors, for the model checker's view (`is_enabled()` of the observers, the kernel handlers run by
`simcall_handle`), src/kernel/activity/{MutexImpl,SemaphoreImpl,BarrierImpl}.cpp:

  MutexImpl::lock_async : if (owner_ == nullptr) { owner_ = issuer; grant } else ongoing_acquisitions_.push_back(acq)
  MutexImpl::try_lock   : if (owner_ != nullptr) return false; owner_ = issuer; return true        (non-recursive)
  MutexImpl::unlock     : xbt_assert(issuer == owner_); if (!ongoing.empty()) { owner_ = front.issuer; pop_front } else owner_ = nullptr
  MutexObserver::is_enabled            : type_ != MUTEX_WAIT || mutex_->get_owner() == get_issuer()
  MutexAcquisitionObserver::is_enabled : acquisition_->is_granted()   ( = mutex_->owner_ == issuer_ )
  MutexAcquisitionImpl::test           : owner_ == issuer_
  SemaphoreImpl::acquire_async : if (value_ > 0) { value_--; granted } else ongoing_acquisitions_.push_back(acq)
  SemaphoreImpl::release       : if (!ongoing.empty()) { front->granted_ = true; pop_front } else value_++
  SemaphoreAcquisitionObserver::is_enabled : acquisition_->granted_
  BarrierImpl::acquire_async   : if (ongoing.size() < expected_actors_ - 1) ongoing.push_back(acq); else { grant all ongoing + this one; ongoing.clear() }
  BarrierObserver::is_enabled  : BARRIER_ASYNC_LOCK || acquisition_->granted_
-/
namespace Sem

structure MutexSt where
  owner : Option Int
  queue : List Int              -- issuers of `ongoing_acquisitions_`, front first
  deriving DecidableEq, Repr

structure SemSt where
  value : Nat
  queue : List Int              -- issuers of the non-granted `ongoing_acquisitions_`, front first
  granted : List Int            -- issuers holding a granted acquisition they have not waited for yet
  deriving DecidableEq, Repr

structure BarSt where
  expected : Nat
  waiting : List Int            -- `ongoing_acquisitions_`
  granted : List Int            -- issuers whose acquisition was granted and who have not waited for it yet
  deriving DecidableEq, Repr

/-- kernel state seen by the synchronisation transitions + what each actor observed (`ret`: result of its last simcall)
+ which actors have terminated -/
structure State where
  mutex : Int → MutexSt
  sem : Int → SemSt
  bar : Int → BarSt
  ret : Int → Int
  dead : Int → Bool

def upd {β : Type} (f : Int → β) (k : Int) (v : β) : Int → β := fun x => if x = k then v else f x

/-- equality of states, pointwise (no identifiers are allocated by the transitions modelled here) -/
def State.equiv (s1 s2 : State) : Prop :=
  (∀ m, s1.mutex m = s2.mutex m) ∧ (∀ m, s1.sem m = s2.sem m) ∧ (∀ m, s1.bar m = s2.bar m) ∧
  (∀ a, s1.ret a = s2.ret a) ∧ (∀ a, s1.dead a = s2.dead a)

def isMutexKind : Kind → Bool
  | .MUTEX_ASYNC_LOCK | .MUTEX_TEST | .MUTEX_TRYLOCK | .MUTEX_UNLOCK | .MUTEX_WAIT => true
  | _ => false

def isSemKind : Kind → Bool
  | .SEM_ASYNC_LOCK | .SEM_UNLOCK | .SEM_WAIT => true
  | _ => false

def isBarKind : Kind → Bool
  | .BARRIER_ASYNC_LOCK | .BARRIER_WAIT => true
  | _ => false

/-- kinds that act on no shared object of this model (RANDOM draws a value for its actor, SLEEP only lets time pass) -/
def isLocalKind : Kind → Bool
  | .RANDOM | .ACTOR_SLEEP => true
  | _ => false

/-- `is_enabled()` of the observer, as the checker is told -/
def enabled (s : State) (t : Base) : Bool :=
  match t.kind with
  | .MUTEX_WAIT => (s.mutex t.mutex).owner == some t.aid
  | .SEM_WAIT => (s.sem t.sem).granted.contains t.aid
  | .BARRIER_WAIT => (s.bar t.bar).granted.contains t.aid
  | .ACTOR_JOIN => s.dead t.target
  | _ => true

/-- the handler does not hit an `xbt_assert` (MutexImpl::unlock: "you're not the owner", declared undefined behaviour
by the message itself) -/
def wf (s : State) (t : Base) : Bool :=
  match t.kind with
  | .MUTEX_UNLOCK => (s.mutex t.mutex).owner == some t.aid
  | _ => true

def execMutex (st : MutexSt) (k : Kind) (a : Int) : MutexSt × Int :=
  match k with
  | .MUTEX_ASYNC_LOCK =>
    match st.owner with
    | none => ({ st with owner := some a }, 0)
    | some _ => ({ st with queue := st.queue ++ [a] }, 0)
  | .MUTEX_TRYLOCK =>
    match st.owner with
    | none => ({ st with owner := some a }, 1)
    | some _ => (st, 0)
  | .MUTEX_UNLOCK =>
    match st.queue with
    | [] => ({ st with owner := none }, 0)
    | q :: qs => ({ owner := some q, queue := qs }, 0)
  | .MUTEX_TEST => (st, if st.owner == some a then 1 else 0)
  | _ => (st, 0)

def execSem (st : SemSt) (k : Kind) (a : Int) : SemSt :=
  match k with
  | .SEM_ASYNC_LOCK =>
    match st.value with
    | 0 => { st with queue := st.queue ++ [a] }
    | v + 1 => { st with value := v, granted := st.granted ++ [a] }
  | .SEM_UNLOCK =>
    match st.queue with
    | [] => { st with value := st.value + 1 }
    | q :: qs => { st with queue := qs, granted := st.granted ++ [q] }
  | .SEM_WAIT => { st with granted := st.granted.erase a }
  | _ => st

def execBar (st : BarSt) (k : Kind) (a : Int) : BarSt :=
  match k with
  | .BARRIER_ASYNC_LOCK =>
    -- `if (ongoing_acquisitions_.size() < expected_actors_ - 1)` in unsigned arithmetic (expected 0 wraps: never trips)
    if st.expected = 0 ∨ st.waiting.length + 1 < st.expected then { st with waiting := st.waiting ++ [a] }
    else { st with waiting := [], granted := st.granted ++ (st.waiting ++ [a]) }
  | .BARRIER_WAIT => { st with granted := st.granted.erase a }
  | _ => st

/-- one transition of the application, as executed by `simcall_handle` -/
def exec (s : State) (t : Base) : State :=
  if isMutexKind t.kind then
    let r := execMutex (s.mutex t.mutex) t.kind t.aid
    { s with mutex := upd s.mutex t.mutex r.1, ret := upd s.ret t.aid r.2 }
  else if isSemKind t.kind then
    { s with sem := upd s.sem t.sem (execSem (s.sem t.sem) t.kind t.aid) }
  else if isBarKind t.kind then
    { s with bar := upd s.bar t.bar (execBar (s.bar t.bar) t.kind t.aid) }
  else match t.kind with
    | .RANDOM => { s with ret := upd s.ret t.aid t.min }      -- the value drawn (`times_considered` picks it; any fixed one here)
    | .ACTOR_EXIT => { s with dead := upd s.dead t.aid true }
    | _ => s

/-- reachable-state invariant of a semaphore: acquisitions only queue up when the value is 0 -/
def SemSt.inv (st : SemSt) : Prop := 0 < st.value → st.queue = []

end Sem

/-! ## Minimal mailbox / actor-existence semantics, enough to state the comm and actor counterexamples
  CommImpl::irecv / isend (MailboxImpl queues): a send looks for the first pending receive of the mailbox and pairs with it
  (sets `src_actor_`), otherwise it is queued; ActivityTestSimcall on a comm: `src_actor_ && dst_actor_` (MC mode).
  Only the receive queue is modelled (a send on a mailbox without pending receive is outside this fragment). -/
namespace CommSem

structure CState where
  sender : Int → Int             -- per comm id, -1 = not set
  receiver : Int → Int
  recvq : Int → List Int         -- per mailbox: comm ids of the pending receives, front first
  ret : Int → Int                -- per actor: result of its last simcall
  exists_ : Int → Bool           -- per actor: has it been created

def upd {β : Type} (f : Int → β) (k : Int) (v : β) : Int → β := fun x => if x = k then v else f x

/-- an actor can only fire a transition once it exists; COMM_TEST / COMM_ASYNC_SEND / RANDOM / ACTOR_CREATE are otherwise
always enabled -/
def enabled (s : CState) (t : Base) : Bool := s.exists_ t.aid

def exec (s : CState) (t : Base) : CState :=
  match t.kind with
  | .COMM_ASYNC_SEND =>
    match s.recvq t.mbox with
    | c :: cs => { s with sender := upd s.sender c t.aid, recvq := upd s.recvq t.mbox cs }
    | [] => s
  | .COMM_TEST => { s with ret := upd s.ret t.aid (if s.sender t.comm != -1 && s.receiver t.comm != -1 then 1 else 0) }
  | .ACTOR_CREATE => { s with exists_ := upd s.exists_ t.child true }
  | .RANDOM => { s with ret := upd s.ret t.aid t.min }
  | _ => s

end CommSem

end SgVerif.C39
