import SgVerif.C39.Model
import SgVerif.Common.Proto
open SgVerif.Proto
namespace SgVerif.C39

def Kind.ofName? (s : String) : Option Kind := Kind.all.find? (fun k => k.name == s)

def ints (l : List String) : Option (List Int) := l.mapM String.toInt?

def b01 (i : Int) : Bool := i != 0

/-- number of serialised fields after `<KIND>` for a non-ANY kind, and the Base they denote
(order = the order in which the checker-side constructor unpacks them) -/
def mkBase (k : Kind) (aid : Int) (f : List Int) : Option Base :=
  let b : Base := { kind := k, aid := aid }
  match k, f with
  | .RANDOM, [mn, mx] => some { b with min := mn, max := mx }
  | .ACTOR_JOIN, [t, to] => some { b with target := t, timeout := b01 to }
  | .ACTOR_CREATE, [c] => some { b with child := c }
  | .ACTOR_EXIT, [] => some b
  | .ACTOR_SLEEP, [] => some b
  | .UNKNOWN, [] => some b
  | .BARRIER_ASYNC_LOCK, [x] => some { b with bar := x }
  | .BARRIER_WAIT, [x] => some { b with bar := x }
  | .COMM_ASYNC_RECV, [c, m, t] => some { b with comm := c, mbox := m, tag := t }
  | .COMM_ASYNC_SEND, [c, m, t] => some { b with comm := c, mbox := m, tag := t }
  | .COMM_IPROBE, [m, s, t] => some { b with mbox := m, isSender := b01 s, tag := t }
  | .COMM_TEST, [c, s, r, m] => some { b with comm := c, sender := s, receiver := r, mbox := m }
  | .COMM_WAIT, [to, c, s, r, m] => some { b with timeout := b01 to, comm := c, sender := s, receiver := r, mbox := m }
  | .MUTEX_ASYNC_LOCK, [m, o] => some { b with mutex := m, owner := o }
  | .MUTEX_TEST, [m, o] => some { b with mutex := m, owner := o }
  | .MUTEX_TRYLOCK, [m, o] => some { b with mutex := m, owner := o }
  | .MUTEX_UNLOCK, [m, o] => some { b with mutex := m, owner := o }
  | .MUTEX_WAIT, [m, o] => some { b with mutex := m, owner := o }
  | .MUTEX_LOCK_NOMC, [m, o] => some { b with mutex := m, owner := o }
  | .SEM_ASYNC_LOCK, [s, g, c] => some { b with sem := s, granted := b01 g, capacity := c }
  | .SEM_UNLOCK, [s, g, c] => some { b with sem := s, granted := b01 g, capacity := c }
  | .SEM_WAIT, [s, g, c] => some { b with sem := s, granted := b01 g, capacity := c }
  | .SEM_LOCK_NOMC, [s, g, c] => some { b with sem := s, granted := b01 g, capacity := c }
  | .CONDVAR_ASYNC_LOCK, [c, m] => some { b with condvar := c, mutex := m }
  | .CONDVAR_WAIT, [c, m, g, to] => some { b with condvar := c, mutex := m, granted := b01 g, timeout := b01 to }
  | .CONDVAR_SIGNAL, [c] => some { b with condvar := c }
  | .CONDVAR_BROADCAST, [c] => some { b with condvar := c }
  | _, _ => none

def nFields : Kind → Nat
  | .RANDOM => 2 | .ACTOR_JOIN => 2 | .ACTOR_CREATE => 1 | .BARRIER_ASYNC_LOCK => 1 | .BARRIER_WAIT => 1
  | .COMM_ASYNC_RECV => 3 | .COMM_ASYNC_SEND => 3 | .COMM_IPROBE => 3 | .COMM_TEST => 4 | .COMM_WAIT => 5
  | .MUTEX_ASYNC_LOCK => 2 | .MUTEX_TEST => 2 | .MUTEX_TRYLOCK => 2 | .MUTEX_UNLOCK => 2 | .MUTEX_WAIT => 2
  | .MUTEX_LOCK_NOMC => 2 | .SEM_ASYNC_LOCK => 3 | .SEM_UNLOCK => 3 | .SEM_WAIT => 3 | .SEM_LOCK_NOMC => 3
  | .CONDVAR_ASYNC_LOCK => 2 | .CONDVAR_WAIT => 4 | .CONDVAR_SIGNAL => 1 | .CONDVAR_BROADCAST => 1
  | _ => 0

/-- members of an ANY: `n` groups `<KIND> <fields>` -/
def parseSubs (aid : Int) : Nat → List String → Option (List Base)
  | 0, [] => some []
  | 0, _ => none
  | n + 1, k :: rest => do
    let k ← Kind.ofName? k
    let f ← ints (rest.take (nFields k))
    if f.length ≠ nFields k then none
    let b ← mkBase k aid f
    let bs ← parseSubs aid n (rest.drop (nFields k))
    some (b :: bs)
  | _ + 1, [] => none

def parseTr (l : List String) : Option Tr :=
  match l with
  | k :: aid :: tc :: rest => do
    let k ← Kind.ofName? k
    let aid ← aid.toInt?
    let tc ← tc.toNat?
    match k, rest with
    | .TESTANY, n :: subs => do
      let n ← n.toNat?
      let s ← parseSubs aid n subs
      some (.testany aid tc s)
    | .WAITANY, n :: subs => do
      let n ← n.toNat?
      let s ← parseSubs aid n subs
      some (.waitany aid tc s)
    | .TESTANY, [] => none
    | .WAITANY, [] => none
    | _, _ => do
      let f ← ints rest
      let b ← mkBase k aid f
      some (.base b)
  | _ => none

def showRes : Option Bool → String
  | none => "die"
  | some true => "1"
  | some false => "0"

def splitBar (l : List String) : Option (List String × List String) :=
  match l.span (· ≠ "|") with
  | (a, _ :: b) => some (a, b)
  | _ => none

def judge (q a : List String) : Verdict :=
  match q with
  | cmd :: rest =>
    if cmd == "dep" || cmd == "depd" then
      match splitBar rest with
      | some (l1, l2) =>
        match parseTr l1, parseTr l2, a with
        | some t1, some t2, [r12, r21] =>
          -- the property's own monitor on the implementation's answers: symmetry
          if r12 ≠ r21 then .monfail s!"dispatch_depends is not symmetric on this pair: t1.depends(t2)={r12} t2.depends(t1)={r21}"
          else cmpAns [showRes (depends t1 t2), showRes (depends t2 t1)] a
        | _, _, _ => .bad
      | none => .bad
    else .bad
  | _ => .bad

end SgVerif.C39

def main : IO Unit := SgVerif.Proto.run SgVerif.C39.judge
