import SgVerif.C39.Tags
import SgVerif.C39.SemGroups
/-
C39 — mutex, semaphore and barrier groups inside the World: the theorems proved on `Sem.State` (same or different
object, unbounded queues) are lifted through the termination bookkeeping of `exec`.
-/
set_option linter.unusedSimpArgs false
namespace SgVerif.C39.Full
open Sem

def syncK (k : Kind) : Bool := isMutexKind k || isSemKind k || isBarKind k

theorem core_sync (w : World) (t : Base) (h : syncK t.kind = true) : core w t = { w with sync := Sem.exec w.sync t } := by
  cases hk : t.kind <;> simp [syncK, isMutexKind, isSemKind, isBarKind, hk] at h <;> simp [core, hk]

theorem fireable_sync (w : World) (t : Base) (h : syncK t.kind = true) :
    fireable w t = (alive w t.aid && Sem.enabled w.sync t && Sem.wf w.sync t) := by
  cases hk : t.kind <;> simp [syncK, isMutexKind, isSemKind, isBarKind, hk] at h <;>
    simp [fireable, enabled, wf, labelOk, hk]

def setDead (s : State) (d : Int → Bool) : State := { s with dead := d }

@[simp] theorem setDead_mutex (s : State) (d : Int → Bool) : (setDead s d).mutex = s.mutex := rfl
@[simp] theorem setDead_sem (s : State) (d : Int → Bool) : (setDead s d).sem = s.sem := rfl
@[simp] theorem setDead_bar (s : State) (d : Int → Bool) : (setDead s d).bar = s.bar := rfl
@[simp] theorem setDead_ret (s : State) (d : Int → Bool) : (setDead s d).ret = s.ret := rfl
@[simp] theorem setDead_dead (s : State) (d : Int → Bool) : (setDead s d).dead = d := rfl

/-- the synchronisation handlers neither read nor write the `dead` flags -/
theorem exec_setDead (s : State) (d : Int → Bool) (t : Base) (h : syncK t.kind = true) :
    Sem.exec (setDead s d) t = setDead (Sem.exec s t) d := by
  cases hk : t.kind <;> simp [syncK, isMutexKind, isSemKind, isBarKind, hk] at h <;>
    simp [Sem.exec, setDead, isMutexKind, isSemKind, isBarKind, hk]

theorem enabled_setDead (s : State) (d : Int → Bool) (t : Base) (h : syncK t.kind = true) :
    Sem.enabled (setDead s d) t = Sem.enabled s t := by
  cases hk : t.kind <;> simp [syncK, isMutexKind, isSemKind, isBarKind, hk] at h <;> simp [Sem.enabled, setDead, hk]

theorem wf_setDead (s : State) (d : Int → Bool) (t : Base) (h : syncK t.kind = true) :
    Sem.wf (setDead s d) t = Sem.wf s t := by
  cases hk : t.kind <;> simp [syncK, isMutexKind, isSemKind, isBarKind, hk] at h <;> simp [Sem.wf, setDead, hk]

theorem exec_dead (s : State) (t : Base) (h : syncK t.kind = true) : (Sem.exec s t).dead = s.dead := by
  cases hk : t.kind <;> simp [syncK, isMutexKind, isSemKind, isBarKind, hk] at h <;>
    simp [Sem.exec, isMutexKind, isSemKind, isBarKind, hk]

/-- `exec` of a synchronisation transition, in one record -/
theorem exec_sync (w : World) (t : Base) (h : syncK t.kind = true) :
    exec w t = { w with sync := setDead (Sem.exec w.sync t) (upd w.sync.dead t.aid (w.sync.dead t.aid || decide (w.left t.aid ≤ 1))),
                        left := upd w.left t.aid (w.left t.aid - 1) } := by
  simp [exec, tick, setDead, core_sync w t h, exec_dead _ _ h]

theorem alive_exec_sync (w : World) (t : Base) (h : syncK t.kind = true) (a : Int) (ha : a ≠ t.aid) :
    alive (exec w t) a = alive w a := by
  rw [exec_sync _ _ h]
  simp only [alive, setDead_dead, upd, ha, if_false]

theorem enabled_exec_sync (w : World) (t t' : Base) (h : syncK t.kind = true) (h' : syncK t'.kind = true) :
    Sem.enabled (exec w t).sync t' = Sem.enabled (Sem.exec w.sync t) t' := by
  rw [exec_sync _ _ h]
  exact enabled_setDead _ _ _ h'

theorem wf_exec_sync (w : World) (t t' : Base) (h : syncK t.kind = true) (h' : syncK t'.kind = true) :
    Sem.wf (exec w t).sync t' = Sem.wf (Sem.exec w.sync t) t' := by
  rw [exec_sync _ _ h]
  exact wf_setDead _ _ _ h'

/-- lifting of a commutation result on `Sem.State` to the World -/
theorem lift_sync (w : World) (t1 t2 : Base) (k1 : syncK t1.kind = true) (k2 : syncK t2.kind = true) (ha : t1.aid ≠ t2.aid)
    (f1 : fireable w t1 = true) (f2 : fireable w t2 = true)
    (hS : Sem.enabled (Sem.exec w.sync t1) t2 = true ∧ Sem.enabled (Sem.exec w.sync t2) t1 = true ∧
          Sem.wf (Sem.exec w.sync t1) t2 = true ∧ Sem.wf (Sem.exec w.sync t2) t1 = true ∧
          (Sem.exec (Sem.exec w.sync t1) t2).equiv (Sem.exec (Sem.exec w.sync t2) t1)) : Commute w t1 t2 := by
  have ha' : t2.aid ≠ t1.aid := fun e => ha e.symm
  obtain ⟨s1, s2, s3, s4, s5⟩ := hS
  rw [fireable_sync _ _ k1] at f1
  rw [fireable_sync _ _ k2] at f2
  simp only [Bool.and_eq_true] at f1 f2
  refine ⟨?_, ?_, ?_⟩
  · rw [fireable_sync _ _ k2, alive_exec_sync _ _ k1 _ ha', enabled_exec_sync _ _ _ k1 k2, wf_exec_sync _ _ _ k1 k2, s1, s3, f2.1.1]
    rfl
  · rw [fireable_sync _ _ k1, alive_exec_sync _ _ k2 _ ha, enabled_exec_sync _ _ _ k2 k1, wf_exec_sync _ _ _ k2 k1, s2, s4, f1.1.1]
    rfl
  · obtain ⟨q1, q2, q3, q4, _⟩ := s5
    rw [exec_sync _ _ k1, exec_sync _ _ k2, exec_sync _ _ k2, exec_sync _ _ k1]
    simp only [exec_setDead _ _ _ k1, exec_setDead _ _ _ k2]
    intro l
    cases l <;> simp [World.get, q1, q2, q3, q4]
    · rename_i a
      by_cases h1 : a = t1.aid <;> by_cases h2 : a = t2.aid <;> simp_all [upd]
    · rename_i a
      by_cases h1 : a = t1.aid <;> by_cases h2 : a = t2.aid <;> simp_all [upd]

theorem fire_sync {w : World} {t : Base} (h : syncK t.kind = true) (f : fireable w t = true) :
    Sem.enabled w.sync t = true ∧ Sem.wf w.sync t = true := by
  rw [fireable_sync _ _ h] at f
  simp only [Bool.and_eq_true] at f
  exact ⟨f.1.2, f.2⟩

/-- reachable-state invariant used by the semaphore group -/
def World.inv (w : World) : Prop := ∀ m, (w.sync.sem m).inv

theorem mutex_group (w : World) (t1 t2 : Base) (h1 : isMutexKind t1.kind = true) (h2 : isMutexKind t2.kind = true)
    (ha : t1.aid ≠ t2.aid) (f1 : fireable w t1 = true) (f2 : fireable w t2 = true)
    (hd : depends (.base t1) (.base t2) = some false) : Commute w t1 t2 := by
  have k1 : syncK t1.kind = true := by simp [syncK, h1]
  have k2 : syncK t2.kind = true := by simp [syncK, h2]
  obtain ⟨e1, w1⟩ := fire_sync k1 f1
  obtain ⟨e2, w2⟩ := fire_sync k2 f2
  exact lift_sync w t1 t2 k1 k2 ha f1 f2 (indep_commute_mutex_aux w.sync t1 t2 h1 h2 ha e1 e2 w1 w2 hd)

theorem wf_of_not_mutex (s : State) (t : Base) (h : isMutexKind t.kind = false) : Sem.wf s t = true := by
  cases hk : t.kind <;> simp [isMutexKind, hk] at h <;> simp [Sem.wf, hk]

theorem sem_group (w : World) (t1 t2 : Base) (h1 : isSemKind t1.kind = true) (h2 : isSemKind t2.kind = true)
    (ha : t1.aid ≠ t2.aid) (hinv : w.inv) (f1 : fireable w t1 = true) (f2 : fireable w t2 = true)
    (hd : depends (.base t1) (.base t2) = some false) : Commute w t1 t2 := by
  have k1 : syncK t1.kind = true := by simp [syncK, h1]
  have k2 : syncK t2.kind = true := by simp [syncK, h2]
  have m1 : isMutexKind t1.kind = false := by cases hk : t1.kind <;> simp [isSemKind, hk] at h1 <;> rfl
  have m2 : isMutexKind t2.kind = false := by cases hk : t2.kind <;> simp [isSemKind, hk] at h2 <;> rfl
  obtain ⟨e1, _⟩ := fire_sync k1 f1
  obtain ⟨e2, _⟩ := fire_sync k2 f2
  obtain ⟨c1, c2, c3⟩ := indep_commute_sem_aux w.sync t1 t2 h1 h2 ha hinv e1 e2 hd
  exact lift_sync w t1 t2 k1 k2 ha f1 f2 ⟨c1, c2, wf_of_not_mutex _ _ m2, wf_of_not_mutex _ _ m1, c3⟩

theorem bar_group (w : World) (t1 t2 : Base) (h1 : isBarKind t1.kind = true) (h2 : isBarKind t2.kind = true)
    (ha : t1.aid ≠ t2.aid) (f1 : fireable w t1 = true) (f2 : fireable w t2 = true)
    (hd : depends (.base t1) (.base t2) = some false) : Commute w t1 t2 := by
  have k1 : syncK t1.kind = true := by simp [syncK, h1]
  have k2 : syncK t2.kind = true := by simp [syncK, h2]
  have m1 : isMutexKind t1.kind = false := by cases hk : t1.kind <;> simp [isBarKind, hk] at h1 <;> rfl
  have m2 : isMutexKind t2.kind = false := by cases hk : t2.kind <;> simp [isBarKind, hk] at h2 <;> rfl
  obtain ⟨e1, _⟩ := fire_sync k1 f1
  obtain ⟨e2, _⟩ := fire_sync k2 f2
  obtain ⟨c1, c2, c3⟩ := indep_commute_bar_aux w.sync t1 t2 h1 h2 ha e1 e2 hd
  exact lift_sync w t1 t2 k1 k2 ha f1 f2 ⟨c1, c2, wf_of_not_mutex _ _ m2, wf_of_not_mutex _ _ m1, c3⟩

end SgVerif.C39.Full
