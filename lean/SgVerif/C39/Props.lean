import SgVerif.C39.Lemmas
/-
C39 — Declared-independent transitions commute; the dependency relation is symmetric.
Property theorems only.  `depends`, `lut`, `evalAction` come from the GENERATED module Gen.lean (the table is what the
compiler computed for `dependency_table`, the arms are transliterated from `Transition::dispatch_depends`), so building
this file re-checks the theorems against the source as it is now.
-/
namespace SgVerif.C39

/-- **The dependency relation is symmetric** — for every pair of transitions (any kinds incl. TESTANY/WAITANY with any
member lists, any parameter values, any actors), including *whether the checker aborts* (`none`).
Proof: unequal kinds are swapped into the same (row ≤ column) cell by both calls; equal kinds select a diagonal cell,
and every arm on the diagonal of the generated table is symmetric (`evalAction_diag_symm`, by cases over the table). -/
theorem depends_symm (t1 t2 : Tr) : depends t1 t2 = depends t2 t1 := by
  unfold depends
  by_cases h : t1.aid = t2.aid
  · simp [h]
  · have h' : ¬ t2.aid = t1.aid := fun e => h e.symm
    simp only [h, h', if_false]
    cases t1.current <;> cases t2.current <;> simp [dependsBase_symm]

/-- the table itself is symmetric (finite table: cases over the 30 × 30 generated cells). `dispatch_depends` only
reads the upper triangle, so this is about the builder (`rule` writes both cells), not needed by `depends_symm`. -/
theorem lut_symm (k1 k2 : Kind) : lut k1 k2 = lut k2 k1 := by
  cases k1 <;> cases k2 <;> rfl

/-- every `static_cast<const XTransition*>` of the arm selected for a cell is applied to an object whose kind is
constructed as an `XTransition` by `deserialize_transition` (finite table). Otherwise the real `depends` would read
members of the wrong class. -/
theorem casts_wellTyped (k1 k2 : Kind) (h : k1.toNat ≤ k2.toNat) : castsOk k1 k2 = true := by
  cases k1 <;> cases k2 <;> first | rfl | (exfalso; revert h; decide)

/-- two transitions of the same actor are always dependent -/
theorem same_actor_dependent (t1 t2 : Tr) (h : t1.aid = t2.aid) : depends t1 t2 = some true := by
  simp [depends, h]

-- non-vacuity: concrete dependent and independent pairs, and a pair on which the checker aborts
example : depends (.base { kind := .MUTEX_ASYNC_LOCK, aid := 1, mutex := 3 })
                  (.base { kind := .MUTEX_TRYLOCK, aid := 2, mutex := 3 }) = some true := by decide
example : depends (.base { kind := .MUTEX_ASYNC_LOCK, aid := 1, mutex := 3 })
                  (.base { kind := .MUTEX_UNLOCK, aid := 2, mutex := 3 }) = some false := by decide
example : depends (.waitany 1 0 [{ kind := .COMM_WAIT, aid := 1, comm := 7, mbox := 2, sender := 1, receiver := -1 }])
                  (.base { kind := .COMM_ASYNC_RECV, aid := 2, mbox := 2 }) = none := by decide
example : depends (.waitany 1 1 [{ kind := .COMM_WAIT, aid := 1, comm := 7, mbox := 2, sender := 1, receiver := 2 },
                                 { kind := .COMM_WAIT, aid := 1, comm := 8, mbox := 2, sender := 1, receiver := -1 },
                                 { kind := .COMM_WAIT, aid := 1, comm := 9, mbox := 2, sender := 3, receiver := 1 }])
                  (.base { kind := .COMM_ASYNC_SEND, aid := 3, mbox := 2, comm := 9 }) = some true := by decide

end SgVerif.C39
