import SgVerif.C39.Lemmas
import SgVerif.C39.Commute
import SgVerif.C39.SemGroups
import SgVerif.C39.Assembly
import SgVerif.C39.WorldLts
import SgVerif.C38.Props
/-
C39 — Declared-independent transitions commute; the dependency relation is symmetric.
Property theorems only.  `depends`, `lut`, `evalAction` come from the GENERATED module Gen.lean (the table is what the
compiler computed for `dependency_table`, the arms are transliterated from `Transition::dispatch_depends`), so building
this file re-checks the theorems against the source as it is now.
-/
namespace SgVerif.C39

/-- **The dependency relation is symmetric** — for every pair of transitions (any kinds incl. TESTANY/WAITANY with any
member lists, any parameter values, any actors), including *whether the checker aborts* (`none`).
Proof: unequal kinds are swapped into the same (row ≤ column) cell by both calls; equal kinds select a diagonal cell,
and every arm on the diagonal of the generated table is symmetric (`evalAction_diag_symm`, by cases over the table). -/
theorem depends_symm (t1 t2 : Tr) : depends t1 t2 = depends t2 t1 := by
  unfold depends
  by_cases h : t1.aid = t2.aid
  · simp [h]
  · have h' : ¬ t2.aid = t1.aid := fun e => h e.symm
    simp only [h, h', if_false]
    cases t1.current <;> cases t2.current <;> simp [dependsBase_symm]

/-- the table itself is symmetric (finite table: cases over the 30 × 30 generated cells). `dispatch_depends` only
reads the upper triangle, so this is about the builder (`rule` writes both cells), not needed by `depends_symm`. -/
theorem lut_symm (k1 k2 : Kind) : lut k1 k2 = lut k2 k1 := by
  cases k1 <;> cases k2 <;> rfl

/-- every `static_cast<const XTransition*>` of the arm selected for a cell is applied to an object whose kind is
constructed as an `XTransition` by `deserialize_transition` (finite table). Otherwise the real `depends` would read
members of the wrong class. -/
theorem casts_wellTyped (k1 k2 : Kind) (h : k1.toNat ≤ k2.toNat) : castsOk k1 k2 = true := by
  cases k1 <;> cases k2 <;> first | rfl | (exfalso; revert h; decide)

/-- two transitions of the same actor are always dependent -/
theorem same_actor_dependent (t1 t2 : Tr) (h : t1.aid = t2.aid) : depends t1 t2 = some true := by
  simp [depends, h]

-- non-vacuity: concrete dependent and independent pairs, and a pair on which the checker aborts
example : depends (.base { kind := .MUTEX_ASYNC_LOCK, aid := 1, mutex := 3 })
                  (.base { kind := .MUTEX_TRYLOCK, aid := 2, mutex := 3 }) = some true := by decide
example : depends (.base { kind := .MUTEX_ASYNC_LOCK, aid := 1, mutex := 3 })
                  (.base { kind := .MUTEX_UNLOCK, aid := 2, mutex := 3 }) = some false := by decide
example : depends (.waitany 1 0 [{ kind := .COMM_WAIT, aid := 1, comm := 7, mbox := 2, sender := 1, receiver := -1 }])
                  (.base { kind := .COMM_ASYNC_RECV, aid := 2, mbox := 2 }) = none := by decide
example : depends (.waitany 1 1 [{ kind := .COMM_WAIT, aid := 1, comm := 7, mbox := 2, sender := 1, receiver := 2 },
                                 { kind := .COMM_WAIT, aid := 1, comm := 8, mbox := 2, sender := 1, receiver := -1 },
                                 { kind := .COMM_WAIT, aid := 1, comm := 9, mbox := 2, sender := 3, receiver := 1 }])
                  (.base { kind := .COMM_ASYNC_SEND, aid := 3, mbox := 2, comm := 9 }) = some true := by decide

/-! ## Declared-independent transitions commute (MC-mode semantics of `Sem`, unbounded queues, any number of actors)

Full-strength statement of the property (DESIGN §8 C39):
  theorem indep_commute : ∀ s t₁ t₂, aid t₁ ≠ aid t₂ → enabled s t₁ → enabled s t₂ → depends t₁ t₂ = some false →
      enabled (exec s t₁) t₂ ∧ enabled (exec s t₂) t₁ ∧ exec (exec s t₁) t₂ ≈ exec (exec s t₂) t₁
It WAS false for BARRIER_ASYNC_LOCK × BARRIER_ASYNC_LOCK and for COMM_TEST × COMM_ASYNC_SEND/RECV on an unpaired comm;
both cells are repaired (`barrier_lock_lock_counterexample`, `comm_send_test_counterexample` are now regression
statements: the OLD cell / arm, kept as literals, fails on the witness and the current `depends` answers "dependent").
Proved below group by group: mutex (all 25 pairs of kinds), semaphore (all 9 pairs), barrier (all 4 pairs), and the
repaired cell COMM_TEST × COMM_ASYNC_SEND on the mailbox mini-model (`comm_send_test_commute`).  Not proved: the other
comm cells, actor, condvar groups and cross-group pairs: the statement over all groups remains `_partial`.
`≈` is `State.equiv` (pointwise equality: the transitions of these groups allocate no identifiers). -/
open Sem

/-- **Mutex group** — every pair of MUTEX_{ASYNC_LOCK,TEST,TRYLOCK,UNLOCK,WAIT} transitions of different actors, on
the same or on different mutexes, any owner, any waiting queue.  `wf` excludes only an UNLOCK by a non-owner, on which
`MutexImpl::unlock` aborts ("undefined behavior" per its own message); the conclusion includes that neither order hits
that assertion and that each actor observes the same result (`ret`: try_lock / test outcome) in both orders. -/
theorem indep_commute_mutex (s : State) (t1 t2 : Base)
    (h1 : isMutexKind t1.kind = true) (h2 : isMutexKind t2.kind = true) (ha : t1.aid ≠ t2.aid)
    (e1 : enabled s t1 = true) (e2 : enabled s t2 = true) (w1 : wf s t1 = true) (w2 : wf s t2 = true)
    (hd : depends (.base t1) (.base t2) = some false) :
    enabled (exec s t1) t2 = true ∧ enabled (exec s t2) t1 = true ∧
    wf (exec s t1) t2 = true ∧ wf (exec s t2) t1 = true ∧
    (exec (exec s t1) t2).equiv (exec (exec s t2) t1) :=
  indep_commute_mutex_aux s t1 t2 h1 h2 ha e1 e2 w1 w2 hd

/-- without `wf` the mutex statement is false at model level: an actor queued on a mutex that issues UNLOCK
(impossible through s4u::Mutex, whose lock() is ASYNC_LOCK immediately followed by WAIT) becomes the owner if the real
owner unlocks first, and hits the assertion otherwise.  Recorded, not a finding: not reachable through the public API. -/
theorem mutex_unlock_nonowner_counterexample :
    let s : State := { mutex := fun _ => { owner := some 1, queue := [2] }, sem := fun _ => ⟨0, [], []⟩,
                       bar := fun _ => ⟨0, [], []⟩, ret := fun _ => 0, dead := fun _ => false }
    let t1 : Base := { kind := .MUTEX_UNLOCK, aid := 1, mutex := 0 }
    let t2 : Base := { kind := .MUTEX_UNLOCK, aid := 2, mutex := 0 }
    depends (.base t1) (.base t2) = some false ∧ wf s t2 = false ∧ wf (exec s t1) t2 = true := by decide

/-- **Semaphore group** — every pair of SEM_{ASYNC_LOCK,UNLOCK,WAIT} transitions of different actors, any value, any
queues; `SemSt.inv` (acquisitions only queue up at value 0) is the reachable-state invariant, preserved by every
transition (`sem_inv_preserved_all`). -/
theorem indep_commute_sem (s : State) (t1 t2 : Base)
    (h1 : isSemKind t1.kind = true) (h2 : isSemKind t2.kind = true) (ha : t1.aid ≠ t2.aid)
    (hinv : ∀ m, (s.sem m).inv)
    (e1 : enabled s t1 = true) (e2 : enabled s t2 = true)
    (hd : depends (.base t1) (.base t2) = some false) :
    enabled (exec s t1) t2 = true ∧ enabled (exec s t2) t1 = true ∧
    (exec (exec s t1) t2).equiv (exec (exec s t2) t1) :=
  indep_commute_sem_aux s t1 t2 h1 h2 ha hinv e1 e2 hd

theorem sem_inv_preserved_all (s : State) (t : Base) (h : isSemKind t.kind = true) (hinv : ∀ m, (s.sem m).inv) :
    ∀ m, ((exec s t).sem m).inv :=
  sem_inv_preserved_all_aux s t h hinv

/-- **Barrier group** — every pair of BARRIER_{ASYNC_LOCK,WAIT} transitions of different actors, on the same or on
different barriers, any expected count (0 included), any waiting / granted lists.  Since the repair of the cell
BARRIER_ASYNC_LOCK × BARRIER_ASYNC_LOCK the only pair declared independent on one barrier is WAIT × WAIT. -/
theorem indep_commute_bar (s : State) (t1 t2 : Base)
    (h1 : isBarKind t1.kind = true) (h2 : isBarKind t2.kind = true) (ha : t1.aid ≠ t2.aid)
    (e1 : enabled s t1 = true) (e2 : enabled s t2 = true)
    (hd : depends (.base t1) (.base t2) = some false) :
    enabled (exec s t1) t2 = true ∧ enabled (exec s t2) t1 = true ∧
    (exec (exec s t1) t2).equiv (exec (exec s t2) t1) :=
  indep_commute_bar_aux s t1 t2 h1 h2 ha e1 e2 hd

/-- **Regression (repaired defect `barrier-lock-lock-declared-independent`).**  Barrier of 2 with one actor (3) already
waiting; actors 1 and 2 both about to lock: whoever locks first trips the barrier together with 3 and the other one is
left waiting, so the two orders end in different states (and differ in which BARRIER_WAIT is enabled).  The OLD table
held `ALWAYS_INDEP` in the cell BARRIER_ASYNC_LOCK × BARRIER_ASYNC_LOCK (literal below: that arm answers "independent"
on this pair); the table as compiled now selects `EVAL_BARRIER_DEPENDS` and `depends` answers "dependent". -/
theorem barrier_lock_lock_counterexample :
    let s : State := { mutex := fun _ => ⟨none, []⟩, sem := fun _ => ⟨0, [], []⟩,
                       bar := fun _ => { expected := 2, waiting := [3], granted := [] }, ret := fun _ => 0, dead := fun _ => false }
    let t1 : Base := { kind := .BARRIER_ASYNC_LOCK, aid := 1, bar := 0 }
    let t2 : Base := { kind := .BARRIER_ASYNC_LOCK, aid := 2, bar := 0 }
    let w1 : Base := { kind := .BARRIER_WAIT, aid := 1, bar := 0 }
    evalAction .ALWAYS_INDEP t1 t2 = some false ∧                  -- the old cell
    lut .BARRIER_ASYNC_LOCK .BARRIER_ASYNC_LOCK = .EVAL_BARRIER_DEPENDS ∧ depends (.base t1) (.base t2) = some true ∧
    enabled s t1 = true ∧ enabled s t2 = true ∧
    (exec (exec s t1) t2).bar 0 ≠ (exec (exec s t2) t1).bar 0 ∧
    enabled (exec (exec s t1) t2) w1 = true ∧ enabled (exec (exec s t2) t1) w1 = false := by decide

/-- the arm EVAL_COMM_SEND_TEST (= EVAL_COMM_RECV_TEST up to the class of `t1`) as it was BEFORE the repair of
`comm-test-vs-async-send-recv-unpaired`, kept as a literal for the regression statement below:
  if (s->get_mailbox() != t->get_mailbox()) return false;
  if ((s->aid_ != t->get_sender()) && (s->aid_ != t->get_receiver())) return false;
  return t->get_comm() == s->get_comm(); -/
def oldCommSendTestArm (t1 t2 : Base) : Option Bool :=
  if t1.mbox != t2.mbox then some false
  else if (t1.aid != t2.sender) && (t1.aid != t2.receiver) then some false
  else some (t2.comm == t1.comm)

/-- the repaired arm = the old one preceded by "a test whose comm has no sender yet depends on every send on its mailbox" -/
theorem commSendTestArm_eq (t1 t2 : Base) :
    evalAction .EVAL_COMM_SEND_TEST t1 t2 =
      if t1.mbox != t2.mbox then some false else if !(t2.sender != -1) then some true else oldCommSendTestArm t1 t2 := by
  simp only [evalAction, oldCommSendTestArm]
  by_cases h : t1.mbox = t2.mbox <;> simp [h]

theorem commRecvTestArm_eq (t1 t2 : Base) :
    evalAction .EVAL_COMM_RECV_TEST t1 t2 =
      if t1.mbox != t2.mbox then some false else if !(t2.receiver != -1) then some true else oldCommSendTestArm t1 t2 := by
  simp only [evalAction, oldCommSendTestArm]
  by_cases h : t1.mbox = t2.mbox <;> simp [h]

/-- **Regression (repaired defect `comm-test-vs-async-send-recv-unpaired`).**  Actor 1 posted a receive (comm 7 on
mailbox 0, no sender yet) and is about to test it; actor 2 is about to send on mailbox 0.  The OLD arm answered
"independent" because actor 2 is neither the sender (-1) nor the receiver (1) recorded in the test, but the send pairs
comm 7: the test fails if it goes first and succeeds if it goes second.  The current `depends` answers "dependent". -/
theorem comm_send_test_counterexample :
    let s : CommSem.CState := { sender := fun _ => -1, receiver := fun c => if c = 7 then 1 else -1,
                                recvq := fun m => if m = 0 then [7] else [], ret := fun _ => 0, exists_ := fun _ => true }
    let t1 : Base := { kind := .COMM_TEST, aid := 1, comm := 7, sender := -1, receiver := 1, mbox := 0 }
    let t2 : Base := { kind := .COMM_ASYNC_SEND, aid := 2, comm := 0, mbox := 0 }
    oldCommSendTestArm t2 t1 = some false ∧                         -- the old arm (operands in table order: SEND, TEST)
    lut .COMM_ASYNC_SEND .COMM_TEST = .EVAL_COMM_SEND_TEST ∧ depends (.base t1) (.base t2) = some true ∧
    CommSem.enabled s t1 = true ∧ CommSem.enabled s t2 = true ∧
    (CommSem.exec (CommSem.exec s t1) t2).ret 1 = 0 ∧ (CommSem.exec (CommSem.exec s t2) t1).ret 1 = 1 := by decide

/-- **Repaired cell COMM_ASYNC_SEND × COMM_TEST commutes** on the mailbox mini-model `CommSem` (receive queues only), for
every state, every test and every send of different actors.  Hypotheses tying the test's label to the state, as the
application reports it: the recorded sender/receiver are those of the tested comm (`hs`, `hr`); a pending receive has no
sender yet, and the tested comm, if still pending, is pending in the mailbox recorded in the test (`hq`). -/
theorem comm_send_test_commute (s : CommSem.CState) (t1 t2 : Base)
    (h1 : t1.kind = .COMM_TEST) (h2 : t2.kind = .COMM_ASYNC_SEND) (ha : t1.aid ≠ t2.aid)
    (hs : t1.sender = s.sender t1.comm) (_hr : t1.receiver = s.receiver t1.comm)
    (hq : ∀ m c, c ∈ s.recvq m → s.sender c = -1 ∧ (c = t1.comm → m = t1.mbox))
    (hd : depends (.base t1) (.base t2) = some false) :
    CommSem.enabled (CommSem.exec s t1) t2 = CommSem.enabled s t2 ∧
    CommSem.enabled (CommSem.exec s t2) t1 = CommSem.enabled s t1 ∧
    (CommSem.exec (CommSem.exec s t1) t2).ret t1.aid = (CommSem.exec s t1).ret t1.aid ∧
    (∀ a, (CommSem.exec (CommSem.exec s t1) t2).ret a = (CommSem.exec (CommSem.exec s t2) t1).ret a) ∧
    (∀ c, (CommSem.exec (CommSem.exec s t1) t2).sender c = (CommSem.exec (CommSem.exec s t2) t1).sender c) ∧
    (∀ m, (CommSem.exec (CommSem.exec s t1) t2).recvq m = (CommSem.exec (CommSem.exec s t2) t1).recvq m) := by
  have hdep : evalAction .EVAL_COMM_SEND_TEST t2 t1 = some false := by
    simpa [depends, Tr.aid, Tr.current, dependsBase, ha, h1, h2, Kind.toNat, lut, lutRow_COMM_ASYNC_SEND] using hd
  rw [commSendTestArm_eq] at hdep
  cases hqm : s.recvq t2.mbox with
  | nil => simp [CommSem.exec, CommSem.enabled, h1, h2, hqm]
  | cons c cs =>
    have hc := hq t2.mbox c (by simp [hqm])
    have hne : ¬ t1.comm = c := by
      intro e
      have hm : t2.mbox = t1.mbox := hc.2 e.symm
      have hs' : t1.sender = -1 := by rw [hs, e]; exact hc.1
      simp [hm, hs'] at hdep
    simp [CommSem.exec, CommSem.enabled, CommSem.upd, h1, h2, hqm, hne]

/-- **Regression (repaired defect `random-indep-of-own-actor-create` / `odpor-random-with-created-actor-spurious-crash`).**
`rule_all(RANDOM, ALWAYS_INDEP)` used to overwrite the cell RANDOM × ACTOR_CREATE too (old cell value as a literal
below), so the first transition of a created actor, when it is a RANDOM, was declared independent of the ACTOR_CREATE
that *enables* it.  The cell is `EVAL_T2_ACTOR_CREATE` again: dependent iff the RANDOM is issued by the created actor. -/
theorem random_create_enables_counterexample :
    let s : CommSem.CState := { sender := fun _ => -1, receiver := fun _ => -1, recvq := fun _ => [], ret := fun _ => 0,
                                exists_ := fun a => a == 1 }
    let t1 : Base := { kind := .ACTOR_CREATE, aid := 1, child := 3 }
    let t2 : Base := { kind := .RANDOM, aid := 3, min := 0, max := 1 }
    let t3 : Base := { kind := .RANDOM, aid := 2, min := 0, max := 1 }
    evalAction .ALWAYS_INDEP t2 t1 = some false ∧                   -- the old cell
    lut .RANDOM .ACTOR_CREATE = .EVAL_T2_ACTOR_CREATE ∧
    depends (.base t1) (.base t2) = some true ∧ depends (.base t1) (.base t3) = some false ∧
    CommSem.enabled s t2 = false ∧ CommSem.enabled (CommSem.exec s t1) t2 = true := by decide

-- non-vacuity of the commute theorems: a declared-independent, co-enabled LOCK/UNLOCK pair on a contended mutex
example :
    let s : State := { mutex := fun _ => { owner := some 2, queue := [5] }, sem := fun _ => ⟨0, [], []⟩,
                       bar := fun _ => ⟨0, [], []⟩, ret := fun _ => 0, dead := fun _ => false }
    let t1 : Base := { kind := .MUTEX_ASYNC_LOCK, aid := 1, mutex := 0 }
    let t2 : Base := { kind := .MUTEX_UNLOCK, aid := 2, mutex := 0 }
    isMutexKind t1.kind = true ∧ isMutexKind t2.kind = true ∧ enabled s t1 = true ∧ enabled s t2 = true ∧
    wf s t1 = true ∧ wf s t2 = true ∧ depends (.base t1) (.base t2) = some false ∧
    (exec (exec s t1) t2).mutex 0 = { owner := some 5, queue := [1] } := by decide
example :
    let s : State := { mutex := fun _ => ⟨none, []⟩, sem := fun _ => { value := 0, queue := [4], granted := [2] },
                       bar := fun _ => ⟨0, [], []⟩, ret := fun _ => 0, dead := fun _ => false }
    let t1 : Base := { kind := .SEM_UNLOCK, aid := 1, sem := 0 }
    let t2 : Base := { kind := .SEM_WAIT, aid := 2, sem := 0 }
    enabled s t1 = true ∧ enabled s t2 = true ∧ (s.sem 0).inv ∧ depends (.base t1) (.base t2) = some true := by
  refine ⟨by decide, by decide, ?_, by decide⟩
  simp [SemSt.inv]

-- non-vacuity of `indep_commute_bar`: two granted waiters of one barrier (WAIT × WAIT), and locks of two barriers
example :
    let s : State := { mutex := fun _ => ⟨none, []⟩, sem := fun _ => ⟨0, [], []⟩,
                       bar := fun _ => { expected := 2, waiting := [], granted := [1, 2] }, ret := fun _ => 0, dead := fun _ => false }
    let t1 : Base := { kind := .BARRIER_WAIT, aid := 1, bar := 0 }
    let t2 : Base := { kind := .BARRIER_WAIT, aid := 2, bar := 0 }
    isBarKind t1.kind = true ∧ isBarKind t2.kind = true ∧ enabled s t1 = true ∧ enabled s t2 = true ∧
    depends (.base t1) (.base t2) = some false ∧ (exec (exec s t1) t2).bar 0 = { expected := 2, waiting := [], granted := [] } := by
  decide
example : depends (.base { kind := .BARRIER_ASYNC_LOCK, aid := 1, bar := 0 })
                  (.base { kind := .BARRIER_ASYNC_LOCK, aid := 2, bar := 1 }) = some false := by decide
-- non-vacuity of `comm_send_test_commute`: the tested comm (7, mailbox 0) is already paired, another receive (8) is pending
example :
    let s : CommSem.CState := { sender := fun c => if c = 7 then 3 else -1, receiver := fun c => if c = 7 then 1 else if c = 8 then 4 else -1,
                                recvq := fun m => if m = 0 then [8] else [], ret := fun _ => 0, exists_ := fun _ => true }
    let t1 : Base := { kind := .COMM_TEST, aid := 1, comm := 7, sender := 3, receiver := 1, mbox := 0 }
    let t2 : Base := { kind := .COMM_ASYNC_SEND, aid := 2, comm := 0, mbox := 0 }
    t1.sender = s.sender t1.comm ∧ t1.receiver = s.receiver t1.comm ∧ depends (.base t1) (.base t2) = some false ∧
    (CommSem.exec (CommSem.exec s t2) t1).ret 1 = 1 ∧ (CommSem.exec s t2).sender 8 = 2 := by decide
example :     -- ... and that state satisfies the queue hypothesis `hq` of the theorem
    let s : CommSem.CState := { sender := fun c => if c = 7 then 3 else -1, receiver := fun c => if c = 7 then 1 else if c = 8 then 4 else -1,
                                recvq := fun m => if m = 0 then [8] else [], ret := fun _ => 0, exists_ := fun _ => true }
    ∀ m c, c ∈ s.recvq m → s.sender c = -1 ∧ (c = 7 → m = 0) := by
  intro s m c h
  by_cases hm : m = 0
  · have hc : c = 8 := by simpa [s, hm] using h
    subst hc; simp [s]
  · simp [s, hm] at h


/-! ## `indep_commute` over ALL pairs of kinds (World = mutexes, semaphores, barriers, condition variables, mailboxes,
actor table; MC-mode semantics, unbounded queues, any number of actors)

Full-strength statement (DESIGN §8 C39), FALSE on the current table because of ONE cell:
  ∀ w t₁ t₂, w.inv → aid t₁ ≠ aid t₂ → fireable w t₁ → fireable w t₂ → depends t₁ t₂ = some false →
     fireable (exec w t₁) t₂ ∧ fireable (exec w t₂) t₁ ∧ exec (exec w t₁) t₂ ≈ exec (exec w t₂) t₁
`condvar_async_lock_pair_counterexample`: two CONDVAR_ASYNC_LOCK on ONE condition variable (with two mutexes) are
`ALWAYS_INDEP` in the table but enqueue their issuers in execution order (finding
`condvar-async-lock-pair-declared-independent`, replayed on the real implementation).  `indep_commute` below is the
statement with exactly that cell excluded (`calPair`).  `fireable` = issuer alive ∧ observer `is_enabled()` ∧ no kernel
`xbt_assert` (unlock / condvar wait by a non-owner) ∧ the label describes the state (comm number, recorded peers, fresh
child pid, no timeout).  `≈` = equality location by location. -/
open Full

/-- **Declared-independent transitions commute — every pair of kinds** (30 × 30 cells of the generated table, every arm,
all parameters), for every state of the World satisfying the semaphore invariant, any queues, any number of actors:
both stay fireable (neither disables the other, no kernel assertion appears, labels stay valid) and the two orders reach
the same state.  Only hypothesis on the cell: it is not `calPair` (two CONDVAR_ASYNC_LOCK on one condvar: counterexample
below).  Kinds the checker refuses (`depends = none`: *_NOMC, unwrapped ANY) are excluded by `hd` itself.
Proof: footprint theorem (`Full.disjoint_commute`) for the cross-group cells (`Full.tag_noWrite`, finite table
`Full.family_table`), non-co-enabledness for the ACTOR_JOIN / ACTOR_CREATE rows, and the five family theorems. -/
theorem indep_commute (w : World) (t1 t2 : Base) (hinv : w.inv) (ha : t1.aid ≠ t2.aid)
    (f1 : fireable w t1 = true) (f2 : fireable w t2 = true)
    (hd : depends (.base t1) (.base t2) = some false) (hx : calPair t1 t2 = false) :
    fireable (Full.exec w t1) t2 = true ∧ fireable (Full.exec w t2) t1 = true ∧
    (Full.exec (Full.exec w t1) t2).equiv (Full.exec (Full.exec w t2) t1) :=
  indep_commute_aux w t1 t2 hinv ha f1 f2 hd hx

/-- the footprint argument, on its own: two transitions none of which writes a location the other reads or writes
(`Full.rd`, `Full.wr`: lists of locations per kind) commute and leave each other's fireability unchanged — whatever
the table says.  Used for all cross-group cells (mutex × sem, comm × mutex, …). -/
theorem footprint_commute (w : World) (t1 t2 : Base) (h21 : noWriteInto t2 t1) (h12 : noWriteInto t1 t2) :
    fireable (Full.exec w t1) t2 = fireable w t2 ∧ fireable (Full.exec w t2) t1 = fireable w t1 ∧
    (Full.exec (Full.exec w t1) t2).equiv (Full.exec (Full.exec w t2) t1) :=
  disjoint_commute w t1 t2 h21 h12

/-- cross-group cells: whenever the shared locations of two kinds carry different tags (finite table `tagDisj`) the
footprints of two transitions of different actors are disjoint, for all parameters -/
theorem cross_group_footprints_disjoint (t1 t2 : Base) (ha : t1.aid ≠ t2.aid) (h : tagDisj t1.kind t2.kind = true) :
    noWriteInto t2 t1 ∧ noWriteInto t1 t2 :=
  tag_noWrite t1 t2 ha h

/-- the World invariant (acquisitions of a semaphore only queue up at value 0) is preserved by every transition -/
theorem world_inv_preserved (w : World) (t : Base) (hinv : w.inv) : (Full.exec w t).inv :=
  inv_preserved w t hinv

/-- a World for the examples: everything empty, actors 1..4 exist with 5 transitions left each -/
def w0 : World :=
  { sync := { mutex := fun _ => ⟨none, []⟩, sem := fun _ => ⟨0, [], []⟩, bar := fun _ => ⟨0, [], []⟩, ret := fun _ => 0, dead := fun _ => false },
    cvW := fun _ => [], cvG := fun _ => [], sends := fun _ => [], recvs := fun _ => [],
    ex := fun a => decide (1 ≤ a ∧ a ≤ 4), left := fun _ => 5, nextPid := 5 }

/-- **Counterexample (finding `condvar-async-lock-pair-declared-independent`).**  Actor 1 owns mutex 0, actor 2 owns
mutex 1, both are about to wait on condition variable 0 (CONDVAR_ASYNC_LOCK).  The table answers "independent"
(`ALWAYS_INDEP`), both are fireable, but the waiting queue of the condvar is [1,2] in one order and [2,1] in the other:
a later CONDVAR_SIGNAL grants actor 1 in one case and actor 2 in the other.  Replayed on the real implementation
(props/C39/witness_condvar.cpp: outcomes `1|0|` vs `0|1|`; dpor / sdpor / odpor explore one execution and miss the other). -/
theorem condvar_async_lock_pair_counterexample :
    let w : World := { w0 with sync := { w0.sync with mutex := fun m => if m = 0 then ⟨some 1, []⟩ else if m = 1 then ⟨some 2, []⟩ else ⟨none, []⟩ } }
    let t1 : Base := { kind := .CONDVAR_ASYNC_LOCK, aid := 1, condvar := 0, mutex := 0 }
    let t2 : Base := { kind := .CONDVAR_ASYNC_LOCK, aid := 2, condvar := 0, mutex := 1 }
    let sg : Base := { kind := .CONDVAR_SIGNAL, aid := 3, condvar := 0 }
    lut .CONDVAR_ASYNC_LOCK .CONDVAR_ASYNC_LOCK = .ALWAYS_INDEP ∧ depends (.base t1) (.base t2) = some false ∧
    fireable w t1 = true ∧ fireable w t2 = true ∧ calPair t1 t2 = true ∧
    (Full.exec (Full.exec w t1) t2).cvW 0 = [1, 2] ∧ (Full.exec (Full.exec w t2) t1).cvW 0 = [2, 1] ∧
    (Full.exec (Full.exec (Full.exec w t1) t2) sg).cvG 0 = [1] ∧ (Full.exec (Full.exec (Full.exec w t2) t1) sg).cvG 0 = [2] := by
  decide

-- non-vacuity of `indep_commute`: a cross-group pair, a comm pair on one mailbox, a condvar / mutex pair on one mutex
example :       -- MUTEX_UNLOCK (hand-off to the queue) × SEM_ASYNC_LOCK
    let w : World := { w0 with sync := { w0.sync with mutex := fun _ => ⟨some 1, [3]⟩ } }
    let t1 : Base := { kind := .MUTEX_UNLOCK, aid := 1, mutex := 0 }
    let t2 : Base := { kind := .SEM_ASYNC_LOCK, aid := 2, sem := 0 }
    fireable w t1 = true ∧ fireable w t2 = true ∧ depends (.base t1) (.base t2) = some false ∧ calPair t1 t2 = false ∧
    (Full.exec (Full.exec w t1) t2).sync.mutex 0 = ⟨some 3, []⟩ ∧ (Full.exec (Full.exec w t1) t2).sync.sem 0 = ⟨0, [2], []⟩ := by decide
example : w0.inv := by intro m; simp [w0, SemSt.inv]
example :       -- COMM_ASYNC_SEND × COMM_TEST on mailbox 0: the tested comm (0,0) already has its sender (3), the send is comm (0,1)
    let w : World := { w0 with sends := fun x => if x = 0 then [3] else [], recvs := fun _ => [] }
    let t1 : Base := { kind := .COMM_ASYNC_SEND, aid := 1, mbox := 0, comm := 1 }
    let t2 : Base := { kind := .COMM_TEST, aid := 2, mbox := 0, comm := 0, sender := 3, receiver := -1 }
    fireable w t1 = true ∧ fireable w t2 = true ∧ depends (.base t1) (.base t2) = some false ∧
    (Full.exec (Full.exec w t1) t2).sends 0 = [3, 1] ∧ (Full.exec (Full.exec w t1) t2).sync.ret 2 = 0 := by decide
example :       -- CONDVAR_ASYNC_LOCK (releases mutex 0 to the queue) × CONDVAR_WAIT of a granted actor (lock_async on mutex 0)
    let w : World := { w0 with sync := { w0.sync with mutex := fun _ => ⟨some 1, [4]⟩ }, cvG := fun _ => [2] }
    let t1 : Base := { kind := .CONDVAR_ASYNC_LOCK, aid := 1, condvar := 0, mutex := 0 }
    let t2 : Base := { kind := .CONDVAR_WAIT, aid := 2, condvar := 0, mutex := 0, granted := true }
    fireable w t1 = true ∧ fireable w t2 = true ∧ depends (.base t1) (.base t2) = some false ∧ calPair t1 t2 = false ∧
    (Full.exec (Full.exec w t1) t2).sync.mutex 0 = ⟨some 4, [2]⟩ ∧ (Full.exec (Full.exec w t2) t1).sync.mutex 0 = ⟨some 4, [2]⟩ := by decide
example :       -- footprints: a semaphore transition and a mailbox transition never meet
    tagDisj .SEM_UNLOCK .COMM_ASYNC_RECV = true ∧ tagDisj .MUTEX_UNLOCK .MUTEX_ASYNC_LOCK = false := by decide


/-! ## Link to C38: the commutation hypothesis `LTS.Commutes` on the World -/

/-- **C38's hypothesis `LTS.Commutes` discharged on the World** for the relation `crossDep` (independent = different
actors, no ACTOR_JOIN / ACTOR_CREATE, kinds with tag-disjoint footprints: all cross-group cells and the read-only pairs of a
group): symmetric, "neither enables nor disables" with the labels included, equal states — in every state. -/
theorem world_commutes_cross : McRef.LTS.Commutes worldLTS crossDep := Full.world_commutes_cross

/-- hence (C38 `equiv_traces_same_outcome`): two executions of the World that differ by swaps of adjacent cross-group
transitions reach the same state (or are both refused), from every state -/
theorem world_equiv_traces_same_state {u v : List Base} (h : McRef.TraceEq crossDep u v) (w : World) :
    worldLTS.run w u = worldLTS.run w v :=
  C38.equiv_traces_same_outcome worldLTS crossDep Full.world_commutes_cross h w

/-- for the WHOLE table (minus `calPair`), the "commute" and "do not disable" parts of `LTS.Commutes`, with EQUAL states.
Missing for `Commutes worldLTS (table)`: "does not enable" inside the families; it is FALSE for the cells
RANDOM × ACTOR_JOIN and ACTOR_CREATE × ACTOR_JOIN when the join targets the issuer (`random_join_enables_counterexample`). -/
theorem world_indep_comm (w : World) (t1 t2 : Base) (hinv : w.inv) (ha : t1.aid ≠ t2.aid)
    (f1 : worldLTS.enabled w t1 = true) (f2 : worldLTS.enabled w t2 = true)
    (hd : depends (.base t1) (.base t2) = some false) (hx : calPair t1 t2 = false) :
    worldLTS.enabled (worldLTS.exec w t1) t2 = true ∧ worldLTS.enabled (worldLTS.exec w t2) t1 = true ∧
    worldLTS.exec (worldLTS.exec w t1) t2 = worldLTS.exec (worldLTS.exec w t2) t1 :=
  Full.world_indep_comm w t1 t2 hinv ha f1 f2 hd hx

/-- **"does not enable" fails for RANDOM × ACTOR_JOIN** (model level; the strengthening C38 needs, not part of the C39
statement, which is about co-enabled transitions).  Actor 1 is about to do its LAST transition, a RANDOM; actor 2 waits to
join it.  The table says independent (`rule_all(RANDOM, ALWAYS_INDEP)` overwrites the cell, like it did for RANDOM ×
ACTOR_CREATE), the join is not fireable before the RANDOM and fireable after it.  Same for ACTOR_CREATE as last transition
(cell EVAL_T2_ACTOR_CREATE only looks at the created child). -/
theorem random_join_enables_counterexample :
    let w : World := { w0 with left := fun a => if a = 1 then 1 else 5 }
    let t1 : Base := { kind := .RANDOM, aid := 1, min := 0, max := 1 }
    let c1 : Base := { kind := .ACTOR_CREATE, aid := 1, child := 5 }
    let t2 : Base := { kind := .ACTOR_JOIN, aid := 2, target := 1 }
    depends (.base t1) (.base t2) = some false ∧ depends (.base c1) (.base t2) = some false ∧
    fireable w t1 = true ∧ fireable w c1 = true ∧ fireable w t2 = false ∧
    fireable (Full.exec w t1) t2 = true ∧ fireable (Full.exec w c1) t2 = true := by decide

-- non-vacuity of `world_commutes_cross` / `world_equiv_traces_same_state`: a lock and a send swapped around a test
example :
    let a : Base := { kind := .MUTEX_ASYNC_LOCK, aid := 1, mutex := 0 }
    let b : Base := { kind := .COMM_ASYNC_SEND, aid := 2, mbox := 0, comm := 0 }
    crossDep a b = false ∧ worldLTS.enabled w0 a = true ∧ worldLTS.enabled w0 b = true ∧
    (worldLTS.run w0 [a, b]).isSome = true := by decide
example : McRef.TraceEq crossDep
    [{ kind := .MUTEX_ASYNC_LOCK, aid := 1, mutex := 0 }, { kind := .COMM_ASYNC_SEND, aid := 2, mbox := 0, comm := 0 }]
    [{ kind := .COMM_ASYNC_SEND, aid := 2, mbox := 0, comm := 0 }, { kind := .MUTEX_ASYNC_LOCK, aid := 1, mutex := 0 }] :=
  .swap _ _ [] (by decide)

end SgVerif.C39
