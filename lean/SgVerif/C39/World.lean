import SgVerif.C39.Model
/-
C39 — the WHOLE MC-mode kernel state the transitions act on (`World`), for the theorem `indep_commute` over all pairs of
kinds.  Extends `Sem.State` (mutexes, semaphores, barriers, per-actor result, dead flag) with condition variables,
mailboxes, actor existence / creation, and the termination of an actor after its last transition.

Mirrors (MC mode; the application runs every actor up to its next visible simcall after each transition):

  ConditionVariableImpl::acquire_async : xbt_assert(owner == issuer); mutex->unlock(issuer); ongoing_acquisitions_.push_back(acq)
  ConditionVariableImpl::signal        : if (!ongoing.empty()) { front->granted_ = true; pop_front }        (else: lost)
  ConditionVariableImpl::broadcast     : while (!ongoing.empty()) signal()
  ConditionVariableObserver::is_enabled: type_ != CONDVAR_WAIT || timeout_ >= 0 || acquisition_->is_granted()
  s4u do_wait, second simcall (CONDVAR_WAIT): acquisition->wait_for(issuer, timeout); mut_acqui = mutex->lock_async(issuer)
  CommImpl::isend / irecv (no match function): pair with the first pending comm of the other kind in the mailbox, else
      queue; FIFO, so the n-th send of a mailbox pairs with its n-th receive: a comm is NAMED (mailbox, n) here.
      The checker's `comm_` ids are an injective renaming of these names inside one execution, and every arm of
      `dispatch_depends` compares two comm ids only after it has compared the mailboxes, so the per-mailbox number is
      the label's `comm` field.  (With the real global counter `CommImpl::next_id_` two independent isend/irecv on different
      mailboxes get swapped ids in the two orders: states are equal up to that renaming; the names used here are
      schedule-independent.)
  CommImpl::test (MC): `if (MC_is_active() && src_actor_ && dst_actor_) set_state(DONE)` -> result = "matched"
  ActivityWaitSimcall::is_enabled (no timeout): the comm is matched
  MailboxImpl::iprobe: is there a pending comm of the requested kind in the mailbox
  ActorJoinSimcall::is_enabled: other_->wannadie()        ActorCreateSimcall: child pid = maxpid_++ (label `child`)
  actor termination: an actor whose code returns after a transition is dead from then on (`left` = number of visible
      transitions it still has; the last one makes it `dead`), ACTOR_EXIT kills it at once.  In MC mode isend/irecv put
      the comm in state RUNNING at once, so `CommImpl::cancel()` called for the activities of a dead actor does not
      remove anything from a mailbox.

NOT modelled: timeouts (COMM_WAIT / CONDVAR_WAIT with `timeout`), match functions / tags / permanent receivers,
recursive mutexes, TESTANY/WAITANY members (unwrapped by `depends`), detached sends.
-/
namespace SgVerif.C39
open Sem

namespace Full

structure World where
  sync : Sem.State              -- mutex, sem, bar, ret, dead
  cvW : Int → List Int          -- per condvar: issuers of `ongoing_acquisitions_` (not granted), front first
  cvG : Int → List Int          -- per condvar: issuers whose acquisition was granted and who have not done their CONDVAR_WAIT yet
  sends : Int → List Int        -- per mailbox: issuer of its n-th isend
  recvs : Int → List Int        -- per mailbox: issuer of its n-th irecv
  ex : Int → Bool               -- the actor has been created
  left : Int → Nat              -- visible transitions the actor still has to do
  nextPid : Int                 -- `maxpid_`

/-- comm (mailbox, n) has both a sender and a receiver -/
def matched (w : World) (x : Int) (n : Nat) : Bool := n < (w.sends x).length && n < (w.recvs x).length

/-- the sender / receiver recorded in the label of a COMM_TEST / COMM_WAIT is the one of the comm now (-1 = none yet) -/
def sideOk (l : List Int) (n : Nat) (v : Int) : Bool :=
  match l[n]? with
  | some a => v == a && v != -1
  | none => v == -1

def alive (w : World) (a : Int) : Bool := w.ex a && !w.sync.dead a

/-- `is_enabled()` of the observer -/
def enabled (w : World) (t : Base) : Bool :=
  match t.kind with
  | .CONDVAR_WAIT => (w.cvG t.condvar).contains t.aid
  | .COMM_WAIT => matched w t.mbox t.comm.toNat
  | _ => Sem.enabled w.sync t

/-- no `xbt_assert` of the kernel fires (MutexImpl::unlock, ConditionVariableImpl::acquire_async: the issuer owns the mutex) -/
def wf (w : World) (t : Base) : Bool :=
  match t.kind with
  | .CONDVAR_ASYNC_LOCK => (w.sync.mutex t.mutex).owner == some t.aid
  | _ => Sem.wf w.sync t

/-- the label the checker holds describes this state: comm number, recorded peers, fresh child pid, no timeout -/
def labelOk (w : World) (t : Base) : Bool :=
  match t.kind with
  | .COMM_ASYNC_SEND => t.comm == ((w.sends t.mbox).length : Int)
  | .COMM_ASYNC_RECV => t.comm == ((w.recvs t.mbox).length : Int)
  | .COMM_TEST => decide (0 ≤ t.comm) && sideOk (w.sends t.mbox) t.comm.toNat t.sender && sideOk (w.recvs t.mbox) t.comm.toNat t.receiver
  | .COMM_WAIT => decide (0 ≤ t.comm) && sideOk (w.sends t.mbox) t.comm.toNat t.sender && sideOk (w.recvs t.mbox) t.comm.toNat t.receiver
                  && !t.timeout
  | .CONDVAR_WAIT => !t.timeout
  | .ACTOR_JOIN => w.ex t.target
  | .ACTOR_CREATE => t.child == w.nextPid && !w.ex t.child
  | _ => true

/-- the transition can be fired in this state (issuer alive, observer enabled, no kernel assertion, label up to date) -/
def fireable (w : World) (t : Base) : Bool := alive w t.aid && enabled w t && wf w t && labelOk w t

/-- the effect of the simcall handler -/
def core (w : World) (t : Base) : World :=
  match t.kind with
  | .CONDVAR_ASYNC_LOCK =>
    { w with sync := { w.sync with mutex := upd w.sync.mutex t.mutex (execMutex (w.sync.mutex t.mutex) .MUTEX_UNLOCK t.aid).1 },
             cvW := upd w.cvW t.condvar (w.cvW t.condvar ++ [t.aid]) }
  | .CONDVAR_SIGNAL =>       -- pop the front waiter (if any) and grant it
    { w with cvW := upd w.cvW t.condvar (w.cvW t.condvar).tail, cvG := upd w.cvG t.condvar (w.cvG t.condvar ++ (w.cvW t.condvar).take 1) }
  | .CONDVAR_BROADCAST =>
    { w with cvW := upd w.cvW t.condvar [], cvG := upd w.cvG t.condvar (w.cvG t.condvar ++ w.cvW t.condvar) }
  | .CONDVAR_WAIT =>
    { w with sync := { w.sync with mutex := upd w.sync.mutex t.mutex (execMutex (w.sync.mutex t.mutex) .MUTEX_ASYNC_LOCK t.aid).1 },
             cvG := upd w.cvG t.condvar ((w.cvG t.condvar).erase t.aid) }
  | .COMM_ASYNC_SEND => { w with sends := upd w.sends t.mbox (w.sends t.mbox ++ [t.aid]) }
  | .COMM_ASYNC_RECV => { w with recvs := upd w.recvs t.mbox (w.recvs t.mbox ++ [t.aid]) }
  | .COMM_TEST => { w with sync := { w.sync with ret := upd w.sync.ret t.aid (if matched w t.mbox t.comm.toNat then 1 else 0) } }
  | .COMM_WAIT => { w with sync := { w.sync with ret := upd w.sync.ret t.aid (((w.sends t.mbox)[t.comm.toNat]?).getD 0) } }
  | .COMM_IPROBE =>
    let r : Int := if t.isSender then (if (w.sends t.mbox).length < (w.recvs t.mbox).length then 1 else 0)
                   else (if (w.recvs t.mbox).length < (w.sends t.mbox).length then 1 else 0)
    { w with sync := { w.sync with ret := upd w.sync.ret t.aid r } }
  | .ACTOR_CREATE =>
    { w with ex := upd w.ex t.child true, nextPid := w.nextPid + 1,
             sync := { w.sync with dead := upd w.sync.dead t.child (decide (w.left t.child = 0)) } }
  | _ => { w with sync := Sem.exec w.sync t }

/-- the issuer has done one more of its transitions; after the last one its code returns and the actor is dead -/
def tick (w : World) (a : Int) : World :=
  { w with left := upd w.left a (w.left a - 1),
           sync := { w.sync with dead := upd w.sync.dead a (w.sync.dead a || decide (w.left a ≤ 1)) } }

/-- one transition of the application: handler + run of the issuer up to its next simcall (or its end) -/
def exec (w : World) (t : Base) : World := tick (core w t) t.aid

/-! ### locations (for the footprint argument) -/

inductive Loc where
  | mutex (i : Int) | sem (i : Int) | bar (i : Int) | cvW (i : Int) | cvG (i : Int) | sends (i : Int) | recvs (i : Int)
  | ret (a : Int) | dead (a : Int) | ex (a : Int) | left (a : Int) | nextPid
  deriving DecidableEq, Repr

inductive Val where
  | mutex (v : MutexSt) | sem (v : SemSt) | bar (v : BarSt) | ints (v : List Int) | int (v : Int) | bool (v : Bool) | nat (v : Nat)
  deriving DecidableEq, Repr

def World.get (w : World) : Loc → Val
  | .mutex i => .mutex (w.sync.mutex i) | .sem i => .sem (w.sync.sem i) | .bar i => .bar (w.sync.bar i)
  | .cvW i => .ints (w.cvW i) | .cvG i => .ints (w.cvG i) | .sends i => .ints (w.sends i) | .recvs i => .ints (w.recvs i)
  | .ret a => .int (w.sync.ret a) | .dead a => .bool (w.sync.dead a) | .ex a => .bool (w.ex a) | .left a => .nat (w.left a)
  | .nextPid => .int w.nextPid

/-- equality of states, location by location (comms are named (mailbox, n): no identifier is allocated) -/
def World.equiv (w1 w2 : World) : Prop := ∀ l, w1.get l = w2.get l

/-- locations of its own actor that every transition reads and writes -/
def own (a : Int) : List Loc := [.ret a, .dead a, .ex a, .left a]

/-- shared locations a transition may WRITE -/
def objW (t : Base) : List Loc :=
  match t.kind with
  | .MUTEX_ASYNC_LOCK | .MUTEX_TRYLOCK | .MUTEX_UNLOCK => [.mutex t.mutex]
  | .SEM_ASYNC_LOCK | .SEM_UNLOCK | .SEM_WAIT => [.sem t.sem]
  | .BARRIER_ASYNC_LOCK | .BARRIER_WAIT => [.bar t.bar]
  | .CONDVAR_ASYNC_LOCK => [.cvW t.condvar, .mutex t.mutex]
  | .CONDVAR_SIGNAL | .CONDVAR_BROADCAST => [.cvW t.condvar, .cvG t.condvar]
  | .CONDVAR_WAIT => [.cvG t.condvar, .mutex t.mutex]
  | .COMM_ASYNC_SEND => [.sends t.mbox]
  | .COMM_ASYNC_RECV => [.recvs t.mbox]
  | .ACTOR_CREATE => [.ex t.child, .dead t.child, .nextPid]
  | _ => []

/-- shared locations a transition only READS -/
def objR (t : Base) : List Loc :=
  match t.kind with
  | .MUTEX_TEST | .MUTEX_WAIT => [.mutex t.mutex]
  | .COMM_TEST | .COMM_WAIT | .COMM_IPROBE => [.sends t.mbox, .recvs t.mbox]
  | .ACTOR_JOIN => [.dead t.target, .ex t.target]
  | .ACTOR_CREATE => [.left t.child]
  | _ => []

def wr (t : Base) : List Loc := own t.aid ++ objW t
def rd (t : Base) : List Loc := own t.aid ++ (objW t ++ objR t)

end Full
end SgVerif.C39
