import SgVerif.C42.Race
import SgVerif.C42.Decr
/-
C42 — Happens-before equals transitive dependency.  Property theorems (nothing else in this file).

Every theorem is for EVERY execution `ts` (any length), EVERY `max_threads` value `W`, EVERY actor numbering with
aids in the range `Aid`'s constructor admits, and EVERY dependency relation `dep` (not assumed symmetric, transitive
or anything) such that two transitions of one actor are dependent — the first test of `Transition::dispatch_depends`.
`run aidOf dep W ts` is the `Execution` obtained by `push_transition`-ing `ts` one by one on an empty execution.
-/
namespace SgVerif.C42

section
variable {T : Type} (aidOf : T → Nat) (dep : T → T → Bool)

/-- explicit form of a chain: `LinkedFrom i [x1, …, xk]` iff `i < x1 < … < xk` and each consecutive pair is dependent -/
def LinkedFrom (ts : List T) : Nat → List Nat → Prop
  | _, [] => True
  | i, k :: r => i < k ∧ DepAt dep ts i k ∧ LinkedFrom ts k r

/-- the inductive `Chain` is literally "∃ e1 = x0 < x1 < … < xk = e2, k ≥ 1, with dep(x_i, x_{i+1})" -/
theorem chain_iff_list (ts : List T) (i j : Nat) :
    Chain dep ts i j ↔ ∃ l : List Nat, l ≠ [] ∧ LinkedFrom dep ts i l ∧ (i :: l).getLast? = some j := by
  constructor
  · intro h
    induction h with
    | single h d => exact ⟨[_], by simp, ⟨h, d, trivial⟩, by simp⟩
    | step h d _ ih =>
      obtain ⟨l, _, hl, hlast⟩ := ih
      refine ⟨_ :: l, by simp, ⟨h, d, hl⟩, ?_⟩
      rw [List.getLast?_cons_cons]; exact hlast
  · rintro ⟨l, hne, hl, hlast⟩
    induction l generalizing i with
    | nil => exact absurd rfl hne
    | cons k r ih =>
      obtain ⟨hik, d, hr⟩ := hl
      rw [List.getLast?_cons_cons] at hlast
      cases r with
      | nil => simp at hlast; subst hlast; exact Chain.single hik d
      | cons k2 r2 => exact Chain.step hik d (ih k (by simp) hr hlast)

/-- **happens-before = transitive dependency.**  `Execution::happens_before(e1, e2)` (the clock-vector test) is true
exactly when `e1 < e2` and a chain of pairwise dependent events leads from `e1` to `e2` (`Chain` contains `e1 < e2`
and `e2 < size`; irreflexive as the code defines it). -/
theorem hb_iff_dep_chain (hsame : ∀ t1 t2 : T, aidOf t1 = aidOf t2 → dep t1 t2 = true) (W : Nat) (ts : List T)
    (hW : ∀ t ∈ ts, aidOf t < W) (e1 e2 : Nat) :
    happensBefore aidOf (run aidOf dep W ts) e1 e2 = true ↔ Chain dep ts e1 e2 :=
  hb_of_inv hsame (inv_run hsame W ts hW) e1 e2

/-- the same, spelled out with the explicit list of intermediate events -/
theorem hb_iff_dep_chain_list (hsame : ∀ t1 t2 : T, aidOf t1 = aidOf t2 → dep t1 t2 = true) (W : Nat) (ts : List T)
    (hW : ∀ t ∈ ts, aidOf t < W) (e1 e2 : Nat) :
    happensBefore aidOf (run aidOf dep W ts) e1 e2 = true ↔
      e1 < e2 ∧ ∃ l : List Nat, l ≠ [] ∧ LinkedFrom dep ts e1 l ∧ (e1 :: l).getLast? = some e2 := by
  rw [hb_iff_dep_chain aidOf dep hsame W ts hW, chain_iff_list]
  constructor
  · intro h; exact ⟨((chain_iff_list dep ts e1 e2).mpr h).lt, h⟩
  · intro h; exact h.2

/-- the clock-vector invariant itself: entry `a` of the clock vector of event `e` is the latest event of actor `a`
that happens before or is `e` (and INVALID iff there is none) -/
theorem clock_vector_meaning (hsame : ∀ t1 t2 : T, aidOf t1 = aidOf t2 → dep t1 t2 = true) (W : Nat) (ts : List T)
    (hW : ∀ t ∈ ts, aidOf t < W) (e : Nat) (ev : Event T) (he : (run aidOf dep W ts).contents[e]? = some ev) (a : Nat) :
    (∀ m, ev.cv.get a = some m → aidAt aidOf ts m = some a ∧ HBeq dep ts m e) ∧
    (∀ m', aidAt aidOf ts m' = some a → HBeq dep ts m' e → ∃ m, ev.cv.get a = some m ∧ m' ≤ m) :=
  ⟨fun m hm => (inv_run hsame W ts hW).sound e ev a m he hm,
   fun m' h1 h2 => (inv_run hsame W ts hW).complete e ev a m' he h1 h2⟩

/-- **racing events, as the header defines a race**: `get_racing_events_of(t)` returns exactly the events of other
actors that happen before `t` with no event in between. -/
theorem racing_events_exact (hsame : ∀ t1 t2 : T, aidOf t1 = aidOf t2 → dep t1 t2 = true) (W : Nat) (ts : List T)
    (hW : ∀ t ∈ ts, aidOf t < W - 1) (t : Nat) (ht : t < ts.length) (x : Nat) :
    x ∈ getRacingEventsOf aidOf W (run aidOf dep W ts) t ↔ IsRace aidOf dep ts x t :=
  racing_of_inv hsame (inv_run hsame W ts (fun t' h => by have := hW t' h; omega)) hW t ht x

/-- `p` is the previous event of `t`'s actor -/
def IsPrevOnActor (ts : List T) (t p : Nat) : Prop :=
  p < t ∧ aidAt aidOf ts p = aidAt aidOf ts t ∧ ∀ q, p < q → q < t → aidAt aidOf ts q ≠ aidAt aidOf ts t

/-- the set of the property text: predecessors of `t` from other actors, not ordered with the previous event of
`t`'s actor -/
def RaceCand (ts : List T) (t e : Nat) : Prop :=
  aidAt aidOf ts e ≠ aidAt aidOf ts t ∧ Chain dep ts e t ∧ ∀ p, IsPrevOnActor aidOf ts t p → ¬ Chain dep ts e p

theorem exists_prev (ts : List T) (a : Option Nat) : ∀ t k, k < t → aidAt aidOf ts k = a →
    ∃ p, p < t ∧ k ≤ p ∧ aidAt aidOf ts p = a ∧ ∀ q, p < q → q < t → aidAt aidOf ts q ≠ a := by
  intro t
  induction t with
  | zero => intro k hk; omega
  | succ t ih =>
    intro k hk hka
    by_cases hta : aidAt aidOf ts t = a
    · exact ⟨t, Nat.lt_succ_self _, Nat.le_of_lt_succ hk, hta, fun q h1 h2 => by omega⟩
    · have hkt : k < t := by
        rcases Nat.eq_or_lt_of_le (Nat.le_of_lt_succ hk) with rfl | h
        · exact absurd hka hta
        · exact h
      obtain ⟨p, hp, hkp, hpa, hall⟩ := ih k hkt hka
      refine ⟨p, Nat.lt_succ_of_lt hp, hkp, hpa, fun q h1 h2 => ?_⟩
      rcases Nat.eq_or_lt_of_le (Nat.le_of_lt_succ h2) with rfl | h
      · exact hta
      · exact hall q h1 h

/-- **racing events, as the property text words it**: the races of `t` are the maximal (w.r.t. happens-before)
predecessors of `t` from other actors that are not already ordered with the previous event of `t`'s actor. -/
theorem race_iff_maximal_candidate (hsame : ∀ t1 t2 : T, aidOf t1 = aidOf t2 → dep t1 t2 = true) (ts : List T)
    (t x : Nat) :
    IsRace aidOf dep ts x t ↔
      RaceCand aidOf dep ts t x ∧ ¬ ∃ y, RaceCand aidOf dep ts t y ∧ Chain dep ts x y := by
  have hvalid : ∀ i, i < ts.length → ∃ a, aidAt aidOf ts i = some a := by
    intro i hi; exact ⟨aidOf ts[i], by unfold aidAt; rw [List.getElem?_eq_getElem hi]; rfl⟩
  constructor
  · rintro ⟨hne, hxt, hno⟩
    refine ⟨⟨hne, hxt, ?_⟩, ?_⟩
    · intro p ⟨hpt, hpa, _⟩ hxp
      obtain ⟨a, ha⟩ := hvalid t hxt.valid
      exact hno ⟨p, hxp, Chain.single hpt (depAt_same_actor hsame (hpa.trans ha) ha)⟩
    · rintro ⟨y, ⟨_, hyt, _⟩, hxy⟩
      exact hno ⟨y, hxy, hyt⟩
  · rintro ⟨⟨hne, hxt, hprev⟩, hmax⟩
    refine ⟨hne, hxt, ?_⟩
    rintro ⟨k, hxk, hkt⟩
    obtain ⟨a, ha⟩ := hvalid t hxt.valid
    by_cases hka : aidAt aidOf ts k = aidAt aidOf ts t
    · obtain ⟨p, hp, hkp, hpa, hall⟩ := exists_prev aidOf ts _ t k hkt.lt hka
      exact hprev p ⟨hp, hpa, hall⟩ (hxk.trans_hbeq (hbeq_same_actor hsame (hka.trans ha) (hpa.trans ha) hkp))
    · apply hmax
      refine ⟨k, ⟨hka, hkt, ?_⟩, hxk⟩
      intro p hp hkp
      exact hprev p hp (hxk.trans hkp)

/-- `happens_before_process(e, p, limit)`: `e` belongs to `p`, or happens before an event of `p` below `limit` -/
theorem happens_before_process_spec (hsame : ∀ t1 t2 : T, aidOf t1 = aidOf t2 → dep t1 t2 = true) (W : Nat)
    (ts : List T) (hW : ∀ t ∈ ts, aidOf t < W) (e p limit : Nat) :
    happensBeforeProcess aidOf (run aidOf dep W ts) e p limit = true ↔
      aidAt aidOf ts e = some p ∨ ∃ k, k < limit ∧ Chain dep ts e k ∧ aidAt aidOf ts k = some p := by
  have hinv := inv_run hsame W ts hW
  unfold happensBeforeProcess
  rw [actorOf_eq_aidAt hinv]
  by_cases h1 : aidAt aidOf ts e = some p
  · simp [h1]
  · simp only [h1, if_false, false_or, List.any_eq_true, List.mem_range, Bool.and_eq_true, decide_eq_true_eq,
      beq_iff_eq]
    constructor
    · rintro ⟨k, hk, ⟨_, hb⟩, ha⟩
      rw [actorOf_eq_aidAt hinv] at ha
      exact ⟨k, hk, (hb_of_inv hsame hinv e k).mp hb, ha⟩
    · rintro ⟨k, hk, hc, ha⟩
      refine ⟨k, hk, ⟨hc.lt, (hb_of_inv hsame hinv e k).mpr hc⟩, ?_⟩
      rw [actorOf_eq_aidAt hinv]; exact ha

/-- **the racing list is strictly decreasing** (hence duplicate-free, latest race first): for EVERY execution object (not
only those built by `run`), every `max_threads` and every target.  The candidates are sorted with `std::greater` and
`unique()`d (`raceCandidates_strict`) and the filtering loop keeps a sub-list in the same order (`raceLoop_sublist`).
With `racing_events_exact` the returned list is THE descending enumeration of the races of `t`. -/
theorem racing_events_strictly_decreasing (W : Nat) (ex : Execution T) (target : Nat) :
    (getRacingEventsOf aidOf W ex target).Pairwise (fun a b => a > b) :=
  getRacingEventsOf_strict W ex target

theorem racing_events_nodup (W : Nat) (ex : Execution T) (target : Nat) : (getRacingEventsOf aidOf W ex target).Nodup :=
  (racing_events_strictly_decreasing aidOf W ex target).imp (fun h => Nat.ne_of_gt h)

end

/-! ### non-vacuity: a concrete relation satisfying the hypotheses, with a transitive-only pair and a race -/

/-- transitions = (actor, resource); dependent iff same actor or same resource -/
def exAid (t : Nat × Nat) : Nat := t.1
def exDep (a b : Nat × Nat) : Bool := a.1 == b.1 || a.2 == b.2
def exTs : List (Nat × Nat) := [(1, 1), (2, 1), (2, 2), (3, 2), (1, 3)]

theorem exDep_same : ∀ t1 t2 : Nat × Nat, exAid t1 = exAid t2 → exDep t1 t2 = true := by
  intro t1 t2 h; simp [exDep, exAid] at *; exact Or.inl h

/-- event 0 happens before event 3 although they are not dependent (chain 0 → 1 → 2 → 3), and not before 4's
independent resource … 0 → 4 holds by the same-actor rule -/
example : happensBefore exAid (run exAid exDep 32 exTs) 0 3 = true ∧ exDep (1, 1) (3, 2) = false ∧
    happensBefore exAid (run exAid exDep 32 exTs) 3 4 = false := by decide

example : Chain exDep exTs 0 3 :=
  (hb_iff_dep_chain exAid exDep exDep_same 32 exTs (by decide) 0 3).mp (by decide)

/-- event 2 races with event 3 (nothing fits between them), hence `get_racing_events_of(3)` returns it; event 1 does
not race with 3 (event 2 is in between) and is not returned -/
example : 2 ∈ getRacingEventsOf exAid 32 (run exAid exDep 32 exTs) 3 ∧
    1 ∉ getRacingEventsOf exAid 32 (run exAid exDep 32 exTs) 3 := by
  constructor
  · refine (racing_events_exact exAid exDep exDep_same 32 exTs (by decide) 3 (by decide) 2).mpr ⟨by decide, ?_, ?_⟩
    · exact Chain.single (by decide) ⟨_, _, rfl, rfl, rfl⟩
    · rintro ⟨k, h1, h2⟩
      have := h1.lt; have := h2.lt; omega
  · intro h
    have hr := (racing_events_exact exAid exDep exDep_same 32 exTs (by decide) 3 (by decide) 1).mp h
    apply hr.2.2
    exact ⟨2, Chain.single (by decide) ⟨_, _, rfl, rfl, rfl⟩, Chain.single (by decide) ⟨_, _, rfl, rfl, rfl⟩⟩

-- `racing_events_strictly_decreasing` has no hypothesis; an instance, and the sort/unique step on a list with duplicates
example : (getRacingEventsOf exAid 32 (run exAid exDep 32 exTs) 3).Pairwise (fun a b => a > b) :=
  racing_events_strictly_decreasing exAid 32 _ 3
example : uniqAdj [5, 5, 3, 3, 1] = [5, 3, 1] ∧ [5, 3, 1].Pairwise (fun a b => a > b) := by decide

end SgVerif.C42
