import SgVerif.C42.Model
import SgVerif.Common.Proto
open SgVerif.Proto
namespace SgVerif.C42

/-- `static_config::max_threads` of the pinned tree -/
def maxThreads : Nat := 32

def parseBits (s : String) : List Bool := s.toList.map (· == '1')

def bitsToString (l : List Bool) : String := String.ofList (l.map (fun b => if b then '1' else '0'))

def parseList (s : String) : Option (List Nat) :=
  if s = "-" then some [] else (s.splitOn ",").mapM String.toNat?

def showList (l : List Nat) : String :=
  if l.isEmpty then "-" else ",".intercalate (l.map toString)

/-- aid of a transition token `<aid>,<KIND>,...` -/
def tokAid (tok : String) : Option Nat := (tok.splitOn ",").head?.bind String.toNat?

/-- the property's own decidable predicate, computed independently of the clock vectors:
`closure[i][j]` = there is a chain i = x0 < x1 < ... < xk = j with D[x_l][x_{l+1}] -/
def closure (n : Nat) (d : Array (Array Bool)) : Array (Array Bool) := Id.run do
  let get (m : Array (Array Bool)) (i j : Nat) : Bool := (m.getD i #[]).getD j false
  let mut c : Array (Array Bool) := Array.replicate n (Array.replicate n false)
  -- rows from the last one up: row i needs rows k > i
  for ii in [0:n] do
    let i := n - 1 - ii
    let mut row : Array Bool := Array.replicate n false
    for j in [i+1:n] do
      let mut r := get d i j
      if !r then
        for k in [i+1:j] do
          if get d i k && get c k j then r := true
      row := row.set! j r
    c := c.set! i row
  return c

def dropPrefix (c : Char) (s : String) : Option String :=
  match s.toList with
  | x :: r => if x = c then some (String.ofList r) else none
  | [] => none

def judge (q a : List String) : Verdict :=
  match q, a with
  | "exec" :: toks, nTok :: rest =>
    match toks.mapM tokAid, (nTok.splitOn "=")[1]? >>= String.toNat? with
    | some aids, some n =>
      if n ≠ toks.length ∨ rest.length ≠ 4 * n then .bad else
      let dRows := (rest.take n).mapM (dropPrefix 'd')
      let hRows := ((rest.drop n).take n).mapM (dropPrefix 'h')
      let rRows := ((rest.drop (2*n)).take n).mapM (fun s => dropPrefix 'r' s >>= parseList)
      let pRows := ((rest.drop (3*n)).take n).mapM (dropPrefix 'p')
      match dRows, hRows, rRows, pRows with
      | some dRows, some hRows, some rRows, some pRows =>
        let aidArr := aids.toArray
        let d : Array (Array Bool) := (dRows.map (fun s => (parseBits s).toArray)).toArray
        let aidOf (i : Nat) : Nat := aidArr.getD i 0
        let dep (i j : Nat) : Bool := (d.getD i #[]).getD j false
        let nact := (aids.foldl Nat.max 0) + 1
        -- hypothesis of the theorems, checked on the implementation's relation
        let sameActorOk := (List.range n).all (fun i => (List.range n).all (fun j => aidOf i != aidOf j || dep i j))
        if !sameActorOk then .monfail "two transitions of the same actor are not dependent" else
        -- monitor on the implementation's answers
        let c := closure n d
        let cl (i j : Nat) : Bool := (c.getD i #[]).getD j false
        let hSpec := (List.range n).map (fun i => bitsToString ((List.range n).map (fun j => cl i j)))
        if hSpec ≠ hRows then
          .monfail s!"happens_before differs from the chain (transitive dependency) relation: chain={hSpec}" else
        let raceSpec (t : Nat) : List Nat :=
          ((List.range n).filter (fun e => aidOf e != aidOf t && cl e t &&
              !((List.range n).any (fun k => cl e k && cl k t)))).reverse
        let rSpec := (List.range n).map raceSpec
        if rSpec ≠ rRows then
          .monfail s!"get_racing_events_of differs from the race definition: spec={rSpec.map showList}" else
        let pSpec := (List.range n).map (fun e => bitsToString ((List.range nact).map (fun p =>
          aidOf e == p || (List.range n).any (fun k => cl e k && aidOf k == p))))
        if pSpec ≠ pRows then
          .monfail s!"happens_before_process differs from its definition: spec={pSpec}" else
        -- model = implementation
        let ex := run aidOf dep maxThreads (List.range n)
        let hM := (List.range n).map (fun i => bitsToString ((List.range n).map (fun j => happensBefore aidOf ex i j)))
        let rM := (List.range n).map (fun i => getRacingEventsOf aidOf maxThreads ex i)
        let pM := (List.range n).map (fun e => bitsToString ((List.range nact).map (fun p =>
          happensBeforeProcess aidOf ex e p n)))
        if hM ≠ hRows then .disagree ("h " ++ " ".intercalate hM)
        else if rM ≠ rRows then .disagree ("r " ++ " ".intercalate (rM.map showList))
        else if pM ≠ pRows then .disagree ("p " ++ " ".intercalate pM)
        else .ok
      | _, _, _, _ => .bad
    | _, _ => .bad
  | _, _ => .bad

end SgVerif.C42

def main : IO Unit := SgVerif.Proto.run SgVerif.C42.judge
