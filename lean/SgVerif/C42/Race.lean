import SgVerif.C42.Step
/-
C42 — `get_racing_events_of`: candidates, `prev_on_actor`, loop invariant, and the set it computes.
-/
namespace SgVerif.C42

/-! ### std::list::unique / sort -/

theorem uniqAdj_sublist : ∀ l : List Nat, (uniqAdj l).Sublist l
  | [] => by simp [uniqAdj]
  | [a] => by simp [uniqAdj]
  | a :: b :: r => by
    unfold uniqAdj
    split
    · exact (uniqAdj_sublist (b :: r)).trans (List.sublist_cons_self _ _)
    · exact (uniqAdj_sublist (b :: r)).cons_cons a

theorem mem_uniqAdj : ∀ (l : List Nat) (x : Nat), x ∈ uniqAdj l ↔ x ∈ l
  | [], x => by simp [uniqAdj]
  | [a], x => by simp [uniqAdj]
  | a :: b :: r, x => by
    unfold uniqAdj
    split
    · rename_i hab
      subst hab
      rw [mem_uniqAdj (a :: r) x]; simp
    · rw [List.mem_cons, mem_uniqAdj (b :: r) x, List.mem_cons (a := x) (b := a)]

theorem mem_raceCandidates {W evtAid : Nat} {cv : ClockVector} {c : Nat} :
    c ∈ raceCandidates W evtAid cv ↔ ∃ a, a < W - 1 ∧ a ≠ evtAid ∧ cv.get a = some c := by
  unfold raceCandidates
  simp only [mem_uniqAdj, List.mem_mergeSort, List.mem_filterMap, List.mem_range]
  constructor
  · rintro ⟨a, ha, h⟩
    split at h
    · rename_i hne; exact ⟨a, ha, hne, h⟩
    · cases h
  · rintro ⟨a, ha, hne, h⟩
    exact ⟨a, ha, by simp [hne, h]⟩

theorem raceCandidates_sorted (W evtAid : Nat) (cv : ClockVector) :
    (raceCandidates W evtAid cv).Pairwise (fun a b => a ≥ b) := by
  unfold raceCandidates
  apply List.Pairwise.sublist (uniqAdj_sublist _)
  have := List.pairwise_mergeSort (le := fun a b : Nat => decide (a ≥ b))
    (by intro a b c h1 h2; simp at *; omega) (by intro a b; simp; omega)
    ((List.range (W - 1)).filterMap (fun a => if a ≠ evtAid then cv.get a else none))
  exact this.imp (by intro a b h; simpa using h)

section
variable {T : Type} {aidOf : T → Nat} {dep : T → T → Bool}

theorem happensBefore_lt {ex : Execution T} {e j : Nat} (h : happensBefore aidOf ex e j = true) : e < j := by
  unfold happensBefore at h
  split at h
  · cases h
  · omega

/-- the `prev_on_actor` search finds the latest earlier event of the actor, if any -/
theorem prevOnActor_some {ex : Execution T} {aid : Nat} : ∀ {t p : Nat}, prevOnActor aidOf ex aid t = some p →
    p < t ∧ actorOf aidOf ex p = some aid ∧ ∀ q, q < t → actorOf aidOf ex q = some aid → q ≤ p
  | 0, p, h => by simp [prevOnActor] at h
  | t + 1, p, h => by
    unfold prevOnActor at h
    split at h
    · rename_i ha
      cases h
      exact ⟨Nat.lt_succ_self _, ha, fun q hq _ => Nat.le_of_lt_succ hq⟩
    · rename_i hna
      obtain ⟨h1, h2, h3⟩ := prevOnActor_some h
      refine ⟨Nat.lt_succ_of_lt h1, h2, fun q hq hqa => ?_⟩
      rcases Nat.eq_or_lt_of_le (Nat.le_of_lt_succ hq) with rfl | hlt
      · exact absurd hqa hna
      · exact h3 q hlt hqa

theorem prevOnActor_none {ex : Execution T} {aid : Nat} : ∀ {t : Nat}, prevOnActor aidOf ex aid t = none →
    ∀ q, q < t → actorOf aidOf ex q ≠ some aid
  | 0, _, q, hq => by omega
  | t + 1, h, q, hq => by
    unfold prevOnActor at h
    split at h
    · cases h
    · rename_i hna
      rcases Nat.eq_or_lt_of_le (Nat.le_of_lt_succ hq) with rfl | hlt
      · exact hna
      · exact prevOnActor_none h q hlt

/-- loop invariant of the filtering loop: with candidates in non-increasing order, an event is kept iff it is a
candidate that does not happen before `prev_on_actor` nor before any kept event -/
theorem raceLoop_spec (ex : Execution T) (prev : Option Nat) :
    ∀ (cands acc : List Nat), cands.Pairwise (fun a b => a ≥ b) → (∀ a ∈ acc, ∀ c ∈ cands, c ≤ a) →
      ∀ x, x ∈ raceLoop aidOf ex prev cands acc ↔
        x ∈ acc ∨ (x ∈ cands ∧ prevHB aidOf ex prev x = false ∧
          ∀ j ∈ raceLoop aidOf ex prev cands acc, happensBefore aidOf ex x j = false) := by
  intro cands
  induction cands with
  | nil => intro acc _ _ x; simp [raceLoop]
  | cons e rest ih =>
    intro acc hsorted hacc x
    rw [List.pairwise_cons] at hsorted
    have hacc' : ∀ a ∈ acc, ∀ c ∈ rest, c ≤ a := fun a ha c hc => hacc a ha c (List.mem_cons_of_mem _ hc)
    have hnot_later : ∀ j, j ∈ rest → happensBefore aidOf ex e j = false := by
      intro j hj
      cases hh : happensBefore aidOf ex e j with
      | false => rfl
      | true => have := happensBefore_lt hh; have := hsorted.1 j hj; omega
    unfold raceLoop
    by_cases hp : prevHB aidOf ex prev e = true
    · simp only [hp, if_true]
      have IH := ih acc hsorted.2 hacc' x
      rw [IH]
      constructor
      · rintro (h | ⟨h1, h2, h3⟩)
        · exact Or.inl h
        · exact Or.inr ⟨List.mem_cons_of_mem _ h1, h2, h3⟩
      · rintro (h | ⟨h1, h2, h3⟩)
        · exact Or.inl h
        · rcases List.mem_cons.mp h1 with rfl | h1
          · rw [hp] at h2; cases h2
          · exact Or.inr ⟨h1, h2, h3⟩
    · have hp' : prevHB aidOf ex prev e = false := by simpa using hp
      simp only [hp', Bool.false_eq_true, if_false]
      by_cases hany : acc.any (fun ej => happensBefore aidOf ex e ej) = true
      · simp only [hany, if_true]
        have IH := ih acc hsorted.2 hacc' x
        rw [IH]
        constructor
        · rintro (h | ⟨h1, h2, h3⟩)
          · exact Or.inl h
          · exact Or.inr ⟨List.mem_cons_of_mem _ h1, h2, h3⟩
        · rintro (h | ⟨h1, h2, h3⟩)
          · exact Or.inl h
          · rcases List.mem_cons.mp h1 with rfl | h1
            · exfalso
              obtain ⟨ej, hej, hhb⟩ := List.any_eq_true.mp hany
              have hejR : ej ∈ raceLoop aidOf ex prev rest acc := (ih acc hsorted.2 hacc' ej).mpr (Or.inl hej)
              rw [h3 ej hejR] at hhb; cases hhb
            · exact Or.inr ⟨h1, h2, h3⟩
      · have hany' : ∀ ej ∈ acc, happensBefore aidOf ex e ej = false := by
          intro ej hej
          cases hh : happensBefore aidOf ex e ej with
          | false => rfl
          | true => exact absurd (List.any_eq_true.mpr ⟨ej, hej, hh⟩) hany
        simp only [hany, Bool.false_eq_true, if_false]
        have hacc2 : ∀ a ∈ acc ++ [e], ∀ c ∈ rest, c ≤ a := by
          intro a ha c hc
          rcases List.mem_append.mp ha with ha | ha
          · exact hacc' a ha c hc
          · simp at ha; subst ha; exact hsorted.1 c hc
        have IH := ih (acc ++ [e]) hsorted.2 hacc2
        have heR : e ∈ raceLoop aidOf ex prev rest (acc ++ [e]) := (IH e).mpr (Or.inl (by simp))
        have hself : happensBefore aidOf ex e e = false := by
          cases hh : happensBefore aidOf ex e e with
          | false => rfl
          | true => have := happensBefore_lt hh; omega
        have he_all : ∀ j ∈ raceLoop aidOf ex prev rest (acc ++ [e]), happensBefore aidOf ex e j = false := by
          intro j hj
          rcases (IH j).mp hj with hj | ⟨hj, _, _⟩
          · rcases List.mem_append.mp hj with hj | hj
            · exact hany' j hj
            · simp at hj; subst hj; exact hself
          · exact hnot_later j hj
        rw [IH x]
        constructor
        · rintro (h | ⟨h1, h2, h3⟩)
          · rcases List.mem_append.mp h with h | h
            · exact Or.inl h
            · simp at h; subst h
              exact Or.inr ⟨by simp, hp', he_all⟩
          · exact Or.inr ⟨List.mem_cons_of_mem _ h1, h2, h3⟩
        · rintro (h | ⟨h1, h2, h3⟩)
          · exact Or.inl (List.mem_append_left _ h)
          · rcases List.mem_cons.mp h1 with rfl | h1
            · exact Or.inl (by simp)
            · exact Or.inr ⟨h1, h2, h3⟩

/-- SPEC (doc comment of `get_racing_events_of`, Execution.hpp): `e` and `t` race iff they belong to different
actors, `e` happens before `t`, and no event happens between them. -/
def IsRace (aidOf : T → Nat) (dep : T → T → Bool) (ts : List T) (e t : Nat) : Prop :=
  aidAt aidOf ts e ≠ aidAt aidOf ts t ∧ Chain dep ts e t ∧ ¬ ∃ k, Chain dep ts e k ∧ Chain dep ts k t

theorem actorOf_eq_aidAt {W : Nat} {ts : List T} {ex : Execution T} (h : Inv aidOf dep W ts ex) (i : Nat) :
    actorOf aidOf ex i = aidAt aidOf ts i := by
  unfold actorOf aidAt
  rw [← h.trans, List.getElem?_map]
  cases ex.contents[i]? <;> rfl

/-- the list returned by `get_racing_events_of(t)` contains exactly the events racing with `t` -/
theorem racing_of_inv (hsame : ∀ t1 t2 : T, aidOf t1 = aidOf t2 → dep t1 t2 = true) {W : Nat} {ts : List T}
    {ex : Execution T} (h : Inv aidOf dep W ts ex) (hW : ∀ t ∈ ts, aidOf t < W - 1) (t : Nat) (ht : t < ts.length)
    (x : Nat) : x ∈ getRacingEventsOf aidOf W ex t ↔ IsRace aidOf dep ts x t := by
  obtain ⟨evt, hevt, htt⟩ := h.event_at ht
  have htaid : aidAt aidOf ts t = some (aidOf evt.t) := by unfold aidAt; rw [htt]; rfl
  have hbiff := hb_of_inv hsame h
  unfold getRacingEventsOf
  simp only [hevt]
  generalize hprev : prevOnActor aidOf ex (aidOf evt.t) t = prev
  have hspec := raceLoop_spec (aidOf := aidOf) ex prev (raceCandidates W (aidOf evt.t) evt.cv) []
    (raceCandidates_sorted _ _ _) (by intro a ha; simp at ha)
  -- facts about valid aids
  have haid_bound : ∀ i a, aidAt aidOf ts i = some a → a < W - 1 := by
    intro i a hi
    unfold aidAt at hi
    cases hti : ts[i]? with
    | none => simp [hti] at hi
    | some ti =>
      simp [hti] at hi; subst hi
      exact hW ti (List.mem_of_getElem? hti)
  -- a candidate is an event of another actor that happens before t
  have hcand : ∀ c, c ∈ raceCandidates W (aidOf evt.t) evt.cv →
      ∃ a, a ≠ aidOf evt.t ∧ aidAt aidOf ts c = some a ∧ Chain dep ts c t := by
    intro c hc
    obtain ⟨a, _, hne, hg⟩ := mem_raceCandidates.mp hc
    obtain ⟨h1, h2⟩ := h.sound t evt a c hevt hg
    refine ⟨a, hne, h1, ?_⟩
    rcases h2 with rfl | h2
    · rw [htaid] at h1; cases h1; exact absurd rfl hne
    · exact h2
  -- the previous event of t's actor
  have hprevHB : ∀ e, prevHB aidOf ex prev e = true →
      ∃ p, Chain dep ts e p ∧ Chain dep ts p t ∧ aidAt aidOf ts p = some (aidOf evt.t) := by
    intro e he
    cases prev with
    | none => simp [prevHB] at he
    | some p =>
      obtain ⟨hpt, hpa, _⟩ := prevOnActor_some hprev
      rw [actorOf_eq_aidAt h] at hpa
      exact ⟨p, (hbiff e p).mp he, Chain.single hpt (depAt_same_actor hsame hpa htaid), hpa⟩
  have hprev_catch : ∀ e k, Chain dep ts e k → k < t → aidAt aidOf ts k = some (aidOf evt.t) →
      prevHB aidOf ex prev e = true := by
    intro e k hek hkt hka
    cases prev with
    | none =>
      exact absurd (by rw [actorOf_eq_aidAt h]; exact hka) (prevOnActor_none hprev k hkt)
    | some p =>
      obtain ⟨hpt, hpa, hmax⟩ := prevOnActor_some hprev
      have hkp := hmax k hkt (by rw [actorOf_eq_aidAt h]; exact hka)
      rw [actorOf_eq_aidAt h] at hpa
      have := hek.trans_hbeq (hbeq_same_actor hsame hka hpa hkp)
      exact (hbiff e p).mpr this
  rw [hspec x]
  simp only [List.not_mem_nil, false_or]
  constructor
  · rintro ⟨hxc, hxp, hxall⟩
    obtain ⟨a, hne, hxa, hxt⟩ := hcand x hxc
    refine ⟨by rw [hxa, htaid]; intro heq; cases heq; exact hne rfl, hxt, ?_⟩
    rintro ⟨k, hxk, hkt⟩
    obtain ⟨evk, hevk, htk⟩ := h.event_at (Nat.lt_trans hkt.lt ht)
    have hka : aidAt aidOf ts k = some (aidOf evk.t) := by unfold aidAt; rw [htk]; rfl
    by_cases hsameactor : aidOf evk.t = aidOf evt.t
    · rw [hsameactor] at hka
      rw [hprev_catch x k hxk hkt.lt hka] at hxp; cases hxp
    · -- the latest event c of k's actor that happens before t is a candidate and x --> c
      obtain ⟨c, hgc, hkc⟩ := h.complete t evt (aidOf evk.t) k hevt hka (Or.inr hkt)
      have hcc : c ∈ raceCandidates W (aidOf evt.t) evt.cv :=
        mem_raceCandidates.mpr ⟨aidOf evk.t, haid_bound k _ hka, hsameactor, hgc⟩
      obtain ⟨hca, _⟩ := h.sound t evt _ c hevt hgc
      have hxc' : Chain dep ts x c := hxk.trans_hbeq (hbeq_same_actor hsame hka hca hkc)
      by_cases hcR : c ∈ raceLoop aidOf ex prev (raceCandidates W (aidOf evt.t) evt.cv) []
      · have := hxall c hcR
        rw [(hbiff x c).mpr hxc'] at this; cases this
      · have hnot := mt (hspec c).mpr hcR
        simp only [List.not_mem_nil, false_or, not_and] at hnot
        have hnot := hnot hcc
        by_cases hcp : prevHB aidOf ex prev c = true
        · obtain ⟨p, hcp1, hcp2, hpa⟩ := hprevHB c hcp
          rw [hprev_catch x p (hxc'.trans hcp1) hcp2.lt hpa] at hxp; cases hxp
        · have hcp' : prevHB aidOf ex prev c = false := by simpa using hcp
          have hex := hnot hcp'
          obtain ⟨j, hjR, hcj⟩ : ∃ j, j ∈ raceLoop aidOf ex prev (raceCandidates W (aidOf evt.t) evt.cv) [] ∧
              happensBefore aidOf ex c j = true := by
            apply Classical.byContradiction
            intro hno
            apply hex
            intro j hj
            cases hh : happensBefore aidOf ex c j with
            | false => rfl
            | true => exact absurd ⟨j, hj, hh⟩ hno
          have hxj : Chain dep ts x j := hxc'.trans ((hbiff c j).mp hcj)
          have := hxall j hjR
          rw [(hbiff x j).mpr hxj] at this; cases this
  · rintro ⟨hne, hxt, hnobetween⟩
    obtain ⟨evx, hevx, htx⟩ := h.event_at (Nat.lt_trans hxt.lt ht)
    have hxa : aidAt aidOf ts x = some (aidOf evx.t) := by unfold aidAt; rw [htx]; rfl
    have hane : aidOf evx.t ≠ aidOf evt.t := by
      intro heq; apply hne; rw [hxa, htaid, heq]
    obtain ⟨c, hgc, hxc⟩ := h.complete t evt (aidOf evx.t) x hevt hxa (Or.inr hxt)
    obtain ⟨hca, hct⟩ := h.sound t evt _ c hevt hgc
    have hct' : Chain dep ts c t := by
      rcases hct with rfl | hct
      · rw [htaid] at hca; exact absurd (Option.some.inj hca).symm hane
      · exact hct
    have hxeq : x = c := by
      rcases Nat.eq_or_lt_of_le hxc with heq | hlt
      · exact heq
      · exact absurd ⟨c, Chain.single hlt (depAt_same_actor hsame hxa hca), hct'⟩ hnobetween
    subst hxeq
    refine ⟨mem_raceCandidates.mpr ⟨_, haid_bound x _ hxa, hane, hgc⟩, ?_, ?_⟩
    · cases hp : prevHB aidOf ex prev x with
      | false => rfl
      | true =>
        obtain ⟨p, h1, h2, _⟩ := hprevHB x hp
        exact absurd ⟨p, h1, h2⟩ hnobetween
    · intro j hj
      cases hh : happensBefore aidOf ex x j with
      | false => rfl
      | true =>
        have hjc := ((hspec j).mp hj)
        simp only [List.not_mem_nil, false_or] at hjc
        obtain ⟨_, _, _, hjt⟩ := hcand j hjc.1
        exact absurd ⟨j, (hbiff x j).mp hh, hjt⟩ hnobetween

end
end SgVerif.C42
