import SgVerif.C42.Inv
/-
C42 — `push_transition` preserves the invariant; `happens_before` is the chain relation.
-/
namespace SgVerif.C42

section
variable {T : Type} {aidOf : T → Nat} {dep : T → T → Bool}

theorem getElem?_push_old {ex : Execution T} {W : Nat} {t : T} {e : Nat} (h : e < ex.contents.length) :
    (pushTransition aidOf dep W ex t).contents[e]? = ex.contents[e]? := by
  unfold pushTransition; simp only; rw [List.getElem?_append_left h]

theorem getElem?_push_new {ex : Execution T} {W : Nat} {t : T} :
    (pushTransition aidOf dep W ex t).contents[ex.contents.length]? =
      some ⟨t, (maxClockVector dep W ex t).set (aidOf t) (some ex.size)⟩ := by
  unfold pushTransition; simp

theorem getElem?_push_cases {ex : Execution T} {W : Nat} {t : T} {e : Nat} {ev : Event T}
    (h : (pushTransition aidOf dep W ex t).contents[e]? = some ev) :
    (e < ex.contents.length ∧ ex.contents[e]? = some ev) ∨
    (e = ex.contents.length ∧ ev = ⟨t, (maxClockVector dep W ex t).set (aidOf t) (some ex.size)⟩) := by
  rcases Nat.lt_trichotomy e ex.contents.length with hlt | heq | hgt
  · left; rw [getElem?_push_old hlt] at h; exact ⟨hlt, h⟩
  · right; subst heq; rw [getElem?_push_new] at h; cases h; exact ⟨rfl, rfl⟩
  · exfalso
    have : (pushTransition aidOf dep W ex t).contents.length ≤ e := by
      unfold pushTransition; simp; omega
    rw [List.getElem?_eq_none this] at h; cases h

theorem maxcv_length {W : Nat} {ts : List T} {ex : Execution T} (_h : Inv aidOf dep W ts ex) (t : T) :
    (maxClockVector dep W ex t).length = W := by
  rw [maxClockVector_eq, mergeAll_length]; simp [ClockVector.init]

/-- soundness of the merged vector: every entry comes from an event on which `t` depends -/
theorem maxcv_sound (W : Nat) {ts : List T} {ex : Execution T} (h : Inv aidOf dep W ts ex) (t : T) {a m : Nat}
    (hg : (maxClockVector dep W ex t).get a = some m) :
    aidAt aidOf ts m = some a ∧ Chain dep (ts ++ [t]) m ts.length := by
  rw [maxClockVector_eq] at hg
  rcases mergeAll_sound _ _ (h.selected_len t) a m hg with h0 | ⟨c, hc, hcm⟩
  · rw [get_init] at h0; cases h0
  · obtain ⟨b, hd, ev, hl, hev, rfl⟩ := h.selected_inv t hc
    obtain ⟨haid, hdep, _⟩ := h.latestDependent_spec t hl
    obtain ⟨ha, hb⟩ := h.sound hd ev a m hev hcm
    exact ⟨ha, Chain.snoc hb.append (aidAt_lt haid) hdep⟩

/-- completeness of the merged vector -/
theorem maxcv_complete (hsame : ∀ t1 t2 : T, aidOf t1 = aidOf t2 → dep t1 t2 = true) (W : Nat) {ts : List T}
    {ex : Execution T} (h : Inv aidOf dep W ts ex) (t : T) {a m' : Nat}
    (ha : aidAt aidOf ts m' = some a) (hc : Chain dep (ts ++ [t]) m' ts.length) :
    ∃ m, (maxClockVector dep W ex t).get a = some m ∧ m' ≤ m := by
  obtain ⟨p, hmp, hpn, hdp⟩ := hc.last
  have hmp' : HBeq dep ts m' p := hmp.of_append hpn
  obtain ⟨evp, hevp, htp⟩ := h.event_at hpn
  have hpaid : aidAt aidOf ts p = some (aidOf evp.t) := by unfold aidAt; rw [htp]; rfl
  obtain ⟨hd, hl⟩ := h.latestDependent_exists t hpaid hdp
  obtain ⟨haid, _, hmax⟩ := h.latestDependent_spec t hl
  have hphd : p ≤ hd := hmax p hpaid hdp
  have hm'hd : HBeq dep ts m' hd := hmp'.trans (hbeq_same_actor hsame hpaid haid hphd)
  obtain ⟨ev, hev, hsel⟩ := h.selected_of_latest t hl
  obtain ⟨m1, hm1, hle1⟩ := h.complete hd ev a m' hev ha hm'hd
  rw [maxClockVector_eq]
  obtain ⟨m, hm, hle⟩ := mergeAll_ub _ _ (h.selected_len t) a m1 ev.cv hsel hm1
  exact ⟨m, hm, Nat.le_trans hle1 hle⟩

theorem inv_push (hsame : ∀ t1 t2 : T, aidOf t1 = aidOf t2 → dep t1 t2 = true) (W : Nat) {ts : List T}
    {ex : Execution T} (h : Inv aidOf dep W ts ex) (t : T) (ht : aidOf t < W) :
    Inv aidOf dep W (ts ++ [t]) (pushTransition aidOf dep W ex t) := by
  have hlen := h.length
  refine ⟨?_, ?_, ?_, ?_, ?_⟩
  · unfold pushTransition; simp [h.trans]
  · intro b
    show skipOf (pushSkip ex.skip (aidOf t) ex.size) b = _
    rw [skipOf_pushSkip, List.length_append, List.length_singleton, List.range_succ, List.filter_append]
    have hold : (List.range ts.length).filter (fun i => aidAt aidOf (ts ++ [t]) i == some b)
        = (List.range ts.length).filter (fun i => aidAt aidOf ts i == some b) := by
      apply List.filter_congr
      intro x hx
      rw [aidAt_append_left (List.mem_range.mp hx)]
    rw [hold]
    have hsz : ex.size = ts.length := hlen
    by_cases hb : b = aidOf t
    · subst hb
      simp [h.skipEq, hsz, aidAt_append_last]
    · have : ¬ aidOf t = b := fun e => hb e.symm
      simp [hb, h.skipEq, aidAt_append_last, this]
  · intro ev hev
    unfold pushTransition at hev
    simp only [List.mem_append, List.mem_singleton] at hev
    rcases hev with hev | rfl
    · exact h.cvLen ev hev
    · simp [maxcv_length h t]
  · intro e ev a m hev hg
    rcases getElem?_push_cases hev with ⟨hlt, hold⟩ | ⟨heq, rfl⟩
    · obtain ⟨h1, h2⟩ := h.sound e ev a m hold hg
      rw [aidAt_append_left (aidAt_lt h1)]
      exact ⟨h1, h2.append⟩
    · subst heq
      simp only at hg
      rw [get_set _ _ _ _ (by rw [maxcv_length h t]; exact ht)] at hg
      rw [hlen]
      split at hg
      · rename_i haeq
        cases hg
        subst haeq
        have : ex.size = ts.length := hlen
        rw [this]
        exact ⟨aidAt_append_last, Or.inl rfl⟩
      · obtain ⟨h1, h2⟩ := maxcv_sound W h t hg
        rw [aidAt_append_left (aidAt_lt h1)]
        exact ⟨h1, Or.inr h2⟩
  · intro e ev a m' hev ha hhb
    rcases getElem?_push_cases hev with ⟨hlt, hold⟩ | ⟨heq, rfl⟩
    · have helt : e < ts.length := by rw [← hlen]; exact hlt
      have hm'lt : m' < ts.length := Nat.lt_of_le_of_lt hhb.le helt
      rw [aidAt_append_left hm'lt] at ha
      exact h.complete e ev a m' hold ha (hhb.of_append helt)
    · subst heq
      simp only
      rw [get_set _ _ _ _ (by rw [maxcv_length h t]; exact ht)]
      rw [hlen] at hhb
      have hsz : ex.size = ts.length := hlen
      split
      · exact ⟨ex.size, rfl, by rw [hsz]; exact hhb.le⟩
      · rename_i hne
        rcases hhb with heq | hc
        · subst heq
          rw [aidAt_append_last] at ha
          cases ha; exact absurd rfl hne
        · have hm'lt : m' < ts.length := by
            have := hc.lt; exact this
          rw [aidAt_append_left hm'lt] at ha
          exact maxcv_complete hsame W h t ha hc

theorem inv_foldl (hsame : ∀ t1 t2 : T, aidOf t1 = aidOf t2 → dep t1 t2 = true) (W : Nat) (ts2 : List T) :
    ∀ (ts1 : List T) (ex : Execution T), Inv aidOf dep W ts1 ex → (∀ t ∈ ts2, aidOf t < W) →
      Inv aidOf dep W (ts1 ++ ts2) (ts2.foldl (pushTransition aidOf dep W) ex) := by
  induction ts2 with
  | nil => intro ts1 ex h _; simpa using h
  | cons t r ih =>
    intro ts1 ex h hW
    have h1 := inv_push hsame W h t (hW t (by simp))
    have h2 := ih (ts1 ++ [t]) _ h1 (fun t' ht' => hW t' (List.mem_cons_of_mem _ ht'))
    simpa using h2

/-- the invariant holds for every execution built by `push_transition` from the empty one -/
theorem inv_run (hsame : ∀ t1 t2 : T, aidOf t1 = aidOf t2 → dep t1 t2 = true) (W : Nat) (ts : List T)
    (hW : ∀ t ∈ ts, aidOf t < W) : Inv aidOf dep W ts (run aidOf dep W ts) := by
  have := inv_foldl hsame W ts [] Execution.empty (inv_empty W) hW
  simpa [run] using this

/-- `happens_before` on an execution satisfying the invariant is the chain relation -/
theorem hb_of_inv (hsame : ∀ t1 t2 : T, aidOf t1 = aidOf t2 → dep t1 t2 = true) {W : Nat} {ts : List T}
    {ex : Execution T} (h : Inv aidOf dep W ts ex) (e1 e2 : Nat) :
    happensBefore aidOf ex e1 e2 = true ↔ Chain dep ts e1 e2 := by
  constructor
  · intro hb
    unfold happensBefore at hb
    split at hb
    · cases hb
    · rename_i hlt
      have hlt : e1 < e2 := by omega
      split at hb
      · rename_i ev2 ev1 hev2 hev1
        split at hb
        · rename_i c hc
          have hle : e1 ≤ c := by simpa using hb
          obtain ⟨hca, hcb⟩ := h.sound e2 ev2 _ c hev2 hc
          have he1a : aidAt aidOf ts e1 = some (aidOf ev1.t) := by
            unfold aidAt; rw [h.trans_at hev1]; rfl
          have := (hbeq_same_actor hsame he1a hca hle).trans hcb
          rcases this with heq | hch
          · omega
          · exact hch
        · cases hb
      · cases hb
  · intro hc
    have hlt := hc.lt
    have hv := hc.valid
    obtain ⟨ev2, hev2, _⟩ := h.event_at hv
    obtain ⟨ev1, hev1, ht1⟩ := h.event_at (Nat.lt_trans hlt hv)
    have he1a : aidAt aidOf ts e1 = some (aidOf ev1.t) := by unfold aidAt; rw [ht1]; rfl
    obtain ⟨m, hm, hle⟩ := h.complete e2 ev2 _ e1 hev2 he1a (Or.inr hc)
    unfold happensBefore
    have : ¬ e1 ≥ e2 := by omega
    simp only [this, if_false, hev2, hev1, hm]
    simpa using hle

end
end SgVerif.C42
