import SgVerif.C42.Race
/-
C42 — the list returned by `get_racing_events_of` is strictly decreasing (hence duplicate-free): the candidates are sorted
in decreasing order and made unique, and the filtering loop keeps a sub-list of them in the same order.
-/
namespace SgVerif.C42

/-- `candidates.unique()` on a list sorted with `std::greater` leaves a strictly decreasing list -/
theorem uniqAdj_strict : ∀ (l : List Nat), l.Pairwise (fun a b => decide (a ≥ b) = true) → (uniqAdj l).Pairwise (fun a b => a > b)
  | [], _ => by simp [uniqAdj]
  | [a], _ => by simp [uniqAdj]
  | a :: b :: r, h => by
    unfold uniqAdj
    have hbr : (b :: r).Pairwise (fun a b => decide (a ≥ b) = true) := (List.pairwise_cons.mp h).2
    have ih := uniqAdj_strict (b :: r) hbr
    split
    · exact ih
    · rename_i hne
      refine List.pairwise_cons.mpr ⟨?_, ih⟩
      intro x hx
      have hx' : x ∈ b :: r := (mem_uniqAdj _ _).mp hx
      have hab : a ≥ b := by simpa using (List.pairwise_cons.mp h).1 b List.mem_cons_self
      have hbx : b ≥ x := by
        cases hx' with
        | head => exact Nat.le_refl _
        | tail _ hm => simpa using (List.pairwise_cons.mp hbr).1 x hm
      omega

section
variable {T : Type} {aidOf : T → Nat}

/-- the filtering loop returns a sub-list of (what it already holds) ++ (the candidates), in the same order -/
theorem raceLoop_sublist (ex : Execution T) (prev : Option Nat) :
    ∀ (l acc : List Nat), (raceLoop aidOf ex prev l acc).Sublist (acc ++ l)
  | [], acc => by simp [raceLoop]
  | e :: rest, acc => by
    unfold raceLoop
    have hskip : (acc ++ rest).Sublist (acc ++ e :: rest) :=
      List.Sublist.append_left (List.sublist_cons_self e rest) acc
    split
    · exact (raceLoop_sublist ex prev rest acc).trans hskip
    · split
      · exact (raceLoop_sublist ex prev rest acc).trans hskip
      · have := raceLoop_sublist ex prev rest (acc ++ [e])
        simpa using this

theorem raceCandidates_strict (W evtAid : Nat) (cv : ClockVector) :
    (raceCandidates W evtAid cv).Pairwise (fun a b => a > b) := by
  unfold raceCandidates
  apply uniqAdj_strict
  apply List.pairwise_mergeSort
  · intro a b c h1 h2
    simp only [decide_eq_true_eq] at *
    omega
  · intro a b
    simp only [Bool.or_eq_true, decide_eq_true_eq]
    omega

theorem getRacingEventsOf_strict (W : Nat) (ex : Execution T) (target : Nat) :
    (getRacingEventsOf aidOf W ex target).Pairwise (fun a b => a > b) := by
  unfold getRacingEventsOf
  split
  · exact List.Pairwise.nil
  · rename_i evt _
    have hs := raceLoop_sublist (aidOf := aidOf) ex (prevOnActor aidOf ex (aidOf evt.t) target)
      (raceCandidates W (aidOf evt.t) evt.cv) []
    simp only [List.nil_append] at hs
    exact (raceCandidates_strict W _ _).sublist hs

end
end SgVerif.C42
