/-
C42 — executable model of `simgrid::mc::odpor::Execution` (src/mc/explo/odpor/Execution.cpp) and of
`simgrid::mc::ClockVector` (src/mc/api/ClockVector.{hpp,cpp}), core-only (no Mathlib).

The model is parametric in
  * `T`      the type of transitions,
  * `aidOf`  `Transition::aid_`,
  * `dep`    `earlier->dispatch_depends(later)` — an ARBITRARY relation (no symmetry assumed), and
  * `W`      `static_config::max_threads` (32 in the pinned tree): the number of entries of a ClockVector.
Valid aids are `< W - 1` (`Aid`'s constructor throws `AidCannotBeAboveMaxThreads` otherwise; `W-1` is INVALID).

NOT modelled: the memory-access epochs (`initialize_epoch`/`update_epoch_from`, data-race detection; the
transitions built by the harness carry no memory trace), `find_pre_event_of_aid` (only feeds the epochs),
`consider_races`, the ODPOR extension functions (C40), `get_reversible_races_of` (needs `reversible_race`
of every transition kind, which `xbt_die`s on executions that are not enabledness-consistent).
-/
namespace SgVerif.C42

/-- `simgrid::mc::Clock`: `none` = `Clock::INVALID`, "seen as the smallest possible value" by `operator<=>`. -/
abbrev Clock := Option Nat

/-- `std::max<Clock>(a, b)` with `Clock::operator<=>` (INVALID smallest). -/
def Clock.max : Clock → Clock → Clock
  | none, b => b
  | a, none => a
  | some x, some y => some (Nat.max x y)

/-- `ClockVector::contents_` : `std::vector<Clock>(max_threads, Clock::INVALID)`. -/
abbrev ClockVector := List Clock

/-- `ClockVector()` -/
def ClockVector.init (W : Nat) : ClockVector := List.replicate W none

/-- `ClockVector::get(aid)`: `if (aid.value() >= contents_.size()) return Clock::INVALID; return contents_[aid]` -/
def ClockVector.get (cv : ClockVector) (a : Nat) : Clock :=
  match cv[a]? with
  | some c => c
  | none => none

/-- `ClockVector::max_emplace_left(cv1, cv2)`:
`std::transform(cv2.begin(), cv2.end(), cv1.begin(), cv1.begin(), [](Clock a, Clock b){ return std::max(a, b); })`
writes `cv1[i] = max(cv2[i], cv1[i])` for every index of `cv2`; the entries of `cv1` beyond `cv2` stay. -/
def maxEmplaceLeft : ClockVector → ClockVector → ClockVector
  | c1 :: r1, c2 :: r2 => Clock.max c2 c1 :: maxEmplaceLeft r1 r2
  | r1, [] => r1
  | [], _ :: _ => []   -- C++: write past the end of cv1 (UB); unreachable, every vector has max_threads entries

/-- `ClockVector::max(cv1, cv2)` (ClockVector.cpp): copy of cv1, then for aid < max_threads-1:
`max_vector[aid] = std::max(cv1.get(aid), cv2.get(aid))` (the last entry, INVALID's slot, is cv1's). -/
def ClockVector.maxOf (W : Nat) (cv1 cv2 : ClockVector) : ClockVector :=
  (List.range (W - 1)).foldl (fun mv a => mv.set a (Clock.max (cv1.get a) (cv2.get a))) cv1

/-- `odpor::Event` (transition + clock vector; epochs not modelled) -/
structure Event (T : Type) where
  t : T
  cv : ClockVector

/-- `odpor::Execution`: `contents_` and `skip_list_` (per aid: handles of that actor's events, ascending) -/
structure Execution (T : Type) where
  contents : List (Event T)
  skip : List (List Nat)

/-- `Execution()`: `skip_list_ = {{}}` -/
def Execution.empty {T : Type} : Execution T := ⟨[], [[]]⟩

def Execution.size {T : Type} (ex : Execution T) : Nat := ex.contents.length

/-- `skip_list_.resize(aid+1, {})` when too short, then `skip_list_[aid].push_back(v)` -/
def pushSkip : List (List Nat) → Nat → Nat → List (List Nat)
  | [], 0, v => [[v]]
  | [], a + 1, v => [] :: pushSkip [] a v
  | l :: r, 0, v => (l ++ [v]) :: r
  | l :: r, a + 1, v => l :: pushSkip r a v

section
variable {T : Type} (aidOf : T → Nat) (dep : T → T → Bool)

/-- inner loop of `push_transition`:
```
for (auto event_it = events.crbegin(); event_it != events.crend(); ++event_it)
  if (contents_[*event_it].get_transition()->dispatch_depends(t.get())) { ...; break; }
```
the handle of the most recent event of this actor that `t` depends on. -/
def latestDependent (ex : Execution T) (t : T) (events : List Nat) : Option Nat :=
  events.reverse.find? (fun h => match ex.contents[h]? with
    | some ev => dep ev.t t
    | none => false)    -- a handle outside contents_ (C++: UB); unreachable by the skip-list invariant

/-- the clock vector selected in one actor's skip list, if any (`contents_[*event_it].get_clock_vector()`) -/
def selectedCv (ex : Execution T) (t : T) (events : List Nat) : Option ClockVector :=
  match latestDependent dep ex t events with
  | some h =>
    match ex.contents[h]? with
    | some ev => some ev.cv
    | none => none
  | none => none

/-- the outer loop of `push_transition` over `skip_list_`, accumulating `max_clock_vector` with
`ClockVector::max_emplace_left(max_clock_vector, contents_[*event_it].get_clock_vector())` -/
def maxClockVector (W : Nat) (ex : Execution T) (t : T) : ClockVector :=
  ex.skip.foldl (fun cv events =>
    match selectedCv dep ex t events with
    | some c => maxEmplaceLeft cv c
    | none => cv) (ClockVector.init W)

/-- `Execution::push_transition(t)`:
```
max_clock_vector[t->aid_] = this->size();
contents_.push_back(Event(t, std::move(max_clock_vector)));
if (skip_list_.size() <= t->aid_.value()) skip_list_.resize(t->aid_.value() + 1, {});
skip_list_[t->aid_.value()].push_back(this->size() - 1);
``` -/
def pushTransition (W : Nat) (ex : Execution T) (t : T) : Execution T :=
  let cv := (maxClockVector dep W ex t).set (aidOf t) (some ex.size)
  { contents := ex.contents ++ [⟨t, cv⟩]
    skip := pushSkip ex.skip (aidOf t) ex.size }

/-- `Execution(const PartialExecution& w)` / `push_partial_execution` -/
def run (W : Nat) (ts : List T) : Execution T := ts.foldl (pushTransition aidOf dep W) Execution.empty

/-- `Execution::happens_before(e1, e2)`:
```
if (e1_handle >= e2_handle) return false;
const Event& e2 = get_event_with_handle(e2_handle); const Aid proc_e1 = get_actor_with_handle(e1_handle);
if (const auto c = e2.get_clock_vector().get(proc_e1); c.has_value()) return e1_handle <= c.value();
return false;
``` -/
def happensBefore (ex : Execution T) (e1 e2 : Nat) : Bool :=
  if e1 ≥ e2 then false
  else
    match ex.contents[e2]?, ex.contents[e1]? with
    | some ev2, some ev1 =>
      match ev2.cv.get (aidOf ev1.t) with
      | some c => decide (e1 ≤ c)
      | none => false
    | _, _ => false      -- handle out of range (C++: UB); the theorems only speak about handles < size

/-- `get_actor_with_handle` -/
def actorOf (ex : Execution T) (h : Nat) : Option Nat := (ex.contents[h]?).map (fun ev => aidOf ev.t)

/-- `Execution::happens_before_process(e, p, limit)` -/
def happensBeforeProcess (ex : Execution T) (e p limit : Nat) : Bool :=
  if actorOf aidOf ex e = some p then true
  else (List.range limit).any (fun k => decide (e + 1 ≤ k) && happensBefore aidOf ex e k && (actorOf aidOf ex k == some p))

/-- `candidates.unique()` of std::list: removes consecutive duplicates -/
def uniqAdj : List Nat → List Nat
  | a :: b :: r => if a = b then uniqAdj (b :: r) else a :: uniqAdj (b :: r)
  | l => l

/-- the search for `prev_on_actor` in `get_racing_events_of`:
`for (p = target - 1; p != UINT32_MAX; p--) if (get_actor_with_handle(p) == evt_aid) break;` -/
def prevOnActor (ex : Execution T) (aid : Nat) : Nat → Option Nat
  | 0 => none
  | p + 1 => if actorOf aidOf ex p = some aid then some p else prevOnActor ex aid p

/-- the test `prev_on_actor != numeric_limits::max() and happens_before(e_i, prev_on_actor)` -/
def prevHB (ex : Execution T) (prev : Option Nat) (e : Nat) : Bool :=
  match prev with
  | some p => happensBefore aidOf ex e p
  | none => false

/-- the filtering loop of `get_racing_events_of` (candidates in decreasing order, `acc` = `racing_events`) -/
def raceLoop (ex : Execution T) (prev : Option Nat) : List Nat → List Nat → List Nat
  | [], acc => acc
  | e :: rest, acc =>
    if prevHB aidOf ex prev e then raceLoop ex prev rest acc
    else if acc.any (fun ej => happensBefore aidOf ex e ej) then raceLoop ex prev rest acc
    else raceLoop ex prev rest (acc ++ [e])

/-- candidates of `get_racing_events_of`:
```
for (unsigned aid = 0; aid < static_config::max_threads - 1; aid++)
  if (aid != evt_aid.value() and evt_cv.get(aid).has_value()) candidates.push_back(evt_cv.get(aid).value());
candidates.sort(std::greater<EventHandle>()); candidates.unique();
``` -/
def raceCandidates (W : Nat) (evtAid : Nat) (cv : ClockVector) : List Nat :=
  let c := (List.range (W - 1)).filterMap (fun a => if a ≠ evtAid then cv.get a else none)
  uniqAdj (c.mergeSort (fun a b => decide (a ≥ b)))

/-- `Execution::get_racing_events_of(target)` -/
def getRacingEventsOf (W : Nat) (ex : Execution T) (target : Nat) : List Nat :=
  match ex.contents[target]? with
  | none => []       -- C++: UB
  | some evt =>
    let aid := aidOf evt.t
    raceLoop aidOf ex (prevOnActor aidOf ex aid target) (raceCandidates W aid evt.cv) []

end

end SgVerif.C42
