import SgVerif.C42.Model
/-
C42 — helper lemmas: clock-vector algebra, the chain relation (the SPEC of happens-before), the invariant of
`push_transition`, and the loop invariant of `get_racing_events_of`.  Core-only.
-/
namespace SgVerif.C42

/-! ### Clock and ClockVector -/

theorem Clock.max_sound {x y : Clock} {m : Nat} (h : Clock.max x y = some m) : x = some m ∨ y = some m := by
  cases x <;> cases y <;> simp [Clock.max] at h ⊢
  · exact h
  · exact h
  · rename_i a b
    rcases Nat.le_total a b with hab | hab
    · right; rw [← h]; exact (Nat.max_eq_right hab).symm
    · left; rw [← h]; exact (Nat.max_eq_left hab).symm

theorem Clock.max_ub_left {x y : Clock} {k : Nat} (h : x = some k) : ∃ m, Clock.max x y = some m ∧ k ≤ m := by
  subst h
  cases y with
  | none => exact ⟨k, rfl, Nat.le_refl _⟩
  | some b => exact ⟨Nat.max k b, rfl, Nat.le_max_left _ _⟩

theorem Clock.max_ub_right {x y : Clock} {k : Nat} (h : y = some k) : ∃ m, Clock.max x y = some m ∧ k ≤ m := by
  subst h
  cases x with
  | none => exact ⟨k, rfl, Nat.le_refl _⟩
  | some b => exact ⟨Nat.max b k, rfl, Nat.le_max_right _ _⟩

theorem get_init (W a : Nat) : (ClockVector.init W).get a = none := by
  unfold ClockVector.get ClockVector.init
  rw [List.getElem?_replicate]
  split <;> simp_all

theorem get_nil (a : Nat) : ClockVector.get [] a = none := by
  simp [ClockVector.get]

theorem get_cons_zero (c : Clock) (r : ClockVector) : ClockVector.get (c :: r) 0 = c := by
  simp [ClockVector.get]

theorem get_cons_succ (c : Clock) (r : ClockVector) (a : Nat) :
    ClockVector.get (c :: r) (a + 1) = ClockVector.get r a := by
  simp [ClockVector.get]

theorem get_of_le_length {cv : ClockVector} {a : Nat} (h : cv.length ≤ a) : cv.get a = none := by
  unfold ClockVector.get
  rw [List.getElem?_eq_none h]

theorem length_maxEmplaceLeft (c1 c2 : ClockVector) : (maxEmplaceLeft c1 c2).length = c1.length := by
  induction c1 generalizing c2 with
  | nil => cases c2 <;> simp [maxEmplaceLeft]
  | cons a r ih =>
    cases c2 with
    | nil => simp [maxEmplaceLeft]
    | cons b r2 => simp [maxEmplaceLeft, ih]

theorem Clock.max_none_left (x : Clock) : Clock.max none x = x := by
  cases x <;> rfl

theorem get_maxEmplaceLeft (c1 c2 : ClockVector) (h : c2.length ≤ c1.length) (a : Nat) :
    (maxEmplaceLeft c1 c2).get a = Clock.max (c2.get a) (c1.get a) := by
  induction c1 generalizing c2 a with
  | nil =>
    cases c2 with
    | nil => simp [maxEmplaceLeft, get_nil, Clock.max]
    | cons b r2 => simp at h
  | cons x r ih =>
    cases c2 with
    | nil => simp [maxEmplaceLeft, get_nil, Clock.max_none_left]
    | cons b r2 =>
      cases a with
      | zero => simp [maxEmplaceLeft, get_cons_zero]
      | succ a =>
        simp only [maxEmplaceLeft, get_cons_succ]
        exact ih r2 (by simpa using h) a

theorem get_set (cv : ClockVector) (a b : Nat) (v : Clock) (h : a < cv.length) :
    ClockVector.get (cv.set a v) b = if b = a then v else cv.get b := by
  unfold ClockVector.get
  rw [List.getElem?_set]
  by_cases hab : a = b
  · subst hab; simp [h]
  · have : ¬ b = a := fun e => hab e.symm
    simp [hab, this]

/-- `mergeAll`: the accumulation of `push_transition`'s outer loop, as a fold over the selected vectors -/
def mergeAll (init : ClockVector) (l : List (Option ClockVector)) : ClockVector :=
  l.foldl (fun cv o => match o with | some c => maxEmplaceLeft cv c | none => cv) init

theorem mergeAll_length (init : ClockVector) (l : List (Option ClockVector)) :
    (mergeAll init l).length = init.length := by
  induction l generalizing init with
  | nil => rfl
  | cons o r ih =>
    cases o with
    | none => exact ih init
    | some c =>
      show (mergeAll (maxEmplaceLeft init c) r).length = _
      rw [ih, length_maxEmplaceLeft]

theorem mergeAll_sound (init : ClockVector) (l : List (Option ClockVector))
    (hl : ∀ c, some c ∈ l → c.length ≤ init.length) (a m : Nat)
    (h : (mergeAll init l).get a = some m) :
    init.get a = some m ∨ ∃ c, some c ∈ l ∧ c.get a = some m := by
  induction l generalizing init with
  | nil => exact Or.inl h
  | cons o r ih =>
    cases o with
    | none =>
      rcases ih init (fun c hc => hl c (List.mem_cons_of_mem _ hc)) h with h1 | ⟨c, hc, h2⟩
      · exact Or.inl h1
      · exact Or.inr ⟨c, List.mem_cons_of_mem _ hc, h2⟩
    | some c0 =>
      have hc0 : c0.length ≤ init.length := hl c0 (by simp)
      have h' : (mergeAll (maxEmplaceLeft init c0) r).get a = some m := h
      rcases ih (maxEmplaceLeft init c0)
        (fun c hc => by rw [length_maxEmplaceLeft]; exact hl c (List.mem_cons_of_mem _ hc)) h' with h1 | ⟨c, hc, h2⟩
      · rw [get_maxEmplaceLeft _ _ hc0] at h1
        rcases Clock.max_sound h1 with h3 | h3
        · exact Or.inr ⟨c0, by simp, h3⟩
        · exact Or.inl h3
      · exact Or.inr ⟨c, List.mem_cons_of_mem _ hc, h2⟩

theorem mergeAll_ub_init (init : ClockVector) (l : List (Option ClockVector))
    (hl : ∀ c, some c ∈ l → c.length ≤ init.length) (a k : Nat) (h : init.get a = some k) :
    ∃ m, (mergeAll init l).get a = some m ∧ k ≤ m := by
  induction l generalizing init k with
  | nil => exact ⟨k, h, Nat.le_refl _⟩
  | cons o r ih =>
    cases o with
    | none => exact ih init (fun c hc => hl c (List.mem_cons_of_mem _ hc)) k h
    | some c0 =>
      have hc0 : c0.length ≤ init.length := hl c0 (by simp)
      obtain ⟨m1, hm1, hk1⟩ : ∃ m, (maxEmplaceLeft init c0).get a = some m ∧ k ≤ m := by
        rw [get_maxEmplaceLeft _ _ hc0]; exact Clock.max_ub_right h
      obtain ⟨m, hm, hk⟩ := ih (maxEmplaceLeft init c0)
        (fun c hc => by rw [length_maxEmplaceLeft]; exact hl c (List.mem_cons_of_mem _ hc)) m1 hm1
      exact ⟨m, hm, Nat.le_trans hk1 hk⟩

theorem mergeAll_ub (init : ClockVector) (l : List (Option ClockVector))
    (hl : ∀ c, some c ∈ l → c.length ≤ init.length) (a k : Nat) (c : ClockVector) (hc : some c ∈ l)
    (h : c.get a = some k) :
    ∃ m, (mergeAll init l).get a = some m ∧ k ≤ m := by
  induction l generalizing init with
  | nil => simp at hc
  | cons o r ih =>
    rcases List.mem_cons.mp hc with heq | hmem
    · subst heq
      have hc0 : c.length ≤ init.length := hl c (by simp)
      obtain ⟨m1, hm1, hk1⟩ : ∃ m, (maxEmplaceLeft init c).get a = some m ∧ k ≤ m := by
        rw [get_maxEmplaceLeft _ _ hc0]; exact Clock.max_ub_left h
      obtain ⟨m, hm, hk⟩ := mergeAll_ub_init (maxEmplaceLeft init c) r
        (fun c' hc' => by rw [length_maxEmplaceLeft]; exact hl c' (List.mem_cons_of_mem _ hc')) a m1 hm1
      exact ⟨m, hm, Nat.le_trans hk1 hk⟩
    · cases o with
      | none => exact ih init (fun c' hc' => hl c' (List.mem_cons_of_mem _ hc')) hmem
      | some c0 =>
        exact ih (maxEmplaceLeft init c0)
          (fun c' hc' => by rw [length_maxEmplaceLeft]; exact hl c' (List.mem_cons_of_mem _ hc')) hmem

/-! ### searching a descending list -/

theorem find_desc_max {p : Nat → Bool} {l : List Nat} (hl : l.Pairwise (fun a b => a > b)) {h : Nat}
    (hf : l.find? p = some h) : ∀ x ∈ l, p x = true → x ≤ h := by
  induction l with
  | nil => simp at hf
  | cons y r ih =>
    rw [List.pairwise_cons] at hl
    intro x hx hpx
    by_cases hpy : p y = true
    · simp [List.find?, hpy] at hf
      subst hf
      rcases List.mem_cons.mp hx with rfl | hxr
      · exact Nat.le_refl _
      · exact Nat.le_of_lt (hl.1 x hxr)
    · have hpy' : p y = false := by simpa using hpy
      simp [List.find?, hpy'] at hf
      rcases List.mem_cons.mp hx with rfl | hxr
      · rw [hpx] at hpy'; cases hpy'
      · exact ih hl.2 hf x hxr hpx

theorem find_rev_asc_max {p : Nat → Bool} {l : List Nat} (hl : l.Pairwise (fun a b => a < b)) {h : Nat}
    (hf : l.reverse.find? p = some h) : h ∈ l ∧ p h = true ∧ ∀ x ∈ l, p x = true → x ≤ h := by
  refine ⟨by simpa using List.mem_of_find?_eq_some hf, List.find?_some hf, ?_⟩
  intro x hx hpx
  exact find_desc_max (List.pairwise_reverse.mpr hl) hf x (by simpa using hx) hpx

theorem find_rev_exists {p : Nat → Bool} {l : List Nat} {x : Nat} (hx : x ∈ l) (hpx : p x = true) :
    ∃ h, l.reverse.find? p = some h := by
  cases hf : l.reverse.find? p with
  | some h => exact ⟨h, rfl⟩
  | none =>
    rw [List.find?_eq_none] at hf
    exact absurd hpx (hf x (by simpa using hx))

/-! ### the skip list -/

def skipOf (s : List (List Nat)) (b : Nat) : List Nat := (s[b]?).getD []

theorem skipOf_pushSkip (s : List (List Nat)) (a v b : Nat) :
    skipOf (pushSkip s a v) b = if b = a then skipOf s a ++ [v] else skipOf s b := by
  induction s generalizing a b with
  | nil =>
    induction a generalizing b with
    | zero =>
      cases b <;> simp [pushSkip, skipOf]
    | succ a iha =>
      cases b with
      | zero => simp [pushSkip, skipOf]
      | succ b =>
        have := iha b
        simp only [skipOf, pushSkip, List.getElem?_cons_succ] at this ⊢
        rw [this]; simp
  | cons l r ih =>
    cases a with
    | zero => cases b <;> simp [pushSkip, skipOf]
    | succ a =>
      cases b with
      | zero => simp [pushSkip, skipOf]
      | succ b =>
        have := ih a b
        simp only [skipOf, pushSkip, List.getElem?_cons_succ] at this ⊢
        rw [this]; simp

theorem mem_skip_eq_skipOf {s : List (List Nat)} {events : List Nat} (h : events ∈ s) :
    ∃ b, skipOf s b = events := by
  obtain ⟨b, hb⟩ := List.mem_iff_getElem?.mp h
  exact ⟨b, by simp [skipOf, hb]⟩

theorem skipOf_mem_skip {s : List (List Nat)} {b x : Nat} (h : x ∈ skipOf s b) : skipOf s b ∈ s := by
  unfold skipOf at h ⊢
  cases hb : s[b]? with
  | none => simp [hb] at h
  | some l => simpa using List.mem_iff_getElem?.mpr ⟨b, hb⟩

end SgVerif.C42
