import SgVerif.C42.Lemmas
/-
C42 — the SPEC (chain of pairwise dependent events) and the invariant of `push_transition`:
"the clock vector of event e at actor a = the latest event of a that happens-before-or-equals e".
-/
namespace SgVerif.C42

section
variable {T : Type} (aidOf : T → Nat) (dep : T → T → Bool)

/-- actor of the i-th transition of the sequence -/
def aidAt (ts : List T) (i : Nat) : Option Nat := (ts[i]?).map aidOf

/-- `ts[i]` and `ts[j]` exist and `ts[i]->dispatch_depends(ts[j])` -/
def DepAt (ts : List T) (i j : Nat) : Prop := ∃ ti tj, ts[i]? = some ti ∧ ts[j]? = some tj ∧ dep ti tj = true

/-- SPEC: `Chain ts e1 e2` iff there are `e1 = x0 < x1 < … < xk = e2` (k ≥ 1) with `dep(x_i, x_{i+1})` for all i. -/
inductive Chain (ts : List T) : Nat → Nat → Prop
  | single {i j : Nat} : i < j → DepAt dep ts i j → Chain ts i j
  | step {i k j : Nat} : i < k → DepAt dep ts i k → Chain ts k j → Chain ts i j

/-- reflexive closure -/
def HBeq (ts : List T) (i j : Nat) : Prop := i = j ∨ Chain dep ts i j

variable {dep}

theorem Chain.lt {ts : List T} {i j : Nat} (h : Chain dep ts i j) : i < j := by
  induction h with
  | single h _ => exact h
  | step h _ _ ih => exact Nat.lt_trans h ih

theorem DepAt.valid_right {ts : List T} {i j : Nat} (h : DepAt dep ts i j) : j < ts.length := by
  obtain ⟨_, tj, _, h2, _⟩ := h
  exact (List.getElem?_eq_some_iff.mp h2).1

theorem Chain.valid {ts : List T} {i j : Nat} (h : Chain dep ts i j) : j < ts.length := by
  induction h with
  | single _ h => exact h.valid_right
  | step _ _ _ ih => exact ih

theorem Chain.trans {ts : List T} {i j k : Nat} (h1 : Chain dep ts i j) (h2 : Chain dep ts j k) :
    Chain dep ts i k := by
  induction h1 with
  | single h d => exact Chain.step h d h2
  | step h d _ ih => exact Chain.step h d (ih h2)

theorem Chain.snoc {ts : List T} {i j k : Nat} (h1 : HBeq dep ts i j) (hjk : j < k) (d : DepAt dep ts j k) :
    Chain dep ts i k := by
  rcases h1 with rfl | h1
  · exact Chain.single hjk d
  · exact h1.trans (Chain.single hjk d)

/-- a chain ends with a direct dependency -/
theorem Chain.last {ts : List T} {i j : Nat} (h : Chain dep ts i j) :
    ∃ p, HBeq dep ts i p ∧ p < j ∧ DepAt dep ts p j := by
  induction h with
  | single h d => exact ⟨_, Or.inl rfl, h, d⟩
  | step h d c ih =>
    obtain ⟨p, hp, hpj, dp⟩ := ih
    refine ⟨p, Or.inr ?_, hpj, dp⟩
    rcases hp with rfl | hp
    · exact Chain.single h d
    · exact Chain.step h d hp

theorem HBeq.trans_chain {ts : List T} {i j k : Nat} (h1 : HBeq dep ts i j) (h2 : Chain dep ts j k) :
    Chain dep ts i k := by
  rcases h1 with rfl | h1
  · exact h2
  · exact h1.trans h2

theorem Chain.trans_hbeq {ts : List T} {i j k : Nat} (h1 : Chain dep ts i j) (h2 : HBeq dep ts j k) :
    Chain dep ts i k := by
  rcases h2 with rfl | h2
  · exact h1
  · exact h1.trans h2

theorem HBeq.trans {ts : List T} {i j k : Nat} (h1 : HBeq dep ts i j) (h2 : HBeq dep ts j k) :
    HBeq dep ts i k := by
  rcases h2 with rfl | h2
  · exact h1
  · exact Or.inr (h1.trans_chain h2)

theorem HBeq.le {ts : List T} {i j : Nat} (h : HBeq dep ts i j) : i ≤ j := by
  rcases h with rfl | h
  · exact Nat.le_refl _
  · exact Nat.le_of_lt h.lt

/-- extending the sequence does not change the relation between old events -/
theorem DepAt.append {ts : List T} {t : T} {i j : Nat} (h : DepAt dep ts i j) : DepAt dep (ts ++ [t]) i j := by
  obtain ⟨ti, tj, h1, h2, h3⟩ := h
  have hi := (List.getElem?_eq_some_iff.mp h1).1
  have hj := (List.getElem?_eq_some_iff.mp h2).1
  exact ⟨ti, tj, by rw [List.getElem?_append_left hi]; exact h1, by rw [List.getElem?_append_left hj]; exact h2, h3⟩

theorem DepAt.of_append {ts : List T} {t : T} {i j : Nat} (h : DepAt dep (ts ++ [t]) i j) (hi : i < ts.length)
    (hj : j < ts.length) : DepAt dep ts i j := by
  obtain ⟨ti, tj, h1, h2, h3⟩ := h
  rw [List.getElem?_append_left hi] at h1
  rw [List.getElem?_append_left hj] at h2
  exact ⟨ti, tj, h1, h2, h3⟩

theorem Chain.append {ts : List T} {t : T} {i j : Nat} (h : Chain dep ts i j) : Chain dep (ts ++ [t]) i j := by
  induction h with
  | single h d => exact Chain.single h d.append
  | step h d _ ih => exact Chain.step h d.append ih

theorem Chain.of_append {ts : List T} {t : T} {i j : Nat} (h : Chain dep (ts ++ [t]) i j) (hj : j < ts.length) :
    Chain dep ts i j := by
  induction h with
  | single h d => exact Chain.single h (d.of_append (Nat.lt_trans h hj) hj)
  | step h d c ih =>
    have hc := ih hj
    exact Chain.step h (d.of_append (Nat.lt_trans h (Nat.lt_trans c.lt hj)) (Nat.lt_trans c.lt hj)) hc

theorem HBeq.append {ts : List T} {t : T} {i j : Nat} (h : HBeq dep ts i j) : HBeq dep (ts ++ [t]) i j := by
  rcases h with rfl | h
  · exact Or.inl rfl
  · exact Or.inr h.append

theorem HBeq.of_append {ts : List T} {t : T} {i j : Nat} (h : HBeq dep (ts ++ [t]) i j) (hj : j < ts.length) :
    HBeq dep ts i j := by
  rcases h with rfl | h
  · exact Or.inl rfl
  · exact Or.inr (h.of_append hj)

variable {aidOf}

theorem aidAt_append_left {ts : List T} {t : T} {i : Nat} (h : i < ts.length) :
    aidAt aidOf (ts ++ [t]) i = aidAt aidOf ts i := by
  unfold aidAt; rw [List.getElem?_append_left h]

theorem aidAt_append_last {ts : List T} {t : T} : aidAt aidOf (ts ++ [t]) ts.length = some (aidOf t) := by
  unfold aidAt; simp

theorem aidAt_lt {ts : List T} {i a : Nat} (h : aidAt aidOf ts i = some a) : i < ts.length := by
  unfold aidAt at h
  cases hi : ts[i]? with
  | none => simp [hi] at h
  | some x => exact (List.getElem?_eq_some_iff.mp hi).1

/-- two events of the same actor are directly dependent (hypothesis `same aid → dep`) -/
theorem depAt_same_actor (hsame : ∀ t1 t2 : T, aidOf t1 = aidOf t2 → dep t1 t2 = true) {ts : List T} {i j a : Nat}
    (hi : aidAt aidOf ts i = some a) (hj : aidAt aidOf ts j = some a) : DepAt dep ts i j := by
  unfold aidAt at hi hj
  cases h1 : ts[i]? with
  | none => simp [h1] at hi
  | some ti =>
    cases h2 : ts[j]? with
    | none => simp [h2] at hj
    | some tj =>
      simp [h1] at hi; simp [h2] at hj
      exact ⟨ti, tj, h1, h2, hsame ti tj (by rw [hi, hj])⟩

theorem hbeq_same_actor (hsame : ∀ t1 t2 : T, aidOf t1 = aidOf t2 → dep t1 t2 = true) {ts : List T} {i j a : Nat}
    (hi : aidAt aidOf ts i = some a) (hj : aidAt aidOf ts j = some a) (hij : i ≤ j) : HBeq dep ts i j := by
  rcases Nat.eq_or_lt_of_le hij with rfl | hlt
  · exact Or.inl rfl
  · exact Or.inr (Chain.single hlt (depAt_same_actor hsame hi hj))

variable (aidOf dep)

/-- the invariant of `Execution` after pushing the transitions `ts` -/
structure Inv (W : Nat) (ts : List T) (ex : Execution T) : Prop where
  trans : ex.contents.map (·.t) = ts
  skipEq : ∀ b, skipOf ex.skip b = (List.range ts.length).filter (fun i => aidAt aidOf ts i == some b)
  cvLen : ∀ ev ∈ ex.contents, ev.cv.length = W
  sound : ∀ e ev a m, ex.contents[e]? = some ev → ev.cv.get a = some m → aidAt aidOf ts m = some a ∧ HBeq dep ts m e
  complete : ∀ e ev a m', ex.contents[e]? = some ev → aidAt aidOf ts m' = some a → HBeq dep ts m' e →
    ∃ m, ev.cv.get a = some m ∧ m' ≤ m

variable {aidOf dep}

theorem Inv.length {W : Nat} {ts : List T} {ex : Execution T} (h : Inv aidOf dep W ts ex) :
    ex.contents.length = ts.length := by
  rw [← h.trans]; simp

theorem Inv.trans_at {W : Nat} {ts : List T} {ex : Execution T} (h : Inv aidOf dep W ts ex) {i : Nat} {ev : Event T}
    (hi : ex.contents[i]? = some ev) : ts[i]? = some ev.t := by
  rw [← h.trans, List.getElem?_map, hi]; rfl

theorem Inv.event_at {W : Nat} {ts : List T} {ex : Execution T} (h : Inv aidOf dep W ts ex) {i : Nat}
    (hi : i < ts.length) : ∃ ev, ex.contents[i]? = some ev ∧ ts[i]? = some ev.t := by
  have : i < ex.contents.length := by rw [h.length]; exact hi
  exact ⟨ex.contents[i], List.getElem?_eq_getElem this, h.trans_at (List.getElem?_eq_getElem this)⟩

theorem inv_empty (W : Nat) : Inv aidOf dep W ([] : List T) Execution.empty := by
  refine ⟨rfl, ?_, ?_, ?_, ?_⟩
  · intro b
    cases b <;> simp [skipOf, Execution.empty]
  · intro ev h; simp [Execution.empty] at h
  · intro e ev a m h; simp [Execution.empty] at h
  · intro e ev a m' h; simp [Execution.empty] at h

/-- the events listed in actor b's skip list are exactly b's events, in increasing order -/
theorem Inv.mem_skip {W : Nat} {ts : List T} {ex : Execution T} (h : Inv aidOf dep W ts ex) {b x : Nat} :
    x ∈ skipOf ex.skip b ↔ aidAt aidOf ts x = some b := by
  rw [h.skipEq b, List.mem_filter, List.mem_range]
  constructor
  · intro ⟨_, h2⟩; simpa using h2
  · intro h2; exact ⟨aidAt_lt h2, by simpa using h2⟩

theorem Inv.skip_sorted {W : Nat} {ts : List T} {ex : Execution T} (h : Inv aidOf dep W ts ex) (b : Nat) :
    (skipOf ex.skip b).Pairwise (fun x y => x < y) := by
  rw [h.skipEq b]; exact List.Pairwise.filter _ List.pairwise_lt_range

/-- what `latestDependent` finds in actor b's list: b's latest event on which `t` depends -/
theorem Inv.latestDependent_spec {W : Nat} {ts : List T} {ex : Execution T} (h : Inv aidOf dep W ts ex) (t : T)
    {b hd : Nat} (hf : latestDependent dep ex t (skipOf ex.skip b) = some hd) :
    aidAt aidOf ts hd = some b ∧ DepAt dep (ts ++ [t]) hd ts.length ∧
    ∀ x, aidAt aidOf ts x = some b → DepAt dep (ts ++ [t]) x ts.length → x ≤ hd := by
  unfold latestDependent at hf
  obtain ⟨hmem, hp, hmax⟩ := find_rev_asc_max (h.skip_sorted b) hf
  have haid := h.mem_skip.mp hmem
  obtain ⟨ev, hev, htv⟩ := h.event_at (aidAt_lt haid)
  refine ⟨haid, ?_, ?_⟩
  · simp only [hev] at hp
    exact ⟨ev.t, t, by rw [List.getElem?_append_left (aidAt_lt haid)]; exact htv, by simp, hp⟩
  · intro x hx hd'
    apply hmax x (h.mem_skip.mpr hx)
    obtain ⟨evx, hevx, htx⟩ := h.event_at (aidAt_lt hx)
    obtain ⟨tx, tt, h1, h2, h3⟩ := hd'
    rw [List.getElem?_append_left (aidAt_lt hx), htx] at h1
    simp at h2
    simp only [hevx]
    cases h1; subst h2; exact h3

theorem Inv.latestDependent_exists {W : Nat} {ts : List T} {ex : Execution T} (h : Inv aidOf dep W ts ex) (t : T)
    {b x : Nat} (hx : aidAt aidOf ts x = some b) (hd : DepAt dep (ts ++ [t]) x ts.length) :
    ∃ hd, latestDependent dep ex t (skipOf ex.skip b) = some hd := by
  unfold latestDependent
  apply find_rev_exists (h.mem_skip.mpr hx)
  obtain ⟨evx, hevx, htx⟩ := h.event_at (aidAt_lt hx)
  obtain ⟨tx, tt, h1, h2, h3⟩ := hd
  rw [List.getElem?_append_left (aidAt_lt hx), htx] at h1
  simp at h2
  simp only [hevx]
  cases h1; subst h2; exact h3

theorem maxClockVector_eq (W : Nat) (ex : Execution T) (t : T) :
    maxClockVector dep W ex t = mergeAll (ClockVector.init W) (ex.skip.map (selectedCv dep ex t)) := by
  unfold maxClockVector mergeAll
  rw [List.foldl_map]
  rfl

theorem Inv.selected_len {W : Nat} {ts : List T} {ex : Execution T} (h : Inv aidOf dep W ts ex) (t : T) :
    ∀ c, some c ∈ ex.skip.map (selectedCv dep ex t) → c.length ≤ (ClockVector.init W).length := by
  intro c hc
  obtain ⟨events, _, hsel⟩ := List.mem_map.mp hc
  unfold selectedCv at hsel
  split at hsel
  · split at hsel
    · rename_i ev hev
      cases hsel
      simp [ClockVector.init, h.cvLen ev (List.mem_of_getElem? hev)]
    · cases hsel
  · cases hsel

/-- selected vectors come from latest dependent events -/
theorem Inv.selected_inv {W : Nat} {ts : List T} {ex : Execution T} (_h : Inv aidOf dep W ts ex) (t : T)
    {c : ClockVector} (hc : some c ∈ ex.skip.map (selectedCv dep ex t)) :
    ∃ b hd ev, latestDependent dep ex t (skipOf ex.skip b) = some hd ∧ ex.contents[hd]? = some ev ∧ ev.cv = c := by
  obtain ⟨events, hmem, hsel⟩ := List.mem_map.mp hc
  obtain ⟨b, hb⟩ := mem_skip_eq_skipOf hmem
  unfold selectedCv at hsel
  split at hsel
  · rename_i hd hl
    split at hsel
    · rename_i ev hev
      cases hsel
      exact ⟨b, hd, ev, by rw [hb]; exact hl, hev, rfl⟩
    · cases hsel
  · cases hsel

theorem Inv.selected_of_latest {W : Nat} {ts : List T} {ex : Execution T} (h : Inv aidOf dep W ts ex) (t : T)
    {b hd : Nat} (hl : latestDependent dep ex t (skipOf ex.skip b) = some hd) :
    ∃ ev, ex.contents[hd]? = some ev ∧ some ev.cv ∈ ex.skip.map (selectedCv dep ex t) := by
  obtain ⟨haid, _, _⟩ := h.latestDependent_spec t hl
  obtain ⟨ev, hev, _⟩ := h.event_at (aidAt_lt haid)
  refine ⟨ev, hev, List.mem_map.mpr ⟨skipOf ex.skip b, skipOf_mem_skip (h.mem_skip.mpr haid), ?_⟩⟩
  unfold selectedCv
  rw [hl]; simp only [hev]

end
end SgVerif.C42
