import SgVerif.C08.Model
namespace SgVerif.C08
end SgVerif.C08
