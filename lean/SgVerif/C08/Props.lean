import SgVerif.C08.Lemmas
/-
C08 — Mailbox communications are exactly-once, FIFO among accepted, and intact.  Property theorems.

Every theorem is for ALL histories `h : List Ev` of kernel calls (isend / irecv / set_receiver / cancel / finish / clear;
any actors, payloads, sizes, match functions of the grammar, any length) on one mailbox; `run h` is the state of the
`MailboxImpl` model after them; a comm object is named by the index of the call that created it, so a smaller id means
"arrived earlier".  "Pending sends" = the sends in comm_queue_ or done_comm_queue_ (not yet given to a receiver).
-/
namespace SgVerif.C08

/-- **FIFO for a send meeting queued receives** (full strength, holds on the code as it is): if some queued receive
and the new send accept each other, the send is given to the OLDEST such receive. -/
theorem isend_fifo (h : List Ev) (a pl size : Nat) (f : Filter) (d : Option MData) (det : Bool)
    (r : Comm) (hr : r ∈ (run h).pendingRecvs) (hacc : recvAcceptable f d r = true) :
    ∃ r0 ∈ (run h).pendingRecvs, (isend (run h) a pl size f d det).2 = r0.id ∧
      recvAcceptable f d r0 = true ∧ r0.id ≤ r.id := by
  have hs := sorted_run h
  simp only [Mbox.pendingRecvs, List.mem_filter, beq_iff_eq] at hr
  have hra : accepts .recv f d r = true := accepts_recv.mpr ⟨hr.2, hacc⟩
  cases hf : findMatching .recv f d (run h).queue with
  | none => rw [findMatching_none hf r hr.1] at hra; cases hra
  | some pr =>
    obtain ⟨r0, rest⟩ := pr
    obtain ⟨pre, post, e1, e2, e3, e4⟩ := findMatching_some hf
    have h0 := accepts_recv.mp e3
    refine ⟨r0, ?_, by simp [isend, hf], h0.2, ?_⟩
    · simp only [Mbox.pendingRecvs, List.mem_filter, beq_iff_eq]
      exact ⟨by rw [e1]; simp, h0.1⟩
    · exact id_ge_of_split hs.q e1 hr.1 (fun hp => by rw [e4 r hp] at hra; cases hra)

/-- a mailbox is *coherent* when its pending sends sit in the deque `irecv` is going to search: without a permanent
receiver nothing is in done_comm_queue_; with one, no send is left in comm_queue_. -/
def Coherent (s : Mbox) : Prop :=
  (s.perm = none → s.done = []) ∧ (s.perm ≠ none → ∀ c ∈ s.queue, c.type ≠ .send)

/-!
### FIFO for a receive meeting pending sends — FALSE at full strength on the current code (DESIGN §9-D7)

    theorem irecv_fifo (h) (a f d) (c ∈ (run h).pendingSends) (sendAcceptable f d c) :
      ∃ c0 ∈ (run h).pendingSends, (irecv (run h) a f d).2 = c0.id ∧ sendAcceptable f d c0 ∧ c0.id ≤ c.id

`CommImpl::irecv` searches done_comm_queue_ ONLY when the mailbox has a permanent receiver and that deque is not
empty, and otherwise comm_queue_ ONLY.  A send queued before `set_receiver` is then overtaken by a later eager send,
or left next to a receive that accepts it; after `set_receiver(nullptr)` the eager sends are never found.
Reproduced on the library.  Classification key: `permanent-receiver-skips-comm-queue`.
-/

/-- counterexample (one sender, no match function): send #0 is queued, actor 9 becomes the permanent receiver, send #2
goes to done_comm_queue_, the receive gets #2 although #0 is older and pending: per-sender order is lost. -/
theorem irecv_fifo_counterexample :
    ∃ (h : List Ev) (a : Nat) (c : Comm), c ∈ (run h).pendingSends ∧ sendAcceptable .none none c = true ∧
      c.src = some 1 ∧ c.id < (irecv (run h) a .none none).2 ∧
      ∃ c2 ∈ (run h).pendingSends, c2.src = some 1 ∧ c2.id = (irecv (run h) a .none none).2 :=
  ⟨[.isend 1 100 8 .none none false, .setReceiver (some 9), .isend 1 101 8 .none none false], 9,
   { id := 0, type := .send, src := some 1, payload := some 100, size := 8, sendEv := some 0 }, by decide⟩

/-- second form: the receive finds nothing it accepts in done_comm_queue_ and is queued although comm_queue_ holds a
send that both match functions accept: an acceptable pair is left unmatched. -/
theorem irecv_missed_counterexample :
    ∃ (h : List Ev) (a : Nat) (f : Filter) (d : Option MData), ∃ c ∈ (run h).pendingSends,
      sendAcceptable f d c = true ∧ (irecv (run h) a f d).2 = (run h).next :=
  ⟨[.isend 1 100 8 .all (some ⟨1, 1, 100⟩) false, .setReceiver (some 9),
    .isend 2 200 8 .all (some ⟨2, 2, 200⟩) false], 9, .tagParity 1, some ⟨9, 0, 0⟩,
   { id := 0, type := .send, src := some 1, payload := some 100, size := 8, filt := .all, sdata := some ⟨1, 1, 100⟩,
     sendEv := some 0, sfilt := .all }, by decide⟩

/-- **FIFO for a receive meeting pending sends**, what does hold: on a coherent mailbox, if some pending send and the
new receive accept each other, the receive gets the OLDEST such send. -/
theorem irecv_fifo_partial (h : List Ev) (hc : Coherent (run h)) (a : Nat) (f : Filter) (d : Option MData)
    (c : Comm) (hcp : c ∈ (run h).pendingSends) (hacc : sendAcceptable f d c = true) :
    ∃ c0 ∈ (run h).pendingSends, (irecv (run h) a f d).2 = c0.id ∧
      sendAcceptable f d c0 = true ∧ c0.id ≤ c.id := by
  have hs := sorted_run h
  simp only [Mbox.pendingSends, List.mem_filter, List.mem_append, beq_iff_eq] at hcp
  have hca : accepts .send f d c = true := accepts_send.mpr ⟨hcp.2, hacc⟩
  -- the deque irecv searches, and the fact that every pending send is in it
  by_cases hperm : ((run h).perm.isSome && !(run h).done.isEmpty) = true
  · have hp : (run h).perm ≠ none := by
      intro hn; simp [hn] at hperm
    have hcd : c ∈ (run h).done := by
      rcases hcp.1 with hq | hd
      · exact absurd hcp.2 (hc.2 hp c hq)
      · exact hd
    cases hf : findMatching .send f d (run h).done with
    | none => rw [findMatching_none hf c hcd] at hca; cases hca
    | some pr =>
      obtain ⟨c0, rest⟩ := pr
      obtain ⟨pre, post, e1, e2, e3, e4⟩ := findMatching_some hf
      have h0 := accepts_send.mp e3
      refine ⟨c0, ?_, by simp [irecv, hperm, hf], h0.2, ?_⟩
      · simp only [Mbox.pendingSends, List.mem_filter, List.mem_append, beq_iff_eq]
        exact ⟨Or.inr (by rw [e1]; simp), h0.1⟩
      · exact id_ge_of_split hs.d e1 hcd (fun hp => by rw [e4 c hp] at hca; cases hca)
  · have hcq : c ∈ (run h).queue := by
      rcases hcp.1 with hq | hd
      · exact hq
      · exfalso
        cases hpm : (run h).perm with
        | none => rw [hc.1 hpm] at hd; cases hd
        | some r =>
          apply hperm
          simp only [hpm, Option.isSome_some, Bool.true_and, Bool.not_eq_true', List.isEmpty_eq_false_iff]
          intro hn; rw [hn] at hd; cases hd
    cases hf : findMatching .send f d (run h).queue with
    | none => rw [findMatching_none hf c hcq] at hca; cases hca
    | some pr =>
      obtain ⟨c0, rest⟩ := pr
      obtain ⟨pre, post, e1, e2, e3, e4⟩ := findMatching_some hf
      have h0 := accepts_send.mp e3
      refine ⟨c0, ?_, by simp [irecv, hperm, hf], h0.2, ?_⟩
      · simp only [Mbox.pendingSends, List.mem_filter, List.mem_append, beq_iff_eq]
        exact ⟨Or.inl (by rw [e1]; simp), h0.1⟩
      · exact id_ge_of_split hs.q e1 hcq (fun hp => by rw [e4 c hp] at hca; cases hca)

/-- **Per-sender order**, as a consequence on coherent mailboxes: of two pending sends that the receive accepts, the
one posted later is never the one received (so the messages one sender posts to one mailbox are taken in send
order by receives that accept them both). -/
theorem per_sender_order_partial (h : List Ev) (hc : Coherent (run h)) (a : Nat) (f : Filter) (d : Option MData)
    (c1 c2 : Comm) (h1 : c1 ∈ (run h).pendingSends) (_h2 : c2 ∈ (run h).pendingSends)
    (hacc1 : sendAcceptable f d c1 = true) (hlt : c1.id < c2.id) :
    (irecv (run h) a f d).2 ≠ c2.id := by
  obtain ⟨c0, _, he, _, hle⟩ := irecv_fifo_partial h hc a f d c1 h1 hacc1
  rw [he]; omega


/-- a history keeps a mailbox coherent when `set_receiver` is only called while no send is pending (typically: the
receiver declares itself before anybody sends, and never resets it while eager sends are unreceived) -/
def stepOk (s : Mbox) : Ev → Prop
  | .setReceiver _ => s.done = [] ∧ ∀ c ∈ s.queue, c.type ≠ .send
  | _ => True

def histOk : Mbox → List Ev → Prop
  | _, [] => True
  | s, e :: es => stepOk s e ∧ histOk (step s e) es

theorem coherent_step {s : Mbox} (hc : Coherent s) (e : Ev) (hok : stepOk s e) : Coherent (step s e) := by
  cases e with
  | isend a pl size f d det =>
    simp only [step, isend]
    split
    · split
      · rename_i r hp
        refine ⟨fun hn => ?_, fun _ => hc.2 (by rw [hp]; simp)⟩
        simp [hp] at hn
      · rename_i hp
        refine ⟨fun _ => hc.1 hp, fun hn => absurd hp hn⟩
    · rename_i r rest hf
      obtain ⟨pre, post, e1, e2, _, _⟩ := findMatching_some hf
      have hsub : rest.Sublist s.queue := by rw [e2]; exact sub_of_split e1
      exact ⟨hc.1, fun hn c hcm => hc.2 hn c (hsub.subset hcm)⟩
  | irecv a f d =>
    simp only [step, irecv]
    split
    · rename_i hcond
      have hp : s.perm ≠ none := by intro hn; simp [hn] at hcond
      split
      · exact ⟨fun hn => absurd hn hp, hc.2⟩
      · refine ⟨hc.1, fun hn c hcm => ?_⟩
        simp only [List.mem_append, List.mem_singleton] at hcm
        rcases hcm with hcm | hcm
        · exact hc.2 hn c hcm
        · subst hcm; simp
    · split
      · rename_i c rest hf
        obtain ⟨pre, post, e1, e2, _, _⟩ := findMatching_some hf
        have hsub : rest.Sublist s.queue := by rw [e2]; exact sub_of_split e1
        exact ⟨hc.1, fun hn c hcm => hc.2 hn c (hsub.subset hcm)⟩
      · refine ⟨hc.1, fun hn c hcm => ?_⟩
        simp only [List.mem_append, List.mem_singleton] at hcm
        rcases hcm with hcm | hcm
        · exact hc.2 hn c hcm
        · subst hcm; simp
  | setReceiver r =>
    simp only [step, setReceiver]
    exact ⟨fun _ => hok.1, fun _ => hok.2⟩
  | cancel id =>
    simp only [step, cancel]
    split
    · split
      · exact hc
      · exact ⟨hc.1, fun hn c hcm => hc.2 hn c (List.mem_of_mem_eraseP hcm)⟩
    · exact ⟨fun hn => by simp [hc.1 hn], hc.2⟩
  | finish id =>
    simp only [step, finish]
    exact ⟨fun hn => by simp [hc.1 hn], hc.2⟩
  | clear =>
    simp only [step, clear]
    exact ⟨fun _ => rfl, fun _ c hcm => by cases hcm⟩

theorem coherent_foldl (h : List Ev) : ∀ s, Coherent s → histOk s h → Coherent (h.foldl step s) := by
  induction h with
  | nil => intro s hc _; exact hc
  | cons e es ih => intro s hc hok; exact ih _ (coherent_step hc e hok.1) hok.2

/-- every history in which `set_receiver` is only called on a mailbox without pending sends reaches a coherent
mailbox: `irecv_fifo_partial` and `per_sender_order_partial` apply to it -/
theorem coherent_run (h : List Ev) (hok : histOk {} h) : Coherent (run h) :=
  coherent_foldl h {} ⟨fun _ => rfl, fun hn => absurd rfl hn⟩ hok


/-- **Payload and size intact, copied once.**  In every reachable state, every comm object that carries a send is tied
to ONE isend call of the history and has exactly that call's payload, size and sender; one that carries a receive is
tied to one irecv call and its receiver; what was copied to the receiver is nothing or that payload, it was copied at
most once (whatever number of `finish()` runs from both ends: the `copied_` flag), and something was copied only on an
object that has both a sender and a receiver. -/
theorem payload_intact (h : List Ev) :
    ∀ c ∈ (run h).all,
      (∀ i, c.sendEv = some i → ∃ a pl sz f d det, h[i]? = some (Ev.isend a pl sz f d det) ∧
          c.payload = some pl ∧ c.size = sz ∧ c.src = some a) ∧
      (∀ j, c.recvEv = some j → ∃ a f d, h[j]? = some (Ev.irecv a f d) ∧ c.dst = some a) ∧
      (c.delivered = none ∨ c.delivered = c.payload) ∧ c.writes ≤ 1 ∧
      (c.delivered ≠ none → c.sendEv.isSome = true ∧ c.recvEv.isSome = true) := by
  intro c hc
  have hl := link_run h
  have hok : COk h c := by
    simp only [Mbox.all, List.mem_append] at hc
    rcases hc with (hc | hc) | hc
    · exact (hl.q c hc).1
    · exact (hl.d c hc).1
    · exact hl.o c hc
  refine ⟨hok.send, hok.recv, ?_, ?_, ?_⟩
  · cases hcp : c.copied with
    | true => exact Or.inr (hok.cop hcp).2.2.1
    | false => exact Or.inl (hok.ncop hcp).1
  · cases hcp : c.copied with
    | true => rw [(hok.cop hcp).2.2.2]; exact Nat.le_refl 1
    | false => rw [(hok.ncop hcp).2]; exact Nat.zero_le 1
  · intro hd
    cases hcp : c.copied with
    | true =>
      obtain ⟨hb, hp, _, _⟩ := hok.cop hcp
      exact ⟨hok.pl hp, hok.buf hb⟩
    | false => exact absurd (hok.ncop hcp).1 hd

/-- **A matched comm leaves the mailbox** (operational form of "each put is consumed at most once, each get is served
at most once"): the object a receive is matched with was pending, and after the call no object with its id is in
comm_queue_ or done_comm_queue_ any more — only pending objects are ever matched, so it cannot be matched again. -/
theorem irecv_consumes (h : List Ev) (a : Nat) (f : Filter) (d : Option MData)
    (hk : (irecv (run h) a f d).2 ≠ (run h).next) :
    (∃ c ∈ (run h).pendingSends, c.id = (irecv (run h) a f d).2) ∧
    ∀ x ∈ (irecv (run h) a f d).1.queue ++ (irecv (run h) a f d).1.done, x.id ≠ (irecv (run h) a f d).2 := by
  have hs := sorted_run h
  have hd := disj_run h
  by_cases hperm : ((run h).perm.isSome && !(run h).done.isEmpty) = true
  · cases hf : findMatching .send f d (run h).done with
    | none => simp [irecv, hperm, hf] at hk
    | some pr =>
      obtain ⟨c, rest⟩ := pr
      obtain ⟨pre, post, e1, e2, e3, _⟩ := findMatching_some hf
      have hcm : c ∈ (run h).done := by rw [e1]; simp
      simp only [irecv, hperm, hf, if_true]
      refine ⟨⟨c, ?_, rfl⟩, ?_⟩
      · simp only [Mbox.pendingSends, List.mem_filter, List.mem_append, beq_iff_eq]
        exact ⟨Or.inr hcm, (accepts_send.mp e3).1⟩
      · intro x hx
        simp only [List.mem_append] at hx
        rcases hx with hx | hx
        · exact hd x hx c hcm
        · exact id_ne_of_split hs.d e1 (by rw [← e2]; exact hx)
  · cases hf : findMatching .send f d (run h).queue with
    | none => simp [irecv, hperm, hf] at hk
    | some pr =>
      obtain ⟨c, rest⟩ := pr
      obtain ⟨pre, post, e1, e2, e3, _⟩ := findMatching_some hf
      have hcm : c ∈ (run h).queue := by rw [e1]; simp
      simp only [irecv, hperm, hf]
      refine ⟨⟨c, ?_, rfl⟩, ?_⟩
      · simp only [Mbox.pendingSends, List.mem_filter, List.mem_append, beq_iff_eq]
        exact ⟨Or.inl hcm, (accepts_send.mp e3).1⟩
      · intro x hx
        simp only [List.mem_append] at hx
        rcases hx with hx | hx
        · exact id_ne_of_split hs.q e1 (by rw [← e2]; exact hx)
        · exact fun he => hd c hcm x hx he.symm

theorem isend_consumes (h : List Ev) (a pl size : Nat) (f : Filter) (d : Option MData) (det : Bool)
    (hk : (isend (run h) a pl size f d det).2 ≠ (run h).next) :
    (∃ r ∈ (run h).pendingRecvs, r.id = (isend (run h) a pl size f d det).2) ∧
    ∀ x ∈ (isend (run h) a pl size f d det).1.queue ++ (isend (run h) a pl size f d det).1.done,
      x.id ≠ (isend (run h) a pl size f d det).2 := by
  have hs := sorted_run h
  have hd := disj_run h
  cases hf : findMatching .recv f d (run h).queue with
  | none =>
    exfalso; apply hk
    simp only [isend, hf]
    split <;> rfl
  | some pr =>
    obtain ⟨r, rest⟩ := pr
    obtain ⟨pre, post, e1, e2, e3, _⟩ := findMatching_some hf
    have hrm : r ∈ (run h).queue := by rw [e1]; simp
    simp only [isend, hf]
    refine ⟨⟨r, ?_, rfl⟩, ?_⟩
    · simp only [Mbox.pendingRecvs, List.mem_filter, beq_iff_eq]
      exact ⟨hrm, (accepts_recv.mp e3).1⟩
    · intro x hx
      simp only [List.mem_append] at hx
      rcases hx with hx | hx
      · exact id_ne_of_split hs.q e1 (by rw [← e2]; exact hx)
      · exact fun he => hd r hrm x hx he.symm

/-! ### non-vacuity -/

/-- selective receive: two queued sends with tags 1 and 2, a receive wanting an even tag takes the second one,
skipping the older send its match function refuses; payload 200 and size 8 arrive intact after `finish` -/
example :
    let h := [Ev.isend 1 100 8 .all (some ⟨1, 1, 100⟩) false, Ev.isend 2 200 8 .all (some ⟨2, 2, 200⟩) false,
              Ev.irecv 3 (.tagParity 0) (some ⟨3, 0, 0⟩), Ev.finish 1]
    ((run h).others.map (fun c => (c.id, c.sendEv, c.recvEv, c.delivered, c.size, c.writes)))
      = [(1, some 1, some 2, some 200, 8, 1)] ∧ ((run h).queue.map (·.id)) = [0] := by decide

/-- hypotheses of `irecv_fifo_partial` are satisfiable with a permanent receiver: receiver first, then two eager sends -/
example : histOk {} [Ev.setReceiver (some 9), Ev.isend 1 100 8 .none none false, Ev.isend 1 101 8 .none none true] ∧
    ((run [Ev.setReceiver (some 9), Ev.isend 1 100 8 .none none false, Ev.isend 1 101 8 .none none true]).pendingSends.map
      (·.id)) = [1, 2] := by
  refine ⟨⟨⟨rfl, by simp⟩, trivial, trivial, trivial⟩, by decide⟩

/-- `finish` from both ends copies once -/
example : ((run [Ev.irecv 3 .none none, Ev.isend 1 100 8 .none none false, Ev.finish 0, Ev.finish 0]).others.map
    (fun c => (c.delivered, c.writes))) = [(some 100, 1)] := by decide

end SgVerif.C08
