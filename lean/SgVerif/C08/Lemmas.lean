import SgVerif.C08.Model
/-
C08 — helper lemmas: what `findMatching` returns, arrival order of the two deques, coherence of a permanent receiver.
-/
namespace SgVerif.C08

theorem findMatching_some {t : CType} {f : Filter} {d : Option MData} {l : List Comm} {c : Comm} {rest : List Comm}
    (h : findMatching t f d l = some (c, rest)) :
    ∃ pre post, l = pre ++ c :: post ∧ rest = pre ++ post ∧ accepts t f d c = true ∧
      ∀ x ∈ pre, accepts t f d x = false := by
  induction l generalizing c rest with
  | nil => simp [findMatching] at h
  | cons a as ih =>
    unfold findMatching at h
    split at h
    · rename_i hat
      injection h with h; injection h with h1 h2
      subst h1; subst h2
      exact ⟨[], as, rfl, rfl, hat, by simp⟩
    · rename_i hat
      split at h
      · cases h
      · rename_i x r hf
        injection h with h; injection h with h1 h2
        subst h1; subst h2
        obtain ⟨pre, post, e1, e2, e3, e4⟩ := ih hf
        refine ⟨a :: pre, post, by simp [e1], by simp [e2], e3, ?_⟩
        intro y hy
        cases hy with
        | head => simpa using hat
        | tail _ hy => exact e4 y hy

theorem findMatching_none {t : CType} {f : Filter} {d : Option MData} {l : List Comm}
    (h : findMatching t f d l = none) : ∀ x ∈ l, accepts t f d x = false := by
  induction l with
  | nil => simp
  | cons a as ih =>
    unfold findMatching at h
    split at h
    · cases h
    · rename_i hat
      split at h
      · rename_i hf
        intro x hx
        cases hx with
        | head => simpa using hat
        | tail _ hx => exact ih hf x hx
      · cases h

theorem accepts_send {f : Filter} {d : Option MData} {c : Comm} :
    accepts .send f d c = true ↔ c.type = .send ∧ sendAcceptable f d c = true := by
  unfold accepts sendAcceptable Comm.mdata
  cases hc : c.type <;> simp [hc]

theorem accepts_recv {f : Filter} {d : Option MData} {c : Comm} :
    accepts .recv f d c = true ↔ c.type = .recv ∧ recvAcceptable f d c = true := by
  unfold accepts recvAcceptable Comm.mdata
  cases hc : c.type <;> simp [hc]

/-- both deques are in arrival order and hold objects created before `next` -/
structure Sorted (s : Mbox) : Prop where
  q : s.queue.Pairwise (fun x y => x.id < y.id)
  d : s.done.Pairwise (fun x y => x.id < y.id)
  qlt : ∀ c ∈ s.queue, c.id < s.next
  dlt : ∀ c ∈ s.done, c.id < s.next

theorem pairwise_snoc {l : List Comm} {c : Comm} (hl : l.Pairwise (fun x y => x.id < y.id))
    (h : ∀ x ∈ l, x.id < c.id) : (l ++ [c]).Pairwise (fun x y => x.id < y.id) := by
  simp only [List.pairwise_append, List.pairwise_cons, List.mem_singleton]
  exact ⟨hl, by simp, fun x hx y hy => by subst hy; exact h x hx⟩

theorem pairwise_map_id {l : List Comm} {g : Comm → Comm} (hg : ∀ x, (g x).id = x.id)
    (hl : l.Pairwise (fun x y => x.id < y.id)) : (l.map g).Pairwise (fun x y => x.id < y.id) := by
  rw [List.pairwise_map]
  exact hl.imp (fun h => by rw [hg, hg]; exact h)

theorem sub_of_split {l pre post : List Comm} {c : Comm} (e : l = pre ++ c :: post) :
    (pre ++ post).Sublist l := by
  rw [e]
  exact List.Sublist.append (List.Sublist.refl _) (List.sublist_cons_self _ _)

theorem cancelRunning_id (c : Comm) : c.cancelRunning.id = c.id := by
  unfold Comm.cancelRunning; split <;> rfl
theorem copyData_id (c : Comm) : c.copyData.id = c.id := by
  unfold Comm.copyData; split <;> rfl
theorem finish_id (c : Comm) : c.finish.id = c.id := by
  unfold Comm.finish
  simp only []
  split <;> split <;> simp [copyData_id]

theorem ite_id (p : Comm → Bool) (g : Comm → Comm) (hg : ∀ x, (g x).id = x.id) (x : Comm) :
    (if p x then g x else x).id = x.id := by
  split
  · exact hg x
  · rfl

theorem sorted_init : Sorted {} := by constructor <;> simp

theorem sorted_step {s : Mbox} (hs : Sorted s) (e : Ev) : Sorted (step s e) := by
  cases e with
  | isend a pl size f d det =>
    simp only [step, isend]
    split
    · split
      · refine ⟨hs.q, pairwise_snoc hs.d (fun x hx => hs.dlt x hx), ?_, ?_⟩
        · intro c hc; have := hs.qlt c hc; simp only; omega
        · intro c hc
          simp only [List.mem_append, List.mem_singleton] at hc
          rcases hc with hc | hc
          · have := hs.dlt c hc; simp only; omega
          · subst hc; simp
      · refine ⟨pairwise_snoc hs.q (fun x hx => hs.qlt x hx), hs.d, ?_, ?_⟩
        · intro c hc
          simp only [List.mem_append, List.mem_singleton] at hc
          rcases hc with hc | hc
          · have := hs.qlt c hc; simp only; omega
          · subst hc; simp
        · intro c hc; have := hs.dlt c hc; simp only; omega
    · rename_i r rest hf
      obtain ⟨pre, post, e1, e2, _, _⟩ := findMatching_some hf
      have hsub : rest.Sublist s.queue := by rw [e2]; exact sub_of_split e1
      refine ⟨hs.q.sublist hsub, hs.d, ?_, ?_⟩
      · intro c hc; have := hs.qlt c (hsub.subset hc); simp only; omega
      · intro c hc; have := hs.dlt c hc; simp only; omega
  | irecv a f d =>
    simp only [step, irecv]
    split
    · split
      · rename_i c rest hf
        obtain ⟨pre, post, e1, e2, _, _⟩ := findMatching_some hf
        have hsub : rest.Sublist s.done := by rw [e2]; exact sub_of_split e1
        refine ⟨hs.q, hs.d.sublist hsub, ?_, ?_⟩
        · intro c hc; have := hs.qlt c hc; simp only; omega
        · intro c hc; have := hs.dlt c (hsub.subset hc); simp only; omega
      · refine ⟨pairwise_snoc hs.q (fun x hx => hs.qlt x hx), hs.d, ?_, ?_⟩
        · intro c hc
          simp only [List.mem_append, List.mem_singleton] at hc
          rcases hc with hc | hc
          · have := hs.qlt c hc; simp only; omega
          · subst hc; simp
        · intro c hc; have := hs.dlt c hc; simp only; omega
    · split
      · rename_i c rest hf
        obtain ⟨pre, post, e1, e2, _, _⟩ := findMatching_some hf
        have hsub : rest.Sublist s.queue := by rw [e2]; exact sub_of_split e1
        refine ⟨hs.q.sublist hsub, hs.d, ?_, ?_⟩
        · intro c hc; have := hs.qlt c (hsub.subset hc); simp only; omega
        · intro c hc; have := hs.dlt c hc; simp only; omega
      · refine ⟨pairwise_snoc hs.q (fun x hx => hs.qlt x hx), hs.d, ?_, ?_⟩
        · intro c hc
          simp only [List.mem_append, List.mem_singleton] at hc
          rcases hc with hc | hc
          · have := hs.qlt c hc; simp only; omega
          · subst hc; simp
        · intro c hc; have := hs.dlt c hc; simp only; omega
  | setReceiver r =>
    simp only [step, setReceiver]
    exact ⟨hs.q, hs.d, fun c hc => by have := hs.qlt c hc; simp only; omega,
      fun c hc => by have := hs.dlt c hc; simp only; omega⟩
  | cancel id =>
    simp only [step, cancel]
    split
    · split
      · exact ⟨hs.q, hs.d, fun c hc => by have := hs.qlt c hc; simp only; omega,
          fun c hc => by have := hs.dlt c hc; simp only; omega⟩
      · refine ⟨hs.q.sublist List.eraseP_sublist, hs.d, ?_, ?_⟩
        · intro c hc; have := hs.qlt c (List.mem_of_mem_eraseP hc); simp only; omega
        · intro c hc; have := hs.dlt c hc; simp only; omega
    · refine ⟨hs.q, pairwise_map_id (fun x => ite_id (fun c => c.id == id) _ cancelRunning_id x) hs.d, ?_, ?_⟩
      · intro c hc; have := hs.qlt c hc; simp only; omega
      · intro c hc
        simp only [List.mem_map] at hc
        obtain ⟨x, hx, rfl⟩ := hc
        have := hs.dlt x hx
        rw [ite_id (fun c => c.id == id) _ cancelRunning_id]; simp only; omega
  | finish id =>
    simp only [step, finish]
    refine ⟨hs.q, pairwise_map_id (fun x => ite_id (fun c => c.id == id) _ finish_id x) hs.d, ?_, ?_⟩
    · intro c hc; have := hs.qlt c hc; simp only; omega
    · intro c hc
      simp only [List.mem_map] at hc
      obtain ⟨x, hx, rfl⟩ := hc
      have := hs.dlt x hx
      rw [ite_id (fun c => c.id == id) _ finish_id]; simp only; omega
  | clear =>
    simp only [step, clear]
    exact ⟨by simp, by simp, by simp, by simp⟩

theorem sorted_foldl (h : List Ev) : ∀ s, Sorted s → Sorted (h.foldl step s) := by
  induction h with
  | nil => intro s hs; exact hs
  | cons e es ih => intro s hs; exact ih _ (sorted_step hs e)

theorem sorted_run (h : List Ev) : Sorted (run h) := sorted_foldl h _ sorted_init

/-- in a sorted list split around `c`, an element that is not before `c` is `c` or after it: its id is at least c's -/
theorem id_ge_of_split {l pre post : List Comm} {c x : Comm} (hl : l.Pairwise (fun x y => x.id < y.id))
    (e : l = pre ++ c :: post) (hx : x ∈ l) (hnp : x ∉ pre) : c.id ≤ x.id := by
  rw [e] at hx hl
  simp only [List.mem_append, List.mem_cons] at hx
  rcases hx with hx | hx | hx
  · exact absurd hx hnp
  · subst hx; exact Nat.le_refl _
  · have h2 := (List.pairwise_append.mp hl).2.1
    exact Nat.le_of_lt ((List.pairwise_cons.mp h2).1 x hx)


/-! ### link between the objects and the calls of the history; what is copied to the receiver -/

theorem getElem?_snoc_of_some {α : Type} {l : List α} {i : Nat} {x e : α} (h : l[i]? = some x) :
    (l ++ [e])[i]? = some x := by
  have := (List.getElem?_eq_some_iff.mp h).1
  rw [List.getElem?_append_left this]; exact h

structure COk (h : List Ev) (c : Comm) : Prop where
  send : ∀ i, c.sendEv = some i → ∃ a pl sz f d det, h[i]? = some (Ev.isend a pl sz f d det) ∧
            c.payload = some pl ∧ c.size = sz ∧ c.src = some a
  recv : ∀ j, c.recvEv = some j → ∃ a f d, h[j]? = some (Ev.irecv a f d) ∧ c.dst = some a
  pl : c.payload.isSome = true → c.sendEv.isSome = true
  buf : c.hasBuf = true → c.recvEv.isSome = true
  cop : c.copied = true → c.hasBuf = true ∧ c.payload.isSome = true ∧ c.delivered = c.payload ∧ c.writes = 1
  ncop : c.copied = false → c.delivered = none ∧ c.writes = 0

theorem COk.lift {h : List Ev} {c : Comm} (e : Ev) (hc : COk h c) : COk (h ++ [e]) c := by
  refine ⟨?_, ?_, hc.pl, hc.buf, hc.cop, hc.ncop⟩
  · intro i hi
    obtain ⟨a, pl, sz, f, d, det, h1, h2⟩ := hc.send i hi
    exact ⟨a, pl, sz, f, d, det, getElem?_snoc_of_some h1, h2⟩
  · intro j hj
    obtain ⟨a, f, d, h1, h2⟩ := hc.recv j hj
    exact ⟨a, f, d, getElem?_snoc_of_some h1, h2⟩

theorem COk.setState {h : List Ev} {c : Comm} (st : CState) (hc : COk h c) : COk h { c with state := st } :=
  ⟨hc.send, hc.recv, hc.pl, hc.buf, hc.cop, hc.ncop⟩

theorem COk.cancelRunning {h : List Ev} {c : Comm} (hc : COk h c) : COk h c.cancelRunning := by
  unfold Comm.cancelRunning; split
  · exact hc.setState _
  · exact hc

theorem COk.copyData {h : List Ev} {c : Comm} (hc : COk h c) : COk h c.copyData := by
  unfold Comm.copyData
  split
  · exact hc
  · rename_i hcond
    simp only [Bool.or_eq_true, Bool.not_eq_true', not_or, Bool.not_eq_true, Option.isNone_iff_eq_none] at hcond
    obtain ⟨⟨hp, hb⟩, hcp⟩ := hcond
    have hw := (hc.ncop hcp).2
    refine ⟨hc.send, hc.recv, hc.pl, hc.buf, ?_, ?_⟩
    · intro _
      refine ⟨by simpa using hb, ?_, rfl, by simp [hw]⟩
      cases hpl : c.payload with
      | none => exact absurd hpl hp
      | some _ => rfl
    · intro hf; simp at hf

theorem COk.finish {h : List Ev} {c : Comm} (hc : COk h c) : COk h c.finish := by
  unfold Comm.finish
  simp only []
  split <;> split
  · exact (hc.setState _).copyData
  · exact hc.setState _
  · exact hc.copyData
  · exact hc

structure Link (h : List Ev) (s : Mbox) : Prop where
  len : s.next = h.length
  q : ∀ c ∈ s.queue, COk h c ∧ c.copied = false ∧
        (c.type = .recv → c.payload = none ∧ c.sendEv = none) ∧ (c.type = .send → c.hasBuf = false ∧ c.recvEv = none)
  d : ∀ c ∈ s.done, COk h c ∧ c.copied = false ∧ c.hasBuf = false ∧ c.recvEv = none
  o : ∀ c ∈ s.others, COk h c

theorem link_init : Link [] {} := by constructor <;> simp

theorem cok_new_send (h : List Ev) (n a pl size : Nat) (f : Filter) (d : Option MData) (det : Bool) (st : CState)
    (dst : Option Nat) (hn : n = h.length) :
    COk (h ++ [Ev.isend a pl size f d det])
      { id := n, type := .send, state := st, src := some a, dst := dst, payload := some pl, size := size, filt := f,
        sdata := d, detached := det, sendEv := some n, sfilt := f } := by
  refine ⟨?_, ?_, fun _ => rfl, ?_, ?_, fun _ => ⟨rfl, rfl⟩⟩
  · intro i hi
    simp only [Option.some.injEq] at hi
    subst hi
    exact ⟨a, pl, size, f, d, det, by rw [hn]; simp, rfl, rfl, rfl⟩
  · intro j hj; simp at hj
  · intro hb; simp at hb
  · intro hb; simp at hb

theorem link_step {h : List Ev} {s : Mbox} (hl : Link h s) (e : Ev) : Link (h ++ [e]) (step s e) := by
  have hlen : (step s e).next = (h ++ [e]).length := by
    have := hl.len
    cases e <;> simp only [step, isend, irecv, setReceiver, cancel, finish, clear, List.length_append,
      List.length_cons, List.length_nil] <;> (repeat' split) <;> simp [this]
  have liftq : ∀ c ∈ s.queue, COk (h ++ [e]) c ∧ c.copied = false ∧
      (c.type = .recv → c.payload = none ∧ c.sendEv = none) ∧ (c.type = .send → c.hasBuf = false ∧ c.recvEv = none) :=
    fun c hc => ⟨(hl.q c hc).1.lift e, (hl.q c hc).2⟩
  have liftd : ∀ c ∈ s.done, COk (h ++ [e]) c ∧ c.copied = false ∧ c.hasBuf = false ∧ c.recvEv = none :=
    fun c hc => ⟨(hl.d c hc).1.lift e, (hl.d c hc).2⟩
  have lifto : ∀ c ∈ s.others, COk (h ++ [e]) c := fun c hc => (hl.o c hc).lift e
  refine ⟨hlen, ?_, ?_, ?_⟩ <;> clear hlen
  all_goals
    cases e with
    | setReceiver r => first | exact liftq | exact liftd | exact lifto
    | clear =>
      simp only [step, clear]
      first
      | (intro c hc; cases hc)
      | (intro c hc
         simp only [List.mem_append, List.mem_map, List.mem_reverse] at hc
         rcases hc with (⟨x, hx, rfl⟩ | ⟨x, hx, rfl⟩) | hc
         · split
           · exact (liftq x hx).1
           · exact (liftq x hx).1.setState _
         · split
           · exact (liftd x hx).1
           · exact (liftd x hx).1.setState _
         · exact lifto c hc)
    | finish id =>
      simp only [step, finish]
      first
      | exact liftq
      | (intro c hc
         simp only [List.mem_map] at hc
         obtain ⟨x, hx, rfl⟩ := hc
         obtain ⟨h1, h2, h3, h4⟩ := liftd x hx
         split
         · have hfin : x.finish.copied = false ∧ x.finish.hasBuf = false ∧ x.finish.recvEv = none := by
             unfold Comm.finish Comm.copyData
             simp only []
             split <;> split <;> simp [h2, h3, h4]
           exact ⟨h1.finish, hfin⟩
         · exact ⟨h1, h2, h3, h4⟩)
      | (intro c hc
         simp only [List.mem_map] at hc
         obtain ⟨x, hx, rfl⟩ := hc
         split
         · exact (lifto x hx).finish
         · exact lifto x hx)
    | cancel id =>
      simp only [step, cancel]
      (repeat' split)
      all_goals first
        | exact liftq
        | exact liftd
        | exact lifto
        | (intro c hc; exact liftq c (List.mem_of_mem_eraseP hc))
        | (rename_i x hf _
           intro c hc
           simp only [List.mem_cons] at hc
           rcases hc with hc | hc
           · subst hc; exact (liftq x (List.mem_of_find?_eq_some hf)).1.setState _
           · exact lifto c hc)
        | (intro c hc
           simp only [List.mem_map] at hc
           obtain ⟨x, hx, rfl⟩ := hc
           obtain ⟨h1, h2, h3, h4⟩ := liftd x hx
           split
           · have : x.cancelRunning.copied = false ∧ x.cancelRunning.hasBuf = false ∧ x.cancelRunning.recvEv = none := by
               unfold Comm.cancelRunning; split <;> simp [h2, h3, h4]
             exact ⟨h1.cancelRunning, this⟩
           · exact ⟨h1, h2, h3, h4⟩)
        | (intro c hc
           simp only [List.mem_map] at hc
           obtain ⟨x, hx, rfl⟩ := hc
           split
           · exact (lifto x hx).cancelRunning
           · exact lifto x hx)
    | isend a pl size f d det =>
      simp only [step, isend]
      (repeat' split)
      all_goals dsimp only
      all_goals first
        | exact liftq
        | exact liftd
        | exact lifto
        | (intro c hc
           simp only [List.mem_append, List.mem_singleton] at hc
           rcases hc with hc | hc
           · exact liftd c hc
           · subst hc
             exact ⟨cok_new_send h _ a pl size f d det _ _ hl.len, rfl, rfl, rfl⟩)
        | (intro c hc
           simp only [List.mem_append, List.mem_singleton] at hc
           rcases hc with hc | hc
           · exact liftq c hc
           · subst hc
             exact ⟨cok_new_send h _ a pl size f d det _ _ hl.len, rfl, fun ht => by simp at ht, fun _ => ⟨rfl, rfl⟩⟩)
        | (rename_i r rest hf
           obtain ⟨pre, post, e1, e2, e3, _⟩ := findMatching_some hf
           intro c hc
           exact liftq c ((by rw [e2]; exact sub_of_split e1 : rest.Sublist s.queue).subset hc))
        | (rename_i r rest hf
           obtain ⟨pre, post, e1, e2, e3, _⟩ := findMatching_some hf
           have hrm : r ∈ s.queue := by rw [e1]; simp
           obtain ⟨h1, h2, h3, _⟩ := liftq r hrm
           have hrt := (accepts_recv.mp e3).1
           intro c hc
           simp only [List.mem_cons] at hc
           rcases hc with hc | hc
           · subst hc
             refine ⟨?_, h1.recv, fun _ => rfl, h1.buf, ?_, ?_⟩
             · intro i hi
               simp only [Option.some.injEq] at hi
               subst hi
               exact ⟨a, pl, size, f, d, det, by rw [hl.len]; simp, rfl, rfl, rfl⟩
             · intro hcp; simp only at hcp; rw [h2] at hcp; cases hcp
             · intro _; exact h1.ncop h2
           · exact lifto c hc)
    | irecv a f d =>
      simp only [step, irecv]
      (repeat' split)
      all_goals dsimp only
      all_goals first
        | exact liftq
        | exact liftd
        | exact lifto
        | (intro c hc
           simp only [List.mem_append, List.mem_singleton] at hc
           rcases hc with hc | hc
           · exact liftq c hc
           · subst hc
             refine ⟨⟨?_, ?_, ?_, fun _ => rfl, ?_, fun _ => ⟨rfl, rfl⟩⟩, rfl, fun _ => ⟨rfl, rfl⟩, fun ht => by cases ht⟩
             · intro i hi; simp at hi
             · intro j hj
               simp only [Option.some.injEq] at hj
               subst hj
               exact ⟨a, f, d, by rw [hl.len]; simp, rfl⟩
             · intro hp; simp at hp
             · intro hcp; simp at hcp)
        | (rename_i c0 rest hf
           obtain ⟨pre, post, e1, e2, e3, _⟩ := findMatching_some hf
           intro c hc
           first
             | exact liftq c ((by rw [e2]; exact sub_of_split e1 : rest.Sublist s.queue).subset hc)
             | exact liftd c ((by rw [e2]; exact sub_of_split e1 : rest.Sublist s.done).subset hc))
        | (rename_i c0 rest hf
           obtain ⟨pre, post, e1, e2, e3, _⟩ := findMatching_some hf
           have hcok : COk (h ++ [Ev.irecv a f d]) c0 ∧ c0.copied = false := by
             first
               | exact ⟨(liftq c0 (by rw [e1]; simp)).1, (liftq c0 (by rw [e1]; simp)).2.1⟩
               | exact ⟨(liftd c0 (by rw [e1]; simp)).1, (liftd c0 (by rw [e1]; simp)).2.1⟩
           obtain ⟨h1, h2⟩ := hcok
           intro c hc
           simp only [List.mem_cons] at hc
           rcases hc with hc | hc
           · subst hc
             refine ⟨h1.send, ?_, h1.pl, fun _ => rfl, ?_, ?_⟩
             · intro j hj
               simp only [Option.some.injEq] at hj
               subst hj
               exact ⟨a, f, d, by rw [hl.len]; simp, rfl⟩
             · intro hcp; simp only at hcp; rw [h2] at hcp; cases hcp
             · intro _; exact h1.ncop h2
           · exact lifto c hc)


theorem link_foldl (h : List Ev) : ∀ h0 s, Link h0 s → Link (h0 ++ h) (h.foldl step s) := by
  induction h with
  | nil => intro h0 s hl; simpa using hl
  | cons e es ih =>
    intro h0 s hl
    have := ih (h0 ++ [e]) (step s e) (link_step hl e)
    simpa using this

theorem link_run (h : List Ev) : Link h (run h) := by
  have := link_foldl h [] {} link_init
  simpa [run] using this

/-- no object of comm_queue_ has the id of an object of done_comm_queue_ -/
def Disj (s : Mbox) : Prop := ∀ x ∈ s.queue, ∀ y ∈ s.done, x.id ≠ y.id

theorem disj_step {s : Mbox} (hs : Sorted s) (hd : Disj s) (e : Ev) : Disj (step s e) := by
  cases e with
  | isend a pl size f d det =>
    simp only [step, isend]
    (repeat' split)
    all_goals dsimp only [Disj]
    · intro x hx y hy
      simp only [List.mem_append, List.mem_singleton] at hy
      rcases hy with hy | hy
      · exact hd x hx y hy
      · subst hy; have := hs.qlt x hx; simp only; omega
    · intro x hx y hy
      simp only [List.mem_append, List.mem_singleton] at hx
      rcases hx with hx | hx
      · exact hd x hx y hy
      · subst hx; have := hs.dlt y hy; simp only; omega
    · rename_i r rest hf
      obtain ⟨pre, post, e1, e2, _, _⟩ := findMatching_some hf
      intro x hx y hy
      exact hd x ((by rw [e2]; exact sub_of_split e1 : rest.Sublist s.queue).subset hx) y hy
  | irecv a f d =>
    simp only [step, irecv]
    (repeat' split)
    all_goals dsimp only [Disj]
    · rename_i c rest hf
      obtain ⟨pre, post, e1, e2, _, _⟩ := findMatching_some hf
      intro x hx y hy
      exact hd x hx y ((by rw [e2]; exact sub_of_split e1 : rest.Sublist s.done).subset hy)
    · intro x hx y hy
      simp only [List.mem_append, List.mem_singleton] at hx
      rcases hx with hx | hx
      · exact hd x hx y hy
      · subst hx; have := hs.dlt y hy; simp only; omega
    · rename_i c rest hf
      obtain ⟨pre, post, e1, e2, _, _⟩ := findMatching_some hf
      intro x hx y hy
      exact hd x ((by rw [e2]; exact sub_of_split e1 : rest.Sublist s.queue).subset hx) y hy
    · intro x hx y hy
      simp only [List.mem_append, List.mem_singleton] at hx
      rcases hx with hx | hx
      · exact hd x hx y hy
      · subst hx; have := hs.dlt y hy; simp only; omega
  | setReceiver r => exact hd
  | cancel id =>
    simp only [step, cancel]
    (repeat' split)
    all_goals dsimp only [Disj]
    · exact hd
    · intro x hx y hy; exact hd x (List.mem_of_mem_eraseP hx) y hy
    · intro x hx y hy
      simp only [List.mem_map] at hy
      obtain ⟨z, hz, rfl⟩ := hy
      rw [ite_id (fun c => c.id == id) _ cancelRunning_id]
      exact hd x hx z hz
  | finish id =>
    simp only [step, finish, Disj]
    intro x hx y hy
    simp only [List.mem_map] at hy
    obtain ⟨z, hz, rfl⟩ := hy
    rw [ite_id (fun c => c.id == id) _ finish_id]
    exact hd x hx z hz
  | clear =>
    simp only [step, clear, Disj]
    intro x hx; cases hx

theorem disj_foldl (h : List Ev) : ∀ s, Sorted s → Disj s → Disj (h.foldl step s) := by
  induction h with
  | nil => intro s _ hd; exact hd
  | cons e es ih => intro s hs hd; exact ih _ (sorted_step hs e) (disj_step hs hd e)

theorem disj_run (h : List Ev) : Disj (run h) := disj_foldl h _ sorted_init (by intro x hx; cases hx)

/-- in a deque sorted by id split around `c`, nothing else has c's id -/
theorem id_ne_of_split {l pre post : List Comm} {c x : Comm} (hl : l.Pairwise (fun x y => x.id < y.id))
    (e : l = pre ++ c :: post) (hx : x ∈ pre ++ post) : x.id ≠ c.id := by
  rw [e] at hl
  obtain ⟨h1, h2, h3⟩ := List.pairwise_append.mp hl
  simp only [List.mem_append] at hx
  rcases hx with hx | hx
  · have := h3 x hx c (by simp); omega
  · have := (List.pairwise_cons.mp h2).1 x hx; omega

end SgVerif.C08
