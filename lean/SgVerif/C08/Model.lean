/-
C08 — model of one `MailboxImpl` and of `CommImpl::isend / irecv / cancel / finish / copy_data`,
`MailboxImpl::set_receiver / find_matching_comm / iprobe / clear`
(src/kernel/activity/MailboxImpl.cpp, CommImpl.cpp).  Core-only (the driver is compiled).

One `Mbox` value = one `MailboxImpl` object.  Every kernel call touches exactly one mailbox (`observer->get_mailbox()`,
the back pointer `mbox_` of a comm), so a system with any number of mailboxes is the product of independent `Mbox`s.
A `CommImpl` object is identified by the index (in the history of this mailbox) of the kernel call that created it.
Timing is abstracted: a matched comm is `running` until a `finish` step (its network action ended, or somebody
waits/tests it after it ended); which comms are matched with which never depends on when `finish` happens.
-/
namespace SgVerif.C08

/-- what a side hands to the other side's match function (`src_match_data_` / `dst_match_data_`) -/
structure MData where
  actor : Nat
  tag : Nat
  pid : Nat
  deriving DecidableEq, Repr

/-- closed grammar of match functions `bool(void* mine, void* other, CommImpl*)`; they look at the other side's
match data only (like SMPI's `match_recv/match_send`).  `none` = no match function (public Mailbox API). -/
inductive Filter where
  | none
  | all
  | actorEq (k : Nat)
  | tagParity (b : Nat)
  | tagLt (k : Nat)
  | pidLt (k : Nat)
  deriving DecidableEq, Repr

def Filter.eval : Filter → Option MData → Bool
  | .none, _ => true                      -- `not match_fun ||`
  | .all, _ => true
  | .actorEq k, some d => d.actor == k
  | .tagParity b, some d => d.tag % 2 == b
  | .tagLt k, some d => d.tag < k
  | .pidLt k, some d => d.pid < k
  | _, Option.none => false               -- the other side gave no match data (nullptr)

inductive CType where
  | send | recv
  deriving DecidableEq, Repr

/-- READY only exists inside isend/irecv (`start()` turns it into RUNNING at once).  `failed` stands for every
failure state (the model action was cancelled, or `clear()` set FAILED). -/
inductive CState where
  | waiting | running | done | canceled | failed
  deriving DecidableEq, Repr

structure Comm where
  id : Nat
  type : CType                      -- type_ of the side that created the object
  state : CState := .waiting
  src : Option Nat := none          -- src_actor_
  dst : Option Nat := none          -- dst_actor_
  payload : Option Nat := none      -- src_buff_
  size : Nat := 0                   -- size_
  filt : Filter := .none            -- match_fun: ONE field, overwritten by the side that arrives second
  sdata : Option MData := none      -- src_match_data_
  rdata : Option MData := none      -- dst_match_data_
  hasBuf : Bool := false            -- dst_buff_size_ != nullptr (the receiver has posted its buffer)
  copied : Bool := false            -- copied_
  delivered : Option Nat := none    -- what copy_data wrote to the receiver
  writes : Nat := 0                 -- ghost: number of times copy_data copied
  detached : Bool := false
  mboxSet : Bool := true            -- mbox_ != nullptr while queued (find_matching_comm resets it, even for iprobe)
  sendEv : Option Nat := none       -- ghost: index of the isend call
  recvEv : Option Nat := none       -- ghost: index of the irecv call
  sfilt : Filter := .none           -- ghost: the sender's match function
  rfilt : Filter := .none           -- ghost: the receiver's match function
  deriving DecidableEq, Repr

structure Mbox where
  next : Nat := 0                   -- number of kernel calls made on this mailbox so far
  perm : Option Nat := none         -- permanent_receiver_
  queue : List Comm := []           -- comm_queue_ (front first)
  done : List Comm := []            -- done_comm_queue_
  others : List Comm := []          -- objects that left both queues (matched, finished, cancelled), most recent first
  deriving Repr

/-- `other_match_data` of find_matching_comm: `comm->get_type() == SEND ? comm->src_match_data_ : comm->dst_match_data_` -/
def Comm.mdata (c : Comm) : Option MData :=
  match c.type with
  | .send => c.sdata
  | .recv => c.rdata

/-- the test of `find_matching_comm`:
    `comm->get_type() == type && (not match_fun || match_fun(this_match_data, other_match_data, comm)) &&
     (not comm->match_fun || comm->match_fun(other_match_data, this_match_data, my_synchro))` -/
def accepts (t : CType) (f : Filter) (d : Option MData) (c : Comm) : Bool :=
  c.type == t && f.eval c.mdata && c.filt.eval d

/-- `MailboxImpl::find_matching_comm(type, match_fun, data, my_synchro, done, remove_matching = true)` on the chosen
deque: first comm passing the test, and the deque without it -/
def findMatching (t : CType) (f : Filter) (d : Option MData) : List Comm → Option (Comm × List Comm)
  | [] => none
  | c :: cs =>
    if accepts t f d c then some (c, cs)
    else match findMatching t f d cs with
      | none => none
      | some (x, rest) => some (x, c :: rest)

/-- `CommImpl::isend(observer)`: returns the new state and the id of the comm given back to the sender -/
def isend (s : Mbox) (a pl size : Nat) (f : Filter) (d : Option MData) (det : Bool) : Mbox × Nat :=
  match findMatching .recv f d s.queue with
  | none =>
    let c : Comm := { id := s.next, type := .send, src := some a, payload := some pl, size := size, filt := f,
                      sdata := d, detached := det, sendEv := some s.next, sfilt := f }
    match s.perm with
    | some r =>
      -- `mbox->is_permanent()`: set_state(READY); dst_actor_ = permanent receiver; push_done; start() -> RUNNING
      ({ s with next := s.next + 1, done := s.done ++ [{ c with state := .running, dst := some r }] }, s.next)
    | none =>
      ({ s with next := s.next + 1, queue := s.queue ++ [c] }, s.next)
  | some (r, rest) =>
    -- "Receive already pushed": set_state(READY), fields of the sender, start() -> RUNNING
    let c := { r with state := .running, src := some a, payload := some pl, size := size, filt := f, sdata := d,
                      detached := r.detached || det, sendEv := some s.next, sfilt := f }
    ({ s with next := s.next + 1, queue := rest, others := c :: s.others }, r.id)

/-- `CommImpl::irecv(observer)` -/
def irecv (s : Mbox) (a : Nat) (f : Filter) (d : Option MData) : Mbox × Nat :=
  let mine : Comm := { id := s.next, type := .recv, dst := some a, filt := f, rdata := d, hasBuf := true,
                       recvEv := some s.next, rfilt := f }
  if s.perm.isSome && !s.done.isEmpty then
    -- `mbox->is_permanent() && mbox->has_some_done_comm()`: look in done_comm_queue_ ONLY
    match findMatching .send f d s.done with
    | some (c, rest) =>
      -- (the sub-branch `model_action_ && get_remaining() < 1e-12` only adds set_state(DONE): the same as a `finish` step)
      let c' := { c with dst := some a, hasBuf := true, filt := f, rdata := d, recvEv := some s.next, rfilt := f }
      ({ s with next := s.next + 1, done := rest, others := c' :: s.others }, c.id)
    | none =>
      -- "We have messages in the permanent receive list, but not the one we are looking for, pushing request into list":
      -- comm_queue_ is NOT searched (DESIGN §9-D7)
      ({ s with next := s.next + 1, queue := s.queue ++ [mine] }, s.next)
  else
    match findMatching .send f d s.queue with
    | some (c, rest) =>
      let c' := { c with state := .running, dst := some a, hasBuf := true, filt := f, rdata := d,
                         recvEv := some s.next, rfilt := f }
      ({ s with next := s.next + 1, queue := rest, others := c' :: s.others }, c.id)
    | none =>
      ({ s with next := s.next + 1, queue := s.queue ++ [mine] }, s.next)

/-- `MailboxImpl::set_receiver(actor)` -/
def setReceiver (s : Mbox) (r : Option Nat) : Mbox := { s with next := s.next + 1, perm := r }

/-- `CommImpl::cancel()` on one object:
    WAITING: `if (not detached_) { mbox_->remove(this); state = CANCELED }`;
    READY/RUNNING: `model_action_->cancel()` — the action fails and `finish()` will report a failure. -/
def Comm.cancelRunning (c : Comm) : Comm :=
  if c.state = .running then { c with state := .failed } else c

def cancel (s : Mbox) (id : Nat) : Mbox :=
  match s.queue.find? (fun c => c.id == id) with
  | some c =>
    if c.detached then { s with next := s.next + 1 }
    else { s with next := s.next + 1, queue := s.queue.eraseP (fun c => c.id == id),
                  others := { c with state := .canceled } :: s.others }
  | none =>
    { s with next := s.next + 1,
             done := s.done.map (fun c => if c.id == id then c.cancelRunning else c),
             others := s.others.map (fun c => if c.id == id then c.cancelRunning else c) }

/-- `CommImpl::copy_data()`: `if (not src_buff_ || not dst_buff_size_ || copied_) return; … copied_ = true;` -/
def Comm.copyData (c : Comm) : Comm :=
  if c.payload.isNone || !c.hasBuf || c.copied then c
  else { c with delivered := c.payload, copied := true, writes := c.writes + 1 }

/-- `CommImpl::finish()`: `if RUNNING then DONE; … if (get_state() == State::DONE) copy_data();` -/
def Comm.finish (c : Comm) : Comm :=
  let c := if c.state = .running then { c with state := .done } else c
  if c.state = .done then c.copyData else c

/-- the network action of comm `id` ended, or somebody waits for / tests it after it ended: `finish()` runs -/
def finish (s : Mbox) (id : Nat) : Mbox :=
  { s with next := s.next + 1,
           done := s.done.map (fun c => if c.id == id then c.finish else c),
           others := s.others.map (fun c => if c.id == id then c.finish else c) }

/-- `MailboxImpl::clear(do_finish = true)`: everything in done_comm_queue_ is cancelled and set FAILED; in comm_queue_
(from the back) the WAITING non-detached comms are cancelled and set FAILED, the others are dropped from the deque. -/
def clear (s : Mbox) : Mbox :=
  let fail := fun (c : Comm) => if c.state = .waiting && c.detached then c else { c with state := .failed }
  { s with next := s.next + 1, queue := [], done := [],
           others := (s.queue.reverse.map fail) ++ (s.done.reverse.map fail) ++ s.others }

/-- `MailboxImpl::iprobe(kind = RECV, match_fun, data)`: done_comm_queue_ first (when permanent and non-empty), then
comm_queue_; nothing is removed -/
def iprobeRecv (s : Mbox) (f : Filter) (d : Option MData) : Option Comm :=
  let inDone := if s.perm.isSome && !s.done.isEmpty then s.done.find? (accepts .send f d) else none
  match inDone with
  | some c => some c
  | none => s.queue.find? (accepts .send f d)

/-- `find_matching_comm(…, remove_matching = false)` still executes `comm->set_mailbox(nullptr)` on the comm it
found, although the comm stays in the deque: after an iprobe hit the queued comm has `mbox_ == nullptr`. -/
def iprobeMark (s : Mbox) (f : Filter) (d : Option MData) : Mbox :=
  match iprobeRecv s f d with
  | some c =>
    { s with next := s.next + 1,
             queue := s.queue.map (fun x => if x.id == c.id then { x with mboxSet := false } else x),
             done := s.done.map (fun x => if x.id == c.id then { x with mboxSet := false } else x) }
  | none => { s with next := s.next + 1 }

/-- `CommImpl::cancel()` on a WAITING, non-detached comm does `mbox_->remove(this)`: a null dereference when an
iprobe has reset `mbox_` (reproduced: segmentation fault).  `clear()` cancels the same way. -/
def cancelCrashes (s : Mbox) (id : Nat) : Bool :=
  match s.queue.find? (fun c => c.id == id) with
  | some c => !c.detached && !c.mboxSet
  | none => false
def clearCrashes (s : Mbox) : Bool := s.queue.any (fun c => c.state == .waiting && !c.detached && !c.mboxSet)

/-- kernel calls on one mailbox -/
inductive Ev where
  | isend (a pl size : Nat) (f : Filter) (d : Option MData) (det : Bool)
  | irecv (a : Nat) (f : Filter) (d : Option MData)
  | setReceiver (r : Option Nat)
  | cancel (id : Nat)
  | finish (id : Nat)
  | clear
  deriving DecidableEq, Repr

def step (s : Mbox) : Ev → Mbox
  | .isend a pl size f d det => (isend s a pl size f d det).1
  | .irecv a f d => (irecv s a f d).1
  | .setReceiver r => setReceiver s r
  | .cancel id => cancel s id
  | .finish id => finish s id
  | .clear => clear s

def run (h : List Ev) : Mbox := h.foldl step {}

def Mbox.all (s : Mbox) : List Comm := s.queue ++ s.done ++ s.others

def Mbox.lookup (s : Mbox) (id : Nat) : Option Comm := s.all.find? (fun c => c.id == id)

/-- the pending sends of a mailbox: in comm_queue_ or in done_comm_queue_ (not yet given to a receiver) -/
def Mbox.pendingSends (s : Mbox) : List Comm := (s.queue ++ s.done).filter (fun c => c.type == .send)
def Mbox.pendingRecvs (s : Mbox) : List Comm := s.queue.filter (fun c => c.type == .recv)

/-- both match functions accept: the pending send `c` and a receive with function `f` and data `d` -/
def sendAcceptable (f : Filter) (d : Option MData) (c : Comm) : Bool := f.eval c.sdata && c.filt.eval d
def recvAcceptable (f : Filter) (d : Option MData) (c : Comm) : Bool := f.eval c.rdata && c.filt.eval d

end SgVerif.C08
