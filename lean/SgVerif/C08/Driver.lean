import SgVerif.C08.Model
import SgVerif.Common.Proto
/-
C08 driver: replays the kernel calls observed on the real library (the `c` lines of props/_shared/msg/harness.cpp, in
the order in which maestro handles the simcalls) on the `Mbox` model and
 (i)   accepts a returning get only with exactly the payload and size the model matched; a test() result, an iprobe
       result only when the model (at the date of the call) allows it;
 (ii)  at the end requires every blocked actor to wait on a comm the model has NOT matched, and compares the final
       comm_queue_ / done_comm_queue_ / permanent receiver of every mailbox with the model's;
 (iii) evaluates the monitors on the log alone: exactly-once (no payload received twice, every received payload was
       sent, size unchanged, buffer not written again after the get returned) and FIFO among accepted.
Timing is not compared: when a matched comm completes is read off the log (a wait that returns, a test that is true).
-/
open SgVerif.Proto
namespace SgVerif.C08

structure HInfo where
  mb : Nat
  id : Nat
  isRecv : Bool
  actor : Nat
  call : Nat
  filt : Filter := .none
  mdata : Option MData := none
  pid : Option Nat := none       -- sends: payload id
  size : Nat := 0                -- sends: simulated size
  got : Option Nat := none       -- receives: payload the implementation delivered
  finished : Bool := false
  canceled : Bool := false       -- cancel() was called on this handle

structure DS where
  mbs : List Mbox := [{}, {}, {}]
  hs : List (Nat × HInfo) := []
  recvd : List Nat := []
  pending : List (Nat × Nat) := []            -- (actor, handle): blocking call in progress
  tests : List (Nat × CState) := []           -- (actor, state of the comm in the model when test() was handled)
  probes : List (Nat × Option Nat) := []      -- (actor, payload the model's iprobe finds)
  ambiguous : List (Nat × Nat) := []          -- (mailbox, comm) cancelled while possibly still in flight, or taken
                                              -- from done_comm_queue_ (its transfer may have ended before the irecv)
  dumps : List (Nat × List String) := []      -- final pending sends per mailbox (implementation)
  crashExpected : Bool := false               -- the model reached `mbox_->remove(this)` with mbox_ == nullptr
  usedReceiver : List Nat := []               -- mailboxes on which set_receiver was called
  line : Nat := 0

def parseFilter (s : String) : Option Filter :=
  if s == "n" then some .none
  else if s == "a" then some .all
  else
    let k := (s.drop 1).toString.toNat?
    match s.front, k with
    | 's', some k => some (.actorEq k)
    | 'p', some k => some (.tagParity k)
    | 't', some k => some (.tagLt k)
    | 'i', some k => some (.pidLt k)
    | _, _ => none

def DS.handle (s : DS) (h : Nat) : Option HInfo := (s.hs.find? (·.1 == h)).map (·.2)
def DS.comm (s : DS) (hi : HInfo) : Option Comm := (s.mbs[hi.mb]?).bind (·.lookup hi.id)
def DS.setHandle (s : DS) (h : Nat) (hi : HInfo) : DS := { s with hs := (h, hi) :: s.hs.filter (·.1 != h) }
def DS.clearPending (s : DS) (a : Nat) : DS := { s with pending := s.pending.filter (·.1 != a) }
def DS.isAmbiguous (s : DS) (hi : HInfo) : Bool := s.ambiguous.contains (hi.mb, hi.id)

/-- the comm of handle `h` is observed complete: its `finish()` has run -/
def DS.completed (s : DS) (h : Nat) : DS :=
  match s.handle h with
  | some hi =>
    match s.mbs[hi.mb]? with
    | some m => (({ s with mbs := s.mbs.set hi.mb (finish m hi.id) }).setHandle h { hi with finished := true })
    | none => s
  | none => s

def monReceive (s : DS) (pid size : Nat) (sizeKnown : Bool) : Option String :=
  match s.hs.find? (fun x => x.2.pid == some pid) with
  | none => some s!"payload {pid} received but never sent"
  | some (_, p) =>
    if s.recvd.contains pid then some s!"payload {pid} received twice"
    else if sizeKnown && p.size != size then some s!"payload {pid} sent with size {p.size}, received with size {size}"
    else none

/-- get handle `h` returned payload `pid` with comm size `size` -/
def receive (s : DS) (h pid size : Nat) (sizeKnown : Bool) : DS × Verdict :=
  match s.handle h with
  | none => (s, .bad)
  | some hi =>
    if hi.got = some pid then
      (s, .monfail s!"the buffer of get {h} was written again ({pid}) after the get had returned and consumed it")
    else
    match monReceive s pid size sizeKnown with
    | some why => (s, .monfail why)
    | none =>
      let s := s.completed h
      let s' := { (s.setHandle h { hi with got := some pid, finished := true }) with recvd := pid :: s.recvd }
      match s'.comm hi with
      | none => (s', .disagree "no-such-object")
      | some c =>
        if c.sendEv.isSome && c.recvEv.isSome && c.payload = some pid && (!sizeKnown || c.size = size) &&
            (c.delivered = some pid || s.isAmbiguous hi) then (s', .ok)
        else (s', .disagree s!"model-has-payload-{c.payload}-size-{c.size}-state-{repr c.state}")

def stateOf (s : DS) (h : Nat) : Option CState := (s.handle h).bind (fun hi => (s.comm hi).map (·.state))

def acceptable (sf : Filter) (sd : Option MData) (rf : Filter) (rd : Option MData) : Bool :=
  rf.eval sd && sf.eval rd

/-- FIFO monitors on the log alone (end of program) -/
def fifoMonitor (s : DS) : Option String :=
  let sends := s.hs.filter (fun x => !x.2.isRecv)
  let recvs := s.hs.filter (fun x => x.2.isRecv)
  -- completed exchanges known from the log
  let pairsL : List (HInfo × HInfo) := recvs.filterMap (fun (_, r) =>
    match r.got with
    | some pid => (sends.find? (fun x => x.2.pid == some pid)).map (fun p => (p.2, r))
    | none => none)
  let matchTime := fun (p : HInfo × HInfo) => max p.1.call p.2.call
  let inDump := fun (p : HInfo) => s.dumps.any (fun (m, ents) => m == p.mb && ents.contains s!"S{p.pid.getD 0}")
  -- was the send `x` pending at line `t`? (known only when its later fate is known)
  let sendPendingAt := fun (x : HInfo) (t : Nat) =>
    x.call < t && !x.canceled &&
      (inDump x || pairsL.any (fun p => p.1.pid == x.pid && matchTime p > t))
  let blockedRecv := fun (r : HInfo) => r.got.isNone && !r.canceled && s.pending.any (fun (a, _) => a == r.actor) &&
    s.pending.any (fun (_, h) => (s.handle h).map (·.id) == some r.id && (s.handle h).map (·.mb) == some r.mb)
  let recvPendingAt := fun (x : HInfo) (t : Nat) =>
    x.call < t && !x.canceled &&
      (blockedRecv x || pairsL.any (fun p => p.2.id == x.id && p.2.mb == x.mb && matchTime p > t))
  let f1 := pairsL.any (fun p => sends.any (fun (_, x) =>
    x.mb == p.1.mb && x.call < p.1.call && acceptable x.filt x.mdata p.2.filt p.2.mdata && sendPendingAt x (matchTime p)))
  if f1 then some "a receive got a newer send although an older send accepted by both match functions was pending" else
  let f2 := pairsL.any (fun p => recvs.any (fun (_, x) =>
    x.mb == p.2.mb && x.call < p.2.call && acceptable p.1.filt p.1.mdata x.filt x.mdata && recvPendingAt x (matchTime p)))
  if f2 then some "a send was given to a newer receive although an older receive accepted by both match functions was pending" else
  let f3 := sends.any (fun (_, x) => inDump x && !x.canceled && recvs.any (fun (_, r) =>
    r.mb == x.mb && blockedRecv r && acceptable x.filt x.mdata r.filt r.mdata))
  if f3 then some "a send and a receive accepted by both match functions are left unmatched in the mailbox" else none

def dumpEntry (c : Comm) : String :=
  match c.type with
  | .send => s!"S{c.payload.getD 0}"
  | .recv => s!"R{c.dst.getD 0}"

def splitBar (l : List String) : List (List String) :=
  l.foldr (fun t acc => if t == "|" then [] :: acc else match acc with
    | [] => [[t]]
    | x :: xs => (t :: x) :: xs) [[]]

def judge (s : DS) (q a : List String) : DS × Verdict :=
  let s := { s with line := s.line + 1 }
  match q with
  | ["prog", _] => ({}, .ok)
  | ["c", _, "sleep", _, _] => (s, .ok)
  | ["r", _, "sleep", _] => (s, .ok)
  | ["c", act, op, m, h, size, _rate, f, tag, pid] =>      -- put / puta / putd M H SIZE RATE F TAG pid
    match act.toNat?, m.toNat?, h.toNat?, size.toNat?, parseFilter f, tag.toNat?, pid.toNat?, s.mbs[m.toNat?.getD 99]? with
    | some act, some m, some h, some size, some f, some tag, some pid, some mbox =>
      let md : Option MData := if f == .none then none else some { actor := act, tag := tag, pid := pid }
      let (mbox', id) := isend mbox act pid size f md (op == "putd")
      let s1 := ({ s with mbs := s.mbs.set m mbox' }).setHandle h
        { mb := m, id := id, isRecv := false, actor := act, call := s.line, filt := f, mdata := md, pid := some pid, size := size }
      -- a send pushed to done_comm_queue_ has started: its transfer may end before the receive is posted
      let s2 := if mbox.perm.isSome && id == mbox.next then { s1 with ambiguous := (m, id) :: s1.ambiguous } else s1
      (if op == "put" then { s2 with pending := (act, h) :: s2.pending } else s2, .ok)
    | _, _, _, _, _, _, _, _ => (s, .bad)
  | ["c", act, op, m, h, _rate, f, tag] =>                 -- get / geta M H RATE F TAG
    match act.toNat?, m.toNat?, h.toNat?, parseFilter f, tag.toNat?, s.mbs[m.toNat?.getD 99]? with
    | some act, some m, some h, some f, some tag, some mbox =>
      let md : Option MData := if f == .none then none else some { actor := act, tag := tag, pid := 0 }
      let (mbox', id) := irecv mbox act f md
      let s1 := ({ s with mbs := s.mbs.set m mbox' }).setHandle h
        { mb := m, id := id, isRecv := true, actor := act, call := s.line, filt := f, mdata := md }
      (if op == "get" then { s1 with pending := (act, h) :: s1.pending } else s1, .ok)
    | _, _, _, _, _, _ => (s, .bad)
  | ["c", act, "wait", h] =>
    match act.toNat?, h.toNat? with
    | some act, some h => ({ s with pending := (act, h) :: s.pending }, .ok)
    | _, _ => (s, .bad)
  | ["c", act, "test", h] =>
    match act.toNat?, h.toNat? with
    | some act, some h => ({ s with tests := (act, (stateOf s h).getD .waiting) :: s.tests.filter (·.1 != act) }, .ok)
    | _, _ => (s, .bad)
  | ["c", _, "cancel", h] =>
    match h.toNat? with
    | some h =>
      match s.handle h with
      | some hi =>
        match s.mbs[hi.mb]? with
        | some m =>
          let amb := (stateOf s h == some .running)
          let s := if cancelCrashes m hi.id then { s with crashExpected := true } else s
          let s1 := ({ s with mbs := s.mbs.set hi.mb (cancel m hi.id) }).setHandle h { hi with canceled := true }
          (if amb then { s1 with ambiguous := (hi.mb, hi.id) :: s1.ambiguous } else s1, .ok)
        | none => (s, .bad)
      | none => (s, .bad)
    | none => (s, .bad)
  | ["c", act, "setrecv", m, who] =>
    match act.toNat?, m.toNat?, s.mbs[m.toNat?.getD 99]? with
    | some act, some m, some mbox =>
      ({ s with mbs := s.mbs.set m (setReceiver mbox (if who == "s" then some act else none)),
                usedReceiver := m :: s.usedReceiver }, .ok)
    | _, _, _ => (s, .bad)
  | ["c", _, "clear", m] =>
    match m.toNat?, s.mbs[m.toNat?.getD 99]? with
    | some m, some mbox =>
      ({ s with mbs := s.mbs.set m (clear mbox), crashExpected := s.crashExpected || clearCrashes mbox }, .ok)
    | _, _ => (s, .bad)
  | ["c", act, "probe", m, f, tag] =>
    match act.toNat?, parseFilter f, tag.toNat?, s.mbs[m.toNat?.getD 99]? with
    | some act, some f, some tag, some mbox =>
      let md : Option MData := if f == .none then none else some { actor := act, tag := tag, pid := 0 }
      let found := (iprobeRecv mbox f md).bind (·.payload)
      match m.toNat? with
      | some m => ({ s with probes := (act, found) :: s.probes.filter (·.1 != act), mbs := s.mbs.set m (iprobeMark mbox f md) }, .ok)
      | none => (s, .bad)
    | _, _, _, _ => (s, .bad)
  | ["r", act, "probe", _] =>
    match act.toNat? with
    | some act =>
      let exp := ((s.probes.find? (·.1 == act)).map (·.2)).getD none
      let impl := match a with
        | [v] => v.toNat?
        | _ => none
      if exp = impl then (s, .ok) else (s, .disagree s!"model-probe-{exp}")
    | none => (s, .bad)
  | ["r", act, op, h] =>
    match act.toNat?, h.toNat? with
    | some act, some h =>
      let s := s.clearPending act
      if op == "setrecv" || op == "clear" || op == "puta" || op == "putd" || op == "geta" || op == "cancel" then
        (if a == ["ok"] then (s, .ok) else (s, .disagree "unexpected-result")) else
      match s.handle h with
      | none => (s, .bad)
      | some hi =>
      let st := (stateOf s h).getD .waiting
      match a with
      | ["ok"] =>         -- a blocking put / a wait on a send returned
        -- (hi.finished: a test() was true before — it swallows failures — and the S4U activity is FINISHED: no simcall)
        if st == .running || st == .done || s.isAmbiguous hi || hi.finished then (s.completed h, .ok)
        else (s, .disagree s!"model-state-{repr st}")
      | ["ok", pid, size] =>
        match pid.toNat?, size.toInt? with
        | some pid, some size => receive s h pid size.toNat (size ≥ 0)
        | _, _ =>
          if hi.finished || s.isAmbiguous hi || st == .failed || st == .canceled then (s, .ok)
          else (s, .disagree s!"returned-without-payload-model-{repr st}")
      | ["true"] =>
        if st == .running || st == .done || st == .failed || st == .canceled || s.isAmbiguous hi then (s.completed h, .ok)
        else (s, .disagree s!"model-state-{repr st}")
      | ["true", pid, size] =>
        match pid.toNat?, size.toInt? with
        | some pid, some size => receive s h pid size.toNat (size ≥ 0)
        | _, _ =>
          if hi.finished || s.isAmbiguous hi || st == .failed || st == .canceled then (s, .ok)
          else (s, .disagree s!"test-true-without-payload-model-{repr st}")
      | ["false"] =>
        let atc := ((s.tests.find? (·.1 == act)).map (·.2)).getD .done
        -- (a comm cancelled in flight stays RUNNING until the failed action is collected at the end of the sub-round)
        if atc == .waiting || atc == .running || s.isAmbiguous hi then (s, .ok) else (s, .disagree s!"model-state-at-test-{repr atc}")
      | ["exc", _] =>
        if s.isAmbiguous hi || st == .failed || st == .canceled then (s, .ok)
        else (s, .disagree s!"exception-model-state-{repr st}")
      | _ => (s, .disagree "unexpected-result")
    | _, _ => (s, .bad)
  | ["x", act] =>
    match act.toNat? with
    | some act => if s.pending.any (·.1 == act) then (s, .bad) else (s, .ok)
    | none => (s, .bad)
  | ["dump", "mq", _] => (s, .ok)
  | ["dump", "mb", m] =>
    match m.toNat?, s.mbs[m.toNat?.getD 99]? with
    | some m, some mbox =>
      match splitBar a with
      | [("q" :: qe), ("d" :: de), ["p", p]] =>
        let s := { s with dumps := (m, qe ++ de) :: s.dumps }
        let mq := mbox.queue.map dumpEntry
        let md := mbox.done.map dumpEntry
        let mp := match mbox.perm with
          | some r => toString r
          | none => "none"
        if mq = qe && md = de && mp = p then (s, .ok)
        else (s, .disagree ("q " ++ " ".intercalate mq ++ " | d " ++ " ".intercalate md ++ " | p " ++ mp))
      | _ => (s, .bad)
    | _, _ => (s, .bad)
  | ["late", h] =>
    match h.toNat?, a with
    | some h, [v] =>
      match s.handle h with
      | none => (s, .bad)
      | some hi =>
        if hi.mb ≥ 100 then (s, .ok) else
        match v.toNat? with
        | some pid =>
          -- the buffer of a get that never returned holds a payload: it must be the one the model matched
          match monReceive s pid 0 false with
          | some why => (s, .monfail why)
          | none =>
            let s' := { (s.setHandle h { hi with got := some pid }) with recvd := pid :: s.recvd }
            match s.comm hi with
            | some c => if c.payload = some pid && c.recvEv.isSome then (s', .ok) else (s', .disagree s!"model-has-{c.payload}")
            | none => (s', .disagree "no-such-object")
        | none =>
          if v != "none" then (s, .monfail s!"buffer of get {h} holds {v}") else
          match s.comm hi with
          | some c =>
            -- matched, still running at the end and never failed: the transfer ended and finish() copied the payload
            if c.sendEv.isSome && c.recvEv.isSome && c.state == .running && !s.isAmbiguous hi then
              (s, .disagree "model-matched-impl-delivered-nothing")
            else (s, .ok)
          | none => (s, .ok)
    | _, _ => (s, .bad)
  | ["rewrite", h] =>
    match a with
    | [v] =>
      if v != "none" then
        (s, .monfail s!"the buffer of get {h} was written again ({v}) after the get had returned and consumed it")
      else (s, .ok)
    | _ => (s, .bad)
  | ["end"] =>
    match a with
    | [kind, _] =>
      if kind == "crash" then
        (s, .monfail (if s.crashExpected then "the library crashed: cancel()/clear() of a queued comm whose mbox_ was reset by an iprobe (null dereference)"
                      else "the library crashed")) else
      if s.crashExpected then (s, .disagree "model-expects-null-dereference") else
      match fifoMonitor s with
      | some why => (s, .monfail why)
      | none =>
        let wrong := s.pending.filter (fun (_, h) => stateOf s h != some .waiting)
        if kind == "ok" && !s.pending.isEmpty then (s, .disagree "end-ok-with-blocked-actors")
        else if !wrong.isEmpty then (s, .disagree s!"blocked-on-matched-comm {wrong.map (·.2)}")
        else (s, .ok)
    | _ => (s, .bad)
  | _ => (s, .bad)

end SgVerif.C08

def main : IO Unit := SgVerif.Proto.runS ({} : SgVerif.C08.DS) SgVerif.C08.judge
