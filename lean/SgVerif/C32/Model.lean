/-
C32 — model of SMPI groups (src/smpi/mpi/smpi_group.cpp + the argument checks of src/smpi/bindings/smpi_pmpi_group.cpp)
and of the ordering part of `Comm::split` (src/smpi/mpi/smpi_comm.cpp).

A `Group` is its `rank_to_pid_map_` (a list of actor ids, the rank is the position); `pid_to_rank_map_` is the inverse
map, modelled by `Group.rank` (position of the pid, `MPI_UNDEFINED` when absent).  The two maps are consistent as long as
the list has no duplicates, which the PMPI argument checks guarantee for `incl`/`excl`; overlapping ranges given to
`range_incl` are NOT rejected by the code (erroneous MPI program, outside the property's "valid" stream; see NOTES).
`Group::rank` also looks up the parent actor of an unknown pid; rank actors have no parent inside a group: not modelled.

Where the C++ collects rank indices and immediately maps them back through `actor(i)` of the same group
(`group_union`, `intersection`, `difference`, `excl`), the model keeps the pids directly (`filter`): the index round
trip `actor(i)` / `ranks.push_back(i)` / `actor(ranks[k])` is the identity.
-/
namespace SgVerif.C32

def UNDEFINED : Int := -333      -- MPI_UNDEFINED
def PROC_NULL : Int := -666      -- MPI_PROC_NULL

inductive Err where
  | rank     -- MPI_ERR_RANK
  | arg      -- MPI_ERR_ARG
  deriving Repr, DecidableEq

inductive Res (α : Type) where
  | ok (v : α)
  | err (e : Err)
  deriving Repr, DecidableEq

abbrev Group := List Nat

/-- `int Group::rank(aid_t pid)`: `pid_to_rank_map_[pid]` or MPI_UNDEFINED -/
def rankGo (pid : Nat) : Nat → List Nat → Int
  | _, [] => UNDEFINED
  | i, a :: rest => if a = pid then (i : Int) else rankGo pid (i + 1) rest

def Group.rank (g : Group) (pid : Nat) : Int := rankGo pid 0 g

/-- `aid_t Group::actor(int rank)`: `(0 <= rank && rank < size()) ? rank_to_pid_map_[rank] : -1` -/
def Group.actor (g : Group) (r : Int) : Option Nat :=
  if 0 ≤ r ∧ r < g.length then g[r.toNat]? else none

/-
int Group::group_union(const Group* group2, MPI_Group* newgroup) const
  for (i < group2->size()) { actor = group2->actor(i); if (rank(actor) == MPI_UNDEFINED) ranks2.push_back(i); }
  newsize = size() + ranks2.size();  if (newsize == 0) EMPTY
  for (i < size()) newgroup->set_mapping(actor(i), i);
  for (j : ranks2) newgroup->set_mapping(group2->actor(j), i++);
-/
def union (g1 g2 : Group) : Group := g1 ++ g2.filter (fun a => g1.rank a = UNDEFINED)

/-
int Group::intersection(const Group* group2, MPI_Group* newgroup) const        (as fixed by 9d5c7e41e1: iterates over THIS group)
  for (i < size()) { actor = this->actor(i); if (group2->rank(actor) != MPI_UNDEFINED) ranks.push_back(i); }
  return this->incl(ranks, newgroup);
(PMPI_Group_intersection returns MPI_GROUP_EMPTY at once when either group is MPI_GROUP_EMPTY: the same list.)
-/
def intersection (g1 g2 : Group) : Group := g1.filter (fun a => g2.rank a ≠ UNDEFINED)

/-- the code before the fix iterated over group2 (kept for the regression witness in the corpus) -/
def intersectionOld (g1 g2 : Group) : Group := g2.filter (fun a => g1.rank a ≠ UNDEFINED)

/-- `Group::difference`: same loop with `== MPI_UNDEFINED` -/
def difference (g1 g2 : Group) : Group := g1.filter (fun a => g2.rank a = UNDEFINED)

/-
#define CHECK_GROUP_RANKS(group, n, ranks)
  for (i < n) {
    if (ranks[i] < 0 || ranks[i] >= group->size()) return MPI_ERR_RANK;
    for (j = i + 1; j < n; j++) if (ranks[i] == ranks[j]) return MPI_ERR_RANK;
  }
  if (n > group->size()) return MPI_ERR_ARG;
-/
def checkRanksGo (size : Nat) : List Int → Option Err
  | [] => none
  | r :: rest =>
    if r < 0 ∨ r ≥ size then some .rank
    else if rest.contains r then some .rank
    else checkRanksGo size rest

def checkRanks (g : Group) (ranks : List Int) : Option Err :=
  match checkRanksGo g.length ranks with
  | some e => some e
  | none => if ranks.length > g.length then some .arg else none

/-- `Group::incl`: `for (i < n) newgroup->set_mapping(this->actor(ranks[i]), i)` (n == 0 → MPI_GROUP_EMPTY) -/
def inclRaw (g : Group) (ranks : List Int) : Group := ranks.filterMap g.actor

def incl (g : Group) (ranks : List Int) : Res Group :=
  match checkRanks g ranks with
  | some e => .err e
  | none => .ok (inclRaw g ranks)

/-
int Group::excl(int n, const int* ranks, …): to_excl[ranks[i]] = true;
int Group::excl(const std::vector<bool>& excl_map, …): for (i < size) if (not excl_map[i]) ranks.push_back(i); incl(ranks)
-/
def exclGo (ranks : List Int) : Nat → List Nat → List Nat
  | _, [] => []
  | i, a :: rest => if ranks.contains (i : Int) then exclGo ranks (i + 1) rest else a :: exclGo ranks (i + 1) rest

/-- PMPI_Group_excl: checks, `n == 0` → the group itself, `n == size` → MPI_GROUP_EMPTY, else `Group::excl` -/
def excl (g : Group) (ranks : List Int) : Res Group :=
  match checkRanks g ranks with
  | some e => .err e
  | none =>
    if ranks.length = 0 then .ok g
    else if ranks.length = g.length then .ok []
    else .ok (exclGo ranks 0 g)

/-- `static bool is_rank_in_range(int rank, int first, int last)` -/
def isRankInRange (rank first last : Int) : Bool :=
  (first ≤ rank && rank ≤ last) || (first ≥ rank && rank ≥ last)

/-
    for (int j = ranges[i][0]; j >= 0 && j < size() && is_rank_in_range(j, ranges[i][0], ranges[i][1]); j += ranges[i][2])
      ranks.push_back(j);
`fuel`: the loop variable moves monotonically inside `[0, size)` for a non-zero stride (stride 0 is rejected by the
PMPI check; the C loop would not terminate), so `size` iterations always suffice (`rangeLoop_spec`).
-/
def rangeLoop (size : Nat) (first last stride : Int) : Nat → Int → List Int
  | 0, _ => []
  | fuel + 1, j =>
    if j ≥ 0 ∧ j < size ∧ isRankInRange j first last then j :: rangeLoop size first last stride fuel (j + stride) else []

structure Range where
  first : Int
  last : Int
  stride : Int
  deriving Repr, DecidableEq

/-
#define CHECK_GROUP_RANGES(group, n, ranges)
  for (i < n) {
    if (first < 0 || first >= size || last < 0 || last >= size) return MPI_ERR_RANK;
    if ((first < last && stride < 0) || (first > last && stride > 0)) return MPI_ERR_ARG;
    if (stride == 0) return MPI_ERR_ARG;
  }
  if (n > group->size()) return MPI_ERR_ARG;
-/
def checkRangesGo (size : Nat) : List Range → Option Err
  | [] => none
  | r :: rest =>
    if r.first < 0 ∨ r.first ≥ size ∨ r.last < 0 ∨ r.last ≥ size then some .rank
    else if (r.first < r.last ∧ r.stride < 0) ∨ (r.first > r.last ∧ r.stride > 0) then some .arg
    else if r.stride = 0 then some .arg
    else checkRangesGo size rest

def checkRanges (g : Group) (ranges : List Range) : Option Err :=
  match checkRangesGo g.length ranges with
  | some e => some e
  | none => if ranges.length > g.length then some .arg else none

def rangeRanks (g : Group) (ranges : List Range) : List Int :=
  ranges.flatMap (fun r => rangeLoop g.length r.first r.last r.stride g.length r.first)

/-- PMPI_Group_range_incl + Group::range_incl (`n == 0` → MPI_GROUP_EMPTY) -/
def rangeIncl (g : Group) (ranges : List Range) : Res Group :=
  match checkRanges g ranges with
  | some e => .err e
  | none => .ok (inclRaw g (rangeRanks g ranges))

/-- PMPI_Group_range_excl + Group::range_excl (`n == 0` → the group itself) -/
def rangeExcl (g : Group) (ranges : List Range) : Res Group :=
  match checkRanges g ranges with
  | some e => .err e
  | none => if ranges.length = 0 then .ok g else .ok (exclGo (rangeRanks g ranges) 0 g)

inductive Cmp where
  | ident | similar | unequal
  deriving Repr, DecidableEq

/-
int Group::compare(const Group* group2) const
  result = MPI_IDENT;
  if (size() != group2->size()) result = MPI_UNEQUAL;
  else for (i < size()) { rank = group2->rank(actor(i));
      if (rank == MPI_UNDEFINED) { result = MPI_UNEQUAL; break; }
      if (rank != i) result = MPI_SIMILAR; }
-/
def compareGo (g2 : Group) : Cmp → Nat → List Nat → Cmp
  | res, _, [] => res
  | res, i, a :: rest =>
    let r := g2.rank a
    if r = UNDEFINED then .unequal
    else compareGo g2 (if r ≠ (i : Int) then .similar else res) (i + 1) rest

def compare (g1 g2 : Group) : Cmp :=
  if g1.length ≠ g2.length then .unequal else compareGo g2 .ident 0 g1

/-
PMPI_Group_translate_ranks:
  for (i < n) {
    if (ranks1[i] != MPI_PROC_NULL && (ranks1[i] < 0 || ranks1[i] >= group1->size())) return MPI_ERR_RANK;
    if (ranks1[i] == MPI_PROC_NULL) ranks2[i] = MPI_PROC_NULL;
    else ranks2[i] = group2->rank(group1->actor(ranks1[i]));
  }
-/
def translate (g1 : Group) (ranks : List Int) (g2 : Group) : Res (List Int) :=
  match ranks with
  | [] => .ok []
  | r :: rest =>
    if r ≠ PROC_NULL ∧ (r < 0 ∨ r ≥ g1.length) then .err .rank
    else
      let v : Int := if r = PROC_NULL then PROC_NULL else
        match g1.actor r with
        | some a => g2.rank a
        | none => UNDEFINED
      match translate g1 rest g2 with
      | .ok vs => .ok (v :: vs)
      | .err e => .err e

/-! ### Comm::split -/

/-- `std::pair<int,int>` ordering used by `std::sort(begin(rankmap), end(rankmap))`: key, then old rank -/
def lexLe (a b : Int × Nat) : Bool := a.1 < b.1 || (a.1 == b.1 && a.2 ≤ b.2)

/-- one participant as root sees it: (color, key, rank in the old communicator) -/
structure Entry where
  color : Int
  key : Int
  rank : Nat
  deriving Repr, DecidableEq

/-
    for (int i = 0; i < size; i++) {
      if (recvbuf[2 * i] != MPI_UNDEFINED) {
        rankmap.clear();
        for (int j = i + 1; j < size; j++)
          if (recvbuf[2 * i] == recvbuf[2 * j]) { recvbuf[2 * j] = MPI_UNDEFINED; rankmap.emplace_back(recvbuf[2 * j + 1], j); }
        recvbuf[2 * i] = MPI_UNDEFINED;
        rankmap.emplace_back(recvbuf[2 * i + 1], i);
        std::sort(begin(rankmap), end(rankmap));
        … group_out[j] = group->actor(rankmap[j].second) …
`splitGo` runs on the entries `i, i+1, …` still to be visited (with their current, possibly erased, colours) and
returns the groups created, each as the sorted (key, old rank) list.  `std::sort` on distinct pairs of a total order
is any sorting function: `List.mergeSort`.
-/
def splitGo : List Entry → List (List (Int × Nat))
  | [] => []
  | e :: rest =>
    if e.color ≠ UNDEFINED then
      let same := rest.filter (fun x => x.color = e.color)
      let rest' := rest.map (fun x => if x.color = e.color then { x with color := UNDEFINED } else x)
      ((same.map (fun x => (x.key, x.rank))) ++ [(e.key, e.rank)]).mergeSort lexLe :: splitGo rest'
    else splitGo rest
termination_by l => l.length
decreasing_by all_goals simp

def entries (colors keys : List Int) : List Entry :=
  (colors.zip keys).zipIdx.map (fun p => { color := p.1.1, key := p.1.2, rank := p.2 })

/-- the new group (as old ranks, in new-rank order) of old rank `me`, or none (MPI_COMM_NULL) -/
def split (colors keys : List Int) (me : Nat) : Option (List Nat) :=
  ((splitGo (entries colors keys)).find? (fun g => g.any (fun p => p.2 == me))).map (fun g => g.map (·.2))

end SgVerif.C32
