import SgVerif.C32.Model
/-
C32 — helper lemmas: the pid→rank lookup, the argument checks, a pigeonhole lemma for `excl`, the range loop.
-/
namespace SgVerif.C32

theorem rankGo_not_mem (pid : Nat) (i : Nat) (g : List Nat) (h : pid ∉ g) : rankGo pid i g = UNDEFINED := by
  induction g generalizing i with
  | nil => rfl
  | cons a rest ih =>
    have h1 : a ≠ pid := fun e => h (by simp [e])
    have h2 : pid ∉ rest := fun e => h (by simp [e])
    simp [rankGo, h1, ih _ h2]

/-- a found pid: the result is `i +` its first position -/
theorem rankGo_mem (pid : Nat) (i : Nat) (g : List Nat) (h : pid ∈ g) :
    rankGo pid i g = ((i + g.idxOf pid : Nat) : Int) ∧ g.idxOf pid < g.length := by
  induction g generalizing i with
  | nil => simp at h
  | cons a rest ih =>
    by_cases e : a = pid
    · subst e; simp [rankGo, List.idxOf_cons]
    · have h2 : pid ∈ rest := by
        rcases List.mem_cons.mp h with h | h
        · exact absurd h.symm e
        · exact h
      obtain ⟨e1, e2⟩ := ih (i + 1) h2
      have : (a == pid) = false := by simp [e]
      simp only [rankGo, e, if_false, e1, List.idxOf_cons, this, cond_false, List.length_cons]
      constructor
      · congr 1; omega
      · omega

theorem rank_undefined_iff (g : Group) (pid : Nat) : g.rank pid = UNDEFINED ↔ pid ∉ g := by
  constructor
  · intro h hm
    obtain ⟨e, _⟩ := rankGo_mem pid 0 g hm
    unfold Group.rank at h
    rw [e] at h
    unfold UNDEFINED at h
    omega
  · exact rankGo_not_mem pid 0 g

/-- the MPI meaning of `rank`: position in the group, or MPI_UNDEFINED -/
theorem rank_eq_idxOf (g : Group) (pid : Nat) :
    g.rank pid = if pid ∈ g then ((g.idxOf pid : Nat) : Int) else UNDEFINED := by
  by_cases h : pid ∈ g
  · rw [if_pos h]; unfold Group.rank; rw [(rankGo_mem pid 0 g h).1]; simp
  · rw [if_neg h]; exact rankGo_not_mem pid 0 g h

theorem checkRanksGo_none (size : Nat) (ranks : List Int) :
    checkRanksGo size ranks = none ↔ (∀ r ∈ ranks, 0 ≤ r ∧ r < size) ∧ ranks.Nodup := by
  induction ranks with
  | nil => simp [checkRanksGo]
  | cons r rest ih =>
    rw [checkRanksGo]
    by_cases h1 : r < 0 ∨ r ≥ size
    · simp only [h1, if_true]
      constructor
      · intro h; cases h
      · intro ⟨h, _⟩; have := h r (by simp); omega
    · rw [if_neg h1]
      by_cases h2 : rest.contains r = true
      · simp only [h2, if_true]
        constructor
        · intro h; cases h
        · intro ⟨_, h⟩
          rw [List.nodup_cons] at h
          exact absurd (by simpa using h2) h.1
      · have h2f : rest.contains r = false := by simpa using h2
        simp only [h2f, Bool.false_eq_true, if_false]
        rw [ih, List.nodup_cons]
        have h2' : r ∉ rest := by simpa using h2
        constructor
        · intro ⟨a, b⟩
          exact ⟨fun x hx => by
            rcases List.mem_cons.mp hx with e | e
            · subst e; omega
            · exact a x e, h2', b⟩
        · intro ⟨a, _, b⟩
          exact ⟨fun x hx => a x (List.mem_cons_of_mem _ hx), b⟩

theorem checkRanksGo_some_rank (size : Nat) (ranks : List Int) (e : Err) (h : checkRanksGo size ranks = some e) :
    e = .rank := by
  induction ranks with
  | nil => simp [checkRanksGo] at h
  | cons r rest ih =>
    rw [checkRanksGo] at h
    split at h
    · injection h with h; exact h.symm
    · split at h
      · injection h with h; exact h.symm
      · exact ih h

/-- pigeonhole: `n` distinct naturals below `n` are all of them -/
theorem pigeon (n : Nat) (l : List Nat) (hn : l.Nodup) (hb : ∀ x ∈ l, x < n) (hl : l.length = n) :
    ∀ i, i < n → i ∈ l := by
  induction n generalizing l with
  | zero => intro i hi; omega
  | succ n ih =>
    intro i hi
    by_cases hm : n ∈ l
    · have h1 : (l.erase n).Nodup := hn.erase n
      have h2 : (l.erase n).length = n := by rw [List.length_erase_of_mem hm, hl]; rfl
      have h3 : ∀ x ∈ l.erase n, x < n := by
        intro x hx
        have := (hn.mem_erase_iff).mp hx
        have := hb x this.2
        omega
      by_cases e : i = n
      · subst e; exact hm
      · exact List.mem_of_mem_erase (ih (l.erase n) h1 h3 h2 i (by omega))
    · -- every element is < n, yet there are n+1 distinct ones: impossible
      exfalso
      cases l with
      | nil => simp at hl
      | cons a t =>
        rw [List.nodup_cons] at hn
        have hb' : ∀ x ∈ t, x < n := by
          intro x hx
          have h1 := hb x (List.mem_cons_of_mem _ hx)
          have h2 : x ≠ n := fun e => hm (by rw [← e]; exact List.mem_cons_of_mem _ hx)
          omega
        have ha : a < n := by
          have h1 := hb a (by simp)
          have h2 : a ≠ n := fun e => hm (by rw [← e]; simp)
          omega
        exact hn.1 (ih t hn.2 hb' (by simpa using hl) a ha)

/-- the same for a list of C ints in `[0, n)` -/
theorem pigeonInt (n : Nat) (l : List Int) (hn : l.Nodup) (hb : ∀ x ∈ l, 0 ≤ x ∧ x < n) (hl : l.length = n) :
    ∀ i : Nat, i < n → (i : Int) ∈ l := by
  intro i hi
  have h1 : (l.map Int.toNat).Nodup := by
    clear hl
    induction l with
    | nil => simp
    | cons a t ih =>
      rw [List.nodup_cons] at hn
      rw [List.map_cons, List.nodup_cons]
      refine ⟨?_, ih hn.2 (fun x hx => hb x (List.mem_cons_of_mem _ hx))⟩
      intro hm
      obtain ⟨y, hy, e⟩ := List.mem_map.mp hm
      have := hb y (List.mem_cons_of_mem _ hy); have := hb a (by simp)
      have : y = a := by omega
      exact hn.1 (this ▸ hy)
  have h2 : ∀ x ∈ l.map Int.toNat, x < n := by
    intro x hx
    obtain ⟨y, hy, e⟩ := List.mem_map.mp hx
    have := hb y hy
    omega
  have := pigeon n (l.map Int.toNat) h1 h2 (by simpa using hl) i hi
  obtain ⟨y, hy, e⟩ := List.mem_map.mp this
  have := hb y hy
  have : y = (i : Int) := by omega
  rw [← this]; exact hy

/-- MPI's definition of Group_excl: the members whose rank is not listed, order kept -/
def exclSpec (g : Group) (ranks : List Int) : Group :=
  ((g.zipIdx).filter (fun p => !ranks.contains (p.2 : Int))).map (·.1)

theorem exclGo_spec (ranks : List Int) (i : Nat) (g : List Nat) :
    exclGo ranks i g = ((g.zipIdx i).filter (fun p => !ranks.contains (p.2 : Int))).map (·.1) := by
  induction g generalizing i with
  | nil => rfl
  | cons a rest ih =>
    rw [exclGo, List.zipIdx_cons, List.filter_cons]
    by_cases h : (i : Int) ∈ ranks
    · simp [h, ih]
    · simp [h, ih]

/-- the arithmetic progression MPI writes `first, first+stride, …` (n terms) -/
def progression (first stride : Int) : Nat → List Int
  | 0 => []
  | n + 1 => first :: progression (first + stride) stride n

/-- the range loop produces exactly the first `n` terms of the progression when those are in the range and inside
the group and the next one is not (and the fuel covers them) -/
theorem rangeLoop_spec (size : Nat) (first last stride : Int) (n : Nat) (fuel : Nat) (j : Int) (hf : n ≤ fuel)
    (hin : ∀ k : Nat, k < n → (0 ≤ j + k * stride ∧ j + k * stride < size ∧ isRankInRange (j + k * stride) first last = true))
    (hout : ¬ (0 ≤ j + n * stride ∧ j + n * stride < size ∧ isRankInRange (j + n * stride) first last = true)) :
    rangeLoop size first last stride fuel j = progression j stride n := by
  induction n generalizing fuel j with
  | zero =>
    cases fuel with
    | zero => rfl
    | succ f =>
      simp only [Int.natCast_zero, Int.zero_mul, Int.add_zero] at hout
      rw [rangeLoop, if_neg (by simpa [ge_iff_le] using hout)]
      rfl
  | succ n ih =>
    cases fuel with
    | zero => omega
    | succ f =>
      have h0 := hin 0 (by omega)
      simp only [Int.natCast_zero, Int.zero_mul, Int.add_zero] at h0
      rw [rangeLoop, if_pos (by simpa [ge_iff_le] using h0)]
      simp only [progression]
      congr 1
      apply ih f (j + stride) (by omega)
      · intro k hk
        have := hin (k + 1) (by omega)
        have e : j + ((k + 1 : Nat) : Int) * stride = j + stride + (k : Int) * stride := by
          rw [Int.natCast_succ, Int.add_mul]; omega
        rwa [e] at this
      · have e : j + ((n + 1 : Nat) : Int) * stride = j + stride + (n : Int) * stride := by
          rw [Int.natCast_succ, Int.add_mul]; omega
        rwa [e] at hout

end SgVerif.C32
