import SgVerif.C32.Model
import SgVerif.Common.Proto
open SgVerif.Proto
namespace SgVerif.C32

def splitBar (l : List String) : List (List String) :=
  let rec go : List String → List String → List (List String) → List (List String)
    | [], cur, acc => (cur.reverse :: acc).reverse
    | "|" :: rest, cur, acc => go rest [] (cur.reverse :: acc)
    | t :: rest, cur, acc => go rest (t :: cur) acc
  go l [] []

def ints (l : List String) : Option (List Int) := l.mapM String.toInt?
def nats (l : List String) : Option (List Nat) := l.mapM String.toNat?

def showG (code : Int) (g : List Nat) : List String := toString code :: g.map toString
def showRes (r : Res Group) : List String :=
  match r with
  | .ok g => showG 0 g
  | .err .rank => ["1"]
  | .err .arg => ["2"]

/-! #### the MPI specification, written independently of the model (monitor) -/

def unionS (a b : List Nat) : List Nat := a ++ b.filter (fun x => !a.contains x)
def interS (a b : List Nat) : List Nat := a.filter (fun x => b.contains x)
def diffS (a b : List Nat) : List Nat := a.filter (fun x => !b.contains x)

def validRanks (n : Nat) (r : List Int) : Bool :=
  r.all (fun x => 0 ≤ x && x < n) && r.eraseDups.length == r.length

def inclS (a : List Nat) (r : List Int) : List Nat := r.filterMap (fun x => a[x.toNat]?)
def exclS (a : List Nat) (r : List Int) : List Nat :=
  (a.zipIdx.filter (fun p => !r.contains (p.2 : Int))).map (·.1)

/-- MPI: ranks `first + k·stride`, `k = 0 … ⌊(last − first)/stride⌋` -/
def rangeTerms (first last stride : Int) : List Int :=
  (List.range (((last - first).fdiv stride).toNat + 1)).map (fun (k : Nat) => first + Int.ofNat k * stride)

def validRange (n : Nat) (r : Range) : Bool :=
  0 ≤ r.first && r.first < n && 0 ≤ r.last && r.last < n && r.stride ≠ 0 &&
  !((r.first < r.last && r.stride < 0) || (r.first > r.last && r.stride > 0))

def toRanges : List Int → List Range
  | f :: l :: s :: rest => ⟨f, l, s⟩ :: toRanges rest
  | _ => []

def insertLex (x : Int × Nat) : List (Int × Nat) → List (Int × Nat)
  | [] => [x]
  | y :: ys => if x.1 < y.1 ∨ (x.1 = y.1 ∧ x.2 ≤ y.2) then x :: y :: ys else y :: insertLex x ys

/-- MPI_Comm_split: the processes with my colour, ranked by key, ties by old rank -/
def splitS (colors keys : List Int) (me : Nat) : Option (List Nat) :=
  let c := colors.getD me UNDEFINED
  if c = UNDEFINED then none else
  let ms := ((colors.zip keys).zipIdx.filter (fun p => p.1.1 == c)).map (fun p => (p.1.2, p.2))
  some ((ms.foldr insertLex []).map (·.2))

def idx (l : List Nat) (x : Nat) : Int := Int.ofNat (l.takeWhile (· ≠ x)).length

def commVals (g : Option (List Nat)) (me : Nat) (msg : Bool) : List Int :=
  match g with
  | none => [-1]
  | some ms =>
    let nr := idx ms me
    let base : List Int := [nr, Int.ofNat ms.length] ++ ms.map Int.ofNat
    let tail : List Int := if msg then [3, (if nr = 1 then 2 else 0), (if nr = 1 then 1 else 0)] else []
    let v := base ++ tail
    Int.ofNat v.length :: v

def judge (q a : List String) : Verdict :=
  match q with
  | kind :: rest =>
    let parts := splitBar rest
    match kind, parts with
    | "U", [x, y] | "I", [x, y] | "F", [x, y] =>
      match nats x, nats y with
      | some g1, some g2 =>
        let (m, s) := if kind = "U" then (union g1 g2, unionS g1 g2)
                      else if kind = "I" then (intersection g1 g2, interS g1 g2) else (difference g1 g2, diffS g1 g2)
        if a ≠ showG 0 s then .monfail s!"MPI defines {showG 0 s}"
        else cmpAns (showG 0 m) a
      | _, _ => .bad
    | "N", [x, y] | "X", [x, y] =>
      match nats x, ints y with
      | some g, some r =>
        let m := if kind = "N" then incl g r else excl g r
        if validRanks g.length r then
          let s := if kind = "N" then inclS g r else exclS g r
          if a ≠ showG 0 s then .monfail s!"MPI defines {showG 0 s}" else cmpAns (showRes m) a
        else if a.head? = some "0" then .monfail "invalid rank list (duplicate or out-of-range rank) accepted"
        else cmpAns (showRes m) a
      | _, _ => .bad
    | "RI", [x, y] | "RX", [x, y] =>
      match nats x, ints y with
      | some g, some rs =>
        let ranges := toRanges rs
        let m := if kind = "RI" then rangeIncl g ranges else rangeExcl g ranges
        let terms := ranges.flatMap (fun r => if r.stride = 0 then [] else rangeTerms r.first r.last r.stride)
        let valid := ranges.all (validRange g.length) && terms.eraseDups.length == terms.length
        if valid then
          let s := if kind = "RI" then inclS g terms else exclS g terms
          if a ≠ showG 0 s then .monfail s!"MPI defines {showG 0 s}" else cmpAns (showRes m) a
        else if ¬ ranges.all (validRange g.length) ∧ a.head? = some "0" then .monfail "invalid range accepted"
        else cmpAns (showRes m) a          -- overlapping ranges (erroneous, not detected by the code): model only
      | _, _ => .bad
    | "C", [x, y] =>
      match nats x, nats y with
      | some g1, some g2 =>
        let m := match compare g1 g2 with | .ident => "0" | .similar => "1" | .unequal => "2"
        let s := if g1 = g2 then "0"
                 else if g1.length = g2.length ∧ g1.all (g2.contains ·) ∧ g2.all (g1.contains ·) then "1" else "2"
        if a ≠ [s] then .monfail s!"MPI defines {s}" else cmpAns [m] a
      | _, _ => .bad
    | "TR", [x, y, z] =>
      match nats x, nats y, ints z with
      | some g1, some g2, some r =>
        let m : List String := match translate g1 r g2 with
          | .ok vs => "0" :: vs.map toString
          | .err .rank => ["1"]
          | .err .arg => ["2"]
        let valid := r.all (fun x => x = PROC_NULL ∨ (0 ≤ x ∧ x < g1.length))
        if valid then
          let s : List Int := r.map (fun x => if x = PROC_NULL then PROC_NULL else
            match g1[x.toNat]? with
            | some p => if g2.contains p then idx g2 p else UNDEFINED
            | none => UNDEFINED)
          if a ≠ "0" :: s.map toString then .monfail s!"MPI defines {s}" else cmpAns m a
        else if a.head? = some "0" then .monfail "invalid rank accepted"
        else cmpAns m a
      | _, _, _ => .bad
    | "SP", [x, y] =>
      match ints x, ints y with
      | some colors, some keys =>
        let np := colors.length
        let mv := (List.range np).flatMap (fun me => ("|" :: (commVals (split colors keys me) me true).map toString))
        let sv := (List.range np).flatMap (fun me => ("|" :: (commVals (splitS colors keys me) me true).map toString))
        if a ≠ sv then .monfail s!"MPI defines {" ".intercalate sv}" else cmpAns mv a
      | _, _ => .bad
    | "CC", [x] =>
      match nats x with
      | some g =>
        let np := (a.filter (· = "|")).length
        let mv := (List.range np).flatMap (fun me =>
          ("|" :: (commVals (if g.contains me then some g else none) me false).map toString))
        cmpAns mv a
      | none => .bad
    | _, _ => .bad
  | _ => .bad

end SgVerif.C32

def main : IO Unit := SgVerif.Proto.run SgVerif.C32.judge
