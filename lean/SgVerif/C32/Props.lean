import SgVerif.C32.Lemmas
/-
C32 — Groups and communicators follow MPI rules.  Property theorems (nothing else in this file).
Every theorem is for ALL groups (lists of actor ids of any length), all rank lists / ranges / colours / keys.
The specification side is the MPI-3.1 §6.3.2 text written as list functions (`filter`, `idxOf`, `zipIdx`, `Perm` + `Pairwise`).
-/
namespace SgVerif.C32

/-- **MPI_Group_union**: all elements of group1, followed by the elements of group2 not in group1 (each in its order) -/
theorem union_spec (g1 g2 : Group) : union g1 g2 = g1 ++ g2.filter (fun a => decide (a ∉ g1)) := by
  unfold union
  congr 1
  apply List.filter_congr
  intro a _
  simp [rank_undefined_iff]

/-- **MPI_Group_intersection**: the elements of group1 that are also in group2, ordered as in group1 -/
theorem intersection_spec (g1 g2 : Group) : intersection g1 g2 = g1.filter (fun a => decide (a ∈ g2)) := by
  unfold intersection
  apply List.filter_congr
  intro a _
  simp [rank_undefined_iff]

/-- **MPI_Group_difference**: the elements of group1 that are not in group2, ordered as in group1 -/
theorem difference_spec (g1 g2 : Group) : difference g1 g2 = g1.filter (fun a => decide (a ∉ g2)) := by
  unfold difference
  apply List.filter_congr
  intro a _
  simp [rank_undefined_iff]

/-- regression of the defect fixed by 9d5c7e41e1 (DESIGN §9-D5): the result is ordered as the FIRST group; the old
loop (over group2) gave (2,1) -/
theorem intersection_order_witness :
    intersection [0, 1, 2] [2, 1, 3] = [1, 2] ∧ intersectionOld [0, 1, 2] [2, 1, 3] = [2, 1] := by decide

theorem inclRaw_spec (g : Group) (ranks : List Int) (hb : ∀ r ∈ ranks, 0 ≤ r ∧ r < g.length) :
    (inclRaw g ranks).length = ranks.length ∧ ∀ i (hi : i < ranks.length), (inclRaw g ranks)[i]? = g[(ranks[i]).toNat]? := by
  unfold inclRaw
  induction ranks with
  | nil => simp
  | cons r rest ih =>
    have hr := hb r (by simp)
    have ha : g.actor r = g[r.toNat]? := by unfold Group.actor; rw [if_pos hr]
    have hsome : ∃ a, g[r.toNat]? = some a := by
      have : r.toNat < g.length := by omega
      exact ⟨g[r.toNat], by simp [this]⟩
    obtain ⟨a, hga⟩ := hsome
    have ih' := ih (fun x hx => hb x (List.mem_cons_of_mem _ hx))
    rw [List.filterMap_cons, ha, hga]
    refine ⟨by simp [ih'.1], ?_⟩
    intro i hi
    cases i with
    | zero => simp [hga]
    | succ k => simpa using ih'.2 k (by simpa using hi)

theorem zipIdx_all (g : List Nat) (i : Nat) :
    List.map (fun x => x.fst) (List.filter (fun _ => true) (g.zipIdx i)) = g := by
  induction g generalizing i with
  | nil => rfl
  | cons a t ih => simp [List.zipIdx_cons, ih]

/-- `Group_incl` accepts exactly the lists of distinct in-range ranks (not longer than the group) … -/
theorem incl_accepts_iff (g : Group) (ranks : List Int) :
    (∃ out, incl g ranks = .ok out) ↔ (∀ r ∈ ranks, 0 ≤ r ∧ r < g.length) ∧ ranks.Nodup := by
  unfold incl checkRanks
  constructor
  · intro ⟨out, h⟩
    split at h
    · cases h
    · rename_i hc
      split at hc
      · cases hc
      · rename_i hn
        exact (checkRanksGo_none _ _).mp hn
  · intro h
    have hn := (checkRanksGo_none g.length ranks).mpr h
    have hlen : ¬ ranks.length > g.length := by
      -- distinct in-range ranks: at most `size` of them
      intro hgt
      have h1 : (ranks.take g.length).Nodup := List.Nodup.sublist (List.take_sublist _ _) h.2
      have h2 : ∀ x ∈ ranks.take g.length, 0 ≤ x ∧ x < g.length := fun x hx => h.1 x (List.mem_of_mem_take hx)
      have h3 : (ranks.take g.length).length = g.length := by rw [List.length_take]; omega
      have hall := pigeonInt g.length _ h1 h2 h3
      -- the element at position `size` is in range, hence already among the first `size`: a duplicate
      have hx : g.length < ranks.length := hgt
      have hmem : ranks[g.length] ∈ ranks := List.getElem_mem hx
      obtain ⟨b0, b1⟩ := h.1 _ hmem
      have hin := hall (ranks[g.length]).toNat (by omega)
      have e : ((ranks[g.length]).toNat : Int) = ranks[g.length] := by omega
      rw [e] at hin
      have hsplit : ranks = ranks.take g.length ++ ranks.drop g.length := (List.take_append_drop _ _).symm
      have hd : ranks[g.length] ∈ ranks.drop g.length := by
        rw [List.mem_iff_getElem]
        exact ⟨0, by simp; omega, by simp⟩
      have hnd := h.2
      rw [hsplit, List.nodup_append] at hnd
      exact hnd.2.2 _ hin _ hd rfl
    rw [hn]
    simp only [hlen, if_false]
    exact ⟨_, rfl⟩

/-- … rejects the others with MPI_ERR_RANK (MPI_ERR_ARG cannot occur: `n > size` implies a duplicate or an out-of-range rank) … -/
theorem incl_rejects (g : Group) (ranks : List Int) (h : ¬ ((∀ r ∈ ranks, 0 ≤ r ∧ r < g.length) ∧ ranks.Nodup)) :
    incl g ranks = .err .rank := by
  unfold incl checkRanks
  cases hc : checkRanksGo g.length ranks with
  | none => exact absurd ((checkRanksGo_none _ _).mp hc) h
  | some e => rw [checkRanksGo_some_rank _ _ _ hc]

/-- … and **the process with rank i in newgroup is the process with rank ranks[i] in group** -/
theorem incl_spec (g : Group) (ranks : List Int) (out : Group) (h : incl g ranks = .ok out) :
    out.length = ranks.length ∧ ∀ i (hi : i < ranks.length), out[i]? = g[(ranks[i]).toNat]? := by
  have hv := (incl_accepts_iff g ranks).mp ⟨out, h⟩
  unfold incl at h
  split at h
  · cases h
  · injection h with h
    subst h
    exact inclRaw_spec g ranks hv.1

/-- **MPI_Group_excl**: the processes whose rank is not listed, order preserved (all three branches of the PMPI wrapper) -/
theorem excl_spec (g : Group) (ranks : List Int) (out : Group) (h : excl g ranks = .ok out) :
    out = exclSpec g ranks := by
  unfold excl checkRanks at h
  cases hc : checkRanksGo g.length ranks with
  | some e => rw [hc] at h; cases h
  | none =>
    rw [hc] at h
    obtain ⟨hb, hnd⟩ := (checkRanksGo_none _ _).mp hc
    simp only at h
    split at h
    · cases h
    · split at h
      · rename_i h0
        injection h with h; subst h
        have : ranks = [] := List.eq_nil_of_length_eq_zero h0
        subst this
        unfold exclSpec
        simp only [List.contains_nil, Bool.not_false]
        exact (zipIdx_all g 0).symm
      · split at h
        · rename_i hall
          injection h with h; subst h
          -- every rank of the group is listed (pigeonhole), so nothing is left
          have hin := pigeonInt g.length ranks hnd hb hall
          unfold exclSpec
          symm
          rw [List.map_eq_nil_iff, List.filter_eq_nil_iff]
          intro p hp
          have hlt : p.2 < g.length := by
            have := List.mem_zipIdx hp
            omega
          simp [hin p.2 hlt]
        · injection h with h; subst h
          exact exclGo_spec ranks 0 g

theorem excl_rejects (g : Group) (ranks : List Int) (h : ¬ ((∀ r ∈ ranks, 0 ≤ r ∧ r < g.length) ∧ ranks.Nodup)) :
    excl g ranks = .err .rank := by
  unfold excl checkRanks
  cases hc : checkRanksGo g.length ranks with
  | none => exact absurd ((checkRanksGo_none _ _).mp hc) h
  | some e => rw [checkRanksGo_some_rank _ _ _ hc]

/-- the fuel given to the range loop (`size`) always suffices: the terms are distinct ranks of the group -/
theorem range_fuel_enough (size : Nat) (first stride : Int) (hs : stride ≠ 0) (n : Nat)
    (hin : ∀ k : Nat, k < n → (0 ≤ first + k * stride ∧ first + k * stride < size)) (h0 : 0 ≤ first ∧ first < size) :
    n ≤ size := by
  cases n with
  | zero => omega
  | succ m =>
    have hm := hin m (by omega)
    rcases Int.lt_or_gt_of_ne hs with hneg | hpos
    · have : (m : Int) * stride ≤ (m : Int) * (-1) := Int.mul_le_mul_of_nonneg_left (by omega) (by omega)
      omega
    · have : (m : Int) * 1 ≤ (m : Int) * stride := Int.mul_le_mul_of_nonneg_left (by omega) (by omega)
      omega

/-- **ranges**: the loop of `range_incl` / `range_excl` run with fuel `size` yields `first, first+stride, …` for as long as
the term lies between `first` and `last` (MPI: `first + k·stride`, `k = 0 … ⌊(last−first)/stride⌋`), for positive AND negative
strides -/
theorem range_loop_spec (size : Nat) (first last stride : Int) (hs : stride ≠ 0) (h0 : 0 ≤ first ∧ first < size) (n : Nat)
    (hin : ∀ k : Nat, k < n → (0 ≤ first + k * stride ∧ first + k * stride < size ∧
        isRankInRange (first + k * stride) first last = true))
    (hout : ¬ (0 ≤ first + n * stride ∧ first + n * stride < size ∧ isRankInRange (first + n * stride) first last = true)) :
    rangeLoop size first last stride size first = progression first stride n :=
  rangeLoop_spec size first last stride n size first
    (range_fuel_enough size first stride hs n (fun k hk => ⟨(hin k hk).1, (hin k hk).2.1⟩) h0) hin hout

/-- closed form for an increasing range (`first ≤ last`, `stride > 0`, both inside the group): exactly the
`(last − first) / stride + 1` terms of MPI's formula -/
theorem range_loop_closed_form_pos (size : Nat) (first last stride : Int) (hs : 0 < stride) (hf : 0 ≤ first) (hfl : first ≤ last)
    (hl : last < size) :
    rangeLoop size first last stride size first = progression first stride (((last - first) / stride).toNat + 1) := by
  have hq0 : 0 ≤ (last - first) / stride := Int.ediv_nonneg (by omega) (by omega)
  have hq1 : stride * ((last - first) / stride) ≤ last - first := Int.mul_ediv_self_le (by omega)
  have hq2 : last - first < stride * ((last - first) / stride) + stride := Int.lt_mul_ediv_self_add hs
  apply range_loop_spec size first last stride (by omega) ⟨hf, by omega⟩
  · intro k hk
    have hk' : (k : Int) ≤ (last - first) / stride := by omega
    have h1 : (k : Int) * stride ≤ ((last - first) / stride) * stride := Int.mul_le_mul_of_nonneg_right hk' (by omega)
    have h2 : 0 ≤ (k : Int) * stride := Int.mul_nonneg (by omega) (by omega)
    rw [Int.mul_comm ((last - first) / stride)] at h1
    refine ⟨by omega, by omega, ?_⟩
    simp only [isRankInRange, Bool.or_eq_true, Bool.and_eq_true, decide_eq_true_eq]
    left; omega
  · intro ⟨_, _, h3⟩
    simp only [isRankInRange, Bool.or_eq_true, Bool.and_eq_true, decide_eq_true_eq] at h3
    have e : (((((last - first) / stride).toNat + 1 : Nat)) : Int) = (last - first) / stride + 1 := by omega
    rw [e, Int.add_mul, Int.mul_comm ((last - first) / stride)] at h3
    rcases h3 with h3 | h3 <;> omega

/-- `range_incl` = `incl` of the concatenated range terms (so `incl_spec`'s reading applies); `n == 0` gives the empty group -/
theorem range_incl_spec (g : Group) (ranges : List Range) (out : Group) (h : rangeIncl g ranges = .ok out) :
    out = inclRaw g (rangeRanks g ranges) ∧ (ranges = [] → out = []) := by
  unfold rangeIncl at h
  split at h
  · cases h
  · injection h with h; subst h
    refine ⟨rfl, ?_⟩
    intro e; subst e; rfl

/-- `range_excl` = the members whose rank is not a range term, order preserved -/
theorem range_excl_spec (g : Group) (ranges : List Range) (out : Group) (h : rangeExcl g ranges = .ok out) :
    out = exclSpec g (rangeRanks g ranges) := by
  unfold rangeExcl at h
  split at h
  · cases h
  · split at h
    · rename_i h0
      injection h with h; subst h
      have : ranges = [] := List.eq_nil_of_length_eq_zero h0
      subst this
      unfold exclSpec rangeRanks
      simp only [List.flatMap_nil, List.contains_nil, Bool.not_false]
      exact (zipIdx_all g 0).symm
    · injection h with h; subst h
      exact exclGo_spec _ 0 g

/-- **MPI_Group_translate_ranks**: rank in group2 of the process with rank ranks[i] in group1, MPI_UNDEFINED when it is
not a member, MPI_PROC_NULL kept; an invalid rank gives MPI_ERR_RANK -/
def translateSpec (g1 : Group) (g2 : Group) (r : Int) : Int :=
  if r = PROC_NULL then PROC_NULL else
  match g1[r.toNat]? with
  | some a => if a ∈ g2 then ((g2.idxOf a : Nat) : Int) else UNDEFINED
  | none => UNDEFINED

theorem translate_spec (g1 g2 : Group) (ranks : List Int) (vs : List Int) (h : translate g1 ranks g2 = .ok vs) :
    vs = ranks.map (translateSpec g1 g2) ∧ ∀ r ∈ ranks, r = PROC_NULL ∨ (0 ≤ r ∧ r < g1.length) := by
  induction ranks generalizing vs with
  | nil => simp [translate] at h; simp [h]
  | cons r rest ih =>
    rw [translate] at h
    split at h
    · cases h
    · rename_i hr
      cases ht : translate g1 rest g2 with
      | err e => rw [ht] at h; cases h
      | ok ws =>
        rw [ht] at h
        injection h with h
        obtain ⟨e1, e2⟩ := ih ws ht
        have hr' : r = PROC_NULL ∨ (0 ≤ r ∧ r < g1.length) := by
          by_cases e : r = PROC_NULL
          · exact Or.inl e
          · right; apply Classical.byContradiction; intro hc; exact hr ⟨e, by omega⟩
        refine ⟨?_, fun x hx => by
          rcases List.mem_cons.mp hx with e | e
          · subst e; exact hr'
          · exact e2 x e⟩
        rw [← h, e1, List.map_cons]
        congr 1
        unfold translateSpec
        by_cases e : r = PROC_NULL
        · simp [e]
        · have hin : 0 ≤ r ∧ r < g1.length := by
            rcases hr' with h' | h'
            · exact absurd h' e
            · exact h'
          rw [if_neg e, if_neg e]
          unfold Group.actor
          rw [if_pos hin]
          cases g1[r.toNat]? with
          | none => rfl
          | some a => simp only; exact rank_eq_idxOf g2 a

theorem translate_rejects (g1 g2 : Group) (pre : List Int) (r : Int) (post : List Int)
    (hpre : ∀ x ∈ pre, x = PROC_NULL ∨ (0 ≤ x ∧ x < g1.length)) (hr : r ≠ PROC_NULL ∧ (r < 0 ∨ r ≥ g1.length)) :
    translate g1 (pre ++ r :: post) g2 = .err .rank := by
  induction pre with
  | nil => simp only [List.nil_append]; rw [translate, if_pos hr]
  | cons x xs ih =>
    have hx := hpre x (by simp)
    simp only [List.cons_append]
    rw [translate, if_neg (by omega), ih (fun y hy => hpre y (List.mem_cons_of_mem _ hy))]

/-! ### compare -/

theorem compareGo_unequal (g2 : Group) (res : Cmp) (i : Nat) (l : List Nat) (h : ∃ a ∈ l, a ∉ g2) :
    compareGo g2 res i l = .unequal := by
  induction l generalizing res i with
  | nil => obtain ⟨a, ha, _⟩ := h; simp at ha
  | cons x xs ih =>
    rw [compareGo]
    by_cases hx : x ∈ g2
    · rw [if_neg (by rw [rank_undefined_iff]; simpa using hx)]
      apply ih
      obtain ⟨a, ha, hn⟩ := h
      rcases List.mem_cons.mp ha with e | e
      · subst e; exact absurd hx hn
      · exact ⟨a, e, hn⟩
    · rw [if_pos ((rank_undefined_iff g2 x).mpr hx)]

theorem compareGo_members (g2 : Group) (res : Cmp) (i : Nat) (l : List Nat) (h : ∀ a ∈ l, a ∈ g2) (hres : res ≠ .unequal) :
    compareGo g2 res i l ≠ .unequal ∧
    (compareGo g2 res i l = .ident ↔ res = .ident ∧ ∀ k (hk : k < l.length), g2.rank l[k] = ((i + k : Nat) : Int)) := by
  induction l generalizing res i with
  | nil => simp [compareGo, hres]
  | cons x xs ih =>
    rw [compareGo]
    have hx : x ∈ g2 := h x (by simp)
    rw [if_neg (by rw [rank_undefined_iff]; simpa using hx)]
    have hxs : ∀ a ∈ xs, a ∈ g2 := fun a ha => h a (List.mem_cons_of_mem _ ha)
    by_cases hr : g2.rank x = (i : Int)
    · simp only [hr, ne_eq, not_true_eq_false, if_false]
      obtain ⟨a, b⟩ := ih res (i + 1) hxs hres
      refine ⟨a, ?_⟩
      rw [b]
      constructor
      · intro ⟨e, hk⟩
        refine ⟨e, ?_⟩
        intro k hk'
        cases k with
        | zero => simpa using hr
        | succ m =>
          have := hk m (by simpa using hk')
          simp only [List.getElem_cons_succ]
          rw [this]; congr 1; omega
      · intro ⟨e, hk⟩
        refine ⟨e, ?_⟩
        intro k hk'
        have := hk (k + 1) (by simpa using hk')
        simp only [List.getElem_cons_succ] at this
        rw [this]; congr 1; omega
    · simp only [ne_eq, hr, not_false_eq_true, if_true]
      obtain ⟨a, b⟩ := ih .similar (i + 1) hxs (by decide)
      refine ⟨a, ?_⟩
      rw [b]
      constructor
      · intro ⟨e, _⟩; cases e
      · intro ⟨_, hk⟩
        have h0 := hk 0 (by simp)
        simp only [List.getElem_cons_zero, Nat.add_zero] at h0
        exact absurd h0 hr

/-- **MPI_Group_compare** = MPI_UNEQUAL iff the sizes differ or some member of group1 is not in group2 -/
theorem compare_unequal_iff (g1 g2 : Group) :
    compare g1 g2 = .unequal ↔ g1.length ≠ g2.length ∨ ∃ a ∈ g1, a ∉ g2 := by
  unfold compare
  by_cases hl : g1.length ≠ g2.length
  · simp [hl]
  · rw [if_neg hl]
    by_cases hm : ∃ a ∈ g1, a ∉ g2
    · simp [compareGo_unequal g2 .ident 0 g1 hm, hm]
    · have hall : ∀ a ∈ g1, a ∈ g2 := by
        intro a ha; apply Classical.byContradiction; intro hc; exact hm ⟨a, ha, hc⟩
      have := (compareGo_members g2 .ident 0 g1 hall (by decide)).1
      simp [this, hm, hl]

/-- **MPI_IDENT iff same members in the same order** (group2 without duplicates, which every group the library builds
from valid arguments satisfies) -/
theorem compare_ident_iff (g1 g2 : Group) (hnd : g2.Nodup) : compare g1 g2 = .ident ↔ g1 = g2 := by
  constructor
  · intro h
    unfold compare at h
    split at h
    · cases h
    · rename_i hl
      have hl' : g1.length = g2.length := by omega
      have hall : ∀ a ∈ g1, a ∈ g2 := by
        intro a ha; apply Classical.byContradiction; intro hc
        rw [compareGo_unequal g2 .ident 0 g1 ⟨a, ha, hc⟩] at h; cases h
      have hk := ((compareGo_members g2 .ident 0 g1 hall (by decide)).2.mp h).2
      apply List.ext_getElem hl'
      intro k h1 h2
      have := hk k h1
      rw [rank_eq_idxOf, if_pos (hall _ (List.getElem_mem h1))] at this
      have hidx : g2.idxOf g1[k] = k := by omega
      have hlt : g2.idxOf g1[k] < g2.length := by rw [hidx]; exact h2
      have := List.getElem_idxOf hlt
      simp only [hidx] at this
      exact this.symm
  · intro e
    subst e
    unfold compare
    rw [if_neg (by simp)]
    apply (compareGo_members g1 .ident 0 g1 (fun a ha => ha) (by decide)).2.mpr
    refine ⟨rfl, ?_⟩
    intro k hk
    rw [rank_eq_idxOf, if_pos (List.getElem_mem hk)]
    simp only [Nat.zero_add]
    congr 1
    exact List.Nodup.idxOf_getElem hnd k hk

/-- hence MPI_SIMILAR iff same size, every member of group1 in group2, but not the same list -/
theorem compare_similar_iff (g1 g2 : Group) (hnd : g2.Nodup) :
    compare g1 g2 = .similar ↔ (g1.length = g2.length ∧ (∀ a ∈ g1, a ∈ g2)) ∧ g1 ≠ g2 := by
  have hu := compare_unequal_iff g1 g2
  have hi := compare_ident_iff g1 g2 hnd
  cases hc : compare g1 g2 with
  | ident =>
    have := hi.mp hc
    simp [this]
  | unequal =>
    have := hu.mp hc
    constructor
    · intro h; cases h
    · intro ⟨⟨a, b⟩, _⟩
      rcases this with h | ⟨x, hx, hn⟩
      · exact absurd a h
      · exact absurd (b x hx) hn
  | similar =>
    simp only [true_iff]
    have h1 : ¬ (g1.length ≠ g2.length ∨ ∃ a ∈ g1, a ∉ g2) := fun h => by rw [hu.mpr h] at hc; cases hc
    have h2 : g1 ≠ g2 := fun h => by rw [hi.mpr h] at hc; cases hc
    refine ⟨⟨?_, ?_⟩, h2⟩
    · apply Classical.byContradiction; intro h; exact h1 (Or.inl h)
    · intro a ha; apply Classical.byContradiction; intro h; exact h1 (Or.inr ⟨a, ha, h⟩)

/-! ### Comm_split -/

theorem lexLe_trans (a b c : Int × Nat) (h1 : lexLe a b = true) (h2 : lexLe b c = true) : lexLe a c = true := by
  simp only [lexLe, Bool.or_eq_true, decide_eq_true_eq, Bool.and_eq_true, beq_iff_eq] at *
  omega

theorem lexLe_total (a b : Int × Nat) : (lexLe a b || lexLe b a) = true := by
  simp only [lexLe, Bool.or_eq_true, decide_eq_true_eq, Bool.and_eq_true, beq_iff_eq]
  omega

def members (es : List Entry) (c : Int) : List (Int × Nat) := (es.filter (fun x => x.color = c)).map (fun x => (x.key, x.rank))

def erase (ec : Int) (x : Entry) : Entry := if x.color = ec then { x with color := UNDEFINED } else x

theorem members_erase (rest : List Entry) (ec c : Int) (hc : c ≠ UNDEFINED) (hne : c ≠ ec) :
    members (rest.map (erase ec)) c = members rest c := by
  unfold members
  induction rest with
  | nil => rfl
  | cons x xs ih =>
    rw [List.map_cons, List.filter_cons, List.filter_cons]
    by_cases hx : x.color = ec
    · have e1 : (erase ec x).color = UNDEFINED := by simp [erase, hx]
      have h1 : ¬ ((erase ec x).color = c) := by rw [e1]; exact fun e => hc e.symm
      have h2 : ¬ (x.color = c) := fun e => hne (by rw [← e, hx])
      simp only [h1, h2, decide_false, Bool.false_eq_true, if_false]
      exact ih
    · have e1 : erase ec x = x := by simp [erase, hx]
      rw [e1]
      by_cases hxc : x.color = c
      · simp only [hxc, decide_true, if_true, List.map_cons]
        rw [ih]
      · simp only [hxc, decide_false, Bool.false_eq_true, if_false]
        exact ih

theorem splitGo_cons (e : Entry) (rest : List Entry) :
    splitGo (e :: rest) =
      if e.color ≠ UNDEFINED then
        ((((rest.filter (fun x => x.color = e.color)).map (fun x => (x.key, x.rank))) ++ [(e.key, e.rank)]).mergeSort lexLe)
          :: splitGo (rest.map (erase e.color))
      else splitGo rest := by
  rw [splitGo]
  rfl

/-- **split_order**: every communicator `Comm::split` creates corresponds to one colour `c ≠ MPI_UNDEFINED` that some
process gave; its members are exactly (a permutation of) the processes that gave `c`, and they are ranked by key, ties
broken by the rank in the old communicator (`Pairwise lexLe`) -/
theorem split_order (es : List Entry) :
    ∀ g ∈ splitGo es, ∃ c, c ≠ UNDEFINED ∧ (∃ x ∈ es, x.color = c) ∧
      g.Pairwise (fun a b => lexLe a b = true) ∧ g.Perm (members es c) := by
  generalize hn : es.length = n
  induction n using Nat.strongRecOn generalizing es with
  | _ n ih =>
    cases es with
    | nil => intro g hg; simp [splitGo] at hg
    | cons e rest =>
      simp only [List.length_cons] at hn
      intro g hg
      rw [splitGo_cons] at hg
      by_cases hcol : e.color ≠ UNDEFINED
      · rw [if_pos hcol] at hg
        rcases List.mem_cons.mp hg with hg | hg
        · refine ⟨e.color, hcol, ⟨e, by simp, rfl⟩, ?_, ?_⟩
          · rw [hg]; exact List.pairwise_mergeSort lexLe_trans lexLe_total _
          · rw [hg]
            refine (List.mergeSort_perm _ _).trans ?_
            refine (List.perm_append_singleton _ _).trans ?_
            unfold members
            simp [List.filter_cons]
        · obtain ⟨c, hc, ⟨x, hx, hxc⟩, hp, hperm⟩ := ih rest.length (by omega) (rest.map (erase e.color)) (by simp) g hg
          obtain ⟨y, hy, hyx⟩ := List.mem_map.mp hx
          have hycol : ¬ (y.color = e.color) := by
            intro h
            rw [← hyx] at hxc
            simp [erase, h] at hxc
            exact hc hxc.symm
          have hyc : y.color = c := by
            rw [← hyx] at hxc
            simpa [erase, hycol] using hxc
          have hne : c ≠ e.color := fun e1 => hycol (by rw [hyc, e1])
          refine ⟨c, hc, ⟨y, List.mem_cons_of_mem _ hy, hyc⟩, hp, ?_⟩
          rw [members_erase rest e.color c hc hne] at hperm
          have hcons : members (e :: rest) c = members rest c := by
            unfold members
            have : ¬ (e.color = c) := fun h => hne h.symm
            simp [List.filter_cons, this]
          rw [hcons]; exact hperm
      · rw [if_neg hcol] at hg
        obtain ⟨c, hc, ⟨x, hx, hxc⟩, hp, hperm⟩ := ih rest.length (by omega) rest rfl g hg
        refine ⟨c, hc, ⟨x, List.mem_cons_of_mem _ hx, hxc⟩, hp, ?_⟩
        have hcons : members (e :: rest) c = members rest c := by
          unfold members
          have h1 : e.color = UNDEFINED := by simpa using hcol
          have : ¬ (e.color = c) := fun h => hc (by rw [← h, h1])
          simp [List.filter_cons, this]
        rw [hcons]; exact hperm

/-- every process that gave a colour other than MPI_UNDEFINED is in one of the created communicators -/
theorem split_covers (es : List Entry) (x : Entry) (hx : x ∈ es) (hc : x.color ≠ UNDEFINED) :
    ∃ g ∈ splitGo es, (x.key, x.rank) ∈ g := by
  generalize hn : es.length = n
  induction n using Nat.strongRecOn generalizing es x with
  | _ n ih =>
    cases es with
    | nil => simp at hx
    | cons e rest =>
      simp only [List.length_cons] at hn
      rw [splitGo_cons]
      by_cases hcol : e.color ≠ UNDEFINED
      · rw [if_pos hcol]
        by_cases hsame : x.color = e.color
        · refine ⟨_, List.mem_cons_self, ?_⟩
          rw [List.mem_mergeSort]
          rcases List.mem_cons.mp hx with h | h
          · subst h; simp
          · simp only [List.mem_append, List.mem_map, List.mem_singleton]
            left
            exact ⟨x, by simp [h, hsame], rfl⟩
        · have hx' : x ∈ rest := by
            rcases List.mem_cons.mp hx with h | h
            · subst h; exact absurd rfl hsame
            · exact h
          have hm : x ∈ rest.map (erase e.color) := by
            rw [List.mem_map]
            exact ⟨x, hx', by simp [erase, hsame]⟩
          obtain ⟨g, hg, hmem⟩ := ih rest.length (by omega) (rest.map (erase e.color)) x hm hc (by simp)
          exact ⟨g, List.mem_cons_of_mem _ hg, hmem⟩
      · rw [if_neg hcol]
        have hx' : x ∈ rest := by
          rcases List.mem_cons.mp hx with h | h
          · subst h; exact absurd hc hcol
          · exact h
        exact ih rest.length (by omega) rest x hx' hc rfl

/-! ### non-vacuity -/
example : union [3, 1, 4] [1, 5, 9, 4] = [3, 1, 4, 5, 9] := by decide
example : difference [3, 1, 4, 7] [1, 5, 9, 4] = [3, 7] := by decide
example : incl [10, 11, 12, 13] [3, 0, 2] = .ok [13, 10, 12] ∧ incl [10, 11] [0, 0] = .err .rank ∧
    incl [10, 11] [2] = .err .rank := by decide
example : excl [10, 11, 12, 13] [3, 0] = .ok [11, 12] ∧ excl [10, 11] [1, 0] = .ok [] := by decide
example : rangeIncl [10, 11, 12, 13, 14, 15] [⟨4, 0, -2⟩, ⟨1, 5, 2⟩] = .ok [14, 12, 10, 11, 13, 15] := by decide
example : rangeLoop 6 4 0 (-2) 6 4 = progression 4 (-2) 3 := by decide
example : rangeExcl [10, 11, 12, 13, 14, 15] [⟨4, 0, -2⟩] = .ok [11, 13, 15] := by decide
example : compare [1, 2, 3] [1, 2, 3] = .ident ∧ compare [1, 2, 3] [3, 1, 2] = .similar ∧
    compare [1, 2, 3] [1, 2, 4] = .unequal := by decide
example : translate [5, 6, 7] [2, -666, 0] [7, 5] = .ok [0, -666, 1] ∧ translate [5, 6, 7] [1] [7, 5] = .ok [-333] ∧
    translate [5, 6] [0, 2] [5] = .err .rank := by decide

end SgVerif.C32
