/-
C07 — history-level (ghost-instrumented) run of ONE barrier on top of the shared transliteration
(SgVerif/Sync/Model.lean: Bar.acquireAsync / waitFor / wasLast = BarrierImpl.cpp, composed as in s4u_Barrier.cpp).

Event: `wait a` = Barrier::wait() of actor a on the path of normal runs (acquire_async + wait_for + was_last in one
simcall).  Ghost fields: arrivals (callers in arrival order), returned (actors whose wait returned, in the order the
kernel answers them), lasts (the Boolean each arrival will get as return value, in arrival order), groups (number of
times the barrier opened).  An actor blocked in the barrier cannot call again (`illFormed`).  No Mathlib.
-/
import SgVerif.Sync.Model
namespace SgVerif.C07
open SgVerif.Sync

structure St where
  b : Bar
  arrivals : List Aid := []
  returned : List Aid := []
  lasts : List Bool := []
  groups : Nat := 0

def St.init (n : Nat) : St := { b := { expected := n } }

def step (s : St) (a : Aid) : Except Err St :=
  if s.b.queue.any (fun q => q.issuer = a) then .error .illFormed
  else
    let r := s.b.acquireAsync a          -- (barrier, granted_, released acquisitions)
    let w := r.1.waitFor a r.2.1         -- (barrier, finished now?)
    .ok { b := w.1,
          arrivals := s.arrivals ++ [a],
          returned := s.returned ++ (r.2.2.filter (·.waited)).map (·.issuer) ++ (if w.2 then [a] else []),
          lasts := s.lasts ++ [w.1.wasLast],
          groups := if r.2.1 then s.groups + 1 else s.groups }

def run (s : St) : List Aid → Except Err St
  | [] => .ok s
  | a :: as =>
    match step s a with
    | .error e => .error e
    | .ok s1 => run s1 as

end SgVerif.C07
