/-
C07 — history-level (ghost-instrumented) run of ONE barrier on the SPLIT path used under the model checker:
`Barrier::wait` = BARRIER_ASYNC_LOCK (`acquire_async`; `was_last()` is read inside that simcall) then BARRIER_WAIT
(`wait_for`; the value read before is returned), as two separate kernel events with arbitrary events of other actors
in between.  Same transliteration as the one-simcall run: `Bar.acquireAsync / waitFor / wasLast`, `grantUnwaitedB`
(Sync/Model.lean); the state carries the three things `World.step (.barAsync ..)` / `(.barWaitMC ..)` read and write:
the barrier, `hgrant` (`granted_` of the acquisition an actor holds) and `hlast` (its `was_last` local) — see
`split_step_is_world_step` (C07/Props.lean).

The checker executes a BARRIER_WAIT only when enabled (granted); here it may also be executed while not granted: it then
registers (phase 2) and is answered by the BARRIER_ASYNC_LOCK that completes the group, as in a normal run.
Ghosts: `phase a` = 0 outside the barrier, 1 = holds an acquisition (BARRIER_ASYNC_LOCK done, BARRIER_WAIT not executed),
2 = blocked in BARRIER_WAIT; `arrF` = (actor, `was_last()` read in its BARRIER_ASYNC_LOCK) in arrival order; `retF` =
(actor, value returned by its wait) in the order the kernel answers; `groups` = number of times the barrier opened;
`pendT` = the actors whose BARRIER_ASYNC_LOCK completed a group and that have not executed their BARRIER_WAIT yet.
An actor inside the barrier cannot arrive again; a BARRIER_WAIT needs an acquisition not yet waited (`illFormed`).
No Mathlib.
-/
import SgVerif.Sync.Model
namespace SgVerif.C07
open SgVerif.Sync

inductive BEv where
  | async (a : Aid)
  | wait (a : Aid)
  deriving Repr, DecidableEq

structure SSt where
  b : Bar
  hgrant : Aid → Bool
  hlast : Aid → Bool
  phase : Aid → Nat
  arrF : List (Aid × Bool) := []
  retF : List (Aid × Bool) := []
  groups : Nat := 0
  pendT : List Aid := []     -- ghost: the actors that completed a group and have not executed their BARRIER_WAIT yet

def SSt.init (n : Nat) : SSt :=
  { b := { expected := n }, hgrant := fun _ => false, hlast := fun _ => false, phase := fun _ => 0 }

/-- the registered waiters among the released acquisitions: they are answered (with `false`) by the BARRIER_ASYNC_LOCK
that completes the group -/
def woken (released : List BAcq) : List Aid := (released.filter (·.waited)).map (·.issuer)

def sstep (s : SSt) : BEv → Except Err SSt
  | .async a =>
    if s.phase a ≠ 0 then .error .illFormed
    else
      let r := s.b.acquireAsync a
      .ok { b := r.1,
            hgrant := upd (grantUnwaitedB s.hgrant r.2.2) a r.2.1,
            hlast := upd s.hlast a r.1.wasLast,
            phase := fun x => if x = a then 1 else if (woken r.2.2).contains x then 0 else s.phase x,
            arrF := s.arrF ++ [(a, r.1.wasLast)],
            retF := s.retF ++ (woken r.2.2).map (fun x => (x, false)),
            groups := if r.2.1 then s.groups + 1 else s.groups,
            pendT := if r.2.1 then s.pendT ++ [a] else s.pendT }
  | .wait a =>
    if s.phase a ≠ 1 then .error .illFormed
    else
      let r := s.b.waitFor a (s.hgrant a)
      .ok (if r.2 then { s with b := r.1, phase := upd s.phase a 0, retF := s.retF ++ [(a, s.hlast a)],
                                pendT := s.pendT.erase a }
           else { s with b := r.1, phase := upd s.phase a 2 })

def srun (s : SSt) : List BEv → Except Err SSt
  | [] => .ok s
  | e :: es =>
    match sstep s e with
    | .error err => .error err
    | .ok s1 => srun s1 es

end SgVerif.C07
