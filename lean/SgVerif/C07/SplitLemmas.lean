/-
C07 — the invariant of the split-path history run (C07/Split.lean).  Core only.
-/
import SgVerif.C07.Split
import SgVerif.C07.Lemmas
namespace SgVerif.C07
open SgVerif.Sync

/-! ### list helpers -/

theorem grantUnwaitedB_apply : ∀ (l : List BAcq) (h : Aid → Bool) (x : Aid),
    grantUnwaitedB h l x = (h x || l.any (fun q => decide (q.issuer = x) && !q.waited))
  | [], h, x => by simp [grantUnwaitedB]
  | y :: ys, h, x => by
    simp only [grantUnwaitedB, List.any_cons]
    rw [grantUnwaitedB_apply ys]
    cases hw : y.waited
    · by_cases e : y.issuer = x
      · simp [upd, e]
      · have e' : x ≠ y.issuer := fun h => e h.symm
        simp [upd, e, e']
    · simp

theorem markB_nodup (a : Aid) : ∀ (q : List BAcq), (q.map (·.issuer)).Nodup →
    markB a q = q.map (fun x => if x.issuer = a then { x with waited := true } else x)
  | [], _ => rfl
  | x :: xs, hnd => by
    simp only [List.map_cons, List.nodup_cons] at hnd
    simp only [markB, List.map_cons]
    by_cases hx : x.issuer = a
    · have hno : ∀ y ∈ xs, y.issuer ≠ a := by
        intro y hy e
        exact hnd.1 (by rw [hx, ← e]; exact List.mem_map_of_mem hy)
      have hmap : xs.map (fun x => if x.issuer = a then { x with waited := true } else x) = xs := by
        have : ∀ y ∈ xs, (fun x : BAcq => if x.issuer = a then { x with waited := true } else x) y = id y := by
          intro y hy; simp [hno y hy]
        rw [List.map_congr_left this, List.map_id]
      simp [hx, hmap]
    · simp [hx, markB_nodup a xs hnd.2]

/-- in a queue with distinct issuers, the number of (x, v) among the (issuer, false) pairs of the acquisitions selected
by `f` is 1 if v = false and x has a selected acquisition, else 0 -/
theorem count_keyed (f : BAcq → Bool) : ∀ (l : List BAcq), (l.map (·.issuer)).Nodup → ∀ (x : Aid) (v : Bool),
    ((l.filter f).map (fun q => (q.issuer, false))).count (x, v) =
      if (!v && l.any (fun q => decide (q.issuer = x) && f q)) = true then 1 else 0
  | [], _, x, v => by simp
  | y :: ys, hnd, x, v => by
    simp only [List.map_cons, List.nodup_cons] at hnd
    have ih := count_keyed f ys hnd.2 x v
    by_cases hyx : y.issuer = x
    · have hys : ys.any (fun q => decide (q.issuer = x) && f q) = false := by
        apply List.any_eq_false.mpr
        intro q hq
        have : q.issuer ≠ x := fun e => hnd.1 (by rw [hyx, ← e]; exact List.mem_map_of_mem hq)
        simp [this]
      rw [hys] at ih
      simp only [Bool.and_false, Bool.false_eq_true, if_false] at ih
      cases hf : f y
      · simp [List.filter_cons, hf, ih, hys, hyx]
      · cases v <;> simp [List.filter_cons, hf, ih, hys, hyx, List.count_cons]
    · cases hf : f y
      · simp [List.filter_cons, hf, ih, hyx]
      · simp [List.filter_cons, hf, ih, hyx, List.count_cons]

theorem woken_contains_eq (l : List BAcq) (x : Aid) :
    (woken l).contains x = l.any (fun q => decide (q.issuer = x) && q.waited) := by
  apply Bool.eq_iff_iff.mpr
  simp only [woken, List.contains_iff_mem, List.mem_map, List.mem_filter, List.any_eq_true, Bool.and_eq_true,
    decide_eq_true_eq]
  constructor
  · rintro ⟨q, ⟨hq, hw⟩, e⟩; exact ⟨q, hq, e, hw⟩
  · rintro ⟨q, hq, e, hw⟩; exact ⟨q, ⟨hq, hw⟩, e⟩

theorem any_split (l : List BAcq) (x : Aid) :
    l.any (fun q => decide (q.issuer = x) && true) =
      (l.any (fun q => decide (q.issuer = x) && q.waited) || l.any (fun q => decide (q.issuer = x) && !q.waited)) := by
  induction l with
  | nil => rfl
  | cons y ys ih =>
    simp only [List.any_cons, ih]
    cases y.waited <;> cases decide (y.issuer = x) <;> simp [Bool.or_comm, Bool.or_assoc, Bool.or_left_comm]

theorem any_mem {l : List BAcq} {x : Aid} {f : BAcq → Bool}
    (h : l.any (fun q => decide (q.issuer = x) && f q) = true) : ∃ q ∈ l, q.issuer = x ∧ f q = true := by
  obtain ⟨q, hq, hp⟩ := List.any_eq_true.mp h
  simp only [Bool.and_eq_true, decide_eq_true_eq] at hp
  exact ⟨q, hq, hp.1, hp.2⟩

theorem woken_map (l : List BAcq) :
    (woken l).map (fun x => (x, false)) = (l.filter (·.waited)).map (fun q => (q.issuer, false)) := by
  simp [woken, List.map_map, Function.comp_def]

/-- the counting step of the invariant when a group completes, for an actor other than the last arriver: A1/A0 = it has a
registered / unregistered acquisition in the queue, p g l = its phase, `granted_`, `was_last` local -/
theorem cnt_core (A1 A0 v g l : Bool) (p : Nat) (h1 : A1 = true → p = 2)
    (h0 : A0 = true → p = 1 ∧ g = false ∧ l = false) :
    (if p = 1 ∧ g = true ∧ l = v then 1 else 0) + (if (!v && (A1 || A0)) = true then 1 else 0) =
      (if (!v && A1) = true then 1 else 0) +
        (if (if A1 = true then 0 else p) = 1 ∧ (g || A0) = true ∧ l = v then 1 else 0) := by
  cases A1 <;> cases A0 <;> simp at h1 h0
  · cases v <;> simp
  · obtain ⟨rfl, rfl, rfl⟩ := h0
    cases v <;> simp
  · subst h1
    cases v <;> simp
  · omega

/-! ### the invariant -/

/-- 1 iff x holds a granted acquisition on which it has not executed its BARRIER_WAIT yet, recorded flag v -/
def ind (s : SSt) (x : Aid) (v : Bool) : Nat :=
  if s.phase x = 1 ∧ s.hgrant x = true ∧ s.hlast x = v then 1 else 0

structure SInv (n : Nat) (s : SSt) : Prop where
  exp : s.b.expected = n
  small : s.b.queue.length < n
  len : s.arrF.length = n * s.groups + s.b.queue.length
  openF : s.arrF.drop (n * s.groups) = s.b.queue.map (fun q => (q.issuer, false))
  nd : (s.b.queue.map (·.issuer)).Nodup
  phq : ∀ q ∈ s.b.queue, (q.waited = true → s.phase q.issuer = 2) ∧
          (q.waited = false → s.phase q.issuer = 1 ∧ s.hgrant q.issuer = false ∧ s.hlast q.issuer = false)
  ph2 : ∀ a, s.phase a = 2 → a ∈ s.b.queue.map (·.issuer)
  ph1 : ∀ a, s.phase a = 1 → s.hgrant a = false → a ∈ s.b.queue.map (·.issuer)
  cnt : ∀ x v, (s.arrF.take (n * s.groups)).count (x, v) = s.retF.count (x, v) + ind s x v
  flags : (s.arrF.map (·.2)).count true = s.groups

theorem sinv_init (n : Nat) (h : 1 ≤ n) : SInv n (SSt.init n) := by
  constructor <;> simp [SSt.init, ind] <;> omega

theorem sinv_wait {n : Nat} {s s' : SSt} {a : Aid} (hi : SInv n s) (h : sstep s (.wait a) = .ok s') : SInv n s' := by
  simp only [sstep] at h
  split at h
  · simp at h
  · rename_i hph
    have hph : s.phase a = 1 := by simpa using hph
    simp only [Except.ok.injEq] at h
    obtain ⟨he, hs, hl, hop, hnd, hphq, hph2, hph1, hcnt, hfl⟩ := hi
    cases hg : s.hgrant a with
    | true =>
      have hw : s.b.waitFor a true = (s.b, true) := by simp [Bar.waitFor]
      rw [hg, hw] at h
      simp only [if_true] at h
      subst h
      have hnq : ∀ q ∈ s.b.queue, q.issuer ≠ a := by
        intro q hq e
        cases hwq : q.waited with
        | true => have := (hphq q hq).1 hwq; rw [e, hph] at this; cases this
        | false => have := ((hphq q hq).2 hwq).2.1; rw [e, hg] at this; cases this
      refine ⟨he, hs, hl, hop, hnd, ?_, ?_, ?_, ?_, hfl⟩
      · intro q hq
        simpa [upd, hnq q hq] using hphq q hq
      · intro x hx
        by_cases e : x = a
        · simp [upd, e] at hx
        · exact hph2 x (by simpa [upd, e] using hx)
      · intro x hx hgx
        by_cases e : x = a
        · simp [upd, e] at hx
        · exact hph1 x (by simpa [upd, e] using hx) hgx
      · intro x v
        have := hcnt x v
        simp only [List.count_append, List.count_singleton]
        by_cases e : x = a
        · subst e
          simp only [ind, hph, hg, true_and] at this
          simp only [ind, upd, if_true]
          by_cases hv : s.hlast x = v
          · simp [hv] at this ⊢; omega
          · have hv' : ¬ ((x, s.hlast x) == (x, v)) = true := by simpa using hv
            simp [hv] at this
            simp [hv']; omega
        · have hne : ¬ ((a, s.hlast a) == (x, v)) = true := by
            simp only [beq_iff_eq, Prod.mk.injEq, not_and]
            intro e'; exact absurd e'.symm e
          simp only [ind, upd, e, if_false] at this ⊢
          simp [hne]; omega
    | false =>
      have hw : s.b.waitFor a false = ({ s.b with queue := markB a s.b.queue }, false) := by simp [Bar.waitFor]
      rw [hg, hw] at h
      simp only [Bool.false_eq_true, if_false] at h
      subst h
      have hmem := hph1 a hph hg
      simp only [markB_nodup a s.b.queue hnd]
      have hmapi : (s.b.queue.map (fun x => if x.issuer = a then { x with waited := true } else x)).map (·.issuer)
          = s.b.queue.map (·.issuer) := by
        rw [List.map_map]
        apply List.map_congr_left
        intro x _
        simp only [Function.comp]
        split <;> rfl
      have hmapf : (s.b.queue.map (fun x => if x.issuer = a then { x with waited := true } else x)).map
          (fun q => (q.issuer, false)) = s.b.queue.map (fun q => (q.issuer, false)) := by
        rw [List.map_map]
        apply List.map_congr_left
        intro x _
        simp only [Function.comp]
        split <;> rfl
      refine ⟨he, by simpa using hs, by simpa using hl, ?_, ?_, ?_, ?_, ?_, ?_, hfl⟩
      · rw [hmapf]; exact hop
      · rw [hmapi]; exact hnd
      · intro q' hq'
        obtain ⟨q, hq, rfl⟩ := List.mem_map.mp hq'
        by_cases e : q.issuer = a
        · simp [e, upd]
        · simpa [e, upd] using hphq q hq
      · intro x hx
        rw [hmapi]
        by_cases e : x = a
        · rw [e]; exact hmem
        · exact hph2 x (by simpa [upd, e] using hx)
      · intro x hx hgx
        rw [hmapi]
        by_cases e : x = a
        · rw [e]; exact hmem
        · exact hph1 x (by simpa [upd, e] using hx) hgx
      · intro x v
        have := hcnt x v
        by_cases e : x = a
        · subst e
          simp only [ind, hph, hg] at this
          simp only [ind, upd, if_true]
          simpa using this
        · simpa [ind, upd, e] using this

theorem sinv_async {n : Nat} (h1 : 1 ≤ n) (h2 : n < 4294967296) {s s' : SSt} {a : Aid} (hi : SInv n s)
    (h : sstep s (.async a) = .ok s') : SInv n s' := by
  simp only [sstep] at h
  split at h
  · simp at h
  · rename_i hph
    have hph : s.phase a = 0 := by simpa using hph
    simp only [Except.ok.injEq] at h
    obtain ⟨he, hs, hl, hop, hnd, hphq, hph2, hph1, hcnt, hfl⟩ := hi
    have ht : s.b.threshold = n - 1 := by rw [threshold_eq s.b (by omega) (by omega), he]
    have hnq : ∀ q ∈ s.b.queue, q.issuer ≠ a := by
      intro q hq e
      cases hwq : q.waited with
      | true => have := (hphq q hq).1 hwq; rw [e, hph] at this; cases this
      | false => have := ((hphq q hq).2 hwq).1; rw [e, hph] at this; cases this
    have hle : n * s.groups ≤ s.arrF.length := by omega
    by_cases hlt : s.b.queue.length < s.b.threshold
    · have hacq : s.b.acquireAsync a = ({ s.b with queue := s.b.queue ++ [{ issuer := a }] }, false, []) := by
        simp [Bar.acquireAsync, hlt]
      rw [hacq] at h
      subst h
      simp only [woken, List.filter_nil, List.map_nil, List.contains_nil, Bool.false_eq_true, if_false,
        List.append_nil, grantUnwaitedB, Bar.wasLast]
      have hwl : (s.b.queue ++ [({ issuer := a } : BAcq)]).isEmpty = false := by simp
      simp only [hwl]
      refine ⟨he, by simp; omega, by simp; omega, ?_, ?_, ?_, ?_, ?_, ?_, ?_⟩
      · rw [List.drop_append_of_le_length hle, hop]; simp
      · simp only [List.map_append, List.map_cons, List.map_nil]
        rw [List.nodup_append]
        refine ⟨hnd, by simp, ?_⟩
        intro x hx y hy
        simp only [List.mem_singleton] at hy; subst hy
        obtain ⟨q, hq, rfl⟩ := List.mem_map.mp hx
        exact hnq q hq
      · intro q hq
        simp only [List.mem_append, List.mem_singleton] at hq
        rcases hq with hq | rfl
        · have hne := hnq q hq
          simpa [upd, hne] using hphq q hq
        · simp [upd]
      · intro x hx
        by_cases e : x = a
        · simp [e] at hx
        · have := hph2 x (by simpa [e] using hx)
          simp [this]
      · intro x hx hgx
        by_cases e : x = a
        · simp [e]
        · have := hph1 x (by simpa [e] using hx) (by simpa [upd, e] using hgx)
          simp [this]
      · intro x v
        rw [List.take_append_of_le_length hle]
        have := hcnt x v
        by_cases e : x = a
        · subst e
          simp only [ind, hph] at this
          simp [ind, upd]
          simpa using this
        · simpa [ind, upd, e] using this
      · simpa [List.count_append] using hfl
    · have hacq : s.b.acquireAsync a = ({ s.b with queue := [] }, true, s.b.queue) := by
        simp [Bar.acquireAsync, hlt]
      rw [hacq] at h
      subst h
      have hqlen : s.b.queue.length + 1 = n := by omega
      simp only [Bar.wasLast, List.isEmpty_nil, if_true]
      have hfull : (s.arrF ++ [(a, true)]).length = n * (s.groups + 1) := by
        simp only [List.length_append, List.length_cons, List.length_nil, Nat.mul_succ]
        omega
      have hP1 : ∀ x, s.b.queue.any (fun q => decide (q.issuer = x) && q.waited) = true → s.phase x = 2 := by
        intro x hx
        obtain ⟨q, hq, rfl, hw⟩ := any_mem hx
        exact (hphq q hq).1 hw
      have hP0 : ∀ x, s.b.queue.any (fun q => decide (q.issuer = x) && !q.waited) = true →
          s.phase x = 1 ∧ s.hgrant x = false ∧ s.hlast x = false := by
        intro x hx
        obtain ⟨q, hq, rfl, hw⟩ := any_mem hx
        exact (hphq q hq).2 (by simpa using hw)
      have hmemany : ∀ x, x ∈ s.b.queue.map (·.issuer) →
          (s.b.queue.any (fun q => decide (q.issuer = x) && q.waited) ||
            s.b.queue.any (fun q => decide (q.issuer = x) && !q.waited)) = true := by
        intro x hx
        obtain ⟨q, hq, rfl⟩ := List.mem_map.mp hx
        rw [← any_split]
        exact List.any_eq_true.mpr ⟨q, hq, by simp⟩
      refine ⟨he, ?_, ?_, ?_, by simp, by simp, ?_, ?_, ?_, ?_⟩
      · show 0 < n; omega
      · show (s.arrF ++ [(a, true)]).length = n * (s.groups + 1) + 0
        omega
      · show List.drop (n * (s.groups + 1)) (s.arrF ++ [(a, true)]) = []
        apply List.drop_eq_nil_of_le
        omega
      · intro x hx
        exfalso
        have hx' : (if x = a then 1 else if (woken s.b.queue).contains x = true then 0 else s.phase x) = 2 := hx
        by_cases e : x = a
        · rw [if_pos e] at hx'; omega
        · rw [if_neg e, woken_contains_eq] at hx'
          cases hA1 : s.b.queue.any (fun q => decide (q.issuer = x) && q.waited) with
          | true => rw [hA1, if_pos rfl] at hx'; omega
          | false =>
            rw [hA1] at hx'
            simp only [Bool.false_eq_true, if_false] at hx'
            have hm := hmemany x (hph2 x hx')
            rw [hA1, Bool.false_or] at hm
            have := (hP0 x hm).1
            omega
      · intro x hx hgx
        exfalso
        have hx' : (if x = a then 1 else if (woken s.b.queue).contains x = true then 0 else s.phase x) = 1 := hx
        have hgx' : upd (grantUnwaitedB s.hgrant s.b.queue) a true x = false := hgx
        by_cases e : x = a
        · simp [upd, e] at hgx'
        · rw [if_neg e, woken_contains_eq] at hx'
          simp only [upd, e, if_false, grantUnwaitedB_apply, Bool.or_eq_false_iff] at hgx'
          cases hA1 : s.b.queue.any (fun q => decide (q.issuer = x) && q.waited) with
          | true => rw [hA1, if_pos rfl] at hx'; omega
          | false =>
            rw [hA1] at hx'
            simp only [Bool.false_eq_true, if_false] at hx'
            have hm := hmemany x (hph1 x hx' hgx'.1)
            rw [hA1, Bool.false_or, hgx'.2] at hm
            cases hm
      · intro x v
        show List.count (x, v) (List.take (n * (s.groups + 1)) (s.arrF ++ [(a, true)])) =
          List.count (x, v) (s.retF ++ (woken s.b.queue).map (fun x => (x, false))) +
            (if (if x = a then 1 else if (woken s.b.queue).contains x = true then 0 else s.phase x) = 1 ∧
                upd (grantUnwaitedB s.hgrant s.b.queue) a true x = true ∧ upd s.hlast a true x = v then 1 else 0)
        rw [List.take_of_length_le (by omega)]
        have hsplit : s.arrF ++ [(a, true)] =
            s.arrF.take (n * s.groups) ++ (s.b.queue.map (fun q => (q.issuer, false)) ++ [(a, true)]) := by
          rw [← hop, ← List.append_assoc, List.take_append_drop]
        rw [hsplit, List.count_append, List.count_append, hcnt x v, List.count_append, woken_map]
        have hQ := count_keyed (fun _ => true) s.b.queue hnd x v
        rw [List.filter_eq_self.mpr (fun _ _ => rfl), any_split] at hQ
        have hW := count_keyed (·.waited) s.b.queue hnd x v
        rw [hQ, hW, List.count_singleton, woken_contains_eq]
        by_cases e : x = a
        · subst e
          have hA1 : s.b.queue.any (fun q => decide (q.issuer = x) && q.waited) = false := by
            apply List.any_eq_false.mpr
            intro q hq; simp [hnq q hq]
          have hA0 : s.b.queue.any (fun q => decide (q.issuer = x) && !q.waited) = false := by
            apply List.any_eq_false.mpr
            intro q hq; simp [hnq q hq]
          simp only [hA1, hA0, ind, hph, upd, if_true]
          cases v <;> simp
        · have hne : ¬ ((a, true) == (x, v)) = true := by
            simp only [beq_iff_eq, Prod.mk.injEq, not_and]
            intro e'; exact absurd e'.symm e
          simp only [hne, Bool.false_eq_true, if_false, ind, upd, e, grantUnwaitedB_apply]
          have := cnt_core _ _ v (s.hgrant x) (s.hlast x) (s.phase x) (hP1 x) (hP0 x)
          omega
      · show List.count true (List.map (fun x => x.2) (s.arrF ++ [(a, true)])) = s.groups + 1
        simp [List.count_append, hfl]

theorem sinv_step {n : Nat} (h1 : 1 ≤ n) (h2 : n < 4294967296) {s s' : SSt} {e : BEv} (hi : SInv n s)
    (h : sstep s e = .ok s') : SInv n s' := by
  cases e with
  | async a => exact sinv_async h1 h2 hi h
  | wait a => exact sinv_wait hi h

theorem sinv_run {n : Nat} (h1 : 1 ≤ n) (h2 : n < 4294967296) (es : List BEv) {s s' : SSt} (hi : SInv n s)
    (h : srun s es = .ok s') : SInv n s' := by
  induction es generalizing s with
  | nil => simp [srun] at h; subst h; exact hi
  | cons e es ih =>
    simp only [srun] at h
    split at h
    · simp at h
    · rename_i s1 he
      exact ih (sinv_step h1 h2 hi he) h

/-! ### the `true` values: one per complete group -/

structure TInv (s : SSt) : Prop where
  tcnt : (s.retF.map (·.2)).count true + s.pendT.length = s.groups
  pT : ∀ x, x ∈ s.pendT ↔ (s.phase x = 1 ∧ s.hgrant x = true ∧ s.hlast x = true)
  pnd : s.pendT.Nodup

theorem tinv_init (n : Nat) : TInv (SSt.init n) := by
  constructor <;> simp [SSt.init]

theorem tinv_wait {n : Nat} {s s' : SSt} {a : Aid} (hi : SInv n s) (ht : TInv s)
    (h : sstep s (.wait a) = .ok s') : TInv s' := by
  simp only [sstep] at h
  split at h
  · simp at h
  · rename_i hph
    have hph : s.phase a = 1 := by simpa using hph
    simp only [Except.ok.injEq] at h
    obtain ⟨htc, hpT, hpn⟩ := ht
    cases hg : s.hgrant a with
    | true =>
      have hw : s.b.waitFor a true = (s.b, true) := by simp [Bar.waitFor]
      rw [hg, hw] at h
      simp only [if_true] at h
      subst h
      have hmem : a ∈ s.pendT ↔ s.hlast a = true := by
        rw [hpT a]; simp [hph, hg]
      refine ⟨?_, ?_, hpn.erase a⟩
      · show ((s.retF ++ [(a, s.hlast a)]).map (·.2)).count true + (s.pendT.erase a).length = s.groups
        simp only [List.map_append, List.map_cons, List.map_nil, List.count_append, List.count_singleton]
        cases hl : s.hlast a with
        | true =>
          have hm : a ∈ s.pendT := hmem.mpr hl
          have := List.length_pos_of_mem hm
          rw [List.length_erase_of_mem hm]
          simp; omega
        | false =>
          have hm : a ∉ s.pendT := fun h => by rw [hmem.mp h] at hl; cases hl
          rw [List.erase_of_not_mem hm]
          simpa using htc
      · intro x
        show x ∈ s.pendT.erase a ↔ (upd s.phase a 0 x = 1 ∧ s.hgrant x = true ∧ s.hlast x = true)
        by_cases e : x = a
        · subst e
          rw [hpn.mem_erase_iff]
          simp [upd]
        · rw [List.mem_erase_of_ne e, hpT x]
          simp [upd, e]
    | false =>
      have hw : s.b.waitFor a false = ({ s.b with queue := markB a s.b.queue }, false) := by simp [Bar.waitFor]
      rw [hg, hw] at h
      simp only [Bool.false_eq_true, if_false] at h
      subst h
      refine ⟨htc, ?_, hpn⟩
      intro x
      show x ∈ s.pendT ↔ (upd s.phase a 2 x = 1 ∧ s.hgrant x = true ∧ s.hlast x = true)
      by_cases e : x = a
      · subst e
        rw [hpT x]
        simp [upd, hg]
      · rw [hpT x]
        simp [upd, e]

theorem tinv_async {n : Nat} (h1 : 1 ≤ n) (h2 : n < 4294967296) {s s' : SSt} {a : Aid} (hi : SInv n s)
    (ht : TInv s) (h : sstep s (.async a) = .ok s') : TInv s' := by
  simp only [sstep] at h
  split at h
  · simp at h
  · rename_i hph
    have hph : s.phase a = 0 := by simpa using hph
    simp only [Except.ok.injEq] at h
    obtain ⟨htc, hpT, hpn⟩ := ht
    have hphq := hi.phq
    have hna : a ∉ s.pendT := fun hm => by
      have := ((hpT a).mp hm).1
      rw [hph] at this; cases this
    by_cases hlt : s.b.queue.length < s.b.threshold
    · have hacq : s.b.acquireAsync a = ({ s.b with queue := s.b.queue ++ [{ issuer := a }] }, false, []) := by
        simp [Bar.acquireAsync, hlt]
      rw [hacq] at h
      subst h
      refine ⟨?_, ?_, hpn⟩
      · show ((s.retF ++ (woken []).map (fun x => (x, false))).map (·.2)).count true + s.pendT.length = s.groups
        simpa [woken] using htc
      · intro x
        show x ∈ s.pendT ↔
          ((if x = a then 1 else if (woken []).contains x = true then 0 else s.phase x) = 1 ∧
            upd (grantUnwaitedB s.hgrant []) a false x = true ∧ upd s.hlast a (Bar.wasLast
              { s.b with queue := s.b.queue ++ [{ issuer := a }] }) x = true)
        by_cases e : x = a
        · subst e
          simp [upd, hna]
        · rw [hpT x]
          simp [upd, e, woken, grantUnwaitedB]
    · have hacq : s.b.acquireAsync a = ({ s.b with queue := [] }, true, s.b.queue) := by
        simp [Bar.acquireAsync, hlt]
      rw [hacq] at h
      subst h
      have hP1 : ∀ x, s.b.queue.any (fun q => decide (q.issuer = x) && q.waited) = true → s.phase x = 2 := by
        intro x hx
        obtain ⟨q, hq, rfl, hw⟩ := any_mem hx
        exact (hphq q hq).1 hw
      have hP0 : ∀ x, s.b.queue.any (fun q => decide (q.issuer = x) && !q.waited) = true →
          s.phase x = 1 ∧ s.hgrant x = false ∧ s.hlast x = false := by
        intro x hx
        obtain ⟨q, hq, rfl, hw⟩ := any_mem hx
        exact (hphq q hq).2 (by simpa using hw)
      refine ⟨?_, ?_, ?_⟩
      · show ((s.retF ++ (woken s.b.queue).map (fun x => (x, false))).map (·.2)).count true +
            (s.pendT ++ [a]).length = s.groups + 1
        have : ((woken s.b.queue).map (fun x => (x, false))).map (·.2) = List.replicate (woken s.b.queue).length false := by
          simp [List.map_map, Function.comp_def, List.map_const']
        simp only [List.map_append, List.count_append, this, List.count_replicate, List.length_append,
          List.length_cons, List.length_nil]
        simp; omega
      · intro x
        show x ∈ s.pendT ++ [a] ↔
          ((if x = a then 1 else if (woken s.b.queue).contains x = true then 0 else s.phase x) = 1 ∧
            upd (grantUnwaitedB s.hgrant s.b.queue) a true x = true ∧
            upd s.hlast a (Bar.wasLast { s.b with queue := [] }) x = true)
        by_cases e : x = a
        · subst e
          simp [upd, Bar.wasLast]
        · simp only [List.mem_append, List.mem_singleton, e, or_false, if_false, upd, woken_contains_eq,
            grantUnwaitedB_apply]
          rw [hpT x]
          cases hA1 : s.b.queue.any (fun q => decide (q.issuer = x) && q.waited) with
          | true =>
            have := hP1 x hA1
            simp [this]
          | false =>
            cases hA0 : s.b.queue.any (fun q => decide (q.issuer = x) && !q.waited) with
            | true =>
              obtain ⟨p1, p2, p3⟩ := hP0 x hA0
              simp [p1, p2, p3]
            | false => simp
      · show (s.pendT ++ [a]).Nodup
        rw [List.nodup_append]
        refine ⟨hpn, by simp, ?_⟩
        intro x hx y hy
        simp only [List.mem_singleton] at hy; subst hy
        intro e; exact hna (e ▸ hx)

theorem tinv_run {n : Nat} (h1 : 1 ≤ n) (h2 : n < 4294967296) (es : List BEv) : ∀ {s s' : SSt}, SInv n s → TInv s →
    srun s es = .ok s' → TInv s' := by
  induction es with
  | nil => intro s s' _ ht h; simp [srun] at h; subst h; exact ht
  | cons e es ih =>
    intro s s' hi ht h
    simp only [srun] at h
    split at h
    · simp at h
    · rename_i s1 he
      have ht1 : TInv s1 := by
        cases e with
        | async a => exact tinv_async h1 h2 hi ht he
        | wait a => exact tinv_wait hi ht he
      exact ih (sinv_step h1 h2 hi he) ht1 h

end SgVerif.C07
