import SgVerif.C07.Model
namespace SgVerif.C07
open SgVerif.Sync

theorem threshold_eq (b : Bar) (h1 : 1 ≤ b.expected) (h2 : b.expected < 4294967296) : b.threshold = b.expected - 1 := by
  unfold Bar.threshold; omega

theorem markB_append (a : Aid) (q : List BAcq) (hq : ∀ x ∈ q, x.issuer ≠ a) :
    markB a (q ++ [{ issuer := a }]) = q ++ [{ issuer := a, waited := true }] := by
  induction q with
  | nil => simp [markB]
  | cons x xs ih =>
    have hx : x.issuer ≠ a := hq x (by simp)
    simp only [List.cons_append, markB, hx, if_false]
    rw [ih (fun y hy => hq y (by simp [hy]))]

structure Inv (n : Nat) (s : St) : Prop where
  exp : s.b.expected = n
  small : s.b.queue.length < n
  waited : ∀ q ∈ s.b.queue, q.waited = true
  split : s.arrivals = s.returned ++ s.b.queue.map (·.issuer)
  full : s.returned.length = n * s.groups
  flags : s.lasts.length = s.arrivals.length ∧ s.lasts.count true = s.groups

theorem inv_init (n : Nat) (h : 1 ≤ n) : Inv n (St.init n) := by
  constructor <;> simp [St.init] <;> omega

theorem inv_step {n : Nat} (h1 : 1 ≤ n) (h2 : n < 4294967296) {s s' : St} {a : Aid} (hi : Inv n s)
    (h : step s a = .ok s') : Inv n s' := by
  unfold step at h
  split at h
  · simp at h
  · rename_i hb
    have hb : ∀ x ∈ s.b.queue, x.issuer ≠ a := by
      intro x hx he
      apply hb
      simp only [List.any_eq_true, decide_eq_true_eq]
      exact ⟨x, hx, he⟩
    obtain ⟨he, hs, hw, hsp, hf, hfl⟩ := hi
    have ht : s.b.threshold = n - 1 := by rw [threshold_eq s.b (by omega) (by omega), he]
    simp only [Except.ok.injEq] at h
    by_cases hlt : s.b.queue.length < s.b.threshold
    · have hacq : s.b.acquireAsync a = ({ s.b with queue := s.b.queue ++ [{ issuer := a }] }, false, []) := by
        simp [Bar.acquireAsync, hlt]
      rw [hacq] at h
      simp only [Bar.waitFor, Bool.false_eq_true, if_false, markB_append a s.b.queue hb] at h
      subst h
      constructor
      · exact he
      · simp; omega
      · intro q hq; simp at hq; rcases hq with hq | rfl
        · exact hw q hq
        · rfl
      · simp [hsp]
      · simpa using hf
      · simp [Bar.wasLast, hfl.1, hfl.2, List.count_append]
    · have hacq : s.b.acquireAsync a = ({ s.b with queue := [] }, true, s.b.queue) := by
        simp [Bar.acquireAsync, hlt]
      rw [hacq] at h
      simp only [Bar.waitFor, if_true] at h
      subst h
      have hall : s.b.queue.filter (·.waited) = s.b.queue := List.filter_eq_self.mpr (fun q hq => hw q hq)
      have hlen : s.b.queue.length + 1 = n := by omega
      constructor
      · exact he
      · simp; omega
      · intro q hq; simp at hq
      · simp [hsp, hall]
      · simp only [hall, List.length_append, List.length_map, List.length_cons, List.length_nil, hf, Nat.mul_succ]
        omega
      · simp [Bar.wasLast, hfl.1, hfl.2, List.count_append]

theorem inv_run {n : Nat} (h1 : 1 ≤ n) (h2 : n < 4294967296) (as : List Aid) {s s' : St} (hi : Inv n s)
    (h : run s as = .ok s') : Inv n s' := by
  induction as generalizing s with
  | nil => simp [run] at h; subst h; exact hi
  | cons a as ih =>
    simp only [run] at h
    split at h
    · simp at h
    · rename_i s1 he
      exact ih (inv_step h1 h2 hi he) h

end SgVerif.C07
