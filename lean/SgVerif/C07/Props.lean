/-
C07 — Barrier semantics: complete groups of n in arrival order, no early return, exactly one "last" per group.

Model: SgVerif/Sync/Model.lean (`Bar.acquireAsync / waitFor / wasLast` = BarrierImpl.cpp; `expected_actors_ - 1` in
unsigned arithmetic) and the ghost-instrumented history run of C07/Model.lean (Barrier::wait on the one-simcall path).
All theorems: for every n with 1 ≤ n < 2^32 and EVERY history (any length, any actors, repeated use of the barrier).
n = 0 is outside the quantifier (expected_actors_ - 1 wraps to 2^32-1: nobody is ever released).
Split path of the model checker (BARRIER_ASYNC_LOCK + BARRIER_WAIT): since the repair of `barrier-last-flag-mc` the value
returned there is the `was_last()` read in the BARRIER_ASYNC_LOCK simcall; `split_path_same_answer` shows that it is the
value of the one-simcall path, so `exactly_one_last_per_group` speaks about both paths
(`mc_last_flag_counterexample` is kept as a regression statement about the old return value).
History-level theorems for the split path itself (BARRIER_ASYNC_LOCK and BARRIER_WAIT as separate events, any
interleaving, repeated use): `split_barrier_groups`, `split_groups_eq_div`, `split_no_early_return`,
`split_all_returned_when_quiescent`, `split_exactly_one_last_per_group`, `split_one_true_return_per_group`,
`split_wait_enabled_iff_granted` at the end of
the file, over the run of C07/Split.lean.
-/
import SgVerif.C07.Lemmas
import SgVerif.C07.SplitLemmas
namespace SgVerif.C07
open SgVerif.Sync

/-- Waiters are released only in complete groups of n, in arrival order: at every point of every history the
actors whose wait has returned are exactly the first n·g arrivals, in arrival order, where g is the number of complete
groups (n·g ≤ #arrivals < n·g + n, i.e. g = ⌊#arrivals / n⌋). -/
theorem barrier_groups (n : Nat) (h1 : 1 ≤ n) (h2 : n < 4294967296) (as : List Aid) (s : St)
    (h : run (St.init n) as = .ok s) :
    s.returned = s.arrivals.take (n * s.groups) ∧ n * s.groups ≤ s.arrivals.length ∧
      s.arrivals.length < n * s.groups + n := by
  have hi := inv_run h1 h2 as (inv_init n h1) h
  have hlen : s.arrivals.length = n * s.groups + s.b.queue.length := by
    rw [hi.split, List.length_append, hi.full, List.length_map]
  refine ⟨?_, by omega, ?_⟩
  · rw [hi.split, ← hi.full, List.take_left']
    rfl
  · have := hi.small; omega

/-- the number of complete groups is ⌊arrivals / n⌋ -/
theorem groups_eq_div (n : Nat) (h1 : 1 ≤ n) (h2 : n < 4294967296) (as : List Aid) (s : St)
    (h : run (St.init n) as = .ok s) : s.groups = s.arrivals.length / n := by
  obtain ⟨-, hlo, hhi⟩ := barrier_groups n h1 h2 as s h
  symm
  apply Nat.div_eq_of_lt_le
  · rw [Nat.mul_comm]; exact hlo
  · rw [Nat.succ_mul, Nat.mul_comm]; exact hhi

/-- No wait returns before n actors (including itself) have arrived in its group: the number of returned waits is
always n·⌊arrivals / n⌋ — never a partial group — and everybody still inside is registered (will be answered). -/
theorem no_early_return (n : Nat) (h1 : 1 ≤ n) (h2 : n < 4294967296) (as : List Aid) (s : St)
    (h : run (St.init n) as = .ok s) :
    s.returned.length = n * (s.arrivals.length / n) ∧ (∀ q ∈ s.b.queue, q.waited = true) ∧
      s.b.queue.length = s.arrivals.length % n := by
  have hi := inv_run h1 h2 as (inv_init n h1) h
  have hg := groups_eq_div n h1 h2 as s h
  have hlen : s.arrivals.length = n * s.groups + s.b.queue.length := by
    rw [hi.split, List.length_append, hi.full, List.length_map]
  refine ⟨by rw [hi.full, hg], hi.waited, ?_⟩
  have := Nat.div_add_mod s.arrivals.length n
  rw [← hg] at this
  omega

/-- Exactly one "last" (return value true) per complete group: among the return values handed to the arrivals so
far, the number of `true` equals the number of complete groups, and there is one value per arrival. -/
theorem exactly_one_last_per_group (n : Nat) (h1 : 1 ≤ n) (h2 : n < 4294967296) (as : List Aid) (s : St)
    (h : run (St.init n) as = .ok s) :
    s.lasts.length = s.arrivals.length ∧ s.lasts.count true = s.arrivals.length / n := by
  have hi := inv_run h1 h2 as (inv_init n h1) h
  exact ⟨hi.flags.1, by rw [hi.flags.2, groups_eq_div n h1 h2 as s h]⟩

/-- BARRIER_WAIT (split path) completes at once iff the acquisition is granted -/
theorem waitFor_completes_iff_granted (b : Bar) (a : Aid) (g : Bool) : (b.waitFor a g).2 = g := by
  unfold Bar.waitFor; cases g <;> simp

/-- acquire_async releases the whole queue or nothing (no partial group), for every state -/
theorem acquireAsync_all_or_nothing (b : Bar) (a : Aid) :
    ((b.acquireAsync a).2.2 = [] ∧ (b.acquireAsync a).1.queue = b.queue ++ [{ issuer := a }]) ∨
    ((b.acquireAsync a).2.2 = b.queue ∧ (b.acquireAsync a).1.queue = []) := by
  unfold Bar.acquireAsync; split <;> simp

/-! ### non-vacuity -/

example : ((run (St.init 2) [0, 1, 2, 3, 4]).toOption.map
    (fun s => (s.returned, s.groups, s.lasts, s.b.queue.map (·.issuer)))) =
    some ([0, 1, 2, 3], 2, [false, true, false, true, false], [4]) := by decide

example : ((run (St.init 1) [7, 7]).toOption.map (fun s => (s.returned, s.lasts))) = some ([7, 7], [true, true]) := by
  decide

/-- a blocked actor cannot arrive again -/
example : (run (St.init 3) [0, 0]).toOption.isNone = true := by decide

/-! ### the split path used under the model checker (BARRIER_ASYNC_LOCK + BARRIER_WAIT)

Defect `barrier-last-flag-mc` (repaired): s4u_Barrier.cpp set the result (`observer.set_result(was_last())`) only on the
one-simcall path and returned the never-set result of the BARRIER_WAIT observer (default `false`) on the split path, so
under simgrid-mc Barrier::wait() never returned true.  Now `was_last()` is read in the BARRIER_ASYNC_LOCK simcall and
returned after the BARRIER_WAIT. -/

/-- wait_for only marks the acquisition: it does not change what `was_last()` answers -/
theorem waitFor_preserves_wasLast (b : Bar) (a : Aid) (g : Bool) : (b.waitFor a g).1.wasLast = b.wasLast := by
  unfold Bar.waitFor Bar.wasLast
  cases g
  · simp only [Bool.false_eq_true, if_false]
    cases hq : b.queue with
    | nil => simp [markB]
    | cons x xs => simp only [markB]; split <;> simp
  · simp

/-- an acquisition that is queued (not granted) is never the last of its group: the `was_last` local of a waiter that
is released later by somebody else's BARRIER_ASYNC_LOCK is `false` (what `World.step (.barAsync ..)` answers for it) -/
theorem acquireAsync_queued_not_last (b : Bar) (a : Aid) (h : (b.acquireAsync a).2.1 = false) :
    (b.acquireAsync a).1.wasLast = false := by
  by_cases hc : b.queue.length < b.threshold
  · simp [Bar.acquireAsync, hc, Bar.wasLast]
  · simp [Bar.acquireAsync, hc] at h

/-- an acquisition that is granted at once completed its group: `was_last` is true -/
theorem acquireAsync_granted_is_last (b : Bar) (a : Aid) (h : (b.acquireAsync a).2.1 = true) :
    (b.acquireAsync a).1.wasLast = true := by
  by_cases hc : b.queue.length < b.threshold
  · simp [Bar.acquireAsync, hc] at h
  · simp [Bar.acquireAsync, hc, Bar.wasLast]

theorem step_barAsync (w : World) (a : Aid) (b : Nat) : w.step (.barAsync a b) = .ok (barAsyncStep w a b) := rfl
theorem step_barWaitMC (w : World) (a : Aid) (b : Nat) : w.step (.barWaitMC a b) = .ok (barWaitMCStep w a b) := rfl

/-- the two steps of the split path, for an arbitrary result `r` of acquire_async -/
theorem split_path_R (w : World) (a : Aid) (b : Nat) (r : Bar × Bool × List BAcq) :
    (barAsyncStepR w a b r).2 = (r.2.2.filter (·.waited)).map (fun q => (q.issuer, Res.flag false)) ++ [(a, .unit)] ∧
    (barWaitMCStep (barAsyncStepR w a b r).1 a b).2 =
      (if (r.1.waitFor a r.2.1).2 then [(a, Res.flag (r.1.waitFor a r.2.1).1.wasLast)] else []) ∧
    (barWaitMCStep (barAsyncStepR w a b r).1 a b).1.bars b = (r.1.waitFor a r.2.1).1 := by
  obtain ⟨b1, g, rel⟩ := r
  refine ⟨rfl, ?_, ?_⟩
  · simp only [barWaitMCStep, barAsyncStepR, upd, if_true, waitFor_completes_iff_granted, waitFor_preserves_wasLast]
  · simp only [barWaitMCStep, barAsyncStepR, upd, if_true]

/-- **The split path hands out the value of the one-simcall path**: in every world, for every actor and barrier, the
BARRIER_ASYNC_LOCK releases the waiters of the completed group (`false` for each) and the BARRIER_WAIT that follows
answers the caller iff the acquisition was granted at once, with the Boolean `was_last()` evaluated after
`acquire_async` + `wait_for` — the very expression that `World.step (.barWait ..)` answers and that the history run
`C07.step` records in `lasts` (so `exactly_one_last_per_group` counts the values returned on both paths); the barrier is
left in the same state as by the one-simcall path. -/
theorem split_path_same_answer (w : World) (a : Aid) (b : Nat) :
    (barAsyncStep w a b).2 =
      (((w.bars b).acquireAsync a).2.2.filter (·.waited)).map (fun q => (q.issuer, Res.flag false)) ++ [(a, .unit)] ∧
    (barWaitMCStep (barAsyncStep w a b).1 a b).2 =
      (if (((w.bars b).acquireAsync a).1.waitFor a ((w.bars b).acquireAsync a).2.1).2
       then [(a, Res.flag (((w.bars b).acquireAsync a).1.waitFor a ((w.bars b).acquireAsync a).2.1).1.wasLast)] else []) ∧
    (barWaitMCStep (barAsyncStep w a b).1 a b).1.bars b =
      (((w.bars b).acquireAsync a).1.waitFor a ((w.bars b).acquireAsync a).2.1).1 :=
  split_path_R w a b ((w.bars b).acquireAsync a)

def w0 : World :=
  { mutexes := fun _ => { recursive := false }, sems := fun _ => { value := 0 }, conds := fun _ => {},
    bars := fun _ => { expected := 1 }, hgrant := fun _ => false }

/-- **Regression (repaired defect `barrier-last-flag-mc`).**  A lone actor on a barrier of 1: the one-simcall path answers
`true`; the split path answered `false` before the repair (literal below) and answers `true` now. -/
theorem mc_last_flag_counterexample :
    ((w0.step (.barWait 0 0)).toOption.map (·.2) = some [(0, .flag true)]) ∧
    ((w0.run [.barAsync 0 0, .barWaitMC 0 0]).toOption.map (·.2) ≠ some [(0, .unit), (0, .flag false)]) ∧   -- the old answer
    ((w0.run [.barAsync 0 0, .barWaitMC 0 0]).toOption.map (·.2) = some [(0, .unit), (0, .flag true)]) := by
  decide

/-- non-vacuity of the split path over a round of 2 with a deferred release: actor 0 locks and waits (blocked), actor 1
locks (releases 0 with `false`) and waits (gets `true`) -/
example : ((({ w0 with bars := fun _ => { expected := 2 } } : World).run
      [.barAsync 0 0, .barWaitMC 0 0, .barAsync 1 0, .barWaitMC 1 0]).toOption.map (·.2)) =
    some [(0, .unit), (0, .flag false), (1, .unit), (1, .flag true)] := by decide

/-! ### the SPLIT path, whole histories

Every theorem: ∀ n ∈ [1, 2^32), for ALL histories of BARRIER_ASYNC_LOCK / BARRIER_WAIT events by any actors (`srun`,
C07/Split.lean), repeated use of the barrier; a BARRIER_WAIT may be executed granted (what the checker does) or not
granted (then it registers and is answered by the BARRIER_ASYNC_LOCK completing the group).  `arrF` = arrivals with
the `was_last()` read in their BARRIER_ASYNC_LOCK; `retF` = (actor, value returned by its wait). -/

/-- `World.step` on the split events reads and writes exactly what the split run reads and writes, with the same
answers (the released registered waiters get `false`, the caller of BARRIER_ASYNC_LOCK gets its acquisition; a
BARRIER_WAIT returns its `was_last` local iff granted) -/
theorem split_step_is_world_step (w : World) (a : Aid) (b : Nat) :
    ((barAsyncStep w a b).1.bars b = ((w.bars b).acquireAsync a).1 ∧
     (barAsyncStep w a b).1.hgrant = upd (grantUnwaitedB w.hgrant ((w.bars b).acquireAsync a).2.2) a
        ((w.bars b).acquireAsync a).2.1 ∧
     (barAsyncStep w a b).1.hlast = upd w.hlast a ((w.bars b).acquireAsync a).1.wasLast ∧
     (barAsyncStep w a b).2 =
        (woken ((w.bars b).acquireAsync a).2.2).map (fun x => (x, Res.flag false)) ++ [(a, .unit)]) ∧
    ((barWaitMCStep w a b).1.bars b = ((w.bars b).waitFor a (w.hgrant a)).1 ∧
     (barWaitMCStep w a b).1.hgrant = w.hgrant ∧ (barWaitMCStep w a b).1.hlast = w.hlast ∧
     (barWaitMCStep w a b).2 = if ((w.bars b).waitFor a (w.hgrant a)).2 then [(a, .flag (w.hlast a))] else []) := by
  refine ⟨⟨?_, rfl, rfl, ?_⟩, ⟨?_, rfl, rfl, rfl⟩⟩
  · simp [barAsyncStep, barAsyncStepR, upd]
  · simp [barAsyncStep, barAsyncStepR, woken, List.map_map, Function.comp_def]
  · simp [barWaitMCStep, upd]

/-- split path, groups: at every point of every history #arrivals = n·g + |queue| with |queue| < n; the open group IS the
queue, in arrival order, each of its arrivals having read `was_last() = false`; and for every (actor, value): the number
of such (arrival, recorded flag) pairs among the first n·g arrivals = the number of such (actor, returned value) pairs
among the returns + 1 if that actor holds a granted acquisition on which it has not executed its BARRIER_WAIT yet. -/
theorem split_barrier_groups (n : Nat) (h1 : 1 ≤ n) (h2 : n < 4294967296) (es : List BEv) (s : SSt)
    (h : srun (SSt.init n) es = .ok s) :
    s.arrF.length = n * s.groups + s.b.queue.length ∧ s.b.queue.length < n ∧
    s.arrF.drop (n * s.groups) = s.b.queue.map (fun q => (q.issuer, false)) ∧
    ∀ x v, (s.arrF.take (n * s.groups)).count (x, v) = s.retF.count (x, v) + ind s x v :=
  let hi := sinv_run h1 h2 es (sinv_init n h1) h
  ⟨hi.len, hi.small, hi.openF, hi.cnt⟩

/-- split path: the number of complete groups is ⌊arrivals / n⌋ -/
theorem split_groups_eq_div (n : Nat) (h1 : 1 ≤ n) (h2 : n < 4294967296) (es : List BEv) (s : SSt)
    (h : srun (SSt.init n) es = .ok s) : s.groups = s.arrF.length / n := by
  obtain ⟨hl, hs, -, -⟩ := split_barrier_groups n h1 h2 es s h
  symm
  apply Nat.div_eq_of_lt_le
  · rw [Nat.mul_comm]; omega
  · rw [Nat.succ_mul, Nat.mul_comm]; omega

/-- split path, no early return: every return (actor, value) is matched — with multiplicity — by an arrival of that
actor in a COMPLETE group (one of the first n·⌊arrivals/n⌋) whose BARRIER_ASYNC_LOCK read that very value: no
BARRIER_WAIT returns before n actors (including its issuer) have arrived in its group, and it returns the `was_last()`
read at its arrival, whatever the interleaving. -/
theorem split_no_early_return (n : Nat) (h1 : 1 ≤ n) (h2 : n < 4294967296) (es : List BEv) (s : SSt)
    (h : srun (SSt.init n) es = .ok s) (p : Aid × Bool) :
    s.retF.count p ≤ (s.arrF.take (n * (s.arrF.length / n))).count p := by
  obtain ⟨x, v⟩ := p
  rw [← split_groups_eq_div n h1 h2 es s h]
  have := (split_barrier_groups n h1 h2 es s h).2.2.2 x v
  omega

/-- split path: when nobody holds a granted acquisition it has not waited on, the returns are exactly (as a multiset)
the arrivals of the complete groups with their recorded flags — everybody of a complete group has returned -/
theorem split_all_returned_when_quiescent (n : Nat) (h1 : 1 ≤ n) (h2 : n < 4294967296) (es : List BEv) (s : SSt)
    (h : srun (SSt.init n) es = .ok s) (hq : ∀ x, ¬ (s.phase x = 1 ∧ s.hgrant x = true)) (p : Aid × Bool) :
    s.retF.count p = (s.arrF.take (n * (s.arrF.length / n))).count p := by
  obtain ⟨x, v⟩ := p
  rw [← split_groups_eq_div n h1 h2 es s h]
  have := (split_barrier_groups n h1 h2 es s h).2.2.2 x v
  have hz : ind s x v = 0 := by
    simp only [ind]
    split
    · rename_i hc; exact absurd ⟨hc.1, hc.2.1⟩ (hq x)
    · rfl
  omega

/-- split path, exactly one "last" per complete group: among the `was_last()` values read by the arrivals (which are the
values their waits return, `split_no_early_return`) the number of `true` is ⌊arrivals / n⌋ -/
theorem split_exactly_one_last_per_group (n : Nat) (h1 : 1 ≤ n) (h2 : n < 4294967296) (es : List BEv) (s : SSt)
    (h : srun (SSt.init n) es = .ok s) : (s.arrF.map (·.2)).count true = s.arrF.length / n := by
  rw [← split_groups_eq_div n h1 h2 es s h]
  exact (sinv_run h1 h2 es (sinv_init n h1) h).flags

/-- split path, exactly one `true` per complete group among the RETURNED values: the number of waits that returned
`true` + the number of actors whose BARRIER_ASYNC_LOCK completed a group and that have not executed their BARRIER_WAIT
yet (`pendT`: exactly the actors holding a granted, un-waited acquisition whose recorded flag is `true`, each once)
= ⌊arrivals / n⌋; so never more `true` returns than complete groups, and exactly as many once those actors have waited -/
theorem split_one_true_return_per_group (n : Nat) (h1 : 1 ≤ n) (h2 : n < 4294967296) (es : List BEv) (s : SSt)
    (h : srun (SSt.init n) es = .ok s) :
    (s.retF.map (·.2)).count true + s.pendT.length = s.arrF.length / n ∧
    (∀ x, x ∈ s.pendT ↔ (s.phase x = 1 ∧ s.hgrant x = true ∧ s.hlast x = true)) ∧ s.pendT.Nodup := by
  have ht := tinv_run h1 h2 es (sinv_init n h1) (tinv_init n) h
  rw [← split_groups_eq_div n h1 h2 es s h]
  exact ⟨ht.tcnt, ht.pT, ht.pnd⟩

/-- split path: BARRIER_WAIT of an actor holding an un-waited acquisition completes at once iff that acquisition is
granted, iff it is not in the queue (the enabledness test of the checker) -/
theorem split_wait_enabled_iff_granted (n : Nat) (h1 : 1 ≤ n) (h2 : n < 4294967296) (es : List BEv) (s : SSt)
    (h : srun (SSt.init n) es = .ok s) (a : Aid) (hp : s.phase a = 1) :
    (s.b.waitFor a (s.hgrant a)).2 = true ↔ a ∉ s.b.queue.map (·.issuer) := by
  have hi := sinv_run h1 h2 es (sinv_init n h1) h
  rw [waitFor_completes_iff_granted]
  constructor
  · intro hg hm
    obtain ⟨q, hq, e⟩ := List.mem_map.mp hm
    cases hw : q.waited with
    | true => have := (hi.phq q hq).1 hw; rw [e, hp] at this; cases this
    | false => have := ((hi.phq q hq).2 hw).2.1; rw [e, hg] at this; cases this
  · intro hn
    cases hg : s.hgrant a with
    | true => rfl
    | false => exact absurd (hi.ph1 a hp hg) hn

/-- non-vacuity, split path, n = 2: 0 and 1 arrive; 1 waits first (granted: returns true), 0 waits (returns false); then
2 arrives and waits (blocks, registered), 0 arrives (completes the group: 2 is answered false) and waits (true) -/
example : ((srun (SSt.init 2) [.async 0, .async 1, .wait 1, .wait 0, .async 2, .wait 2, .async 0, .wait 0]).toOption.map
      (fun s => (s.retF, s.groups, s.arrF, s.b.queue.map (·.issuer)))) =
    some ([(1, true), (0, false), (2, false), (0, true)], 2, [(0, false), (1, true), (2, false), (0, true)], []) := by
  decide

/-- … a state in the middle: the group of 0 and 1 is complete, nobody has waited yet: both hold a granted acquisition,
nothing returned; 2 is in the open group -/
example : ((srun (SSt.init 2) [.async 0, .async 1, .async 2]).toOption.map
      (fun s => (s.retF, s.groups, [s.hgrant 0, s.hgrant 1, s.hgrant 2], s.b.queue.map (·.issuer) ++ s.pendT))) =
    some ([], 1, [true, true, false], [2, 1]) := by decide

/-- an actor inside the barrier cannot arrive again; a BARRIER_WAIT needs an acquisition -/
example : (srun (SSt.init 3) [.async 0, .async 0]).toOption.isNone = true ∧
    (srun (SSt.init 3) [.wait 0]).toOption.isNone = true := by decide

end SgVerif.C07
