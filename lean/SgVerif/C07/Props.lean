/-
C07 — Barrier semantics: complete groups of n in arrival order, no early return, exactly one "last" per group.

Model: SgVerif/Sync/Model.lean (`Bar.acquireAsync / waitFor / wasLast` = BarrierImpl.cpp; `expected_actors_ - 1` in
unsigned arithmetic) and the ghost-instrumented history run of C07/Model.lean (Barrier::wait on the one-simcall path).
All theorems: for every n with 1 ≤ n < 2^32 and EVERY history (any length, any actors, repeated use of the barrier).
n = 0 is outside the quantifier (expected_actors_ - 1 wraps to 2^32-1: nobody is ever released).
Split path of the model checker (BARRIER_ASYNC_LOCK + BARRIER_WAIT): step-level facts only, and the return value is
wrong there (finding `barrier-last-flag`, see `mc_last_flag_counterexample`).
-/
import SgVerif.C07.Lemmas
namespace SgVerif.C07
open SgVerif.Sync

/-- Waiters are released only in complete groups of n, in arrival order: at every point of every history the
actors whose wait has returned are exactly the first n·g arrivals, in arrival order, where g is the number of complete
groups (n·g ≤ #arrivals < n·g + n, i.e. g = ⌊#arrivals / n⌋). -/
theorem barrier_groups (n : Nat) (h1 : 1 ≤ n) (h2 : n < 4294967296) (as : List Aid) (s : St)
    (h : run (St.init n) as = .ok s) :
    s.returned = s.arrivals.take (n * s.groups) ∧ n * s.groups ≤ s.arrivals.length ∧
      s.arrivals.length < n * s.groups + n := by
  have hi := inv_run h1 h2 as (inv_init n h1) h
  have hlen : s.arrivals.length = n * s.groups + s.b.queue.length := by
    rw [hi.split, List.length_append, hi.full, List.length_map]
  refine ⟨?_, by omega, ?_⟩
  · rw [hi.split, ← hi.full, List.take_left']
    rfl
  · have := hi.small; omega

/-- the number of complete groups is ⌊arrivals / n⌋ -/
theorem groups_eq_div (n : Nat) (h1 : 1 ≤ n) (h2 : n < 4294967296) (as : List Aid) (s : St)
    (h : run (St.init n) as = .ok s) : s.groups = s.arrivals.length / n := by
  obtain ⟨-, hlo, hhi⟩ := barrier_groups n h1 h2 as s h
  symm
  apply Nat.div_eq_of_lt_le
  · rw [Nat.mul_comm]; exact hlo
  · rw [Nat.succ_mul, Nat.mul_comm]; exact hhi

/-- No wait returns before n actors (including itself) have arrived in its group: the number of returned waits is
always n·⌊arrivals / n⌋ — never a partial group — and everybody still inside is registered (will be answered). -/
theorem no_early_return (n : Nat) (h1 : 1 ≤ n) (h2 : n < 4294967296) (as : List Aid) (s : St)
    (h : run (St.init n) as = .ok s) :
    s.returned.length = n * (s.arrivals.length / n) ∧ (∀ q ∈ s.b.queue, q.waited = true) ∧
      s.b.queue.length = s.arrivals.length % n := by
  have hi := inv_run h1 h2 as (inv_init n h1) h
  have hg := groups_eq_div n h1 h2 as s h
  have hlen : s.arrivals.length = n * s.groups + s.b.queue.length := by
    rw [hi.split, List.length_append, hi.full, List.length_map]
  refine ⟨by rw [hi.full, hg], hi.waited, ?_⟩
  have := Nat.div_add_mod s.arrivals.length n
  rw [← hg] at this
  omega

/-- Exactly one "last" (return value true) per complete group: among the return values handed to the arrivals so
far, the number of `true` equals the number of complete groups, and there is one value per arrival. -/
theorem exactly_one_last_per_group (n : Nat) (h1 : 1 ≤ n) (h2 : n < 4294967296) (as : List Aid) (s : St)
    (h : run (St.init n) as = .ok s) :
    s.lasts.length = s.arrivals.length ∧ s.lasts.count true = s.arrivals.length / n := by
  have hi := inv_run h1 h2 as (inv_init n h1) h
  exact ⟨hi.flags.1, by rw [hi.flags.2, groups_eq_div n h1 h2 as s h]⟩

/-- BARRIER_WAIT (split path) completes at once iff the acquisition is granted -/
theorem waitFor_completes_iff_granted (b : Bar) (a : Aid) (g : Bool) : (b.waitFor a g).2 = g := by
  unfold Bar.waitFor; cases g <;> simp

/-- acquire_async releases the whole queue or nothing (no partial group), for every state -/
theorem acquireAsync_all_or_nothing (b : Bar) (a : Aid) :
    ((b.acquireAsync a).2.2 = [] ∧ (b.acquireAsync a).1.queue = b.queue ++ [{ issuer := a }]) ∨
    ((b.acquireAsync a).2.2 = b.queue ∧ (b.acquireAsync a).1.queue = []) := by
  unfold Bar.acquireAsync; split <;> simp

/-! ### non-vacuity -/

example : ((run (St.init 2) [0, 1, 2, 3, 4]).toOption.map
    (fun s => (s.returned, s.groups, s.lasts, s.b.queue.map (·.issuer)))) =
    some ([0, 1, 2, 3], 2, [false, true, false, true, false], [4]) := by decide

example : ((run (St.init 1) [7, 7]).toOption.map (fun s => (s.returned, s.lasts))) = some ([7, 7], [true, true]) := by
  decide

/-- a blocked actor cannot arrive again -/
example : (run (St.init 3) [0, 0]).toOption.isNone = true := by decide

/-! ### finding `barrier-last-flag`: on the split path used under the model checker, Barrier::wait() never returns
true.  s4u_Barrier.cpp sets the result (`observer.set_result(was_last())`) only on the one-simcall path; the
BARRIER_WAIT observer keeps its default `false`.  The full-strength statement "exactly one true per group on both
paths" is therefore false on the current code; `exactly_one_last_per_group` is the part that holds (normal runs). -/
def w0 : World :=
  { mutexes := fun _ => { recursive := false }, sems := fun _ => { value := 0 }, conds := fun _ => {},
    bars := fun _ => { expected := 1 }, hgrant := fun _ => false }

theorem mc_last_flag_counterexample :
    ((w0.step (.barWait 0 0)).toOption.map (·.2) = some [(0, .flag true)]) ∧
    ((w0.run [.barAsync 0 0, .barWaitMC 0 0]).toOption.map (·.2) = some [(0, .unit), (0, .flag false)]) := by
  decide

end SgVerif.C07
