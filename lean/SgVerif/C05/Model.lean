/-
C05 — history-level (ghost-instrumented) run of ONE semaphore on top of the shared transliteration
(SgVerif/Sync/Model.lean: Sem.acquireAsync / waitFor / release / timeout / semFinish = SemaphoreImpl.cpp).

Events: `acquire a timed` = Semaphore::acquire_timeout (timed = timeout >= 0; acquire() passes -1) in ONE simcall,
`release a`, and `timeout a` = "the timeout action of a's pending acquisition finishes" (explicit input: the model
does not contain the clock; the correspondence driver feeds it at the deadline).
Ghosts: cap (initial capacity), grants (acquisitions granted: at once, or by a release), releases, timeouts.
An actor blocked in the queue cannot issue events (`illFormed`).  No Mathlib.
-/
import SgVerif.Sync.Model
namespace SgVerif.C05
open SgVerif.Sync

inductive SEv where
  | acquire (a : Aid) (timed : Bool)
  | release (a : Aid)
  | timeout (a : Aid)
  deriving Repr, DecidableEq

structure St where
  s : Sem
  cap : Nat
  grants : Nat := 0
  releases : Nat := 0
  timeouts : Nat := 0

def St.init (c : Nat) : St := { s := { value := c }, cap := c }

def blocked (s : Sem) (a : Aid) : Bool := s.queue.any (fun q => q.issuer = a)

/-- new state and the simcalls answered (who, timed-out flag for acquires) -/
def step (t : St) : SEv → Except Err (St × Outs)
  | .acquire a timed =>
    if blocked t.s a then .error .illFormed
    else
      let r := t.s.acquireAsync a
      let w := r.1.waitFor a r.2 timed
      .ok ({ t with s := w.1, grants := if r.2 then t.grants + 1 else t.grants }, optOut a w.2)
  | .release a =>
    if blocked t.s a then .error .illFormed
    else
      let r := t.s.release
      .ok ({ t with s := r.1, releases := t.releases + 1, grants := if r.2.isSome then t.grants + 1 else t.grants },
           (match r.2 with
            | some acq => if acq.waited then [(acq.issuer, Res.flag (semFinish acq.timed false true))] else []
            | none => []) ++ [(a, .unit)])
  | .timeout a =>
    match t.s.timeout a with
    | .error e => .error e
    | .ok (s1, r) => .ok ({ t with s := s1, timeouts := t.timeouts + 1 }, [(a, r)])

def run (t : St) : List SEv → Except Err (St × Outs)
  | [] => .ok (t, [])
  | e :: es =>
    match step t e with
    | .error err => .error err
    | .ok (t1, o1) =>
      match run t1 es with
      | .error err => .error err
      | .ok (t2, o2) => .ok (t2, o1 ++ o2)

/-! ### ticket ghosts for the history-level FIFO theorem (`sem_fifo`)

Every request that had to queue gets a ticket = its rank among the queued requests of the whole history (`reqs[k]` = its
issuer).  `tq` = the tickets of the requests that are in `ongoing_acquisitions_` now, kept parallel to `t.s.queue`
(same list operations: push_back, pop_front, and the erase of `cancel()` at the position where `eraseS` erases);
`granted` = (ticket, actor granted) of the grants that `release` made to queued requests, in the order they were made —
the actor is read from the acquisition popped by the model's `Sem.release`; `touts` = tickets removed by their timeout. -/

/-- the ticket-side twin of `eraseS`: drop the ticket at the position of the first acquisition of issuer `a` -/
def eraseTicket (a : Aid) : List SAcq → List Nat → List Nat × Option Nat
  | x :: xs, k :: ks => if x.issuer = a then (ks, some k) else ((k :: (eraseTicket a xs ks).1), (eraseTicket a xs ks).2)
  | _, ks => (ks, none)

structure GSt where
  t : St
  reqs : List Aid := []
  tq : List Nat := []
  granted : List (Nat × Aid) := []
  touts : List Nat := []

def GSt.init (c : Nat) : GSt := { t := St.init c }

def gstep (g : GSt) (e : SEv) : Except Err (GSt × Outs) :=
  match step g.t e with
  | .error err => .error err
  | .ok (t', o) =>
    .ok ((match e with
      | .acquire a _ =>
        -- the request had to queue iff `ongoing_acquisitions_` grew
        if g.t.s.queue.length < t'.s.queue.length then
          { g with t := t', reqs := g.reqs ++ [a], tq := g.tq ++ [g.reqs.length] }
        else { g with t := t' }
      | .release _ =>
        match g.t.s.release.2, g.tq with
        | some acq, k :: ks => { g with t := t', tq := ks, granted := g.granted ++ [(k, acq.issuer)] }
        | _, _ => { g with t := t' }
      | .timeout a =>
        { g with t := t', tq := (eraseTicket a g.t.s.queue g.tq).1,
                 touts := g.touts ++ (eraseTicket a g.t.s.queue g.tq).2.toList }), o)

def grun (g : GSt) : List SEv → Except Err (GSt × Outs)
  | [] => .ok (g, [])
  | e :: es =>
    match gstep g e with
    | .error err => .error err
    | .ok (g1, o1) =>
      match grun g1 es with
      | .error err => .error err
      | .ok (g2, o2) => .ok (g2, o1 ++ o2)

end SgVerif.C05
