/-
C05 — Semaphore semantics: token conservation, reported capacity, FIFO, timeouts.

Model: SgVerif/Sync/Model.lean (SemaphoreImpl.cpp as it is now: a timer is armed when timeout >= 0, so a zero timeout
times out at the next scheduling point instead of blocking for ever) + the ghost run of C05/Model.lean.
History-level theorems are for EVERY history of acquire / acquire_timeout / release / timer events by any actors,
any capacity.  `value_` is an unsigned int in the code; wrap-around after 2^32 releases is not modelled.
FIFO: `sem_fifo` (history level, tickets: grants to blocked acquirers ++ current queue = the request sequence minus the
timed-out requests) with its corollaries `sem_fifo_grant_order`, `sem_fifo_no_overtake`, `sem_fifo_next_is_oldest`;
`sem_fifo_partial` is the older step-level statement (kept).  Split path of the model checker (SEM_ASYNC_LOCK and
SEM_WAIT as separate events, any interleaving): `split_sem_conservation`, `split_sem_fifo`, `split_sem_fifo_no_overtake`
at the end of the file, over the run of C05/Split.lean (no restriction on the histories).
-/
import SgVerif.C05.Lemmas
import SgVerif.C05.SplitLemmas
namespace SgVerif.C05
open SgVerif.Sync

structure Inv (t : St) : Prop where
  conserve : t.s.value + t.grants = t.cap + t.releases
  empty : t.s.queue ≠ [] → t.s.value = 0
  waited : ∀ q ∈ t.s.queue, q.waited = true

theorem inv_init (c : Nat) : Inv (St.init c) := by
  constructor <;> simp [St.init]

theorem inv_step {t t' : St} {e : SEv} {o : Outs} (hi : Inv t) (h : step t e = .ok (t', o)) : Inv t' := by
  obtain ⟨hc, he, hw⟩ := hi
  cases e with
  | acquire a timed =>
    simp only [step] at h
    split at h
    · simp at h
    · rename_i hb
      have hb : ∀ x ∈ t.s.queue, x.issuer ≠ a := by
        intro x hx hxa
        apply hb
        simp only [blocked, List.any_eq_true, decide_eq_true_eq]
        exact ⟨x, hx, hxa⟩
      simp only [Except.ok.injEq, Prod.mk.injEq] at h
      obtain ⟨rfl, -⟩ := h
      by_cases hv : t.s.value > 0
      · have : t.s.acquireAsync a = ({ t.s with value := t.s.value - 1 }, true) := by simp [Sem.acquireAsync, hv]
        simp only [this, Sem.waitFor, if_true]
        constructor
        · simp; omega
        · intro hq; have := he hq; omega
        · exact hw
      · have : t.s.acquireAsync a = ({ t.s with queue := t.s.queue ++ [{ issuer := a }] }, false) := by
          simp [Sem.acquireAsync, hv]
        simp only [this, Sem.waitFor, Bool.false_eq_true, if_false, markS_fresh a timed t.s.queue hb]
        constructor
        · simpa using hc
        · intro _; simp; omega
        · intro q hq
          simp only [List.mem_append, List.mem_singleton] at hq
          rcases hq with hq | rfl
          · exact hw q hq
          · rfl
  | release a =>
    simp only [step] at h
    split at h
    · simp at h
    · simp only [Except.ok.injEq, Prod.mk.injEq] at h
      obtain ⟨rfl, -⟩ := h
      cases hq : t.s.queue with
      | nil =>
        have : t.s.release = ({ t.s with value := t.s.value + 1 }, none) := by simp [Sem.release, hq]
        simp only [this]
        constructor
        · simp; omega
        · intro hne; simp [hq] at hne
        · intro q hqm; simp [hq] at hqm
      | cons acq rest =>
        have : t.s.release = ({ t.s with queue := rest }, some acq) := by simp [Sem.release, hq]
        simp only [this]
        have hz := he (by simp [hq])
        constructor
        · simp; omega
        · intro _; exact hz
        · intro q hqm; exact hw q (by simp [hq, hqm])
  | timeout a =>
    simp only [step] at h
    split at h
    · simp at h
    · rename_i s1 r hs
      simp only [Except.ok.injEq, Prod.mk.injEq] at h
      obtain ⟨rfl, -⟩ := h
      unfold Sem.timeout at hs
      split at hs
      · simp only [Except.ok.injEq, Prod.mk.injEq] at hs
        obtain ⟨rfl, -⟩ := hs
        constructor
        · exact hc
        · intro hne
          apply he
          intro hq
          simp [hq, eraseS] at hne
        · intro q hqm
          exact hw q (eraseS_mem hqm)
      · simp at hs

theorem inv_run (es : List SEv) {t t' : St} {o : Outs} (hi : Inv t) (h : run t es = .ok (t', o)) : Inv t' := by
  induction es generalizing t o with
  | nil => simp [run] at h; obtain ⟨rfl, -⟩ := h; exact hi
  | cons e es ih =>
    simp only [run] at h
    split at h
    · simp at h
    · rename_i t1 o1 he
      split at h
      · simp at h
      · rename_i t2 o2 hr
        simp only [Except.ok.injEq, Prod.mk.injEq] at h
        obtain ⟨rfl, -⟩ := h
        exact ih (inv_step hi he) hr

/-- Token conservation: never more grants than capacity + releases (every history). -/
theorem sem_conservation (c : Nat) (es : List SEv) (t : St) (o : Outs) (h : run (St.init c) es = .ok (t, o)) :
    t.grants ≤ c + t.releases := by
  have hi := inv_run es (inv_init c) h
  have hcap : t.cap = c := by
    have : ∀ (es : List SEv) (t0 t1 : St) (o : Outs), run t0 es = .ok (t1, o) → t1.cap = t0.cap := by
      intro es
      induction es with
      | nil => intro t0 t1 o h; simp [run] at h; rw [h.1]
      | cons e es ih =>
        intro t0 t1 o h
        simp only [run] at h
        split at h
        · simp at h
        · rename_i t2 o2 he
          split at h
          · simp at h
          · rename_i t3 o3 hr
            simp only [Except.ok.injEq, Prod.mk.injEq] at h
            obtain ⟨rfl, -⟩ := h
            rw [ih _ _ _ hr]
            cases e <;> simp only [step] at he <;> (repeat' split at he) <;> simp_all <;>
              (obtain ⟨rfl, -⟩ := he; rfl)
    exact this es _ _ _ h
  have := hi.conserve
  omega

/-- The reported capacity (get_capacity = value_) is capacity + releases − grants at every point of every history —
in particular when nobody waits; and somebody waits only when it is 0. -/
theorem capacity_eq (c : Nat) (es : List SEv) (t : St) (o : Outs) (h : run (St.init c) es = .ok (t, o)) :
    t.s.value + t.grants = t.cap + t.releases ∧ (t.s.queue ≠ [] → t.s.value = 0) :=
  let hi := inv_run es (inv_init c) h
  ⟨hi.conserve, hi.empty⟩

/-- A timeout consumes no token and is not a grant: value_, grants and releases are unchanged by the timer event. -/
theorem timeout_consumes_nothing (t t' : St) (a : Aid) (o : Outs) (h : step t (.timeout a) = .ok (t', o)) :
    t'.s.value = t.s.value ∧ t'.grants = t.grants ∧ t'.releases = t.releases ∧ o = [(a, .flag true)] := by
  simp only [step] at h
  split at h
  · simp at h
  · rename_i s1 r hs
    simp only [Except.ok.injEq, Prod.mk.injEq] at h
    obtain ⟨rfl, rfl⟩ := h
    unfold Sem.timeout at hs
    split at hs
    · simp only [Except.ok.injEq, Prod.mk.injEq] at hs
      obtain ⟨rfl, rfl⟩ := hs
      simp [semFinish]
    · simp at hs

/-- the timer event is possible only for an acquisition that is still waiting (not granted) with a timer armed -/
theorem timeout_only_if_not_granted (s : Sem) (a : Aid) (s' : Sem) (r : Res) (h : s.timeout a = .ok (s', r)) :
    ∃ q ∈ s.queue, q.issuer = a ∧ q.waited = true ∧ q.timed = true := by
  unfold Sem.timeout at h
  split at h
  · rename_i hh
    simp only [List.any_eq_true, decide_eq_true_eq] at hh
    obtain ⟨q, hq, h1, h2, h3⟩ := hh
    exact ⟨q, hq, h1, h2, h3⟩
  · simp at h

/-- SemAcquisitionImpl::finish(): a timeout is reported iff a timer was armed, it fired, and the acquisition was not
granted — so a grant that arrives exactly at the deadline wins (the `granted_` test). -/
theorem timeout_reported_iff (hasTimer fired granted : Bool) :
    semFinish hasTimer fired granted = true ↔ (hasTimer = true ∧ fired = true ∧ granted = false) := by
  cases hasTimer <;> cases fired <;> cases granted <;> simp [semFinish]

theorem grant_at_deadline_wins : semFinish true true true = false := rfl

/-- a waiter woken by a release never reports a timeout, whatever its timer (it has not fired: the action is unref'd) -/
theorem release_completion_not_timeout (t t' : St) (a : Aid) (o : Outs) (h : step t (.release a) = .ok (t', o)) :
    ∀ b r, (b, r) ∈ o → r = .unit ∨ r = .flag false := by
  simp only [step] at h
  split at h
  · simp at h
  · simp only [Except.ok.injEq, Prod.mk.injEq] at h
    obtain ⟨-, rfl⟩ := h
    intro b r hm
    simp only [List.mem_append, List.mem_singleton, Prod.mk.injEq] at hm
    rcases hm with hm | hm
    · split at hm
      · split at hm
        · simp only [List.mem_singleton, Prod.mk.injEq] at hm
          right; rw [hm.2]; simp [semFinish]
        · simp at hm
      · simp at hm
    · left; exact hm.2

/-- FIFO (step level): release grants the head of the queue; a new waiter goes to the tail; a timeout removes only
its own entry.  -/
theorem sem_fifo_partial (s : Sem) (a : Aid) :
    (∀ acq rest, s.queue = acq :: rest → s.release = ({ s with queue := rest }, some acq)) ∧
    ((s.acquireAsync a).1.queue = s.queue ∨ (s.acquireAsync a).1.queue = s.queue ++ [{ issuer := a }]) ∧
    ((eraseS a s.queue).filter (fun q => q.issuer ≠ a) = s.queue.filter (fun q => q.issuer ≠ a)) := by
  refine ⟨?_, ?_, ?_⟩
  · intro acq rest hq; simp [Sem.release, hq]
  · unfold Sem.acquireAsync; split <;> simp
  · induction s.queue with
    | nil => rfl
    | cons x xs ih =>
      simp only [eraseS]
      split
      · rename_i hx; simp [hx]
      · rename_i hx
        simp only [ne_eq, decide_not] at ih
        simp [hx, ih]

/-! ### FIFO over whole histories (ticket formulation)

`grun` is `run` with ticket ghosts attached (C05/Model.lean; `sem_fifo_same_run`: same states, same answers, same
accepted histories).  Ticket k = the k-th request of the history that had to queue; `g.reqs[k]` its issuer. -/

/-- **FIFO, every history** of acquire / acquire_timeout / release / timer events, any capacity, any actors:
(1) the tickets granted by `release` to blocked acquirers so far, in the order of the grants, followed by the tickets
still in `ongoing_acquisitions_`, in queue order, are exactly ALL tickets in request order minus those removed by their
timeout — so the sequence of grants is the request sequence with the timed-out requests struck out, cut at the number
of grants; (2) each of those grants went to the actor that issued that request; (3) the ghost queue is the kernel
queue, position by position. -/
theorem sem_fifo (c : Nat) (es : List SEv) (g : GSt) (o : Outs) (h : grun (GSt.init c) es = .ok (g, o)) :
    g.granted.map (·.1) ++ g.tq = (List.range g.reqs.length).filter (fun k => !g.touts.contains k) ∧
    (∀ x ∈ g.granted, g.reqs[x.1]? = some x.2) ∧
    g.tq.map (fun k => g.reqs[k]?) = g.t.s.queue.map (fun x => some x.issuer) :=
  let hi := ginv_run es (ginv_init c) h
  ⟨hi.part, hi.gr, hi.par⟩

/-- the ticket ghosts observe, they do not steer: a history is accepted by `run` iff it is by `grun`, with the same
semaphore state, counters and answers -/
theorem sem_fifo_same_run (c : Nat) (es : List SEv) :
    (∀ g o, grun (GSt.init c) es = .ok (g, o) → run (St.init c) es = .ok (g.t, o)) ∧
    (∀ t o, run (St.init c) es = .ok (t, o) → ∃ g, grun (GSt.init c) es = .ok (g, o) ∧ g.t = t) :=
  ⟨fun _ _ h => grun_t es h, fun _ _ h => grun_of_run es (g := GSt.init c) h⟩

/-- blocked acquirers are granted in request order: the tickets of successive grants increase strictly, and everything
still queued is younger than every grant made -/
theorem sem_fifo_grant_order (c : Nat) (es : List SEv) (g : GSt) (o : Outs) (h : grun (GSt.init c) es = .ok (g, o)) :
    (g.granted.map (·.1)).Pairwise (· < ·) ∧ g.tq.Pairwise (· < ·) ∧
    ∀ k ∈ g.granted.map (·.1), ∀ j ∈ g.tq, k < j := by
  have hs := granted_queue_sorted (ginv_run es (ginv_init c) h)
  rw [List.pairwise_append] at hs
  exact hs

/-- no overtaking: when a request has been granted, every earlier request has been granted before it or was removed
by its own timeout -/
theorem sem_fifo_no_overtake (c : Nat) (es : List SEv) (g : GSt) (o : Outs) (h : grun (GSt.init c) es = .ok (g, o))
    (k : Nat) (hk : k ∈ g.granted.map (·.1)) (j : Nat) (hj : j < k) : j ∈ g.granted.map (·.1) ∨ j ∈ g.touts := by
  have hi := ginv_run es (ginv_init c) h
  by_cases ht : j ∈ g.touts
  · exact .inr ht
  · left
    have hkl := hi.lt k (List.mem_append_left _ hk)
    have hm : j ∈ g.granted.map (·.1) ++ g.tq := by
      rw [hi.part, List.mem_filter]
      exact ⟨List.mem_range.mpr (by omega), by simpa using ht⟩
    rcases List.mem_append.mp hm with hm | hm
    · exact hm
    · have := (sem_fifo_grant_order c es g o h).2.2 k hk j hm
      omega

/-- the next `release` serves the oldest outstanding request: the head of the queue has the smallest ticket among the
requests neither granted nor timed out -/
theorem sem_fifo_next_is_oldest (c : Nat) (es : List SEv) (g : GSt) (o : Outs) (h : grun (GSt.init c) es = .ok (g, o))
    (k : Nat) (ks : List Nat) (hq : g.tq = k :: ks) (j : Nat) (hj : j < g.reqs.length)
    (hng : j ∉ g.granted.map (·.1)) (hnt : j ∉ g.touts) : k ≤ j := by
  have hi := ginv_run es (ginv_init c) h
  have hm : j ∈ g.granted.map (·.1) ++ g.tq := by
    rw [hi.part, List.mem_filter]
    exact ⟨List.mem_range.mpr hj, by simpa using hnt⟩
  rcases List.mem_append.mp hm with hm | hm
  · exact absurd hm hng
  · have hs := (sem_fifo_grant_order c es g o h).2.1
    rw [hq] at hm hs
    rcases List.mem_cons.mp hm with rfl | hm
    · exact Nat.le_refl _
    · exact Nat.le_of_lt ((List.pairwise_cons.mp hs).1 j hm)

/-! ### non-vacuity -/

example : ((run (St.init 1) [.acquire 0 false, .acquire 1 true, .acquire 2 true, .timeout 1, .release 0]).toOption.map
    (fun r => (r.1.s.value, r.1.grants, r.1.releases, r.2))) =
    some (0, 2, 1, [(0, .flag false), (1, .flag true), (2, .flag false), (0, .unit)]) := by decide

/-- a timer event for an actor that is not waiting is not a history -/
example : (run (St.init 1) [.acquire 0 true, .timeout 0]).toOption.isNone = true := by decide

/-- FIFO with a timeout in the middle: 0 takes the token; 1 (timed), 2, 3 (timed) queue with tickets 0, 1, 2; the timer
of 1 fires; two releases serve tickets 1 then 2, i.e. actors 2 then 3 -/
example : ((grun (GSt.init 1) [.acquire 0 false, .acquire 1 true, .acquire 2 false, .acquire 3 true, .timeout 1,
      .release 0, .release 2]).toOption.map (fun r => (r.1.reqs, r.1.granted, r.1.touts, r.1.tq))) =
    some ([1, 2, 3], [(1, 2), (2, 3)], [0], []) := by decide

/-- … and the answers of that history: 0 at once, 1 timed out, 2 then 3 woken by the releases without timeout -/
example : ((grun (GSt.init 1) [.acquire 0 false, .acquire 1 true, .acquire 2 false, .acquire 3 true, .timeout 1,
      .release 0, .release 2]).toOption.map (fun r => r.2)) =
    some [(0, .flag false), (1, .flag true), (2, .flag false), (0, .unit), (3, .flag false), (2, .unit)] := by decide

/-! ### the SPLIT path, whole histories

For ALL sequences of SEM_ASYNC_LOCK / SEM_WAIT / SEM_UNLOCK / timer events by any actors (`xrun`, C05/Split.lean; no
well-formedness condition at all), any capacity.  A grant = an acquisition granted at once by SEM_ASYNC_LOCK or popped
by a release (whether or not its issuer already executed its SEM_WAIT). -/

/-- `World.step` on the split events applies exactly the functions the split run applies, with the same answers -/
theorem split_step_is_world_step (w : World) (a : Aid) (s : Nat) (timed : Bool) :
    w.step (.semAsync a s) =
      .ok ({ w with sems := upd w.sems s ((w.sems s).acquireAsync a).1,
                    hgrant := upd w.hgrant a ((w.sems s).acquireAsync a).2 }, [(a, .unit)]) ∧
    w.step (.semWait a s timed) =
      .ok ({ w with sems := upd w.sems s ((w.sems s).waitFor a (w.hgrant a) timed).1 },
           optOut a ((w.sems s).waitFor a (w.hgrant a) timed).2) :=
  ⟨rfl, rfl⟩

/-- split path, token conservation and reported capacity, every history -/
theorem split_sem_conservation (c : Nat) (es : List XEv) (x : XSt) (o : Outs)
    (h : xrun (XSt.init c) es = .ok (x, o)) :
    x.grants ≤ c + x.releases ∧ x.s.value + x.grants = c + x.releases ∧ (x.s.queue ≠ [] → x.s.value = 0) := by
  have hi := xinv_run es (xinv_init c) h
  have hcap : x.cap = c := xrun_cap es h
  have := hi.conserve
  exact ⟨by omega, by omega, hi.empty⟩

/-- split path, FIFO, every history (same ticket statement as `sem_fifo`): grants made by `release` to queued
acquisitions, in grant order, followed by the tickets still queued = all tickets in SEM_ASYNC_LOCK order minus the
timed-out ones; each grant went to the issuer of that acquisition; the ghost queue is the kernel queue — whatever the
interleaving of the SEM_WAITs -/
theorem split_sem_fifo (c : Nat) (es : List XEv) (x : XSt) (o : Outs) (h : xrun (XSt.init c) es = .ok (x, o)) :
    x.granted.map (·.1) ++ x.tq = (List.range x.reqs.length).filter (fun k => !x.touts.contains k) ∧
    (∀ y ∈ x.granted, x.reqs[y.1]? = some y.2) ∧
    x.tq.map (fun k => x.reqs[k]?) = x.s.queue.map (fun q => some q.issuer) :=
  let hi := xinv_run es (xinv_init c) h
  ⟨hi.part, hi.gr, hi.par⟩

/-- split path, no overtaking: a granted acquisition ⇒ every earlier queued acquisition was granted before it or
removed by its timeout -/
theorem split_sem_fifo_no_overtake (c : Nat) (es : List XEv) (x : XSt) (o : Outs)
    (h : xrun (XSt.init c) es = .ok (x, o)) (k : Nat) (hk : k ∈ x.granted.map (·.1)) (j : Nat) (hj : j < k) :
    j ∈ x.granted.map (·.1) ∨ j ∈ x.touts := by
  have hi := xinv_run es (xinv_init c) h
  by_cases ht : j ∈ x.touts
  · exact .inr ht
  · left
    have hkl := hi.lt k (List.mem_append_left _ hk)
    have hm : j ∈ x.granted.map (·.1) ++ x.tq := by
      rw [hi.part, List.mem_filter]
      exact ⟨List.mem_range.mpr (by omega), by simpa using ht⟩
    rcases List.mem_append.mp hm with hm | hm
    · exact hm
    · have hs : (x.granted.map (·.1) ++ x.tq).Pairwise (· < ·) := by
        rw [hi.part]; exact List.Pairwise.filter _ List.pairwise_lt_range
      have := (List.pairwise_append.mp hs).2.2 k hk j hm
      omega

/-- non-vacuity, split path: 0 takes the token; 1, 2, 3 lock asynchronously (tickets 0, 1, 2); 2 waits first, then 1
(timed), whose timer fires; release serves ticket 1 (actor 2, registered: answered), a second release serves ticket 2
(actor 3, not yet waiting: granted silently), whose late SEM_WAIT returns at once -/
example : ((xrun (XSt.init 1) [.async 0, .wait 0 false, .async 1, .async 2, .async 3, .wait 2 false, .wait 1 true,
      .timeout 1, .release 0, .release 2, .wait 3 false]).toOption.map
      (fun r => (r.1.reqs, r.1.granted, r.1.touts, r.1.tq))) =
    some ([1, 2, 3], [(1, 2), (2, 3)], [0], []) := by decide

example : ((xrun (XSt.init 1) [.async 0, .wait 0 false, .async 1, .async 2, .async 3, .wait 2 false, .wait 1 true,
      .timeout 1, .release 0, .release 2, .wait 3 false]).toOption.map (fun r => r.2)) =
    some [(0, .unit), (0, .flag false), (1, .unit), (2, .unit), (3, .unit), (1, .flag true), (2, .flag false),
          (0, .unit), (2, .unit), (3, .flag false)] := by decide

end SgVerif.C05
