/-
C05 — history-level run of ONE semaphore on the SPLIT path used under the model checker: `Semaphore::acquire[_timeout]`
= SEM_ASYNC_LOCK (`acquire_async`) then SEM_WAIT (`wait_for`) as two separate kernel events with arbitrary events of
other actors in between; SEM_UNLOCK (`release`); the timer event.  Same transliteration (Sync/Model.lean:
Sem.acquireAsync / waitFor / release / timeout); the state carries what `World.step (.semAsync/.semWait/.release/
.semTimeout)` reads and writes: the semaphore and `hgrant` (`granted_` of the acquisition an actor holds) —
`split_step_is_world_step` (C05/Props.lean).  Ghosts: cap, grants, releases and the tickets of C05/Model.lean
(`reqs`, `tq`, `granted`, `touts`).  NO restriction on the histories: any sequence of events is a history (a SEM_WAIT
executed while not granted registers the issuer's simcall, as in a normal run).  No Mathlib.
-/
import SgVerif.C05.Model
namespace SgVerif.C05
open SgVerif.Sync

inductive XEv where
  | async (a : Aid)
  | wait (a : Aid) (timed : Bool)
  | release (a : Aid)
  | timeout (a : Aid)
  deriving Repr, DecidableEq

structure XSt where
  s : Sem
  hgrant : Aid → Bool
  cap : Nat
  grants : Nat := 0
  releases : Nat := 0
  reqs : List Aid := []
  tq : List Nat := []
  granted : List (Nat × Aid) := []
  touts : List Nat := []

def XSt.init (c : Nat) : XSt := { s := { value := c }, hgrant := fun _ => false, cap := c }

def xstep (x : XSt) : XEv → Except Err (XSt × Outs)
  | .async a =>
    let r := x.s.acquireAsync a
    .ok ({ x with s := r.1, hgrant := upd x.hgrant a r.2,
                  grants := if r.2 then x.grants + 1 else x.grants,
                  reqs := if r.2 then x.reqs else x.reqs ++ [a],
                  tq := if r.2 then x.tq else x.tq ++ [x.reqs.length] }, [(a, .unit)])
  | .wait a timed =>
    let r := x.s.waitFor a (x.hgrant a) timed
    .ok ({ x with s := r.1 }, optOut a r.2)
  | .release a =>
    let r := x.s.release
    match r.2, x.tq with
    | some acq, k :: ks =>
      .ok ({ x with s := r.1, releases := x.releases + 1, grants := x.grants + 1, tq := ks,
                    granted := x.granted ++ [(k, acq.issuer)],
                    hgrant := if acq.waited then x.hgrant else upd x.hgrant acq.issuer true },
           (if acq.waited then [(acq.issuer, Res.flag (semFinish acq.timed false true))] else []) ++ [(a, .unit)])
    | some acq, [] =>   -- unreachable (`XInv.par`): the ticket queue is as long as the kernel queue
      .ok ({ x with s := r.1, releases := x.releases + 1, grants := x.grants + 1,
                    hgrant := if acq.waited then x.hgrant else upd x.hgrant acq.issuer true },
           (if acq.waited then [(acq.issuer, Res.flag (semFinish acq.timed false true))] else []) ++ [(a, .unit)])
    | none, _ => .ok ({ x with s := r.1, releases := x.releases + 1 }, [(a, .unit)])
  | .timeout a =>
    match x.s.timeout a with
    | .error e => .error e
    | .ok (s1, r) =>
      .ok ({ x with s := s1, tq := (eraseTicket a x.s.queue x.tq).1,
                    touts := x.touts ++ (eraseTicket a x.s.queue x.tq).2.toList }, [(a, r)])

def xrun (x : XSt) : List XEv → Except Err (XSt × Outs)
  | [] => .ok (x, [])
  | e :: es =>
    match xstep x e with
    | .error err => .error err
    | .ok (x1, o1) =>
      match xrun x1 es with
      | .error err => .error err
      | .ok (x2, o2) => .ok (x2, o1 ++ o2)

end SgVerif.C05
