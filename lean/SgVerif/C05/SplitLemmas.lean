/-
C05 — the invariant of the split-path history run (C05/Split.lean): token conservation and the ticket invariant.
Core only.
-/
import SgVerif.C05.Split
import SgVerif.C05.Lemmas
namespace SgVerif.C05
open SgVerif.Sync

theorem markS_issuers (a : Aid) (t : Bool) (q : List SAcq) :
    (markS a t q).map (fun x => some x.issuer) = q.map (fun x => some x.issuer) := by
  induction q with
  | nil => rfl
  | cons x xs ih =>
    simp only [markS]
    split
    · simp
    · simp [ih]

theorem markS_nil_iff (a : Aid) (t : Bool) (q : List SAcq) : markS a t q = [] ↔ q = [] := by
  cases q with
  | nil => simp [markS]
  | cons x xs => simp only [markS]; split <;> simp

structure XInv (x : XSt) : Prop where
  conserve : x.s.value + x.grants = x.cap + x.releases
  empty : x.s.queue ≠ [] → x.s.value = 0
  par : x.tq.map (fun k => x.reqs[k]?) = x.s.queue.map (fun q => some q.issuer)
  part : x.granted.map (·.1) ++ x.tq = (List.range x.reqs.length).filter (fun k => !x.touts.contains k)
  gr : ∀ y ∈ x.granted, x.reqs[y.1]? = some y.2
  tb : ∀ k ∈ x.touts, k < x.reqs.length

theorem xinv_init (c : Nat) : XInv (XSt.init c) := by
  constructor <;> simp [XSt.init]

theorem XInv.len {x : XSt} (hi : XInv x) : x.tq.length = x.s.queue.length := by
  have := congrArg List.length hi.par
  simpa using this

theorem XInv.lt {x : XSt} (hi : XInv x) : ∀ k, k ∈ x.granted.map (·.1) ++ x.tq → k < x.reqs.length := by
  intro k hk
  rw [hi.part] at hk
  exact List.mem_range.mp (List.mem_filter.mp hk).1

theorem XInv.nodup {x : XSt} (hi : XInv x) : (x.granted.map (·.1) ++ x.tq).Nodup := by
  rw [hi.part]
  exact List.Pairwise.filter _ List.nodup_range

theorem xinv_step {x x' : XSt} {e : XEv} {o : Outs} (hi : XInv x) (h : xstep x e = .ok (x', o)) : XInv x' := by
  obtain ⟨hc, he, hpar, hpart, hgr, htb⟩ := hi
  have hlen : x.tq.length = x.s.queue.length := by
    have := congrArg List.length hpar
    simpa using this
  have hlt : ∀ k, k ∈ x.granted.map (·.1) ++ x.tq → k < x.reqs.length := by
    intro k hk
    rw [hpart] at hk
    exact List.mem_range.mp (List.mem_filter.mp hk).1
  cases e with
  | async a =>
    simp only [xstep, Except.ok.injEq, Prod.mk.injEq] at h
    obtain ⟨rfl, -⟩ := h
    by_cases hv : x.s.value > 0
    · have hacq : x.s.acquireAsync a = ({ x.s with value := x.s.value - 1 }, true) := by simp [Sem.acquireAsync, hv]
      simp only [hacq, if_true]
      refine ⟨?_, ?_, hpar, hpart, hgr, htb⟩
      · show x.s.value - 1 + (x.grants + 1) = x.cap + x.releases
        omega
      · intro hq; have := he hq; omega
    · have hacq : x.s.acquireAsync a = ({ x.s with queue := x.s.queue ++ [{ issuer := a }] }, false) := by
        simp [Sem.acquireAsync, hv]
      simp only [hacq, Bool.false_eq_true, if_false]
      have hold : ∀ k, k < x.reqs.length → (x.reqs ++ [a])[k]? = x.reqs[k]? :=
        fun k hk => List.getElem?_append_left hk
      refine ⟨hc, ?_, ?_, ?_, ?_, ?_⟩
      · intro _; show x.s.value = 0; omega
      · show (x.tq ++ [x.reqs.length]).map (fun k => (x.reqs ++ [a])[k]?) =
          (x.s.queue ++ [({ issuer := a } : SAcq)]).map (fun q => some q.issuer)
        simp only [List.map_append, List.map_cons, List.map_nil]
        congr 1
        · rw [← hpar]
          apply List.map_congr_left
          intro k hk
          exact hold k (hlt k (List.mem_append_right _ hk))
        · simp
      · show x.granted.map (·.1) ++ (x.tq ++ [x.reqs.length]) =
          (List.range (x.reqs ++ [a]).length).filter (fun k => !x.touts.contains k)
        simp only [List.length_append, List.length_cons, List.length_nil, Nat.zero_add, List.range_succ,
          List.filter_append]
        rw [← List.append_assoc, hpart]
        congr 1
        have hnm : x.reqs.length ∉ x.touts := fun hm => by
          have := htb _ hm
          omega
        simp [hnm]
      · intro y hy
        have hlt' := hlt y.1 (List.mem_append_left _ (List.mem_map_of_mem hy))
        show (x.reqs ++ [a])[y.1]? = some y.2
        rw [hold _ hlt']; exact hgr y hy
      · intro k hk
        have := htb k hk
        show k < (x.reqs ++ [a]).length
        simp; omega
  | wait a timed =>
    simp only [xstep, Except.ok.injEq, Prod.mk.injEq] at h
    obtain ⟨rfl, -⟩ := h
    cases hg : x.hgrant a with
    | true =>
      have : x.s.waitFor a true timed = (x.s, some (.flag (semFinish false false true))) := by simp [Sem.waitFor]
      simp only [this]
      exact ⟨hc, he, hpar, hpart, hgr, htb⟩
    | false =>
      have : x.s.waitFor a false timed = ({ x.s with queue := markS a timed x.s.queue }, none) := by simp [Sem.waitFor]
      simp only [this]
      refine ⟨hc, ?_, ?_, hpart, hgr, htb⟩
      · intro hq
        apply he
        intro hq0
        apply hq
        show markS a timed x.s.queue = []
        rw [hq0]; rfl
      · show x.tq.map (fun k => x.reqs[k]?) = (markS a timed x.s.queue).map (fun q => some q.issuer)
        rw [markS_issuers]; exact hpar
  | release a =>
    simp only [xstep] at h
    cases hqq : x.s.queue with
    | nil =>
      have hr : x.s.release = ({ x.s with value := x.s.value + 1 }, none) := by simp [Sem.release, hqq]
      simp only [hr, Except.ok.injEq, Prod.mk.injEq] at h
      obtain ⟨rfl, -⟩ := h
      refine ⟨?_, ?_, ?_, hpart, hgr, htb⟩
      · show x.s.value + 1 + x.grants = x.cap + (x.releases + 1)
        omega
      · intro hne; exact absurd hqq hne
      · exact hpar
    | cons acq rest =>
      have hr : x.s.release = ({ x.s with queue := rest }, some acq) := by simp [Sem.release, hqq]
      cases htq : x.tq with
      | nil => rw [htq, hqq] at hlen; simp at hlen
      | cons k ks =>
        simp only [hr, htq, Except.ok.injEq, Prod.mk.injEq] at h
        obtain ⟨rfl, -⟩ := h
        have hz := he (by simp [hqq])
        rw [htq, hqq] at hpar
        simp only [List.map_cons, List.cons.injEq] at hpar
        refine ⟨?_, ?_, ?_, ?_, ?_, htb⟩
        · show x.s.value + (x.grants + 1) = x.cap + (x.releases + 1)
          omega
        · intro _; exact hz
        · exact hpar.2
        · show (x.granted ++ [(k, acq.issuer)]).map (·.1) ++ ks = _
          simp only [List.map_append, List.map_cons, List.map_nil, List.append_assoc, List.cons_append,
            List.nil_append]
          rw [← hpart, htq]
        · intro y hy
          rcases List.mem_append.mp hy with hy | hy
          · exact hgr y hy
          · simp only [List.mem_singleton] at hy
            subst hy
            exact hpar.1
  | timeout a =>
    simp only [xstep] at h
    split at h
    · simp at h
    · rename_i s1 r hs
      simp only [Except.ok.injEq, Prod.mk.injEq] at h
      obtain ⟨rfl, -⟩ := h
      unfold Sem.timeout at hs
      split at hs
      · rename_i hh
        simp only [Except.ok.injEq, Prod.mk.injEq] at hs
        obtain ⟨rfl, -⟩ := hs
        have hex : ∃ q ∈ x.s.queue, q.issuer = a := by
          simp only [List.any_eq_true, decide_eq_true_eq] at hh
          obtain ⟨q, hq, h1, -⟩ := hh
          exact ⟨q, hq, h1⟩
        obtain ⟨k, hk1, hk2, hk3⟩ := eraseTicket_some a x.s.queue x.tq hlen hex
        have hnd : (x.granted.map (·.1) ++ x.tq).Nodup := by
          rw [hpart]; exact List.Pairwise.filter _ List.nodup_range
        have hndq : x.tq.Nodup := (List.nodup_append.mp hnd).2.1
        have hkg : k ∉ x.granted.map (·.1) := fun hm => (List.nodup_append.mp hnd).2.2 k hm k hk2 rfl
        simp only [hk1, Option.toList_some]
        refine ⟨hc, ?_, ?_, ?_, hgr, ?_⟩
        · intro hne
          apply he
          intro hq
          apply hne
          show eraseS a x.s.queue = []
          rw [hq]; rfl
        · exact eraseTicket_par a _ _ _ hpar
        · show x.granted.map (·.1) ++ (eraseTicket a x.s.queue x.tq).1 =
            (List.range x.reqs.length).filter (fun j => !(x.touts ++ [k]).contains j)
          simp only [filter_contains_snoc, ← hpart, List.filter_append, hk3 hndq]
          congr 1
          symm
          apply List.filter_eq_self.mpr
          intro j hj
          simp only [bne_iff_ne, ne_eq]
          intro e; subst e; exact hkg hj
        · intro j hj
          rcases List.mem_append.mp hj with hj | hj
          · exact htb j hj
          · simp only [List.mem_singleton] at hj
            subst hj
            exact hlt j (List.mem_append_right _ hk2)
      · simp at hs

theorem xinv_run (es : List XEv) : ∀ {x x' : XSt} {o : Outs}, XInv x → xrun x es = .ok (x', o) → XInv x' := by
  induction es with
  | nil => intro x x' o hi h; simp [xrun] at h; obtain ⟨rfl, -⟩ := h; exact hi
  | cons e es ih =>
    intro x x' o hi h
    simp only [xrun] at h
    split at h
    · simp at h
    · rename_i x1 o1 he
      split at h
      · simp at h
      · rename_i x2 o2 hr
        simp only [Except.ok.injEq, Prod.mk.injEq] at h
        obtain ⟨rfl, -⟩ := h
        exact ih (xinv_step hi he) hr

theorem xrun_cap (es : List XEv) : ∀ {x x' : XSt} {o : Outs}, xrun x es = .ok (x', o) → x'.cap = x.cap := by
  induction es with
  | nil => intro x x' o h; simp [xrun] at h; rw [h.1]
  | cons e es ih =>
    intro x x' o h
    simp only [xrun] at h
    split at h
    · simp at h
    · rename_i x1 o1 he
      split at h
      · simp at h
      · rename_i x2 o2 hr
        simp only [Except.ok.injEq, Prod.mk.injEq] at h
        obtain ⟨rfl, -⟩ := h
        rw [ih hr]
        cases e <;> simp only [xstep] at he
        · simp only [Except.ok.injEq, Prod.mk.injEq] at he; rw [← he.1]
        · simp only [Except.ok.injEq, Prod.mk.injEq] at he; rw [← he.1]
        · split at he <;> (simp only [Except.ok.injEq, Prod.mk.injEq] at he; rw [← he.1])
        · split at he
          · simp at he
          · simp only [Except.ok.injEq, Prod.mk.injEq] at he; rw [← he.1]

end SgVerif.C05
