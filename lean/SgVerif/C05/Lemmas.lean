/-
C05 — helper lemmas: what one event does to `ongoing_acquisitions_`, and the invariant of the ticket ghosts
(`GSt`, C05/Model.lean) behind the history-level FIFO theorem `sem_fifo`.  Core only.
-/
import SgVerif.C05.Model
namespace SgVerif.C05
open SgVerif.Sync

theorem markS_fresh (a : Aid) (timed : Bool) (q : List SAcq) (hq : ∀ x ∈ q, x.issuer ≠ a) :
    markS a timed (q ++ [{ issuer := a }]) = q ++ [{ issuer := a, waited := true, timed := timed }] := by
  induction q with
  | nil => simp [markS]
  | cons x xs ih =>
    have hx : x.issuer ≠ a := hq x (by simp)
    simp only [List.cons_append, markS, hx, if_false]
    rw [ih (fun y hy => hq y (by simp [hy]))]

theorem eraseS_mem {a : Aid} {q : List SAcq} {x : SAcq} (h : x ∈ eraseS a q) : x ∈ q := by
  induction q with
  | nil => simp [eraseS] at h
  | cons y ys ih =>
    simp only [eraseS] at h
    split at h
    · exact List.mem_cons_of_mem _ h
    · rcases List.mem_cons.mp h with rfl | h'
      · exact List.mem_cons_self
      · exact List.mem_cons_of_mem _ (ih h')

/-! ### one event, seen from the queue -/

/-- `acquire`: either a token was there (queue untouched, answered at once without timeout) or the request is appended at
the tail, registered -/
theorem step_acquire_queue {t t' : St} {a : Aid} {timed : Bool} {o : Outs}
    (h : step t (.acquire a timed) = .ok (t', o)) :
    (0 < t.s.value ∧ t'.s.queue = t.s.queue ∧ o = [(a, .flag false)]) ∨
    (t.s.value = 0 ∧ t'.s.queue = t.s.queue ++ [{ issuer := a, waited := true, timed := timed }] ∧ o = []) := by
  simp only [step] at h
  split at h
  · simp at h
  · rename_i hb
    have hb : ∀ x ∈ t.s.queue, x.issuer ≠ a := by
      intro x hx hxa
      apply hb
      simp only [blocked, List.any_eq_true, decide_eq_true_eq]
      exact ⟨x, hx, hxa⟩
    simp only [Except.ok.injEq, Prod.mk.injEq] at h
    obtain ⟨rfl, rfl⟩ := h
    by_cases hv : t.s.value > 0
    · left
      have : t.s.acquireAsync a = ({ t.s with value := t.s.value - 1 }, true) := by simp [Sem.acquireAsync, hv]
      simp [this, Sem.waitFor, hv, optOut, semFinish]
    · right
      have : t.s.acquireAsync a = ({ t.s with queue := t.s.queue ++ [{ issuer := a }] }, false) := by
        simp [Sem.acquireAsync, hv]
      simp only [this, Sem.waitFor, Bool.false_eq_true, if_false, markS_fresh a timed t.s.queue hb, optOut]
      simpa using (by omega : t.s.value = 0)

/-- `release`: pops the head (if any) — the popped acquisition is the head of the queue -/
theorem step_release_queue {t t' : St} {a : Aid} {o : Outs} (h : step t (.release a) = .ok (t', o)) :
    t'.s.queue = t.s.queue.tail ∧ t.s.release.2 = t.s.queue.head? := by
  simp only [step] at h
  split at h
  · simp at h
  · simp only [Except.ok.injEq, Prod.mk.injEq] at h
    obtain ⟨rfl, -⟩ := h
    cases hq : t.s.queue <;> simp [Sem.release, hq]

/-- the timer event: `cancel()` erases the issuer's acquisition, which is in the queue -/
theorem step_timeout_queue {t t' : St} {a : Aid} {o : Outs} (h : step t (.timeout a) = .ok (t', o)) :
    t'.s.queue = eraseS a t.s.queue ∧ ∃ x ∈ t.s.queue, x.issuer = a := by
  simp only [step] at h
  split at h
  · simp at h
  · rename_i s1 r hs
    simp only [Except.ok.injEq, Prod.mk.injEq] at h
    obtain ⟨rfl, -⟩ := h
    unfold Sem.timeout at hs
    split at hs
    · rename_i hh
      simp only [Except.ok.injEq, Prod.mk.injEq] at hs
      obtain ⟨rfl, -⟩ := hs
      simp only [List.any_eq_true, decide_eq_true_eq] at hh
      obtain ⟨q, hq, h1, -⟩ := hh
      exact ⟨rfl, q, hq, h1⟩
    · simp at hs

/-! ### `eraseTicket` follows `eraseS` -/

theorem eraseTicket_par (a : Aid) (f : Nat → Option Aid) : ∀ (q : List SAcq) (tq : List Nat),
    tq.map f = q.map (fun x => some x.issuer) →
    (eraseTicket a q tq).1.map f = (eraseS a q).map (fun x => some x.issuer)
  | [], [], _ => by simp [eraseTicket, eraseS]
  | [], _ :: _, h => by simp at h
  | _ :: _, [], h => by simp at h
  | x :: xs, k :: ks, h => by
    simp only [List.map_cons, List.cons.injEq] at h
    simp only [eraseTicket, eraseS]
    split
    · exact h.2
    · simp only [List.map_cons, List.cons.injEq]
      exact ⟨h.1, eraseTicket_par a f xs ks h.2⟩

theorem eraseTicket_some (a : Aid) : ∀ (q : List SAcq) (tq : List Nat), tq.length = q.length →
    (∃ x ∈ q, x.issuer = a) →
    ∃ k, (eraseTicket a q tq).2 = some k ∧ k ∈ tq ∧ (tq.Nodup → (eraseTicket a q tq).1 = tq.filter (fun j => j != k))
  | [], _, _, h => by simp at h
  | _ :: _, [], h, _ => by simp at h
  | x :: xs, k :: ks, hl, hex => by
    simp only [eraseTicket]
    split
    · refine ⟨k, rfl, by simp, ?_⟩
      intro hnd
      have hk : k ∉ ks := (List.nodup_cons.mp hnd).1
      simp only [List.filter_cons, bne_self_eq_false, Bool.false_eq_true, if_false]
      symm
      apply List.filter_eq_self.mpr
      intro j hj
      simp only [bne_iff_ne, ne_eq]
      intro e; subst e; exact hk hj
    · rename_i hx
      have hex' : ∃ y ∈ xs, y.issuer = a := by
        obtain ⟨y, hy, hya⟩ := hex
        rcases List.mem_cons.mp hy with rfl | hy
        · exact absurd hya hx
        · exact ⟨y, hy, hya⟩
      obtain ⟨k', h1, h2, h3⟩ := eraseTicket_some a xs ks (by simpa using hl) hex'
      refine ⟨k', h1, List.mem_cons_of_mem _ h2, ?_⟩
      intro hnd
      have hk : k ∉ ks := (List.nodup_cons.mp hnd).1
      have hne : k ≠ k' := fun e => hk (e ▸ h2)
      simp only [List.filter_cons, bne_iff_ne, ne_eq, hne, not_false_eq_true, if_true]
      rw [h3 (List.nodup_cons.mp hnd).2]

/-! ### the invariant of the ticket ghosts -/

structure GInv (g : GSt) : Prop where
  /-- the tickets in `tq` are those of the acquisitions in `ongoing_acquisitions_`, position by position -/
  par : g.tq.map (fun k => g.reqs[k]?) = g.t.s.queue.map (fun x => some x.issuer)
  /-- grants made so far, then the queue = all tickets in request order, minus the timed-out ones -/
  part : g.granted.map (·.1) ++ g.tq = (List.range g.reqs.length).filter (fun k => !g.touts.contains k)
  /-- a grant goes to the actor that made the request -/
  gr : ∀ x ∈ g.granted, g.reqs[x.1]? = some x.2
  tb : ∀ k ∈ g.touts, k < g.reqs.length

theorem ginv_init (c : Nat) : GInv (GSt.init c) := by
  constructor <;> simp [GSt.init, St.init]

theorem GInv.len {g : GSt} (hi : GInv g) : g.tq.length = g.t.s.queue.length := by
  have := congrArg List.length hi.par
  simpa using this

theorem GInv.lt {g : GSt} (hi : GInv g) : ∀ k, k ∈ g.granted.map (·.1) ++ g.tq → k < g.reqs.length := by
  intro k hk
  rw [hi.part] at hk
  exact List.mem_range.mp (List.mem_filter.mp hk).1

theorem GInv.nodup {g : GSt} (hi : GInv g) : (g.granted.map (·.1) ++ g.tq).Nodup := by
  rw [hi.part]
  exact List.Pairwise.filter _ List.nodup_range

theorem granted_queue_sorted {g : GSt} (hi : GInv g) : (g.granted.map (·.1) ++ g.tq).Pairwise (· < ·) := by
  rw [hi.part]
  exact List.Pairwise.filter _ List.pairwise_lt_range

theorem filter_contains_snoc (l touts : List Nat) (k : Nat) :
    l.filter (fun j => !(touts ++ [k]).contains j) = (l.filter (fun j => !touts.contains j)).filter (fun j => j != k) := by
  rw [List.filter_filter]
  apply List.filter_congr
  intro j _
  by_cases e : j = k
  · subst e; simp
  · simp [e]

theorem ginv_step {g g' : GSt} {e : SEv} {o : Outs} (hi : GInv g) (h : gstep g e = .ok (g', o)) : GInv g' := by
  unfold gstep at h
  split at h
  · simp at h
  · rename_i t' o' hs
    simp only [Except.ok.injEq, Prod.mk.injEq] at h
    obtain ⟨rfl, -⟩ := h
    have hlen := hi.len
    cases e with
    | acquire a timed =>
      rcases step_acquire_queue hs with ⟨-, hq, -⟩ | ⟨-, hq, -⟩
      · simp only [hq, Nat.lt_irrefl, if_false]
        exact ⟨by simpa [hq] using hi.par, hi.part, hi.gr, hi.tb⟩
      · have hgrow : g.t.s.queue.length < t'.s.queue.length := by rw [hq]; simp
        simp only [hgrow, if_true]
        have hold : ∀ k, k < g.reqs.length → (g.reqs ++ [a])[k]? = g.reqs[k]? :=
          fun k hk => List.getElem?_append_left hk
        refine ⟨?_, ?_, ?_, ?_⟩
        · simp only [List.map_append, List.map_cons, List.map_nil, hq]
          congr 1
          · rw [← hi.par]
            apply List.map_congr_left
            intro k hk
            exact hold k (hi.lt k (List.mem_append_right _ hk))
          · simp
        · simp only [List.length_append, List.length_cons, List.length_nil, Nat.zero_add, List.range_succ,
            List.filter_append]
          rw [← List.append_assoc, hi.part]
          congr 1
          have hnm : g.reqs.length ∉ g.touts := fun hm => by
            have := hi.tb _ hm
            omega
          simp [hnm]
        · intro x hx
          have hlt := hi.lt x.1 (List.mem_append_left _ (List.mem_map_of_mem hx))
          rw [hold _ hlt]; exact hi.gr x hx
        · intro k hk
          have := hi.tb k hk
          simp; omega
    | release a =>
      obtain ⟨hq, hpop⟩ := step_release_queue hs
      cases hqq : g.t.s.queue with
      | nil =>
        have htq : g.tq = [] := List.eq_nil_of_length_eq_zero (by rw [hlen, hqq]; rfl)
        simp only [hpop, hqq, List.head?_nil]
        exact ⟨by simpa [hq, hqq, htq] using hi.par, hi.part, hi.gr, hi.tb⟩
      | cons acq rest =>
        cases htq : g.tq with
        | nil => rw [htq, hqq] at hlen; simp at hlen
        | cons k ks =>
          simp only [hpop, hqq, List.head?_cons]
          have hpar := hi.par
          rw [htq, hqq] at hpar
          simp only [List.map_cons, List.cons.injEq] at hpar
          refine ⟨?_, ?_, ?_, hi.tb⟩
          · simpa [hq, hqq] using hpar.2
          · simp only [List.map_append, List.map_cons, List.map_nil, List.append_assoc, List.cons_append,
              List.nil_append]
            rw [← hi.part, htq]
          · intro x hx
            rcases List.mem_append.mp hx with hx | hx
            · exact hi.gr x hx
            · simp only [List.mem_singleton] at hx
              subst hx
              exact hpar.1
    | timeout a =>
      obtain ⟨hq, hex⟩ := step_timeout_queue hs
      obtain ⟨k, hk1, hk2, hk3⟩ := eraseTicket_some a g.t.s.queue g.tq hlen hex
      have hnd := hi.nodup
      have hndq : g.tq.Nodup := (List.nodup_append.mp hnd).2.1
      have hkg : k ∉ g.granted.map (·.1) := fun hm => (List.nodup_append.mp hnd).2.2 k hm k hk2 rfl
      simp only [hk1, Option.toList_some]
      refine ⟨?_, ?_, hi.gr, ?_⟩
      · simp only [hq]
        exact eraseTicket_par a _ _ _ hi.par
      · simp only [filter_contains_snoc, ← hi.part, List.filter_append, hk3 hndq]
        congr 1
        symm
        apply List.filter_eq_self.mpr
        intro j hj
        simp only [bne_iff_ne, ne_eq]
        intro e; subst e; exact hkg hj
      · intro j hj
        rcases List.mem_append.mp hj with hj | hj
        · exact hi.tb j hj
        · simp only [List.mem_singleton] at hj
          subst hj
          exact hi.lt j (List.mem_append_right _ hk2)

theorem ginv_run (es : List SEv) {g g' : GSt} {o : Outs} (hi : GInv g) (h : grun g es = .ok (g', o)) : GInv g' := by
  induction es generalizing g o with
  | nil => simp [grun] at h; obtain ⟨rfl, -⟩ := h; exact hi
  | cons e es ih =>
    simp only [grun] at h
    split at h
    · simp at h
    · rename_i g1 o1 he
      split at h
      · simp at h
      · rename_i g2 o2 hr
        simp only [Except.ok.injEq, Prod.mk.injEq] at h
        obtain ⟨rfl, -⟩ := h
        exact ih (ginv_step hi he) hr

/-- the ghosts do not influence the run: a `gstep` is a `step` with tickets attached -/
theorem gstep_t {g g' : GSt} {e : SEv} {o : Outs} (h : gstep g e = .ok (g', o)) : step g.t e = .ok (g'.t, o) := by
  unfold gstep at h
  split at h
  · simp at h
  · rename_i t' o' hs
    simp only [Except.ok.injEq, Prod.mk.injEq] at h
    obtain ⟨rfl, rfl⟩ := h
    rw [hs]
    cases e with
    | acquire a timed => simp only; split <;> rfl
    | release a => simp only; split <;> rfl
    | timeout a => rfl

theorem gstep_of_step {g : GSt} {e : SEv} {t' : St} {o : Outs} (h : step g.t e = .ok (t', o)) :
    ∃ g', gstep g e = .ok (g', o) ∧ g'.t = t' := by
  unfold gstep
  rw [h]
  refine ⟨_, rfl, ?_⟩
  cases e with
  | acquire a timed => simp only; split <;> rfl
  | release a => simp only; split <;> rfl
  | timeout a => rfl

theorem grun_t (es : List SEv) : ∀ {g g' : GSt} {o : Outs}, grun g es = .ok (g', o) → run g.t es = .ok (g'.t, o) := by
  induction es with
  | nil => intro g g' o h; simp [grun] at h; obtain ⟨rfl, rfl⟩ := h; rfl
  | cons e es ih =>
    intro g g' o h
    simp only [grun] at h
    split at h
    · simp at h
    · rename_i g1 o1 he
      split at h
      · simp at h
      · rename_i g2 o2 hr
        simp only [Except.ok.injEq, Prod.mk.injEq] at h
        obtain ⟨rfl, rfl⟩ := h
        simp only [run, gstep_t he, ih hr]

theorem grun_of_run (es : List SEv) : ∀ {g : GSt} {t' : St} {o : Outs}, run g.t es = .ok (t', o) →
    ∃ g', grun g es = .ok (g', o) ∧ g'.t = t' := by
  induction es with
  | nil => intro g t' o h; simp [run] at h; obtain ⟨rfl, rfl⟩ := h; exact ⟨g, rfl, rfl⟩
  | cons e es ih =>
    intro g t' o h
    simp only [run] at h
    split at h
    · simp at h
    · rename_i t1 o1 he
      split at h
      · simp at h
      · rename_i t2 o2 hr
        simp only [Except.ok.injEq, Prod.mk.injEq] at h
        obtain ⟨rfl, rfl⟩ := h
        obtain ⟨g1, hg1, rfl⟩ := gstep_of_step he
        obtain ⟨g2, hg2, rfl⟩ := ih hr
        exact ⟨g2, by simp only [grun, hg1, hg2], rfl⟩

end SgVerif.C05
