/- Driver of C05: the shared trace-acceptance driver of the synchronisation family (SgVerif/Sync/DriverLib.lean). -/
import SgVerif.Sync.DriverLib

def main : IO Unit := SgVerif.Sync.driverMain
