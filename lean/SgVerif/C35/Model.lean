/-
C35 — model of the private-block arithmetic of partially shared buffers:
`shift_and_frame_private_blocks`, `merge_private_blocks` (src/smpi/internals/smpi_shared.cpp) and the copy done by
`smpi_comm_copy_buffer_callback` / `memcpy_private` (src/smpi/internals/smpi_global.cpp).

`size_t` is modelled by `Nat` with EXPLICIT wrap-around modulo 2^64 (`subWrap`); blocks are pairs `(begin, end)`.
Buffers are functions from byte index to byte value.
-/
namespace SgVerif.C35

abbrev Block := Nat × Nat

/-- 2^64 -/
def W : Nat := 18446744073709551616

/-- `a - b` on `size_t` (operands `< 2^64`) -/
def subWrap (a b : Nat) : Nat := (a + W - b) % W

/-- `std::clamp(v, lo, hi)` = `(v < lo) ? lo : (hi < v) ? hi : v` -/
def clamp (v lo hi : Nat) : Nat := if v < lo then lo else if hi < v then hi else v

/-
  for (auto const& [block_begin, block_end] : vec) {
    auto new_block = std::make_pair(std::clamp(block_begin - offset, (size_t)0, buff_size),
                                    std::clamp(block_end - offset, (size_t)0, buff_size));
    if (new_block.second > 0 && new_block.first < buff_size)
      result.push_back(new_block);
  }
-/
def shiftFrame (vec : List Block) (offset buffSize : Nat) : List Block :=
  vec.filterMap fun blk =>
    let nb : Block := (clamp (subWrap blk.1 offset) 0 buffSize, clamp (subWrap blk.2 offset) 0 buffSize)
    if nb.2 > 0 ∧ nb.1 < buffSize then some nb else none

/-- the same loop with props/C35/proposed_fix.diff applied:
    std::make_pair(std::min(block_begin - std::min(block_begin, offset), buff_size),
                   std::min(block_end - std::min(block_end, offset), buff_size))        (no subtraction can wrap) -/
def shiftFrameFixed (vec : List Block) (offset buffSize : Nat) : List Block :=
  vec.filterMap fun blk =>
    let nb : Block := (Nat.min (subWrap blk.1 (Nat.min blk.1 offset)) buffSize,
                       Nat.min (subWrap blk.2 (Nat.min blk.2 offset)) buffSize)
    if nb.2 > 0 ∧ nb.1 < buffSize then some nb else none

/-
  while(i_src < src.size() && i_dst < dst.size()) {
    if(src[i_src].second <= dst[i_dst].first) i_src++;
    else if(dst[i_dst].second <= src[i_src].first) i_dst++;
    else {
      result.push_back({max(src[i_src].first, dst[i_dst].first), min(src[i_src].second, dst[i_dst].second)});
      if(src[i_src].second < dst[i_dst].second) i_src++; else i_dst++;
    }
  }
The two indices are the two list suffixes; each iteration drops one head, so `src.size() + dst.size()` iterations
suffice (`fuel`).
-/
def mergeFuel : Nat → List Block → List Block → List Block
  | fuel + 1, s :: ss, d :: ds =>
    if s.2 ≤ d.1 then mergeFuel fuel ss (d :: ds)
    else if d.2 ≤ s.1 then mergeFuel fuel (s :: ss) ds
    else (Nat.max s.1 d.1, Nat.min s.2 d.2) ::
      (if s.2 < d.2 then mergeFuel fuel ss (d :: ds) else mergeFuel fuel (s :: ss) ds)
  | _, _, _ => []

def merge (src dst : List Block) : List Block := mergeFuel (src.length + dst.length) src dst

abbrev Buf := Nat → Nat

/-- `memcpy((uint8_t*)dest + block_begin, (uint8_t*)src + block_begin, block_end - block_begin)` -/
def copyBlock (dest src : Buf) (b : Block) : Buf := fun x => if b.1 ≤ x ∧ x < b.2 then src x else dest x

/-- `static void memcpy_private(void* dest, const void* src, const std::vector<…>& private_blocks)` -/
def memcpyPrivate (dest src : Buf) (blocks : List Block) : Buf := blocks.foldl (fun d b => copyBlock d src b) dest

/-- what `smpi_is_shared(ptr, blocks, &offset)` reports for a buffer: not in a shared allocation, or the private
blocks of the allocation and the offset of the buffer inside it -/
inductive BufKind where
  | notShared
  | shared (blocks : List Block) (offset : Nat)

/-
  if(smpi_is_shared(buff, src_private_blocks, &src_offset)) {
    src_private_blocks = shift_and_frame_private_blocks(src_private_blocks, src_offset, buff_size);
    if (src_private_blocks.empty()) { … return; }            // "simple shared malloc": nothing is copied
  } else { src_private_blocks.clear(); src_private_blocks.emplace_back(0, buff_size); }
-/
def framed (fixed : Bool) (k : BufKind) (buffSize : Nat) : Option (List Block) :=
  match k with
  | .notShared => some [(0, buffSize)]
  | .shared blocks offset =>
    let r := if fixed then shiftFrameFixed blocks offset buffSize else shiftFrame blocks offset buffSize
    if r.isEmpty then none else some r

/-- `smpi_comm_copy_buffer_callback`: the content of the receive buffer afterwards.  `viaTmp`: the source lies in a
privatized global segment and is first copied (private blocks only) to a temporary buffer `tmp` (arbitrary content). -/
def callback (fixed : Bool) (srcK dstK : BufKind) (buffSize : Nat) (viaTmp : Bool) (src dst tmp : Buf) : Buf :=
  match framed fixed srcK buffSize with
  | none => dst
  | some s =>
    match framed fixed dstK buffSize with
    | none => dst
    | some d =>
      let pb := merge s d
      if viaTmp then memcpyPrivate dst (memcpyPrivate tmp src pb) pb else memcpyPrivate dst src pb

/-! ### specification -/

/-- byte `x` lies in one of the blocks -/
def Covered (l : List Block) (x : Nat) : Prop := ∃ b ∈ l, b.1 ≤ x ∧ x < b.2

/-- blocks as `smpi_shared_malloc` stores them: non-empty, increasing, disjoint -/
def Sorted : List Block → Prop
  | [] => True
  | b :: rest => b.1 < b.2 ∧ (∀ c ∈ rest, b.2 ≤ c.1) ∧ Sorted rest

/-- `[b − o, e − o) ∩ [0, n)` in ordinary integer arithmetic, `none` when empty -/
def frameOne (offset n : Nat) (blk : Block) : Option Block :=
  let lo := blk.1 - offset            -- truncated subtraction = max(b − o, 0)
  let hi := Nat.min (blk.2 - offset) n
  if lo < hi then some (lo, hi) else none

def shiftFrameSpec (vec : List Block) (offset n : Nat) : List Block := vec.filterMap (frameOne offset n)

end SgVerif.C35
