import SgVerif.C35.Model
/-
C35 — which buffers `smpi_comm_copy_buffer_callback` sees, per send mode (src/smpi/mpi/smpi_request.cpp `Request::start`,
src/kernel/activity/CommImpl.cpp `CommImpl::copy_data`), for basic (non-derived) datatypes.

`Request::start`, send side:
    if ((flags_ & MPI_REQ_SSEND) == 0 &&
        ((flags_ & MPI_REQ_RMA) != 0 || (flags_ & MPI_REQ_BSEND) != 0 || size_ < smpi_cfg_detached_send_thresh())) {
      detached_ = true; …
      if (not(type_->flags() & DT_FLAG_DERIVED)) { … buf = xbt_malloc(size_); memcpy(buf, oldbuf, size_); }
    }
    … simcall isend(…, buf, real_size_, …, &smpi_comm_copy_buffer_callback, …)
 * eager    : an ordinary send below `smpi/send-is-detached-thresh`  — the WHOLE message (shared regions included) is
              copied into a fresh heap buffer when the send starts; the callback later gets that buffer, for which
              `smpi_is_shared` answers false: source blocks = {[0, n)}.
 * detached : MPI_Bsend and the RMA sends, of any size — the same heap copy.
 * rendezvous (MPI_Ssend, or size ≥ threshold): the callback gets the user's send buffer itself (the sender is blocked, or
              — MPI_Isend — must not touch the buffer, until the transfer is done).
`CommImpl::copy_data`: buff_size = min(src_buff_size_, *dst_buff_size_); no callback when it is 0.
Core only.
-/
namespace SgVerif.C35

inductive Mode where
  | eager | detached | rendezvous
  deriving DecidableEq, Repr

/-- the condition of `Request::start` -/
def modeOf (ssend bsend rma : Bool) (size thresh : Nat) : Mode :=
  if ssend then .rendezvous
  else if rma || bsend then .detached
  else if size < thresh then .eager
  else .rendezvous

/-- does the send start with `buf = xbt_malloc(size_); memcpy(buf, oldbuf, size_)`? -/
def Mode.heapCopy : Mode → Bool
  | .rendezvous => false
  | _ => true

/-- what the callback receives as `buff`: its `smpi_is_shared` description and its content.  `userAtSend` = the user's send
    buffer when the send started, `userAtCopy` = when the data is copied. -/
def seenBuffer (m : Mode) (userK : BufKind) (userAtSend userAtCopy : Buf) : BufKind × Buf :=
  if m.heapCopy then (.notShared, userAtSend) else (userK, userAtCopy)

/-- the receive buffer after the transfer: `CommImpl::copy_data` + `smpi_comm_copy_buffer_callback` (repaired
    `shift_and_frame_private_blocks`, commit 25351bd1c9) -/
def transfer (m : Mode) (srcK dstK : BufKind) (nSend nRecv : Nat) (viaTmp : Bool) (userAtSend userAtCopy dst tmp : Buf) : Buf :=
  let n := Nat.min nSend nRecv
  if n = 0 then dst
  else
    let seen := seenBuffer m srcK userAtSend userAtCopy
    callback true seen.1 dstK n viaTmp seen.2 dst tmp

end SgVerif.C35
