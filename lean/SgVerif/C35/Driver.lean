import SgVerif.C35.Model
import SgVerif.C35.Modes
import SgVerif.C35.Alloc
import SgVerif.Common.Proto
open SgVerif.Proto
namespace SgVerif.C35

def splitBar (l : List String) : List (List String) :=
  let rec go : List String → List String → List (List String) → List (List String)
    | [], cur, acc => (cur.reverse :: acc).reverse
    | "|" :: rest, cur, acc => go rest [] (cur.reverse :: acc)
    | t :: rest, cur, acc => go rest (t :: cur) acc
  go l [] []

def toBlocks : List Nat → List Block
  | b :: e :: rest => (b, e) :: toBlocks rest
  | _ => []

def showBlocks (l : List Block) : List String := l.flatMap (fun b => [toString b.1, toString b.2])

def covered (l : List Block) (x : Nat) : Bool := l.any (fun b => b.1 ≤ x && x < b.2)

def sortedB : List Block → Bool
  | [] => true
  | [b] => b.1 < b.2
  | b :: c :: rest => b.1 < b.2 && b.2 ≤ c.1 && sortedB (c :: rest)

def straddles (vec : List Block) (offset : Nat) : Bool := vec.any (fun b => b.1 < offset && offset < b.2)

def keyOf (str : Bool) : String := if str then "key=private-block-straddles-message-start" else "key=other"

def shiftM (fixed : Bool) (vec : List Block) (o n : Nat) : List Block :=
  if fixed then shiftFrameFixed vec o n else shiftFrame vec o n

/-- buffer description of a CP query: `-1` = not shared, else `offset blocks…` -/
def parseKind (p : List String) : Option BufKind :=
  match p with
  | "-1" :: _ => some .notShared
  | o :: rest => match o.toNat?, rest.mapM String.toNat? with
    | some o, some bl => some (.shared (toBlocks bl) o)
    | _, _ => none
  | [] => none

def privateIn (k : BufKind) (x : Nat) : Bool :=
  match k with
  | .notShared => true
  | .shared bl o => covered bl (x + o)

def kindStraddles : BufKind → Bool
  | .notShared => false
  | .shared bl o => straddles bl o

def judge (fixed : Bool) (q a : List String) : Verdict :=
  match q with
  | "SF" :: o :: n :: rest =>
    match o.toNat?, n.toNat?, (rest.drop 1).mapM String.toNat?, a.mapM String.toNat? with
    | some o, some n, some bl, some iv =>
      let vec := toBlocks bl
      let impl := toBlocks iv
      -- monitor: the implementation's answer is `[b−o, e−o) ∩ [0,n)` for every block, non-empty ones only
      if impl ≠ shiftFrameSpec vec o n then
        .monfail s!"{keyOf (straddles vec o)} result {impl}, intersection semantics gives {shiftFrameSpec vec o n}"
      else cmpAns (showBlocks (shiftM fixed vec o n)) a
    | _, _, _, _ => .bad
  | "MG" :: rest =>
    match splitBar rest, a.mapM String.toNat? with
    | [_, s, d], some iv =>
      match s.mapM String.toNat?, d.mapM String.toNat? with
      | some s, some d =>
        let s := toBlocks s; let d := toBlocks d; let impl := toBlocks iv
        let top := (s ++ d ++ impl).foldl (fun m b => Nat.max m b.2) 0
        if sortedB s && sortedB d && top ≤ 5000 then
          -- monitor: sorted non-empty result covering exactly the bytes covered by both inputs
          let bad := (List.range (top + 1)).filter (fun x => covered impl x != (covered s x && covered d x))
          if ¬ sortedB impl ∨ ¬ bad.isEmpty then .monfail s!"key=other result {impl}: bytes {bad.take 5} not the intersection, or unsorted"
          else cmpAns (showBlocks (merge s d)) a
        else cmpAns (showBlocks (merge s d)) a
      | _, _ => .bad
    | _, _ => .bad
  | "CP" :: n :: rest =>
    match n.toNat?, splitBar rest with
    | some n, [_, sp, dp] =>
      match parseKind sp, parseKind dp with
      | some sk, some dk =>
        let model : List String :=
          match framed fixed sk n, framed fixed dk n with
          | some s, some d => showBlocks (merge s d)
          | _, _ => ["IGN"]
        let impl : List Block := if a = ["IGN"] then [] else toBlocks (a.filterMap String.toNat?)
        -- monitor = the property: every byte of the message private on both sides is copied
        let missing := if n ≤ 5000 then (List.range n).filter (fun x => privateIn sk x && privateIn dk x && !covered impl x) else []
        if ¬ missing.isEmpty then
          .monfail s!"{keyOf (kindStraddles sk || kindStraddles dk)} private bytes {missing.take 5}… of the message are not copied"
        else cmpAns model a
      | _, _ => .bad
    | _, _ => .bad
  | "E2" :: mode :: ns :: nr :: rest =>
    -- end-to-end transfer (e2e.cpp): E2 <e|b|r> <nSend> <nRecv> | <send buffer kind> | <receive buffer kind> | (x src dst)* => (dst after)*
    match ns.toNat?, nr.toNat?, splitBar rest, a.mapM String.toNat? with
    | some ns, some nr, [_, sp, dp, sm], some after =>
      match parseKind sp, parseKind dp, sm.mapM String.toNat? with
      | some sk, some dk, some nums =>
        let rec triples : List Nat → List (Nat × Nat × Nat)
          | x :: sv :: dv :: r => (x, sv, dv) :: triples r
          | _ => []
        let tr := triples nums
        let m : Mode := if mode = "e" then .eager else if mode = "b" then .detached else .rendezvous
        let look (sel : Nat × Nat × Nat → Nat) : Buf := fun x => match tr.find? (fun t => t.1 == x) with | some t => sel t | none => 0
        let src := look (fun t => t.2.1)
        let dst := look (fun t => t.2.2)
        let n := Nat.min ns nr
        let pairs := tr.zip after
        -- monitor = the property: a byte of the transferred part that is private on both sides holds the sender's byte
        let bad := pairs.filter (fun p => p.1.1 < n && privateIn sk p.1.1 && privateIn dk p.1.1 && p.2 != p.1.2.1)
        if tr.length != after.length then .bad
        else if ¬ bad.isEmpty then
          .monfail s!"key=e2e-private-byte-not-transferred mode {mode}: bytes {bad.map (·.1.1) |>.take 5} private on both sides differ from the sender's"
        else
          -- model of the mode: which buffer the callback saw (compared on the receiver's private bytes only)
          let dis := pairs.filter (fun p => privateIn dk p.1.1 &&
            transfer m sk dk ns nr false src src dst (fun _ => 0) p.1.1 != p.2)
          if dis.isEmpty then .ok
          else .disagree s!"mode {mode}: bytes {dis.map (·.1.1) |>.take 5}: model {dis.map (fun p => transfer m sk dk ns nr false src src dst (fun _ => 0) p.1.1) |>.take 5} library {dis.map (·.2) |>.take 5}"
      | _, _, _ => .bad
    | _, _, _, _ => .bad
  | _ => .bad

/-! ### histories of shared allocations (e2e.cpp): the table of Alloc.lean is threaded through the log -/

structure ASt where
  table : MMap := []            -- model of `allocs_metadata`
  live : List LiveA := []       -- specification side: the live allocations

def showLookup : Option (List Block × Nat) → List String
  | none => ["-1"]
  | some (bl, o) => toString o :: showBlocks bl

/-- the specification's view of a buffer: the live allocation containing it, as requested by the program -/
def specKind (l : List LiveA) (ptr : Nat) : Option (LiveA × Nat) := (specLookup l ptr).map (fun a => (a, ptr - a.addr))

/-- byte `x` of a message at `ptr` is private by the REQUEST of the program: outside every requested shared block of the
    live allocation containing the buffer (or the buffer is ordinary memory) -/
def privateReq (k : Option (LiveA × Nat)) (x : Nat) : Bool :=
  match k with
  | none => true
  | some (a, o) => !covered a.shared (x + o)

def judgeS (fixed : Bool) (st : ASt) (q a : List String) : ASt × Verdict :=
  match q with
  | "AM" :: addr :: size :: rest =>
    match addr.toNat?, size.toNat?, (rest.drop 1).mapM String.toNat? with
    | some addr, some size, some sh =>
      let ev := AEvent.malloc addr size (toBlocks sh)
      -- the environment assumption of the theorems: a fresh mapping does not overlap a live one
      if freshB st.live ev then ({ table := astep st.table ev, live := lstep st.live ev }, .ok) else (st, .bad)
    | _, _, _ => (st, .bad)
  | ["AF", addr] =>
    match addr.toNat? with
    | some addr => ({ table := astep st.table (.free addr), live := lstep st.live (.free addr) }, .ok)
    | none => (st, .bad)
  | ["AP", ptr] =>
    match ptr.toNat? with
    | some ptr => (st, cmpAns (showLookup (isShared st.table ptr)) a)
    | none => (st, .bad)
  | "E3" :: mode :: ns :: nr :: ps :: pr :: rest =>
    -- E3 <e|b|r> <nSend> <nRecv> <ptrS> <ptrR> | <smpi_is_shared(ptrS)> | <smpi_is_shared(ptrR)> | (x src dst)* => (dst after)*
    match ns.toNat?, nr.toNat?, ps.toNat?, pr.toNat?, splitBar rest, a.mapM String.toNat? with
    | some ns, some nr, ps, pr, [_, sp, dp, sm], some after =>
      match ps, pr, sm.mapM String.toNat? with
      | some ps, some pr, some nums =>
        let rec triples : List Nat → List (Nat × Nat × Nat)
          | x :: sv :: dv :: r => (x, sv, dv) :: triples r
          | _ => []
        let tr := triples nums
        let m : Mode := if mode = "e" then .eager else if mode = "b" then .detached else .rendezvous
        let look (sel : Nat × Nat × Nat → Nat) : Buf := fun x => match tr.find? (fun t => t.1 == x) with | some t => sel t | none => 0
        let src := look (fun t => t.2.1)
        let dst := look (fun t => t.2.2)
        let n := Nat.min ns nr
        let pairs := tr.zip after
        let ks := specKind st.live ps
        let kr := specKind st.live pr
        -- monitor = the property: a byte of the transferred part lying in no requested shared block of either allocation
        -- holds the sender's byte
        let bad := pairs.filter (fun p => p.1.1 < n && privateReq ks p.1.1 && privateReq kr p.1.1 && p.2 != p.1.2.1)
        if tr.length != after.length then (st, .bad)
        else if ¬ bad.isEmpty then
          (st, .monfail s!"key=e2e-private-byte-not-transferred mode {mode}: bytes {bad.map (·.1.1) |>.take 5} private on both sides differ from the sender's (smpi_is_shared said: send buffer {sp}, receive buffer {dp}; live allocations: send {ks.map (fun k => (k.1.size, k.1.shared, k.2))}, receive {kr.map (fun k => (k.1.size, k.1.shared, k.2))})")
        else
          -- model: the table's answer for both buffers, then the mode model on the receiver's private bytes
          let ms := isShared st.table ps
          let mr := isShared st.table pr
          if showLookup ms ≠ sp ∨ showLookup mr ≠ dp then
            (st, .disagree s!"lookup: model {showLookup ms} | {showLookup mr}")
          else
            let sk := kindOfLookup ms
            let dk := kindOfLookup mr
            let dis := pairs.filter (fun p => privateIn dk p.1.1 &&
              transfer m sk dk ns nr false src src dst (fun _ => 0) p.1.1 != p.2)
            if dis.isEmpty then (st, .ok)
            else (st, .disagree s!"mode {mode}: bytes {dis.map (·.1.1) |>.take 5}: model {dis.map (fun p => transfer m sk dk ns nr false src src dst (fun _ => 0) p.1.1) |>.take 5} library {dis.map (·.2) |>.take 5}")
      | _, _, _ => (st, .bad)
    | _, _, _, _, _, _ => (st, .bad)
  | _ => (st, judge fixed q a)

end SgVerif.C35

/-- argument `fixed` selects the model of the code with props/C35/proposed_fix.diff applied -/
def main (args : List String) : IO Unit := SgVerif.Proto.runS ({} : SgVerif.C35.ASt) (SgVerif.C35.judgeS (args.contains "fixed"))
