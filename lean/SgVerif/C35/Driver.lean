import SgVerif.C35.Model
import SgVerif.Common.Proto
open SgVerif.Proto
namespace SgVerif.C35

def splitBar (l : List String) : List (List String) :=
  let rec go : List String → List String → List (List String) → List (List String)
    | [], cur, acc => (cur.reverse :: acc).reverse
    | "|" :: rest, cur, acc => go rest [] (cur.reverse :: acc)
    | t :: rest, cur, acc => go rest (t :: cur) acc
  go l [] []

def toBlocks : List Nat → List Block
  | b :: e :: rest => (b, e) :: toBlocks rest
  | _ => []

def showBlocks (l : List Block) : List String := l.flatMap (fun b => [toString b.1, toString b.2])

def covered (l : List Block) (x : Nat) : Bool := l.any (fun b => b.1 ≤ x && x < b.2)

def sortedB : List Block → Bool
  | [] => true
  | [b] => b.1 < b.2
  | b :: c :: rest => b.1 < b.2 && b.2 ≤ c.1 && sortedB (c :: rest)

def straddles (vec : List Block) (offset : Nat) : Bool := vec.any (fun b => b.1 < offset && offset < b.2)

def keyOf (str : Bool) : String := if str then "key=private-block-straddles-message-start" else "key=other"

def shiftM (fixed : Bool) (vec : List Block) (o n : Nat) : List Block :=
  if fixed then shiftFrameFixed vec o n else shiftFrame vec o n

/-- buffer description of a CP query: `-1` = not shared, else `offset blocks…` -/
def parseKind (p : List String) : Option BufKind :=
  match p with
  | "-1" :: _ => some .notShared
  | o :: rest => match o.toNat?, rest.mapM String.toNat? with
    | some o, some bl => some (.shared (toBlocks bl) o)
    | _, _ => none
  | [] => none

def privateIn (k : BufKind) (x : Nat) : Bool :=
  match k with
  | .notShared => true
  | .shared bl o => covered bl (x + o)

def kindStraddles : BufKind → Bool
  | .notShared => false
  | .shared bl o => straddles bl o

def judge (fixed : Bool) (q a : List String) : Verdict :=
  match q with
  | "SF" :: o :: n :: rest =>
    match o.toNat?, n.toNat?, (rest.drop 1).mapM String.toNat?, a.mapM String.toNat? with
    | some o, some n, some bl, some iv =>
      let vec := toBlocks bl
      let impl := toBlocks iv
      -- monitor: the implementation's answer is `[b−o, e−o) ∩ [0,n)` for every block, non-empty ones only
      if impl ≠ shiftFrameSpec vec o n then
        .monfail s!"{keyOf (straddles vec o)} result {impl}, intersection semantics gives {shiftFrameSpec vec o n}"
      else cmpAns (showBlocks (shiftM fixed vec o n)) a
    | _, _, _, _ => .bad
  | "MG" :: rest =>
    match splitBar rest, a.mapM String.toNat? with
    | [_, s, d], some iv =>
      match s.mapM String.toNat?, d.mapM String.toNat? with
      | some s, some d =>
        let s := toBlocks s; let d := toBlocks d; let impl := toBlocks iv
        let top := (s ++ d ++ impl).foldl (fun m b => Nat.max m b.2) 0
        if sortedB s && sortedB d && top ≤ 5000 then
          -- monitor: sorted non-empty result covering exactly the bytes covered by both inputs
          let bad := (List.range (top + 1)).filter (fun x => covered impl x != (covered s x && covered d x))
          if ¬ sortedB impl ∨ ¬ bad.isEmpty then .monfail s!"key=other result {impl}: bytes {bad.take 5} not the intersection, or unsorted"
          else cmpAns (showBlocks (merge s d)) a
        else cmpAns (showBlocks (merge s d)) a
      | _, _ => .bad
    | _, _ => .bad
  | "CP" :: n :: rest =>
    match n.toNat?, splitBar rest with
    | some n, [_, sp, dp] =>
      match parseKind sp, parseKind dp with
      | some sk, some dk =>
        let model : List String :=
          match framed fixed sk n, framed fixed dk n with
          | some s, some d => showBlocks (merge s d)
          | _, _ => ["IGN"]
        let impl : List Block := if a = ["IGN"] then [] else toBlocks (a.filterMap String.toNat?)
        -- monitor = the property: every byte of the message private on both sides is copied
        let missing := if n ≤ 5000 then (List.range n).filter (fun x => privateIn sk x && privateIn dk x && !covered impl x) else []
        if ¬ missing.isEmpty then
          .monfail s!"{keyOf (kindStraddles sk || kindStraddles dk)} private bytes {missing.take 5}… of the message are not copied"
        else cmpAns model a
      | _, _ => .bad
    | _, _ => .bad
  | _ => .bad

end SgVerif.C35

/-- argument `fixed` selects the model of the code with props/C35/proposed_fix.diff applied -/
def main (args : List String) : IO Unit := SgVerif.Proto.run (SgVerif.C35.judge (args.contains "fixed"))
