import SgVerif.C35.Alloc
/-
C35 — invariants of the allocation table (`allocs_metadata`) over histories of malloc / free, and the lookup lemma.
-/
namespace SgVerif.C35

/-- entry `x` ends before entry `y` starts -/
def Before (x y : Nat × Meta) : Prop := x.1 + x.2.size ≤ y.1

/-- the table invariant: sorted by address, ranges pairwise disjoint (`Before` for every ordered pair), no empty range,
    every reference count is 1 -/
def MInv (m : MMap) : Prop := m.Pairwise Before ∧ ∀ x ∈ m, 0 < x.2.size ∧ x.2.count = 1

/-- the table entry of a live allocation -/
def entryOf (a : LiveA) : Nat × Meta := (a.addr, { size := a.size, blocks := privateOf a.size a.shared, count := 1 })

/-- table and live set describe the same allocations -/
def Tied (m : MMap) (l : List LiveA) : Prop := MInv m ∧ ∀ x, x ∈ m ↔ ∃ a ∈ l, entryOf a = x

theorem minv_nil : MInv [] := ⟨List.Pairwise.nil, by simp⟩

theorem minv_tail {x : Nat × Meta} {m : MMap} (h : MInv (x :: m)) : MInv m :=
  ⟨(List.pairwise_cons.mp h.1).2, fun y hy => h.2 y (List.mem_cons_of_mem _ hy)⟩

/-- `allocs_metadata[k] = v` for a range disjoint from every entry: sorted insertion, nothing overwritten -/
theorem set_fresh (m : MMap) (k : Nat) (v : Meta) (hm : MInv m) (hs : 0 < v.size) (hc : v.count = 1)
    (hd : ∀ x ∈ m, x.1 + x.2.size ≤ k ∨ k + v.size ≤ x.1) :
    MInv (m.set k v) ∧ ∀ y, y ∈ m.set k v ↔ y = (k, v) ∨ y ∈ m := by
  induction m with
  | nil =>
    refine ⟨⟨by simp [MMap.set], ?_⟩, ?_⟩
    · intro x hx
      simp [MMap.set] at hx
      subst hx
      exact ⟨hs, hc⟩
    · intro y; simp [MMap.set]
  | cons x rest ih =>
    have hx := hm.2 x (by simp)
    have hdx := hd x (by simp)
    have hpw := List.pairwise_cons.mp hm.1
    unfold MMap.set
    by_cases h1 : k < x.1
    · simp only [h1, if_true]
      refine ⟨⟨?_, ?_⟩, ?_⟩
      · apply List.pairwise_cons.mpr
        refine ⟨?_, hm.1⟩
        intro z hz
        show k + v.size ≤ z.1
        rcases List.mem_cons.mp hz with hz | hz
        · subst hz
          rcases hdx with h | h
          · omega
          · exact h
        · have hb : x.1 + x.2.size ≤ z.1 := hpw.1 z hz
          rcases hd z (List.mem_cons_of_mem _ hz) with h | h
          · have := (hm.2 z (List.mem_cons_of_mem _ hz)).1
            omega
          · exact h
      · intro z hz
        rcases List.mem_cons.mp hz with hz | hz
        · subst hz; exact ⟨hs, hc⟩
        · exact hm.2 z hz
      · intro y; simp
    · simp only [h1, if_false]
      by_cases h2 : k = x.1
      · exfalso
        rcases hdx with h | h <;> omega
      · simp only [h2, if_false]
        have hrest := ih (minv_tail hm) (fun z hz => hd z (List.mem_cons_of_mem _ hz))
        refine ⟨⟨?_, ?_⟩, ?_⟩
        · apply List.pairwise_cons.mpr
          refine ⟨?_, hrest.1.1⟩
          intro z hz
          rcases (hrest.2 z).mp hz with hz | hz
          · subst hz
            show x.1 + x.2.size ≤ k
            rcases hdx with h | h <;> omega
          · exact hpw.1 z hz
        · intro z hz
          rcases List.mem_cons.mp hz with hz | hz
          · subst hz; exact hx
          · exact hrest.1.2 z hz
        · intro y
          rw [List.mem_cons, hrest.2 y, List.mem_cons]
          constructor
          · rintro (h | h | h)
            · exact Or.inr (Or.inl h)
            · exact Or.inl h
            · exact Or.inr (Or.inr h)
          · rintro (h | h | h)
            · exact Or.inr (Or.inl h)
            · exact Or.inl h
            · exact Or.inr (Or.inr h)

theorem erase_inv (m : MMap) (k : Nat) (hm : MInv m) :
    MInv (m.erase k) ∧ ∀ y, y ∈ m.erase k ↔ y ∈ m ∧ y.1 ≠ k := by
  refine ⟨⟨List.Pairwise.filter _ hm.1, ?_⟩, ?_⟩
  · intro x hx
    exact hm.2 x (List.mem_filter.mp hx).1
  · intro y
    unfold MMap.erase
    rw [List.mem_filter]
    simp

theorem find_some (m : MMap) (k : Nat) (mt : Meta) (h : m.find k = some mt) : (k, mt) ∈ m := by
  unfold MMap.find at h
  cases hf : List.find? (fun x => x.1 == k) m with
  | none => rw [hf] at h; cases h
  | some x =>
    rw [hf] at h
    have hk := List.find?_some hf
    have hmem := List.mem_of_find?_eq_some hf
    simp at h hk
    subst h hk
    exact hmem

theorem find_none (m : MMap) (k : Nat) (h : m.find k = none) : ∀ x ∈ m, x.1 ≠ k := by
  unfold MMap.find at h
  intro x hx
  cases hf : List.find? (fun x => x.1 == k) m with
  | none =>
    have := List.find?_eq_none.mp hf x hx
    simpa using this
  | some y => rw [hf] at h; cases h

/-- two entries of the table containing one address are the same entry -/
theorem entry_unique (m : MMap) (hm : MInv m) (x y : Nat × Meta) (hx : x ∈ m) (hy : y ∈ m) (ptr : Nat)
    (cx : x.1 ≤ ptr ∧ ptr < x.1 + x.2.size) (cy : y.1 ≤ ptr ∧ ptr < y.1 + y.2.size) : x = y := by
  induction m with
  | nil => cases hx
  | cons z rest ih =>
    have hpw := (List.pairwise_cons.mp hm.1).1
    rcases List.mem_cons.mp hx with hx1 | hx2
    · rcases List.mem_cons.mp hy with hy1 | hy2
      · rw [hx1, hy1]
      · have : z.1 + z.2.size ≤ y.1 := hpw y hy2
        rw [hx1] at cx
        omega
    · rcases List.mem_cons.mp hy with hy1 | hy2
      · have : z.1 + z.2.size ≤ x.1 := hpw x hx2
        rw [hy1] at cy
        omega
      · exact ih (minv_tail hm) hx2 hy2

/-- does the range of entry `x` contain `ptr`? -/
def inRange (ptr : Nat) (x : Nat × Meta) : Bool := decide (x.1 ≤ ptr ∧ ptr < x.1 + x.2.size)

theorem inRange_iff (ptr : Nat) (x : Nat × Meta) : inRange ptr x = true ↔ x.1 ≤ ptr ∧ ptr < x.1 + x.2.size := by
  unfold inRange; exact decide_eq_true_iff

/-- the entry selected by the specification: the one whose range contains the address -/
def specEntry (m : MMap) (ptr : Nat) : Option (List Block × Nat) :=
  (List.find? (inRange ptr) m).map (fun x => (x.2.blocks, ptr - x.1))

theorem specEntry_cons_pos (x : Nat × Meta) (m : MMap) (ptr : Nat) (h : x.1 ≤ ptr ∧ ptr < x.1 + x.2.size) :
    specEntry (x :: m) ptr = some (x.2.blocks, ptr - x.1) := by
  unfold specEntry
  rw [List.find?_cons_of_pos (h := (inRange_iff ptr x).mpr h)]
  rfl

theorem specEntry_cons_neg (x : Nat × Meta) (m : MMap) (ptr : Nat) (h : ¬ (x.1 ≤ ptr ∧ ptr < x.1 + x.2.size)) :
    specEntry (x :: m) ptr = specEntry m ptr := by
  unfold specEntry
  rw [List.find?_cons_of_neg (h := fun hh => h ((inRange_iff ptr x).mp hh))]

theorem specEntry_none_of_after (rest : MMap) (ptr : Nat) (h : ∀ z ∈ rest, ptr < z.1) : specEntry rest ptr = none := by
  induction rest with
  | nil => rfl
  | cons z r ih =>
    have := h z (by simp)
    rw [specEntry_cons_neg z r ptr (by omega)]
    exact ih (fun y hy => h y (List.mem_cons_of_mem _ hy))

/-- `lower_bound` + predecessor on a sorted table of disjoint ranges = "the range containing the address" -/
theorem lookupFrom_spec (m : MMap) (ptr : Nat) : ∀ (prev : Option (Nat × Meta)),
    MInv (prev.toList ++ m) → (∀ p, prev = some p → p.1 < ptr) →
    lookupFrom prev m ptr = specEntry (prev.toList ++ m) ptr := by
  induction m with
  | nil =>
    intro prev _ hp
    cases prev with
    | none => rfl
    | some p =>
      have := hp p rfl
      show fromPrev (some p) ptr = specEntry [p] ptr
      unfold fromPrev
      by_cases h : ptr < p.1 + p.2.size
      · rw [specEntry_cons_pos p [] ptr (by omega)]
        simp [h]
      · rw [specEntry_cons_neg p [] ptr (by omega)]
        simp [h, specEntry]
  | cons x rest ih =>
    intro prev hinv hp
    have hinvx : MInv (x :: rest) := by
      cases prev with
      | none => exact hinv
      | some p => exact minv_tail hinv
    have hxs := (hinvx.2 x (by simp)).1
    have hprevx : ∀ p, prev = some p → p.1 + p.2.size ≤ x.1 := by
      intro p hpe
      subst hpe
      exact (List.pairwise_cons.mp hinv.1).1 x (by simp)
    -- when ptr is at or after x, the predecessor does not contain it
    have hskip : x.1 ≤ ptr → specEntry (prev.toList ++ x :: rest) ptr = specEntry (x :: rest) ptr := by
      intro hle
      cases prev with
      | none => rfl
      | some p =>
        have := hprevx p rfl
        exact specEntry_cons_neg p (x :: rest) ptr (by omega)
    unfold lookupFrom
    by_cases h1 : x.1 < ptr
    · simp only [h1, if_true]
      rw [ih (some x) hinvx (by intro p hpe; cases hpe; exact h1), hskip (by omega)]
      rfl
    · simp only [h1, if_false]
      by_cases h2 : x.1 = ptr
      · simp only [h2, if_true]
        rw [hskip (by omega), specEntry_cons_pos x rest ptr (by omega)]
        simp [h2]
      · simp only [h2, if_false]
        have hafter : ∀ z ∈ x :: rest, ptr < z.1 := by
          intro z hz
          rcases List.mem_cons.mp hz with hz | hz
          · subst hz; omega
          · have : x.1 + x.2.size ≤ z.1 := (List.pairwise_cons.mp hinvx.1).1 z hz
            omega
        have hnone := specEntry_none_of_after (x :: rest) ptr hafter
        cases prev with
        | none =>
          show none = specEntry (x :: rest) ptr
          rw [hnone]
        | some p =>
          have := hp p rfl
          show fromPrev (some p) ptr = specEntry (p :: x :: rest) ptr
          unfold fromPrev
          by_cases h : ptr < p.1 + p.2.size
          · rw [specEntry_cons_pos p _ ptr (by omega)]
            simp [h]
          · rw [specEntry_cons_neg p _ ptr (by omega), hnone]
            simp [h]

theorem isShared_spec (m : MMap) (ptr : Nat) (hm : MInv m) : isShared m ptr = specEntry m ptr := by
  have := lookupFrom_spec m ptr none (by simpa using hm) (by intro p hp; cases hp)
  simpa [isShared] using this

/-! ### one event keeps table and live set tied -/

theorem tied_nil : Tied [] [] := ⟨minv_nil, by simp⟩

theorem tied_step (m : MMap) (l : List LiveA) (e : AEvent) (ht : Tied m l) (hf : Fresh l e) :
    Tied (astep m e) (lstep l e) := by
  cases e with
  | malloc a s sh =>
    obtain ⟨hs, hd⟩ := hf
    have hd' : ∀ x ∈ m, x.1 + x.2.size ≤ a ∨ a + s ≤ x.1 := by
      intro x hx
      obtain ⟨b, hb, hbe⟩ := (ht.2 x).mp hx
      subst hbe
      exact hd b hb
    have := set_fresh m a { size := s, blocks := privateOf s sh, count := 1 } ht.1 hs rfl hd'
    refine ⟨this.1, ?_⟩
    intro x
    show x ∈ MMap.set m a _ ↔ _
    rw [this.2 x]
    simp only [lstep, List.mem_cons]
    constructor
    · rintro (h | h)
      · exact ⟨_, Or.inl rfl, h.symm⟩
      · obtain ⟨b, hb, hbe⟩ := (ht.2 x).mp h
        exact ⟨b, Or.inr hb, hbe⟩
    · rintro ⟨b, hb | hb, hbe⟩
      · subst hb; exact Or.inl hbe.symm
      · exact Or.inr ((ht.2 x).mpr ⟨b, hb, hbe⟩)
  | free a =>
    show Tied (freeStep m a) (l.filter (fun x => x.addr != a))
    unfold freeStep
    cases hfind : m.find a with
    | none =>
      have hn := find_none m a hfind
      have hl : l.filter (fun x => x.addr != a) = l := by
        apply List.filter_eq_self.mpr
        intro b hb
        have := hn (entryOf b) ((ht.2 _).mpr ⟨b, hb, rfl⟩)
        simpa [entryOf] using this
      simp only [hl]
      exact ht
    | some mt =>
      have hmem := find_some m a mt hfind
      have hc := (ht.1.2 _ hmem).2
      have hc' : mt.count = 1 := hc
      simp only [hc']
      have he := erase_inv m a ht.1
      refine ⟨by simpa using he.1, ?_⟩
      intro x
      simp only [Int.sub_self, if_true]
      rw [he.2 x, ht.2 x]
      constructor
      · rintro ⟨⟨b, hb, hbe⟩, hne⟩
        refine ⟨b, List.mem_filter.mpr ⟨hb, ?_⟩, hbe⟩
        subst hbe
        simpa [entryOf] using hne
      · rintro ⟨b, hb, hbe⟩
        have hb' := List.mem_filter.mp hb
        refine ⟨⟨b, hb'.1, hbe⟩, ?_⟩
        subst hbe
        simpa [entryOf] using hb'.2

theorem tied_run (h : List AEvent) : ∀ (m : MMap) (l : List LiveA), Tied m l → FreshRun l h → Tied (arun m h) (lrun l h) := by
  induction h with
  | nil => intro m l ht _; exact ht
  | cons e rest ih =>
    intro m l ht hf
    exact ih _ _ (tied_step m l e ht hf.1) hf.2

end SgVerif.C35
