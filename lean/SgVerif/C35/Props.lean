import SgVerif.C35.Model
import SgVerif.C35.Modes
import SgVerif.C35.AllocLemmas
/-
C35 — private parts of partially shared buffers are transferred exactly.  Property theorems.
All theorems are for ALL block lists (any length), offsets and sizes (only `< 2^64`, as `size_t` values are).
-/
namespace SgVerif.C35

/-- blocks are genuine `size_t` pairs describing non-empty intervals -/
def WfBlocks (vec : List Block) : Prop := ∀ b ∈ vec, b.1 < b.2 ∧ b.2 < W

/-- no private block starts before the message and ends inside or after it -/
def NoStraddle (vec : List Block) (offset : Nat) : Prop := ∀ b ∈ vec, offset ≤ b.1 ∨ b.2 ≤ offset

theorem filterMap_congr_ptw {α β : Type} {f g : α → Option β} {l : List α} (h : ∀ x ∈ l, f x = g x) :
    l.filterMap f = l.filterMap g := by
  induction l with
  | nil => rfl
  | cons a t ih =>
    rw [List.filterMap_cons, List.filterMap_cons, h a (by simp), ih (fun x hx => h x (List.mem_cons_of_mem _ hx))]

theorem frameOne_eq (o n : Nat) (a : Block) :
    frameOne o n a = if a.1 - o < Nat.min (a.2 - o) n then some (a.1 - o, Nat.min (a.2 - o) n) else none := rfl

theorem frameOne_some (o n : Nat) (a b : Block) (h : frameOne o n a = some b) :
    b.1 = a.1 - o ∧ b.2 ≤ a.2 - o ∧ b.2 ≤ n ∧ b.1 < b.2 ∧ (n ≤ a.2 - o → b.2 = n) ∧ (a.2 - o ≤ n → b.2 = a.2 - o) := by
  rw [frameOne_eq] at h
  split at h
  · rename_i hlt
    injection h with h
    subst h
    show a.1 - o = a.1 - o ∧ Nat.min (a.2 - o) n ≤ a.2 - o ∧ Nat.min (a.2 - o) n ≤ n ∧ a.1 - o < Nat.min (a.2 - o) n ∧
      (n ≤ a.2 - o → Nat.min (a.2 - o) n = n) ∧ (a.2 - o ≤ n → Nat.min (a.2 - o) n = a.2 - o)
    refine ⟨rfl, Nat.min_le_left _ _, Nat.min_le_right _ _, hlt, ?_, ?_⟩
    · intro h; exact Nat.min_eq_right h
    · intro h; exact Nat.min_eq_left h
  · cases h

/-
FULL STATEMENT (DESIGN §9-D13; FALSE on the current code, see `shift_frame_counterexample`):
  theorem shift_frame_spec (vec) (offset n) (hw : WfBlocks vec) (hn : offset + n < W) :
      shiftFrame vec offset n = shiftFrameSpec vec offset n
`block_begin - offset` wraps for a block that starts before the message; `std::clamp` then yields `buff_size` and the
test `new_block.first < buff_size` drops the block, although `[0, min(e − o, n))` of it lies inside the message.
-/

/-- **shift_frame_spec**, proved with the exact excluding hypothesis `NoStraddle` -/
theorem shift_frame_spec_partial (vec : List Block) (offset n : Nat) (hw : WfBlocks vec) (hn : offset + n < W)
    (hs : NoStraddle vec offset) : shiftFrame vec offset n = shiftFrameSpec vec offset n := by
  unfold shiftFrame shiftFrameSpec
  apply filterMap_congr_ptw
  intro blk hb
  obtain ⟨h1, h2⟩ := hw blk hb
  have h3 := hs blk hb
  rw [frameOne_eq]
  unfold clamp subWrap W at *
  simp only [Nat.not_lt_zero, if_false, Nat.min_def]
  rcases h3 with h3 | h3
  · have e1 : (blk.1 + 18446744073709551616 - offset) % 18446744073709551616 = blk.1 - offset := by omega
    have e2 : (blk.2 + 18446744073709551616 - offset) % 18446744073709551616 = blk.2 - offset := by omega
    rw [e1, e2]
    by_cases c1 : n < blk.1 - offset <;> by_cases c2 : n < blk.2 - offset <;>
      simp only [c1, c2, if_true, if_false] <;> (repeat' split) <;> first | rfl | omega | (congr 1; omega) | (simp only [Option.some.injEq, Prod.mk.injEq]; omega)
  · have e1 : (blk.1 + 18446744073709551616 - offset) % 18446744073709551616 = blk.1 + 18446744073709551616 - offset := by omega
    rw [e1]
    have c1 : n < blk.1 + 18446744073709551616 - offset := by omega
    simp only [c1, if_true]
    have : blk.2 - offset = 0 := by omega
    rw [this]
    (repeat' split) <;> first | rfl | omega

/-- the defect: allocation with one private block [0,10), message of 3 bytes starting at offset 5 — all 3 bytes are
private, the function reports no private byte at all -/
theorem shift_frame_counterexample :
    shiftFrame [(0, 10)] 5 3 = [] ∧ shiftFrameSpec [(0, 10)] 5 3 = [(0, 3)] ∧ ¬ NoStraddle [(0, 10)] 5 := by
  refine ⟨by decide, by decide, ?_⟩
  intro h
  have := h (0, 10) (by simp)
  omega

/-- with proposed_fix.diff the full statement holds -/
theorem shift_frame_spec_fixed (vec : List Block) (offset n : Nat) (hw : WfBlocks vec) (ho : offset < W) :
    shiftFrameFixed vec offset n = shiftFrameSpec vec offset n := by
  unfold shiftFrameFixed shiftFrameSpec
  apply filterMap_congr_ptw
  intro blk hb
  obtain ⟨h1, h2⟩ := hw blk hb
  rw [frameOne_eq]
  unfold subWrap W at *
  simp only [Nat.min_def]
  have e1 : (blk.1 + 18446744073709551616 - (if blk.1 ≤ offset then blk.1 else offset)) % 18446744073709551616 = blk.1 - offset := by
    split <;> omega
  have e2 : (blk.2 + 18446744073709551616 - (if blk.2 ≤ offset then blk.2 else offset)) % 18446744073709551616 = blk.2 - offset := by
    split <;> omega
  rw [e1, e2]
  by_cases c1 : blk.1 - offset ≤ n <;> by_cases c2 : blk.2 - offset ≤ n <;>
    simp only [c1, c2, if_true, if_false] <;> (repeat' split) <;> first | rfl | omega | (congr 1; omega) | (simp only [Option.some.injEq, Prod.mk.injEq]; omega)

/-- what the specification means byte by byte: byte `x` of the message is private iff byte `x + offset` of the allocation is -/
theorem covered_shiftFrameSpec (vec : List Block) (offset n x : Nat) :
    Covered (shiftFrameSpec vec offset n) x ↔ x < n ∧ Covered vec (x + offset) := by
  unfold Covered shiftFrameSpec
  constructor
  · intro ⟨b, hb, h1, h2⟩
    obtain ⟨a, ha, hf⟩ := List.mem_filterMap.mp hb
    obtain ⟨f1, f2, f3, f4, _, _⟩ := frameOne_some _ _ _ _ hf
    exact ⟨by omega, a, ha, by omega, by omega⟩
  · intro ⟨hx, a, ha, h1, h2⟩
    have hlt : a.1 - offset < Nat.min (a.2 - offset) n := by
      simp only [Nat.min_def]; split <;> omega
    refine ⟨(a.1 - offset, Nat.min (a.2 - offset) n), ?_, by simp only; omega, ?_⟩
    · apply List.mem_filterMap.mpr
      exact ⟨a, ha, by rw [frameOne_eq, if_pos hlt]⟩
    · simp only [Nat.min_def]; split <;> omega

theorem sorted_shiftFrameSpec (vec : List Block) (offset n : Nat) (h : Sorted vec) : Sorted (shiftFrameSpec vec offset n) := by
  unfold shiftFrameSpec
  induction vec with
  | nil => simp [Sorted]
  | cons b rest ih =>
    obtain ⟨h1, h2, h3⟩ := h
    rw [List.filterMap_cons]
    cases hf : frameOne offset n b with
    | none => exact ih h3
    | some b' =>
      simp only
      obtain ⟨f1, f2, f3, f4, _, _⟩ := frameOne_some _ _ _ _ hf
      refine ⟨f4, ?_, ih h3⟩
      intro c hc
      obtain ⟨a, ha, hfa⟩ := List.mem_filterMap.mp hc
      obtain ⟨g1, _, _, _, _, _⟩ := frameOne_some _ _ _ _ hfa
      have := h2 a ha
      omega

/-! ### merge -/

theorem mergeFuel_sound (fuel : Nat) (s d : List Block) :
    ∀ blk ∈ mergeFuel fuel s d, ∃ a ∈ s, ∃ b ∈ d, blk = (Nat.max a.1 b.1, Nat.min a.2 b.2) ∧ ¬ a.2 ≤ b.1 ∧ ¬ b.2 ≤ a.1 := by
  induction fuel generalizing s d with
  | zero => intro blk h; simp [mergeFuel] at h
  | succ f ih =>
    intro blk h
    cases s with
    | nil => simp [mergeFuel] at h
    | cons s0 ss =>
      cases d with
      | nil => simp [mergeFuel] at h
      | cons d0 ds =>
        rw [mergeFuel] at h
        split at h
        · obtain ⟨a, ha, b, hb, e⟩ := ih ss (d0 :: ds) blk h
          exact ⟨a, List.mem_cons_of_mem _ ha, b, hb, e⟩
        · split at h
          · obtain ⟨a, ha, b, hb, e⟩ := ih (s0 :: ss) ds blk h
            exact ⟨a, ha, b, List.mem_cons_of_mem _ hb, e⟩
          · rename_i c1 c2
            rcases List.mem_cons.mp h with h | h
            · exact ⟨s0, by simp, d0, by simp, h, c1, c2⟩
            · split at h
              · obtain ⟨a, ha, b, hb, e⟩ := ih ss (d0 :: ds) blk h
                exact ⟨a, List.mem_cons_of_mem _ ha, b, hb, e⟩
              · obtain ⟨a, ha, b, hb, e⟩ := ih (s0 :: ss) ds blk h
                exact ⟨a, ha, b, List.mem_cons_of_mem _ hb, e⟩

/-- **merge_spec, soundness**: every block `merge_private_blocks` returns is the (non-empty) intersection of a source
block and a destination block -/
theorem merge_blocks_are_intersections (s d : List Block) :
    ∀ blk ∈ merge s d, ∃ a ∈ s, ∃ b ∈ d, blk = (Nat.max a.1 b.1, Nat.min a.2 b.2) ∧ ¬ a.2 ≤ b.1 ∧ ¬ b.2 ≤ a.1 :=
  mergeFuel_sound _ s d

theorem merge_sound (s d : List Block) (x : Nat) (h : Covered (merge s d) x) : Covered s x ∧ Covered d x := by
  obtain ⟨blk, hb, h1, h2⟩ := h
  obtain ⟨a, ha, b, hb', e, _, _⟩ := merge_blocks_are_intersections s d blk hb
  subst e
  simp only [Nat.max_def, Nat.min_def] at h1 h2
  exact ⟨⟨a, ha, by split at h1 <;> omega, by split at h2 <;> omega⟩, ⟨b, hb', by split at h1 <;> omega, by split at h2 <;> omega⟩⟩

theorem mergeFuel_complete (fuel : Nat) (s d : List Block) (hf : s.length + d.length ≤ fuel) (hs : Sorted s) (hd : Sorted d)
    (x : Nat) (hxs : Covered s x) (hxd : Covered d x) : Covered (mergeFuel fuel s d) x := by
  induction fuel generalizing s d with
  | zero =>
    obtain ⟨a, ha, _⟩ := hxs
    cases s <;> simp at ha hf
  | succ f ih =>
    cases s with
    | nil => obtain ⟨a, ha, _⟩ := hxs; simp at ha
    | cons s0 ss =>
      cases d with
      | nil => obtain ⟨a, ha, _⟩ := hxd; simp at ha
      | cons d0 ds =>
        obtain ⟨s1, s2, s3⟩ := hs
        obtain ⟨d1, d2, d3⟩ := hd
        simp only [List.length_cons] at hf
        obtain ⟨a, ha, a1, a2⟩ := hxs
        obtain ⟨b, hb, b1, b2⟩ := hxd
        rw [mergeFuel]
        -- where x's source / destination blocks are
        have hsA : a = s0 ∨ a ∈ ss := List.mem_cons.mp ha
        have hdB : b = d0 ∨ b ∈ ds := List.mem_cons.mp hb
        split
        · rename_i c
          -- s0 ends before d0 begins: x is not in s0
          have : a ∈ ss := by
            rcases hsA with e | e
            · subst e
              rcases hdB with e' | e'
              · subst e'; omega
              · have := d2 b e'; omega
            · exact e
          exact ih ss (d0 :: ds) (by simp; omega) s3 ⟨d1, d2, d3⟩ ⟨a, this, a1, a2⟩ ⟨b, hb, b1, b2⟩
        · split
          · rename_i c1 c
            have : b ∈ ds := by
              rcases hdB with e | e
              · subst e
                rcases hsA with e' | e'
                · subst e'; omega
                · have := s2 a e'; omega
              · exact e
            exact ih (s0 :: ss) ds (by simp; omega) ⟨s1, s2, s3⟩ d3 ⟨a, ha, a1, a2⟩ ⟨b, this, b1, b2⟩
          · rename_i c1 c2
            by_cases hin : Nat.max s0.1 d0.1 ≤ x ∧ x < Nat.min s0.2 d0.2
            · exact ⟨_, List.mem_cons_self, hin⟩
            · have hrest : Covered (if s0.2 < d0.2 then mergeFuel f ss (d0 :: ds) else mergeFuel f (s0 :: ss) ds) x := by
                simp only [Nat.max_def, Nat.min_def] at hin
                split
                · rename_i c3
                  have : a ∈ ss := by
                    rcases hsA with e | e
                    · subst e
                      rcases hdB with e' | e'
                      · subst e'; exfalso; apply hin; (repeat' split) <;> omega
                      · have := d2 b e'; omega
                    · exact e
                  exact ih ss (d0 :: ds) (by simp; omega) s3 ⟨d1, d2, d3⟩ ⟨a, this, a1, a2⟩ ⟨b, hb, b1, b2⟩
                · rename_i c3
                  have : b ∈ ds := by
                    rcases hdB with e | e
                    · subst e
                      rcases hsA with e' | e'
                      · subst e'; exfalso; apply hin; (repeat' split) <;> omega
                      · have := s2 a e'; omega
                    · exact e
                  exact ih (s0 :: ss) ds (by simp; omega) ⟨s1, s2, s3⟩ d3 ⟨a, ha, a1, a2⟩ ⟨b, this, b1, b2⟩
              obtain ⟨blk, hblk, hh⟩ := hrest
              exact ⟨blk, List.mem_cons_of_mem _ hblk, hh⟩

/-- **merge_spec, completeness**: for sorted disjoint block lists, every byte private on both sides lies in a returned block -/
theorem merge_complete (s d : List Block) (hs : Sorted s) (hd : Sorted d) (x : Nat) (hxs : Covered s x) (hxd : Covered d x) :
    Covered (merge s d) x :=
  mergeFuel_complete _ s d (Nat.le_refl _) hs hd x hxs hxd

/-- hence `merge` covers exactly the bytes covered by both lists -/
theorem merge_spec (s d : List Block) (hs : Sorted s) (hd : Sorted d) (x : Nat) :
    Covered (merge s d) x ↔ Covered s x ∧ Covered d x :=
  ⟨merge_sound s d x, fun ⟨a, b⟩ => merge_complete s d hs hd x a b⟩

/-! ### the copy -/

theorem memcpyPrivate_covered (dest src : Buf) (blocks : List Block) (x : Nat) (h : Covered blocks x) :
    memcpyPrivate dest src blocks x = src x := by
  unfold memcpyPrivate
  induction blocks generalizing dest with
  | nil => obtain ⟨b, hb, _⟩ := h; simp at hb
  | cons b rest ih =>
    simp only [List.foldl_cons]
    by_cases hr : Covered rest x
    · exact ih _ hr
    · -- x is in b and in no later block: later copies leave it alone
      obtain ⟨c, hc, c1, c2⟩ := h
      have hcb : c = b := by
        rcases List.mem_cons.mp hc with e | e
        · exact e
        · exact absurd ⟨c, e, c1, c2⟩ hr
      subst hcb
      have keep : ∀ (d : Buf), (∀ c' ∈ rest, ¬ (c'.1 ≤ x ∧ x < c'.2)) →
          (rest.foldl (fun d b => copyBlock d src b) d) x = d x := by
        intro d hn
        clear ih hr hc
        induction rest generalizing d with
        | nil => rfl
        | cons r rs ih2 =>
          simp only [List.foldl_cons]
          rw [ih2 _ (fun c' hc' => hn c' (List.mem_cons_of_mem _ hc'))]
          unfold copyBlock
          rw [if_neg (hn r (by simp))]
      rw [keep _ (fun c' hc' hcov => hr ⟨c', hc', hcov⟩)]
      unfold copyBlock
      rw [if_pos ⟨c1, c2⟩]

theorem memcpyPrivate_not_covered (dest src : Buf) (blocks : List Block) (x : Nat) (h : ¬ Covered blocks x) :
    memcpyPrivate dest src blocks x = dest x := by
  unfold memcpyPrivate
  induction blocks generalizing dest with
  | nil => rfl
  | cons b rest ih =>
    simp only [List.foldl_cons]
    rw [ih _ (fun ⟨c, hc, hh⟩ => h ⟨c, List.mem_cons_of_mem _ hc, hh⟩)]
    unfold copyBlock
    rw [if_neg (fun hh => h ⟨b, by simp, hh⟩)]

/-- byte `x` of the message lies in a private region of the buffer -/
def PrivateIn (k : BufKind) (x : Nat) : Prop :=
  match k with
  | .notShared => True
  | .shared blocks offset => Covered blocks (x + offset)

/-- the buffer description is sane: sorted disjoint `size_t` blocks, the message fits in the address space -/
def WfKind (k : BufKind) (n : Nat) : Prop :=
  match k with
  | .notShared => True
  | .shared blocks offset => Sorted blocks ∧ WfBlocks blocks ∧ offset + n < W

def NoStraddleKind (k : BufKind) : Prop :=
  match k with
  | .notShared => True
  | .shared blocks offset => NoStraddle blocks offset

theorem framed_covers (fixed : Bool) (k : BufKind) (n x : Nat) (hw : WfKind k n) (hns : fixed = true ∨ NoStraddleKind k)
    (hx : x < n) (hp : PrivateIn k x) : ∃ s, framed fixed k n = some s ∧ Sorted s ∧ Covered s x := by
  cases k with
  | notShared =>
    exact ⟨[(0, n)], rfl, ⟨by simp only; omega, by simp, trivial⟩, ⟨(0, n), by simp, by simp only; omega, by simp only; omega⟩⟩
  | shared blocks offset =>
    obtain ⟨hs, hwb, hn⟩ := hw
    have heq : (if fixed then shiftFrameFixed blocks offset n else shiftFrame blocks offset n) = shiftFrameSpec blocks offset n := by
      cases fixed with
      | true => simp only [if_true]; exact shift_frame_spec_fixed blocks offset n hwb (by omega)
      | false =>
        simp only [Bool.false_eq_true, if_false]
        rcases hns with h | h
        · cases h
        · exact shift_frame_spec_partial blocks offset n hwb hn h
    have hcov : Covered (shiftFrameSpec blocks offset n) x := (covered_shiftFrameSpec blocks offset n x).mpr ⟨hx, hp⟩
    have hne : (shiftFrameSpec blocks offset n).isEmpty = false := by
      obtain ⟨b, hb, _⟩ := hcov
      cases hl : shiftFrameSpec blocks offset n with
      | nil => rw [hl] at hb; simp at hb
      | cons _ _ => rfl
    refine ⟨shiftFrameSpec blocks offset n, ?_, sorted_shiftFrameSpec blocks offset n hs, hcov⟩
    unfold framed
    simp only [heq, hne, Bool.false_eq_true, if_false]

theorem callback_copies (fixed : Bool) (srcK dstK : BufKind) (n : Nat) (viaTmp : Bool) (src dst tmp : Buf) (x : Nat)
    (hws : WfKind srcK n) (hwd : WfKind dstK n) (hns : fixed = true ∨ (NoStraddleKind srcK ∧ NoStraddleKind dstK))
    (hx : x < n) (hps : PrivateIn srcK x) (hpd : PrivateIn dstK x) :
    callback fixed srcK dstK n viaTmp src dst tmp x = src x := by
  obtain ⟨s, e1, ss, cs⟩ := framed_covers fixed srcK n x hws (hns.imp id (·.1)) hx hps
  obtain ⟨d, e2, sd, cd⟩ := framed_covers fixed dstK n x hwd (hns.imp id (·.2)) hx hpd
  have hc := merge_complete s d ss sd x cs cd
  unfold callback
  rw [e1, e2]
  simp only
  cases viaTmp with
  | false => simp only [Bool.false_eq_true, if_false]; exact memcpyPrivate_covered _ _ _ _ hc
  | true =>
    simp only [if_true]
    rw [memcpyPrivate_covered _ _ _ _ hc, memcpyPrivate_covered _ _ _ _ hc]

/-
FULL STATEMENT of the property (FALSE on the current code, see `private_bytes_copied_counterexample`):
  theorem private_bytes_copied … (hws : WfKind srcK n) (hwd : WfKind dstK n) (hx : x < n)
      (hps : PrivateIn srcK x) (hpd : PrivateIn dstK x) : callback false srcK dstK n viaTmp src dst tmp x = src x
-/

/-- **private_bytes_copied**, on the current code, when no private block of either allocation straddles the start of
the message (in particular: messages starting at offset 0, or at/after… a block boundary) — with or without the
temporary buffer of the privatization path -/
theorem private_bytes_copied_partial (srcK dstK : BufKind) (n : Nat) (viaTmp : Bool) (src dst tmp : Buf) (x : Nat)
    (hws : WfKind srcK n) (hwd : WfKind dstK n) (hs : NoStraddleKind srcK) (hd : NoStraddleKind dstK)
    (hx : x < n) (hps : PrivateIn srcK x) (hpd : PrivateIn dstK x) :
    callback false srcK dstK n viaTmp src dst tmp x = src x :=
  callback_copies false srcK dstK n viaTmp src dst tmp x hws hwd (Or.inr ⟨hs, hd⟩) hx hps hpd

/-- the defect end to end: the sender's allocation has the private block [0,10), the message is bytes 5..7 of it, the
receiver's buffer is ordinary memory: byte 0 of the message is private on both sides and is NOT copied -/
theorem private_bytes_copied_counterexample :
    callback false (.shared [(0, 10)] 5) .notShared 3 false (fun _ => 7) (fun _ => 0) (fun _ => 0) 0 = 0 ∧
    PrivateIn (.shared [(0, 10)] 5) 0 ∧ PrivateIn .notShared 0 := by
  refine ⟨by decide, ⟨(0, 10), by simp, by decide, by decide⟩, trivial⟩

/-- with proposed_fix.diff: the full property, every offset -/
theorem private_bytes_copied_fixed (srcK dstK : BufKind) (n : Nat) (viaTmp : Bool) (src dst tmp : Buf) (x : Nat)
    (hws : WfKind srcK n) (hwd : WfKind dstK n) (hx : x < n) (hps : PrivateIn srcK x) (hpd : PrivateIn dstK x) :
    callback true srcK dstK n viaTmp src dst tmp x = src x :=
  callback_copies true srcK dstK n viaTmp src dst tmp x hws hwd (Or.inl rfl) hx hps hpd

/-- nothing outside the merged private blocks is written (bytes in shared regions are left alone) -/
theorem shared_bytes_untouched (fixed : Bool) (srcK dstK : BufKind) (n : Nat) (src dst tmp : Buf) (x : Nat)
    (h : ∀ s d, framed fixed srcK n = some s → framed fixed dstK n = some d → ¬ Covered (merge s d) x) :
    callback fixed srcK dstK n false src dst tmp x = dst x := by
  unfold callback
  cases e1 : framed fixed srcK n with
  | none => rfl
  | some s =>
    cases e2 : framed fixed dstK n with
    | none => rfl
    | some d =>
      simp only [Bool.false_eq_true, if_false]
      exact memcpyPrivate_not_covered _ _ _ _ (h s d e1 e2)

/-! ### end to end: the three send modes -/

theorem modeOf_cases (ssend bsend rma : Bool) (size thresh : Nat) :
    (modeOf ssend bsend rma size thresh = .eager ↔ ssend = false ∧ rma = false ∧ bsend = false ∧ size < thresh) := by
  unfold modeOf
  cases ssend <;> cases rma <;> cases bsend <;> simp
  all_goals (split <;> simp_all)

/-- **private_bytes_transferred_all_modes** — eager, detached (Bsend / RMA) and rendezvous sends of a basic datatype:
    whatever the mode (= whichever buffer `Request::start` hands to the copy callback: the heap copy of the whole message
    or the user's buffer), for every layout of private blocks of the sender's and of the receiver's allocation, every
    offset of the two buffers in their allocations, every send and receive size: each byte `x` of the transferred part
    (`x < min(nSend, nRecv)`) that is private on BOTH sides ends up in the receive buffer with the value the sender's
    buffer had when the send started.  Hypothesis for rendezvous: the sender's buffer is not modified before the copy
    (the sender is blocked in MPI_Send / MPI_Ssend; MPI forbids touching the buffer of a pending MPI_Isend). -/
theorem private_bytes_transferred_all_modes (m : Mode) (srcK dstK : BufKind) (nSend nRecv : Nat) (viaTmp : Bool)
    (userAtSend userAtCopy dst tmp : Buf) (x : Nat)
    (hws : WfKind srcK (Nat.min nSend nRecv)) (hwd : WfKind dstK (Nat.min nSend nRecv))
    (hx : x < Nat.min nSend nRecv) (hps : PrivateIn srcK x) (hpd : PrivateIn dstK x)
    (hstable : m = .rendezvous → userAtCopy = userAtSend) :
    transfer m srcK dstK nSend nRecv viaTmp userAtSend userAtCopy dst tmp x = userAtSend x := by
  unfold transfer
  have hn : ¬ (Nat.min nSend nRecv = 0) := by omega
  simp only [hn, if_false]
  cases m with
  | eager =>
    simp only [seenBuffer, Mode.heapCopy, if_true]
    exact private_bytes_copied_fixed .notShared dstK _ viaTmp userAtSend dst tmp x trivial hwd hx trivial hpd
  | detached =>
    simp only [seenBuffer, Mode.heapCopy, if_true]
    exact private_bytes_copied_fixed .notShared dstK _ viaTmp userAtSend dst tmp x trivial hwd hx trivial hpd
  | rendezvous =>
    simp only [seenBuffer, Mode.heapCopy, Bool.false_eq_true, if_false]
    rw [hstable rfl]
    exact private_bytes_copied_fixed srcK dstK _ viaTmp userAtSend dst tmp x hws hwd hx hps hpd

/-- in the eager and detached modes a later modification of the sender's buffer (allowed once MPI_Send / MPI_Bsend has
    returned) does not change what the receiver gets: the result does not depend on `userAtCopy` at all -/
theorem heap_copy_modes_ignore_later_writes (m : Mode) (hm : m ≠ .rendezvous) (srcK dstK : BufKind) (nSend nRecv : Nat)
    (viaTmp : Bool) (userAtSend u1 u2 dst tmp : Buf) :
    transfer m srcK dstK nSend nRecv viaTmp userAtSend u1 dst tmp = transfer m srcK dstK nSend nRecv viaTmp userAtSend u2 dst tmp := by
  cases m with
  | rendezvous => exact absurd rfl hm
  | eager => rfl
  | detached => rfl

/-- bytes of the receive buffer at or beyond the transferred size are untouched, in every mode (truncation to the
    receiver's size included) -/
theorem bytes_beyond_message_untouched (m : Mode) (srcK dstK : BufKind) (nSend nRecv : Nat)
    (userAtSend userAtCopy dst tmp : Buf) (x : Nat) (hwd : WfKind dstK (Nat.min nSend nRecv)) (hx : Nat.min nSend nRecv ≤ x)
    (hd : ∀ blocks offset, dstK = .shared blocks offset → WfBlocks blocks ∧ offset < W) :
    transfer m srcK dstK nSend nRecv false userAtSend userAtCopy dst tmp x = dst x := by
  unfold transfer
  split
  · rfl
  · apply shared_bytes_untouched
    intro s d _ hdst hc
    obtain ⟨_, hcd⟩ := merge_sound s d x hc
    -- the receiver's framed blocks lie inside [0, n)
    cases dstK with
    | notShared =>
      simp only [framed, Option.some.injEq] at hdst
      subst hdst
      obtain ⟨b, hb, _, h2⟩ := hcd
      simp only [List.mem_singleton] at hb
      subst hb
      simp only at h2; omega
    | shared blocks offset =>
      obtain ⟨hwb, ho⟩ := hd blocks offset rfl
      simp only [framed, if_true] at hdst
      split at hdst
      · cases hdst
      · injection hdst with hdst
        rw [← hdst, shift_frame_spec_fixed blocks offset _ hwb ho] at hcd
        have := (covered_shiftFrameSpec blocks offset _ x).mp hcd
        omega

/-! ### non-vacuity -/
example : WfBlocks [(8, 16), (32, 40)] ∧ NoStraddle [(8, 16), (32, 40)] 16 ∧ Sorted [(8, 16), (32, 40)] := by
  refine ⟨?_, ?_, ?_⟩
  · intro b hb; simp at hb; rcases hb with h | h <;> subst h <;> decide
  · intro b hb; simp at hb; rcases hb with h | h <;> subst h <;> decide
  · exact ⟨by decide, by intro c hc; simp at hc; subst hc; decide, by decide, by simp, trivial⟩
example : shiftFrame [(8, 16), (32, 40)] 16 20 = [(16, 20)] ∧ shiftFrame [(8, 16), (32, 40)] 10 30 = [(22, 30)] ∧
    shiftFrameFixed [(8, 16), (32, 40)] 10 30 = [(0, 6), (22, 30)] := by decide
example : merge [(0, 6), (22, 30)] [(4, 25), (26, 28)] = [(4, 6), (22, 25), (26, 28)] := by decide
example : callback true (.shared [(8, 16), (32, 40)] 10) .notShared 30 false (fun i => i + 100) (fun _ => 0) (fun _ => 0) 3 = 103 := by decide

/-- the three modes on one layout: sender's allocation private on [8,16) ∪ [32,40), message = bytes 10.. of it (so the
    first private block straddles the message start), receiver private on [0,20); byte 3 of the message is private on both
    sides and arrives in all three modes; `modeOf` picks the mode from the flags and the threshold -/
example : modeOf false false false 30 65536 = .eager ∧ modeOf false true false 100000 65536 = .detached ∧
    modeOf false false false 100000 65536 = .rendezvous ∧ modeOf true false false 30 65536 = .rendezvous := by decide
example : ∀ m : Mode, transfer m (.shared [(8, 16), (32, 40)] 10) (.shared [(0, 20)] 0) 30 25 false (fun i => i + 100)
    (fun i => i + 100) (fun _ => 0) (fun _ => 0) 3 = 103 := by
  intro m; cases m <;> decide

/-! ### the allocation bookkeeping behind `smpi_is_shared` (Alloc.lean): histories of malloc / free / lookup

The copy callback learns the layout of a buffer from `smpi_is_shared`, i.e. from the table `allocs_metadata`.  For EVERY
history of `smpi_shared_malloc_partial` / `smpi_shared_free` calls, whatever addresses the kernel hands out (a freed range
may be reused at once, entirely, partly, or as part of a larger mapping that starts below it), the lookup of an address
answers with the layout and offset of the LIVE allocation containing the address, and with "not shared" for an address in no
live allocation (in particular in a freed one). -/

/-- the table after a history is tied to the set of live allocations -/
theorem table_tied_to_live (h : List AEvent) (hf : FreshRun [] h) : Tied (arun [] h) (lrun [] h) :=
  tied_run h [] [] tied_nil hf

/-- **lookup_sound** — whatever `smpi_is_shared` answers is the layout of a live allocation containing the address, with
    the offset of the address in it -/
theorem lookup_sound (h : List AEvent) (hf : FreshRun [] h) (ptr : Nat) (bl : List Block) (off : Nat)
    (hl : isShared (arun [] h) ptr = some (bl, off)) :
    ∃ a ∈ lrun [] h, a.contains ptr ∧ bl = privateOf a.size a.shared ∧ off = ptr - a.addr := by
  have ht := table_tied_to_live h hf
  rw [isShared_spec _ _ ht.1] at hl
  unfold specEntry at hl
  cases hfind : List.find? (inRange ptr) (arun [] h) with
  | none => rw [hfind] at hl; cases hl
  | some x =>
    rw [hfind] at hl
    have hin := (inRange_iff ptr x).mp (List.find?_some hfind)
    obtain ⟨a, ha, hae⟩ := (ht.2 x).mp (List.mem_of_find?_eq_some hfind)
    subst hae
    simp only [Option.map_some, Option.some.injEq, Prod.mk.injEq] at hl
    exact ⟨a, ha, hin, hl.1.symm, hl.2.symm⟩

/-- **lookup_complete** — an address inside a live allocation is attributed to THAT allocation (its layout, its offset),
    never to an older allocation that occupied the range -/
theorem lookup_complete (h : List AEvent) (hf : FreshRun [] h) (ptr : Nat) (a : LiveA) (ha : a ∈ lrun [] h)
    (hc : a.contains ptr) : isShared (arun [] h) ptr = some (privateOf a.size a.shared, ptr - a.addr) := by
  have ht := table_tied_to_live h hf
  rw [isShared_spec _ _ ht.1]
  unfold specEntry
  have hmem : entryOf a ∈ arun [] h := (ht.2 _).mpr ⟨a, ha, rfl⟩
  cases hfind : List.find? (inRange ptr) (arun [] h) with
  | none =>
    have := List.find?_eq_none.mp hfind _ hmem
    exact absurd ((inRange_iff ptr (entryOf a)).mpr hc) this
  | some x =>
    have hin := (inRange_iff ptr x).mp (List.find?_some hfind)
    have := entry_unique _ ht.1 x (entryOf a) (List.mem_of_find?_eq_some hfind) hmem ptr hin hc
    subst this
    rfl

/-- **lookup_none_outside_live** — an address in no live allocation (e.g. in a freed one) is ordinary memory for the copy -/
theorem lookup_none_outside_live (h : List AEvent) (hf : FreshRun [] h) (ptr : Nat)
    (hn : ∀ a ∈ lrun [] h, ¬ a.contains ptr) : isShared (arun [] h) ptr = none := by
  cases hl : isShared (arun [] h) ptr with
  | none => rfl
  | some r =>
    obtain ⟨a, ha, hc, _⟩ := lookup_sound h hf ptr r.1 r.2 hl
    exact absurd hc (hn a ha)

/-- a freed allocation is not live any more, whatever happened before (so `lookup_none_outside_live` applies to its range
    until the kernel maps something there again) -/
theorem freed_not_live (l : List LiveA) (addr : Nat) : ∀ a ∈ lstep l (.free addr), a.addr ≠ addr := by
  intro a ha
  have := (List.mem_filter.mp ha).2
  simpa using this

/-! #### the recorded private blocks are the complement of the requested shared blocks -/

theorem sharedOk_tail (size : Nat) (a : Block) (rest : List Block) (h : SharedOk size (a :: rest)) :
    a.1 < a.2 ∧ a.2 ≤ size ∧ SharedOk size rest ∧ ∀ c ∈ rest, a.2 < c.1 := by
  induction rest generalizing a with
  | nil => exact ⟨h.1, h.2, trivial, by simp⟩
  | cons b r ih =>
    obtain ⟨h1, h2, h3, h4⟩ := h
    have hb := ih b h4
    refine ⟨h1, h2, h4, ?_⟩
    intro c hc
    rcases List.mem_cons.mp hc with hc | hc
    · subst hc; exact h3
    · have := hb.2.2.2 c hc
      omega

theorem gapsThenTail_spec (size : Nat) (rest : List Block) : ∀ (a : Block), SharedOk size (a :: rest) → ∀ x,
    (Covered (gapsThenTail size (a :: rest)) x ↔ a.2 ≤ x ∧ x < size ∧ ¬ Covered rest x) := by
  induction rest with
  | nil =>
    intro a h x
    unfold gapsThenTail
    by_cases hl : a.2 < size
    · simp only [hl, if_true]
      constructor
      · rintro ⟨b, hb, hx⟩
        simp at hb; subst hb
        exact ⟨hx.1, hx.2, by rintro ⟨c, hc, _⟩; cases hc⟩
      · rintro ⟨h1, h2, _⟩
        exact ⟨(a.2, size), by simp, h1, h2⟩
    · simp only [hl, if_false]
      constructor
      · rintro ⟨b, hb, _⟩; cases hb
      · rintro ⟨h1, h2, _⟩; omega
  | cons b r ih =>
    intro a h x
    obtain ⟨h1, h2, h3, h4⟩ := h
    have hb := sharedOk_tail size b r h4
    have ihb := ih b h4 x
    show Covered ((a.2, b.1) :: gapsThenTail size (b :: r)) x ↔ _
    constructor
    · rintro ⟨c, hc, hx⟩
      rcases List.mem_cons.mp hc with hc | hc
      · subst hc
        refine ⟨hx.1, by have := hx.2; show x < size; simp at this; omega, ?_⟩
        rintro ⟨d, hd, hdx⟩
        have hx2 : x < b.1 := hx.2
        rcases List.mem_cons.mp hd with hd | hd
        · subst hd; omega
        · have := hb.2.2.2 d hd; omega
      · obtain ⟨g1, g2, g3⟩ := ihb.mp ⟨c, hc, hx⟩
        refine ⟨by omega, g2, ?_⟩
        rintro ⟨d, hd, hdx⟩
        rcases List.mem_cons.mp hd with hd | hd
        · subst hd; omega
        · exact g3 ⟨d, hd, hdx⟩
    · rintro ⟨g1, g2, g3⟩
      by_cases hxb : x < b.1
      · exact ⟨(a.2, b.1), by simp, g1, hxb⟩
      · have hnb : ¬ (b.1 ≤ x ∧ x < b.2) := fun hh => g3 ⟨b, by simp, hh⟩
        have hr : ¬ Covered r x := fun ⟨d, hd, hdx⟩ => g3 ⟨d, List.mem_cons_of_mem _ hd, hdx⟩
        obtain ⟨c, hc, hcx⟩ := ihb.mpr ⟨by omega, g2, hr⟩
        exact ⟨c, List.mem_cons_of_mem _ hc, hcx⟩

/-- **privateOf_spec** — under the assertions of `smpi_shared_malloc_partial` on its argument, the `private_blocks`
    recorded for an allocation cover exactly the bytes of the allocation lying in no requested shared block -/
theorem privateOf_spec (size : Nat) (shared : List Block) (hne : shared ≠ []) (hok : SharedOk size shared) (x : Nat) :
    Covered (privateOf size shared) x ↔ x < size ∧ ¬ Covered shared x := by
  cases shared with
  | nil => exact absurd rfl hne
  | cons a rest =>
    have ha := sharedOk_tail size a rest hok
    have hg := gapsThenTail_spec size rest a hok x
    unfold privateOf
    constructor
    · rintro ⟨c, hc, hx⟩
      rcases List.mem_append.mp hc with hc | hc
      · by_cases h0 : a.1 > 0
        · simp only [h0, if_true] at hc
          simp at hc; subst hc
          have hx2 : x < a.1 := hx.2
          refine ⟨by omega, ?_⟩
          rintro ⟨d, hd, hdx⟩
          rcases List.mem_cons.mp hd with hd | hd
          · subst hd; omega
          · have := ha.2.2.2 d hd; omega
        · simp only [h0, if_false] at hc; cases hc
      · obtain ⟨g1, g2, g3⟩ := hg.mp ⟨c, hc, hx⟩
        refine ⟨g2, ?_⟩
        rintro ⟨d, hd, hdx⟩
        rcases List.mem_cons.mp hd with hd | hd
        · subst hd; omega
        · exact g3 ⟨d, hd, hdx⟩
    · rintro ⟨g2, g3⟩
      by_cases hxa : x < a.1
      · have h0 : a.1 > 0 := by omega
        refine ⟨(0, a.1), ?_, Nat.zero_le _, hxa⟩
        simp [h0]
      · have hna : ¬ (a.1 ≤ x ∧ x < a.2) := fun hh => g3 ⟨a, by simp, hh⟩
        have hr : ¬ Covered rest x := fun ⟨d, hd, hdx⟩ => g3 ⟨d, List.mem_cons_of_mem _ hd, hdx⟩
        obtain ⟨c, hc, hcx⟩ := hg.mpr ⟨by omega, g2, hr⟩
        exact ⟨c, List.mem_append.mpr (Or.inr hc), hcx⟩

theorem gapsThenTail_sorted (size : Nat) (rest : List Block) : ∀ (a : Block), SharedOk size (a :: rest) →
    Sorted (gapsThenTail size (a :: rest)) ∧ ∀ c ∈ gapsThenTail size (a :: rest), a.2 ≤ c.1 ∧ c.2 ≤ size := by
  induction rest with
  | nil =>
    intro a h
    unfold gapsThenTail
    by_cases hl : a.2 < size
    · simp only [hl, if_true]
      refine ⟨⟨hl, by simp, trivial⟩, ?_⟩
      intro c hc; simp at hc; subst hc; exact ⟨Nat.le_refl _, Nat.le_refl _⟩
    · simp only [hl, if_false]
      exact ⟨trivial, by simp⟩
  | cons b r ih =>
    intro a h
    obtain ⟨h1, h2, h3, h4⟩ := h
    have hb := sharedOk_tail size b r h4
    obtain ⟨is, ib⟩ := ih b h4
    show Sorted ((a.2, b.1) :: gapsThenTail size (b :: r)) ∧ ∀ c ∈ (a.2, b.1) :: gapsThenTail size (b :: r), _
    refine ⟨⟨h3, ?_, is⟩, ?_⟩
    · intro c hc
      have := (ib c hc).1
      show b.1 ≤ c.1
      omega
    · intro c hc
      rcases List.mem_cons.mp hc with hc | hc
      · subst hc
        exact ⟨Nat.le_refl _, by show b.1 ≤ size; omega⟩
      · have := ib c hc
        exact ⟨by omega, this.2⟩

/-- the recorded private blocks are non-empty, increasing, disjoint, inside the allocation -/
theorem privateOf_sorted (size : Nat) (shared : List Block) (hok : SharedOk size shared) :
    Sorted (privateOf size shared) ∧ ∀ c ∈ privateOf size shared, c.2 ≤ size := by
  cases shared with
  | nil => exact ⟨trivial, by simp [privateOf]⟩
  | cons a rest =>
    have ha := sharedOk_tail size a rest hok
    obtain ⟨gs, gb⟩ := gapsThenTail_sorted size rest a hok
    unfold privateOf
    by_cases h0 : a.1 > 0
    · simp only [h0, if_true, List.singleton_append]
      refine ⟨⟨h0, ?_, gs⟩, ?_⟩
      · intro c hc
        have := (gb c hc).1
        show a.1 ≤ c.1
        omega
      · intro c hc
        rcases List.mem_cons.mp hc with hc | hc
        · subst hc; show a.1 ≤ size; omega
        · exact (gb c hc).2
    · simp only [h0, if_false, List.nil_append]
      exact ⟨gs, fun c hc => (gb c hc).2⟩

/-! #### the property over histories: bookkeeping + lookup + copy, in the three send modes -/

/-- the requests of a history are accepted by `smpi_shared_malloc_partial` (its assertions) and lie in the address space -/
def ReqOk : AEvent → Prop
  | .malloc a s sh => sh ≠ [] ∧ SharedOk s sh ∧ a + s < W
  | .free _ => True

def LiveOk (a : LiveA) : Prop := a.shared ≠ [] ∧ SharedOk a.size a.shared ∧ a.addr + a.size < W

theorem liveOk_run (h : List AEvent) : ∀ (l : List LiveA), (∀ a ∈ l, LiveOk a) → (∀ e ∈ h, ReqOk e) →
    ∀ a ∈ lrun l h, LiveOk a := by
  induction h with
  | nil => intro l hl _; exact hl
  | cons e rest ih =>
    intro l hl he
    apply ih (lstep l e) _ (fun e' he' => he e' (List.mem_cons_of_mem _ he'))
    intro a ha
    cases e with
    | malloc ad s sh =>
      rcases List.mem_cons.mp ha with ha | ha
      · subst ha; exact he (.malloc ad s sh) (by simp)
      · exact hl a ha
    | free ad => exact hl a (List.mem_filter.mp ha).1

/-- byte `x` of a message starting at `ptr` is private by the program's REQUEST: it lies in no requested shared block of the
    live allocation containing the buffer (no condition for ordinary memory) -/
def PrivateReq (l : List LiveA) (ptr x : Nat) : Prop :=
  ∀ a ∈ l, a.contains ptr → ¬ Covered a.shared (x + (ptr - a.addr))

/-- a message of `n` bytes at `ptr` lies inside the allocation containing its start -/
def MsgFits (l : List LiveA) (ptr n : Nat) : Prop := ∀ a ∈ l, a.contains ptr → ptr + n ≤ a.addr + a.size

theorem looked_up_kind_ok (h : List AEvent) (hf : FreshRun [] h) (hr : ∀ e ∈ h, ReqOk e) (ptr n x : Nat) (hx : x < n)
    (hfit : MsgFits (lrun [] h) ptr n) (hp : PrivateReq (lrun [] h) ptr x) :
    WfKind (kindOfLookup (isShared (arun [] h) ptr)) n ∧ PrivateIn (kindOfLookup (isShared (arun [] h) ptr)) x := by
  cases hl : isShared (arun [] h) ptr with
  | none => exact ⟨trivial, trivial⟩
  | some r =>
    obtain ⟨bl, off⟩ := r
    obtain ⟨a, ha, hc, hbl, hoff⟩ := lookup_sound h hf ptr bl off hl
    obtain ⟨hne, hok, hw⟩ := liveOk_run h [] (by simp) hr a ha
    have hs := privateOf_sorted a.size a.shared hok
    have hfa := hfit a ha hc
    have hca : a.addr ≤ ptr ∧ ptr < a.addr + a.size := hc
    subst hbl hoff
    refine ⟨⟨hs.1, ?_, ?_⟩, ?_⟩
    · intro b hb
      have hb2 := hs.2 b hb
      -- non-empty: from sortedness
      have hlt : b.1 < b.2 := by
        have : ∀ (l : List Block), Sorted l → ∀ b ∈ l, b.1 < b.2 := by
          intro l
          induction l with
          | nil => intro _ b hb; cases hb
          | cons c t ih =>
            intro hsl b hb
            rcases List.mem_cons.mp hb with hb | hb
            · subst hb; exact hsl.1
            · exact ih hsl.2.2 b hb
        exact this _ hs.1 b hb
      exact ⟨hlt, by omega⟩
    · show ptr - a.addr + n < W
      omega
    · show Covered (privateOf a.size a.shared) (x + (ptr - a.addr))
      exact (privateOf_spec a.size a.shared hne hok _).mpr ⟨by omega, hp a ha hc⟩

/-- **private_bytes_transferred_after_any_history** — the property with the allocation bookkeeping in the loop: after ANY
    history of shared allocations and frees (any addresses the kernel may hand out, freed ranges reused in any way), for a
    send buffer at `ptrS` and a receive buffer at `ptrR` whose layouts the copy callback obtains from `smpi_is_shared`, in all
    three send modes, every byte `x` of the transferred part that lies in no REQUESTED shared block of the live allocation
    containing either buffer arrives with the value it had when the send started.  (Eager / detached: the callback sees the
    heap copy, `seenBuffer`; the lookup of the heap copy's address is `none` as long as it lies in no live shared allocation —
    that is the `.notShared` of `seenBuffer`.) -/
theorem private_bytes_transferred_after_any_history (h : List AEvent) (hf : FreshRun [] h) (hr : ∀ e ∈ h, ReqOk e)
    (m : Mode) (ptrS ptrR nSend nRecv : Nat) (viaTmp : Bool) (userAtSend userAtCopy dst tmp : Buf) (x : Nat)
    (hx : x < Nat.min nSend nRecv)
    (hfs : MsgFits (lrun [] h) ptrS (Nat.min nSend nRecv)) (hfr : MsgFits (lrun [] h) ptrR (Nat.min nSend nRecv))
    (hps : PrivateReq (lrun [] h) ptrS x) (hpr : PrivateReq (lrun [] h) ptrR x)
    (hstable : m = .rendezvous → userAtCopy = userAtSend) :
    transfer m (kindOfLookup (isShared (arun [] h) ptrS)) (kindOfLookup (isShared (arun [] h) ptrR)) nSend nRecv viaTmp
      userAtSend userAtCopy dst tmp x = userAtSend x := by
  obtain ⟨ws, ps⟩ := looked_up_kind_ok h hf hr ptrS _ x hx hfs hps
  obtain ⟨wr, pr⟩ := looked_up_kind_ok h hf hr ptrR _ x hx hfr hpr
  exact private_bytes_transferred_all_modes m _ _ nSend nRecv viaTmp userAtSend userAtCopy dst tmp x ws wr hx ps pr hstable

/-! #### non-vacuity and a sanity check of the state machine -/

/-- the history of the missed seeded change: an allocation (first page private) at 0x50000 is freed, a larger one with
    another layout (first page shared) is placed over its range starting below it; an address of the new allocation above the
    old start is attributed to the NEW allocation -/
example :
    let h := [AEvent.malloc 0x50000 0x40000 [(0x1000, 0x40000)], .free 0x50000, .malloc 0x10000 0x80000 [(0, 0x1000)]]
    FreshRun [] h ∧ isShared (arun [] h) 0x52000 = some ([(0x1000, 0x80000)], 0x42000) ∧
      isShared (arun [] [AEvent.malloc 0x50000 0x40000 [(0x1000, 0x40000)], .free 0x50000]) 0x52000 = none := by
  refine ⟨⟨⟨by decide, by simp⟩, trivial, ⟨by decide, by simp [lstep]⟩, trivial⟩, by decide, by decide⟩

/-- the release really depends on the reference count: with a post-decrement test (`count-- == 0`) the freed entry stays
    and the same lookup answers with the stale layout — the state machine distinguishes the two -/
example :
    let freeBad (m : MMap) (p : Nat) : MMap := match m.find p with
      | some mt => if mt.count = 0 then m.erase p else m.set p { mt with count := mt.count - 1 }
      | none => m
    isShared (mallocStep (freeBad (mallocStep [] 0x50000 0x40000 [(0x1000, 0x40000)]) 0x50000) 0x10000 0x80000 [(0, 0x1000)])
      0x52000 = some ([(0, 0x1000)], 0x2000) := by decide

example : SharedOk 100 [(10, 20), (40, 100)] ∧ privateOf 100 [(10, 20), (40, 100)] = [(0, 10), (20, 40)] ∧
    privateOf 100 [(0, 100)] = [] ∧ privateOf 100 [(0, 30), (50, 60)] = [(30, 50), (60, 100)] :=
  ⟨by simp [SharedOk], by decide, by decide, by decide⟩

end SgVerif.C35
