import SgVerif.C35.Model
/-
C35 — the allocation bookkeeping behind `smpi_is_shared` (src/smpi/internals/smpi_shared.cpp, GLOBAL mode — the mode of
SMPI_PARTIAL_SHARED_MALLOC): the table `std::map<const void*, shared_metadata_t> allocs_metadata`, filled by
`smpi_shared_malloc_partial`, emptied by `smpi_shared_free` (reference count of the allocation's `shared_data_t`), searched by
`smpi_is_shared` (`lower_bound`, then the predecessor).  Addresses are `Nat`; WHICH address an allocation gets is the
kernel's choice (`mmap(nullptr, …)`): an input of the model (`AEvent.malloc addr …`), constrained only by
"a fresh mapping does not overlap a live one" (`Fresh`).  Core only (used by the driver).
-/
namespace SgVerif.C35

/-- the fields of `shared_metadata_t` that the lookup and the release use: `size`, `private_blocks`, `data->second.count`
    (GLOBAL mode: `auto* data = new shared_data_key_type; data->second.count = 1;` — one `data` per allocation) -/
structure Meta where
  size : Nat
  blocks : List Block
  count : Int
  deriving Repr, DecidableEq

/-- `allocs_metadata`: a `std::map` = a sequence of (key, value) sorted by strictly increasing key -/
abbrev MMap := List (Nat × Meta)

/-- `allocs_metadata[mem] = newmeta;` — insert at the sorted position, or overwrite the value of an existing key -/
def MMap.set : MMap → Nat → Meta → MMap
  | [], k, v => [(k, v)]
  | x :: rest, k, v =>
    if k < x.1 then (k, v) :: x :: rest
    else if k = x.1 then (k, v) :: rest
    else x :: MMap.set rest k v

/-- `allocs_metadata.find(ptr)` -/
def MMap.find (m : MMap) (k : Nat) : Option Meta := (List.find? (fun x => x.1 == k) m).map (·.2)

/-- `allocs_metadata.erase(meta)` (keys are unique) -/
def MMap.erase (m : MMap) (k : Nat) : MMap := m.filter (fun x => x.1 != k)

/-
  if(shared_block_offsets[0] > 0) newmeta.private_blocks.emplace_back(0, shared_block_offsets[0]);
  int i_block;
  for(i_block = 0; i_block < nb_shared_blocks-1; i_block ++)
    newmeta.private_blocks.emplace_back(shared_block_offsets[2 * i_block + 1], shared_block_offsets[2 * i_block + 2]);
  if(shared_block_offsets[2*i_block+1] < size) newmeta.private_blocks.emplace_back(shared_block_offsets[2 * i_block + 1], size);
`shared` = the (start, stop) pairs of `shared_block_offsets`, at least one (with `nb_shared_blocks = 0` the code reads
`shared_block_offsets[-1]`: undefined behaviour, not modelled — `privateOf size [] = []` is a totalisation never used).
-/
def gapsThenTail (size : Nat) : List Block → List Block
  | [] => []
  | [l] => if l.2 < size then [(l.2, size)] else []
  | a :: b :: rest => (a.2, b.1) :: gapsThenTail size (b :: rest)

def privateOf (size : Nat) (shared : List Block) : List Block :=
  match shared with
  | [] => []
  | s0 :: _ => (if s0.1 > 0 then [(0, s0.1)] else []) ++ gapsThenTail size shared

/-- the `xbt_assert`s of `smpi_shared_malloc_partial` on `shared_block_offsets`: start < stop ≤ size, stop < next start -/
def SharedOk (size : Nat) : List Block → Prop
  | [] => True
  | [l] => l.1 < l.2 ∧ l.2 ≤ size
  | a :: b :: rest => a.1 < a.2 ∧ a.2 ≤ size ∧ a.2 < b.1 ∧ SharedOk size (b :: rest)

/-- `smpi_shared_malloc_partial` returned `addr` (the bookkeeping part): `newmeta.size = size; data->second.count = 1; …;
    allocs_metadata[mem] = newmeta;` -/
def mallocStep (m : MMap) (addr size : Nat) (shared : List Block) : MMap :=
  m.set addr { size := size, blocks := privateOf size shared, count := 1 }

/-
`smpi_shared_free(ptr)`, GLOBAL branch:
    auto meta = allocs_metadata.find(ptr);
    if (meta != allocs_metadata.end()){
      meta->second.data->second.count--;
      munmap(ptr, meta->second.size);
      if(meta->second.data->second.count==0){ delete meta->second.data; allocs_metadata.erase(meta); }
    }else{ xbt_free(ptr); return; }
-/
def freeStep (m : MMap) (ptr : Nat) : MMap :=
  match m.find ptr with
  | some mt =>
    let c := mt.count - 1
    if c = 0 then m.erase ptr else m.set ptr { mt with count := c }
  | none => m

/-- the answer for the entry just before `lower_bound(ptr)` (`low--`), if there is one (`low == begin` ⇒ `return 0`):
      if (ptr < (char*)low->first + low->second.size) { *offset = ptr - low->first; private_blocks = …; return 1; } return 0; -/
def fromPrev (prev : Option (Nat × Meta)) (ptr : Nat) : Option (List Block × Nat) :=
  match prev with
  | none => none
  | some p => if ptr < p.1 + p.2.size then some (p.2.blocks, ptr - p.1) else none

/-
`smpi_is_shared(ptr, private_blocks, &offset)`:
    if (allocs_metadata.empty()) return 0;
    auto low = allocs_metadata.lower_bound(ptr);                      // first key >= ptr
    if (low != allocs_metadata.end() && low->first == ptr) { private_blocks = low->second.private_blocks; *offset = 0; return 1; }
    if (low == allocs_metadata.begin()) return 0;
    low --;
    if (ptr < (char*)low->first + low->second.size) { … *offset = ptr - low->first; … return 1; }
    return 0;
The ordered traversal that finds `lower_bound` remembers the element it passed last (`prev`) = what `low--` reaches.
-/
def lookupFrom : Option (Nat × Meta) → MMap → Nat → Option (List Block × Nat)
  | prev, [], ptr => fromPrev prev ptr
  | prev, x :: rest, ptr =>
    if x.1 < ptr then lookupFrom (some x) rest ptr
    else if x.1 = ptr then some (x.2.blocks, 0)
    else fromPrev prev ptr

def isShared (m : MMap) (ptr : Nat) : Option (List Block × Nat) := lookupFrom none m ptr

/-- what the lookup reports as a `BufKind` of the copy callback -/
def kindOfLookup : Option (List Block × Nat) → BufKind
  | none => .notShared
  | some (bl, o) => .shared bl o

/-! ### histories -/

inductive AEvent where
  /-- `smpi_shared_malloc_partial(size, shared, nb)` whose `mmap` returned `addr` -/
  | malloc (addr size : Nat) (shared : List Block)
  /-- `smpi_shared_free(addr)` -/
  | free (addr : Nat)
  deriving Repr

def astep (m : MMap) : AEvent → MMap
  | .malloc a s sh => mallocStep m a s sh
  | .free a => freeStep m a

def arun (m : MMap) (h : List AEvent) : MMap := h.foldl astep m

/-! ### specification side: the allocations that are live -/

structure LiveA where
  addr : Nat
  size : Nat
  shared : List Block
  deriving Repr, DecidableEq

def LiveA.contains (a : LiveA) (ptr : Nat) : Prop := a.addr ≤ ptr ∧ ptr < a.addr + a.size

instance (a : LiveA) (ptr : Nat) : Decidable (a.contains ptr) := by unfold LiveA.contains; infer_instance

def lstep (l : List LiveA) : AEvent → List LiveA
  | .malloc a s sh => { addr := a, size := s, shared := sh } :: l
  | .free a => l.filter (fun x => x.addr != a)

def lrun (l : List LiveA) (h : List AEvent) : List LiveA := h.foldl lstep l

/-- what the operating system guarantees about a history: a new mapping is non-empty and does not overlap a live one
    (a freed range may be reused, entirely or partly, at once) -/
def Fresh (l : List LiveA) : AEvent → Prop
  | .malloc a s _ => 0 < s ∧ ∀ x ∈ l, x.addr + x.size ≤ a ∨ a + s ≤ x.addr
  | .free _ => True

def FreshRun : List LiveA → List AEvent → Prop
  | _, [] => True
  | l, e :: rest => Fresh l e ∧ FreshRun (lstep l e) rest

/-- Boolean version of `Fresh` for the driver -/
def freshB (l : List LiveA) : AEvent → Bool
  | .malloc a s _ => decide (0 < s) && l.all (fun x => decide (x.addr + x.size ≤ a) || decide (a + s ≤ x.addr))
  | .free _ => true

/-- the specification of the lookup: the live allocation containing the address -/
def specLookup (l : List LiveA) (ptr : Nat) : Option LiveA := l.find? (fun x => decide (x.contains ptr))

end SgVerif.C35
