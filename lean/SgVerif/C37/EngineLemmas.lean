import SgVerif.C37.Engine
/-
C37 — lemmas for `replay_issues_same_calls`: the replay `RequestStorage` under "keys are distinct", the simulation
invariant between the online rank state and the replay state, one step, whole runs.
-/
set_option linter.unusedSimpArgs false
set_option linter.unusedVariables false
namespace SgVerif.C37

/-! ### the storage when its keys are pairwise distinct -/

theorem lookup_of_mem : ∀ (s : Store) (k : Key) (x : Option Req), (s.map (·.1)).Nodup → (k, x) ∈ s → s.lookup k = some x := by
  intro s
  induction s with
  | nil => intro k x _ h; simp at h
  | cons e rest ih =>
    intro k x hn h
    obtain ⟨k', r⟩ := e
    simp only [List.map_cons, List.nodup_cons] at hn
    simp only [Store.lookup]
    simp only [List.mem_cons, Prod.mk.injEq] at h
    by_cases hk : k' = k
    · simp only [hk, if_true]
      rcases h with ⟨_, rfl⟩ | h
      · rfl
      · exfalso; apply hn.1; rw [hk]; exact List.mem_map.mpr ⟨(k, x), h, rfl⟩
    · simp only [hk, if_false]
      rcases h with ⟨h1, _⟩ | h
      · exact absurd h1.symm hk
      · exact ih k x hn.2 h

theorem lookup_mem : ∀ (s : Store) (k : Key) (x : Option Req), s.lookup k = some x → (k, x) ∈ s := by
  intro s
  induction s with
  | nil => intro k x h; simp [Store.lookup] at h
  | cons e rest ih =>
    intro k x h
    obtain ⟨k', r⟩ := e
    simp only [Store.lookup] at h
    by_cases hk : k' = k
    · simp only [hk, if_true, Option.some.injEq] at h; subst h; subst hk; simp
    · simp only [hk, if_false] at h; exact List.mem_cons_of_mem _ (ih k x h)

theorem lookup_none : ∀ (s : Store) (k : Key), s.lookup k = none → ∀ x, (k, x) ∉ s := by
  intro s
  induction s with
  | nil => intro k _ x h; simp at h
  | cons e rest ih =>
    intro k h x hx
    obtain ⟨k', r⟩ := e
    simp only [Store.lookup] at h
    by_cases hk : k' = k
    · simp [hk] at h
    · simp only [hk, if_false] at h
      simp only [List.mem_cons, Prod.mk.injEq] at hx
      rcases hx with ⟨h1, _⟩ | hx
      · exact hk h1.symm
      · exact ih k h x hx

theorem mem_erase1 : ∀ (s : Store) (k : Key) (e : Key × Option Req), (s.map (·.1)).Nodup →
    (e ∈ s.erase1 k ↔ e ∈ s ∧ e.1 ≠ k) := by
  intro s
  induction s with
  | nil => intro k e _; simp [Store.erase1]
  | cons a rest ih =>
    intro k e hn
    obtain ⟨k', r⟩ := a
    simp only [List.map_cons, List.nodup_cons] at hn
    simp only [Store.erase1]
    by_cases hk : k' = k
    · simp only [hk, if_true, List.mem_cons]
      constructor
      · intro h
        refine ⟨Or.inr h, ?_⟩
        intro he
        apply hn.1; rw [hk, ← he]; exact List.mem_map.mpr ⟨e, h, rfl⟩
      · rintro ⟨h | h, hne⟩
        · subst h; exact absurd rfl hne
        · exact h
    · simp only [hk, if_false, List.mem_cons, ih k e hn.2]
      constructor
      · rintro (h | ⟨h, hne⟩)
        · subst h; exact ⟨Or.inl rfl, hk⟩
        · exact ⟨Or.inr h, hne⟩
      · rintro ⟨h | h, hne⟩
        · exact Or.inl h
        · exact Or.inr ⟨h, hne⟩

theorem nodup_erase1 : ∀ (s : Store) (k : Key), (s.map (·.1)).Nodup → ((s.erase1 k).map (·.1)).Nodup := by
  intro s
  induction s with
  | nil => intro k _; simp [Store.erase1]
  | cons a rest ih =>
    intro k hn
    obtain ⟨k', r⟩ := a
    simp only [List.map_cons, List.nodup_cons] at hn
    simp only [Store.erase1]
    by_cases hk : k' = k
    · simp only [hk, if_true]; exact hn.2
    · simp only [hk, if_false, List.map_cons, List.nodup_cons]
      refine ⟨?_, ih k hn.2⟩
      intro h
      obtain ⟨e, he, hek⟩ := List.mem_map.mp h
      have := (mem_erase1 rest k e hn.2).mp he
      apply hn.1; rw [← hek]; exact List.mem_map.mpr ⟨e, this.1, rfl⟩

theorem key_not_in_erase1 (s : Store) (k : Key) (hn : (s.map (·.1)).Nodup) : k ∉ (s.erase1 k).map (·.1) := by
  intro h
  obtain ⟨e, he, hek⟩ := List.mem_map.mp h
  exact ((mem_erase1 s k e hn).mp he).2 hek

theorem mem_live (s : Store) (q : Req) : q ∈ s.live ↔ ∃ k, (k, some q) ∈ s := by
  simp only [Store.live, List.mem_filterMap]
  constructor
  · rintro ⟨⟨k, x⟩, h1, h2⟩; simp only at h2; subst h2; exact ⟨k, h1⟩
  · rintro ⟨k, h⟩; exact ⟨(k, some q), h, rfl⟩

/-! ### the simulation invariant -/

structure Inv (o : OState) (r : RState) : Prop where
  next : r.next = o.next
  N : (r.store.map (·.1)).Nodup
  E1 : ∀ k q, (k, some q) ∈ r.store → q ∈ o.pending ∧ k = q.key
  E2 : ∀ k, (k, none) ∈ r.store → k ∈ o.done
  P : ∀ q ∈ o.pending, (q.key, some q) ∈ r.store
  K : (o.pending.map (·.key)).Nodup

theorem inv_init : Inv ⟨0, [], []⟩ ⟨0, []⟩ := by
  refine ⟨rfl, by simp, ?_, ?_, ?_, by simp⟩ <;> simp

theorem same_refl (a : Issue) : a.same a := by
  cases a <;> simp [Issue.same]

theorem sameL_refl : ∀ l : List Issue, sameL l l := by
  intro l; induction l with
  | nil => trivial
  | cons a t ih => exact ⟨same_refl a, ih⟩

theorem sameL_append : ∀ (a b c d : List Issue), sameL a b → sameL c d → sameL (a ++ c) (b ++ d) := by
  intro a
  induction a with
  | nil => intro b c d h1 h2; cases b with
    | nil => simpa using h2
    | cons _ _ => exact (h1 : False).elim
  | cons x t ih => intro b c d h1 h2; cases b with
    | nil => exact (h1 : False).elim
    | cons y u => exact ⟨h1.1, ih u c d h1.2 h2⟩

theorem sameL_waitall (l1 l2 : List Nat) (h : ∀ x, x ∈ l1 ↔ x ∈ l2) : sameL (waitallIssue l1) (waitallIssue l2) := by
  unfold waitallIssue
  cases l1 with
  | nil =>
    cases l2 with
    | nil => trivial
    | cons y u => exact absurd ((h y).mpr (by simp)) (by simp)
  | cons x t =>
    cases l2 with
    | nil => exact absurd ((h x).mp (by simp)) (by simp)
    | cons y u => exact ⟨h, trivial⟩

/-- a pending request with a key that is not another pending request's key -/
theorem key_inj_list : ∀ (l : List Req), (l.map (·.key)).Nodup → ∀ {q q' : Req}, q ∈ l → q' ∈ l → q.key = q'.key → q = q' := by
  intro l
  induction l with
  | nil => intro _ q q' h1; simp at h1
  | cons a t ih =>
    intro hK q q' h1 h2 hk
    simp only [List.map_cons, List.nodup_cons] at hK
    simp only [List.mem_cons] at h1 h2
    rcases h1 with rfl | h1 <;> rcases h2 with rfl | h2
    · rfl
    · exfalso; apply hK.1; rw [hk]; exact List.mem_map.mpr ⟨q', h2, rfl⟩
    · exfalso; apply hK.1; rw [← hk]; exact List.mem_map.mpr ⟨q, h1, rfl⟩
    · exact ih hK.2 h1 h2 hk

theorem key_inj {o : OState} (hK : (o.pending.map (·.key)).Nodup) {q q' : Req} (h1 : q ∈ o.pending) (h2 : q' ∈ o.pending)
    (hk : q.key = q'.key) : q = q' := key_inj_list o.pending hK h1 h2 hk

theorem nodup_filter_keys (l : List Req) (p : Req → Bool) (h : (l.map (·.key)).Nodup) : ((l.filter p).map (·.key)).Nodup := by
  induction l with
  | nil => simp
  | cons a t ih =>
    simp only [List.map_cons, List.nodup_cons] at h
    simp only [List.filter_cons]
    split
    · simp only [List.map_cons, List.nodup_cons]
      refine ⟨?_, ih h.2⟩
      intro hm
      obtain ⟨x, hx, hxk⟩ := List.mem_map.mp hm
      apply h.1; rw [← hxk]; exact List.mem_map.mpr ⟨x, (List.mem_filter.mp hx).1, rfl⟩
    · exact ih h.2

/-- removing the pending request `q` on both sides -/
theorem inv_remove {o : OState} {r : RState} (h : Inv o r) (q : Req) (hq : q ∈ o.pending) (done' : List Key)
    (hd : ∀ k ∈ o.done, k ∈ done') :
    Inv ⟨o.next, o.pending.filter (· != q), done'⟩ ⟨r.next, r.store.erase1 q.key⟩ := by
  refine ⟨h.next, nodup_erase1 _ _ h.N, ?_, ?_, ?_, nodup_filter_keys _ _ h.K⟩
  · intro k q' hm
    have := (mem_erase1 r.store q.key (k, some q') h.N).mp hm
    obtain ⟨e1, e2⟩ := h.E1 k q' this.1
    refine ⟨?_, e2⟩
    simp only [List.mem_filter, bne_iff_ne, ne_eq]
    refine ⟨e1, ?_⟩
    intro he; subst he; exact this.2 e2
  · intro k hm
    have := (mem_erase1 r.store q.key (k, none) h.N).mp hm
    exact hd k (h.E2 k this.1)
  · intro q' hq'
    simp only [List.mem_filter, bne_iff_ne, ne_eq] at hq'
    apply (mem_erase1 r.store q.key (q'.key, some q') h.N).mpr
    refine ⟨h.P q' hq'.1, ?_⟩
    intro hk
    exact hq'.2 (key_inj h.K hq'.1 hq hk)

/-- creating a request with a fresh key on both sides -/
theorem inv_add {o : OState} {r : RState} (h : Inv o r) (k : Key) (hk1 : k ∉ o.pending.map (·.key)) (hk2 : k ∉ o.done) :
    Inv ⟨o.next + 1, o.pending ++ [⟨o.next, k⟩], o.done⟩ ⟨r.next + 1, r.store ++ [(k, some ⟨r.next, k⟩)]⟩ := by
  have hfresh : k ∉ r.store.map (·.1) := by
    intro hm
    obtain ⟨⟨k', x⟩, he, hek⟩ := List.mem_map.mp hm
    simp only at hek; subst hek
    cases x with
    | none => exact hk2 (h.E2 _ he)
    | some q =>
      obtain ⟨e1, e2⟩ := h.E1 _ q he
      apply hk1; rw [e2]; exact List.mem_map.mpr ⟨q, e1, rfl⟩
  refine ⟨by simp [h.next], ?_, ?_, ?_, ?_, ?_⟩
  · simp only [List.map_append, List.map_cons, List.map_nil]
    exact List.nodup_append.mpr ⟨h.N, by simp, by
      intro a ha b hb; simp only [List.mem_singleton] at hb; subst hb; intro e; subst e; exact hfresh ha⟩
  · intro k' q hm
    simp only [List.mem_append, List.mem_singleton, Prod.mk.injEq, Option.some.injEq] at hm
    rcases hm with hm | ⟨rfl, rfl⟩
    · obtain ⟨e1, e2⟩ := h.E1 k' q hm
      exact ⟨by simp [e1], e2⟩
    · exact ⟨by simp [h.next], rfl⟩
  · intro k' hm
    simp only [List.mem_append, List.mem_singleton, Prod.mk.injEq] at hm
    rcases hm with hm | ⟨_, hx⟩
    · exact h.E2 k' hm
    · cases hx
  · intro q hq
    simp only [List.mem_append, List.mem_singleton] at hq
    rcases hq with hq | rfl
    · exact List.mem_append_left _ (h.P q hq)
    · simp [h.next]
  · simp only [List.map_append, List.map_cons, List.map_nil]
    exact List.nodup_append.mpr ⟨h.K, by simp, by
      intro a ha b hb; simp only [List.mem_singleton] at hb; subst hb; intro e; subst e; exact hk1 ha⟩

theorem find_mem (l : List Req) (id : Nat) (q : Req) (h : l.find? (fun r => r.id == id) = some q) : q ∈ l :=
  List.mem_of_find?_eq_some h

end SgVerif.C37
