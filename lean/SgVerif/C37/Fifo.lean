import SgVerif.C37.EngineLemmas2
/-
C37 — the FIFO class: programs that may hold SEVERAL requests under one (sender, receiver, tag) at once, and complete
them with MPI_Wait in the order they were posted (per key).  Outside `WfProg` (which forbids two stored requests with
one key), inside the property.  The TI record of a wait names only the key; `RequestStorage::pop` takes the OLDEST entry
of the key (`front()` / `pop_front()`), which is the request the online run waited for exactly when the program waits
in posting order.  The simulation invariant here is "the storage is the list of active requests, in posting order".
No MPI_Test in this class (a successful test re-inserts a null entry at the END of the key's list).
-/
set_option linter.unusedSimpArgs false
set_option linter.unusedVariables false
namespace SgVerif.C37

/-- the oldest active request with the key of `q` is `q` itself -/
def oldestOfKey (pending : List Req) (q : Req) : Prop := pending.find? (fun x => x.key == q.key) = some q

/-- FIFO discipline: any Isend / Irecv (keys may repeat), blocking calls, a Wait completes the oldest active request of
    its key (a Wait on an inactive handle is allowed: it is a no-op), Waitall names every active request; no Test. -/
def fifoStep (me : Int) (st : OState) : Call → Prop
  | .blocking a => a.isBlocking = true
  | .isend .. => True
  | .irecv .. => True
  | .wait id => ∀ q ∈ st.pending, q.id = id → oldestOfKey st.pending q
  | .test _ _ => False
  | .waitall ids => ∀ r ∈ st.pending, r.id ∈ ids

def FifoProg (me : Int) : OState → List Call → Prop
  | _, [] => True
  | st, c :: rest => fifoStep me st c ∧ FifoProg me (onlineStep me st c).2.2 rest

def entry (q : Req) : Key × Option Req := (q.key, some q)

/-- simulation invariant: the storage holds exactly the active requests, in posting order; request ids are fresh -/
structure InvF (o : OState) (r : RState) : Prop where
  next : r.next = o.next
  store : r.store = o.pending.map entry
  lt : ∀ q ∈ o.pending, q.id < o.next
  nodup : (o.pending.map (·.id)).Nodup

theorem invF_init : InvF ⟨0, [], []⟩ ⟨0, []⟩ := ⟨rfl, rfl, by simp, by simp⟩

theorem lookup_entries : ∀ (l : List Req) (k : Key),
    Store.lookup (l.map entry) k = (l.find? (fun x => x.key == k)).map some := by
  intro l k
  induction l with
  | nil => rfl
  | cons h t ih =>
    simp only [List.map_cons, Store.lookup, entry, List.find?_cons]
    by_cases hk : h.key = k
    · simp [hk]
    · have : (h.key == k) = false := by simp [hk]
      simp only [hk, if_false, this]
      exact ih

theorem not_mem_of_id {l : List Req} {h : Req} (hn : h.id ∉ l.map (·.id)) : h ∉ l := by
  intro hm; exact hn (List.mem_map_of_mem hm)

theorem filter_ne_self_of_not_mem (l : List Req) (q : Req) (h : q ∉ l) : l.filter (· != q) = l := by
  rw [List.filter_eq_self]
  intro a ha
  have : a ≠ q := fun e => h (e ▸ ha)
  simpa using this

theorem erase1_entries : ∀ (l : List Req) (q : Req), (l.map (·.id)).Nodup → l.find? (fun x => x.key == q.key) = some q →
    Store.erase1 (l.map entry) q.key = (l.filter (· != q)).map entry := by
  intro l q
  induction l with
  | nil => intro _ h; simp at h
  | cons h t ih =>
    intro hn hf
    simp only [List.map_cons, List.nodup_cons] at hn
    simp only [List.find?_cons] at hf
    by_cases hk : h.key = q.key
    · have hb : (h.key == q.key) = true := by simp [hk]
      simp only [hb, Option.some.injEq] at hf
      subst hf
      have : List.filter (· != h) (h :: t) = t := by
        simp only [List.filter_cons, bne_self_eq_false, Bool.false_eq_true, if_false]
        exact filter_ne_self_of_not_mem t h (not_mem_of_id hn.1)
      rw [this]
      simp [List.map_cons, Store.erase1, entry]
    · have hb : (h.key == q.key) = false := by simp [hk]
      simp only [hb] at hf
      have hne : h ≠ q := fun e => hk (e ▸ rfl)
      have hb2 : (h != q) = true := by simpa using hne
      simp only [List.map_cons, Store.erase1, entry, hk, if_false, List.filter_cons, hb2, if_true]
      congr 1
      exact ih hn.2 hf

theorem live_entries (l : List Req) : Store.live (l.map entry) = l := by
  induction l with
  | nil => rfl
  | cons h t ih => simp only [Store.live, List.map_cons, List.filterMap_cons, entry] at ih ⊢; rw [ih]

theorem step_sim_fifo (me : Int) (o : OState) (r : RState) (c : Call) (h : InvF o r) (hw : fifoStep me o c) :
    ∃ i' r', replayRun me r (onlineStep me o c).2.1 = some (i', r') ∧ sameL (onlineStep me o c).1 i' ∧
      InvF (onlineStep me o c).2.2 r' := by
  have add : ∀ k : Key, InvF ⟨o.next + 1, o.pending ++ [⟨o.next, k⟩], o.done⟩
      ⟨r.next + 1, r.store ++ [(k, some ⟨r.next, k⟩)]⟩ := by
    intro k
    refine ⟨by simp [h.next], by simp [h.store, h.next, entry], ?_, ?_⟩
    · intro q hq
      simp only [List.mem_append, List.mem_singleton] at hq
      rcases hq with hq | rfl
      · exact Nat.lt_succ_of_lt (h.lt q hq)
      · exact Nat.lt_succ_self _
    · simp only [List.map_append, List.map_cons, List.map_nil]
      refine List.nodup_append.2 ⟨h.nodup, by simp, ?_⟩
      intro a ha b hb
      simp only [List.mem_singleton] at hb
      subst hb
      obtain ⟨q, hq, rfl⟩ := List.mem_map.1 ha
      exact Nat.ne_of_lt (h.lt q hq)
  cases c with
  | blocking a =>
    simp only [fifoStep] at hw
    exact ⟨[.call a], r, replayRun_single me r a false _ _ (replayStep_blocking me r a false hw), sameL_refl _, h⟩
  | isend p t s ty =>
    refine ⟨[.start (.isend p t s ty) r.next], _, replayRun_single me r _ false _ _ rfl, ?_, add (me, p, t)⟩
    simp only [onlineStep, h.next]; exact sameL_refl _
  | irecv p t s ty =>
    refine ⟨[.start (.irecv p t s ty) r.next], _, replayRun_single me r _ false _ _ rfl, ?_, add (p, me, t)⟩
    simp only [onlineStep, h.next]; exact sameL_refl _
  | test id f => exact absurd hw (by simp [fifoStep])
  | wait id =>
    simp only [onlineStep]
    cases hf : o.pending.find? (fun r => r.id == id) with
    | none => exact ⟨[], r, rfl, trivial, h⟩
    | some q =>
      have hq : q ∈ o.pending := find_mem _ _ _ hf
      have hid : q.id = id := by
        have := List.find?_some hf
        simpa using this
      have hold : o.pending.find? (fun x => x.key == q.key) = some q := hw q hq hid
      have hne : r.store.isEmpty = false := by
        rw [h.store]
        cases hp : o.pending with
        | nil => rw [hp] at hq; simp at hq
        | cons _ _ => rfl
      have hl : r.store.lookup (q.key.1, q.key.2.1, q.key.2.2) = some (some q) := by
        rw [key_eta, h.store, lookup_entries, hold]; rfl
      refine ⟨[.wait q.id], ⟨r.next, r.store.erase1 q.key⟩, ?_, sameL_refl _, ?_⟩
      · apply replayRun_single
        simp only [replayStep, hne, Bool.false_eq_true, if_false, hl, key_eta]
      · refine ⟨h.next, ?_, ?_, ?_⟩
        · simp only [h.store]; exact erase1_entries _ _ h.nodup hold
        · intro x hx; exact h.lt x (List.mem_filter.1 hx).1
        · exact (List.Sublist.map _ List.filter_sublist).nodup h.nodup
  | waitall ids =>
    simp only [fifoStep] at hw
    simp only [onlineStep]
    have hall : o.pending.filter (fun r => ids.contains r.id) = o.pending := by
      rw [List.filter_eq_self]; intro a ha; simpa using hw a ha
    have hnone : o.pending.filter (fun r => !ids.contains r.id) = [] := by
      rw [List.filter_eq_nil_iff]; intro a ha; simpa using hw a ha
    rw [hall, hnone]
    cases hp : o.pending with
    | nil =>
      have hs : r.store = [] := by rw [h.store, hp]; rfl
      refine ⟨[], r, ?_, ?_, ?_⟩
      · apply replayRun_single; simp [replayStep, hs]
      · simp [waitallIssue, sameL]
      · exact ⟨h.next, by simp [hs], by simp, by simp⟩
    | cons q0 rest =>
      have hs : r.store.isEmpty = false := by rw [h.store, hp]; rfl
      refine ⟨waitallIssue (r.store.live.map (·.id)), ⟨r.next, []⟩, ?_, ?_, ?_⟩
      · apply replayRun_single; simp [replayStep, hs]
      · apply sameL_waitall
        intro x; rw [h.store, live_entries, hp]
      · exact ⟨h.next, by simp, by simp, by simp⟩

/-- whole runs (engine layer) for the FIFO class -/
theorem run_sim_fifo (me : Int) : ∀ (prog : List Call) (o : OState) (r : RState), InvF o r → FifoProg me o prog →
    ∃ i' r', replayRun me r (onlineRun me o prog).2 = some (i', r') ∧ sameL (onlineRun me o prog).1 i' := by
  intro prog
  induction prog with
  | nil => intro o r _ _; exact ⟨[], r, rfl, trivial⟩
  | cons c rest ih =>
    intro o r h hw
    simp only [FifoProg] at hw
    obtain ⟨i1, r1, e1, s1, inv1⟩ := step_sim_fifo me o r c h hw.1
    obtain ⟨i2, r2, e2, s2⟩ := ih _ r1 inv1 hw.2
    refine ⟨i1 ++ i2, r2, ?_, ?_⟩
    · simp only [onlineRun]
      rw [replayRun_append me _ _ r i1 r1 e1, e2]; rfl
    · simp only [onlineRun]
      exact sameL_append _ _ _ _ s1 s2

end SgVerif.C37
