import SgVerif.C37.EngineLemmas
/-
C37 — one step of the online rank is simulated by the replayer on the TI records the step wrote; whole runs.
-/
set_option linter.unusedSimpArgs false
set_option linter.unusedVariables false
namespace SgVerif.C37

theorem key_eta (k : Key) : (k.1, k.2.1, k.2.2) = k := rfl

theorem replayStep_blocking (me : Int) (r : RState) (a : Action) (f : Bool) (h : a.isBlocking = true) :
    replayStep me r a f = some ([.call a], r) := by
  cases a <;> simp [Action.isBlocking] at h <;> rfl

theorem replayRun_single (me : Int) (r : RState) (a : Action) (f : Bool) (i : List Issue) (r' : RState)
    (h : replayStep me r a f = some (i, r')) : replayRun me r [(a, f)] = some (i, r') := by
  simp [replayRun, h]

theorem store_nonempty {o : OState} {r : RState} (h : Inv o r) (q : Req) (hq : q ∈ o.pending) : r.store.isEmpty = false := by
  have := h.P q hq
  cases hs : r.store with
  | nil => rw [hs] at this; simp at this
  | cons _ _ => rfl

theorem lookup_pending {o : OState} {r : RState} (h : Inv o r) (q : Req) (hq : q ∈ o.pending) :
    r.store.lookup q.key = some (some q) := lookup_of_mem _ _ _ h.N (h.P q hq)

/-- MPI_Test succeeded: the request leaves `pending`, the storage keeps a null entry under its key -/
theorem inv_test_done {o : OState} {r : RState} (h : Inv o r) (q : Req) (hq : q ∈ o.pending) :
    Inv ⟨o.next, o.pending.filter (· != q), q.key :: o.done⟩ ⟨r.next, r.store.erase1 q.key ++ [(q.key, none)]⟩ := by
  have h1 := inv_remove h q hq (q.key :: o.done) (fun k hk => List.mem_cons_of_mem _ hk)
  have hfresh := key_not_in_erase1 r.store q.key h.N
  refine ⟨h1.next, ?_, ?_, ?_, ?_, h1.K⟩
  · simp only [List.map_append, List.map_cons, List.map_nil]
    exact List.nodup_append.mpr ⟨h1.N, by simp, by
      intro a ha b hb; simp only [List.mem_singleton] at hb; subst hb; intro e; subst e; exact hfresh ha⟩
  · intro k q' hm
    simp only [List.mem_append, List.mem_singleton, Prod.mk.injEq] at hm
    rcases hm with hm | ⟨_, hx⟩
    · exact h1.E1 k q' hm
    · cases hx
  · intro k hm
    simp only [List.mem_append, List.mem_singleton, Prod.mk.injEq] at hm
    rcases hm with hm | ⟨rfl, _⟩
    · exact h1.E2 k hm
    · simp
  · intro q' hq'
    exact List.mem_append_left _ (h1.P q' hq')

/-- MPI_Test failed: the request is put back at the end of the storage -/
theorem inv_test_readd {o : OState} {r : RState} (h : Inv o r) (q : Req) (hq : q ∈ o.pending) :
    Inv o ⟨r.next, r.store.erase1 q.key ++ [(q.key, some q)]⟩ := by
  have hfresh := key_not_in_erase1 r.store q.key h.N
  refine ⟨h.next, ?_, ?_, ?_, ?_, h.K⟩
  · simp only [List.map_append, List.map_cons, List.map_nil]
    exact List.nodup_append.mpr ⟨nodup_erase1 _ _ h.N, by simp, by
      intro a ha b hb; simp only [List.mem_singleton] at hb; subst hb; intro e; subst e; exact hfresh ha⟩
  · intro k q' hm
    simp only [List.mem_append, List.mem_singleton, Prod.mk.injEq, Option.some.injEq] at hm
    rcases hm with hm | ⟨rfl, rfl⟩
    · exact h.E1 k q' ((mem_erase1 _ _ _ h.N).mp hm).1
    · exact ⟨hq, rfl⟩
  · intro k hm
    simp only [List.mem_append, List.mem_singleton, Prod.mk.injEq] at hm
    rcases hm with hm | ⟨_, hx⟩
    · exact h.E2 k ((mem_erase1 _ _ _ h.N).mp hm).1
    · cases hx
  · intro q' hq'
    by_cases hk : q'.key = q.key
    · have := key_inj h.K hq' hq hk
      subst this; simp
    · exact List.mem_append_left _ ((mem_erase1 _ _ _ h.N).mpr ⟨h.P q' hq', hk⟩)

theorem live_ids {o : OState} {r : RState} (h : Inv o r) (x : Nat) :
    x ∈ r.store.live.map (·.id) ↔ x ∈ o.pending.map (·.id) := by
  simp only [List.mem_map, mem_live]
  constructor
  · rintro ⟨q, ⟨k, hk⟩, rfl⟩; exact ⟨q, (h.E1 k q hk).1, rfl⟩
  · rintro ⟨q, hq, rfl⟩; exact ⟨q, ⟨q.key, h.P q hq⟩, rfl⟩

/-- **one step**: the replayer, fed with the TI records the online step wrote, issues the same calls and stays in step -/
theorem step_sim (me : Int) (o : OState) (r : RState) (c : Call) (h : Inv o r) (hw : wfStep me o c) :
    ∃ i' r', replayRun me r (onlineStep me o c).2.1 = some (i', r') ∧ sameL (onlineStep me o c).1 i' ∧
      Inv (onlineStep me o c).2.2 r' := by
  cases c with
  | blocking a =>
    simp only [wfStep] at hw
    exact ⟨[.call a], r, replayRun_single me r a false _ _ (replayStep_blocking me r a false hw), sameL_refl _, h⟩
  | isend p t s ty =>
    simp only [wfStep] at hw
    refine ⟨[.start (.isend p t s ty) r.next], _, replayRun_single me r _ false _ _ rfl, ?_, inv_add h (me, p, t) hw.1 hw.2⟩
    simp only [onlineStep, h.next]; exact sameL_refl _
  | irecv p t s ty =>
    simp only [wfStep] at hw
    refine ⟨[.start (.irecv p t s ty) r.next], _, replayRun_single me r _ false _ _ rfl, ?_, inv_add h (p, me, t) hw.1 hw.2⟩
    simp only [onlineStep, h.next]; exact sameL_refl _
  | wait id =>
    simp only [onlineStep]
    cases hf : o.pending.find? (fun r => r.id == id) with
    | none => exact ⟨[], r, rfl, trivial, h⟩
    | some q =>
      have hq := find_mem _ _ _ hf
      have hl := lookup_pending h q hq
      have hne := store_nonempty h q hq
      refine ⟨[.wait q.id], ⟨r.next, r.store.erase1 q.key⟩, ?_, sameL_refl _, ?_⟩
      · apply replayRun_single
        simp only [replayStep, key_eta, hne, hl, Bool.false_eq_true, if_false]
      · have := inv_remove h q hq o.done (fun k hk => hk)
        rw [h.next] at this ⊢
        exact this
  | test id flag =>
    simp only [onlineStep]
    cases hf : o.pending.find? (fun r => r.id == id) with
    | none => exact ⟨[], r, rfl, trivial, h⟩
    | some q =>
      have hq := find_mem _ _ _ hf
      have hl := lookup_pending h q hq
      refine ⟨[.test q.id], ⟨r.next, r.store.erase1 q.key ++ [(q.key, if flag then none else some q)]⟩, ?_, sameL_refl _, ?_⟩
      · apply replayRun_single
        simp only [replayStep, key_eta, hl]
      · cases flag with
        | true =>
          simp only [if_true]
          exact inv_test_done h q hq
        | false =>
          simp only [Bool.false_eq_true, if_false]
          exact inv_test_readd h q hq
  | waitall ids =>
    simp only [wfStep] at hw
    simp only [onlineStep]
    have hall : o.pending.filter (fun r => ids.contains r.id) = o.pending := by
      apply List.filter_eq_self.mpr
      intro q hq; simpa using hw q hq
    have hnone : o.pending.filter (fun r => !ids.contains r.id) = [] := by
      apply List.filter_eq_nil_iff.mpr
      intro q hq; simpa using hw q hq
    rw [hall, hnone]
    cases hs : r.store with
    | nil =>
      have hp : o.pending = [] := by
        cases hp : o.pending with
        | nil => rfl
        | cons q t => have := h.P q (by rw [hp]; simp); rw [hs] at this; simp at this
      refine ⟨[], r, ?_, ?_, ?_⟩
      · apply replayRun_single; simp [replayStep, hs]
      · rw [hp]; trivial
      · refine ⟨h.next, by rw [hs]; simp, ?_, ?_, ?_, by simp⟩ <;> simp [hs]
    | cons e rest =>
      refine ⟨waitallIssue ((r.store.live).map (·.id)), ⟨r.next, []⟩, ?_, ?_, ?_⟩
      · apply replayRun_single; simp [replayStep, hs]
      · apply sameL_waitall
        intro x; exact (live_ids h x).symm
      · refine ⟨h.next, by simp, ?_, ?_, ?_, by simp⟩ <;> simp

theorem replayRun_append (me : Int) : ∀ (t1 t2 : List (Action × Bool)) (r : RState) (i1 : List Issue) (r1 : RState),
    replayRun me r t1 = some (i1, r1) →
      replayRun me r (t1 ++ t2) = (replayRun me r1 t2).map (fun x => (i1 ++ x.1, x.2)) := by
  intro t1
  induction t1 with
  | nil =>
    intro t2 r i1 r1 h
    simp only [replayRun, Option.some.injEq, Prod.mk.injEq] at h
    obtain ⟨rfl, rfl⟩ := h
    simp only [List.nil_append]
    cases replayRun me r t2 <;> simp
  | cons x rest ih =>
    intro t2 r i1 r1 h
    obtain ⟨a, f⟩ := x
    simp only [replayRun, List.cons_append] at h ⊢
    cases hs : replayStep me r a f with
    | none => simp [hs] at h
    | some p =>
      obtain ⟨i, st'⟩ := p
      simp only [hs] at h ⊢
      cases hr : replayRun me st' rest with
      | none => simp [hr] at h
      | some p2 =>
        obtain ⟨is, st''⟩ := p2
        simp only [hr, Option.some.injEq, Prod.mk.injEq] at h
        obtain ⟨rfl, rfl⟩ := h
        rw [ih t2 st' is st'' hr]
        cases replayRun me st'' t2 <;> simp [List.append_assoc]

/-- **whole runs** (engine layer): replaying the records an online rank wrote issues the same calls -/
theorem run_sim (me : Int) : ∀ (prog : List Call) (o : OState) (r : RState), Inv o r → WfProg me o prog →
    ∃ i' r', replayRun me r (onlineRun me o prog).2 = some (i', r') ∧ sameL (onlineRun me o prog).1 i' := by
  intro prog
  induction prog with
  | nil => intro o r _ _; exact ⟨[], r, rfl, trivial⟩
  | cons c rest ih =>
    intro o r h hw
    simp only [WfProg] at hw
    obtain ⟨i1, r1, e1, s1, inv1⟩ := step_sim me o r c h hw.1
    obtain ⟨i2, r2, e2, s2⟩ := ih _ r1 inv1 hw.2
    refine ⟨i1 ++ i2, r2, ?_, ?_⟩
    · simp only [onlineRun]
      rw [replayRun_append me _ _ r i1 r1 e1, e2]; rfl
    · simp only [onlineRun]
      exact sameL_append _ _ _ _ s1 s2

end SgVerif.C37
