import SgVerif.C37.Model
/-
C37 — the timing side, small model: which calls reach the simulation (`Request::send/isend/recv/irecv/sendrecv/wait/
test/waitall`, `colls::*`) with which timing-relevant arguments (call kind, peer / root, sizes, datatypes, which request)
 * online: the PMPI bindings of src/smpi/bindings/smpi_pmpi_{request,coll}.cpp on one rank (`onlineStep`), together with
   the TI record they write;
 * replay: the `*Action::kernel` functions of src/smpi/internals/smpi_replay.cpp (`replayStep`) with the per-actor
   `RequestStorage` (requests keyed by (sender, receiver, tag), FIFO per key; `pop`, `add`, `addNullRequest`,
   `get_requests`, `clear`).
The simulated cost of a call is a function of these arguments and of the state of the simulation, which is the same in
both runs as long as the same calls were issued before: "same issues ⇒ same dates" is the induction the property rests on;
the model proves the "same issues" part.  Core only.
-/
namespace SgVerif.C37

/-- key of the replay `RequestStorage`: (sender, receiver, tag), world ranks -/
abbrev Key := Int × Int × Int

/-- a non-blocking request of this rank: `id` = its creation index on the rank (k-th MPI_Isend / MPI_Irecv) -/
structure Req where
  id : Nat
  key : Key
  deriving DecidableEq, Repr

/-- what reaches the simulation -/
inductive Issue where
  /-- blocking point-to-point, Sendrecv, collective, Scan: kind + peer / root + sizes + datatypes = the fields of `a` -/
  | call (a : Action)
  /-- MPI_Isend / MPI_Irecv creating request `id` -/
  | start (a : Action) (id : Nat)
  | wait (id : Nat)
  | test (id : Nat)
  /-- Request::waitall on this set of requests (a waitall of no active request costs nothing and is not listed) -/
  | waitall (ids : List Nat)
  deriving DecidableEq, Repr

def waitallIssue (ids : List Nat) : List Issue := if ids.isEmpty then [] else [.waitall ids]

/-! ## replay side -/

/-- `RequestStorage`: entries in insertion order; `none` = a stored MPI_REQUEST_NULL (`addNullRequest`).
    The C++ map of per-key lists pops the oldest entry of a key = the first entry with that key here. -/
abbrev Store := List (Key × Option Req)

def Store.lookup : Store → Key → Option (Option Req)
  | [], _ => none
  | (k', r) :: rest, k => if k' = k then some r else Store.lookup rest k

/-- `pop`: remove the oldest entry of the key -/
def Store.erase1 : Store → Key → Store
  | [], _ => []
  | (k', r) :: rest, k => if k' = k then rest else (k', r) :: Store.erase1 rest k

/-- `get_requests`: the non-null requests -/
def Store.live (s : Store) : List Req := s.filterMap (·.2)

structure RState where
  next : Nat
  store : Store
  deriving Repr

/-- one replayed action on rank `me`; `flag` = outcome of `Request::test` when the action is a test.
    `none` = the replayer aborts (`xbt_assert(req_storage.size(), "action wait not preceded by any irecv or isend")`). -/
def replayStep (me : Int) (st : RState) (a : Action) (flag : Bool) : Option (List Issue × RState) :=
  match a with
  | .init | .finalize => some ([], st)
  | .isend p t _ _ =>                                  -- Request::isend(nullptr, size, datatype1, partner, tag, WORLD); add
    some ([.start a st.next], ⟨st.next + 1, st.store ++ [((me, p, t), some ⟨st.next, (me, p, t)⟩)]⟩)
  | .irecv p t _ _ =>
    some ([.start a st.next], ⟨st.next + 1, st.store ++ [((p, me, t), some ⟨st.next, (p, me, t)⟩)]⟩)
  | .wait s d t =>                                     -- WaitAction::kernel
    if st.store.isEmpty then none else
    match st.store.lookup (s, d, t) with
    | some (some r) => some ([.wait r.id], ⟨st.next, st.store.erase1 (s, d, t)⟩)
    | some none => some ([], ⟨st.next, st.store.erase1 (s, d, t)⟩)        -- "might have been caught by an MPI_test"
    | none => some ([], st)
  | .test s d t =>                                     -- TestAction::kernel
    match st.store.lookup (s, d, t) with
    | some (some r) =>
      some ([.test r.id], ⟨st.next, st.store.erase1 (s, d, t) ++ [((s, d, t), if flag then none else some r)]⟩)
    | some none => some ([], ⟨st.next, st.store.erase1 (s, d, t)⟩)        -- "ignore the extra calls"
    | none => some ([], st)
  | .waitall _ =>                                      -- WaitAllAction::kernel: everything in the storage; the count is not used
    if st.store.isEmpty then some ([], st)
    else some (waitallIssue (st.store.live.map (·.id)), ⟨st.next, []⟩)
  | _ => some ([.call a], st)                          -- Send/Recv/SendRecv/Barrier/Bcast/…/Scan kernels: one call, args = fields

def replayRun (me : Int) : RState → List (Action × Bool) → Option (List Issue × RState)
  | st, [] => some ([], st)
  | st, (a, f) :: rest =>
    match replayStep me st a f with
    | none => none
    | some (i, st') =>
      match replayRun me st' rest with
      | none => none
      | some (is, st'') => some (i ++ is, st'')

/-! ## online side (one rank of the application) -/

inductive Call where
  /-- MPI_Send / Recv / Sendrecv / Barrier / Bcast / … / Scan / Exscan: traced as the TI record `a` -/
  | blocking (a : Action)
  | isend (p t s : Int) (ty : Nat)
  | irecv (p t s : Int) (ty : Nat)
  /-- MPI_Wait on the handle of request `id` -/
  | wait (id : Nat)
  /-- MPI_Test on the handle of request `id`, with the outcome that was observed -/
  | test (id : Nat) (flag : Bool)
  /-- MPI_Waitall on the handles of these requests -/
  | waitall (ids : List Nat)
  deriving Repr

/-- `pending` = the active requests (handles that are not MPI_REQUEST_NULL), `done` (ghost) = keys of the requests completed
    by an MPI_Test since the last MPI_Waitall -/
structure OState where
  next : Nat
  pending : List Req
  done : List Key
  deriving Repr

def Action.isBlocking : Action → Bool
  | .init | .finalize | .isend .. | .irecv .. | .wait .. | .test .. | .waitall .. => false
  | _ => true

/-- issues, TI records written (with the outcome of a test), next state.  A wait / test on an inactive handle is neither
    traced (PMPI_Wait / PMPI_Test return before TRACE_smpi_comm_in) nor costs anything. -/
def onlineStep (me : Int) (st : OState) : Call → List Issue × List (Action × Bool) × OState
  | .blocking a => ([.call a], [(a, false)], st)
  | .isend p t s ty =>
    ([.start (.isend p t s ty) st.next], [(.isend p t s ty, false)],
      ⟨st.next + 1, st.pending ++ [⟨st.next, (me, p, t)⟩], st.done⟩)
  | .irecv p t s ty =>
    ([.start (.irecv p t s ty) st.next], [(.irecv p t s ty, false)],
      ⟨st.next + 1, st.pending ++ [⟨st.next, (p, me, t)⟩], st.done⟩)
  | .wait id =>
    match st.pending.find? (fun r => r.id == id) with
    | some r => ([.wait r.id], [(.wait r.key.1 r.key.2.1 r.key.2.2, false)], ⟨st.next, st.pending.filter (· != r), st.done⟩)
    | none => ([], [], st)
  | .test id flag =>
    match st.pending.find? (fun r => r.id == id) with
    | some r =>
      ([.test r.id], [(.test r.key.1 r.key.2.1 r.key.2.2, flag)],
        if flag then ⟨st.next, st.pending.filter (· != r), r.key :: st.done⟩ else st)
    | none => ([], [], st)
  | .waitall ids =>
    (waitallIssue ((st.pending.filter (fun r => ids.contains r.id)).map (·.id)), [(.waitall ids.length, false)],
      ⟨st.next, st.pending.filter (fun r => !ids.contains r.id), []⟩)

def onlineRun (me : Int) : OState → List Call → List Issue × List (Action × Bool)
  | _, [] => ([], [])
  | st, c :: rest =>
    let s := onlineStep me st c
    let r := onlineRun me s.2.2 rest
    (s.1 ++ r.1, s.2.1 ++ r.2)

/-- programs the TI format can represent: a new request does not reuse the (sender, receiver, tag) of a request that is
    still active, nor of one that an MPI_Test completed since the last MPI_Waitall (the replay storage still holds a null
    entry for it); MPI_Waitall names every active request (the replayer waits for everything it stores) -/
def wfStep (me : Int) (st : OState) : Call → Prop
  | .blocking a => a.isBlocking = true
  | .isend p t _ _ => (me, p, t) ∉ st.pending.map (·.key) ∧ (me, p, t) ∉ st.done
  | .irecv p t _ _ => (p, me, t) ∉ st.pending.map (·.key) ∧ (p, me, t) ∉ st.done
  | .wait _ => True
  | .test _ _ => True
  | .waitall ids => ∀ r ∈ st.pending, r.id ∈ ids

def WfProg (me : Int) : OState → List Call → Prop
  | _, [] => True
  | st, c :: rest => wfStep me st c ∧ WfProg me (onlineStep me st c).2.2 rest

/-- two issues are the same call: equal, or waitall on the same set of requests -/
def Issue.same : Issue → Issue → Prop
  | .waitall l1, .waitall l2 => ∀ x, x ∈ l1 ↔ x ∈ l2
  | a, b => a = b

def sameL : List Issue → List Issue → Prop
  | [], [] => True
  | a :: as, b :: bs => a.same b ∧ sameL as bs
  | _, _ => False

/-- the text layer: the replayer reads the lines `<name> <tokens>` the writer printed (`none` = a line is rejected) -/
def parseLines (n dflt : Nat) : List ((String × List Int) × Bool) → Option (List (Action × Bool))
  | [] => some []
  | l :: rest =>
    match parse n dflt l.1.1 l.1.2, parseLines n dflt rest with
    | some a, some r => some ((a, l.2) :: r)
    | _, _ => none

def replayRunText (me : Int) (n dflt : Nat) (st : RState) (lines : List ((String × List Int) × Bool)) :
    Option (List Issue × RState) :=
  match parseLines n dflt lines with
  | none => none
  | some acts => replayRun me st acts

def printLine (x : Action × Bool) : (String × List Int) × Bool := ((x.1.name, x.1.print true), x.2)

end SgVerif.C37
