import SgVerif.C37.EngineLemmas2
import SgVerif.C37.Fifo
/-
C37 — Trace replay reproduces the online simulated time.  Property theorems (thin model: the TI trace grammar).

`ti_print_parse_roundtrip` (full statement): for every action record `a` the writer can produce on a communicator of
`n ≥ 2` ranks,   parse n dflt a.name (a.print) = some a   — the replayer re-issues the same call with the same
sizes, roots and datatype ids.  It is FALSE for the writer as it is: `CollTIData::print` omits `recv_size_` when it is
0, and MPI_Gather / MPI_Scatter / MPI_Allgather / MPI_Alltoall are traced with the caller's recvcount, which is
legitimately 0 on the ranks where MPI ignores it (`ti_gather_recv0_counterexample`, replayed on the library: the
replay aborts).  Proved: `ti_print_parse_roundtrip_partial` (excluding hypothesis: recvcount > 0 for those four
calls) and `ti_print_parse_roundtrip_fixed` (writer of proposed_fix.diff, no excluding hypothesis).

What the theorems do NOT say: that equal call sequences give equal simulated dates.  "Same sequence of communication
calls with the same sizes ⇒ same dates" is validated by the correspondence only (online run vs replay, per-rank
completion dates within 1e-9 relative).
-/
namespace SgVerif.C37

/-- fields whose printing is conditional must be in the range where the writer prints them -/
def Action.printable : Action → Prop
  | .bcast _ root _ => 0 ≤ root
  | .reduce _ comp root _ => 0 ≤ root ∧ 0 ≤ comp
  | .allreduce _ comp _ => 0 ≤ comp
  | .gather _ _ root _ _ | .scatter _ _ root _ _ => 0 ≤ root
  | .gatherv s _ root _ _ => 0 ≤ root ∧ 0 ≤ s
  | .allgatherv s _ _ _ => 0 ≤ s
  | .scatterv _ r root _ _ => 0 ≤ root ∧ 0 ≤ r
  | .alltoallv ssz _ rsz _ _ _ => 0 ≤ ssz ∧ 0 ≤ rsz
  | .reducescatter _ comp _ => 0 ≤ comp
  | .sendrecv sc _ rc _ _ _ => 0 ≤ sc ∧ 0 ≤ rc
  | .scan _ comp _ | .exscan _ comp _ => 0 ≤ comp
  | _ => True

/-- the excluding hypothesis of the partial theorem -/
def Action.recvPositive : Action → Prop
  | .alltoall _ r _ _ | .gather _ r _ _ _ | .allgather _ r _ _ | .scatter _ r _ _ _ => 0 < r
  | _ => True

def Action.isVec : Action → Bool
  | .gatherv .. | .allgatherv .. | .scatterv .. | .alltoallv .. | .reducescatter .. => true
  | _ => false

theorem take_cons_append {α : Type} (x : α) (l t : List α) (n : Nat) (h : l.length = n) :
    (l ++ t).take n = l := by
  subst h; simp

theorem getElem?_cons_append {α : Type} (x : α) (l t : List α) (n k : Nat) (h : l.length = n) :
    (x :: (l ++ t))[1 + n + k]? = t[k]? := by
  subst h
  rw [show 1 + l.length + k = (l.length + k) + 1 by omega, List.getElem?_cons_succ,
    List.getElem?_append_right (by omega)]
  congr 1; omega

theorem getElem?_append_at {α : Type} (l t : List α) (n k : Nat) (h : l.length = n) :
    (l ++ t)[n + k]? = t[k]? := by
  subst h
  rw [List.getElem?_append_right (by omega)]
  congr 1; omega

/-- MPI_Sendrecv ("sendRecv"): the two partners travel in the one-element count vectors of VarCollTIData -/
theorem roundtrip_sendrecv (fixed : Bool) (n dflt : Nat) (sc dst rc src : Int) (st rt : Nat) (h1 : 0 ≤ sc) (h2 : 0 ≤ rc) :
    parse n dflt (Action.sendrecv sc dst rc src st rt).name ((Action.sendrecv sc dst rc src st rt).print fixed) =
      some (Action.sendrecv sc dst rc src st rt) := by
  have a1 : sc > -1 := by omega
  have a2 : rc > -1 := by omega
  simp [Action.name, Action.print, printVar, parse, parseTy, a1, a2]

/-- round trip for the calls without count vectors, writer as it is -/
theorem roundtrip_scalar (fixed : Bool) (n dflt : Nat) (a : Action) (hp : a.printable)
    (hr : fixed = true ∨ a.recvPositive)
    (hs : a.isVec = false) :
    parse n dflt a.name (a.print fixed) = some a := by
  have hq : ∀ r : Int, 0 ≤ r → ((0 < r ∨ r = 0) ↔ True) := fun r h => by simp; omega
  cases a <;> simp [Action.isVec] at hs
  case sendrecv sc dst rc src st rt =>
    simp only [Action.printable] at hp
    exact roundtrip_sendrecv fixed n dflt sc dst rc src st rt hp.1 hp.2
  all_goals simp only [Action.printable, Action.recvPositive] at hp hr
  all_goals
    rcases hr with hr | hr <;>
    simp_all [Action.name, Action.print, parse, printColl, printVar, parseRoot, parseTy] <;> omega

/-- **Round trip, writer as it is** (`fixed = false`), every supported call, every argument value, every
communicator size ≥ 2 — under the excluding hypothesis `recvPositive`. -/
theorem ti_print_parse_roundtrip_partial (n dflt : Nat) (hn : 2 ≤ n) (a : Action) (hwf : a.wf n)
    (hp : a.printable) (hr : a.recvPositive) :
    parse n dflt a.name (a.print false) = some a := by
  cases a with
  | gatherv s rcs root st rt =>
    simp only [Action.wf] at hwf
    simp only [Action.printable] at hp
    have e1 : (s :: (rcs ++ [root, (st : Int), (rt : Int)])).length = n + 4 := by simp [hwf]
    have g0 := getElem?_cons_append s rcs [root, (st : Int), (rt : Int)] n 0 hwf
    have g1 := getElem?_cons_append s rcs [root, (st : Int), (rt : Int)] n 1 hwf
    have g2 := getElem?_cons_append s rcs [root, (st : Int), (rt : Int)] n 2 hwf
    have hroot : (root > 0 ∨ root = 0) := by omega
    have hs : s > -1 := by omega
    simp only [Action.name, Action.print, printVar, parse, hs, hroot, if_true, Option.getD, List.nil_append,
      List.append_nil, List.singleton_append, List.cons_append, List.append_assoc, (by decide : ¬ ((-1 : Int) > -1)),
      if_false]
    have e2 : ¬ ((s :: (rcs ++ root :: (st : Int) :: [(rt : Int)])).length < n + 1) := by simp [hwf]
    simp only [e2, if_false, parseRoot, parseTy]
    rw [show 2 + n = 1 + n + 1 by omega, show 3 + n = 1 + n + 2 by omega]
    have g0' : (s :: (rcs ++ root :: (st : Int) :: [(rt : Int)]))[1 + n]? = some root := by
      have := g0; simpa using this
    have g1' : (s :: (rcs ++ root :: (st : Int) :: [(rt : Int)]))[1 + n + 1]? = some (st : Int) := by
      have := g1; simpa using this
    have g2' : (s :: (rcs ++ root :: (st : Int) :: [(rt : Int)]))[1 + n + 2]? = some (rt : Int) := by
      have := g2; simpa using this
    simp only [g0', g1', g2', take_cons_append s rcs _ n hwf, Int.toNat_natCast]
  | allgatherv s rcs st rt =>
    simp only [Action.wf] at hwf
    simp only [Action.printable] at hp
    have g0 := getElem?_cons_append s rcs [(st : Int), (rt : Int)] n 0 hwf
    have g1 := getElem?_cons_append s rcs [(st : Int), (rt : Int)] n 1 hwf
    have hs : s > -1 := by omega
    simp only [Action.name, Action.print, printVar, parse, hs, if_true, Option.getD, List.nil_append,
      List.append_nil, List.singleton_append, List.cons_append, List.append_assoc, (by decide : ¬ ((-1 : Int) > -1)),
      (by decide : ¬ ((-1 : Int) > 0 ∨ (-1 : Int) = 0)), if_false]
    have e2 : ¬ ((s :: (rcs ++ (st : Int) :: [(rt : Int)])).length < n + 1) := by simp [hwf]
    have e3 : ¬ ((s :: (rcs ++ (st : Int) :: [(rt : Int)])).length + 2 > 3 + n + n) := by simp [hwf]; omega
    have e4 : ¬ ((s :: (rcs ++ (st : Int) :: [(rt : Int)])).length + 2 > 3 + n + 2) := by simp [hwf]; omega
    simp only [e2, e3, e4, if_false, parseTy]
    rw [show 2 + n = 1 + n + 1 by omega]
    have g0' : (s :: (rcs ++ (st : Int) :: [(rt : Int)]))[1 + n]? = some (st : Int) := by
      have := g0; simpa using this
    have g1' : (s :: (rcs ++ (st : Int) :: [(rt : Int)]))[1 + n + 1]? = some (rt : Int) := by
      have := g1; simpa using this
    simp only [g0', g1', take_cons_append s rcs _ n hwf, Int.toNat_natCast]
  | scatterv scs r root st rt =>
    simp only [Action.wf] at hwf
    simp only [Action.printable] at hp
    have g0 := getElem?_append_at scs [r, root, (st : Int), (rt : Int)] n 0 hwf
    have g1 := getElem?_append_at scs [r, root, (st : Int), (rt : Int)] n 1 hwf
    have g2 := getElem?_append_at scs [r, root, (st : Int), (rt : Int)] n 2 hwf
    have g3 := getElem?_append_at scs [r, root, (st : Int), (rt : Int)] n 3 hwf
    have hroot : (root > 0 ∨ root = 0) := by omega
    have hr' : r > -1 := by omega
    simp only [Action.name, Action.print, printVar, parse, hr', hroot, if_true, Option.getD, List.nil_append,
      List.append_nil, List.singleton_append, List.cons_append, List.append_assoc, (by decide : ¬ ((-1 : Int) > -1)),
      if_false]
    have e2 : ¬ ((scs ++ r :: root :: (st : Int) :: [(rt : Int)]).length < n + 1) := by simp [hwf]
    simp only [e2, if_false, parseRoot, parseTy]
    have g0' : (scs ++ r :: root :: (st : Int) :: [(rt : Int)])[n]? = some r := by simpa using g0
    have g1' : (scs ++ r :: root :: (st : Int) :: [(rt : Int)])[1 + n]? = some root := by
      rw [show 1 + n = n + 1 by omega]; simpa using g1
    have g2' : (scs ++ r :: root :: (st : Int) :: [(rt : Int)])[2 + n]? = some (st : Int) := by
      rw [show 2 + n = n + 2 by omega]; simpa using g2
    have g3' : (scs ++ r :: root :: (st : Int) :: [(rt : Int)])[3 + n]? = some (rt : Int) := by
      rw [show 3 + n = n + 3 by omega]; simpa using g3
    have ht : (scs ++ r :: root :: (st : Int) :: [(rt : Int)]).take n = scs := by subst hwf; simp
    simp only [g0', g1', g2', g3', ht, Int.toNat_natCast]
  | alltoallv ssz scs rsz rcs st rt =>
    simp only [Action.wf] at hwf
    simp only [Action.printable] at hp
    obtain ⟨h1, h2⟩ := hwf
    have hs : ssz > -1 := by omega
    have hr' : rsz > -1 := by omega
    simp only [Action.name, Action.print, printVar, parse, hs, hr', if_true, Option.getD, List.nil_append,
      List.append_nil, List.singleton_append, List.cons_append, List.append_assoc,
      (by decide : ¬ ((-1 : Int) > 0 ∨ (-1 : Int) = 0)), if_false]
    have e2 : ¬ ((ssz :: (scs ++ rsz :: (rcs ++ (st : Int) :: [(rt : Int)]))).length < 2 * n + 2) := by
      simp [h1, h2]; omega
    simp only [e2, if_false, parseTy]
    have a0 : (ssz :: (scs ++ rsz :: (rcs ++ (st : Int) :: [(rt : Int)])))[0]? = some ssz := rfl
    have a1 : (ssz :: (scs ++ rsz :: (rcs ++ (st : Int) :: [(rt : Int)])))[1 + n]? = some rsz := by
      have := getElem?_cons_append ssz scs (rsz :: (rcs ++ (st : Int) :: [(rt : Int)])) n 0 h1
      simpa using this
    have d1 : ((ssz :: (scs ++ rsz :: (rcs ++ (st : Int) :: [(rt : Int)]))).drop 1).take n = scs := by
      subst h1; simp
    have d2 : ((ssz :: (scs ++ rsz :: (rcs ++ (st : Int) :: [(rt : Int)]))).drop (2 + n)) =
        rcs ++ (st : Int) :: [(rt : Int)] := by
      subst h1
      rw [show 2 + scs.length = (scs.length + 1) + 1 by omega, List.drop_succ_cons, List.drop_append]
      simp
    have d3 : (rcs ++ (st : Int) :: [(rt : Int)]).take n = rcs := by subst h2; simp
    have a2 : (ssz :: (scs ++ rsz :: (rcs ++ (st : Int) :: [(rt : Int)])))[2 + 2 * n]? = some (st : Int) := by
      have := getElem?_cons_append ssz scs (rsz :: (rcs ++ (st : Int) :: [(rt : Int)])) n (1 + n) h1
      rw [show 2 + 2 * n = 1 + n + (1 + n) by omega, this, show 1 + n = n + 1 by omega, List.getElem?_cons_succ]
      have := getElem?_append_at rcs [(st : Int), (rt : Int)] n 0 h2
      simpa using this
    have a3 : (ssz :: (scs ++ rsz :: (rcs ++ (st : Int) :: [(rt : Int)])))[3 + 2 * n]? = some (rt : Int) := by
      have := getElem?_cons_append ssz scs (rsz :: (rcs ++ (st : Int) :: [(rt : Int)])) n (2 + n) h1
      rw [show 3 + 2 * n = 1 + n + (2 + n) by omega, this, show 2 + n = (n + 1) + 1 by omega, List.getElem?_cons_succ]
      have := getElem?_append_at rcs [(st : Int), (rt : Int)] n 1 h2
      simpa using this
    simp only [a0, a1, a2, a3, d1, d2, d3, Int.toNat_natCast]
  | reducescatter rcs comp ty =>
    simp only [Action.wf] at hwf
    simp only [Action.printable] at hp
    have hc : (comp.toNat : Int) = comp := Int.toNat_of_nonneg hp
    simp only [Action.name, Action.print, printVar, parse, if_true, Option.getD, List.nil_append,
      List.append_nil, List.singleton_append, List.cons_append, List.append_assoc, (by decide : ¬ ((-1 : Int) > -1)),
      (by decide : ¬ ((-1 : Int) > 0 ∨ (-1 : Int) = 0)), if_false, hc]
    have e2 : ¬ ((rcs ++ comp :: [(ty : Int)]).length < n + 1) := by simp [hwf]
    simp only [e2, if_false, parseTy]
    have g0 : (rcs ++ comp :: [(ty : Int)])[n]? = some comp := by
      simpa using getElem?_append_at rcs [comp, (ty : Int)] n 0 hwf
    have g1 : (rcs ++ comp :: [(ty : Int)])[1 + n]? = some (ty : Int) := by
      rw [show 1 + n = n + 1 by omega]
      simpa using getElem?_append_at rcs [comp, (ty : Int)] n 1 hwf
    have ht : (rcs ++ comp :: [(ty : Int)]).take n = rcs := by subst hwf; simp
    simp only [g0, g1, ht, Int.toNat_natCast]
  | _ => exact roundtrip_scalar false n dflt _ hp (Or.inr hr) rfl

/-- **Round trip with the repaired writer**: no excluding hypothesis on receive counts. -/
theorem ti_print_parse_roundtrip_fixed_scalar (n dflt : Nat) (a : Action) (hp : a.printable)
    (hs : a.isVec = false) :
    parse n dflt a.name (a.print true) = some a :=
  roundtrip_scalar true n dflt a hp (Or.inl rfl) hs

/-- **Round trip with the repaired writer, every supported call.** -/
theorem ti_print_parse_roundtrip_fixed (n dflt : Nat) (hn : 2 ≤ n) (a : Action) (hwf : a.wf n) (hp : a.printable) :
    parse n dflt a.name (a.print true) = some a := by
  by_cases hv : a.isVec = true
  · have e : a.print true = a.print false := by cases a <;> simp [Action.isVec] at hv <;> rfl
    have hr : a.recvPositive := by cases a <;> simp [Action.isVec] at hv <;> trivial
    rw [e]; exact ti_print_parse_roundtrip_partial n dflt hn a hwf hp hr
  · exact roundtrip_scalar true n dflt a hp (Or.inl rfl) (by simpa using hv)

/-- the writer as it is loses the root of an MPI_Gather traced on a rank that passes recvcount 0:
`1 gather 5 0 1 1` is read back as send 5, recv 0, **root 1**, send type 1, default recv type. -/
theorem ti_gather_recv0_counterexample :
    (Action.gather 5 0 0 1 1).print false = [5, 0, 1, 1] ∧
    parse 3 6 "gather" ((Action.gather 5 0 0 1 1).print false) = some (Action.gather 5 0 1 1 6) ∧
    parse 3 6 "gather" ((Action.gather 5 0 0 1 1).print false) ≠ some (Action.gather 5 0 0 1 1) := by
  decide

/-! ### the timing side: online run and replay issue the same calls -/

/-- every TI record an online rank writes can be printed and is well formed -/
theorem trace_ok (me : Int) (n : Nat) : ∀ (prog : List Call) (o : OState),
    (∀ a, Call.blocking a ∈ prog → a.wf n ∧ a.printable) → ∀ x ∈ (onlineRun me o prog).2, x.1.wf n ∧ x.1.printable := by
  intro prog
  induction prog with
  | nil => intro o _ x hx; simp [onlineRun] at hx
  | cons c rest ih =>
    intro o hp x hx
    simp only [onlineRun, List.mem_append] at hx
    rcases hx with hx | hx
    · cases c with
      | blocking a =>
        simp only [onlineStep, List.mem_singleton] at hx; subst hx
        exact hp a (by simp)
      | isend p t s ty =>
        simp only [onlineStep, List.mem_singleton] at hx; subst hx; simp [Action.wf, Action.printable]
      | irecv p t s ty =>
        simp only [onlineStep, List.mem_singleton] at hx; subst hx; simp [Action.wf, Action.printable]
      | wait id =>
        simp only [onlineStep] at hx
        split at hx
        · simp only [List.mem_singleton] at hx; subst hx; simp [Action.wf, Action.printable]
        · simp at hx
      | test id flag =>
        simp only [onlineStep] at hx
        split at hx
        · simp only [List.mem_singleton] at hx; subst hx; simp [Action.wf, Action.printable]
        · simp at hx
      | waitall ids =>
        simp only [onlineStep, List.mem_singleton] at hx; subst hx; simp [Action.wf, Action.printable]
    · exact ih _ (fun a ha => hp a (List.mem_cons_of_mem _ ha)) x hx

/-- the replay parser reads every printed record back (the proved writer / parser round trip, line by line) -/
theorem parseLines_print (n dflt : Nat) (hn : 2 ≤ n) : ∀ (tr : List (Action × Bool)),
    (∀ x ∈ tr, x.1.wf n ∧ x.1.printable) → parseLines n dflt (tr.map printLine) = some tr := by
  intro tr
  induction tr with
  | nil => intro _; rfl
  | cons x rest ih =>
    intro h
    obtain ⟨h1, h2⟩ := h x (by simp)
    have e1 := ti_print_parse_roundtrip_fixed n dflt hn x.1 h1 h2
    have e2 := ih (fun y hy => h y (List.mem_cons_of_mem _ hy))
    simp only [List.map_cons, parseLines, printLine] at e2 ⊢
    rw [e1, e2]

/-- **replay_issues_same_calls**: for every program of one rank (any length; blocking point-to-point, Sendrecv,
    collectives, Scan, Isend / Irecv, Wait, Test with any outcomes, Waitall) that the TI format can represent (`WfProg`:
    no two simultaneously stored requests with the same (sender, receiver, tag), Waitall names every active request),
    the replayer — reading the lines the online run printed — does not abort and issues the same sequence of calls to the
    simulation: same kind, same peer / root, same sizes, same datatypes, same requests waited / tested (a waitall: the
    same set of requests).  ∀ rank, ∀ communicator size ≥ 2, ∀ default datatype. -/
theorem replay_issues_same_calls (me : Int) (n dflt : Nat) (hn : 2 ≤ n) (prog : List Call)
    (hwf : WfProg me ⟨0, [], []⟩ prog) (hp : ∀ a, Call.blocking a ∈ prog → a.wf n ∧ a.printable) :
    ∃ iss r', replayRunText me n dflt ⟨0, []⟩ ((onlineRun me ⟨0, [], []⟩ prog).2.map printLine) = some (iss, r') ∧
      sameL (onlineRun me ⟨0, [], []⟩ prog).1 iss := by
  obtain ⟨iss, r', e, s⟩ := run_sim me prog ⟨0, [], []⟩ ⟨0, []⟩ inv_init hwf
  refine ⟨iss, r', ?_, s⟩
  simp only [replayRunText, parseLines_print n dflt hn _ (trace_ok me n prog _ hp)]
  exact e

def issuesOf (x : Option (List Issue × RState)) : Option (List Issue) := x.map (·.1)

/-- **replay_issues_same_calls_fifo**: the class `WfProg` excludes but the property contains — a rank may hold any number
    of requests with the SAME (sender, receiver, tag) at once (Isend / Irecv with repeating keys, any sizes); every
    MPI_Wait completes the oldest active request of its key (posting order per key; waits of different keys interleave
    freely), Waitall names every active request, blocking calls and collectives anywhere, no MPI_Test (`FifoProg`).
    For every such program, of any length, the replayer reading the printed lines does not abort and issues the same
    sequence of calls, each wait on the SAME request as online: `RequestStorage::pop` takes the oldest entry of the
    key.  (With `back()/pop_back()` instead, the two-request program below already issues the waits the other way round.)
    That posting order is necessary is `replay_same_key_counterexample`. -/
theorem replay_issues_same_calls_fifo (me : Int) (n dflt : Nat) (hn : 2 ≤ n) (prog : List Call)
    (hwf : FifoProg me ⟨0, [], []⟩ prog) (hp : ∀ a, Call.blocking a ∈ prog → a.wf n ∧ a.printable) :
    ∃ iss r', replayRunText me n dflt ⟨0, []⟩ ((onlineRun me ⟨0, [], []⟩ prog).2.map printLine) = some (iss, r') ∧
      sameL (onlineRun me ⟨0, [], []⟩ prog).1 iss := by
  obtain ⟨iss, r', e, s⟩ := run_sim_fifo me prog ⟨0, [], []⟩ ⟨0, []⟩ invF_init hwf
  refine ⟨iss, r', ?_, s⟩
  simp only [replayRunText, parseLines_print n dflt hn _ (trace_ok me n prog _ hp)]
  exact e

/-- non-vacuity: rank 1 of 3 — two Irecvs from rank 0 with one tag (2 MB, then 500 kB), Wait(first), a message to rank 2,
    Wait(second); then three Isends with one key interleaved with another key, waited for in posting order per key, and a
    Waitall.  Not `WfProg`. -/
def fifoDemo : List Call :=
  [.irecv 0 0 2000000 2, .irecv 0 0 500000 2, .wait 0, .blocking (.send 2 1 1 1), .wait 1,
   .isend 2 4 70000 1, .isend 0 4 10 1, .isend 2 4 1000 1, .isend 2 4 500000 1, .wait 2, .wait 3, .wait 4,
   .blocking (.barrier), .waitall [5]]
example : FifoProg 1 ⟨0, [], []⟩ fifoDemo := by
  simp [fifoDemo, FifoProg, fifoStep, onlineStep, oldestOfKey, Action.isBlocking]
example : ¬ WfProg 1 ⟨0, [], []⟩ fifoDemo := by
  simp [fifoDemo, WfProg, wfStep, onlineStep, Action.isBlocking]
example : (onlineRun 1 ⟨0, [], []⟩ fifoDemo).1 =
    [.start (.irecv 0 0 2000000 2) 0, .start (.irecv 0 0 500000 2) 1, .wait 0, .call (.send 2 1 1 1), .wait 1,
     .start (.isend 2 4 70000 1) 2, .start (.isend 0 4 10 1) 3, .start (.isend 2 4 1000 1) 4,
     .start (.isend 2 4 500000 1) 5, .wait 2, .wait 3, .wait 4, .call .barrier, .waitall [5]] ∧
    issuesOf (replayRunText 1 3 6 ⟨0, []⟩ ((onlineRun 1 ⟨0, [], []⟩ fifoDemo).2.map printLine)) =
      some (onlineRun 1 ⟨0, [], []⟩ fifoDemo).1 := by decide

/-- `WfProg` cannot drop "distinct keys": two Isends to the same peer with the same tag, waited in the other order —
    the replayer waits for the OTHER request (the TI record of a wait only carries (src, dst, tag)) -/
theorem replay_same_key_counterexample :
    (onlineRun 0 ⟨0, [], []⟩ [.isend 1 0 10 0, .isend 1 0 99999 0, .wait 1, .wait 0]).1 =
      [.start (.isend 1 0 10 0) 0, .start (.isend 1 0 99999 0) 1, .wait 1, .wait 0] ∧
    issuesOf (replayRun 0 ⟨0, []⟩ (onlineRun 0 ⟨0, [], []⟩ [.isend 1 0 10 0, .isend 1 0 99999 0, .wait 1, .wait 0]).2) =
      some [.start (.isend 1 0 10 0) 0, .start (.isend 1 0 99999 0) 1, .wait 0, .wait 1] := by decide

/-- `WfProg` cannot drop "no reuse of the key of a request completed by MPI_Test": the polling loop
    `Isend; Test…Test (succeeds); Isend (same peer, same tag); Test; Test` — the storage still holds the null entry of the
    first request, the first Test of the second request pops it and is dropped ("ignore the extra calls"): the replay
    issues one MPI_Test less than the application -/
theorem replay_stale_null_counterexample :
    (onlineRun 0 ⟨0, [], []⟩ [.isend 1 0 10 0, .test 0 false, .test 0 true, .isend 1 0 10 0, .test 1 false, .test 1 true]).1 =
      [.start (.isend 1 0 10 0) 0, .test 0, .test 0, .start (.isend 1 0 10 0) 1, .test 1, .test 1] ∧
    issuesOf (replayRun 0 ⟨0, []⟩
      (onlineRun 0 ⟨0, [], []⟩ [.isend 1 0 10 0, .test 0 false, .test 0 true, .isend 1 0 10 0, .test 1 false, .test 1 true]).2) =
      some [.start (.isend 1 0 10 0) 0, .test 0, .test 0, .start (.isend 1 0 10 0) 1, .test 1] := by decide

/-! non-vacuity -/
example : (Action.gatherv 3 [3, 3, 3] 1 1 1).wf 3 ∧ (Action.gatherv 3 [3, 3, 3] 1 1 1).printable ∧
    (Action.gatherv 3 [3, 3, 3] 1 1 1).recvPositive := by
  simp [Action.wf, Action.printable, Action.recvPositive]
example : parse 3 6 "alltoallv" ((Action.alltoallv 6 [2, 2, 2] 6 [2, 2, 2] 1 1).print false) =
    some (Action.alltoallv 6 [2, 2, 2] 6 [2, 2, 2] 1 1) := by decide
example : parse 3 6 "gather" ((Action.gather 5 0 0 1 1).print true) = some (Action.gather 5 0 0 1 1) := by decide
example : parse 3 6 "reduce" ((Action.reduce 12 0 2 0).print false) = some (Action.reduce 12 0 2 0) := by decide

/-- non-vacuity of `replay_issues_same_calls`: rank 1 of 3 — Irecv, Isend, a failed and a successful Test, Sendrecv, Wait,
    Bcast, Scan, a second round of requests with other tags, Waitall -/
def demoProg : List Call :=
  [.irecv 0 5 100 1, .isend 2 5 100 1, .test 0 false, .test 0 true, .blocking (.sendrecv 10 2 10 0 1 1), .wait 1,
   .blocking (.bcast 1000 0 0), .blocking (.scan 8 0 1), .irecv 0 6 7 0, .isend 2 6 7 0, .waitall [2, 3]]
example : WfProg 1 ⟨0, [], []⟩ demoProg := by
  simp [demoProg, WfProg, wfStep, onlineStep, Action.isBlocking]
example : ∀ a, Call.blocking a ∈ demoProg → a.wf 3 ∧ a.printable := by
  intro a h
  simp only [demoProg, List.mem_cons, Call.blocking.injEq, List.mem_nil_iff, or_false, reduceCtorEq, false_or] at h
  rcases h with rfl | rfl | rfl <;> simp [Action.wf, Action.printable]
example : (onlineRun 1 ⟨0, [], []⟩ demoProg).1 =
    [.start (.irecv 0 5 100 1) 0, .start (.isend 2 5 100 1) 1, .test 0, .test 0, .call (.sendrecv 10 2 10 0 1 1), .wait 1,
     .call (.bcast 1000 0 0), .call (.scan 8 0 1), .start (.irecv 0 6 7 0) 2, .start (.isend 2 6 7 0) 3, .waitall [2, 3]] ∧
    issuesOf (replayRunText 1 3 6 ⟨0, []⟩ ((onlineRun 1 ⟨0, [], []⟩ demoProg).2.map printLine)) =
      some (onlineRun 1 ⟨0, [], []⟩ demoProg).1 := by decide
example : parse 3 6 "sendRecv" ((Action.sendrecv 10 2 10 0 1 1).print true) = some (Action.sendrecv 10 2 10 0 1 1) := by decide
example : parse 3 6 "exscan" ((Action.exscan 8 0 1).print true) = some (Action.exscan 8 0 1) := by decide

end SgVerif.C37
