/-
C37 — Trace replay reproduces the online simulated time.  Thin model: the time-independent (TI) trace *grammar*.

Writer side: `StateEvent::print` (src/instr/instr_paje_events.cpp, `TraceFormat::Ti`) writes `<rank> ` followed by
`extra_->print()`, one of the `TIData` classes of src/instr/instr_private.hpp, constructed by the PMPI bindings
(src/smpi/bindings/smpi_pmpi_{coll,request}.cpp).  Reader side: `ReplayReader::get` trims the line and splits it on
blanks (token_compress_on), then the `*ArgParser::parse` functions of src/smpi/internals/smpi_replay.cpp read
`action[2..]` positionally, with `parse_root` / `parse_datatype` defaults for absent trailing fields.

Tokens after `<rank> <name>` are modelled as a `List Int` (numbers and datatype ids; an empty string such as the
`recv_type_ = ""` of bcast/reduce only produces a trailing blank, removed by the trim, so it is simply not emitted).
The conversion number ↔ decimal text (`operator<<`, `std::stoi`, `parse_integer`) and `Datatype::encode/decode` are
taken as inverse of each other (trusted; exercised by the correspondence).  Amounts (`double`) are printed with
`operator<<(double)`: only integer amounts below 10^6 print exactly; the bindings pass 0 or -1 for the supported
calls, and `compute` is modelled for such amounts only.
Core only.
-/
namespace SgVerif.C37

/-- the re-issued call, with exactly the fields the replay `*ArgParser` structures hold -/
inductive Action where
  | init | finalize | barrier
  | send (partner tag size : Int) (ty : Nat)
  | isend (partner tag size : Int) (ty : Nat)
  | recv (partner tag size : Int) (ty : Nat)
  | irecv (partner tag size : Int) (ty : Nat)
  | wait (src dst tag : Int)
  | test (src dst tag : Int)
  | waitall (count : Int)
  | compute (flops : Int)
  | bcast (size root : Int) (ty : Nat)
  | reduce (size comp root : Int) (ty : Nat)
  | allreduce (size comp : Int) (ty : Nat)
  | alltoall (s r : Int) (st rt : Nat)
  | gather (s r root : Int) (st rt : Nat)
  | allgather (s r : Int) (st rt : Nat)
  | scatter (s r root : Int) (st rt : Nat)
  | gatherv (s : Int) (rcs : List Int) (root : Int) (st rt : Nat)
  | allgatherv (s : Int) (rcs : List Int) (st rt : Nat)
  | scatterv (scs : List Int) (r root : Int) (st rt : Nat)
  | alltoallv (ssz : Int) (scs : List Int) (rsz : Int) (rcs : List Int) (st rt : Nat)
  | reducescatter (rcs : List Int) (comp : Int) (ty : Nat)
  | sendrecv (scount dst rcount src : Int) (st rt : Nat)     -- SendRecvParser ("sendRecv")
  | scan (size comp : Int) (ty : Nat)                        -- ScanArgParser ("scan")
  | exscan (size comp : Int) (ty : Nat)                      -- ScanArgParser ("exscan")
  deriving DecidableEq, Repr

def Action.name : Action → String
  | .init => "init" | .finalize => "finalize" | .barrier => "barrier"
  | .send .. => "send" | .isend .. => "isend" | .recv .. => "recv" | .irecv .. => "irecv"
  | .wait .. => "wait" | .test .. => "test" | .waitall .. => "waitall" | .compute .. => "compute"
  | .bcast .. => "bcast" | .reduce .. => "reduce" | .allreduce .. => "allreduce" | .alltoall .. => "alltoall"
  | .gather .. => "gather" | .allgather .. => "allgather" | .scatter .. => "scatter" | .gatherv .. => "gatherv"
  | .allgatherv .. => "allgatherv" | .scatterv .. => "scatterv" | .alltoallv .. => "alltoallv"
  | .reducescatter .. => "reducescatter"
  | .sendrecv .. => "sendRecv" | .scan .. => "scan" | .exscan .. => "exscan"

/-! ## writer -/

/-- `CollTIData::print` after the name.  `amount`: the `double amount_` (printed when `>= 0`); `st`/`rt`: `none` = "".
```
stream << send_size_ << " ";
if (recv_size_ > 0) stream << recv_size_ << " ";
if (get_amount() >= 0.0) stream << get_amount() << " ";
if (root_ > 0 || (root_ == 0 && not send_type_.empty())) stream << root_ << " ";
stream << send_type_ << " " << recv_type_;
```
`fixed = true` is the repaired writer of proposed_fix.diff: `if (recv_size_ > 0 || not recv_type_.empty())`. -/
def printColl (fixed : Bool) (root amount s r : Int) (st rt : Option Nat) : List Int :=
  [s] ++ (if r > 0 ∨ (fixed ∧ rt.isSome) then [r] else []) ++ (if amount ≥ 0 then [amount] else []) ++
  (if root > 0 ∨ (root = 0 ∧ st.isSome) then [root] else []) ++
  (match st with | some t => [(t : Int)] | none => []) ++ (match rt with | some t => [(t : Int)] | none => [])

/-- `VarCollTIData::print`: `send_size_ > -1`, `sendcounts_ != nullptr`, `recv_size_ > -1`, `recvcounts_ != nullptr`,
root as above, the two types (`rt = none` = ""). -/
def printVar (root : Int) (ssz : Int) (scs : Option (List Int)) (rsz : Int) (rcs : Option (List Int))
    (st : Nat) (rt : Option Nat) : List Int :=
  (if ssz > -1 then [ssz] else []) ++ (scs.getD []) ++ (if rsz > -1 then [rsz] else []) ++ (rcs.getD []) ++
  (if root > 0 ∨ root = 0 then [root] else []) ++ [(st : Int)] ++
  (match rt with | some t => [(t : Int)] | none => [])

/-- what the bindings hand to the TIData constructors, per call (tokens after the name) -/
def Action.print (fixed : Bool) : Action → List Int
  | .init | .finalize | .barrier => []                                     -- NoOpTIData
  | .send p t s ty | .isend p t s ty | .recv p t s ty | .irecv p t s ty => [p, t, s, ty]   -- Pt2PtTIData
  | .wait s d t | .test s d t => [s, d, t]                                 -- WaitTIData
  | .waitall c => [c]                                                      -- CpuTIData("waitall", count)
  | .compute f => [f]
  | .bcast size root ty => printColl fixed root (-1) size 0 (some ty) none
  | .reduce size comp root ty => printColl fixed root comp size 0 (some ty) none
  | .allreduce size comp ty => printColl fixed (-1) comp size 0 (some ty) none
  | .alltoall s r st rt => printColl fixed (-1) (-1) s r (some st) (some rt)
  | .gather s r root st rt => printColl fixed root (-1) s r (some st) (some rt)
  | .allgather s r st rt => printColl fixed (-1) (-1) s r (some st) (some rt)
  | .scatter s r root st rt => printColl fixed root (-1) s r (some st) (some rt)
  | .gatherv s rcs root st rt => printVar root s none (-1) (some rcs) st (some rt)
  | .allgatherv s rcs st rt => printVar (-1) s none (-1) (some rcs) st (some rt)
  | .scatterv scs r root st rt => printVar root (-1) (some scs) r none st (some rt)
  | .alltoallv ssz scs rsz rcs st rt => printVar (-1) ssz (some scs) rsz (some rcs) st (some rt)
  | .reducescatter rcs comp ty => printVar (-1) (-1) none (-1) (some rcs) comp.toNat (some ty)
      -- VarCollTIData("reducescatter", -1, -1, nullptr, -1, recvcounts, std::to_string(0), encode(datatype)):
      -- the "send type" slot carries the amount of computation, always "0"
  -- PMPI_Sendrecv: VarCollTIData("sendRecv", -1, sendcount, {dst_traced}, recvcount, {src_traced}, encode(sendtype),
  -- encode(recvtype)): the one-element "count vectors" carry the two partners; the tags are not traced
  | .sendrecv sc dst rc src st rt => printVar (-1) sc (some [dst]) rc (some [src]) st (some rt)
  -- PMPI_Scan / PMPI_Exscan: CollTIData("scan" | "exscan", -1, 0.0, count, 0, encode(datatype), "")
  | .scan size comp ty | .exscan size comp ty => printColl fixed (-1) comp size 0 (some ty) none

/-! ## reader -/

/-- `parse_root(action, i)`: `i < action.size() ? stoi(action[i]) : 0` (index already shifted by 2) -/
def parseRoot (args : List Int) (i : Nat) : Int := match args[i]? with | some v => v | none => 0

/-- `parse_datatype(action, i)`: absent ⇒ `MPI_DEFAULT_TYPE` -/
def parseTy (dflt : Nat) (args : List Int) (i : Nat) : Nat := match args[i]? with | some v => v.toNat | none => dflt

/-- the `*ArgParser::parse` functions; `n` = `MPI_COMM_WORLD->size()`; `none` = `CHECK_ACTION_PARAMS` throws
(fewer than the mandatory number of arguments) or a mandatory `action[i]` is missing. -/
def parse (n dflt : Nat) (name : String) (args : List Int) : Option Action :=
  match name with
  | "init" => some .init
  | "finalize" => some .finalize
  | "barrier" => some .barrier
  | "send" | "isend" | "recv" | "irecv" =>            -- SendOrRecvParser, CHECK_ACTION_PARAMS(action, 3, 1)
    if args.length < 3 then none else
    match args[0]?, args[1]?, args[2]? with
    | some p, some t, some s =>
      let ty := parseTy dflt args 3
      some (if name = "send" then .send p t s ty else if name = "isend" then .isend p t s ty
            else if name = "recv" then .recv p t s ty else .irecv p t s ty)
    | _, _, _ => none
  | "wait" | "test" =>                                -- WaitTestParser (3, 0)
    match args[0]?, args[1]?, args[2]? with
    | some s, some d, some t => some (if name = "wait" then .wait s d t else .test s d t)
    | _, _, _ => none
  | "waitall" => match args[0]? with | some c => some (.waitall c) | none => some (.waitall 0)   -- no parser: count unused
  | "compute" => match args[0]? with | some f => some (.compute f) | none => none
  | "bcast" =>                                        -- BcastArgParser (1, 2)
    match args[0]? with
    | some size => some (.bcast size (parseRoot args 1) (parseTy dflt args 2))
    | none => none
  | "reduce" =>                                       -- ReduceArgParser (2, 2)
    match args[0]?, args[1]? with
    | some size, some comp => some (.reduce size comp (parseRoot args 2) (parseTy dflt args 3))
    | _, _ => none
  | "allreduce" =>                                    -- AllReduceArgParser (2, 1)
    match args[0]?, args[1]? with
    | some size, some comp => some (.allreduce size comp (parseTy dflt args 2))
    | _, _ => none
  | "alltoall" =>                                     -- AllToAllArgParser (2, 1)
    match args[0]?, args[1]? with
    | some s, some r => some (.alltoall s r (parseTy dflt args 2) (parseTy dflt args 3))
    | _, _ => none
  | "gather" =>                                       -- GatherArgParser (2, 3), name == "gather"
    match args[0]?, args[1]? with
    | some s, some r => some (.gather s r (parseRoot args 2) (parseTy dflt args 3) (parseTy dflt args 4))
    | _, _ => none
  | "allgather" =>                                    -- GatherArgParser, else branch: root = 0
    match args[0]?, args[1]? with
    | some s, some r => some (.allgather s r (parseTy dflt args 2) (parseTy dflt args 3))
    | _, _ => none
  | "scatter" =>                                      -- ScatterArgParser (2, 3)
    match args[0]?, args[1]? with
    | some s, some r => some (.scatter s r (parseRoot args 2) (parseTy dflt args 3) (parseTy dflt args 4))
    | _, _ => none
  | "gatherv" =>                                      -- GatherVArgParser (comm_size + 1, 2), name == "gatherv"
    if args.length < n + 1 then none else
    match args with
    | s :: rest => some (.gatherv s (rest.take n) (parseRoot args (1 + n)) (parseTy dflt args (2 + n))
                          (parseTy dflt args (3 + n)))
    | [] => none
  | "allgatherv" =>                                   -- GatherVArgParser, else branch
    if args.length < n + 1 then none else
    match args with
    | s :: rest =>
      -- action.size() = args.length + 2
      if args.length + 2 > 3 + n + n then              -- "datatype + disp are specified"
        some (.allgatherv s (rest.take n) (parseTy dflt args (1 + n)) (parseTy dflt args (2 + n)))
      else if args.length + 2 > 3 + n + 2 then         -- "disps specified; datatype is not specified"
        some (.allgatherv s (rest.take n) dflt dflt)
      else some (.allgatherv s (rest.take n) (parseTy dflt args (1 + n)) (parseTy dflt args (2 + n)))
    | [] => none
  | "scatterv" =>                                     -- ScatterVArgParser (comm_size + 1, 2)
    if args.length < n + 1 then none else
    match args[n]? with
    | some r => some (.scatterv (args.take n) r (parseRoot args (1 + n)) (parseTy dflt args (2 + n))
                       (parseTy dflt args (3 + n)))
    | none => none
  | "alltoallv" =>                                    -- AllToAllVArgParser (2 * comm_size + 2, 2)
    if args.length < 2 * n + 2 then none else
    match args[0]?, args[1 + n]? with
    | some ssz, some rsz => some (.alltoallv ssz ((args.drop 1).take n) rsz ((args.drop (2 + n)).take n)
                                   (parseTy dflt args (2 + 2 * n)) (parseTy dflt args (3 + 2 * n)))
    | _, _ => none
  | "reducescatter" =>                                -- ReduceScatterArgParser (comm_size + 1, 1)
    if args.length < n + 1 then none else
    match args[n]? with
    | some comp => some (.reducescatter (args.take n) comp (parseTy dflt args (1 + n)))
    | none => none
  | "sendRecv" =>                                     -- SendRecvParser, CHECK_ACTION_PARAMS(action, 6, 0)
    if args.length < 6 then none else
    match args[0]?, args[1]?, args[2]?, args[3]? with
    | some sc, some dst, some rc, some src => some (.sendrecv sc dst rc src (parseTy dflt args 4) (parseTy dflt args 5))
    | _, _, _, _ => none
  | "scan" | "exscan" =>                              -- ScanArgParser (2, 1)
    match args[0]?, args[1]? with
    | some size, some comp =>
      some (if name = "scan" then .scan size comp (parseTy dflt args 2) else .exscan size comp (parseTy dflt args 2))
    | _, _ => none
  | _ => none

/-- the records the writer can produce for a communicator of `n` ranks (what the theorem quantifies over) -/
def Action.wf (n : Nat) : Action → Prop
  | .gatherv _ rcs _ _ _ | .allgatherv _ rcs _ _ | .reducescatter rcs _ _ => rcs.length = n
  | .scatterv scs .. => scs.length = n
  | .alltoallv _ scs _ rcs _ _ => scs.length = n ∧ rcs.length = n
  | _ => True

/-- roots are ranks; sizes of explicit-size fields are non-negative -/
def Action.ranges : Action → Prop
  | .bcast _ root _ | .reduce _ _ root _ | .gather _ _ root _ _ | .scatter _ _ root _ _ | .gatherv _ _ root _ _
  | .scatterv _ _ root _ _ => 0 ≤ root
  | .alltoallv ssz _ rsz _ _ _ => 0 ≤ ssz ∧ 0 ≤ rsz
  | _ => True

end SgVerif.C37
