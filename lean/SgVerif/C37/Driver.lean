import SgVerif.C37.Model
import SgVerif.Common.Proto
open SgVerif.Proto
/-
C37 driver.  One line per TI trace line of a generated program:
   <n> <name> <canonical full argument list of the call, as the program issued it>  =>  <tokens found in the trace after the name>
* expected action  := parse n 6 name canonical          (all optional fields present)
* DISAGREE  when the model writer `Action.print true` (the repaired writer, fix commit in /repo) does not produce the trace tokens
* MONFAIL   when reading the trace tokens back (`parse`, default datatype 6 = MPI_BYTE as after a bare `init`) does not
            give the expected action: the replayer would re-issue a different call.
-/
namespace SgVerif.C37

def ints (l : List String) : Option (List Int) :=
  let r := l.map String.toInt?
  if r.all Option.isSome then some (r.filterMap id) else none

def judge (q a : List String) : Verdict :=
  match q with
  | n :: name :: canon =>
    match n.toNat?, ints canon, ints a with
    | some n, some canon, some obs =>
      match parse n 6 name canon with
      | none => .bad
      | some act =>
        if act.name != name then .bad
        else
          let model := act.print true
          match parse n 6 name obs with
          | some back =>
            if back != act then .monfail s!"trace line reads back as {repr back} instead of {repr act}"
            else if model != obs then .disagree (" ".intercalate (model.map toString))
            else .ok
          | none => .monfail "trace line is rejected by the replay parser"
    | _, _, _ => .bad
  | _ => .bad

end SgVerif.C37

def main : IO Unit := SgVerif.Proto.run SgVerif.C37.judge
