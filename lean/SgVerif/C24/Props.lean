import SgVerif.C24.Lemmas
/-
C24 — Hierarchical routes are composed correctly.  Property theorems (nothing else in this file).

All theorems are for EVERY platform description `P : Plat`: any zone tree (any depth, any branching — `parent`,
`zoneOf` are arbitrary functions, the only structural hypothesis is that a walk to the root does not meet a zone
twice), any local-route tables `loc`, any bypass tables, any latencies, any recursion bound.
-/
namespace SgVerif.C24

/-- a walk to the root never meets the same zone twice (true of every tree) -/
def TreeLike (P : Plat) : Prop := ∀ np, (allEnglobing P np).Nodup

/-- no bypass route declares a destination gateway that lives in a zone whose `get_local_route` inserts at the front
(DijkstraZone).  Needed only by the regression theorems about the code *before* the fix
`bypass-tail-in-dijkstra-zone` (`globalRouteV false`), see `global_route_is_concat_prefix_counterexample`. -/
def BypassGwNotInPrependZone (P : Plat) : Prop :=
  ∀ z k b g, (k, b) ∈ P.bypass z → b.gwDst = some g → P.prepend (P.zoneOf g) = false

theorem lookupKey_mem (tbl : List ((Np × Np) × Bypass)) (k : Np × Np) (b : Bypass)
    (h : lookupKey tbl k = some b) : (k, b) ∈ tbl := by
  unfold lookupKey at h
  split at h
  · rename_i e he
    have hm := List.mem_of_find?_eq_some he
    have hk := List.find?_some he
    simp only [beq_iff_eq] at hk
    cases h
    rw [← hk]; exact hm
  · cases h

theorem bpLookup_mem (P : Plat) (tbl) (ps pd : List Zn) (i j : Nat) (k : Np × Np) (b : Bypass)
    (h : bpLookup P tbl ps pd i j = some (k, b)) : lookupKey tbl k = some b := by
  unfold bpLookup at h
  split at h
  · simp only at h
    split at h
    · rename_i b' hb; cases h; exact hb
    · cases h
  · cases h

theorem bpSearch_mem (P : Plat) (tbl) (ps pd : List Zn) (k : Np × Np) (b : Bypass)
    (h : bpSearch P tbl ps pd = some (k, b)) : lookupKey tbl k = some b := by
  unfold bpSearch at h
  obtain ⟨mx, _, hmx⟩ := List.exists_of_findSome?_eq_some h
  split at hmx
  · rename_i r hr
    cases hmx
    obtain ⟨i, _, hi⟩ := List.exists_of_findSome?_eq_some hr
    split at hi
    · rename_i r' hr'; cases hi; exact bpLookup_mem P tbl ps pd _ _ k b hr'
    · exact bpLookup_mem P tbl ps pd _ _ k b hi
  · exact bpLookup_mem P tbl ps pd _ _ k b hmx

/-- a bypass route used by the search is one that was declared in that zone, under that key -/
theorem bypassFind_via_declared (P : Plat) (z : Zn) (src dst : Np) (k : Np × Np) (b : Bypass)
    (h : bypassFind P z src dst = .via k b) : lookupKey (P.bypass z) k = some b := by
  unfold bypassFind at h
  simp only at h
  split at h
  · cases h
  · split at h
    · split at h <;> cases h
    · split at h
      · rename_i key b' hs
        cases h
        exact bpSearch_mem P _ _ _ k b hs
      · cases h

theorem bypassFind_direct_declared (P : Plat) (z : Zn) (src dst : Np) (b : Bypass)
    (h : bypassFind P z src dst = .direct b) : lookupKey (P.bypass z) (src, dst) = some b := by
  unfold bypassFind at h
  simp only at h
  split at h
  · cases h
  · split at h
    · split at h
      · rename_i b' hb; cases h; exact hb
      · cases h
    · split at h <;> cases h

theorem bypassOk_of (P : Plat) (h : BypassGwNotInPrependZone P) : BypassOk P := by
  intro z src dst key b g hv hg
  exact h z key b g (lookupKey_mem _ _ _ (bypassFind_via_declared P z src dst key b hv)) hg

/-- **Composition (up ++ ancestor/bypass ++ down, in path order) — full strength.**  For every platform (the only
structural hypothesis: a walk to the root does not meet a zone twice), every recursion bound, every pair of netpoints:
the iterative `get_global_route_with_netzones` returns exactly the concatenation of the segments of the recursive
specification, in that order, and the latency it accumulated is the sum over those segments; errors coincide too.
(Before the fix `bypass-tail-in-dijkstra-zone` this needed `BypassGwNotInPrependZone`: see the `_prefix_` theorems.) -/
theorem global_route_is_concat (P : Plat) (hT : TreeLike P) (f : Nat) (src dst : Np) :
    globalRoute P f src dst [] 0 = lift P 0 (fun l => l) (specRoute P f src dst) := by
  have h := globalRoute_spec P hT f src dst [] 0
  simpa using h

/-- same statement with an arbitrary prefix already accumulated in the in/out parameters (what the recursive calls
made by `get_bypass_route` rely on) — full strength: whatever was accumulated stays in front, in every kind of zone -/
theorem global_route_appends (P : Plat) (hT : TreeLike P) (f : Nat) (src dst : Np) (links : List Lk) (lat : Int) :
    globalRoute P f src dst links lat = lift P lat (links ++ ·) (specRoute P f src dst) :=
  globalRoute_spec P hT f src dst links lat

/- ---- regression: the code before the fix (same-zone case handing the accumulated list to the zone) -/

/-- the composition theorem as it stood before the fix: the pre-fix variant needs the extra hypothesis on bypass routes -/
theorem global_route_is_concat_prefix_partial (P : Plat) (hT : TreeLike P) (hB : BypassGwNotInPrependZone P)
    (f : Nat) (src dst : Np) :
    globalRouteV false P f src dst [] 0 = lift P 0 (fun l => l) (specRoute P f src dst) := by
  have h := globalRouteV_spec false P hT (Or.inr (bypassOk_of P hB)) f src dst [] 0 (Or.inr (Or.inl rfl))
  simpa using h

theorem global_route_appends_prefix_partial (P : Plat) (hT : TreeLike P) (hB : BypassGwNotInPrependZone P)
    (f : Nat) (src dst : Np) (links : List Lk) (lat : Int) (h : links = [] ∨ P.prepend (P.zoneOf src) = false) :
    globalRouteV false P f src dst links lat = lift P lat (links ++ ·) (specRoute P f src dst) :=
  globalRouteV_spec false P hT (Or.inr (bypassOk_of P hB)) f src dst links lat (Or.inr h)

/-- platforms without any Dijkstra zone satisfy the pre-fix hypothesis trivially -/
theorem bypassGw_ok_of_no_prepend (P : Plat) (h : ∀ z, P.prepend z = false) : BypassGwNotInPrependZone P :=
  fun _ _ _ g _ _ => h (P.zoneOf g)

theorem bypassGw_ok_of_no_bypass (P : Plat) (h : ∀ z, P.bypass z = []) : BypassGwNotInPrependZone P := by
  intro z k b g hm; rw [h z] at hm; cases hm

/- ---------------------------------------------------------------- every segment is a declared thing -/

theorem specUp_valid (P : Plat) (np : Np) (path : List Zn) : ∀ gw segs, specUp P np path gw = .ok segs →
    ∀ s ∈ segs, s.valid P := by
  induction path with
  | nil =>
    intro gw segs h
    unfold specUp at h
    by_cases hz : P.zoneOf np = P.zoneOf gw
    · by_cases hg : np = gw
      · simp [hz, hg] at h; subst h; simp
      · simp only [hz, hg, if_true, if_false] at h
        cases hr : P.loc (P.zoneOf gw) np gw with
        | none => simp [hr] at h
        | some r => simp [hr] at h; subst h; simp [Seg.valid, hr]
    · simp [hz] at h
  | cons z rest ih =>
    intro gw segs h
    unfold specUp at h
    by_cases hz : P.zoneOf np = P.zoneOf gw
    · by_cases hg : np = gw
      · simp [hz, hg] at h; subst h; simp
      · simp only [hz, hg, if_true, if_false] at h
        cases hr : P.loc (P.zoneOf gw) np gw with
        | none => simp [hr] at h
        | some r => simp [hr] at h; subst h; simp [Seg.valid, hr]
    · simp only [hz, if_false] at h
      cases hr : P.loc (P.zoneOf gw) (P.zoneNp z) gw with
      | none => simp [hr] at h
      | some r =>
        simp only [hr] at h
        cases hg : inferGw P r.gwSrc (P.zoneNp z) z with
        | none => simp [hg] at h
        | some g =>
          simp only [hg] at h
          cases hs : specUp P np rest g with
          | error e => simp [hs] at h
          | ok segs' =>
            simp only [hs, Except.ok.injEq] at h
            subst h
            intro s hs'
            rcases List.mem_append.mp hs' with h1 | h1
            · exact ih g segs' hs s h1
            · simp only [List.mem_singleton] at h1; subst h1; simp [Seg.valid, hr]

theorem specDown_valid (P : Plat) (np : Np) (path : List Zn) : ∀ gw segs, specDown P np path gw = .ok segs →
    ∀ s ∈ segs, s.valid P := by
  induction path with
  | nil =>
    intro gw segs h
    unfold specDown at h
    by_cases hz : P.zoneOf np = P.zoneOf gw
    · by_cases hg : np = gw
      · simp [hz, hg] at h; subst h; simp
      · simp only [hz, hg, if_true, if_false] at h
        cases hr : P.loc (P.zoneOf gw) gw np with
        | none => simp [hr] at h
        | some r => simp [hr] at h; subst h; simp [Seg.valid, hr]
    · simp [hz] at h
  | cons z rest ih =>
    intro gw segs h
    unfold specDown at h
    by_cases hz : P.zoneOf np = P.zoneOf gw
    · by_cases hg : np = gw
      · simp [hz, hg] at h; subst h; simp
      · simp only [hz, hg, if_true, if_false] at h
        cases hr : P.loc (P.zoneOf gw) gw np with
        | none => simp [hr] at h
        | some r => simp [hr] at h; subst h; simp [Seg.valid, hr]
    · simp only [hz, if_false] at h
      cases hr : P.loc (P.zoneOf gw) gw (P.zoneNp z) with
      | none => simp [hr] at h
      | some r =>
        simp only [hr] at h
        cases hg : inferGw P r.gwDst (P.zoneNp z) z with
        | none => simp [hg] at h
        | some g =>
          simp only [hg] at h
          cases hs : specDown P np rest g with
          | error e => simp [hs] at h
          | ok segs' =>
            simp only [hs, Except.ok.injEq] at h
            subst h
            intro s hs'
            rcases List.mem_cons.mp hs' with h1 | h1
            · subst h1; simp [Seg.valid, hr]
            · exact ih g segs' hs s h1

/-- helper: the three-part assembly of `specCross` once the pieces are known -/
theorem cross_assemble (P : Plat) (ca : Zn) (a b : Np) (r : Route) (hr : P.loc ca a b = some r)
    (u d : List Seg) (hu : ∀ s ∈ u, s.valid P) (hd : ∀ s ∈ d, s.valid P) :
    ∀ s ∈ u ++ .loc ca a b r :: d, s.valid P := by
  intro s hs
  rcases List.mem_append.mp hs with h1 | h1
  · exact hu s h1
  · rcases List.mem_cons.mp h1 with h2 | h2
    · subst h2; exact hr
    · exact hd s h2

theorem specCross_valid (P : Plat) (src dst : Np) (ca : Zn) (sp dp : List Zn) (segs : List Seg)
    (h : specCross P src dst ca sp dp = .ok segs) : ∀ s ∈ segs, s.valid P := by
  unfold specCross at h
  cases sp with
  | nil =>
    cases dp with
    | nil =>
      simp only at h
      cases hr : P.loc ca src dst with
      | none => simp [hr] at h
      | some r =>
        simp [hr] at h; subst h
        intro s hs; simp only [List.mem_singleton] at hs; subst hs; exact hr
    | cons zd rd =>
      simp only at h
      cases hr : P.loc ca src (P.zoneNp zd) with
      | none => simp [hr] at h
      | some r =>
        simp only [hr] at h
        cases hg : r.gwDst with
        | none => simp [hg] at h
        | some g =>
          simp only [hg] at h
          cases hs : specDown P dst rd g with
          | error e => simp [hs] at h
          | ok d =>
            simp only [hs, Except.ok.injEq, List.nil_append] at h; subst h
            exact cross_assemble P ca _ _ r hr [] d (by simp) (specDown_valid P dst rd g d hs)
  | cons zs rs =>
    cases dp with
    | nil =>
      simp only at h
      cases hr : P.loc ca (P.zoneNp zs) dst with
      | none => simp [hr] at h
      | some r =>
        simp only [hr] at h
        cases hg : r.gwSrc with
        | none => simp [hg] at h
        | some g =>
          simp only [hg] at h
          cases hs : specUp P src rs g with
          | error e => simp [hs] at h
          | ok u =>
            simp only [hs, Except.ok.injEq] at h; subst h
            exact cross_assemble P ca _ _ r hr u [] (specUp_valid P src rs g u hs) (by simp)
    | cons zd rd =>
      simp only at h
      cases hr : P.loc ca (P.zoneNp zs) (P.zoneNp zd) with
      | none => simp [hr] at h
      | some r =>
        simp only [hr] at h
        cases hg : r.gwSrc with
        | none => simp [hg] at h
        | some g =>
          simp only [hg] at h
          cases hs : specUp P src rs g with
          | error e => simp [hs] at h
          | ok u =>
            simp only [hs] at h
            cases hg2 : r.gwDst with
            | none => simp [hg2] at h
            | some g2 =>
              simp only [hg2] at h
              cases hs2 : specDown P dst rd g2 with
              | error e => simp [hs2] at h
              | ok d =>
                simp only [hs2, Except.ok.injEq] at h; subst h
                exact cross_assemble P ca _ _ r hr u d (specUp_valid P src rs g u hs) (specDown_valid P dst rd g2 d hs2)

/-- **Each segment is the local route of the zone crossed, or a declared bypass route** — for every platform,
every recursion bound (no hypothesis at all). -/
theorem spec_segments_declared (P : Plat) : ∀ (f : Nat) (src dst : Np) (segs : List Seg),
    specRoute P f src dst = .ok segs → ∀ s ∈ segs, s.valid P := by
  intro f
  induction f with
  | zero => intro src dst segs h; simp [specRoute] at h
  | succ f ih =>
    intro src dst segs h
    unfold specRoute at h
    split at h
    · cases h
    · rename_i ca sp dp hanc
      split at h
      · rename_i b hb
        cases h
        intro s hs
        simp only [List.mem_singleton] at hs; subst hs
        exact bypassFind_direct_declared P ca src dst b hb
      · rename_i key b hb
        have hbv : Seg.valid P (.byp ca key b) := bypassFind_via_declared P ca src dst key b hb
        simp only at h
        split at h
        · cases h
        · rename_i s1 hs1
          have hv1 : ∀ s ∈ s1, s.valid P := by
            split at hs1
            · split at hs1
              · cases hs1
              · exact ih _ _ _ hs1
            · cases hs1; simp
          split at h
          · split at h
            · cases h
            · split at h
              · cases h
              · rename_i g hg s2 hs2
                cases h
                intro s hs
                rcases List.mem_append.mp hs with h1 | h1
                · exact hv1 s h1
                · rcases List.mem_cons.mp h1 with h2 | h2
                  · subst h2; exact hbv
                  · exact ih _ _ _ hs2 s h2
          · cases h
            intro s hs
            rcases List.mem_append.mp hs with h1 | h1
            · exact hv1 s h1
            · simp only [List.mem_singleton] at h1; subst h1; exact hbv
      · split at h
        · split at h
          · cases h
          · rename_i r hr; cases h
            intro s hs
            simp only [List.mem_singleton] at hs; subst hs
            simp [Seg.valid, hr]
        · exact specCross_valid P src dst ca sp dp segs h

/- ---------------------------------------------------------------- latency -/

/-- **Latency = Σ link latencies + Σ coordinate terms of the zones crossed** — full strength (corollary of the
composition theorem, same single hypothesis). -/
theorem latency_is_sum (P : Plat) (hT : TreeLike P)
    (f : Nat) (src dst : Np) (l : List Lk) (t : Int) (h : globalRoute P f src dst [] 0 = .ok (l, t)) :
    ∃ segs, specRoute P f src dst = .ok segs ∧ l = flatLinks segs ∧ t = sumLat P l + segsExtra segs := by
  rw [global_route_is_concat P hT] at h
  cases hs : specRoute P f src dst with
  | error e => simp [hs, lift] at h
  | ok segs =>
    simp only [hs, lift, Except.ok.injEq, Prod.mk.injEq] at h
    refine ⟨segs, rfl, h.1.symm, ?_⟩
    rw [← h.2, ← h.1]; simp [segsLat]

theorem segsExtra_zero (segs : List Seg) (h : ∀ s ∈ segs, Seg.extra s = 0) : segsExtra segs = 0 := by
  unfold segsExtra
  induction segs with
  | nil => rfl
  | cons s ss ih =>
    simp only [List.map_cons, List.sum_cons]
    rw [h s (by simp), ih (fun s hs => h s (by simp [hs]))]; rfl

/-- without Vivaldi zones (no zone adds anything beyond its links): latency = Σ latencies of the returned links -/
theorem latency_is_sum_of_links (P : Plat) (hT : TreeLike P)
    (hX : ∀ z a b r, P.loc z a b = some r → r.extra = 0)
    (f : Nat) (src dst : Np) (l : List Lk) (t : Int) (h : globalRoute P f src dst [] 0 = .ok (l, t)) :
    t = sumLat P l := by
  obtain ⟨segs, hs, _, ht⟩ := latency_is_sum P hT f src dst l t h
  have hv := spec_segments_declared P f src dst segs hs
  have h0 : segsExtra segs = 0 := by
    apply segsExtra_zero
    intro s hs'
    have := hv s hs'
    cases s with
    | loc z a b r => exact hX z a b r this
    | byp z k b => rfl
  omega

/- ---------------------------------------------------------------- symmetrical routes -/

/-- **A route declared symmetrical is stored reversed for the opposite direction** (FullZone::add_route +
new_extended_route): same links in reverse order, gateways swapped — for every table, endpoints, link list. -/
theorem symmetric_route_reversed (recursive : Bool) (t t' : Table) (src dst : Np) (gs gd : Option Np)
    (links : List Lk) (hne : src ≠ dst) (h : fullAddRoute recursive t src dst gs gd links true = some t') :
    (fullLocal t' src dst).links = links ∧ (fullLocal t' dst src).links = links.reverse ∧
    (recursive = true → gs.isSome → gd.isSome →
      (fullLocal t' src dst).gwSrc = gs ∧ (fullLocal t' src dst).gwDst = gd ∧
      (fullLocal t' dst src).gwSrc = gd ∧ (fullLocal t' dst src).gwDst = gs) := by
  unfold fullAddRoute at h
  split at h
  · cases h
  split at h
  · cases h
  · simp only [Bool.true_and, ne_eq, hne, not_false_eq_true, decide_true, if_true] at h
    split at h
    · cases h
    · cases h
      have hne' : ¬ (dst = src) := fun e => hne e.symm
      have hk1 : ((dst, src) == (src, dst)) = false := by simp [hne']
      have hk2 : ((src, dst) == (src, dst)) = true := by simp
      have hk3 : ((dst, src) == (dst, src)) = true := by simp
      refine ⟨?_, ?_, ?_⟩
      · simp [fullLocal, tableGet, List.find?, hk1, hk2, newExtendedRoute]
      · simp [fullLocal, tableGet, List.find?, hk3, newExtendedRoute]
      · intro hr hs hd
        simp [fullLocal, tableGet, List.find?, hk1, hk2, hk3, newExtendedRoute, hr, hs, hd]

/-- a route declared with `symmetrical = false` leaves the opposite direction untouched -/
theorem oneway_route_not_reversed (recursive : Bool) (t t' : Table) (src dst : Np) (gs gd : Option Np)
    (links : List Lk) (hne : src ≠ dst) (h : fullAddRoute recursive t src dst gs gd links false = some t') :
    (fullLocal t' src dst).links = links ∧ tableGet t' dst src = tableGet t dst src := by
  unfold fullAddRoute at h
  split at h
  · cases h
  split at h
  · cases h
  · simp only [Bool.false_and, Bool.false_eq_true, if_false] at h
    cases h
    have hne' : ¬ (dst = src) := fun e => hne e.symm
    have hk1 : ((src, dst) == (dst, src)) = false := by simp [hne]
    have hk2 : ((src, dst) == (src, dst)) = true := by simp
    constructor
    · simp [fullLocal, tableGet, List.find?, hk2, newExtendedRoute]
    · simp [tableGet, List.find?, hk1]

/- ================================================================ the Vivaldi coordinate term, given by the model -/

/-- **Latency = Σ link latencies + Σ over the Vivaldi segments of the model's coordinate term** — full strength.
For every platform whose Vivaldi zones answer what the model of `VivaldiZone::get_local_route` answers
(`FollowsVivaldi`: Star part, gateways, assertion when coordinates are missing, and the term
`vivaldiTerm (coords src) (coords dst)` = `(√((x₁-x₂)²+(y₁-y₂)²) + |h₁| + |h₂|) / 1000`) and whose other zones add
nothing beyond their links: the latency of every route is the sum of its links' latencies plus, for each Vivaldi
segment crossed, in path order, the term computed from the coordinates of the two ends of that segment.
`ρ` is the numeric evaluation of a term in latency units (the library: double sqrt, `/ 1000.0`); it is arbitrary here —
`latency_is_sum_vivaldi_exact` and `latency_is_sum_vivaldi_bracket` say what follows when it is exact / accurate. -/
theorem latency_is_sum_vivaldi (P : Plat) (hT : TreeLike P) (V : Viv) (ρ : VTerm → Int)
    (hV : FollowsVivaldi P V ρ) (hN : OnlyVivaldiAdds P V)
    (f : Nat) (src dst : Np) (l : List Lk) (t : Int) (h : globalRoute P f src dst [] 0 = .ok (l, t)) :
    ∃ segs, specRoute P f src dst = .ok segs ∧ l = flatLinks segs ∧
      t = sumLat P l + ((vivTerms V segs).map ρ).sum := by
  obtain ⟨segs, hs, hl, ht⟩ := latency_is_sum P hT f src dst l t h
  refine ⟨segs, hs, hl, ?_⟩
  rw [ht, segsExtra_eq_vivTerms P V ρ hV hN segs (spec_segments_declared P f src dst segs hs)]

/-- each of those terms is the model's term of a Vivaldi segment of the route: `vivaldiTerm` of the coordinates of the
segment's two ends (a local route of a Vivaldi zone, declared in the platform) -/
theorem vivaldi_terms_are_segment_terms (P : Plat) (V : Viv) (f : Nat) (src dst : Np) (segs : List Seg)
    (hs : specRoute P f src dst = .ok segs) (t : VTerm) (ht : t ∈ vivTerms V segs) :
    ∃ z a b r ca cb, Seg.loc z a b r ∈ segs ∧ P.loc z a b = some r ∧ V.isViv z = true ∧
      V.coords a = some ca ∧ V.coords b = some cb ∧ t = vivaldiTerm ca cb := by
  obtain ⟨z, a, b, r, ca, cb, hm, hz, hca, hcb, e⟩ := vivTerms_mem V segs t ht
  exact ⟨z, a, b, r, ca, cb, hm, spec_segments_declared P f src dst segs hs _ hm, hz, hca, hcb, e⟩

/-- **Exact form** (latencies in seconds, `U` latency units per second): when the evaluation is exact — `ρ term / U` is
the value of the term, i.e. `v * 1000 - (|h₁| + |h₂|)` is the non-negative square root of `(x₁-x₂)² + (y₁-y₂)²` — the
latency in seconds is the sum of the links' latencies plus the values `val x` of the model's terms `x`, one per Vivaldi segment. -/
theorem latency_is_sum_vivaldi_exact (P : Plat) (hT : TreeLike P) (V : Viv) (ρ : VTerm → Int)
    (hV : FollowsVivaldi P V ρ) (hN : OnlyVivaldiAdds P V) (U : Nat)
    (hρ : ∀ z a b ca cb, V.isViv z = true → V.coords a = some ca → V.coords b = some cb →
      (vivaldiTerm ca cb).HasValue ((ρ (vivaldiTerm ca cb) : Rat) / U))
    (f : Nat) (src dst : Np) (l : List Lk) (t : Int) (h : globalRoute P f src dst [] 0 = .ok (l, t)) :
    ∃ segs, ∃ val : VTerm → Rat, specRoute P f src dst = .ok segs ∧ l = flatLinks segs ∧
      (∀ x ∈ vivTerms V segs, x.HasValue (val x)) ∧
      (t : Rat) / U = (sumLat P l : Rat) / U + ((vivTerms V segs).map val).sum := by
  obtain ⟨segs, hs, hl, ht⟩ := latency_is_sum_vivaldi P hT V ρ hV hN f src dst l t h
  refine ⟨segs, fun x => (ρ x : Rat) / U, hs, hl, ?_, ?_⟩
  · intro x hx
    obtain ⟨z, a, b, _, ca, cb, _, hz, hca, hcb, e⟩ := vivTerms_mem V segs x hx
    rw [e]; exact hρ z a b ca cb hz hca hcb
  · have e := ratCast_sum_div (vivTerms V segs) ρ U
    rw [ht, Rat.intCast_add, ← e]
    grind

/-- **Accurate evaluation**: when `ρ` lands within `ε` of the rational bracket `[lo, hi]` of each term (the bracket the
driver computes: floor / ceiling in latency units of `(lo√ + hsum)/1000`, `(hi√ + hsum)/1000` with `lo√ ≤ √rad ≤ hi√`,
see `termBracket_sound`), the latency is within `n·ε` of `Σ links + Σ brackets`, `n` = number of Vivaldi segments. -/
theorem latency_is_sum_vivaldi_bracket (P : Plat) (hT : TreeLike P) (V : Viv) (ρ : VTerm → Int)
    (hV : FollowsVivaldi P V ρ) (hN : OnlyVivaldiAdds P V) (U m : Nat) (ε : Int)
    (hρ : ∀ z a b ca cb, V.isViv z = true → V.coords a = some ca → V.coords b = some cb →
      (termBracket U m (vivaldiTerm ca cb)).1 - ε ≤ ρ (vivaldiTerm ca cb) ∧
      ρ (vivaldiTerm ca cb) ≤ (termBracket U m (vivaldiTerm ca cb)).2 + ε)
    (f : Nat) (src dst : Np) (l : List Lk) (t : Int) (h : globalRoute P f src dst [] 0 = .ok (l, t)) :
    ∃ segs, specRoute P f src dst = .ok segs ∧ l = flatLinks segs ∧
      sumLat P l + ((vivTerms V segs).map (fun x => (termBracket U m x).1)).sum - (vivTerms V segs).length * ε ≤ t ∧
      t ≤ sumLat P l + ((vivTerms V segs).map (fun x => (termBracket U m x).2)).sum + (vivTerms V segs).length * ε := by
  obtain ⟨segs, hs, hl, ht⟩ := latency_is_sum_vivaldi P hT V ρ hV hN f src dst l t h
  refine ⟨segs, hs, hl, ?_⟩
  have hb : ∀ x ∈ vivTerms V segs, (termBracket U m x).1 - ε ≤ ρ x ∧ ρ x ≤ (termBracket U m x).2 + ε := by
    intro x hx
    obtain ⟨z, a, b, _, ca, cb, _, hz, hca, hcb, e⟩ := vivTerms_mem V segs x hx
    rw [e]; exact hρ z a b ca cb hz hca hcb
  have := sum_between (vivTerms V segs) ρ (fun x => (termBracket U m x).1) (fun x => (termBracket U m x).2) ε hb
  omega

/-- the value of a term is unique: `HasValue` specifies a function of the coordinates (√ of the radicand) -/
theorem vivaldi_value_unique (t : VTerm) (v w : Rat) (hv : t.HasValue v) (hw : t.HasValue w) : v = w := by
  obtain ⟨hv0, hv2⟩ := hv
  obtain ⟨hw0, hw2⟩ := hw
  have h1 : v * 1000 - t.hsum ≤ w * 1000 - t.hsum :=
    rat_le_of_sq_le (v * 1000 - t.hsum) (w * 1000 - t.hsum) hw0 (by rw [hv2, hw2]; exact Rat.le_refl)
  have h2 : w * 1000 - t.hsum ≤ v * 1000 - t.hsum :=
    rat_le_of_sq_le (w * 1000 - t.hsum) (v * 1000 - t.hsum) hv0 (by rw [hv2, hw2]; exact Rat.le_refl)
  grind

/-- the model's term does not depend on the direction: `vivaldiTerm a b` and `vivaldiTerm b a` have the same values -/
theorem vivaldi_term_symmetric (a b : Coord) (v : Rat) (h : (vivaldiTerm a b).HasValue v) :
    (vivaldiTerm b a).HasValue v := by
  unfold VTerm.HasValue vivaldiTerm at *
  simp only at *
  constructor
  · grind
  · obtain ⟨_, h2⟩ := h
    grind

/-- **the rational bracket of a term (what the driver compares the library's term with) contains the value of the
term**: for any scale `m > 0` and any latency unit, `lo ≤ v · unit ≤ hi`, where `v` is the value in seconds of
`vivaldiTerm a b` (specified by `HasValue`) and `(lo, hi) = termBracket unit m (vivaldiTerm a b)`. -/
theorem vivaldi_value_in_bracket (unit m : Nat) (hm : 0 < m) (a b : Coord) (v : Rat)
    (hv : (vivaldiTerm a b).HasValue v) :
    ((termBracket unit m (vivaldiTerm a b)).1 : Rat) ≤ v * unit ∧
      v * unit ≤ ((termBracket unit m (vivaldiTerm a b)).2 : Rat) :=
  termBracket_sound unit m hm _ v hv

/- ================================================================ cluster-like zones: which gateways are consulted -/

/-- **The composition consults the gateways returned by the zone's local answer, not the zones' default gateways**
(item: Torus / FatTree / Dragonfly zones whose leaves are netzones return `gw_src_ = get_gateway(src->id())`, the entry
of ClusterBase's table filled by `fill_leaf_from_cb`): on a platform whose local answers name the gateway of every
end that is a netzone, the route and latency of every pair are the same whatever the `NetZoneImpl` default gateways
(`seal`'s rules, `set_gateway`) are — for every platform, every pair, both variants.  Together with
`global_route_is_concat`: the route is a function of the answers `loc` (links, gw_src, gw_dst) alone; the kind of a
zone appears nowhere in the composition. -/
theorem route_independent_of_default_gateways (P Q : Plat) (h : SameButGateway P Q) (hG : GatewaysDeclared P)
    (src dst : Np) : routeTo Q src dst = routeTo P src dst := by
  unfold routeTo globalRoute
  rw [h.depth]
  exact globalRouteV_same _ P Q h hG _ src dst [] 0

theorem global_route_independent_of_default_gateways (P Q : Plat) (h : SameButGateway P Q) (hG : GatewaysDeclared P)
    (f : Nat) (src dst : Np) (links : List Lk) (lat : Int) :
    globalRoute Q f src dst links lat = globalRoute P f src dst links lat :=
  globalRouteV_same _ P Q h hG f src dst links lat

/- ================================================================ concrete platforms: non-vacuity, regression
   witnesses of the fixed defects D4 and `bypass-tail-in-dijkstra-zone` -/

/-- root(0) Full { Z0(1) {g=10},  Z1(2) Star { r1=11, Z2(3) Full { h=12, r2=13 } } };
Z2: h→r2 = [1,2];  Z1: Z2@r2 → r1 = [3,4];  root: Z1@r1 → Z0@g = [5,6]  (and the symmetric reverses). -/
def witnessD4 : Plat where
  parent := fun z => match z with | 1 => some 0 | 2 => some 0 | 3 => some 2 | _ => none
  zoneOf := fun n => match n with | 10 => 1 | 11 => 2 | 12 => 3 | 13 => 3 | 3 => 2 | _ => 0
  zoneNp := fun z => z
  isZone := fun n => n < 4
  gateway := fun z => match z with | 1 => some 10 | 2 => some 11 | 3 => some 13 | _ => none
  prepend := fun _ => false
  loc := fun z a b => match z, a, b with
    | 3, 12, 13 => some { links := [1, 2], gwSrc := none, gwDst := none }
    | 3, 13, 12 => some { links := [2, 1], gwSrc := none, gwDst := none }
    | 2, 3, 11 => some { links := [3, 4], gwSrc := some 13, gwDst := none }
    | 2, 11, 3 => some { links := [4, 3], gwSrc := none, gwDst := some 13 }
    | 0, 2, 1 => some { links := [5, 6], gwSrc := some 11, gwDst := some 10 }
    | 0, 1, 2 => some { links := [6, 5], gwSrc := some 10, gwDst := some 11 }
    | _, _, _ => none
  bypass := fun _ => []
  lat := fun l => (2 : Int) ^ l
  depth := 4

theorem witnessD4_tree : TreeLike witnessD4 := by
  intro np
  simp only [allEnglobing, witnessD4]
  split <;> decide

/-- the hypotheses of the composition theorem are satisfiable, on a 3-level platform with an upward inter-zone
route of two links (the witness of the defect fixed by 5b4d2adf5e): h→g is `1 2 3 4 5 6`, g→h the reverse,
latency = Σ 2^link -/
example : TreeLike witnessD4 ∧ BypassGwNotInPrependZone witnessD4 ∧
    routeTo witnessD4 12 10 = .ok ([1, 2, 3, 4, 5, 6], 126) ∧
    routeTo witnessD4 10 12 = .ok ([6, 5, 4, 3, 2, 1], 126) ∧
    (specRouteTo witnessD4 12 10).toOption.map flatLinks = some [1, 2, 3, 4, 5, 6] :=
  ⟨witnessD4_tree, bypassGw_ok_of_no_bypass _ (fun _ => rfl), by decide, by decide, by decide⟩

/-- root(0) Full { Z0(1) Full {g=10,k=11},  Z1(2) Dijkstra {h=12,m=13} };  bypass in root Z0→Z1 through k and m = [7];
Z0: g→k = [1];  Z1: m→h = [2] -/
def witnessBypassDijkstra : Plat where
  parent := fun z => match z with | 1 => some 0 | 2 => some 0 | _ => none
  zoneOf := fun n => match n with | 10 => 1 | 11 => 1 | 12 => 2 | 13 => 2 | _ => 0
  zoneNp := fun z => z
  isZone := fun n => n < 3
  gateway := fun _ => none
  prepend := fun z => z == 2
  loc := fun z a b => match z, a, b with
    | 1, 10, 11 => some { links := [1], gwSrc := none, gwDst := none }
    | 2, 13, 12 => some { links := [2], gwSrc := none, gwDst := none }
    | _, _, _ => none
  bypass := fun z => match z with
    | 0 => [((1, 2), { gwSrc := some 11, gwDst := some 13, links := [7] })]
    | _ => []
  lat := fun _ => 1
  depth := 3

theorem witnessBypassDijkstra_tree : TreeLike witnessBypassDijkstra := by
  intro np
  simp only [allEnglobing, witnessBypassDijkstra]
  split <;> decide

/-- **Regression witness of the fixed defect `bypass-tail-in-dijkstra-zone`**: a bypass route whose destination
gateway lies in a Dijkstra zone.  Before the fix the implementation handed the accumulated list to
`DijkstraZone::get_local_route`, which inserts at the front: g→h came out as `2 1 7` (last segment first) where the
concatenation in path order is `1 7 2` — the pre-fix variant violates the full-strength statement, and the platform
does not satisfy the hypothesis the pre-fix theorem needed.  (Corpus case `bypass-dijkstra` replays it on the library.) -/
theorem global_route_is_concat_prefix_counterexample :
    TreeLike witnessBypassDijkstra ∧ ¬ BypassGwNotInPrependZone witnessBypassDijkstra ∧
    routeToV false witnessBypassDijkstra 10 12 = .ok ([2, 1, 7], 3) ∧
    (specRouteTo witnessBypassDijkstra 10 12).toOption.map flatLinks = some [1, 7, 2] ∧
    globalRouteV false witnessBypassDijkstra 5 10 12 [] 0 ≠
      lift witnessBypassDijkstra 0 (fun l => l) (specRoute witnessBypassDijkstra 5 10 12) :=
  ⟨witnessBypassDijkstra_tree,
   fun h => absurd (h 0 (1, 2) { gwSrc := some 11, gwDst := some 13, links := [7] } 13 (by simp [witnessBypassDijkstra]) rfl)
     (by decide),
   by decide, by decide, by decide⟩

/-- the same platform on the code as it is now: `1 7 2`, the concatenation in path order (non-vacuity of
`global_route_is_concat` on a platform outside the old hypothesis) -/
theorem global_route_is_concat_fixed_witness :
    routeTo witnessBypassDijkstra 10 12 = .ok ([1, 7, 2], 3) ∧
    globalRoute witnessBypassDijkstra 5 10 12 [] 0 =
      lift witnessBypassDijkstra 0 (fun l => l) (specRoute witnessBypassDijkstra 5 10 12) :=
  ⟨by decide, global_route_is_concat _ witnessBypassDijkstra_tree 5 10 12⟩

/- ---- a platform with a Vivaldi zone: non-vacuity of the `latency_is_sum_vivaldi…` theorems -/

def c10 : Coord := { x := 3000, y := 4000, h := -1000 }
def c11 : Coord := { x := 0, y := 0, h := 2000 }

/-- Z1 = Vivaldi { h = 10 at (3000, 4000, -1000) ms, g = 11 at (0, 0, 2000) ms }, peer links 1 (of h) and 2 (of g) -/
def witnessViv : Viv where
  isViv := fun z => z == 1
  tab := fun _ => [(10, { up := [1], down := [1], upSet := true, downSet := true }),
                   (11, { up := [2], down := [2], upSet := true, downSet := true })]
  verts := fun _ => [10, 11]
  coords := fun n => match n with | 10 => some c10 | 11 => some c11 | _ => none
  routerOf := fun _ => none

/-- evaluation of a term in whole seconds (exact on this platform: √(3000² + 4000²) = 5000 ms) -/
def witnessEval (t : VTerm) : Int := (termBracket 1 1 t).1

/-- root(0) Full { Z1(1) = `witnessViv`, Z2(2) Full { k = 12 } };  root: Z1@g → Z2@k = [5].  The answers of Z1 are
the Vivaldi model's. -/
def witnessVivaldi : Plat where
  parent := fun z => match z with | 1 => some 0 | 2 => some 0 | _ => none
  zoneOf := fun n => match n with | 10 => 1 | 11 => 1 | 12 => 2 | _ => 0
  zoneNp := fun z => z
  isZone := fun n => n < 3
  gateway := fun _ => none
  prepend := fun _ => false
  loc := fun z a b =>
    if z == 1 then (witnessViv.local (fun n => n < 3) 1 a b).map (VRoute.toRoute witnessEval)
    else match z, a, b with
      | 0, 1, 2 => some { links := [5], gwSrc := some 11, gwDst := some 12 }
      | 0, 2, 1 => some { links := [5], gwSrc := some 12, gwDst := some 11 }
      | _, _, _ => none
  bypass := fun _ => []
  lat := fun _ => 1
  depth := 3

theorem witnessVivaldi_tree : TreeLike witnessVivaldi := by
  intro np
  simp only [allEnglobing, witnessVivaldi]
  split <;> decide

theorem witnessVivaldi_follows : FollowsVivaldi witnessVivaldi witnessViv witnessEval := by
  intro z hz a b
  have hz1 : z = 1 := by simpa [witnessViv] using hz
  subst hz1
  rfl

theorem witnessVivaldi_only : OnlyVivaldiAdds witnessVivaldi witnessViv := by
  intro z a b r hz h
  have hz1 : ¬ (z = 1) := by simpa [witnessViv] using hz
  simp only [witnessVivaldi, beq_iff_eq, hz1, if_false] at h
  split at h <;> cases h <;> rfl

theorem witnessVivaldi_exact (z : Zn) (a b : Np) (ca cb : Coord) (_ : witnessViv.isViv z = true)
    (ha : witnessViv.coords a = some ca) (hb : witnessViv.coords b = some cb) :
    (vivaldiTerm ca cb).HasValue ((witnessEval (vivaldiTerm ca cb) : Rat) / (1 : Nat)) := by
  simp only [witnessViv] at ha hb
  split at ha <;> cases ha <;> split at hb <;> cases hb <;>
    (show (0 : Rat) ≤ _ ∧ _ = _) <;> decide +kernel

/-- non-vacuity of `latency_is_sum_vivaldi` (and of its `_exact` / `_bracket` forms): h → k crosses the Vivaldi segment
(h, g): links `1 2 5` (1 s each), coordinate term (√(3000² + 4000²) + 1000 + 2000) / 1000 = 8 s: 11 s in all; the terms
of the route are exactly `[vivaldiTerm c10 c11]`, with value 8 -/
example : TreeLike witnessVivaldi ∧ FollowsVivaldi witnessVivaldi witnessViv witnessEval ∧
    OnlyVivaldiAdds witnessVivaldi witnessViv ∧
    routeTo witnessVivaldi 10 12 = .ok ([1, 2, 5], 11) ∧
    routeTo witnessVivaldi 12 10 = .ok ([5, 2, 1], 11) ∧
    (specRouteTo witnessVivaldi 10 12).toOption.map (vivTerms witnessViv) = some [vivaldiTerm c10 c11] ∧
    witnessEval (vivaldiTerm c10 c11) = 8 ∧ (vivaldiTerm c10 c11).HasValue 8 ∧
    (∀ z a b ca cb, witnessViv.isViv z = true → witnessViv.coords a = some ca → witnessViv.coords b = some cb →
      (vivaldiTerm ca cb).HasValue ((witnessEval (vivaldiTerm ca cb) : Rat) / (1 : Nat))) ∧
    termBracket 1 1 (vivaldiTerm c10 c11) = (8, 8) :=
  ⟨witnessVivaldi_tree, witnessVivaldi_follows, witnessVivaldi_only, by decide +kernel, by decide +kernel,
   by decide +kernel, by decide +kernel, by (show (0 : Rat) ≤ _ ∧ _ = _); decide +kernel, witnessVivaldi_exact,
   by decide +kernel⟩

/- ---- a cluster-like zone with netzone leaves: T(1) = "torus" { A(2) {10, 11}, B(3) {12, 13}, router 14 },
   X(4) {15} next to it under root(0).  T's answers between its leaves carry the gateways of its table (A ↦ 11, B ↦ 12);
   towards its router it answers nothing (`if (dst->is_router() || src->is_router()) return;`). -/
def witnessTorusG (withRouterRoutes : Bool) (gw : Zn → Option Np) : Plat where
  parent := fun z => match z with | 1 => some 0 | 2 => some 1 | 3 => some 1 | 4 => some 0 | _ => none
  zoneOf := fun n => match n with | 10 => 2 | 11 => 2 | 12 => 3 | 13 => 3 | 14 => 1 | 15 => 4 | 2 => 1 | 3 => 1 | _ => 0
  zoneNp := fun z => z
  isZone := fun n => n < 5
  gateway := gw
  prepend := fun _ => false
  loc := fun z a b => match z, a, b with
    | 2, 10, 11 => some { links := [1], gwSrc := none, gwDst := none }
    | 3, 12, 13 => some { links := [2], gwSrc := none, gwDst := none }
    | 1, 2, 3 => some { links := [100], gwSrc := some 11, gwDst := some 12 }
    | 1, 3, 2 => some { links := [100], gwSrc := some 12, gwDst := some 11 }
    | 1, 2, 14 => if withRouterRoutes then some { links := [], gwSrc := none, gwDst := none } else none
    | 0, 1, 4 => if withRouterRoutes then some { links := [7], gwSrc := some 14, gwDst := some 15 } else none
    | _, _, _ => none
  bypass := fun _ => []
  lat := fun _ => 1
  depth := 4

def torusDefaults : Zn → Option Np := fun z => match z with | 2 => some 11 | 3 => some 12 | _ => none

theorem witnessTorus_declared : GatewaysDeclared (witnessTorusG false torusDefaults) := by
  intro z a b r h
  simp only [witnessTorusG] at h ⊢
  split at h <;> first | (cases h; simp) | (simp at h)

/-- non-vacuity of `route_independent_of_default_gateways`: between the leaves of the torus the route `1 100 2` goes
through the gateways of the torus' table, with or without default gateways on the leaves -/
example : SameButGateway (witnessTorusG false torusDefaults) (witnessTorusG false (fun _ => none)) ∧
    GatewaysDeclared (witnessTorusG false torusDefaults) ∧
    routeTo (witnessTorusG false torusDefaults) 10 13 = .ok ([1, 100, 2], 3) ∧
    routeTo (witnessTorusG false (fun _ => none)) 10 13 = .ok ([1, 100, 2], 3) :=
  ⟨⟨rfl, rfl, rfl, rfl, rfl, rfl, rfl, rfl, rfl⟩, witnessTorus_declared, by decide, by decide⟩

/-- the hypothesis `GatewaysDeclared` is needed: towards the torus' router the zone's answer has no gateway and the
composition falls back on the leaf's default gateway (`(*it)->get_gateway()`) — `1 7` with it, an error without -/
theorem route_depends_on_default_gateway_when_answer_has_none :
    SameButGateway (witnessTorusG true torusDefaults) (witnessTorusG true (fun _ => none)) ∧
    ¬ GatewaysDeclared (witnessTorusG true torusDefaults) ∧
    routeTo (witnessTorusG true torusDefaults) 10 15 = .ok ([1, 7], 2) ∧
    routeTo (witnessTorusG true (fun _ => none)) 10 15 = .error .noGateway :=
  ⟨⟨rfl, rfl, rfl, rfl, rfl, rfl, rfl, rfl, rfl⟩,
   fun h => absurd ((h 1 2 14 { links := [], gwSrc := none, gwDst := none } rfl).1 (by decide)) (by decide),
   by decide, by decide⟩

/-- non-vacuity of `vivaldi_value_unique`, `vivaldi_term_symmetric`, `vivaldi_value_in_bracket`: the 3-4-5 triangle with
heights -1000 and 2000 ms: value 8 s in both directions, bracket [8, 8] at unit 1 s; and an irrational case: the bracket
of (1,1)–(0,0) at 2^-50 s is one unit wide -/
example : (vivaldiTerm c10 c11).HasValue 8 ∧ (vivaldiTerm c11 c10).HasValue 8 ∧
    termBracket 1 1 (vivaldiTerm c10 c11) = (8, 8) ∧
    termBracket (2 ^ 50) (2 ^ 64) (vivaldiTerm ⟨1, 1, 0⟩ ⟨0, 0, 0⟩) = (1592262918131, 1592262918132) :=
  ⟨by (show (0 : Rat) ≤ _ ∧ _ = _); decide +kernel, by (show (0 : Rat) ≤ _ ∧ _ = _); decide +kernel,
   by decide +kernel, by decide +kernel⟩

/-- non-vacuity of `symmetric_route_reversed`: a 3-link inter-zone route with gateways -/
example : ∃ t', fullAddRoute true [] 1 2 (some 11) (some 13) [5, 6, 7] true = some t' ∧
    (fullLocal t' 2 1).links = [7, 6, 5] ∧ (fullLocal t' 2 1).gwSrc = some 13 := ⟨_, rfl, by decide, by decide⟩

end SgVerif.C24
