import SgVerif.C24.Model
import SgVerif.Common.Proto
import Std.Data.HashMap
open SgVerif.Proto
namespace SgVerif.C24

/-- what the driver accumulates while reading one case (see props/C24/harness.cpp for the line formats) -/
structure St where
  zones   : Std.HashMap Nat (Option Nat × String) := {}     -- zone -> (parent, kind)
  hasKids : Std.HashMap Nat Bool := {}                      -- zone has child zones (hierarchy_ = recursive)
  npZone  : Std.HashMap Nat (Nat × Bool) := {}              -- host/router -> (zone, is host)
  verts   : Std.HashMap Nat (List (Nat × Bool)) := {}       -- zone -> vertices_ (np, is router), creation order
  hosts   : Std.HashMap Nat (List Nat) := {}                -- zone -> hosts_
  gwSet   : Std.HashMap Nat Nat := {}                       -- set_gateway("default", np)
  bypass  : Std.HashMap Nat (List ((Np × Np) × Bypass)) := {}
  lat     : Std.HashMap Nat Int := {}
  loc     : Std.HashMap (Nat × Nat × Nat) (Option Route) := {}
  full    : Std.HashMap Nat (Option Table) := {}            -- declared routes of Full zones (none = add_route asserted)
  star    : Std.HashMap Nat (Option StarTab) := {}          -- declared routes of Star / Vivaldi zones (none = add_route threw)
  coords  : Std.HashMap Nat Coord := {}                     -- Vivaldi coordinates stored by the library (`C` lines)
  tol     : Int := 0

def optNat (s : String) : Option (Option Nat) :=
  if s = "-" then some none else s.toNat?.map some

def natList (l : List String) : Option (List Nat) := l.mapM String.toNat?

def St.addVert (s : St) (z np : Nat) (isRouter : Bool) : St :=
  { s with verts := s.verts.insert z ((s.verts.getD z []) ++ [(np, isRouter)]) }

def St.plat (s : St) : Plat where
  parent := fun z => match s.zones[z]? with
    | some (p, _) => p
    | none => none
  zoneOf := fun np => match s.zones[np]? with
    | some (p, _) => p.getD 0
    | none => match s.npZone[np]? with
      | some (z, _) => z
      | none => 0
  zoneNp := fun z => z
  isZone := fun np => s.zones.contains np
  gateway := fun z => defaultGateway s.gwSet[z]? (s.hosts.getD z []) (s.verts.getD z [])
  prepend := fun z => match s.zones[z]? with
    | some (_, k) => k.startsWith "dijkstra"
    | none => false
  loc := fun z a b => match s.loc[(z, a, b)]? with
    | some r => r
    | none => none
  bypass := fun z => s.bypass.getD z []
  lat := fun l => s.lat.getD l 0
  depth := s.zones.size

def intAbs (x : Int) : Int := if x < 0 then -x else x

/-- `num/den` or an integer -/
def parseRat (s : String) : Option Rat :=
  match s.splitOn "/" with
  | [n] => n.toInt?.map (fun n => (n : Rat))
  | [n, d] => match n.toInt?, d.toNat? with
    | some n, some d => if d = 0 then none else some (mkRat n d)
    | _, _ => none
  | _ => none

/-- the zone's vertices_ as a list of netpoint ids -/
def St.vertIds (s : St) (z : Nat) : List Nat := (s.verts.getD z []).map (·.1)

/-- expected answer of StarZone::get_local_route from the declared routes; outer `none` = nothing to say
(an add_route was rejected), inner `none` = exception / assertion -/
def starExpected (s : St) (z a b : Nat) : Option (Option Route) :=
  match s.star.getD z (some []) with
  | none => none
  | some t =>
    some (match starLocal t (s.vertIds z) (none, none) a b with
      | none => none
      | some (links, gs, gd) => some { links := links, gwSrc := gs, gwDst := gd })

/-- expected answer of VivaldiZone::get_local_route: the Star route + the model's coordinate term.
No netpoint is called `router_…` in the generated platforms: `routerOf` finds nothing. -/
def vivaldiExpected (s : St) (z a b : Nat) : Option (Option VRoute) :=
  match s.star.getD z (some []) with
  | none => none
  | some t => some (vivaldiLocal (fun np => s.zones.contains np) (fun _ => none) (fun np => s.coords[np]?) t (s.vertIds z) a b)

/-- units of a latency: 2^-50 s -/
def latUnit : Nat := 2 ^ 50

/-- resolution of the square-root bracket: 2^-64 (times the denominator of the radicand) ms -/
def sqrtScale : Nat := 2 ^ 64

/-- the observed answer of a Vivaldi zone against the model: same links and gateways, and the observed coordinate term
within the rational bracket of the model's term (resolution ≤ 2^-64 ms), widened by the case's tolerance (rounding of the
library's double arithmetic).  Perfect squares with a dyadic value: bracket = one point, tolerance 0: exact. -/
def vivaldiAgrees (tol : Int) (m : VRoute) (r : Route) : Bool :=
  let (lo, hi) := termBracket latUnit sqrtScale m.term
  m.links == r.links && m.gwSrc == r.gwSrc && m.gwDst == r.gwDst && lo - tol ≤ r.extra && r.extra ≤ hi + tol

def showLinks (l : List Nat) : String := " ".intercalate (l.map toString)

def showRes : Except Err (List Lk × Int) → String
  | .error e => s!"error:{repr e}"
  | .ok (l, t) => s!"{t} {showLinks l}"

/-- expected answer of FullZone::get_local_route from the declared routes (+ the loopback added by do_seal when the
zone has no child zone) -/
def fullExpected (s : St) (z a b : Nat) : Option Route :=
  match s.full.getD z (some []) with
  | none => none
  | some t =>
    match tableGet t a b with
    | some r => some r
    | none =>
      if a = b ∧ s.hasKids.getD z false = false then some { links := [0], gwSrc := none, gwDst := none }
      else some { links := [], gwSrc := none, gwDst := none }

def judge (s : St) (q a : List String) : St × Verdict :=
  match q with
  | ["new", _] => ({}, .ok)
  | ["tol", t] => match t.toInt? with
    | some t => ({ s with tol := t }, .ok)
    | none => (s, .bad)
  | "zone" :: z :: p :: kind :: _ =>
    match z.toNat?, optNat p with
    | some z, some p =>
      let s := { s with zones := s.zones.insert z (p, kind) }
      match p with
      | some p =>
        let s := s.addVert p z false
        ({ s with hasKids := s.hasKids.insert p true }, .ok)
      | none => (s, .ok)
    | _, _ => (s, .bad)
  | "np" :: np :: z :: kind :: _ =>
    match np.toNat?, z.toNat? with
    | some np, some z =>
      let isHost := kind = "h"
      let s := s.addVert z np (!isHost)
      let s := { s with npZone := s.npZone.insert np (z, isHost) }
      let s := if isHost then { s with hosts := s.hosts.insert z ((s.hosts.getD z []) ++ [np]) } else s
      (s, .ok)
    | _, _ => (s, .bad)
  | "link" :: _ => (s, .ok)
  | ["gwset", z, np] =>
    match z.toNat?, np.toNat? with
    | some z, some np => ({ s with gwSet := s.gwSet.insert z np }, .ok)
    | _, _ => (s, .bad)
  | "route" :: z :: src :: dst :: gs :: gd :: sym :: links =>
    match z.toNat?, optNat src, optNat dst, optNat gs, optNat gd, natList links with
    | some z, some src, some dst, some gs, some gd, some links =>
      match s.zones[z]?, src, dst with
      | some (_, "full"), some src, some dst =>
        let t := match s.full.getD z (some []) with
          | none => none
          | some t => fullAddRoute (s.hasKids.getD z false) t src dst gs gd links (sym = "1")
        ({ s with full := s.full.insert z t }, .ok)
      | some (_, kind), src, dst =>
        if kind = "star" ∨ kind = "vivaldi" then
          let t := match s.star.getD z (some []) with
            | none => none
            | some t => starAddRoute (fun np => s.zones.contains np) t src dst gs gd links (sym = "1")
          ({ s with star := s.star.insert z t }, .ok)
        else (s, .ok)
      | _, _, _ => (s, .ok)
    | _, _, _, _, _, _ => (s, .bad)
  | "bypass" :: z :: src :: dst :: gs :: gd :: links =>
    match z.toNat?, src.toNat?, dst.toNat?, optNat gs, optNat gd, natList links with
    | some z, some src, some dst, some gs, some gd, some links =>
      ({ s with bypass := s.bypass.insert z ((s.bypass.getD z []) ++ [((src, dst), { gwSrc := gs, gwDst := gd, links := links })]) },
       .ok)
    | _, _, _, _, _, _ => (s, .bad)
  | ["K", l] =>
    match l.toNat?, a with
    | some l, [t] => match t.toInt? with
      | some t => ({ s with lat := s.lat.insert l t }, .ok)
      | none => (s, .bad)
    | _, _ => (s, .bad)
  | ["C", np] =>
    match np.toNat?, a.mapM parseRat with
    | some np, some [x, y, h] => ({ s with coords := s.coords.insert np { x := x, y := y, h := h } }, .ok)
    | _, _ => (s, .bad)
  | ["G", z] =>
    match z.toNat?, a with
    | some z, [g] =>
      match optNat g with
      | some g =>
        let m := s.plat.gateway z
        (s, if m = g then .ok else .disagree (match m with
          | some m => toString m
          | none => "-"))
      | none => (s, .bad)
    | _, _ => (s, .bad)
  | ["L", z, x, y] =>
    match z.toNat?, x.toNat?, y.toNat? with
    | some z, some x, some y =>
      match a with
      | [e] =>
        if e = "exc" ∨ e = "abort" ∨ e = "timeout" then
          let s' := { s with loc := s.loc.insert (z, x, y) none }
          -- Star / Vivaldi zones: the model must say "assertion / exception" too
          let m : Option String := match s.zones[z]? with
            | some (_, "star") => match starExpected s z x y with
              | some (some r) => some s!"{repr r}"
              | _ => none
            | some (_, "vivaldi") => match vivaldiExpected s z x y with
              | some (some r) => some s!"{repr r}"
              | _ => none
            | _ => none
          match m with
          | some m => (s', .disagree m)
          | none => (s', .ok)
        else (s, .bad)
      | gs :: gd :: t :: links =>
        match optNat gs, optNat gd, t.toInt?, natList links with
        | some gs, some gd, some t, some links =>
          let P := s.plat
          let r : Route := { links := links, gwSrc := gs, gwDst := gd, extra := t - sumLat P links }
          let s' := { s with loc := s.loc.insert (z, x, y) (some r) }
          match s.zones[z]? with
          | some (_, "full") =>
            -- declared routes of a Full zone (incl. the reversed copy of symmetrical ones) against the library
            match fullExpected s z x y with
            | some m => (s', if m = r then .ok else .disagree s!"{repr m}")
            | none => (s', .ok)
          | some (_, "star") =>
            -- declared routes of a Star zone (up / down / loopback lists, duplicates skipped, gateways)
            match starExpected s z x y with
            | some (some m) => (s', if m = r then .ok else .disagree s!"{repr m}")
            | some none => (s', .disagree "exception")
            | none => (s', .ok)
          | some (_, "torus") | some (_, "fattree") =>
            -- the gateways a cluster-like zone returns: ClusterBase's table = the default gateway of a netzone leaf
            let isRouter := fun np => match s.npZone[np]? with
              | some (_, isHost) => !isHost
              | none => false
            let tab := fun np => if s.zones.contains np then P.gateway np else none
            let m := clusterGw isRouter tab x y
            (s', if m = (gs, gd) then .ok else .disagree s!"gateways {repr m}")
          | some (_, "vivaldi") =>
            -- the Star part and the coordinate term, from the coordinates the library stores
            match vivaldiExpected s z x y with
            | some (some m) =>
              (s', if vivaldiAgrees s.tol m r then .ok
                   else .disagree s!"{repr m} term bracket {(termBracket latUnit sqrtScale m.term)} observed {r.extra}")
            | some none => (s', .disagree "exception")
            | none => (s', .ok)
          | _ => (s', .ok)
        | _, _, _, _ => (s, .bad)
      | _ => (s, .bad)
    | _, _, _ => (s, .bad)
  | ["R", x, y] =>
    match x.toNat?, y.toNat? with
    | some x, some y =>
      let P := s.plat
      let model := routeTo P x y
      if a = ["exc"] ∨ a = ["abort"] ∨ a = ["timeout"] then
        match model with
        | .error _ => (s, .ok)
        | .ok _ => (s, .disagree (showRes model))
      else
      match a with
      | t :: links =>
        match t.toInt?, natList links with
        | some t, some links =>
          -- monitor: the property's own predicate on the implementation's answer
          let mon : Option String :=
            match specRouteTo P x y with
            | .error _ => none     -- no specified route: nothing to check (the comparison below reports it)
            | .ok segs =>
              if flatLinks segs ≠ links then
                some s!"route {showLinks links} is not the concatenation in path order {showLinks (flatLinks segs)}"
              else if intAbs (t - (sumLat P links + segsExtra segs)) > s.tol then
                some s!"latency {t} is not the sum {sumLat P links + segsExtra segs}"
              else none
          match mon with
          | some r => (s, .monfail r)
          | none =>
            match model with
            | .ok (ml, mt) =>
              if ml = links ∧ intAbs (mt - t) ≤ s.tol then (s, .ok) else (s, .disagree (showRes model))
            | .error _ => (s, .disagree (showRes model))
        | _, _ => (s, .bad)
      | [] => (s, .bad)
    | _, _ => (s, .bad)
  | _ => (s, .bad)

end SgVerif.C24

def main : IO Unit := SgVerif.Proto.runS ({} : SgVerif.C24.St) SgVerif.C24.judge
