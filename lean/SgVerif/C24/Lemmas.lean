import SgVerif.C24.Model
/-
C24 helper lemmas: list/latency algebra, the loops of `get_interzone_route` against the recursive `specUp/specDown`,
`find_common_ancestors` (index loop + erase) against `splitCommon`.
-/
namespace SgVerif.C24

theorem sumLat_nil (P : Plat) : sumLat P [] = 0 := by simp [sumLat]

theorem sumLat_append (P : Plat) (a b : List Lk) : sumLat P (a ++ b) = sumLat P a + sumLat P b := by
  simp [sumLat, List.sum_append]

theorem sumLat_reverse (P : Plat) (a : List Lk) : sumLat P a.reverse = sumLat P a := by
  induction a with
  | nil => rfl
  | cons x xs ih =>
    rw [List.reverse_cons, sumLat_append, ih]
    simp [sumLat]; omega

theorem flatLinks_nil : flatLinks [] = [] := rfl

theorem flatLinks_append (a b : List Seg) : flatLinks (a ++ b) = flatLinks a ++ flatLinks b := by
  simp [flatLinks]

theorem flatLinks_cons (s : Seg) (b : List Seg) : flatLinks (s :: b) = s.links ++ flatLinks b := by
  simp [flatLinks]

theorem flatLinks_single (s : Seg) : flatLinks [s] = s.links := by
  simp [flatLinks]

theorem segsExtra_append (a b : List Seg) : segsExtra (a ++ b) = segsExtra a + segsExtra b := by
  simp [segsExtra, List.sum_append]

theorem segsLat_nil (P : Plat) : segsLat P [] = 0 := by
  simp [segsLat, flatLinks, segsExtra, sumLat]

theorem segsLat_append (P : Plat) (a b : List Seg) : segsLat P (a ++ b) = segsLat P a + segsLat P b := by
  simp only [segsLat, flatLinks_append, sumLat_append, segsExtra_append]; omega

theorem segsLat_cons (P : Plat) (s : Seg) (b : List Seg) :
    segsLat P (s :: b) = sumLat P s.links + s.extra + segsLat P b := by
  simp only [segsLat, flatLinks_cons, sumLat_append, segsExtra, List.map_cons, List.sum_cons]; omega

theorem segsLat_single (P : Plat) (s : Seg) : segsLat P [s] = sumLat P s.links + s.extra := by
  rw [segsLat_cons, segsLat_nil]; omega

theorem segsLat_loc (P : Plat) (z : Zn) (a b : Np) (r : Route) : segsLat P [.loc z a b r] = routeLat P r := by
  rw [segsLat_single]; rfl

/-- the result of a model function expressed from the segments of the spec: links placed by `place`, latency added -/
def lift (P : Plat) (lat : Int) (place : List Lk → List Lk) : Except Err (List Seg) → Except Err (List Lk × Int)
  | .error e => .error e
  | .ok segs => .ok (place (flatLinks segs), lat + segsLat P segs)

/-- upward loop of get_interzone_route = recursive specUp; the local routes end up *in front of* `links`, in order -/
theorem interzone_up (P : Plat) (np : Np) (path : List Zn) :
    ∀ (gw : Np) (links : List Lk) (lat : Int),
      interzone P np false path gw links lat = lift P lat (· ++ links) (specUp P np path gw) := by
  induction path with
  | nil =>
    intro gw links lat
    unfold interzone specUp
    by_cases hz : P.zoneOf np = P.zoneOf gw
    · by_cases hg : np = gw
      · simp [hg, lift, flatLinks_nil, segsLat_nil]
      · simp only [hz, hg, ne_eq, not_true_eq_false, not_false_eq_true, if_true, if_false, Bool.false_eq_true]
        cases hl : P.loc (P.zoneOf gw) np gw with
        | none => simp [lift]
        | some r => simp [lift, flatLinks_single, Seg.links, segsLat_loc]
    · simp [hz, lift]
  | cons z rest ih =>
    intro gw links lat
    unfold interzone specUp
    by_cases hz : P.zoneOf np = P.zoneOf gw
    · by_cases hg : np = gw
      · simp [hg, lift, flatLinks_nil, segsLat_nil]
      · simp only [hz, hg, ne_eq, not_true_eq_false, not_false_eq_true, if_true, if_false, Bool.false_eq_true]
        cases hl : P.loc (P.zoneOf gw) np gw with
        | none => simp [lift]
        | some r => simp [lift, flatLinks_single, Seg.links, segsLat_loc]
    · simp only [hz, ne_eq, not_false_eq_true, if_true, if_false, Bool.false_eq_true]
      cases hl : P.loc (P.zoneOf gw) (P.zoneNp z) gw with
      | none => simp [lift]
      | some r =>
        simp only []
        cases hi : inferGw P r.gwSrc (P.zoneNp z) z with
        | none => simp [lift]
        | some g =>
          simp only []
          rw [ih g (r.links ++ links) (lat + routeLat P r)]
          cases hs : specUp P np rest g with
          | error e => simp [lift]
          | ok segs =>
            simp only [lift, flatLinks_append, flatLinks_single, Seg.links, segsLat_append, segsLat_loc,
              List.append_assoc]
            congr 2; omega

/-- downward loop of get_interzone_route = recursive specDown; the local routes are appended to `links` -/
theorem interzone_down (P : Plat) (np : Np) (path : List Zn) :
    ∀ (gw : Np) (links : List Lk) (lat : Int),
      interzone P np true path gw links lat = lift P lat (links ++ ·) (specDown P np path gw) := by
  induction path with
  | nil =>
    intro gw links lat
    unfold interzone specDown
    by_cases hz : P.zoneOf np = P.zoneOf gw
    · by_cases hg : np = gw
      · simp [hg, lift, flatLinks_nil, segsLat_nil]
      · simp only [hz, hg, ne_eq, not_true_eq_false, not_false_eq_true, if_true, if_false]
        cases hl : P.loc (P.zoneOf gw) gw np with
        | none => simp [lift]
        | some r => simp [lift, flatLinks_single, Seg.links, segsLat_loc]
    · simp [hz, lift]
  | cons z rest ih =>
    intro gw links lat
    unfold interzone specDown
    by_cases hz : P.zoneOf np = P.zoneOf gw
    · by_cases hg : np = gw
      · simp [hg, lift, flatLinks_nil, segsLat_nil]
      · simp only [hz, hg, ne_eq, not_true_eq_false, not_false_eq_true, if_true, if_false]
        cases hl : P.loc (P.zoneOf gw) gw np with
        | none => simp [lift]
        | some r => simp [lift, flatLinks_single, Seg.links, segsLat_loc]
    · simp only [hz, ne_eq, not_false_eq_true, if_true, if_false]
      cases hl : P.loc (P.zoneOf gw) gw (P.zoneNp z) with
      | none => simp [lift]
      | some r =>
        simp only []
        cases hi : inferGw P r.gwDst (P.zoneNp z) z with
        | none => simp [lift]
        | some g =>
          simp only []
          rw [ih g (links ++ r.links) (lat + routeLat P r)]
          cases hs : specDown P np rest g with
          | error e => simp [lift]
          | ok segs =>
            simp only [lift, flatLinks_cons, Seg.links, segsLat_cons, Seg.extra, List.append_assoc]
            congr 2
            simp only [routeLat]; omega

/- ---------------------------------------------------------------- find_common_ancestors -/

/-- length of the common prefix -/
def commonLen : List Zn → List Zn → Nat
  | a :: as, b :: bs => if a = b then commonLen as bs + 1 else 0
  | _, _ => 0

theorem caIndex_eq (as bs : List Zn) : ∀ i, caIndex as bs (i+1) i = i + commonLen as bs := by
  induction as generalizing bs with
  | nil => intro i; simp [caIndex, commonLen]
  | cons x xs ih =>
    intro i
    cases bs with
    | nil => simp [caIndex, commonLen]
    | cons y ys =>
      by_cases h : x = y
      · subst h
        simp only [caIndex, ne_eq, not_true_eq_false, if_false, commonLen, if_true]
        rw [ih ys (i+1)]; omega
      · simp [caIndex, commonLen, h]

theorem commonLen_le (as bs : List Zn) : commonLen as bs ≤ as.length := by
  induction as generalizing bs with
  | nil => simp [commonLen]
  | cons x xs ih =>
    cases bs with
    | nil => simp [commonLen]
    | cons y ys =>
      simp only [commonLen]
      split
      · have := ih ys; simp; omega
      · simp

theorem splitCommon_eq (as bs : List Zn) : ∀ a,
    splitCommon a as bs = ((a :: as)[commonLen as bs]?.getD a, as.drop (commonLen as bs), bs.drop (commonLen as bs)) := by
  induction as generalizing bs with
  | nil => intro a; cases bs <;> simp [splitCommon, commonLen]
  | cons x xs ih =>
    intro a
    cases bs with
    | nil => simp [splitCommon, commonLen]
    | cons y ys =>
      by_cases h : x = y
      · subst h
        simp only [splitCommon, if_true, commonLen]
        rw [ih ys x]
        have := commonLen_le xs ys
        have hlt : commonLen xs ys < (x :: xs).length := by simp; omega
        simp [List.getElem?_eq_getElem hlt]
      · simp [splitCommon, commonLen, h]

theorem commonLen_getElem (as bs : List Zn) : ∀ a, (a :: as)[commonLen as bs]? = (a :: bs)[commonLen as bs]? := by
  induction as generalizing bs with
  | nil => intro a; simp [commonLen]
  | cons x xs ih =>
    intro a
    cases bs with
    | nil => simp [commonLen]
    | cons y ys =>
      by_cases h : x = y
      · subst h
        simp only [commonLen, if_true, List.getElem?_cons_succ]
        exact ih ys x
      · simp [commonLen, h]

theorem nodup_next : ∀ (l : List Zn) (k : Nat) (a z : Zn) (rest : List Zn), l.Nodup → l[k]? = some a →
    l.drop (k+1) = z :: rest → z ≠ a := by
  intro l
  induction l with
  | nil => intro k a z rest _ ha; simp at ha
  | cons x xs ih =>
    intro k a z rest hn ha hd
    cases k with
    | zero =>
      simp at ha hd
      subst ha hd
      have := (List.nodup_cons.mp hn).1
      intro h; subst h; simp at this
    | succ k =>
      simp only [List.getElem?_cons_succ] at ha
      simp only [List.drop_succ_cons] at hd
      exact ih k a z rest (List.nodup_cons.mp hn).2 ha hd

/-- the index loop + the two `erase` of find_common_ancestors compute what the simultaneous descent computes -/
theorem findCA_eq (P : Plat) (src dst : Np) (hne : P.zoneOf src ≠ P.zoneOf dst) :
    findCommonAncestors P src dst (allEnglobing P src) (allEnglobing P dst) =
      match specAncestors P src dst with
      | .error e => .error e
      | .ok (ca, sp, dp) => .ok { ca := ca, sa := frontOr sp ca, da := frontOr dp ca, sp := sp, dp := dp } := by
  unfold findCommonAncestors specAncestors
  simp only [hne, if_false]
  cases hs : allEnglobing P src with
  | nil => simp
  | cons s0 ss =>
    cases hd : allEnglobing P dst with
    | nil => simp
    | cons d0 ds =>
      by_cases h0 : s0 = d0
      · subst h0
        have hk := caIndex_eq ss ds 0
        have hle := commonLen_le ss ds
        have hlt : commonLen ss ds < (s0 :: ss).length := by simp; omega
        simp only [ne_eq, not_true_eq_false, if_false, caIndex, hk, Nat.zero_add, splitCommon_eq,
          List.getElem?_eq_getElem hlt, Option.getD_some, List.drop_succ_cons]
      · simp [h0]

theorem specAnc_src_ne (P : Plat) (src dst : Np) (ca z : Zn) (rest dp : List Zn)
    (hn : (allEnglobing P src).Nodup) (h : specAncestors P src dst = .ok (ca, z :: rest, dp)) : z ≠ ca := by
  unfold specAncestors at h
  split at h
  · cases h
  · split at h
    · rename_i s0 ss d0 ds hs hd
      split at h
      · cases h
      · rename_i h0
        simp only [ne_eq, Decidable.not_not] at h0
        subst h0
        rw [splitCommon_eq] at h
        injection h with h
        simp only [Prod.mk.injEq] at h
        have hle := commonLen_le ss ds
        have hlt : commonLen ss ds < (s0 :: ss).length := by simp; omega
        rw [hs] at hn
        apply nodup_next (s0 :: ss) (commonLen ss ds) ca z rest hn
        · rw [List.getElem?_eq_getElem hlt]; rw [List.getElem?_eq_getElem hlt] at h; simpa using h.1
        · simpa using h.2.1
    · cases h

theorem specAnc_dst_ne (P : Plat) (src dst : Np) (ca z : Zn) (rest sp : List Zn)
    (hn : (allEnglobing P dst).Nodup) (h : specAncestors P src dst = .ok (ca, sp, z :: rest)) : z ≠ ca := by
  unfold specAncestors at h
  split at h
  · cases h
  · split at h
    · rename_i s0 ss d0 ds hs hd
      split at h
      · cases h
      · rename_i h0
        simp only [ne_eq, Decidable.not_not] at h0
        subst h0
        rw [splitCommon_eq] at h
        injection h with h
        simp only [Prod.mk.injEq] at h
        have hle := commonLen_le ss ds
        have hlt : commonLen ss ds < (s0 :: ss).length := by simp; omega
        rw [hd] at hn
        apply nodup_next (s0 :: ds) (commonLen ss ds) ca z rest hn
        · rw [← commonLen_getElem]; rw [List.getElem?_eq_getElem hlt]; rw [List.getElem?_eq_getElem hlt] at h
          simpa using h.1
        · simpa using h.2.2
    · cases h

theorem specAnc_same (P : Plat) (src dst : Np) (h : P.zoneOf src = P.zoneOf dst) :
    specAncestors P src dst = .ok (P.zoneOf src, [], []) := by
  simp [specAncestors, h]

theorem findCA_same (P : Plat) (src dst : Np) (h : P.zoneOf src = P.zoneOf dst) (sp dp : List Zn) :
    findCommonAncestors P src dst sp dp =
      .ok { ca := P.zoneOf src, sa := P.zoneOf src, da := P.zoneOf src, sp := sp, dp := dp } := by
  simp [findCommonAncestors, h]

/-- hypothesis of the main lemma about the gateways of bypass routes, phrased on the search result -/
def BypassOk (P : Plat) : Prop :=
  ∀ z src dst key b g, bypassFind P z src dst = .via key b → b.gwDst = some g → P.prepend (P.zoneOf g) = false

/-- the part of get_global_route_with_netzones after the bypass test, when src and dst are in different zones -/
theorem global_cross (P : Plat) (src dst : Np) (links : List Lk) (lat : Int) (ca : Zn) (sp dp : List Zn)
    (hsp : ∀ z rest, sp = z :: rest → z ≠ ca) (hdp : ∀ z rest, dp = z :: rest → z ≠ ca) :
    crossRoute P src dst links lat { ca := ca, sa := frontOr sp ca, da := frontOr dp ca, sp := sp, dp := dp } =
    lift P lat (links ++ ·) (specCross P src dst ca sp dp) := by
  unfold crossRoute specCross
  cases sp with
  | nil =>
    cases dp with
    | nil =>
      simp only [frontOr, ne_eq, not_true_eq_false, if_false]
      cases P.loc ca src dst with
      | none => simp [lift]
      | some r => simp [lift, flatLinks_single, Seg.links, segsLat_loc]
    | cons zd rd =>
      have hd := hdp zd rd rfl
      simp only [frontOr, ne_eq, not_true_eq_false, if_false, hd, not_false_eq_true, if_true, List.tail_cons]
      cases P.loc ca src (P.zoneNp zd) with
      | none => simp [lift]
      | some r =>
        simp only []
        cases r.gwDst with
        | none => simp [lift]
        | some g =>
          simp only [interzone_down]
          cases specDown P dst rd g with
          | error e => simp [lift]
          | ok d =>
            simp only [lift, List.nil_append, flatLinks_cons, Seg.links, segsLat_cons, Seg.extra, List.append_assoc]
            congr 2; simp only [routeLat]; omega
  | cons zs rs =>
    have hs := hsp zs rs rfl
    cases dp with
    | nil =>
      simp only [frontOr, ne_eq, not_true_eq_false, if_false, hs, not_false_eq_true, if_true, List.tail_cons]
      cases P.loc ca (P.zoneNp zs) dst with
      | none => simp [lift]
      | some r =>
        simp only []
        cases r.gwSrc with
        | none => simp [lift]
        | some g =>
          simp only [interzone_up]
          cases specUp P src rs g with
          | error e => simp [lift]
          | ok u =>
            simp only [lift, List.append_nil, flatLinks_append, flatLinks_single, Seg.links, segsLat_append,
              segsLat_loc, List.append_assoc]
            congr 2; omega
    | cons zd rd =>
      have hd := hdp zd rd rfl
      simp only [frontOr, ne_eq, hd, hs, not_false_eq_true, if_true, List.tail_cons]
      cases P.loc ca (P.zoneNp zs) (P.zoneNp zd) with
      | none => simp [lift]
      | some r =>
        simp only []
        cases r.gwSrc with
        | none => simp [lift]
        | some g =>
          simp only [interzone_up]
          cases specUp P src rs g with
          | error e => simp [lift]
          | ok u =>
            simp only [lift, List.append_nil]
            cases r.gwDst with
            | none => simp
            | some g2 =>
              simp only [interzone_down]
              cases specDown P dst rd g2 with
              | error e => simp [lift]
              | ok d =>
                simp only [lift, List.nil_append, flatLinks_append, flatLinks_cons, Seg.links, segsLat_append,
                  segsLat_cons, Seg.extra, List.append_assoc]
                congr 2; simp only [routeLat]; omega

/-- Main lemma: the iterative code with its in/out accumulators = the recursive specification, for every fuel,
every accumulated prefix `links`/`lat`, for both variants of the same-zone case.  With `fx = true` (the code as it
is now) there is no side condition; the pre-fix variant needs `BypassOk` and the side condition on `links`
(what the front insertion of Dijkstra zones needs, see `Props`). -/
theorem globalRouteV_spec (fx : Bool) (P : Plat) (hn : ∀ np, (allEnglobing P np).Nodup) (H : fx = true ∨ BypassOk P) :
    ∀ (f : Nat) (src dst : Np) (links : List Lk) (lat : Int),
      (fx = true ∨ links = [] ∨ P.prepend (P.zoneOf src) = false) →
      globalRouteV fx P f src dst links lat = lift P lat (links ++ ·) (specRoute P f src dst) := by
  intro f
  induction f with
  | zero => intro src dst links lat _; simp [globalRouteV, specRoute, lift]
  | succ f ih =>
    intro src dst links lat hpre
    unfold globalRouteV specRoute
    -- the part shared by both cases: what happens once the bypass search result is known
    have viaCase : ∀ (ca : Zn) (key : Np × Np) (b : Bypass), bypassFind P ca src dst = .via key b →
        (let first : Except Err (List Lk × Int) :=
            if src ≠ key.1 then
              match b.gwSrc with
              | none => .error .bypassNoGw
              | some g => globalRouteV fx P f src g links lat
            else .ok (links, lat)
         match first with
         | .error e => .error e
         | .ok (l1, t1) =>
           let l2 := l1 ++ b.links
           let t2 := t1 + sumLat P b.links
           if dst ≠ key.2 then
             match b.gwDst with
             | none => .error .bypassNoGw
             | some g => globalRouteV fx P f g dst l2 t2
           else .ok (l2, t2)) =
        lift P lat (links ++ ·)
          (let first : Except Err (List Seg) :=
              if src ≠ key.1 then
                match b.gwSrc with
                | none => .error .bypassNoGw
                | some g => specRoute P f src g
              else .ok []
           match first with
           | .error e => .error e
           | .ok s1 =>
             if dst ≠ key.2 then
               match b.gwDst with
               | none => .error .bypassNoGw
               | some g =>
                 match specRoute P f g dst with
                 | .error e => .error e
                 | .ok s2 => .ok (s1 ++ .byp ca key b :: s2)
             else .ok (s1 ++ [.byp ca key b])) := by
      intro ca key b hb
      -- second half, given the first half's result in spec form
      have second : ∀ (s1 : List Seg),
          (let l2 := (links ++ flatLinks s1) ++ b.links
           let t2 := (lat + segsLat P s1) + sumLat P b.links
           if dst ≠ key.2 then
             match b.gwDst with
             | none => (.error .bypassNoGw : Except Err (List Lk × Int))
             | some g => globalRouteV fx P f g dst l2 t2
           else .ok (l2, t2)) =
          lift P lat (links ++ ·)
            (if dst ≠ key.2 then
               match b.gwDst with
               | none => .error .bypassNoGw
               | some g =>
                 match specRoute P f g dst with
                 | .error e => .error e
                 | .ok s2 => .ok (s1 ++ .byp ca key b :: s2)
             else .ok (s1 ++ [.byp ca key b])) := by
        intro s1
        by_cases hd : dst = key.2
        · simp only [hd, ne_eq, not_true_eq_false, if_false, lift, flatLinks_append, flatLinks_single, Seg.links,
            segsLat_append, segsLat_single, Seg.extra, List.append_assoc]
          congr 2; omega
        · simp only [hd, ne_eq, not_false_eq_true, if_true]
          cases hg : b.gwDst with
          | none => simp [lift]
          | some g =>
            simp only []
            rw [ih g dst _ _ (H.elim Or.inl (fun H => Or.inr (Or.inr (H ca src dst key b g hb hg))))]
            cases specRoute P f g dst with
            | error e => simp [lift]
            | ok s2 =>
              simp only [lift, flatLinks_append, flatLinks_cons, Seg.links, segsLat_append, segsLat_cons,
                Seg.extra, List.append_assoc]
              congr 2; omega
      by_cases hs : src = key.1
      · simp only [hs, ne_eq, not_true_eq_false, if_false]
        have := second []
        simp only [flatLinks_nil, List.append_nil, segsLat_nil, Int.add_zero, List.nil_append] at this
        simpa [hs] using this
      · simp only [hs, ne_eq, not_false_eq_true, if_true]
        cases hg : b.gwSrc with
        | none => simp [lift]
        | some g =>
          simp only []
          rw [ih src g links lat hpre]
          cases specRoute P f src g with
          | error e => simp [lift]
          | ok s1 =>
            simp only [lift]
            exact second s1
    by_cases hz : P.zoneOf src = P.zoneOf dst
    · -- same zone
      rw [findCA_same P src dst hz, specAnc_same P src dst hz]
      simp only []
      cases hb : bypassFind P (P.zoneOf src) src dst with
      | direct b =>
        simp only [lift, flatLinks_single, Seg.links, segsLat_single, Seg.extra]
        congr 2; omega
      | via key b => exact viaCase (P.zoneOf src) key b hb
      | none =>
        simp only [hz, if_true]
        rw [← hz]
        cases P.loc (P.zoneOf src) src dst with
        | none => simp [lift]
        | some r =>
          simp only [lift, flatLinks_single, Seg.links, segsLat_loc]
          rcases hpre with hf | hl | hp
          · simp [hf]
          · subst hl; simp
          · simp [hp]
    · -- different zones
      rw [findCA_eq P src dst hz]
      cases hsa : specAncestors P src dst with
      | error e => simp [lift]
      | ok t =>
        obtain ⟨ca, sp, dp⟩ := t
        simp only []
        cases hb : bypassFind P ca src dst with
        | direct b =>
          simp only [lift, flatLinks_single, Seg.links, segsLat_single, Seg.extra]
          congr 2; omega
        | via key b => exact viaCase ca key b hb
        | none =>
          simp only [hz, if_false]
          have hc := global_cross P src dst links lat ca sp dp
            (fun z rest h => specAnc_src_ne P src dst ca z rest dp (hn src) (h ▸ hsa))
            (fun z rest h => specAnc_dst_ne P src dst ca z rest sp (hn dst) (h ▸ hsa))
          exact hc

/-- the code as it is now: no hypothesis on bypass routes, no side condition on the accumulated prefix -/
theorem globalRoute_spec (P : Plat) (hn : ∀ np, (allEnglobing P np).Nodup)
    (f : Nat) (src dst : Np) (links : List Lk) (lat : Int) :
    globalRoute P f src dst links lat = lift P lat (links ++ ·) (specRoute P f src dst) :=
  globalRouteV_spec true P hn (Or.inl rfl) f src dst links lat (Or.inl rfl)

end SgVerif.C24

/- ================================================================ Vivaldi zones: the coordinate term given by the model -/
namespace SgVerif.C24

/-- the Route (`Plat.loc` entry) made of an answer of the Vivaldi model, its term evaluated by `ρ` -/
def VRoute.toRoute (ρ : VTerm → Int) (m : VRoute) : Route :=
  { links := m.links, gwSrc := m.gwSrc, gwDst := m.gwDst, extra := ρ m.term }

/-- the Vivaldi zones of `P` answer what the model of VivaldiZone::get_local_route answers (`V.local`: links of the
Star part, gateways, exception when an end has no coordinates …), and what they add to the latency beyond their links is
the model's coordinate term `vivaldiTerm (coords src) (coords dst)` evaluated by `ρ` (the numeric evaluation of
`(√rad + hsum) / 1000` in latency units — the only thing left abstract). -/
def FollowsVivaldi (P : Plat) (V : Viv) (ρ : VTerm → Int) : Prop :=
  ∀ z, V.isViv z = true → ∀ a b, P.loc z a b = (V.local P.isZone z a b).map (VRoute.toRoute ρ)

/-- no other zone adds anything to the latency beyond its links -/
def OnlyVivaldiAdds (P : Plat) (V : Viv) : Prop :=
  ∀ z a b r, V.isViv z = false → P.loc z a b = some r → r.extra = 0

theorem vivaldiLocal_term (isZone : Np → Bool) (routerOf : Np → Option Np) (coords : Np → Option Coord)
    (t : StarTab) (verts : List Np) (a b : Np) (m : VRoute)
    (h : vivaldiLocal isZone routerOf coords t verts a b = some m) :
    ∃ ca cb, coords a = some ca ∧ coords b = some cb ∧ m.term = vivaldiTerm ca cb := by
  unfold vivaldiLocal at h
  simp only at h
  split at h
  · cases h
  · split at h
    · rename_i ca cb hca hcb
      cases h
      exact ⟨ca, cb, hca, hcb, rfl⟩
    · cases h

/-- what a declared segment adds beyond its links is the model's term of that segment (0 outside Vivaldi zones) -/
theorem seg_extra_eq (P : Plat) (V : Viv) (ρ : VTerm → Int) (hV : FollowsVivaldi P V ρ) (hN : OnlyVivaldiAdds P V)
    (s : Seg) (hs : s.valid P) :
    s.extra = match s.vterm V with
      | some t => ρ t
      | none => 0 := by
  cases s with
  | byp z k b => rfl
  | loc z a b r =>
    simp only [Seg.valid] at hs
    cases hz : V.isViv z with
    | false =>
      simp only [Seg.vterm, hz, Bool.false_eq_true, if_false, Seg.extra]
      exact hN z a b r hz hs
    | true =>
      have h1 := hV z hz a b
      rw [hs] at h1
      cases hm : V.local P.isZone z a b with
      | none => rw [hm] at h1; cases h1
      | some m =>
        rw [hm] at h1
        simp only [Option.map_some, Option.some.injEq] at h1
        obtain ⟨ca, cb, hca, hcb, ht⟩ := vivaldiLocal_term _ _ _ _ _ _ _ _ hm
        simp only [Seg.vterm, hz, if_true, hca, hcb, Seg.extra]
        rw [h1, ← ht]; rfl

theorem segsExtra_eq_vivTerms (P : Plat) (V : Viv) (ρ : VTerm → Int) (hV : FollowsVivaldi P V ρ)
    (hN : OnlyVivaldiAdds P V) (segs : List Seg) (hs : ∀ s ∈ segs, s.valid P) :
    segsExtra segs = ((vivTerms V segs).map ρ).sum := by
  induction segs with
  | nil => rfl
  | cons s ss ih =>
    have h1 := seg_extra_eq P V ρ hV hN s (hs s (by simp))
    have h2 := ih (fun x hx => hs x (by simp [hx]))
    simp only [segsExtra, List.map_cons, List.sum_cons] at *
    simp only [vivTerms, List.filterMap_cons]
    cases hv : s.vterm V with
    | none => simp only [hv] at h1 ⊢; rw [h1, h2]; simp [vivTerms]
    | some t => simp only [hv] at h1 ⊢; rw [h1, h2]; simp [vivTerms]

/-- every term of `vivTerms` is the model's term of a Vivaldi segment of the route -/
theorem vivTerms_mem (V : Viv) (segs : List Seg) (t : VTerm) (h : t ∈ vivTerms V segs) :
    ∃ z a b r ca cb, Seg.loc z a b r ∈ segs ∧ V.isViv z = true ∧ V.coords a = some ca ∧ V.coords b = some cb ∧
      t = vivaldiTerm ca cb := by
  simp only [vivTerms, List.mem_filterMap] at h
  obtain ⟨s, hs, hst⟩ := h
  cases s with
  | byp z k b => simp [Seg.vterm] at hst
  | loc z a b r =>
    simp only [Seg.vterm] at hst
    split at hst
    · rename_i hz
      split at hst
      · rename_i ca cb hca hcb
        cases hst
        exact ⟨z, a, b, r, ca, cb, hs, hz, hca, hcb, rfl⟩
      · cases hst
    · cases hst

/-- (Σ xᵢ : Int) / U = Σ (xᵢ / U) over the rationals -/
theorem ratCast_sum_div {α : Type} (l : List α) (g : α → Int) (U : Nat) :
    (((l.map g).sum : Int) : Rat) / U = (l.map (fun x => (g x : Rat) / U)).sum := by
  induction l with
  | nil => simp only [List.map_nil, List.sum_nil]; grind
  | cons x xs ih =>
    simp only [List.map_cons, List.sum_cons]
    rw [Rat.intCast_add, ← ih]
    grind

theorem sum_between {α : Type} (l : List α) (g lo hi : α → Int) (ε : Int)
    (h : ∀ x ∈ l, lo x - ε ≤ g x ∧ g x ≤ hi x + ε) :
    (l.map lo).sum - l.length * ε ≤ (l.map g).sum ∧ (l.map g).sum ≤ (l.map hi).sum + l.length * ε := by
  induction l with
  | nil => simp
  | cons x xs ih =>
    have h1 := h x (by simp)
    have h2 := ih (fun y hy => h y (by simp [hy]))
    simp only [List.map_cons, List.sum_cons, List.length_cons]
    have e : ((xs.length + 1 : Nat) : Int) * ε = xs.length * ε + ε := by
      rw [Int.natCast_add, Int.add_mul]; simp
    rw [e]
    omega

/- ---- the rational bracket of a term contains every value of the term -/

theorem rat_le_of_sq_le (a b : Rat) (hb : 0 ≤ b) (h : a * a ≤ b * b) : a ≤ b := by
  apply Classical.byContradiction
  intro hn
  have hlt : b < a := by grind
  have ha : 0 < a := by grind
  have h1 : b * b ≤ b * a := Rat.mul_le_mul_of_nonneg_left (Rat.le_of_lt hlt) hb
  have h2 : a * b < a * a := Rat.mul_lt_mul_of_pos_left hlt ha
  grind

theorem rat_lt_of_sq_lt (a b : Rat) (ha : 0 ≤ a) (h : a * a < b * b) (hb : 0 ≤ b) : a < b := by
  apply Classical.byContradiction
  intro hn
  have hle : b ≤ a := by grind
  have h1 : b * b ≤ b * a := Rat.mul_le_mul_of_nonneg_left hle hb
  have h2 : a * b ≤ a * a := Rat.mul_le_mul_of_nonneg_left hle ha
  grind

/-- `x = s · (den · m)` squares to the integer `n · den · m²` whose integer square root the bracket uses -/
theorem scaled_sq (q s : Rat) (m : Nat) (hq : s * s = q) :
    (s * ((q.den * m : Nat) : Rat)) * (s * ((q.den * m : Nat) : Rat)) =
      ((q.num.toNat * q.den * (m * m) : Nat) : Rat) := by
  have hq0 : 0 ≤ q := by
    rw [← hq]
    rcases Rat.le_total (a := 0) (b := s) with h | h
    · exact Rat.mul_nonneg h h
    · have : 0 ≤ -s := by grind
      have := Rat.mul_nonneg this this
      grind
  have hn : 0 ≤ q.num := Rat.num_nonneg.mpr hq0
  have e1 : ((q.num.toNat : Nat) : Rat) = (q.num : Rat) := by
    rw [← Rat.intCast_natCast, Int.toNat_of_nonneg hn]
  have e2 : q * (q.den : Rat) = (q.num : Rat) := by
    have h := Rat.mkRat_eq_div q.num q.den
    rw [Rat.mkRat_self] at h
    have hd : ((q.den : Nat) : Rat) ≠ 0 := by
      have := q.den_pos
      simp only [ne_eq, Rat.natCast_eq_zero_iff]; omega
    have := Rat.div_mul_cancel (a := (q.num : Rat)) hd
    rw [← h] at this
    exact this
  simp only [Rat.natCast_mul, e1]
  rw [← e2, ← hq]
  grind

theorem sqrtBracket_sound (m : Nat) (hm : 0 < m) (q s : Rat) (hs : 0 ≤ s) (hq : s * s = q) :
    (sqrtBracket m q).1 ≤ s ∧ s ≤ (sqrtBracket m q).2 := by
  have hx := scaled_sq q s m hq
  have hD : (0 : Rat) < ((q.den * m : Nat) : Rat) :=
    Rat.natCast_pos.mpr (Nat.mul_pos q.den_pos hm)
  generalize hDd : ((q.den * m : Nat) : Rat) = D at hx hD
  generalize hN : q.num.toNat * q.den * (m * m) = N at hx
  have hx0 : 0 ≤ s * D := Rat.mul_nonneg hs (Rat.le_of_lt hD)
  have hlo : ((Nat.sqrt N : Nat) : Rat) ≤ s * D := by
    apply rat_le_of_sq_le _ _ hx0
    rw [hx, ← Rat.natCast_mul]
    exact Rat.natCast_le_natCast.mpr (Nat.sqrt_le N)
  have hhi : s * D < ((Nat.sqrt N + 1 : Nat) : Rat) := by
    apply rat_lt_of_sq_lt _ _ hx0 _ Rat.natCast_nonneg
    rw [hx, ← Rat.natCast_mul]
    exact Rat.natCast_lt_natCast.mpr (Nat.lt_succ_sqrt N)
  have key : ∀ (c : Rat), c ≤ s * D → c / D ≤ s := by
    intro c hc
    rw [Rat.div_def]
    have := Rat.mul_le_mul_of_nonneg_right hc (Rat.le_of_lt (Rat.inv_pos.mpr hD))
    have e : s * D * D⁻¹ = s := by
      rw [Rat.mul_assoc, Rat.mul_inv_cancel _ (by grind), Rat.mul_one]
    rw [e] at this; exact this
  have key2 : ∀ (c : Rat), s * D ≤ c → s ≤ c / D := by
    intro c hc
    rw [Rat.div_def]
    have := Rat.mul_le_mul_of_nonneg_right hc (Rat.le_of_lt (Rat.inv_pos.mpr hD))
    have e : s * D * D⁻¹ = s := by
      rw [Rat.mul_assoc, Rat.mul_inv_cancel _ (by grind), Rat.mul_one]
    rw [e] at this; exact this
  unfold sqrtBracket
  simp only [hN, hDd]
  split
  · rename_i heq
    -- perfect square: s · D = √N exactly
    have hle : s * D ≤ ((Nat.sqrt N : Nat) : Rat) := by
      apply rat_le_of_sq_le _ _ Rat.natCast_nonneg
      rw [hx, ← Rat.natCast_mul, heq]
      exact Rat.le_refl
    exact ⟨key _ hlo, key2 _ hle⟩
  · exact ⟨key _ hlo, key2 _ (Rat.le_of_lt hhi)⟩

/-- **the bracket the driver compares the observed term with contains every value of the model's term**:
if `v` seconds is the value of the term (`v·1000 - hsum` is the non-negative square root of `rad`), then
`lo ≤ v · unit ≤ hi` for `(lo, hi) = termBracket unit m term` -/
theorem termBracket_sound (unit m : Nat) (hm : 0 < m) (t : VTerm) (v : Rat) (hv : t.HasValue v) :
    ((termBracket unit m t).1 : Rat) ≤ v * unit ∧ v * unit ≤ ((termBracket unit m t).2 : Rat) := by
  obtain ⟨h0, hsq⟩ := hv
  obtain ⟨hlo, hhi⟩ := sqrtBracket_sound m hm t.rad (v * 1000 - t.hsum) h0 hsq
  have hu : (0 : Rat) ≤ (unit : Rat) := Rat.natCast_nonneg
  unfold termBracket
  simp only
  constructor
  · refine Rat.le_trans (Rat.floor_le _) ?_
    have e : v * (unit : Rat) = ((v * 1000 - t.hsum) + t.hsum) / 1000 * unit := by grind
    rw [e]
    apply Rat.mul_le_mul_of_nonneg_right _ hu
    grind
  · refine Rat.le_trans ?_ Rat.le_ceil
    have e : v * (unit : Rat) = ((v * 1000 - t.hsum) + t.hsum) / 1000 * unit := by grind
    rw [e]
    apply Rat.mul_le_mul_of_nonneg_right _ hu
    grind

/- ================================================================ which gateways the composition consults
   `get_interzone_route` / `get_global_route_with_netzones` take the gateways from the zone's local answer
   (`route.gw_src_` / `route.gw_dst_`: for Torus / FatTree / Dragonfly zones with netzone leaves, the entry of
   ClusterBase's gateway table `get_gateway(id)`; for Star / Vivaldi zones, the gateway declared with the route …) and
   look at the NetZoneImpl default gateway (`get_gateway()`, `seal`'s rules) only when the answer has none. -/

/-- two platforms that differ at most by the zones' default gateways -/
structure SameButGateway (P Q : Plat) : Prop where
  parent : Q.parent = P.parent
  zoneOf : Q.zoneOf = P.zoneOf
  zoneNp : Q.zoneNp = P.zoneNp
  isZone : Q.isZone = P.isZone
  prepend : Q.prepend = P.prepend
  loc : Q.loc = P.loc
  bypass : Q.bypass = P.bypass
  lat : Q.lat = P.lat
  depth : Q.depth = P.depth

/-- every local answer names the gateway of an end that is a netzone (true of the routes between the leaves of a
cluster-like zone: `fill_leaf_from_cb` asserts that a netzone leaf has a gateway; and of declared zone routes) -/
def GatewaysDeclared (P : Plat) : Prop :=
  ∀ z a b r, P.loc z a b = some r →
    (P.isZone a = true → r.gwSrc ≠ none) ∧ (P.isZone b = true → r.gwDst ≠ none)

theorem inferGw_same (P Q : Plat) (h : SameButGateway P Q) (d : Option Np) (cur : Np) (z : Zn)
    (hd : P.isZone cur = true → d ≠ none) : inferGw Q d cur z = inferGw P d cur z := by
  unfold inferGw
  cases d with
  | some x => rfl
  | none =>
    rw [h.isZone]
    cases hc : P.isZone cur with
    | true => exact absurd rfl (hd hc)
    | false => simp

theorem sumLat_same (P Q : Plat) (h : SameButGateway P Q) (l : List Lk) : sumLat Q l = sumLat P l := by
  simp [sumLat, h.lat]

theorem routeLat_same (P Q : Plat) (h : SameButGateway P Q) (r : Route) : routeLat Q r = routeLat P r := by
  simp [routeLat, sumLat_same P Q h]

theorem upPath_same (P Q : Plat) (h : SameButGateway P Q) : ∀ (n : Nat) (z : Zn), upPath Q n z = upPath P n z := by
  intro n
  induction n with
  | zero => intro z; rfl
  | succ n ih =>
    intro z
    simp only [upPath, h.parent]
    cases P.parent z with
    | none => rfl
    | some p => simp [ih p]

theorem allEnglobing_same (P Q : Plat) (h : SameButGateway P Q) (np : Np) : allEnglobing Q np = allEnglobing P np := by
  simp [allEnglobing, upPath_same P Q h, h.depth, h.zoneOf]

theorem findCA_same_gw (P Q : Plat) (h : SameButGateway P Q) (src dst : Np) (sp dp : List Zn) :
    findCommonAncestors Q src dst sp dp = findCommonAncestors P src dst sp dp := by
  simp [findCommonAncestors, h.zoneOf]

theorem bpLookup_same (P Q : Plat) (h : SameButGateway P Q) (tbl) (ps pd : List Zn) (i j : Nat) :
    bpLookup Q tbl ps pd i j = bpLookup P tbl ps pd i j := by
  simp [bpLookup, h.zoneNp]

theorem bpSearch_same (P Q : Plat) (h : SameButGateway P Q) (tbl) (ps pd : List Zn) :
    bpSearch Q tbl ps pd = bpSearch P tbl ps pd := by
  simp [bpSearch, bpLookup_same P Q h]

theorem bypassFind_same (P Q : Plat) (h : SameButGateway P Q) (z : Zn) (src dst : Np) :
    bypassFind Q z src dst = bypassFind P z src dst := by
  simp [bypassFind, h.bypass, h.zoneOf, h.depth, upPath_same P Q h, bpSearch_same P Q h]

theorem interzone_same (P Q : Plat) (h : SameButGateway P Q) (hG : GatewaysDeclared P) (np : Np) (toNp : Bool)
    (path : List Zn) : ∀ (gw : Np) (links : List Lk) (lat : Int),
      interzone Q np toNp path gw links lat = interzone P np toNp path gw links lat := by
  induction path with
  | nil =>
    intro gw links lat
    unfold interzone
    simp only [h.zoneOf, h.loc, routeLat_same P Q h]
  | cons z rest ih =>
    intro gw links lat
    unfold interzone
    simp only [h.zoneOf, h.loc, h.zoneNp, routeLat_same P Q h]
    by_cases hz : P.zoneOf np = P.zoneOf gw
    · simp only [hz, ne_eq, not_true_eq_false, if_false]
    · simp only [hz, ne_eq, not_false_eq_true, if_true]
      cases toNp with
      | true =>
        simp only [if_true]
        cases hl : P.loc (P.zoneOf gw) gw (P.zoneNp z) with
        | none => rfl
        | some r =>
          simp only []
          rw [inferGw_same P Q h r.gwDst (P.zoneNp z) z (hG _ _ _ r hl).2]
          cases inferGw P r.gwDst (P.zoneNp z) z with
          | none => rfl
          | some g => simp only []; exact ih g _ _
      | false =>
        simp only [Bool.false_eq_true, if_false]
        cases hl : P.loc (P.zoneOf gw) (P.zoneNp z) gw with
        | none => rfl
        | some r =>
          simp only []
          rw [inferGw_same P Q h r.gwSrc (P.zoneNp z) z (hG _ _ _ r hl).1]
          cases inferGw P r.gwSrc (P.zoneNp z) z with
          | none => rfl
          | some g => simp only []; exact ih g _ _

theorem crossRoute_same (P Q : Plat) (h : SameButGateway P Q) (hG : GatewaysDeclared P) (src dst : Np)
    (links : List Lk) (lat : Int) (A : Anc) : crossRoute Q src dst links lat A = crossRoute P src dst links lat A := by
  simp only [crossRoute, h.zoneNp, h.loc, routeLat_same P Q h, interzone_same P Q h hG]

theorem globalRouteV_same (fx : Bool) (P Q : Plat) (h : SameButGateway P Q) (hG : GatewaysDeclared P) :
    ∀ (f : Nat) (src dst : Np) (links : List Lk) (lat : Int),
      globalRouteV fx Q f src dst links lat = globalRouteV fx P f src dst links lat := by
  intro f
  induction f with
  | zero => intro src dst links lat; rfl
  | succ f ih =>
    intro src dst links lat
    simp only [globalRouteV, allEnglobing_same P Q h, findCA_same_gw P Q h, bypassFind_same P Q h,
      sumLat_same P Q h, routeLat_same P Q h, crossRoute_same P Q h hG, h.zoneOf, h.loc, h.prepend, ih]

end SgVerif.C24
