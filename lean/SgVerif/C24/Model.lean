/-
C24 — Hierarchical routes are composed correctly.   Executable model (core Lean only).

Mirrors, function by function, /repo/src/kernel/routing/NetZoneImpl.cpp:
  NetPoint::get_all_englobing_zones, find_common_ancestors, NetZoneImpl::get_bypass_route,
  NetZoneImpl::get_interzone_route, NetZoneImpl::get_global_route_with_netzones, NetZoneImpl::seal (default
  gateway), kernel/resource/NetworkModel.cpp add_link_latency / insert_link_latency, and
  RoutedZone::new_extended_route + FullZone::add_route (symmetrical routes).

Each zone's *local* routing function (`get_local_route`) is given data: a table `loc zone src dst` observed from the
implementation (C26 / C25 cover what is inside).  The model is the *composition*.

The second, smaller definition (`spec*`, end of file) is the property's own reading: a recursive definition on
the zone paths that returns the list of *segments* (local routes / bypass routes) in path order.
-/
namespace SgVerif.C24

abbrev Np := Nat   -- netpoint id (host, router, or the netpoint of a zone)
abbrev Zn := Nat   -- zone id
abbrev Lk := Nat   -- link id

/-- `Route` of the C++ (link_list_, gw_src_, gw_dst_) + what the zone added to `*lat` beyond its links'
latencies (`extra`: the Vivaldi coordinate term; 0 for all other zones). -/
structure Route where
  links : List Lk
  gwSrc : Option Np
  gwDst : Option Np
  extra : Int := 0
  deriving Repr, DecidableEq, Inhabited

/-- `BypassRoute` (gw_src, gw_dst, links) -/
structure Bypass where
  gwSrc : Option Np
  gwDst : Option Np
  links : List Lk
  deriving Repr, DecidableEq, Inhabited

inductive Err where
  | fuel            -- the model's recursion bound was hit (never on a tree: see `Props`)
  | noCommonAncestor -- xbt_assert(min_size > 0 && src_path[0] == dst_path[0])
  | localFailed     -- get_local_route threw / asserted (no route, not in this zone ...)
  | noGwSrc         -- xbt_assert(route.gw_src_ != nullptr)
  | noGwDst         -- xbt_assert(route.gw_dst_ != nullptr)
  | noGateway       -- inferred gateway missing: get_gateway() enforce failed or nullptr dereferenced
  | noRouteToGateway -- xbt_assert(it != zones_path->end())
  | bypassNoGw      -- bypass route used recursively without the gateway it needs (nullptr dereference)
  deriving Repr, DecidableEq, Inhabited

deriving instance DecidableEq for Except

structure Plat where
  parent  : Zn → Option Zn               -- parent_
  zoneOf  : Np → Zn                      -- get_englobing_zone() (for a zone's netpoint: the parent zone)
  zoneNp  : Zn → Np                      -- netpoint_
  isZone  : Np → Bool                    -- is_netzone()
  gateway : Zn → Option Np               -- get_gateway(); none = one of its xbt_enforce fails
  prepend : Zn → Bool                    -- DijkstraZone: get_local_route uses insert_link_latency (front insertion);
                                         -- only the pre-fix variant `globalRouteV false` looks at it
  loc     : Zn → Np → Np → Option Route  -- get_local_route on an empty Route; none = exception / assertion
  bypass  : Zn → List ((Np × Np) × Bypass) -- bypass_routes_ (at most one entry per key: xbt_enforce in add_bypass_route)
  lat     : Lk → Int                     -- link latency (in the check: units of 2^-50 s)
  depth   : Nat                          -- bound on the length of a walk to the root (number of zones)

/-- the same-zone case of `get_global_route_with_netzones` computes the local route in a fresh `Route` and appends it
to the accumulated links (fix `bypass-tail-in-dijkstra-zone`, props/C24/fix_series/01-…).  `true` = the code as it is
now; before the fix (`false`) the accumulated list was handed to the zone's `get_local_route`, and a Dijkstra zone
(`prepend`) inserted its links in front of it.  The pre-fix variant is kept as `globalRouteV false` for the
regression theorems (`Props`: `…_prefix_…`). -/
def fixedSameZoneAppend : Bool := true

def sumLat (P : Plat) (l : List Lk) : Int := (l.map P.lat).sum

/-- what one call of `get_local_route(.., &route, latency)` adds to `*latency` -/
def routeLat (P : Plat) (r : Route) : Int := sumLat P r.links + r.extra

/- ---------------------------------------------------------------- paths to the root
   get_bypass_route (1):  `while (current != nullptr) { path.push_back(current); current = current->parent_; }` -/
def upPath (P : Plat) : Nat → Zn → List Zn
  | 0, _ => []
  | f+1, z => z :: (match P.parent z with
                    | none => []
                    | some p => upPath P f p)

/-- NetPoint::get_all_englobing_zones: root first, englobing zone last -/
def allEnglobing (P : Plat) (np : Np) : List Zn := (upPath P P.depth (P.zoneOf np)).reverse

/- ---------------------------------------------------------------- find_common_ancestors
   for (i = 0; i < min_size; i++) { if (src_path[i] != dst_path[i]) break; common_ancestor_index = i; } -/
def caIndex : List Zn → List Zn → Nat → Nat → Nat
  | a :: as, b :: bs, i, idx => if a ≠ b then idx else caIndex as bs (i+1) i
  | _, _, _, idx => idx

structure Anc where
  ca : Zn
  sa : Zn
  da : Zn
  sp : List Zn      -- src_path after the call
  dp : List Zn
  deriving Repr, DecidableEq

def frontOr (l : List Zn) (d : Zn) : Zn :=
  match l with
  | [] => d
  | x :: _ => x

def findCommonAncestors (P : Plat) (src dst : Np) (sp dp : List Zn) : Except Err Anc :=
  if P.zoneOf src = P.zoneOf dst then
    -- "easy base case": the paths are left untouched
    .ok { ca := P.zoneOf src, sa := P.zoneOf src, da := P.zoneOf src, sp := sp, dp := dp }
  else
    match sp, dp with
    | s0 :: _, d0 :: _ =>
      if s0 ≠ d0 then .error .noCommonAncestor
      else
        let idx := caIndex sp dp 0 0
        match sp[idx]? with
        | none => .error .noCommonAncestor
        | some ca =>
          let sp' := sp.drop (idx + 1)
          let dp' := dp.drop (idx + 1)
          .ok { ca := ca, sa := frontOr sp' ca, da := frontOr dp' ca, sp := sp', dp := dp' }
    | _, _ => .error .noCommonAncestor

/- ---------------------------------------------------------------- get_interzone_route -/

/-- "If the route has no gateway but current is a netzone, infer it from the zone's default gateway";
`none` = the C++ dereferences nullptr at the next step or get_gateway() fails. -/
def inferGw (P : Plat) (declared : Option Np) (cur : Np) (z : Zn) : Option Np :=
  match declared with
  | some g => some g
  | none => if P.isZone cur then P.gateway z else none

/-- the `while` loop + the final local route; `path` = what is left of `zones_path` from `it`.
`toNp = true`: gateway_to_netpoint (downward part, links appended at the end);
`toNp = false`: upward part, each local route inserted at the beginning, links in order. -/
def interzone (P : Plat) (np : Np) (toNp : Bool) :
    List Zn → Np → List Lk → Int → Except Err (List Lk × Int)
  | path, gw, links, lat =>
    if P.zoneOf np ≠ P.zoneOf gw then
      match path with
      | [] => .error .noRouteToGateway
      | z :: rest =>
        let cur := P.zoneNp z
        if toNp then
          match P.loc (P.zoneOf gw) gw cur with
          | none => .error .localFailed
          | some r =>
            match inferGw P r.gwDst cur z with
            | none => .error .noGateway
            | some g => interzone P np toNp rest g (links ++ r.links) (lat + routeLat P r)
        else
          match P.loc (P.zoneOf gw) cur gw with
          | none => .error .localFailed
          | some r =>
            match inferGw P r.gwSrc cur z with
            | none => .error .noGateway
            | some g => interzone P np toNp rest g (r.links ++ links) (lat + routeLat P r)
    else if np ≠ gw then
      -- "We want to avoid the case where the gateway is the NetPoint itself"
      if toNp then
        match P.loc (P.zoneOf gw) gw np with
        | none => .error .localFailed
        | some r => .ok (links ++ r.links, lat + routeLat P r)
      else
        match P.loc (P.zoneOf gw) np gw with
        | none => .error .localFailed
        | some r => .ok (r.links ++ links, lat + routeLat P r)
    else .ok (links, lat)

/- ---------------------------------------------------------------- get_bypass_route (the search part) -/

def lookupKey (tbl : List ((Np × Np) × Bypass)) (k : Np × Np) : Option Bypass :=
  match tbl.find? (fun e => e.1 == k) with
  | some e => some e.2
  | none => none

/-- (2) `while (path_src.size() > 1 && path_dst.size() > 1 && path_src.back() == path_dst.back()) pop_back both`
on the reversed lists (`rs`, `rd` = paths root-first) -/
def popCommon : List Zn → List Zn → List Zn × List Zn
  | a :: a' :: as, b :: b' :: bs => if a = b then popCommon (a' :: as) (b' :: bs) else (a :: a' :: as, b :: b' :: bs)
  | rs, rd => (rs, rd)

/-- the lambda `lookup(src_index, dst_index)` -/
def bpLookup (P : Plat) (tbl : List ((Np × Np) × Bypass)) (ps pd : List Zn) (i j : Nat) :
    Option ((Np × Np) × Bypass) :=
  match ps[i]?, pd[j]? with
  | some zs, some zd =>
    let key := (P.zoneNp zs, P.zoneNp zd)
    match lookupKey tbl key with
    | some b => some (key, b)
    | none => none
  | _, _ => none

/-- (3) the two nested `for` loops with their `break`s: first hit in the order
(0,max) (max,0) (1,max) (max,1) … (max-1,max) (max,max-1) (max,max), max = 0,1,… -/
def bpSearch (P : Plat) (tbl : List ((Np × Np) × Bypass)) (ps pd : List Zn) : Option ((Np × Np) × Bypass) :=
  (List.range (Nat.max ps.length pd.length)).findSome? fun mx =>
    match (List.range mx).findSome? (fun i =>
        match bpLookup P tbl ps pd i mx with
        | some r => some r
        | none => bpLookup P tbl ps pd mx i) with
    | some r => some r
    | none => bpLookup P tbl ps pd mx mx

inductive BpResult where
  | none                                  -- return false
  | direct (b : Bypass)                   -- base case: both in this zone and a bypass (src,dst) exists
  | via (key : Np × Np) (b : Bypass)      -- recursive case
  deriving Repr, DecidableEq

def bypassFind (P : Plat) (zone : Zn) (src dst : Np) : BpResult :=
  let tbl := P.bypass zone
  if tbl.isEmpty then .none
  else if P.zoneOf dst = zone ∧ P.zoneOf src = zone then
    match lookupKey tbl (src, dst) with
    | some b => .direct b
    | none => .none
  else
    -- (1) paths to the root, englobing zone first; (2) drop the common part
    let ps := upPath P P.depth (P.zoneOf src)
    let pd := upPath P P.depth (P.zoneOf dst)
    let (rs, rd) := popCommon ps.reverse pd.reverse
    match bpSearch P tbl rs.reverse rd.reverse with
    | some (key, b) => .via key b
    | none => .none

/-- get_global_route_with_netzones, the part after the bypass test when src and dst are in different zones:
route at the common ancestor, then get_interzone_route for the source side, the ancestor's links, then
get_interzone_route for the destination side. -/
def crossRoute (P : Plat) (src dst : Np) (links : List Lk) (lat : Int) (A : Anc) : Except Err (List Lk × Int) :=
  let a := if A.sa ≠ A.ca then P.zoneNp A.sa else src
  let b := if A.da ≠ A.ca then P.zoneNp A.da else dst
  match P.loc A.ca a b with
  | none => .error .localFailed
  | some r =>
    let t0 := lat + routeLat P r
    let up : Except Err (List Lk × Int) :=
      if A.sa ≠ A.ca then
        match r.gwSrc with
        | none => .error .noGwSrc
        | some g =>
          -- src_path.erase(begin); get_interzone_route(src, gw_src, false, src_to_src_ancestor, ..)
          match interzone P src false A.sp.tail g [] t0 with
          | .error e => .error e
          | .ok (u, t) => .ok (links ++ u, t)
      else .ok (links, t0)
    match up with
    | .error e => .error e
    | .ok (l1, t1) =>
      let l2 := l1 ++ r.links
      if A.da ≠ A.ca then
        match r.gwDst with
        | none => .error .noGwDst
        | some g =>
          match interzone P dst true A.dp.tail g [] t1 with
          | .error e => .error e
          | .ok (d, t) => .ok (l2 ++ d, t)
      else .ok (l2, t1)

/- ---------------------------------------------------------------- get_global_route_with_netzones
   (+ the recursive part of get_bypass_route, which calls it back).  `links`/`lat` are the in/out parameters.
   `fx` = the same-zone case appends a separately computed local route (the code as it is now: `fx = true`). -/
def globalRouteV (fx : Bool) (P : Plat) : Nat → Np → Np → List Lk → Int → Except Err (List Lk × Int)
  | 0, _, _, _, _ => .error .fuel
  | f+1, src, dst, links, lat =>
    match findCommonAncestors P src dst (allEnglobing P src) (allEnglobing P dst) with
    | .error e => .error e
    | .ok A =>
      match bypassFind P A.ca src dst with
      | .direct b => .ok (links ++ b.links, lat + sumLat P b.links)
      | .via key b =>
        -- if (src != key.first) get_global_route_with_netzones(src, bypassedRoute->gw_src, links, latency, netzones);
        let first : Except Err (List Lk × Int) :=
          if src ≠ key.1 then
            match b.gwSrc with
            | none => .error .bypassNoGw
            | some g => globalRouteV fx P f src g links lat
          else .ok (links, lat)
        match first with
        | .error e => .error e
        | .ok (l1, t1) =>
          -- add_link_latency(links, bypassedRoute->links, latency);
          let l2 := l1 ++ b.links
          let t2 := t1 + sumLat P b.links
          if dst ≠ key.2 then
            match b.gwDst with
            | none => .error .bypassNoGw
            | some g => globalRouteV fx P f g dst l2 t2
          else .ok (l2, t2)
      | .none =>
        if P.zoneOf src = P.zoneOf dst then
          -- zone->get_local_route(src, dst, &route, latency) on the fresh `route`;
          -- if (links.empty()) links = std::move(route.link_list_); else links.insert(links.end(), route.link_list_…)
          -- (before the fix: route.link_list_ = std::move(links); get_local_route(…, &route, …); links = move back)
          match P.loc (P.zoneOf src) src dst with
          | none => .error .localFailed
          | some r =>
            if P.prepend (P.zoneOf src) && !fx then .ok (r.links ++ links, lat + routeLat P r)
            else .ok (links ++ r.links, lat + routeLat P r)
        else
          crossRoute P src dst links lat A

/-- the code as it is now -/
def globalRoute (P : Plat) : Nat → Np → Np → List Lk → Int → Except Err (List Lk × Int) :=
  globalRouteV fixedSameZoneAppend P

/-- NetZoneImpl::get_global_route / Host::route_to.  Fuel: each recursive call comes from a bypass route and goes
strictly deeper in a tree; `depth + 2` levels are enough there. -/
def routeToV (fx : Bool) (P : Plat) (src dst : Np) : Except Err (List Lk × Int) :=
  globalRouteV fx P (P.depth + 2) src dst [] 0

def routeTo (P : Plat) (src dst : Np) : Except Err (List Lk × Int) :=
  globalRoute P (P.depth + 2) src dst [] 0

/- ---------------------------------------------------------------- NetZoneImpl::seal — the default gateway
   `explicit` = set_gateway("default", …) was called; `hosts` / `vertices` = hosts_ and vertices_ of the zone
   (vertices_ contains hosts, routers and the netpoints of child zones). -/
def defaultGateway (explicit : Option Np) (hosts : List Np) (vertices : List (Np × Bool)) : Option Np :=
  match explicit with
  | some g => some g
  | none =>
    match hosts with
    | [h] => some h            -- "for zone with a single host, this host is its own default gateway"
    | [] =>                    -- "no hosts but a single vertex that is a router"
      match vertices with
      | [(v, true)] => some v
      | _ => none
    | _ => none

/- ---------------------------------------------------------------- declared routes: new_extended_route,
   FullZone::add_route (table of the zone), symmetrical = true adds the reversed route with swapped gateways -/
def newExtendedRoute (recursive : Bool) (gwSrc gwDst : Option Np) (links : List Lk) (preserveOrder : Bool) : Route :=
  { links := if preserveOrder then links else links.reverse,
    gwSrc := if recursive then gwSrc else none,
    gwDst := if recursive then gwDst else none }

abbrev Table := List ((Np × Np) × Route)

def tableGet (t : Table) (s d : Np) : Option Route :=
  match t.find? (fun e => e.1 == (s, d)) with
  | some e => some e.2
  | none => none

/-- FullZone::add_route; `none` = one of the "already exists" assertions -/
def fullAddRoute (recursive : Bool) (t : Table) (src dst : Np) (gwSrc gwDst : Option Np) (links : List Lk)
    (symmetrical : Bool) : Option Table :=
  -- new_extended_route: xbt_enforce(hierarchy != recursive || (gw_src && gw_dst))
  if recursive && (gwSrc.isNone || gwDst.isNone) then none
  else if (tableGet t src dst).isSome then none
  else
    let t1 := ((src, dst), newExtendedRoute recursive gwSrc gwDst links true) :: t
    if symmetrical && src ≠ dst then
      -- gateways are swapped only when both are given
      let swap := gwSrc.isSome && gwDst.isSome
      let gs := if swap then gwDst else gwSrc
      let gd := if swap then gwSrc else gwDst
      if (tableGet t1 dst src).isSome then none
      else some (((dst, src), newExtendedRoute recursive gs gd links false) :: t1)
    else some t1

/-- FullZone::get_local_route: a missing entry leaves the Route empty (no links, no gateways) -/
def fullLocal (t : Table) (s d : Np) : Route :=
  match tableGet t s d with
  | some r => r
  | none => { links := [], gwSrc := none, gwDst := none }

/- ================================================================ the specification
   "the route is the concatenation of the local routes of the zones it crosses: up through gateways to the lowest
   common ancestor, across the route declared there (or a declared bypass route), and down". -/

/-- one piece of a global route -/
inductive Seg where
  | loc (zone : Zn) (src dst : Np) (r : Route)     -- the local route of `zone` from `src` to `dst`
  | byp (zone : Zn) (key : Np × Np) (b : Bypass)   -- a bypass route declared in `zone`
  deriving Repr, DecidableEq

def Seg.links : Seg → List Lk
  | .loc _ _ _ r => r.links
  | .byp _ _ b => b.links

def Seg.extra : Seg → Int
  | .loc _ _ _ r => r.extra
  | .byp _ _ _ => 0

def flatLinks (segs : List Seg) : List Lk := segs.flatMap Seg.links
def segsExtra (segs : List Seg) : Int := (segs.map Seg.extra).sum
def segsLat (P : Plat) (segs : List Seg) : Int := sumLat P (flatLinks segs) + segsExtra segs

/-- lowest common ancestor by simultaneous descent from the root: `last` = last common zone so far -/
def splitCommon : Zn → List Zn → List Zn → Zn × List Zn × List Zn
  | last, a :: as, b :: bs => if a = b then splitCommon a as bs else (last, a :: as, b :: bs)
  | last, s, d => (last, s, d)

/-- from `np` up to the gateway `gw` of an englobing zone; `path` = the zones strictly between gw's zone and np,
top first.  Deeper segments come first. -/
def specUp (P : Plat) (np : Np) : List Zn → Np → Except Err (List Seg)
  | path, gw =>
    if P.zoneOf np = P.zoneOf gw then
      if np = gw then .ok []
      else match P.loc (P.zoneOf gw) np gw with
        | none => .error .localFailed
        | some r => .ok [.loc (P.zoneOf gw) np gw r]
    else match path with
      | [] => .error .noRouteToGateway
      | z :: rest =>
        match P.loc (P.zoneOf gw) (P.zoneNp z) gw with
        | none => .error .localFailed
        | some r =>
          match inferGw P r.gwSrc (P.zoneNp z) z with
          | none => .error .noGateway
          | some g =>
            match specUp P np rest g with
            | .error e => .error e
            | .ok segs => .ok (segs ++ [.loc (P.zoneOf gw) (P.zoneNp z) gw r])

/-- from the gateway `gw` down to `np` -/
def specDown (P : Plat) (np : Np) : List Zn → Np → Except Err (List Seg)
  | path, gw =>
    if P.zoneOf np = P.zoneOf gw then
      if np = gw then .ok []
      else match P.loc (P.zoneOf gw) gw np with
        | none => .error .localFailed
        | some r => .ok [.loc (P.zoneOf gw) gw np r]
    else match path with
      | [] => .error .noRouteToGateway
      | z :: rest =>
        match P.loc (P.zoneOf gw) gw (P.zoneNp z) with
        | none => .error .localFailed
        | some r =>
          match inferGw P r.gwDst (P.zoneNp z) z with
          | none => .error .noGateway
          | some g =>
            match specDown P np rest g with
            | .error e => .error e
            | .ok segs => .ok (.loc (P.zoneOf gw) gw (P.zoneNp z) r :: segs)

/-- the zones of the lowest common ancestor: (ca, path below it towards src, path below it towards dst) -/
def specAncestors (P : Plat) (src dst : Np) : Except Err (Zn × List Zn × List Zn) :=
  if P.zoneOf src = P.zoneOf dst then .ok (P.zoneOf src, [], [])
  else match allEnglobing P src, allEnglobing P dst with
    | s0 :: ss, d0 :: ds => if s0 ≠ d0 then .error .noCommonAncestor else .ok (splitCommon s0 ss ds)
    | _, _ => .error .noCommonAncestor

/-- across the lowest common ancestor `ca`: up from src, the route declared in `ca`, down to dst -/
def specCross (P : Plat) (src dst : Np) (ca : Zn) (sp dp : List Zn) : Except Err (List Seg) :=
  let a := match sp with
    | [] => src
    | z :: _ => P.zoneNp z
  let b := match dp with
    | [] => dst
    | z :: _ => P.zoneNp z
  match P.loc ca a b with
  | none => .error .localFailed
  | some r =>
    let up : Except Err (List Seg) :=
      match sp with
      | [] => .ok []
      | _ :: rest =>
        match r.gwSrc with
        | none => .error .noGwSrc
        | some g => specUp P src rest g
    match up with
    | .error e => .error e
    | .ok u =>
      match dp with
      | [] => .ok (u ++ [.loc ca a b r])
      | _ :: rest =>
        match r.gwDst with
        | none => .error .noGwDst
        | some g =>
          match specDown P dst rest g with
          | .error e => .error e
          | .ok d => .ok (u ++ .loc ca a b r :: d)

def specRoute (P : Plat) : Nat → Np → Np → Except Err (List Seg)
  | 0, _, _ => .error .fuel
  | f+1, src, dst =>
    match specAncestors P src dst with
    | .error e => .error e
    | .ok (ca, sp, dp) =>
      match bypassFind P ca src dst with
      | .direct b => .ok [.byp ca (src, dst) b]
      | .via key b =>
        let first : Except Err (List Seg) :=
          if src ≠ key.1 then
            match b.gwSrc with
            | none => .error .bypassNoGw
            | some g => specRoute P f src g
          else .ok []
        match first with
        | .error e => .error e
        | .ok s1 =>
          if dst ≠ key.2 then
            match b.gwDst with
            | none => .error .bypassNoGw
            | some g =>
              match specRoute P f g dst with
              | .error e => .error e
              | .ok s2 => .ok (s1 ++ .byp ca key b :: s2)
          else .ok (s1 ++ [.byp ca key b])
      | .none =>
        if P.zoneOf src = P.zoneOf dst then
          match P.loc ca src dst with
          | none => .error .localFailed
          | some r => .ok [.loc ca src dst r]
        else
          specCross P src dst ca sp dp

def specRouteTo (P : Plat) (src dst : Np) : Except Err (List Seg) := specRoute P (P.depth + 2) src dst

/-- every segment is what the platform declares: the local route of the zone, or one of its bypass routes -/
def Seg.valid (P : Plat) : Seg → Prop
  | .loc z a b r => P.loc z a b = some r
  | .byp z k b => lookupKey (P.bypass z) k = some b

/- ================================================================ StarZone / VivaldiZone: the local routing function
   src/kernel/routing/StarZone.cpp (add_route, do_seal, get_local_route, add_links_to_route) and
   src/kernel/routing/VivaldiZone.cpp (get_local_route: the Star route + the coordinate term).
   Used (1) by the driver, to recompute the `L` answers of Star and Vivaldi zones from the declared routes and the
   coordinates the library stores, and (2) by `latency_is_sum_vivaldi` (Props): the coordinate term of a Vivaldi
   segment is `vivaldiTerm (coords src) (coords dst)`, a function of the model, not an observed number. -/

/-- `StarZone::StarRoute` -/
structure StarRoute where
  up       : List Lk := []
  down     : List Lk := []
  loopback : List Lk := []
  upSet    : Bool := false
  downSet  : Bool := false
  gateway  : Option Np := none
  deriving Repr, DecidableEq, Inhabited

/-- `routes_` (unordered_map keyed by the netpoint's id) -/
abbrev StarTab := List (Np × StarRoute)

def starGet (t : StarTab) (n : Np) : Option StarRoute :=
  match t.find? (fun e => e.1 == n) with
  | some e => some e.2
  | none => none

/-- `auto& route = routes_[id]; …` — `operator[]` default-constructs a missing entry -/
def starUpd (t : StarTab) (n : Np) (f : StarRoute → StarRoute) : StarTab :=
  match starGet t n with
  | some r => (n, f r) :: t.filter (fun e => e.1 != n)
  | none => (n, f {}) :: t

/-- check_add_route_param, netzone part: an endpoint that is a netzone needs a gateway that is not a netzone
(the containment test `is_component_recursive` is not modelled: generated gateways are inside the zone) -/
def starGwOk (isZone : Np → Bool) (n gw : Option Np) : Bool :=
  match n with
  | none => true
  | some n =>
    if isZone n then
      match gw with
      | some g => !isZone g
      | none => false
    else true

/-- StarZone::add_route (`none` = check_add_route_param throws std::invalid_argument).  Plain (non split-duplex)
links: `get_link_list_impl(l, true)` keeps the order, the symmetrical down list is the reverse. -/
def starAddRoute (isZone : Np → Bool) (t : StarTab) (src dst gwSrc gwDst : Option Np) (links : List Lk)
    (symmetrical : Bool) : Option StarTab :=
  if !(starGwOk isZone src gwSrc && starGwOk isZone dst gwDst) then none
  else
    match src, dst with
    | none, none => none                       -- "route must be: i) from source netpoint to everyone, ii) …"
    | some s, some d =>
      if s ≠ d then none
      else some (starUpd t s (fun r => { r with loopback := links }))    -- loopback; the gateway is not stored
    | some s, none =>
      some (starUpd t s (fun r =>
        let r := { r with up := links, gateway := gwSrc, upSet := true }
        if symmetrical then { r with down := links.reverse, downSet := true } else r))
    | none, some d =>
      if symmetrical then none                 -- "symmetrical routes must be set from source to everyone"
      else some (starUpd t d (fun r => { r with down := links, gateway := gwDst, downSet := true }))

/-- the entry of a vertex after StarZone::do_seal ("add default empty links if nothing was configured by user");
`none` = `routes_.at(id)` throws (not a vertex of this zone) -/
def starSealed (t : StarTab) (verts : List Np) (n : Np) : Option StarRoute :=
  match starGet t n with
  | some r => some r
  | none => if verts.contains n then some { upSet := true, downSet := true } else none

/-- StarZone::get_local_route on a Route whose gateways are `pre` (what VivaldiZone set before calling it; (none, none)
for a plain Star zone).  Result: links, gw_src, gw_dst; `none` = exception / assertion.
`add_links_to_route` skips a link that is already in the route: first occurrences are kept (`eraseDups`). -/
def starLocal (t : StarTab) (verts : List Np) (pre : Option Np × Option Np) (src dst : Np) :
    Option (List Lk × Option Np × Option Np) :=
  match starSealed t verts src, starSealed t verts dst with
  | some rs, some rd =>
    if src = dst ∧ rs.loopback ≠ [] then
      some (rs.loopback.eraseDups, pre.1, pre.2)         -- `return;` before the gateways are set
    else if !rs.upSet then none                          -- xbt_assert(src_route.has_links_up())
    else if !rd.downSet then none                        -- xbt_assert(dst_route.has_links_down())
    else some ((rs.up ++ rd.down).eraseDups, rs.gateway, rd.gateway)
  | _, _ => none

/-- Vivaldi coordinates of a netpoint: (x, y, height), in ms.  A double is a dyadic rational. -/
structure Coord where
  x : Rat
  y : Rat
  h : Rat
  deriving Repr, DecidableEq, Inhabited

/-- The coordinate term of a Vivaldi segment, exactly: it denotes `(√rad + hsum) / 1000` seconds.
`euclidean_dist = sqrt((x1-x2)² + (y1-y2)²) + fabs(h1) + fabs(h2);  *lat += euclidean_dist / 1000.0;` -/
structure VTerm where
  hsum : Rat      -- |h_src| + |h_dst|
  rad  : Rat      -- (x_src - x_dst)² + (y_src - y_dst)²
  deriving Repr, DecidableEq, Inhabited

def ratAbs (q : Rat) : Rat := if q < 0 then -q else q

def vivaldiTerm (a b : Coord) : VTerm :=
  { hsum := ratAbs a.h + ratAbs b.h,
    rad := (a.x - b.x) * (a.x - b.x) + (a.y - b.y) * (a.y - b.y) }

/-- `v` (seconds) is the value of the term: `v * 1000 - hsum` is the non-negative square root of `rad`.
(√ is not a function on `Rat`: the value is specified by its defining property.) -/
def VTerm.HasValue (t : VTerm) (v : Rat) : Prop :=
  0 ≤ v * 1000 - t.hsum ∧ (v * 1000 - t.hsum) * (v * 1000 - t.hsum) = t.rad

/-- the answer of VivaldiZone::get_local_route: the Star route and the coordinate term -/
structure VRoute where
  links : List Lk
  gwSrc : Option Np
  gwDst : Option Np
  term  : VTerm
  deriving Repr, DecidableEq

/-- VivaldiZone::get_local_route, as written:
`if (src->is_netzone()) { gw_src_ = netpoint_by_name_or_null("router_" + src name); gw_dst_ = … dst name }`
(overwritten by StarZone::get_local_route except on its loopback early return), the Star route, then — `lat` is never
null on the paths considered here — `netpoint_get_coords` of both ends (xbt_assert when one has no coordinates, also
when src == dst) and the term. -/
def vivaldiLocal (isZone : Np → Bool) (routerOf : Np → Option Np) (coords : Np → Option Coord)
    (t : StarTab) (verts : List Np) (src dst : Np) : Option VRoute :=
  let pre : Option Np × Option Np := if isZone src then (routerOf src, routerOf dst) else (none, none)
  match starLocal t verts pre src dst with
  | none => none
  | some (links, gs, gd) =>
    match coords src, coords dst with
    | some cs, some cd => some { links := links, gwSrc := gs, gwDst := gd, term := vivaldiTerm cs cd }
    | _, _ => none

/-- the Vivaldi zones of a platform: which zones, their Star tables (after do_seal) and vertices, the coordinates -/
structure Viv where
  isViv    : Zn → Bool
  tab      : Zn → StarTab
  verts    : Zn → List Np
  coords   : Np → Option Coord
  routerOf : Np → Option Np        -- Engine::netpoint_by_name_or_null("router_" + name of the netpoint)

def Viv.local (V : Viv) (isZone : Np → Bool) (z : Zn) (src dst : Np) : Option VRoute :=
  vivaldiLocal isZone V.routerOf V.coords (V.tab z) (V.verts z) src dst

/-- the model's coordinate term of a segment: defined for the local routes of Vivaldi zones only -/
def Seg.vterm (V : Viv) : Seg → Option VTerm
  | .loc z a b _ =>
    if V.isViv z then
      match V.coords a, V.coords b with
      | some ca, some cb => some (vivaldiTerm ca cb)
      | _, _ => none
    else none
  | .byp _ _ _ => none

/-- the coordinate terms of a route, in path order -/
def vivTerms (V : Viv) (segs : List Seg) : List VTerm := segs.filterMap (Seg.vterm V)

/- ---- rational brackets of the value of a term (what the driver compares the observed term with) -/

/-- `(lo, hi)` with `lo ≤ √q ≤ hi`, `hi - lo ≤ 1 / (q.den * m)`, and `lo = hi` when `q·m²` is the square of a rational
with denominator `q.den` (for `q ≥ 0`, `m > 0`):  √(n/d) = √(n·d·m²)/(d·m), integer square root of `n·d·m²`. -/
def sqrtBracket (m : Nat) (q : Rat) : Rat × Rat :=
  let n : Nat := q.num.toNat * q.den * (m * m)
  let s : Nat := Nat.sqrt n
  let den : Rat := ((q.den * m : Nat) : Rat)
  if s * s = n then ((s : Rat) / den, (s : Rat) / den) else ((s : Rat) / den, ((s + 1 : Nat) : Rat) / den)

/-- bracket, in units of `1/unit` seconds, of the value of a term: floor of the lower bound, ceiling of the upper one -/
def termBracket (unit : Nat) (m : Nat) (t : VTerm) : Int × Int :=
  let (lo, hi) := sqrtBracket m t.rad
  (((lo + t.hsum) / 1000 * (unit : Rat)).floor, ((hi + t.hsum) / 1000 * (unit : Rat)).ceil)

/- ================================================================ cluster-like zones: the gateway part of
   TorusZone / FatTreeZone / DragonflyZone::get_local_route
     if (dst->is_router() || src->is_router()) return;          (Torus, FatTree: nothing is set)
     …
     route->gw_src_ = get_gateway(src->id());  route->gw_dst_ = get_gateway(dst->id());
   `tab` = ClusterBase::gateways_, filled by fill_leaf_from_cb: `netzone->get_gateway()` (the leaf's default gateway)
   for a netzone leaf, nullptr for a host leaf.  (No loopback callback in the generated platforms.) -/
def clusterGw (isRouter : Np → Bool) (tab : Np → Option Np) (src dst : Np) : Option Np × Option Np :=
  if isRouter dst || isRouter src then (none, none) else (tab src, tab dst)

end SgVerif.C24
