/-
C15 — sharing solvers never exceed capacities.  Theorems about the model lean/SgVerif/Lmm/Model.lean
(invariant and its preservation: lean/SgVerif/Lmm/Lemmas.lean).

All theorems quantify over every system `S` (any number of constraints, variables, elements; any rationals) that is
well formed (`WF`: positive capacities, enabled elements have positive penalty and non-negative weight, the
per-constraint and per-variable element views carry the same weights), every initial value table and every fuel.
`eps = 0` is the exact-arithmetic reading of `sg_precision_workamount` (see `dblEq` in the model).
-/
import SgVerif.Lmm.Lemmas
import SgVerif.Lmm.Termination
import SgVerif.Lmm.FbLemmas
import SgVerif.Lmm.Eps
namespace SgVerif.C15
open SgVerif.Lmm

/-- load of a summing constraint as `Constraint::get_load` computes it = Σ w·value -/
theorem load_shared (S : Sys) (val : Nat → Rat) (c : Nat) (hf : (S.cnst c).fatpipe = false) :
    load S val c = sumBy (fun e => if 0 < e.2 then e.2 * val e.1 else 0) (S.cnst c).elems := by
  unfold load
  simp only [hf, Bool.not_false, if_true]
  have : (fun (s : Rat) (e : Nat × Rat) => if 0 < e.2 then s + e.2 * val e.1 else s) =
      (fun s e => s + (if 0 < e.2 then e.2 * val e.1 else 0)) := by
    funext s e; split <;> simp
  rw [this, foldl_add_eq]; simp

theorem load_fat_le (S : Sys) (val : Nat → Rat) (c : Nat) (hf : (S.cnst c).fatpipe = true) (B : Rat) (hB : 0 ≤ B)
    (h : ∀ e ∈ (S.cnst c).elems, 0 < e.2 → e.2 * val e.1 ≤ B) : load S val c ≤ B := by
  unfold load
  simp only [hf, Bool.not_true, Bool.false_eq_true, if_false]
  have gen : ∀ (l : List (Nat × Rat)) (a : Rat), a ≤ B → (∀ e ∈ l, 0 < e.2 → e.2 * val e.1 ≤ B) →
      l.foldl (fun s e => if 0 < e.2 then (if s < e.2 * val e.1 then e.2 * val e.1 else s) else s) a ≤ B := by
    intro l
    induction l with
    | nil => intro a ha _; simpa using ha
    | cons e t ih =>
      intro a ha hl
      simp only [List.foldl_cons]
      apply ih _ _ (fun e he => hl e (by simp [he]))
      split
      · split
        · exact hl e (by simp) ‹_›
        · exact ha
      · exact ha
  exact gen _ 0 hB h

/-- **C15, maxmin, exact arithmetic.**  Whenever `maxmin_solve` returns (the model ran out of neither fuel nor
assertions), for every active constraint the load computed as `get_load()` does — the weighted *sum* of the rates for a
summing constraint, the weighted *max* for a FATPIPE one — is at most the capacity; every variable of an enabled
element set has a rate ≥ 0 and ≤ its bound when it has one; and a variable that is in no enabled element set
(disabled, suspended, or without constraint) keeps the value it had (0 after `disable_var`). -/
theorem maxmin_feasible (S : Sys) (hwf : WF S) (val0 : Nat → Rat) (fuel : Nat) (st : St)
    (h : maxminSolve S 0 fuel val0 = some st) :
    (∀ c ∈ S.active, load S st.value c ≤ (S.cnst c).bound) ∧
    (∀ c ∈ S.active, ∀ e ∈ (S.cnst c).elems,
      0 ≤ st.value e.1 ∧ (0 < (S.var e.1).bound → st.value e.1 ≤ (S.var e.1).bound)) ∧
    (∀ v, (∀ c ∈ S.active, ∀ e ∈ (S.cnst c).elems, e.1 ≠ v) → st.value v = val0 v) := by
  unfold maxminSolve at h
  have hi := init_rinv S hwf val0
  have hl := loop_inv_frame S hwf fuel _ _ st hi.1 (sv_in_elems S _ hi.1.l hi.1.sel) h
  obtain ⟨⟨sv', hR⟩, _, hframe⟩ := hl
  have hG := hR.g
  refine ⟨?_, ?_, ?_⟩
  · intro c hc
    cases hf : (S.cnst c).fatpipe with
    | false =>
      rw [load_shared S st.value c hf]
      have h0 := hG.sh_H0 c hc hf
      have : sumBy (fun e => if 0 < e.2 then e.2 * st.value e.1 else 0) (S.cnst c).elems =
          fixedLoad S st.fixed st.value c := by
        unfold fixedLoad
        apply sumBy_congr
        intro e he
        have hw := hwf.el_w c hc e he
        cases hfx : st.fixed e.1 with
        | false => rw [hG.val0 c hc e he hfx]; simp
        | true =>
          by_cases h0 : 0 < e.2
          · simp [h0]
          · have : e.2 = 0 := by linarith
            simp [this]
      rw [this]; linarith
    | true =>
      apply load_fat_le S st.value c hf _ (le_of_lt (hwf.cb_pos c hc))
      intro e he _
      cases hfx : st.fixed e.1 with
      | false => rw [hG.val0 c hc e he hfx]; simpa using le_of_lt (hwf.cb_pos c hc)
      | true => exact hG.ft_feas c hc hf e he hfx
  · intro c hc e he
    cases hfx : st.fixed e.1 with
    | false =>
      rw [hG.val0 c hc e he hfx]
      exact ⟨le_refl 0, fun hb => le_of_lt hb⟩
    | true => exact ⟨le_of_lt (hG.valpos e.1 hfx), hG.valb e.1 hfx⟩
  · intro v hv
    rw [(hframe v hv).1]
    exact hi.2.1 v hv


/-! ### non-vacuity: a concrete well-formed system (summing + FATPIPE constraint, a bounded variable) -/

/-- c0: SHARED, capacity 10, elements v2 (w 1), v1 (w 1), v0 (w 1);  c1: FATPIPE, capacity 4, elements v2 (w 2), v1 (w 1);
v0: penalty 1, bound 1;  v1: penalty 1, no bound;  v2: penalty 2, no bound -/
def exSys : Sys :=
  { cnst := fun c => if c = 0 then { bound := 10, fatpipe := false, elems := [(2, 1), (1, 1), (0, 1)] }
                     else if c = 1 then { bound := 4, fatpipe := true, elems := [(2, 2), (1, 1)] }
                     else { bound := 0, fatpipe := false, elems := [] },
    var := fun v => if v = 0 then { penalty := 1, bound := 1, cnsts := [(0, 1)] }
                    else if v = 1 then { penalty := 1, bound := -1, cnsts := [(0, 1), (1, 1)] }
                    else if v = 2 then { penalty := 2, bound := -1, cnsts := [(0, 1), (1, 2)] }
                    else { penalty := 0, bound := -1, cnsts := [] },
    active := [0, 1], vorder := [2, 1, 0] }

theorem exSys_wf : WF exSys := by
  constructor
  · decide
  · intro c hc; simp [exSys] at hc; rcases hc with rfl | rfl <;> simp [exSys] <;> norm_num
  · intro c hc e he; simp [exSys] at hc
    rcases hc with rfl | rfl <;> simp [exSys] at he <;> rcases he with rfl | rfl | rfl <;> simp [exSys] <;> norm_num
  · intro c hc e he; simp [exSys] at hc
    rcases hc with rfl | rfl <;> simp [exSys] at he <;> rcases he with rfl | rfl | rfl <;> norm_num
  · intro v e he
    by_cases h0 : v = 0
    · subst h0; simp [exSys] at he; subst he; norm_num
    · by_cases h1 : v = 1
      · subst h1; simp [exSys] at he; rcases he with rfl | rfl <;> norm_num
      · by_cases h2 : v = 2
        · subst h2; simp [exSys] at he; rcases he with rfl | rfl <;> norm_num
        · simp [exSys, h0, h1, h2] at he
  · intro c hc v hp
    simp [exSys] at hc
    by_cases h0 : v = 0
    · subst h0; rcases hc with rfl | rfl <;> simp [exSys, wOf, sumBy]
    · by_cases h1 : v = 1
      · subst h1; rcases hc with rfl | rfl <;> simp [exSys, wOf, sumBy]
      · by_cases h2 : v = 2
        · subst h2; rcases hc with rfl | rfl <;> simp [exSys, wOf, sumBy]
        · simp [exSys, h0, h1, h2] at hp

/-- the hypotheses of `maxmin_feasible` are satisfiable: the solver returns on `exSys` (bound round for v0, then the
FATPIPE constraint saturates v1/v2 … ) with values v0 = 1, v1 = 4, v2 = 2 -/
example : (maxminSolve exSys 0 4 (fun _ => 0)).map (fun st => (st.value 0, st.value 1, st.value 2)) = some (1, 4, 2) := by
  decide +kernel

/-! ### FairBottleneck -/

/-- DESIGN §9-D2: one FATPIPE constraint of capacity 10, variable 0 bounded by 1, variable 1 unbounded (weights 1,
penalties 1; `enabled_element_set_` order = [v1, v0], `variable_set` order = [v1, v0]) -/
def d2Sys : Sys :=
  { cnst := fun c => if c = 0 then { bound := 10, fatpipe := true, elems := [(1, 1), (0, 1)] }
                     else { bound := 0, fatpipe := false, elems := [] },
    var := fun v => if v = 0 then { penalty := 1, bound := 1, cnsts := [(0, 1)] }
                    else if v = 1 then { penalty := 1, bound := -1, cnsts := [(0, 1)] }
                    else { penalty := 0, bound := -1, cnsts := [] },
    active := [0], vorder := [1, 0] }

theorem d2Sys_wf : WF d2Sys := by
  constructor
  · decide
  · intro c hc; simp [d2Sys] at hc; subst hc; simp [d2Sys]
  · intro c hc e he; simp [d2Sys] at hc; subst hc; simp [d2Sys] at he; rcases he with rfl | rfl <;> simp [d2Sys]
  · intro c hc e he; simp [d2Sys] at hc; subst hc; simp [d2Sys] at he; rcases he with rfl | rfl <;> norm_num
  · intro v e he
    by_cases h0 : v = 0
    · subst h0; simp [d2Sys] at he; subst he; norm_num
    · by_cases h1 : v = 1
      · subst h1; simp [d2Sys] at he; subst he; norm_num
      · simp [d2Sys, h0, h1] at he
  · intro c hc v hp
    simp [d2Sys] at hc; subst hc
    by_cases h0 : v = 0
    · subst h0; simp [d2Sys, wOf, sumBy]
    · by_cases h1 : v = 1
      · subst h1; simp [d2Sys, wOf, sumBy]
      · simp [d2Sys, h0, h1] at hp

/-
Full-strength statement — FALSE on the current code:
  theorem fb_feasible (S) (hwf : WF S) (val0 fuel st) (h : fbSolve S 0 fuel val0 = some st) :
      ∀ c ∈ S.active, load S st.value c ≤ (S.cnst c).bound
In `FairBottleneck::do_solve` the FATPIPE branch of the third loop does `usage_ = min(usage_, w * mu)` over the
elements and subtracts that *minimum* increment from remaining_, while the rate of every still-growing variable may
have grown by up to the *previous* remaining_: the capacity left is over-estimated as soon as the increments differ
(a variable stopped by its bound, or by another constraint).
-/

/-- the counterexample (by kernel evaluation of the model on the concrete witness): FairBottleneck gives the
unbounded variable the rate 55 = 10 + 9 + … + 1 on a FATPIPE constraint of capacity 10 -/
theorem fb_feasible_counterexample :
    ∃ st, fbSolve d2Sys 0 12 (fun _ => 0) = some st ∧ st.value 0 = 1 ∧ st.value 1 = 55 ∧
      (d2Sys.cnst 0).bound < load d2Sys st.value 0 := by
  have h : (fbSolve d2Sys 0 12 (fun _ => 0)).map (fun st => (st.value 0, st.value 1, load d2Sys st.value 0)) = some (1, 55, 55) := by
    decide +kernel
  cases hs : fbSolve d2Sys 0 12 (fun _ => 0) with
  | none => rw [hs] at h; simp at h
  | some st =>
    rw [hs] at h; simp at h
    refine ⟨st, rfl, h.1, h.2.1, ?_⟩
    rw [h.2.2]; simp [d2Sys]; norm_num

/-- **`fb_feasible_partial`: FairBottleneck on systems without FATPIPE constraints, exact arithmetic (eps = 0), any
variable bounds.**  Whenever `FairBottleneck::do_solve` returns, the weighted sum of the rates on every active
constraint is at most its capacity, and every consumer has a rate in [0, bound].  The excluded case (an active FATPIPE
constraint) is exactly `fb_feasible_counterexample`.  `WFV`: every enabled element's variable is in `variable_set` and
the element is also in its variable's `cnsts_`; `variable_set` lists each variable once.
Invariant (Lmm/FbLemmas.lean, `FbInv`): `0 ≤ remaining_ c ≤ bound c − Σ w·value`; the growing consumers of `c` get
together at most `nb · usage_ c = remaining_ c` in one pass. -/
theorem fb_feasible_partial (S : Sys) (hwf : WF S) (hwv : WFV S) (hvo : S.vorder.Nodup)
    (hsh : ∀ c ∈ S.active, (S.cnst c).fatpipe = false)
    (val0 : Nat → Rat) (fuel : Nat) (st : FbSt) (h : fbSolve S 0 fuel val0 = some st) :
    (∀ c ∈ S.active, load S st.value c ≤ (S.cnst c).bound) ∧
    (∀ c ∈ S.active, ∀ e ∈ (S.cnst c).elems, 0 < e.2 →
       0 ≤ st.value e.1 ∧ (0 < (S.var e.1).bound → st.value e.1 ≤ (S.var e.1).bound)) :=
  fb_feasible_shared S hwf hwv hvo hsh val0 fuel st h

/-- non-vacuity: two summing constraints (capacities 10 and 2), three variables, one bounded:
c0 = {v0 (bound 1), v1 (penalty 2), v2}, c1 = {v2} -/
def shSys : Sys :=
  { cnst := fun c => if c = 0 then { bound := 10, fatpipe := false, elems := [(2, 1), (1, 1), (0, 1)] }
                     else if c = 1 then { bound := 2, fatpipe := false, elems := [(2, 1)] }
                     else { bound := 0, fatpipe := false, elems := [] },
    var := fun v => if v = 0 then { penalty := 1, bound := 1, cnsts := [(0, 1)] }
                    else if v = 1 then { penalty := 2, bound := -1, cnsts := [(0, 1)] }
                    else if v = 2 then { penalty := 1, bound := -1, cnsts := [(0, 1), (1, 1)] }
                    else { penalty := 0, bound := -1, cnsts := [] },
    active := [0, 1], vorder := [2, 1, 0] }

theorem shSys_wf : WF shSys := by
  constructor
  · decide
  · intro c hc; simp [shSys] at hc; rcases hc with rfl | rfl <;> simp [shSys]
  · intro c hc e he; simp [shSys] at hc
    rcases hc with rfl | rfl <;> simp [shSys] at he
    · rcases he with rfl | rfl | rfl <;> simp [shSys]
    · subst he; simp [shSys]
  · intro c hc e he; simp [shSys] at hc
    rcases hc with rfl | rfl <;> simp [shSys] at he
    · rcases he with rfl | rfl | rfl <;> norm_num
    · subst he; norm_num
  · intro v e he
    by_cases h0 : v = 0
    · subst h0; simp [shSys] at he; subst he; norm_num
    · by_cases h1 : v = 1
      · subst h1; simp [shSys] at he; subst he; norm_num
      · by_cases h2 : v = 2
        · subst h2; simp [shSys] at he; rcases he with rfl | rfl <;> norm_num
        · simp [shSys, h0, h1, h2] at he
  · intro c hc v hp
    simp [shSys] at hc
    by_cases h0 : v = 0
    · subst h0; rcases hc with rfl | rfl <;> simp [shSys, wOf, sumBy]
    · by_cases h1 : v = 1
      · subst h1; rcases hc with rfl | rfl <;> simp [shSys, wOf, sumBy]
      · by_cases h2 : v = 2
        · subst h2; rcases hc with rfl | rfl <;> simp [shSys, wOf, sumBy]
        · simp [shSys, h0, h1, h2] at hp

theorem shSys_wfv : WFV shSys := by
  constructor
  · intro c hc e he; simp [shSys] at hc
    rcases hc with rfl | rfl <;> simp [shSys] at he
    · rcases he with rfl | rfl | rfl <;> simp [shSys]
    · subst he; simp [shSys]
  · intro c hc e he; simp [shSys] at hc
    rcases hc with rfl | rfl <;> simp [shSys] at he
    · rcases he with rfl | rfl | rfl <;> simp [shSys]
    · subst he; simp [shSys]

/-- FairBottleneck returns on `shSys` (which meets every hypothesis of `fb_feasible_partial`): v0 = 1, v1 = 7, v2 = 2,
loads 10 and 2 -/
example : (fbSolve shSys 0 4 (fun _ => 0)).map
    (fun st => (st.value 0, st.value 1, st.value 2, load shSys st.value 0, load shSys st.value 1)) = some (1, 7, 2, 10, 2) := by
  decide +kernel

example : shSys.vorder.Nodup ∧ ∀ c ∈ shSys.active, (shSys.cnst c).fatpipe = false :=
  ⟨by decide, by intro c hc; simp [shSys] at hc; rcases hc with rfl | rfl <;> simp [shSys]⟩

/-- on the same system maxmin is feasible (instance of `maxmin_feasible`): 1 and 10 -/
example : (maxminSolve d2Sys 0 4 (fun _ => 0)).map (fun st => (st.value 0, st.value 1)) = some (1, 10) := by
  decide +kernel

/-! ### eps > 0: the precision tests can drop a constraint that still has consumers -/

/-
Full-strength statement planned in DESIGN §8 — FALSE on the current code:
  theorem maxmin_feasible_eps (S) (hwf : WF S) (eps) (h0 : 0 ≤ eps) (val0 fuel st)
      (h : maxminSolve S eps fuel val0 = some st) :
      ∀ c ∈ S.active, (S.cnst c).fatpipe = false → load S st.value c ≤ (S.cnst c).bound + eps * initUsage S c
(DESIGN argued "`double_update` only clamps down, so it never hurts".)  It does hurt: when `double_update` clamps
`usage_` (below `eps`) or `remaining_` (below `bound·eps`) to 0 the constraint is taken out of `cnst_light_tab` although
some of its consumers are not fixed yet; these consumers are then only limited by their *other* constraints, and the
load of the dropped constraint is bounded by no function of `eps` and its own data.  `maxmin_feasible_eps_counterexample`
below; replayed on the real library (corpus case `epsA`, finding `maxmin-precision-drops-constraint`).
What does hold for every `0 ≤ eps < 1` is `maxmin_var_bounds_eps_partial` below (rates in [0, bound]); at `eps = 0`,
`maxmin_feasible`.
-/

/-- c0: SHARED capacity 1, consumers v0 (w 1) and v1 (w 2⁻¹⁸ < eps); c1: capacity 1/2, consumer v0; c2: capacity 2³⁰,
consumer v1 (w 1).  Penalties 1, no variable bound.  (`enabled_element_set_` orders as dumped by the harness.) -/
def epsSys : Sys :=
  { cnst := fun c => if c = 0 then { bound := 1, fatpipe := false, elems := [(1, 1/262144), (0, 1)] }
                     else if c = 1 then { bound := 1/2, fatpipe := false, elems := [(0, 1)] }
                     else if c = 2 then { bound := 1073741824, fatpipe := false, elems := [(1, 1)] }
                     else { bound := 0, fatpipe := false, elems := [] },
    var := fun v => if v = 0 then { penalty := 1, bound := -1, cnsts := [(0, 1), (1, 1)] }
                    else if v = 1 then { penalty := 1, bound := -1, cnsts := [(0, 1/262144), (2, 1)] }
                    else { penalty := 0, bound := -1, cnsts := [] },
    active := [0, 1, 2], vorder := [1, 0] }

theorem epsSys_wf : WF epsSys := by
  constructor
  · decide
  · intro c hc; simp [epsSys] at hc; rcases hc with rfl | rfl | rfl <;> simp [epsSys]
  · intro c hc e he; simp [epsSys] at hc
    rcases hc with rfl | rfl | rfl <;> simp [epsSys] at he
    · rcases he with rfl | rfl <;> simp [epsSys]
    · subst he; simp [epsSys]
    · subst he; simp [epsSys]
  · intro c hc e he; simp [epsSys] at hc
    rcases hc with rfl | rfl | rfl <;> simp [epsSys] at he
    · rcases he with rfl | rfl <;> norm_num
    · subst he; norm_num
    · subst he; norm_num
  · intro v e he
    by_cases h0 : v = 0
    · subst h0; simp [epsSys] at he; rcases he with rfl | rfl <;> norm_num
    · by_cases h1 : v = 1
      · subst h1; simp [epsSys] at he; rcases he with rfl | rfl <;> norm_num
      · simp [epsSys, h0, h1] at he
  · intro c hc v hp
    simp [epsSys] at hc
    by_cases h0 : v = 0
    · subst h0; rcases hc with rfl | rfl | rfl <;> simp [epsSys, wOf, sumBy]
    · by_cases h1 : v = 1
      · subst h1; rcases hc with rfl | rfl | rfl <;> simp [epsSys, wOf, sumBy]
      · simp [epsSys, h0, h1] at hp

/-- **counterexample to feasibility "up to the configured precision"** (kernel evaluation of the model at the default
`precision/work-amount` 10⁻⁵ on a well-formed system): c1 fixes v0 = 1/2; `double_update` then clamps `usage_` of c0
(2⁻¹⁸ < 10⁻⁵) to 0 and c0 leaves the light table with v1 unfixed; v1 gets 2³⁰ from c2: the load of c0 is 4096.5 for a
capacity of 1.  At `eps = 0` the same system gets v1 = 2¹⁷ and load exactly 1 (`maxmin_feasible`). -/
theorem maxmin_feasible_eps_counterexample :
    ∃ st, maxminSolve epsSys (1 / 100000) 5 (fun _ => 0) = some st ∧ st.value 0 = 1 / 2 ∧ st.value 1 = 1073741824 ∧
      4096 * (epsSys.cnst 0).bound < load epsSys st.value 0 := by
  have h : (maxminSolve epsSys (1 / 100000) 5 (fun _ => 0)).map
      (fun st => (st.value 0, st.value 1, load epsSys st.value 0)) = some (1 / 2, 1073741824, 8193 / 2) := by
    decide +kernel
  cases hs : maxminSolve epsSys (1 / 100000) 5 (fun _ => 0) with
  | none => rw [hs] at h; simp at h
  | some st =>
    rw [hs] at h; simp at h
    refine ⟨st, rfl, by rw [h.1]; norm_num, h.2.1, ?_⟩
    rw [h.2.2]; simp [epsSys]; norm_num

/-- the same system in exact arithmetic: v1 = 2¹⁷, load of c0 = 1 -/
example : (maxminSolve epsSys 0 5 (fun _ => 0)).map
    (fun st => (st.value 0, st.value 1, load epsSys st.value 0)) = some (1 / 2, 131072, 1) := by
  decide +kernel

/-- c0: SHARED capacity 1, consumers v0 (penalty 2⁻²⁰, bound 1/4) and v1 (penalty 2⁻²⁰, **no bound**: `bound_ = -1`) -/
def negSys : Sys :=
  { cnst := fun c => if c = 0 then { bound := 1, fatpipe := false, elems := [(1, 1), (0, 1)] }
                     else { bound := 0, fatpipe := false, elems := [] },
    var := fun v => if v = 0 then { penalty := 1/1048576, bound := 1/4, cnsts := [(0, 1)] }
                    else if v = 1 then { penalty := 1/1048576, bound := -1, cnsts := [(0, 1)] }
                    else { penalty := 0, bound := -1, cnsts := [] },
    active := [0], vorder := [1, 0] }

theorem negSys_wf : WF negSys := by
  constructor
  · decide
  · intro c hc; simp [negSys] at hc; subst hc; simp [negSys]
  · intro c hc e he; simp [negSys] at hc; subst hc; simp [negSys] at he
    rcases he with rfl | rfl <;> simp [negSys]
  · intro c hc e he; simp [negSys] at hc; subst hc; simp [negSys] at he; rcases he with rfl | rfl <;> norm_num
  · intro v e he
    by_cases h0 : v = 0
    · subst h0; simp [negSys] at he; subst he; norm_num
    · by_cases h1 : v = 1
      · subst h1; simp [negSys] at he; subst he; norm_num
      · simp [negSys, h0, h1] at he
  · intro c hc v hp
    simp [negSys] at hc; subst hc
    by_cases h0 : v = 0
    · subst h0; simp [negSys, wOf, sumBy]
    · by_cases h1 : v = 1
      · subst h1; simp [negSys, wOf, sumBy]
      · simp [negSys, h0, h1] at hp

/-
"Every rate is in [0, bound]" at a positive precision.  Before the fix of `maxmin-precision-bound-test-unbounded-variable`
this was FALSE: the test `double_equals(min_bound, var.bound_ * var.sharing_penalty_, precision)` of the `while` loop was
also evaluated for variables WITHOUT a bound (`bound_ = -1`): when `min_bound + penalty < precision` it held and the variable
got `value_ = bound_ = -1`.  The test is now `var.bound_ > 0 && double_equals(…)` (model: `fixLoop`,
`decide (0 < V.bound) && dblEq …`) and no variable can get a negative rate: `maxmin_var_bounds_eps` below.
-/

/-- **Regression: the witness of the fixed defect `maxmin-precision-bound-test-unbounded-variable`** at the default precision
10⁻⁵ (kernel evaluation; corpus case `epsN` on the real library): capacity 1 shared by v0 (penalty 2⁻²⁰, bound 1/4) and v1
(penalty 2⁻²⁰, no bound).  Without the guard the unbounded variable v1 was "fixed at its bound" −1; it now gets 3/4, as in
exact arithmetic. -/
theorem maxmin_var_bounds_eps_regression :
    ∃ st, maxminSolve negSys (1 / 100000) 4 (fun _ => 0) = some st ∧ st.value 0 = 1 / 4 ∧ st.value 1 = 3 / 4 := by
  have h : (maxminSolve negSys (1 / 100000) 4 (fun _ => 0)).map (fun st => (st.value 0, st.value 1)) = some (1 / 4, 3 / 4) := by
    decide +kernel
  cases hs : maxminSolve negSys (1 / 100000) 4 (fun _ => 0) with
  | none => rw [hs] at h; simp at h
  | some st =>
    rw [hs] at h
    simp only [Option.map_some, Option.some.injEq, Prod.mk.injEq] at h
    exact ⟨st, rfl, h.1, h.2⟩

example : (maxminSolve negSys 0 4 (fun _ => 0)).map (fun st => (st.value 0, st.value 1)) = some (1 / 4, 3 / 4) := by
  decide +kernel

/-- **`maxmin_var_bounds_eps`: what survives at a positive precision.**  For every precision `0 ≤ eps < 1` (the configured
`sg_precision_workamount` is 10⁻⁵) and EVERY well-formed system (SHARED, FATPIPE, variable bounds, any penalties) every rate
`maxmin_solve` returns is in [0, bound] — in particular no rate is negative.  Promoted from `maxmin_var_bounds_eps_partial`,
which carried the hypothesis `hnb` (`eps ≤ -(bound_·penalty)` for the variables with `bound_ ≤ 0`, i.e. `eps ≤ penalty` for
the API's `bound_ = -1`): exactly the case of `maxmin_var_bounds_eps_regression`, excluded by the guard `var.bound_ > 0 &&`
since the fix.  (Invariant `PInv`, Lmm/Eps.lean: the light table only holds active constraints with remaining_ > 0 and
usage_ > 0, so min_usage > 0.)  The capacity clause has no such version: `maxmin_feasible_eps_counterexample`. -/
theorem maxmin_var_bounds_eps (S : Sys) (hwf : WF S) (eps : Rat) (h0 : 0 ≤ eps) (h1 : eps < 1)
    (val0 : Nat → Rat) (fuel : Nat) (st : St) (h : maxminSolve S eps fuel val0 = some st) :
    ∀ c ∈ S.active, ∀ e ∈ (S.cnst c).elems,
      0 ≤ st.value e.1 ∧ (0 < (S.var e.1).bound → st.value e.1 ≤ (S.var e.1).bound) :=
  maxmin_var_bounds_eps_wf S hwf eps h0 h1 val0 fuel st h

/-- non-vacuity at the default precision: `exSys` and `negSys` (penalties 2⁻²⁰ < eps, an unbounded variable: the case
the old hypothesis excluded) are well-formed and the solver returns -/
example : (maxminSolve exSys (1 / 100000) 4 (fun _ => 0)).isSome = true ∧
    (maxminSolve negSys (1 / 100000) 4 (fun _ => 0)).isSome = true := by
  refine ⟨by decide +kernel, by decide +kernel⟩

/-! ### BMF: the acceptance predicate implies the property (Eigen's fixed point is not modelled) -/

/-- `bmfAccept` (the monitor applied to every BMF answer) is, by definition, capacity/bounds feasibility together with
"every consuming enabled variable is at its bound or has the largest share on a saturated constraint" -/
theorem bmfAccept_sound (S : Sys) (tol : Rat) (val : Nat → Rat) (h : bmfAccept S tol val = true) :
    (∀ c ∈ S.active, load S val c ≤ (S.cnst c).bound * (1 + tol)) ∧
    (∀ v ∈ S.vorder, 0 ≤ val v ∧ ((S.var v).penalty ≤ 0 → val v = 0) ∧
      (0 < (S.var v).bound → consumes S v = true → val v ≤ (S.var v).bound * (1 + tol))) ∧
    (∀ v ∈ S.vorder, 0 < (S.var v).penalty → consumes S v = true →
      (0 < (S.var v).bound ∧ (S.var v).bound * (1 - tol) ≤ val v) ∨
      ∃ e ∈ (S.var v).cnsts, 0 < e.2 ∧ bmfShareMax S tol val v e.1 e.2 = true) := by
  unfold bmfAccept at h
  simp only [Bool.and_eq_true] at h
  obtain ⟨hf, hb⟩ := h
  unfold feasible at hf
  simp only [Bool.and_eq_true, List.all_eq_true, decide_eq_true_eq] at hf
  refine ⟨hf.1, ?_, ?_⟩
  · intro v hv
    have := hf.2 v hv
    refine ⟨this.1.1, ?_, ?_⟩
    · intro hp
      have h2 := this.1.2
      simp only [hp, if_true, decide_eq_true_eq] at h2
      exact h2
    · intro hb hc
      have h3 := this.2
      simp only [hb, hc, and_self, if_true, decide_eq_true_eq] at h3
      exact h3
  · intro v hv hp hc
    unfold bmfFair at hb
    simp only [List.all_eq_true] at hb
    have := hb v hv
    simp only [hp, hc, and_self, if_true, Bool.or_eq_true, Bool.and_eq_true, decide_eq_true_eq, List.any_eq_true] at this
    rcases this with h | ⟨e, he, hw, hs⟩
    · exact Or.inl h
    · exact Or.inr ⟨e, he, hw, hs⟩


/-! ### termination (fuel bound) -/

/-- **`maxmin_terminates` (DESIGN §8), full strength: every well-formed system — SHARED and FATPIPE constraints, any
variable bounds.**  `nv` bounds the variable indices; measure: number of unfixed variables among 0…nv-1, which strictly
decreases at each pass of the do-while that starts with a non-empty light table (`round_progress`; for a saturated
FATPIPE constraint the variable to fix is given by `InvA`: its usage_ is attained by an unfixed consumer); so the model
never runs out of fuel when `fuel ≥ nv + 1`. -/
theorem maxmin_terminates (S : Sys) (hwf : WF S) (nv : Nat)
    (hnv : ∀ c ∈ S.active, ∀ e ∈ (S.cnst c).elems, e.1 < nv) (val0 : Nat → Rat) (fuel : Nat) (hfuel : nv + 1 ≤ fuel) :
    (maxminSolve S 0 fuel val0).isSome = true :=
  maxmin_terminates_wf S hwf nv hnv val0 fuel hfuel

/-- with `nc` constraints: `#variables + #constraints + 1` is enough a fortiori -/
theorem maxmin_terminates_nc (S : Sys) (hwf : WF S) (nv nc : Nat)
    (hnv : ∀ c ∈ S.active, ∀ e ∈ (S.cnst c).elems, e.1 < nv) (val0 : Nat → Rat) :
    (maxminSolve S 0 (nv + nc + 1) val0).isSome = true :=
  maxmin_terminates_wf S hwf nv hnv val0 _ (by omega)

/-- **total correctness of `maxmin_solve` for C15**: on every well-formed system the solver returns, and what it
returns is feasible (all three clauses of `maxmin_feasible`) -/
theorem maxmin_total_feasible (S : Sys) (hwf : WF S) (nv : Nat)
    (hnv : ∀ c ∈ S.active, ∀ e ∈ (S.cnst c).elems, e.1 < nv) (val0 : Nat → Rat) :
    ∃ st, maxminSolve S 0 (nv + 1) val0 = some st ∧
      (∀ c ∈ S.active, load S st.value c ≤ (S.cnst c).bound) ∧
      (∀ c ∈ S.active, ∀ e ∈ (S.cnst c).elems,
        0 ≤ st.value e.1 ∧ (0 < (S.var e.1).bound → st.value e.1 ≤ (S.var e.1).bound)) ∧
      (∀ v, (∀ c ∈ S.active, ∀ e ∈ (S.cnst c).elems, e.1 ≠ v) → st.value v = val0 v) := by
  have h := maxmin_terminates_wf S hwf nv hnv val0 (nv + 1) (le_refl _)
  cases hs : maxminSolve S 0 (nv + 1) val0 with
  | none => rw [hs] at h; simp at h
  | some st => exact ⟨st, rfl, maxmin_feasible S hwf val0 (nv + 1) st hs⟩

/-- non-vacuity: `exSys` (SHARED + FATPIPE constraint, a bounded variable) meets the hypotheses with `nv = 3` -/
example : (maxminSolve exSys 0 4 (fun _ => 0)).isSome = true :=
  maxmin_terminates exSys exSys_wf 3
    (by intro c hc e he; simp [exSys] at hc
        rcases hc with rfl | rfl <;> simp [exSys] at he <;> rcases he with rfl | rfl | rfl <;> simp)
    _ 4 (by omega)

/-- the first-pass statements (summing constraints only) are corollaries -/
theorem maxmin_terminates_partial (S : Sys) (hwf : WF S) (_hsh : ∀ c ∈ S.active, (S.cnst c).fatpipe = false) (nv : Nat)
    (hnv : ∀ c ∈ S.active, ∀ e ∈ (S.cnst c).elems, e.1 < nv) (val0 : Nat → Rat) (fuel : Nat) (hfuel : nv + 1 ≤ fuel) :
    (maxminSolve S 0 fuel val0).isSome = true :=
  maxmin_terminates S hwf nv hnv val0 fuel hfuel

theorem maxmin_terminates_partial_nc (S : Sys) (hwf : WF S) (_hsh : ∀ c ∈ S.active, (S.cnst c).fatpipe = false) (nv nc : Nat)
    (hnv : ∀ c ∈ S.active, ∀ e ∈ (S.cnst c).elems, e.1 < nv) (val0 : Nat → Rat) :
    (maxminSolve S 0 (nv + nc + 1) val0).isSome = true :=
  maxmin_terminates_nc S hwf nv nc hnv val0

theorem maxmin_total_feasible_partial (S : Sys) (hwf : WF S) (_hsh : ∀ c ∈ S.active, (S.cnst c).fatpipe = false) (nv : Nat)
    (hnv : ∀ c ∈ S.active, ∀ e ∈ (S.cnst c).elems, e.1 < nv) (val0 : Nat → Rat) :
    ∃ st, maxminSolve S 0 (nv + 1) val0 = some st ∧ ∀ c ∈ S.active, load S st.value c ≤ (S.cnst c).bound := by
  obtain ⟨st, h1, h2, _⟩ := maxmin_total_feasible S hwf nv hnv val0
  exact ⟨st, h1, h2⟩

end SgVerif.C15
