import SgVerif.Lmm.Model
namespace SgVerif.C15
open SgVerif.Lmm

theorem placeholder : True := trivial

end SgVerif.C15
