/-
C15 — sharing solvers never exceed capacities.  Theorems about the model lean/SgVerif/Lmm/Model.lean
(invariant and its preservation: lean/SgVerif/Lmm/Lemmas.lean).

All theorems quantify over every system `S` (any number of constraints, variables, elements; any rationals) that is
well formed (`WF`: positive capacities, enabled elements have positive penalty and non-negative weight, the
per-constraint and per-variable element views carry the same weights), every initial value table and every fuel.
`eps = 0` is the exact-arithmetic reading of `sg_precision_workamount` (see `dblEq` in the model).
-/
import SgVerif.Lmm.Lemmas
namespace SgVerif.C15
open SgVerif.Lmm

/-- load of a summing constraint as `Constraint::get_load` computes it = Σ w·value -/
theorem load_shared (S : Sys) (val : Nat → Rat) (c : Nat) (hf : (S.cnst c).fatpipe = false) :
    load S val c = sumBy (fun e => if 0 < e.2 then e.2 * val e.1 else 0) (S.cnst c).elems := by
  unfold load
  simp only [hf, Bool.not_false, if_true]
  have : (fun (s : Rat) (e : Nat × Rat) => if 0 < e.2 then s + e.2 * val e.1 else s) =
      (fun s e => s + (if 0 < e.2 then e.2 * val e.1 else 0)) := by
    funext s e; split <;> simp
  rw [this, foldl_add_eq]; simp

theorem load_fat_le (S : Sys) (val : Nat → Rat) (c : Nat) (hf : (S.cnst c).fatpipe = true) (B : Rat) (hB : 0 ≤ B)
    (h : ∀ e ∈ (S.cnst c).elems, 0 < e.2 → e.2 * val e.1 ≤ B) : load S val c ≤ B := by
  unfold load
  simp only [hf, Bool.not_true, Bool.false_eq_true, if_false]
  have gen : ∀ (l : List (Nat × Rat)) (a : Rat), a ≤ B → (∀ e ∈ l, 0 < e.2 → e.2 * val e.1 ≤ B) →
      l.foldl (fun s e => if 0 < e.2 then (if s < e.2 * val e.1 then e.2 * val e.1 else s) else s) a ≤ B := by
    intro l
    induction l with
    | nil => intro a ha _; simpa using ha
    | cons e t ih =>
      intro a ha hl
      simp only [List.foldl_cons]
      apply ih _ _ (fun e he => hl e (by simp [he]))
      split
      · split
        · exact hl e (by simp) ‹_›
        · exact ha
      · exact ha
  exact gen _ 0 hB h

/-- **C15, maxmin, exact arithmetic.**  Whenever `maxmin_solve` returns (the model ran out of neither fuel nor
assertions), for every active constraint the load computed as `get_load()` does — the weighted *sum* of the rates for a
summing constraint, the weighted *max* for a FATPIPE one — is at most the capacity; every variable of an enabled
element set has a rate ≥ 0 and ≤ its bound when it has one; and a variable that is in no enabled element set
(disabled, suspended, or without constraint) keeps the value it had (0 after `disable_var`). -/
theorem maxmin_feasible (S : Sys) (hwf : WF S) (val0 : Nat → Rat) (fuel : Nat) (st : St)
    (h : maxminSolve S 0 fuel val0 = some st) :
    (∀ c ∈ S.active, load S st.value c ≤ (S.cnst c).bound) ∧
    (∀ c ∈ S.active, ∀ e ∈ (S.cnst c).elems,
      0 ≤ st.value e.1 ∧ (0 < (S.var e.1).bound → st.value e.1 ≤ (S.var e.1).bound)) ∧
    (∀ v, (∀ c ∈ S.active, ∀ e ∈ (S.cnst c).elems, e.1 ≠ v) → st.value v = val0 v) := by
  unfold maxminSolve at h
  have hi := init_rinv S hwf val0
  have hl := loop_inv_frame S hwf fuel _ _ st hi.1 (sv_in_elems S _ hi.1.l hi.1.sel) h
  obtain ⟨⟨sv', hR⟩, _, hframe⟩ := hl
  have hG := hR.g
  refine ⟨?_, ?_, ?_⟩
  · intro c hc
    cases hf : (S.cnst c).fatpipe with
    | false =>
      rw [load_shared S st.value c hf]
      have h0 := hG.sh_H0 c hc hf
      have : sumBy (fun e => if 0 < e.2 then e.2 * st.value e.1 else 0) (S.cnst c).elems =
          fixedLoad S st.fixed st.value c := by
        unfold fixedLoad
        apply sumBy_congr
        intro e he
        have hw := hwf.el_w c hc e he
        cases hfx : st.fixed e.1 with
        | false => rw [hG.val0 c hc e he hfx]; simp
        | true =>
          by_cases h0 : 0 < e.2
          · simp [h0]
          · have : e.2 = 0 := by linarith
            simp [this]
      rw [this]; linarith
    | true =>
      apply load_fat_le S st.value c hf _ (le_of_lt (hwf.cb_pos c hc))
      intro e he _
      cases hfx : st.fixed e.1 with
      | false => rw [hG.val0 c hc e he hfx]; simpa using le_of_lt (hwf.cb_pos c hc)
      | true => exact hG.ft_feas c hc hf e he hfx
  · intro c hc e he
    cases hfx : st.fixed e.1 with
    | false =>
      rw [hG.val0 c hc e he hfx]
      exact ⟨le_refl 0, fun hb => le_of_lt hb⟩
    | true => exact ⟨le_of_lt (hG.valpos e.1 hfx), hG.valb e.1 hfx⟩
  · intro v hv
    rw [(hframe v hv).1]
    exact hi.2.1 v hv

end SgVerif.C15
