/-
C21 (shared with C19) — the "fluid" model of resource actions over time, Full update algorithm.

Mirrors, branch by branch (exact arithmetic on `Rat`, the precision constants are parameters):
  src/simgrid/math_utils.h                 double_update
  src/kernel/resource/Action.cpp           Action::{update_remains, update_max_duration, finish, suspend, resume,
                                                    set_bound, set_sharing_penalty} (Full-mode branches)
  src/kernel/resource/Model.cpp            Model::next_occurring_event_full
  src/kernel/resource/CpuImpl.cpp          CpuModel::update_actions_state_full
  src/kernel/resource/models/network_cm02.cpp   NetworkCm02Model::update_actions_state_full (latency then data phase)
  src/kernel/resource/models/disk_s19.cpp  DiskS19Model::update_actions_state (rint of the transferred amount)
The LMM solution is an INPUT: `rates : List Action → Nat → Rat` (C15/C16/C17 model the solver).  The only facts used about
it are the ones `System::solve` and `disable_var` guarantee: values are ≥ 0 and a variable whose penalty is 0
(suspended, sleeping, latency phase) has value 0 — the latter is built into `Action.rate`.
The Lazy algorithm (heap of predicted dates) and TI are in SgVerif/C19/Model.lean.
-/
namespace SgVerif.C21

/-- `double_update(&v, d, precision)`:  `*v -= d; if (*v < precision) *v = 0;` -/
def doubleUpdate (prec v d : Rat) : Rat :=
  let x := v - d
  if x < prec then 0 else x

/-- `Action::State` -/
inductive St where
  | inited | started | failed | finished | ignored
  deriving DecidableEq, Repr

/-- `Action::SuspendStates` -/
inductive Susp where
  | running | suspended | sleeping
  deriving DecidableEq, Repr

/-- which `update_actions_state_full` handles the action -/
inductive Kind where
  | cpu | net | disk
  deriving DecidableEq, Repr

/-- precision parameters: `sg_precision_workamount * sg_precision_timing` (remains) and `sg_precision_timing` -/
structure Prec where
  work : Rat
  timing : Rat

structure Action where
  kind : Kind := .cpu
  cost : Rat
  remains : Rat
  /-- `max_duration_`; `none` is `NO_MAX_DURATION` (-1) -/
  maxDuration : Option Rat := none
  start : Rat := 0
  /-- `finish_time_`; `none` is -1 -/
  finish : Option Rat := none
  /-- `Action::sharing_penalty_` (kept while suspended) -/
  penalty : Rat := 1
  /-- penalty of the LMM variable: 0 while suspended / sleeping / in the latency phase (`disable_var`) -/
  varPenalty : Rat := 1
  /-- value of the LMM variable as left by the last `solve` -/
  varValue : Rat := 0
  /-- `factor_` (bandwidth factor; 1 for CPUs and disks) -/
  factor : Rat := 1
  /-- bound of the LMM variable -/
  bound : Rat := -1
  susp : Susp := .running
  state : St := .started
  /-- `NetworkCm02Action::latency_` still to pay (Full mode) -/
  latency : Rat := 0
  /-- the variable has no constraint (`get_number_of_constraint() == 0`: vivaldi-like, infinite bandwidth) -/
  noConstraint : Bool := false
  /-- ghost: Σ rate·δ received so far (not in the C++; what `work_conserved` talks about) -/
  done : Rat := 0
  deriving Repr

namespace Action

/-- `Action::get_rate()`: `variable_->get_value() * factor_`.  `disable_var` sets `value_ = 0` and `solve` never touches a
disabled variable, hence the `if`. -/
def rate (a : Action) : Rat := if 0 < a.varPenalty then a.varValue * a.factor else 0

/-- `Action::update_remains(delta)`: `double_update(&remains_, delta, sg_precision_workamount * sg_precision_timing)` -/
def updateRemains (p : Prec) (a : Action) (amount : Rat) : Action :=
  { a with remains := doubleUpdate p.work a.remains amount }

/-- `Action::update_max_duration(delta)` -/
def updateMaxDuration (p : Prec) (a : Action) (delta : Rat) : Action :=
  match a.maxDuration with
  | none => a
  | some m => { a with maxDuration := some (doubleUpdate p.timing m delta) }

/-- `Action::finish(FINISHED)`: `finish_time_ = now; set_remains(0); set_state(state)` -/
def finishAt (a : Action) (now : Rat) : Action :=
  { a with finish := some now, remains := 0, state := .finished }

/-- `Action::suspend()` in Full mode: `update_variable_penalty(var, 0)` (value becomes 0), `suspended_ = SUSPENDED` -/
def suspend (a : Action) : Action :=
  if a.susp ≠ .sleeping then { a with varPenalty := 0, varValue := 0, susp := .suspended } else a

/-- `Action::resume()`: `update_variable_penalty(var, get_sharing_penalty())`, `suspended_ = RUNNING`.
(For a network action still in its latency phase this re-enables the variable at once: the code does the same.) -/
def resume (a : Action) : Action :=
  if a.susp ≠ .sleeping then { a with varPenalty := a.penalty, susp := .running } else a

/-- `Action::set_bound(bound)` -/
def setBound (a : Action) (b : Rat) : Action := { a with bound := b }

/-- `Action::set_sharing_penalty(p)`: `sharing_penalty_ = p; update_variable_penalty(var, p)` — also on a suspended
action (the code re-enables the variable without touching `suspended_`). -/
def setPenalty (a : Action) (p : Rat) : Action :=
  { a with penalty := p, varPenalty := p, varValue := if 0 < p then a.varValue else 0 }

/-- the completion test shared by the three `update_actions_state_full`:
`(remains <= 0 && var->get_penalty() > 0) || (max_duration != NO_MAX_DURATION && max_duration <= 0)` -/
def completes (a : Action) : Bool :=
  (decide (a.remains ≤ 0) && decide (0 < a.varPenalty)) ||
    (match a.maxDuration with | none => false | some m => decide (m ≤ 0))

/-- the tail shared by the three `update_actions_state_full` bodies: `update_remains(amount)` (ghost: `work` received),
`update_max_duration(delta)`, completion test, `finish(FINISHED)` -/
def applyStep (p : Prec) (now delta amount work : Rat) (a : Action) : Action :=
  let a := { (a.updateRemains p amount) with done := a.done + work }
  let a := a.updateMaxDuration p delta
  if a.completes then a.finishAt now else a

/-- body of the loop of `CpuModel::update_actions_state_full(now, delta)` for one started action
(`now` is the date *after* the advance): `update_remains(get_rate() * delta)` … -/
def cpuStepFull (p : Prec) (now delta : Rat) (a : Action) : Action :=
  a.applyStep p now delta (a.rate * delta) (a.rate * delta)

/-- round half to even, as `rint` in the default rounding mode -/
def rint (x : Rat) : Int :=
  let f := x.floor
  let d := x - f
  if d < 1/2 then f else if 1/2 < d then f + 1 else if f % 2 = 0 then f else f + 1

/-- `DiskS19Model::update_actions_state`: `action.update_remains(rint(action.get_rate() * delta))` -/
def diskStepFull (p : Prec) (now delta : Rat) (a : Action) : Action :=
  a.applyStep p now delta (rint (a.rate * delta)) (a.rate * delta)

/-- the latency part of `NetworkCm02Model::update_actions_state_full`:
`if (latency_ > 0) { if (latency_ > delta) double_update(&latency_, delta, prec) else latency_ = 0;
   if (latency_ <= 0 && not is_suspended()) update_variable_penalty(var, sharing_penalty_); }` -/
def newLatency (p : Prec) (delta : Rat) (a : Action) : Rat :=
  if delta < a.latency then doubleUpdate p.timing a.latency delta else 0

def payLatency (p : Prec) (delta : Rat) (a : Action) : Action :=
  if 0 < a.latency then
    if a.newLatency p delta ≤ 0 ∧ a.susp ≠ .suspended then
      { a with latency := a.newLatency p delta, varPenalty := a.penalty }
    else { a with latency := a.newLatency p delta }
  else a

/-- body of the loop of `NetworkCm02Model::update_actions_state_full`: latency phase, then data phase -/
def netStepFull (p : Prec) (now delta : Rat) (a : Action) : Action :=
  let a := a.payLatency p delta
  -- if (not get_number_of_constraint()) update_remains(get_remains());
  let a := if a.noConstraint then a.updateRemains p a.remains else a
  -- update_remains(get_rate() * delta): the variable value is still the one of the last solve (0 if it was disabled)
  a.applyStep p now delta (a.rate * delta) (a.rate * delta)

def stepFull (p : Prec) (now delta : Rat) (a : Action) : Action :=
  if a.state ≠ .started then a else
  match a.kind with
  | .cpu => a.cpuStepFull p now delta
  | .net => a.netStepFull p now delta
  | .disk => a.diskStepFull p now delta

end Action

/-- `min < 0 || value < min` with `min = -1` encoded as `none` -/
def minOpt (m : Option Rat) (v : Rat) : Option Rat :=
  match m with
  | none => some v
  | some x => if v < x then some v else some x

/-- `Model::next_occurring_event_full` (after `solve`): minimum over the started actions of `remains/rate` (0 when
`remains <= 0`) and of `max_duration`; `none` is the `-1` of the code. -/
def nextEventFull : List Action → Option Rat → Option Rat
  | [], m => m
  | a :: as, m =>
    if a.state ≠ .started then nextEventFull as m else
    let m := if 0 < a.rate then minOpt m (if 0 < a.remains then a.remains / a.rate else 0) else m
    let m := match a.maxDuration with
      | some d => if 0 ≤ d then minOpt m d else m
      | none => m
    nextEventFull as m

/-- the system: the date and the actions of one model (all actions ever created, in creation order) -/
structure Sys where
  now : Rat := 0
  acts : List Action := []
  deriving Repr

/-- user operations (simcalls issued between two engine rounds) and engine rounds -/
inductive Cmd where
  /-- a new action starts (Action constructor: `remains = cost`, `start_time = now`, STARTED) -/
  | start (kind : Kind) (cost bound penalty : Rat) (latency : Rat)
  | suspend (i : Nat)
  | resume (i : Nat)
  | setBound (i : Nat) (b : Rat)
  | setPenalty (i : Nat) (p : Rat)
  /-- one round of `EngineImpl::solve`: LMM solve, `next_occurring_event_full`, the date advances by
  `min(that, other)` where `other` is what the other models / timers / profile events allow (`none`: nothing else),
  then `update_actions_state_full`.  -/
  | advance (other : Option Rat)
  deriving Repr

def modifyAt : List Action → Nat → (Action → Action) → List Action
  | [], _, _ => []
  | a :: as, 0, f => f a :: as
  | a :: as, i + 1, f => a :: modifyAt as i f

/-- `solve`: the enabled variables of running actions get the value chosen by `rates`, a function of the whole state
`whole` and of the position `i` of the action (disabled variables are never touched by the solver) -/
def assignFrom (rates : List Action → Nat → Rat) (whole : List Action) : Nat → List Action → List Action
  | _, [] => []
  | i, a :: as =>
    (if 0 < a.varPenalty ∧ a.state = .started then { a with varValue := rates whole i } else a)
      :: assignFrom rates whole (i + 1) as

def assignRates (rates : List Action → Nat → Rat) (l : List Action) : List Action := assignFrom rates l 0 l

/-- the step length chosen by `EngineImpl::solve` -/
def chooseDelta (acts : List Action) (other : Option Rat) : Option Rat :=
  match nextEventFull acts none, other with
  | some m, some o => some (if o < m then o else m)
  | some m, none => some m
  | none, some o => some o
  | none, none => none


def Sys.exec (p : Prec) (rates : List Action → Nat → Rat) (s : Sys) : Cmd → Sys
  | .start k cost bound penalty lat =>
    { s with acts := s.acts ++ [{ kind := k, cost := cost, remains := cost, start := s.now, bound := bound,
                                  penalty := penalty, latency := lat,
                                  -- comm_action_set_variable: penalty 0 while the latency is not paid
                                  varPenalty := if k = .net ∧ 0 < lat then 0 else penalty }] }
  | .suspend i => { s with acts := modifyAt s.acts i Action.suspend }
  | .resume i => { s with acts := modifyAt s.acts i Action.resume }
  | .setBound i b => { s with acts := modifyAt s.acts i (·.setBound b) }
  | .setPenalty i q => { s with acts := modifyAt s.acts i (·.setPenalty q) }
  | .advance other =>
    let acts := assignRates rates s.acts
    let delta : Option Rat := chooseDelta acts other
    match delta with
    | none => { s with acts := acts }            -- "No next event at all. Bail out now."
    | some d =>
      let now := s.now + d
      { now := now, acts := acts.map (Action.stepFull p now d) }

def Sys.run (p : Prec) (rates : List Action → Nat → Rat) : Sys → List Cmd → Sys
  | s, [] => s
  | s, c :: cs => Sys.run p rates (s.exec p rates c) cs

/-! ### Closed form of max-min sharing for the symmetric system of `equal_execs_share`
`k` variables of penalty 1 and bound `S` (single-core execs: `variable_new(action, 1.0, 1*speed, 1)`) on one constraint
of capacity `n*S` (`core_count * speed`), each with consumption weight 1. -/

/-- what the saturation loop of `lmm::MaxMin` computes for this system: every variable gets `min(S, n*S/k)` -/
def equalShare (S : Rat) (n k : Nat) : Rat :=
  if k ≤ n then S else S * n / k

/-- the same for `k` execs of `t` threads each (`execution_start(size, t, …)`: `variable_new(action, 1/t, t*speed, 1)`,
consumption weight 1): every variable gets `min(t*S, n*S/k)`; `t = 1` is `equalShare` -/
def equalShareT (S : Rat) (n k t : Nat) : Rat :=
  if k * t ≤ n then t * S else S * n / k

end SgVerif.C21
