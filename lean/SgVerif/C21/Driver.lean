import SgVerif.C21.Model
import SgVerif.Common.Proto
/-
C21 driver.  One line per generated workload (see props/C21/check.py for how the harness output is canonicalised):

  c21 <precWork> <precTiming> <rateMode> { ACT id kind cost res,res,.. } { RES rid S|F } [ EQ S n k ]
      { CAP rid mult t0:v0,t1:v1,.. } { EQH host threads }
     => { T now delta { A id remaining rate } { R rid load cap } } { E id start finish state } END t

Numbers are exact rationals p/q (the doubles printed with %a by the harness).  For every sampling interval the driver
  * (monitor) checks: time is consistent, remaining never increases, no work without time, the load inferred from the
    drops of `remaining` and the reported load of every resource are within its capacity, equal execs progress at
    S·min(1,n/k), every activity ends DONE with remaining 0 reached exactly at its finish date, Σ drops = cost;
  * (monitor, platform lane) `CAP`/`EQH` come from the generated platform DESCRIPTION (props/_shared/fluid/gen.py
    `platform_tokens`: speed of the pstate in force × speed-profile scale in force × cores; bandwidth profile), never from
    the kernel: during every step longer than the timing precision the reported and the received load of `rid` are within
    `mult·v(t)`, and on an `EQH` host (all execs use `threads` cores, no bound, priority 1, never touched) each of the `k`
    execs running during the step progresses at `v(t)·min(threads, cores/k)` (`equalShareT`, `equal_execs_share_threads`);
  * (model agreement) replays `Action.stepFull`'s arithmetic — `update_remains(rate·δ)` with the kernel's rate — from the
    previous sampled `remaining` and compares with the next sampled `remaining`.
-/
open SgVerif.Proto
namespace SgVerif.C21

def parseRat (s : String) : Option Rat :=
  match s.splitOn "/" with
  | [n, d] => match n.toInt?, d.toNat? with
    | some n, some d => if d = 0 then none else some ((n : Rat) / (d : Rat))
    | _, _ => none
  | [n] => n.toInt?.map (fun n => (n : Rat))
  | _ => none

def rabs (x : Rat) : Rat := if x < 0 then -x else x
def rmax (x y : Rat) : Rat := if x < y then y else x

structure ActInfo where
  id : String
  kind : Kind
  cost : Rat
  res : List String

structure Query where
  prec : Prec
  /-- 1: the kernel rate (LMM value × factor) is meaningful; 0: TI (no LMM variable) -/
  rateMode : Nat
  acts : List ActInfo
  fat : List String
  eq : Option (Rat × Nat × Nat)
  /-- platform capacity timelines: (resource, multiplier, [(date, value in force from that date on)]) -/
  caps : List (String × Rat × List (Rat × Rat)) := []
  /-- uniform hosts: (host, threads of every exec) -/
  eqh : List (String × Nat) := []

structure Sample where
  now : Rat
  delta : Rat
  acts : List (String × Rat × Rat)
  res : List (String × Rat × Rat)

structure EndRec where
  id : String
  start : Rat
  finish : Rat
  state : String

def parseKind : String → Option Kind
  | "e" => some .cpu | "c" => some .net | "i" => some .disk | _ => none

def parseTimeline (s : String) : Option (List (Rat × Rat)) :=
  (s.splitOn ",").mapM (fun e => match e.splitOn ":" with
    | [t, v] => match parseRat t, parseRat v with
      | some t, some v => some (t, v)
      | _, _ => none
    | _ => none)

/-- drop the entries superseded at date `t` (the timeline is sorted; the head is the value in force) -/
def advanceTl (t : Rat) : List (Rat × Rat) → List (Rat × Rat)
  | a :: b :: rest => if b.1 ≤ t then advanceTl t (b :: rest) else a :: b :: rest
  | l => l

partial def parseQuery : List String → Query → Option Query
  | [], q => some q
  | "ACT" :: id :: k :: cost :: res :: rest, q =>
    match parseKind k, parseRat cost with
    | some k, some c =>
      let ai : ActInfo := ActInfo.mk id k c (if res = "-" then [] else res.splitOn ",")
      parseQuery rest { q with acts := q.acts ++ [ai] }
    | _, _ => none
  | "RES" :: rid :: pol :: rest, q => parseQuery rest (if pol = "F" then { q with fat := rid :: q.fat } else q)
  | "EQ" :: s :: n :: k :: rest, q =>
    match parseRat s, n.toNat?, k.toNat? with
    | some s, some n, some k => parseQuery rest { q with eq := some (s, n, k) }
    | _, _, _ => none
  | "CAP" :: rid :: mult :: tl :: rest, q =>
    match parseRat mult, parseTimeline tl with
    | some m, some tl => parseQuery rest { q with caps := q.caps ++ [(rid, m, tl)] }
    | _, _ => none
  | "EQH" :: rid :: t :: rest, q =>
    match t.toNat? with
    | some t => parseQuery rest { q with eqh := q.eqh ++ [(rid, t)] }
    | none => none
  | _, _ => none

/-- parse the answer tokens into samples (reversed) and end records -/
partial def parseAns : List String → List Sample → List EndRec → Option (List Sample × List EndRec × Rat)
  | ["END", t], ss, es => (parseRat t).map (fun t => (ss.reverse, es.reverse, t))
  | "T" :: now :: d :: rest, ss, es =>
    match parseRat now, parseRat d with
    | some now, some d => parseAns rest ({ now := now, delta := d, acts := [], res := [] } :: ss) es
    | _, _ => none
  | "A" :: id :: rem :: rate :: rest, s :: ss, es =>
    match parseRat rem, parseRat rate with
    | some rem, some rate => parseAns rest ({ s with acts := s.acts ++ [(id, rem, rate)] } :: ss) es
    | _, _ => none
  | "R" :: rid :: load :: cap :: rest, s :: ss, es =>
    match parseRat load, parseRat cap with
    | some l, some c => parseAns rest ({ s with res := s.res ++ [(rid, l, c)] } :: ss) es
    | _, _ => none
  | "E" :: id :: st :: fin :: state :: rest, ss, es =>
    match parseRat st, parseRat fin with
    | some st, some fin => parseAns rest ss ({ id := id, start := st, finish := fin, state := state } :: es)
    | _, _ => none
  | _, _, _ => none

/-- per-activity running state of the scan -/
structure Track where
  info : ActInfo
  prev : Rat            -- last sampled remaining (cost before the first sample)
  total : Rat := 0      -- Σ inferred rate·δ = Σ drops
  zeroAt : Option Rat := none   -- date of the first sample with remaining = 0
  seen : Bool := false

def relTol : Rat := 1 / 1000000000

/-- tolerance on an amount of work of activity `a` moving at `rate`: 1e-9 relative to the cost (+1e-9 absolute), the
work done during the `sg_precision_timing` window in which the Lazy heap accepts a completion, and, for I/Os, the byte
rounding (`rint`) of the disk model -/
def tolWork (p : Prec) (a : ActInfo) (rate : Rat) : Rat :=
  a.cost * relTol + relTol + 2 * p.timing * rabs rate + p.work + (if a.kind = .disk then 1 else 0)

inductive Out where
  | ok
  | mon (s : String)
  | dis (s : String)

/-- the model's prediction of `remaining` after an interval (`Action.stepFull` on a started action) -/
def modelRemains (p : Prec) (a : ActInfo) (prev rate delta : Rat) (now : Rat) : Rat :=
  let act : Action := { kind := a.kind, cost := a.cost, remains := prev, varValue := rate, varPenalty := 1, factor := 1 }
  (act.stepFull p now delta).remains

def checkSample (q : Query) (prevNow : Rat) (s : Sample) (tr : List Track) : Out × List Track := Id.run do
  -- time consistency
  if s.delta < 0 then return (.mon s!"negative time step at {s.now}", tr)
  if rabs (prevNow + s.delta - s.now) > relTol * rmax 1 (rabs s.now) then
    return (.mon s!"time advance inconsistent: {prevNow} + {s.delta} vs {s.now}", tr)
  let mut tr := tr
  let mut out := Out.ok
  let mut inferred : List (String × Rat × Rat) := []     -- (activity, inferred rate, tolerance on it)
  let mut live : List String := []                       -- activities that still had work to do when the step began
  -- platform lane: value in force during the step = the one at its midpoint (the engine never steps over a speed or
  -- bandwidth change of a resource in use); steps within the timing precision are not judged
  let mid := prevNow + s.delta / 2
  let plat := s.delta > q.prec.timing
  let platCap := fun (rid : String) => match q.caps.find? (·.1 = rid) with
    | some (_, m, tl) => match advanceTl mid tl with
      | (_, v) :: _ => some (m, v)
      | [] => none
    | none => none
  for (id, rem, rate) in s.acts do
    match tr.find? (·.info.id = id) with
    | none => return (.dis s!"unknown activity {id}", tr)
    | some t =>
      let a := t.info
      let tol := tolWork q.prec a rate
      let drop := t.prev - rem
      -- monitor: remaining never increases, stays within [0, cost]
      if rem > t.prev + tol then out := .mon s!"remaining of {id} increased from {t.prev} to {rem} at {s.now}"
      if rem < 0 then out := .mon s!"remaining of {id} negative at {s.now}"
      -- monitor: no work without time
      if s.delta == 0 ∧ drop > tol then out := .mon s!"{id} progressed by {drop} in a zero-length step at {s.now}"
      -- model agreement: update_remains(rate·δ) from the previous sample
      if q.rateMode == 1 then
        let m := modelRemains q.prec a t.prev rate s.delta s.now
        if rabs (m - rem) > tol then
          match out with
          | .ok => out := .dis s!"{id} at {s.now}: model remains {m} impl {rem} (prev {t.prev} rate {rate} delta {s.delta})"
          | _ => pure ()
      if s.delta > 0 then inferred := (id, drop / s.delta, tol / s.delta) :: inferred
      if t.prev > 0 then live := id :: live
      let z := match t.zeroAt with
        | some z => some z
        | none => if rem == 0 then some s.now else none
      tr := tr.map (fun u => if u.info.id = id then { u with prev := rem, total := u.total + drop, zeroAt := z, seen := true } else u)
  -- monitor: loads within capacity (reported, and inferred from the drops)
  for (rid, load, cap) in s.res do
    if load > cap * (1 + relTol) + relTol then
      out := .mon s!"reported load {load} of {rid} exceeds capacity {cap} at {s.now}"
    let users := inferred.filter (fun (id, _, _) => match q.acts.find? (·.id = id) with
      | some a => a.res.contains rid
      | none => false)
    let fat := q.fat.contains rid
    let tot := if fat then users.foldl (fun m (_, r, _) => rmax m r) 0 else users.foldl (fun m (_, r, _) => m + r) 0
    let tt := users.foldl (fun m (_, _, t) => m + t) 0
    if tot > cap * (1 + relTol) + tt then
      out := .mon s!"work received on {rid} during the step ending at {s.now} is {tot} per second, capacity {cap}"
    -- the same two against the capacity the PLATFORM DESCRIPTION gives for this step
    if plat then
      match platCap rid with
      | some (m, v) =>
        let pc := m * v
        if load > pc * (1 + relTol) + relTol then
          out := .mon s!"reported load {load} of {rid} exceeds the platform capacity {pc} in force during the step ending at {s.now}"
        if tot > pc * (1 + relTol) + tt then
          out := .mon s!"work received on {rid} during the step ending at {s.now} is {tot} per second, platform capacity {pc}"
      | none => pure ()
  -- monitor: equal execs
  match q.eq with
  | some (S, n, k) =>
    if s.delta > 0 then
      let want := equalShare S n k
      for (id, r, t) in inferred do
        if rabs (r - want) > want * relTol + t then
          out := .mon s!"equal exec {id} progressed at {r}, expected S*min(1,n/k) = {want}"
  | none => pure ()
  -- monitor: k equal execs (threads cores each) running on an n-core host of speed S(t) each progress at S·min(threads, n/k)
  if plat then
    for (h, th) in q.eqh do
      match platCap h with
      | some (n, S) =>
        let mine := inferred.filter (fun (id, _, _) => live.contains id && (match q.acts.find? (·.id = id) with
          | some a => decide (a.kind = .cpu) && a.res.contains h
          | none => false))
        let k := mine.length
        let want := equalShareT S n.floor.toNat k th
        for (id, r, t) in mine do
          if rabs (r - want) > want * relTol + t then
            out := .mon s!"exec {id} on {h} progressed at {r} during the step ending at {s.now}: {k} equal execs of {th} thread(s) on {n} cores of speed {S} must each progress at S*min(threads,n/k) = {want}"
      | none => pure ()
  return (out, tr)

def checkEnd (q : Query) (tr : List Track) (e : EndRec) : Out :=
  match tr.find? (·.info.id = e.id) with
  | none => .dis s!"unknown activity {e.id}"
  | some t =>
    let tol := tolWork q.prec t.info 0
    if e.state ≠ "DONE" then .mon s!"{e.id} never completed (kernel state {e.state} at the end of the run)"
    else if e.finish < e.start then .mon s!"{e.id} finished before it started"
    else if t.prev ≠ 0 then .mon s!"{e.id} completed with remaining {t.prev}"
    -- a zero-cost activity has remaining 0 from its start (a zero-byte comm still pays its latency)
    else if t.info.cost ≠ 0 ∧ t.zeroAt ≠ some e.finish then .mon s!"{e.id}: remaining reached 0 at {t.zeroAt} but finish time is {e.finish}"
    else if rabs (t.total - t.info.cost) > tol then .mon s!"{e.id}: received {t.total}, requested {t.info.cost}"
    else .ok

def judge (qs ans : List String) : Verdict :=
  match qs with
  | "c21" :: pw :: pt :: rm :: rest =>
    match parseRat pw, parseRat pt, rm.toNat?, ans with
    | _, _, _, ["SKIP"] => .ok
    | some pw, some pt, some rm, _ =>
      match parseQuery rest { prec := { work := pw, timing := pt }, rateMode := rm, acts := [], fat := [], eq := none },
            parseAns ans [] [] with
      | some q, some (samples, ends, _) => Id.run do
        let mut tr : List Track := q.acts.map (fun a => { info := a, prev := a.cost })
        let mut prevNow : Rat := 0
        let mut dis : Option String := none
        for s in samples do
          let (o, tr') := checkSample q prevNow s tr
          tr := tr'
          prevNow := s.now
          match o with
          | .mon m => return .monfail m
          | .dis m => if dis.isNone then dis := some m
          | .ok => pure ()
        if ends.length ≠ q.acts.length then return .monfail "some activity has no end record"
        for e in ends do
          match checkEnd q tr e with
          | .mon m => return .monfail m
          | .dis m => if dis.isNone then dis := some m
          | .ok => pure ()
        match dis with
        | some m => return .disagree m
        | none => return .ok
      | _, _ => .bad
    | _, _, _, _ => .bad
  | _ => .bad

end SgVerif.C21

def main : IO Unit := SgVerif.Proto.run SgVerif.C21.judge
